import MlModel.Model.DequeueCache
import MlModel.Lemmas.Rebatch
/-!
# The `DequeueIterator` cache delivers what it is given — for every refill size

`kept maxlen b` = what survives of one refill `b` in a `deque(maxlen)`; the run of `__next__` calls
delivers `cache ++ pending.flatMap kept` (cut at `num_steps`), `drain_spec`.
-/
namespace MlModel.DequeueCache
open MlModel

variable {α : Type}

/-- what a `deque(maxlen)` that was empty holds after `extend(b)` -/
def kept (maxlen : Nat) (b : List α) : List α := dequeExtend maxlen [] b

theorem kept_zero (b : List α) : kept 0 b = b := by simp [kept, dequeExtend]

theorem kept_eq_drop (maxlen : Nat) (b : List α) : kept maxlen b = b.drop (b.length - maxlen) ∨ maxlen = 0 := by
  by_cases h : maxlen = 0
  · exact Or.inr h
  · left; simp [kept, dequeExtend, h]

/-- a refill that fits is kept whole -/
theorem kept_of_le {maxlen : Nat} {b : List α} (h : b.length ≤ maxlen) : kept maxlen b = b := by
  unfold kept dequeExtend
  by_cases h0 : maxlen = 0
  · simp [h0]
  · simp only [h0, if_false, List.nil_append]
    have : b.length - maxlen = 0 := by omega
    rw [this]; rfl

/-- a refill that does not fit loses exactly its `length - maxlen` OLDEST elements -/
theorem kept_of_gt {maxlen : Nat} (h0 : 0 < maxlen) {b : List α} (h : maxlen < b.length) :
    kept maxlen b = b.drop (b.length - maxlen) ∧ (kept maxlen b).length = maxlen := by
  have hne : maxlen ≠ 0 := by omega
  have e : kept maxlen b = b.drop (b.length - maxlen) := by simp [kept, dequeExtend, hne]
  refine ⟨e, ?_⟩
  rw [e, List.length_drop]; omega

theorem kept_length_le (maxlen : Nat) (b : List α) : (kept maxlen b).length ≤ b.length := by
  unfold kept dequeExtend
  by_cases h0 : maxlen = 0
  · simp [h0]
  · simp only [h0, if_false, List.nil_append, List.length_drop]; omega

theorem kept_ne_nil {maxlen : Nat} {b : List α} (hb : b ≠ []) : kept maxlen b ≠ [] := by
  have hpos : 0 < b.length := List.length_pos_iff.mpr hb
  by_cases h0 : maxlen = 0
  · subst h0; rw [kept_zero]; exact hb
  · intro hk
    have hl : (kept maxlen b).length = 0 := by rw [hk]; rfl
    have e : kept maxlen b = b.drop (b.length - maxlen) := by simp [kept, dequeExtend, h0]
    rw [e, List.length_drop] at hl
    omega

theorem kept_eq_self_iff {maxlen : Nat} (h0 : 0 < maxlen) (b : List α) :
    kept maxlen b = b ↔ b.length ≤ maxlen := by
  constructor
  · intro h
    by_cases hgt : maxlen < b.length
    · have := (kept_of_gt h0 hgt).2
      rw [h] at this; omega
    · omega
  · exact kept_of_le

/-- the elements the iterator will still deliver, ignoring `num_steps` -/
def St.rest (maxlen : Nat) (s : St α) : List α := s.cache ++ s.pending.flatMap (kept maxlen)

/-- … and with `num_steps` -/
def St.spec (maxlen : Nat) (numSteps : Option Nat) (s : St α) : List α :=
  match numSteps with
  | none => s.rest maxlen
  | some k => (s.rest maxlen).take (k - s.cnt)

/-- **The run of `__next__` calls.**  For every cache bound, every `num_steps`, every state whose future
refills are non-empty: with enough fuel the loop delivers exactly `spec` and then raises `StopIteration`. -/
theorem drain_spec (maxlen : Nat) (numSteps : Option Nat) :
    ∀ (fuel : Nat) (s : St α), (∀ b ∈ s.pending, b ≠ []) → (s.rest maxlen).length < fuel →
      (∀ k, numSteps = some k → s.cnt ≤ k) →
      (drainFuel maxlen numSteps fuel s).1 = s.spec maxlen numSteps ∧
      (drainFuel maxlen numSteps fuel s).2.1 = .stop := by
  intro fuel
  induction fuel with
  | zero => intro s _ h; exact absurd h (Nat.not_lt_zero _)
  | succ fuel ih =>
    intro s hne hfuel hcnt
    unfold drainFuel next
    by_cases hk : numSteps = some s.cnt
    · -- the `num_steps` exit
      simp only [hk, if_true]
      simp [St.spec]
    · simp only [hk, if_false]
      have hlt : ∀ k, numSteps = some k → s.cnt < k := by
        intro k hk'
        have := hcnt k hk'
        rcases Nat.lt_or_ge s.cnt k with h | h
        · exact h
        · exact absurd (by rw [hk']; congr 1; omega) hk
      cases hc : s.cache with
      | cons a rest =>
        simp only []
        have hs' := ih { s with cache := rest, cnt := s.cnt + 1 } hne
          (by simp only [St.rest, hc, List.cons_append, List.length_cons] at hfuel ⊢; omega)
          (by intro k hk'; have := hlt k hk'; simp only; omega)
        refine ⟨?_, hs'.2⟩
        rw [hs'.1]
        cases hn : numSteps with
        | none => simp [St.spec, St.rest, hc]
        | some k =>
          have := hlt k hn
          simp only [St.spec, St.rest, hc, List.cons_append]
          have e : k - s.cnt = (k - (s.cnt + 1)) + 1 := by omega
          rw [e, List.take_succ_cons]
      | nil =>
        cases hp : s.pending with
        | nil =>
          simp only []
          refine ⟨?_, by first | rfl | trivial⟩
          cases hn : numSteps <;> simp [St.spec, St.rest, hc, hp]
        | cons b bs =>
          simp only []
          have hb : b ≠ [] := hne b (by rw [hp]; exact List.mem_cons_self)
          have hkb : kept maxlen b ≠ [] := kept_ne_nil hb
          cases hkk : dequeExtend maxlen [] b with
          | nil => exact absurd hkk hkb
          | cons a rest =>
            simp only []
            have hkept : kept maxlen b = a :: rest := hkk
            have hs' := ih { s with cache := rest, pending := bs, cnt := s.cnt + 1 }
              (by intro b' hb'; exact hne b' (by rw [hp]; exact List.mem_cons_of_mem _ hb'))
              (by
                simp only [St.rest, hc, hp, List.flatMap_cons, hkept, List.nil_append, List.cons_append,
                  List.length_cons] at hfuel ⊢
                omega)
              (by intro k hk'; have := hlt k hk'; simp only; omega)
            refine ⟨?_, hs'.2⟩
            rw [hs'.1]
            cases hn : numSteps with
            | none => simp [St.spec, St.rest, hc, hp, hkept]
            | some k =>
              have := hlt k hn
              simp only [St.spec, St.rest, hc, hp, List.flatMap_cons, hkept, List.nil_append, List.cons_append]
              have e : k - s.cnt = (k - (s.cnt + 1)) + 1 := by omega
              rw [e, List.take_succ_cons]

/-- **Nothing disappears inside the iterator**: what was delivered, followed by what the final state still
holds (its cache and the kept part of the refills not yet fetched), is everything the initial state held. -/
theorem drain_rest (maxlen : Nat) (numSteps : Option Nat) :
    ∀ (fuel : Nat) (s : St α), (∀ b ∈ s.pending, b ≠ []) → (s.rest maxlen).length < fuel →
      (drainFuel maxlen numSteps fuel s).1 ++ (drainFuel maxlen numSteps fuel s).2.2.rest maxlen = s.rest maxlen := by
  intro fuel
  induction fuel with
  | zero => intro s _ h; exact absurd h (Nat.not_lt_zero _)
  | succ fuel ih =>
    intro s hne hfuel
    unfold drainFuel next
    by_cases hk : numSteps = some s.cnt
    · simp only [hk, if_true]
      simp [St.rest]
    · simp only [hk, if_false]
      cases hc : s.cache with
      | cons a rest =>
        simp only []
        have hs' := ih { s with cache := rest, cnt := s.cnt + 1 } hne
          (by simp only [St.rest, hc, List.cons_append, List.length_cons] at hfuel ⊢; omega)
        simp only [List.cons_append, hs']
        simp [St.rest, hc]
      | nil =>
        cases hp : s.pending with
        | nil =>
          simp only []
          simp [St.rest, hc, hp]
        | cons b bs =>
          simp only []
          have hb : b ≠ [] := hne b (by rw [hp]; exact List.mem_cons_self)
          have hkb : kept maxlen b ≠ [] := kept_ne_nil hb
          cases hkk : dequeExtend maxlen [] b with
          | nil => exact absurd hkk hkb
          | cons a rest =>
            simp only []
            have hkept : kept maxlen b = a :: rest := hkk
            have hs' := ih { s with cache := rest, pending := bs, cnt := s.cnt + 1 }
              (by intro b' hb'; exact hne b' (by rw [hp]; exact List.mem_cons_of_mem _ hb'))
              (by
                simp only [St.rest, hc, hp, List.flatMap_cons, hkept, List.nil_append, List.cons_append,
                  List.length_cons] at hfuel ⊢
                omega)
            simp only [List.cons_append, hs']
            simp [St.rest, hc, hp, hkept]

theorem flatMap_kept_length_le (maxlen : Nat) (bs : List (List α)) :
    (bs.flatMap (kept maxlen)).length ≤ bs.flatten.length := by
  induction bs with
  | nil => simp
  | cons b bs ih =>
    simp only [List.flatMap_cons, List.flatten_cons, List.length_append]
    have := kept_length_le maxlen b
    omega

/-- what a fresh iterator delivers: the kept part of every refill, in order, cut at `num_steps` -/
theorem delivered_eq (maxlen : Nat) (numSteps : Option Nat) (batches : List (List α))
    (hne : ∀ b ∈ batches, b ≠ []) :
    delivered maxlen numSteps batches =
      match numSteps with
      | none => batches.flatMap (kept maxlen)
      | some k => (batches.flatMap (kept maxlen)).take k := by
  unfold delivered
  have h := (drain_spec maxlen numSteps (St.fuel { pending := batches }) { pending := batches } hne
    (by
      simp only [St.rest, St.fuel, List.nil_append, List.length_nil, Nat.zero_add]
      have := flatMap_kept_length_le maxlen batches
      omega)
    (by intro k _; exact Nat.zero_le k)).1
  simp only [] at h ⊢
  rw [h]
  cases numSteps <;> simp [St.spec, St.rest]

theorem ending_stop (maxlen : Nat) (numSteps : Option Nat) (batches : List (List α))
    (hne : ∀ b ∈ batches, b ≠ []) : (ending maxlen numSteps batches).1 = .stop := by
  unfold ending
  exact (drain_spec maxlen numSteps (St.fuel { pending := batches }) { pending := batches } hne
    (by
      simp only [St.rest, St.fuel, List.nil_append, List.length_nil, Nat.zero_add]
      have := flatMap_kept_length_le maxlen batches
      omega)
    (by intro k _; exact Nat.zero_le k)).2

/-- conservation for a fresh iterator -/
theorem delivered_rest (maxlen : Nat) (numSteps : Option Nat) (batches : List (List α))
    (hne : ∀ b ∈ batches, b ≠ []) :
    delivered maxlen numSteps batches ++ (ending maxlen numSteps batches).2.rest maxlen
      = batches.flatMap (kept maxlen) := by
  unfold delivered ending
  have h := drain_rest maxlen numSteps (St.fuel { pending := batches }) { pending := batches } hne
    (by
      simp only [St.rest, St.fuel, List.nil_append, List.length_nil, Nat.zero_add]
      have := flatMap_kept_length_le maxlen batches
      omega)
  simpa [St.rest] using h

theorem flatMap_kept_zero (bs : List (List α)) : bs.flatMap (kept 0) = bs.flatten := by
  induction bs with
  | nil => rfl
  | cons b bs ih => simp [List.flatMap_cons, kept_zero, ih]

theorem flatMap_kept_of_le {maxlen : Nat} {bs : List (List α)} (h : ∀ b ∈ bs, b.length ≤ maxlen) :
    bs.flatMap (kept maxlen) = bs.flatten := by
  induction bs with
  | nil => rfl
  | cons b bs ih =>
    simp only [List.flatMap_cons, List.flatten_cons]
    rw [kept_of_le (h b List.mem_cons_self), ih (fun b' hb' => h b' (List.mem_cons_of_mem _ hb'))]

/-- a bounded cache loses something as soon as ONE refill is longer than it -/
theorem flatMap_kept_length_lt {maxlen : Nat} (h0 : 0 < maxlen) {bs : List (List α)}
    (h : ∃ b ∈ bs, maxlen < b.length) : (bs.flatMap (kept maxlen)).length < bs.flatten.length := by
  induction bs with
  | nil => obtain ⟨b, hb, _⟩ := h; cases hb
  | cons b bs ih =>
    simp only [List.flatMap_cons, List.flatten_cons, List.length_append]
    obtain ⟨b', hb', hlt⟩ := h
    rcases List.mem_cons.mp hb' with rfl | hin
    · have h1 := (kept_of_gt h0 hlt).2
      have h2 := flatMap_kept_length_le maxlen bs
      omega
    · have h1 := kept_length_le maxlen b
      have h2 := ih ⟨b', hin, hlt⟩
      omega

/-! ### refills of a pre-filled queue -/

theorem refills_flatten {bm : Nat} (hbm : 0 < bm) (xs : List α) : (refills bm xs).flatten = xs :=
  Rebatch.sliced_flatten hbm xs

theorem refills_mem {bm : Nat} (xs : List α) :
    ∀ b ∈ refills bm xs, b ≠ [] ∧ b.length ≤ bm := by
  unfold refills
  fun_induction Rebatch.sliced bm xs with
  | case1 xs h => intro b hb; cases hb
  | case2 xs h ih =>
    intro b hb
    have h1 : bm ≠ 0 := fun e => h (Or.inl e)
    have h2 : xs ≠ [] := fun e => h (Or.inr e)
    rcases List.mem_cons.mp hb with rfl | hin
    · refine ⟨?_, by simp only [List.length_take]; omega⟩
      intro ht
      have : (xs.take bm).length = 0 := by rw [ht]; rfl
      rw [List.length_take] at this
      have := List.length_pos_iff.mpr h2
      omega
    · exact ih b hin

end MlModel.DequeueCache
