import MlModel.Lemmas.QueueLiveDead
/-!
# The no-lost-wake-up invariant seen through an embedding

Systems that embed `Queue.stepThread` (the prefetching server, `Model/Prefetch.lean`) do not run the fixed
thread list of `Queue.init`: consumers come and go (every `get_batch` call of a request is a fresh
`Queue.Thread`), a slot of the thread list may belong to a thread that never touches this queue, and the
producer thread is created after the queue.  This file provides what is needed to carry `Queue.Live`
(`J1 J2 K1 K2` + `Base`) through such an embedding:

* `inertT`              — the slot of a thread that never takes a queue-level step on this queue;
* `live_set_quiet`      — a consumer between two `get_batch` calls (`QuietC`) may be replaced by another one
                          (a new call begins / the consumer stops calling, provided the queue is exhausted);
* `live_spawn`          — the first producer of a queue without declared `max_enqueuer` appears with its
                          `_start_enqueue` step;
* `live_fresh`          — the invariant holds for a fresh queue with an idle consumer slot;
* `dead_all_done`       — `no_deadlock_of_live` for configurations with inert slots.
-/
namespace MlModel.Queue

/-- the slot of a thread that never takes a queue-level step on this queue -/
def inertT : Thread := { prog := .stopper none, pc := .start }

/-- a `get_batch` consumer between two calls (about to call: `bAcq`) or finished -/
structure QuietC (t : Thread) : Prop where
  kind : t.prog.kind = .batch
  pc : t.pc = .bAcq ∨ t.pc = .done

theorem QuietC.class {t : Thread} (h : QuietC t) :
    sawEmpty t = false ∧ sawFull t = false ∧ debtD t = false ∧ debtDAll t = false ∧ debtE t = false ∧
    commitP t = false ∧ debtEAll t = false ∧ isProd t = false ∧ consWakePc t.pc = false ∧
    prodWakePc t.pc = false ∧ (∀ l, holds l t.pc = false) ∧ early t = false ∧ pastS t = false ∧
    pastT t = false ∧ isStopper t = false ∧ isCons t = true := by
  obtain ⟨hk, hp⟩ := h
  have h1 : isProd t = false := by simp [isProd, hk]
  have h2 : isStopper t = false := by simp [isStopper, hk]
  have h3 : isCons t = true := by simp [isCons, hk]
  rcases hp with hp | hp <;>
    simp [sawEmpty, sawFull, debtD, debtDAll, debtE, commitP, debtEAll, consWakePc, prodWakePc, holds, early,
      pastS, pastT, hp, h1, h2, h3]

theorem QuietC.tok {t : Thread} (h : QuietC t) : TOK t := by
  refine ⟨?_, fun hne => absurd h.kind hne⟩
  intro k hk
  rcases h.pc with hp | hp <;> rw [hp] at hk <;> simp [pcKind] at hk
  rw [h.kind, hk]

theorem QuietC.tl {t : Thread} (h : QuietC t) : TL t := by
  unfold TL
  rcases h.pc with hp | hp <;> simp [hp]

theorem QuietC.xok {s : Shared} {t : Thread} (h : QuietC t) (hx : t.pc = .done → s.exhausted = true) :
    XOK s t := by
  have hs := h.class.2.2.2.2.2.2.2.2.2.2.2.2.2.2.1
  unfold XOK armed
  rcases h.pc with hp | hp
  · simp [hp]
  · simp [hp, hs]
    intro _; exact Or.inl (hx hp)

/-- **A consumer between two calls may be replaced**: the caller begins a new `get_batch` call with a fresh
thread state, or stops calling (then the queue must be exhausted — that is when the server answers with
an end marker). -/
theorem live_set_quiet {c : Cfg} {i : Tid} {t t' : Thread} (hv : Live c) (ht : c.ths[i]? = some t)
    (hq : QuietC t) (hq' : QuietC t') (hx : t'.pc = .done → c.sh.exhausted = true) :
    Live { sh := c.sh, ths := c.ths.set i t' } := by
  obtain ⟨a1, a2, a3, a4, a5, a6, a7, a8, a9, a10, a11, a12, a13, a14, a15, a16⟩ := hq.class
  obtain ⟨b1, b2, b3, b4, b5, b6, b7, b8, b9, b10, b11, b12, b13, b14, b15, b16⟩ := hq'.class
  have hb := hv.base
  have hi : i < c.ths.length := (List.getElem?_eq_some_iff.mp ht).1
  have hdone : t'.pc = .done → c.sh.enqueueDone = true := fun h => hb.i3 (hx h)
  have hact : activeC t = true → activeC t' = true ∨ c.sh.enqueueDone = true := by
    intro _
    rcases hq'.pc with hp | hp
    · left; simp [activeC, hp]
    · exact Or.inr (hdone hp)
  -- a predicate that is false on both threads is unaffected
  have hsame : ∀ P : Thread → Bool, P t = false → P t' = false →
      (anyT { sh := c.sh, ths := c.ths.set i t' } P ↔ anyT c P) := by
    intro P h1 h2
    rw [anyT_set ht, anyT_iff ht, h1, h2]
  refine ⟨⟨?_, ?_, ?_, ?_, ?_, ?_, ?_, hb.i3⟩, ?_, ?_, ?_, ?_⟩
  · -- locks
    constructor
    · intro u tu hu l
      show c.sh.owner l = some u ↔ _
      by_cases hui : u = i
      · subst hui
        simp only [List.getElem?_set_self hi, Option.some.injEq] at hu
        subst hu
        rw [b11 l, (hb.lock.1 u t ht l), a11 l]
      · have hu' : c.ths[u]? = some tu := by
          rw [← hu]; exact (List.getElem?_set_ne (Ne.symm hui)).symm
        exact hb.lock.1 u tu hu' l
    · intro l u hu
      simp only [List.length_set]
      exact hb.lock.2 l u hu
  · intro u hu
    rcases List.mem_or_eq_of_mem_set hu with hu | rfl
    · exact hb.tok u hu
    · exact hq'.tok
  · intro u hu
    rcases List.mem_or_eq_of_mem_set hu with hu | rfl
    · exact hb.tl u hu
    · exact hq'.tl
  · intro u hu
    rcases List.mem_or_eq_of_mem_set hu with hu | rfl
    · exact hb.xok u hu
    · exact hq'.xok hx
  · obtain ⟨n1, n2, m1, m2⟩ := hb.wait
    refine ⟨n1, n2, fun x => ?_, fun x => ?_⟩
    · show x ∈ wlD c.sh ↔ ∃ u, (c.ths.set i t')[x]? = some u ∧ _
      rw [m1 x]
      by_cases hxi : x = i
      · subst hxi
        simp only [ht, List.getElem?_set_self hi, Option.some.injEq]
        constructor
        · rintro ⟨u, rfl, hu⟩; rw [a9] at hu; cases hu
        · rintro ⟨u, rfl, hu⟩; rw [b9] at hu; cases hu
      · rw [List.getElem?_set_ne (Ne.symm hxi)]
    · show x ∈ wlE c.sh ↔ ∃ u, (c.ths.set i t')[x]? = some u ∧ _
      rw [m2 x]
      by_cases hxi : x = i
      · subst hxi
        simp only [ht, List.getElem?_set_self hi, Option.some.injEq]
        constructor
        · rintro ⟨u, rfl, hu⟩; rw [a10] at hu; cases hu
        · rintro ⟨u, rfl, hu⟩; rw [b10] at hu; cases hu
      · rw [List.getElem?_set_ne (Ne.symm hxi)]
  · intro hsr
    obtain ⟨e1, e2, e3⟩ := hb.cnt hsr
    have c1 := countP_set' isProd (b := t') ht
    have c2 := countP_set' pastS (b := t') ht
    have c3 := countP_set' pastT (b := t') ht
    simp only [a8, b8, a13, b13, a14, b14, Bool.false_eq_true, if_false, Nat.add_zero] at c1 c2 c3
    exact ⟨by show c.sh.maxEnq = _; rw [c1]; exact e1, by show c.sh.start = _; rw [c2]; exact e2,
      by show c.sh.stop = _; rw [c3]; exact e3⟩
  · intro he
    rw [hsame early a12 b12] at he
    exact hb.early he
  · intro h1 h2
    rw [hsame sawEmpty a1 b1] at h1
    rw [hsame debtD a3 b3]
    rcases hv.j1 h1 h2 with h | h | h | h
    · exact Or.inl h
    · rw [anyT_iff ht] at h
      rw [anyT_set ht]
      rcases h with h | h
      · rcases hact h with h | h
        · exact Or.inr (Or.inl (Or.inl h))
        · exact Or.inr (Or.inr (Or.inr h))
      · exact Or.inr (Or.inl (Or.inr h))
    · exact Or.inr (Or.inr (Or.inl h))
    · exact Or.inr (Or.inr (Or.inr h))
  · intro h1 h2
    rw [hsame sawEmpty a1 b1] at h1
    rw [hsame debtDAll a4 b4]
    exact hv.j2 h1 h2
  · intro h1
    rw [hsame sawFull a2 b2] at h1
    rw [hsame debtE a5 b5, hsame commitP a6 b6]
    exact hv.k1 h1
  · intro h1 h2
    rw [hsame sawFull a2 b2] at h1
    rw [hsame debtEAll a7 b7]
    exact hv.k2 h1 h2

/-! ## inert slots -/

theorem inert_class :
    sawEmpty inertT = false ∧ sawFull inertT = false ∧ debtD inertT = false ∧ debtDAll inertT = false ∧
    debtE inertT = false ∧ commitP inertT = false ∧ debtEAll inertT = false ∧ isProd inertT = false ∧
    consWakePc inertT.pc = false ∧ prodWakePc inertT.pc = false ∧ (∀ l, holds l inertT.pc = false) ∧
    early inertT = false ∧ pastS inertT = false ∧ pastT inertT = false ∧ activeC inertT = false ∧
    isCons inertT = false := by
  simp [inertT, sawEmpty, sawFull, debtD, debtDAll, debtE, commitP, debtEAll, isProd, consWakePc, prodWakePc,
    holds, early, pastS, pastT, activeC, isCons, Prog.kind]

theorem inert_tok : TOK inertT := ⟨by intro k hk; simp [inertT, pcKind] at hk, fun _ => rfl⟩

theorem inert_tl : TL inertT := by simp [TL, inertT, stopped, stoppedOf]

theorem inert_xok (s : Shared) : XOK s inertT := by simp [XOK, inertT, armed]

/-- a slot that is inert or holds a consumer about to call `get_batch` -/
def IdleT (t : Thread) : Prop := t = inertT ∨ (QuietC t ∧ t.pc = .bAcq)

theorem IdleT.class {t : Thread} (h : IdleT t) :
    sawEmpty t = false ∧ sawFull t = false ∧ debtD t = false ∧ debtDAll t = false ∧ debtE t = false ∧
    commitP t = false ∧ debtEAll t = false ∧ isProd t = false ∧ consWakePc t.pc = false ∧
    prodWakePc t.pc = false ∧ (∀ l, holds l t.pc = false) ∧ early t = false ∧ pastS t = false ∧
    pastT t = false := by
  rcases h with rfl | ⟨h, _⟩
  · obtain ⟨a1, a2, a3, a4, a5, a6, a7, a8, a9, a10, a11, a12, a13, a14, -, -⟩ := inert_class
    exact ⟨a1, a2, a3, a4, a5, a6, a7, a8, a9, a10, a11, a12, a13, a14⟩
  · obtain ⟨a1, a2, a3, a4, a5, a6, a7, a8, a9, a10, a11, a12, a13, a14, -, -⟩ := h.class
    exact ⟨a1, a2, a3, a4, a5, a6, a7, a8, a9, a10, a11, a12, a13, a14⟩

/-- **A fresh queue**: the invariant holds when every slot is inert or an idle consumer. -/
theorem live_fresh (cap : Nat) (kp : Bool) (ths : List Thread) (hths : ∀ t ∈ ths, IdleT t) :
    Live { sh := { cap := cap, keepPartial := kp }, ths := ths } := by
  have hno : ∀ P : Thread → Bool, (∀ t, IdleT t → P t = false) →
      ¬ anyT { sh := { cap := cap, keepPartial := kp }, ths := ths } P := by
    rintro P hP ⟨t, ht, hp⟩
    rw [hP t (hths t ht)] at hp; cases hp
  have hcnt : ∀ P : Thread → Bool, (∀ t, IdleT t → P t = false) → ths.countP P = 0 := by
    intro P hP
    rw [List.countP_eq_zero]
    intro t ht; simp [hP t (hths t ht)]
  refine ⟨⟨⟨?_, ?_⟩, ?_, ?_, ?_, ⟨?_, ?_, ?_, ?_⟩, ?_, ?_, ?_⟩, ?_, ?_, ?_, ?_⟩
  · intro u tu hu l
    have := (hths tu (List.mem_of_getElem? hu)).class.2.2.2.2.2.2.2.2.2.2.1 l
    rw [this]
    cases l <;> simp [Shared.owner]
  · intro l u h
    cases l <;> simp [Shared.owner] at h
  · intro t ht
    rcases hths t ht with rfl | ⟨h, _⟩
    · exact inert_tok
    · exact h.tok
  · intro t ht
    rcases hths t ht with rfl | ⟨h, _⟩
    · exact inert_tl
    · exact h.tl
  · intro t ht
    rcases hths t ht with rfl | ⟨h, hp⟩
    · exact inert_xok _
    · exact h.xok (fun hd => by rw [hp] at hd; cases hd)
  · simp [wlD]
  · simp [wlE]
  · intro tid
    simp only [wlD, List.append_nil, List.not_mem_nil, false_iff, not_exists, not_and]
    intro u hu
    rw [(hths u (List.mem_of_getElem? hu)).class.2.2.2.2.2.2.2.2.1]; simp
  · intro tid
    simp only [wlE, List.append_nil, List.not_mem_nil, false_iff, not_exists, not_and]
    intro u hu
    rw [(hths u (List.mem_of_getElem? hu)).class.2.2.2.2.2.2.2.2.2.1]; simp
  · intro _
    refine ⟨?_, ?_, ?_⟩
    · show 0 = _; rw [hcnt isProd (fun t h => h.class.2.2.2.2.2.2.2.1)]
    · show 0 = _; rw [hcnt pastS (fun t h => h.class.2.2.2.2.2.2.2.2.2.2.2.2.1)]
    · show 0 = _; rw [hcnt pastT (fun t h => h.class.2.2.2.2.2.2.2.2.2.2.2.2.2)]
  · intro h; exact absurd h (hno early (fun t h => h.class.2.2.2.2.2.2.2.2.2.2.2.1))
  · intro h; cases h
  · rintro (h | h)
    · exact absurd rfl h
    · exact absurd h (hno sawEmpty (fun t h => h.class.1))
  · rintro (h | h)
    · exact absurd rfl h
    · exact absurd h (hno sawEmpty (fun t h => h.class.1))
  · rintro (h | h)
    · exact absurd rfl h
    · exact absurd h (hno sawFull (fun t h => h.class.2.1))
  · rintro (h | h)
    · exact absurd rfl h
    · exact absurd h (hno sawFull (fun t h => h.class.2.1))

/-! ## the first producer appears -/

theorem anyT_append_one (s s' : Shared) (ths : List Thread) (t : Thread) (P : Thread → Bool) :
    anyT { sh := s', ths := ths ++ [t] } P ↔ (anyT { sh := s, ths := ths } P ∨ P t = true) := by
  unfold anyT
  constructor
  · rintro ⟨x, hx, hp⟩
    rcases List.mem_append.mp hx with hx | hx
    · exact Or.inl ⟨x, hx, hp⟩
    · simp only [List.mem_singleton] at hx; subst hx; exact Or.inr hp
  · rintro (⟨x, hx, hp⟩ | hp)
    · exact ⟨x, List.mem_append_left _ hx, hp⟩
    · exact ⟨t, List.mem_append_right _ (by simp), hp⟩

/-- **The producer of a queue without declared `max_enqueuer` appears**: its `_start_enqueue` step
(`sAcq`), taken while nothing has been counted yet, is at the same time its entry into the configuration
(before that step the thread has not touched the queue, and `enqueue_done` is false before and after). -/
theorem live_spawn {c : Cfg} {P P' : Thread} {s' : Shared} {lbl : String} (hv : Live c)
    (hpc : P.pc = .sAcq) (hk : P.prog.kind = .producer) (htokP : TOK P) (hnst : stopped P = false)
    (h0 : c.sh.maxEnq = 0 ∧ c.sh.start = 0 ∧ c.sh.stop = 0 ∧ c.sh.exc = none ∧ c.sh.stopRequested = false)
    (hst : stepThread c.sh P c.ths.length false = some (lbl, s', P')) :
    Live { sh := s', ths := c.ths ++ [P'] } := by
  obtain ⟨s, ths⟩ := c
  obtain ⟨m0, st0, sp0, ex0, sr0⟩ := h0
  simp only at m0 st0 sp0 ex0 sr0 hst
  show Live { sh := s', ths := ths ++ [P'] }
  have hb := hv.base
  have hnd : s.enqueueDone = false := by simp [Shared.enqueueDone, m0, ex0, sr0]
  unfold stepThread at hst
  simp only [hpc, acquire, Bool.false_eq_true, if_false] at hst
  split at hst
  · simp at hst
  rename_i hown
  simp only [Option.some.injEq, Prod.mk.injEq] at hst
  obtain ⟨-, rfl, rfl⟩ := hst
  have hfree : s.stOwner = none := hown
  -- classification of the new thread
  have p1 : isProd ({ P with pc := .sRel } : Thread) = true := by simp [isProd, hk]
  have hnd' : Shared.enqueueDone { s.setOwner .st (some ths.length) with
      start := s.start + 1, maxEnq := max s.maxEnq (s.start + 1) } = false := by
    simp [Shared.enqueueDone, Shared.setOwner, m0, st0, sp0, ex0, sr0]
  have hcount := hb.cnt sr0
  simp only [m0, st0, sp0] at hcount
  obtain ⟨e1, e2, e3⟩ := hcount
  have hlift : ∀ {s2 : Shared} (Q : Thread → Bool), anyT { sh := s, ths := ths } Q →
      anyT { sh := s2, ths := ths ++ [({ P with pc := .sRel } : Thread)] } Q :=
    fun {s2} Q h => (anyT_append_one s s2 ths { P with pc := .sRel } Q).mpr (Or.inl h)
  have hdrop : ∀ {s2 : Shared} (Q : Thread → Bool), Q ({ P with pc := .sRel } : Thread) = false →
      anyT { sh := s2, ths := ths ++ [({ P with pc := .sRel } : Thread)] } Q →
      anyT { sh := s, ths := ths } Q := by
    intro s2 Q hQ h
    rcases (anyT_append_one s s2 ths { P with pc := .sRel } Q).mp h with h | h
    · exact h
    · rw [hQ] at h; cases h
  refine ⟨⟨⟨?_, ?_⟩, ?_, ?_, ?_, ?_, ?_, ?_, ?_⟩, ?_, ?_, ?_, ?_⟩
  · intro u tu hu l
    rcases Nat.lt_or_ge u ths.length with hlt | hge
    · rw [List.getElem?_append_left hlt] at hu
      have := hb.lock.1 u tu hu l
      cases l
      · simpa [Shared.owner, Shared.setOwner] using this
      · simpa [Shared.owner, Shared.setOwner] using this
      · have hf : holds .st tu.pc = false := by
          cases hh : holds .st tu.pc with
          | false => rfl
          | true => rw [hh] at this; simp [Shared.owner, hfree] at this
        rw [hf]
        simp only [Shared.owner, Shared.setOwner, Option.some.injEq, Bool.false_eq_true, iff_false]
        exact fun h => absurd (h ▸ hlt) (Nat.lt_irrefl _)
    · rw [List.getElem?_append_right hge] at hu
      have hu0 : u = ths.length := by
        have h1 : u - ths.length < 1 := (List.getElem?_eq_some_iff.mp hu).1
        have h2 : u ≤ ths.length := Nat.le_of_sub_eq_zero (Nat.lt_one_iff.mp h1)
        exact Nat.le_antisymm h2 hge
      subst hu0
      simp only [Nat.sub_self, List.getElem?_cons_zero, Option.some.injEq] at hu
      subst hu
      cases l
      · have : s.deqOwner ≠ some ths.length := fun h => by
          have := hb.lock.2 .deq _ h; simp at this
        simpa [Shared.owner, Shared.setOwner, holds] using this
      · have : s.enqOwner ≠ some ths.length := fun h => by
          have := hb.lock.2 .enq _ h; simp at this
        simpa [Shared.owner, Shared.setOwner, holds] using this
      · simp [Shared.owner, Shared.setOwner, holds]
  · intro l u hu
    simp only [List.length_append, List.length_singleton]
    cases l
    · have : u < ths.length := hb.lock.2 .deq u (by simpa [Shared.owner, Shared.setOwner] using hu)
      exact Nat.lt_succ_of_lt this
    · have : u < ths.length := hb.lock.2 .enq u (by simpa [Shared.owner, Shared.setOwner] using hu)
      exact Nat.lt_succ_of_lt this
    · simp only [Shared.owner, Shared.setOwner, Option.some.injEq] at hu
      rw [← hu]; exact Nat.lt_succ_self _
  · intro u hu
    rcases List.mem_append.mp hu with hu | hu
    · exact hb.tok u hu
    · simp only [List.mem_singleton] at hu; subst hu
      refine ⟨?_, fun hne => htokP.res hne⟩
      intro k hk'; simp [pcKind] at hk'; rw [← hk']; exact hk
  · intro u hu
    rcases List.mem_append.mp hu with hu | hu
    · exact hb.tl u hu
    · simp only [List.mem_singleton] at hu; subst hu
      simpa [TL, stopped] using hnst
  · intro u hu
    rcases List.mem_append.mp hu with hu | hu
    · exact XOK_mono (fun h => h) (fun h => h) (fun h => h) rfl rfl (hb.xok u hu)
    · simp only [List.mem_singleton] at hu; subst hu
      simp [XOK, armed]
  · obtain ⟨n1, n2, m1, m2⟩ := hb.wait
    refine ⟨n1, n2, fun x => ?_, fun x => ?_⟩
    · show x ∈ wlD s ↔ ∃ u, (ths ++ [_])[x]? = some u ∧ _
      rw [m1 x]
      constructor
      · rintro ⟨u, hu, hc⟩
        have hlt : x < ths.length := (List.getElem?_eq_some_iff.mp hu).1
        exact ⟨u, by rw [List.getElem?_append_left hlt]; exact hu, hc⟩
      · rintro ⟨u, hu, hc⟩
        rcases Nat.lt_or_ge x ths.length with hlt | hge
        · rw [List.getElem?_append_left hlt] at hu; exact ⟨u, hu, hc⟩
        · rw [List.getElem?_append_right hge] at hu
          have hm := List.mem_of_getElem? hu
          simp only [List.mem_singleton] at hm; subst hm
          simp [consWakePc] at hc
    · show x ∈ wlE s ↔ ∃ u, (ths ++ [_])[x]? = some u ∧ _
      rw [m2 x]
      constructor
      · rintro ⟨u, hu, hc⟩
        have hlt : x < ths.length := (List.getElem?_eq_some_iff.mp hu).1
        exact ⟨u, by rw [List.getElem?_append_left hlt]; exact hu, hc⟩
      · rintro ⟨u, hu, hc⟩
        rcases Nat.lt_or_ge x ths.length with hlt | hge
        · rw [List.getElem?_append_left hlt] at hu; exact ⟨u, hu, hc⟩
        · rw [List.getElem?_append_right hge] at hu
          have hm := List.mem_of_getElem? hu
          simp only [List.mem_singleton] at hm; subst hm
          simp [prodWakePc] at hc
  · intro _
    simp only [List.countP_append, List.countP_singleton, p1, if_true]
    refine ⟨?_, ?_, ?_⟩
    · show max s.maxEnq (s.start + 1) = _; rw [← e1, m0, st0]; rfl
    · show s.start + 1 = _
      have : pastS ({ P with pc := .sRel } : Thread) = true := by simp [pastS, p1]
      rw [← e2, st0, this]; rfl
    · show (s.setOwner .st (some ths.length)).stop = _
      have : pastT ({ P with pc := .sRel } : Thread) = false := by simp [pastT]
      rw [← e3, this]; simp [Shared.setOwner, sp0]
  · intro he
    have := hb.early (hdrop early (by simp [early]) he)
    rw [hnd] at this; cases this
  · intro he
    have : s.exhausted = true := by simpa [Shared.setOwner] using he
    have := hb.i3 this
    rw [hnd] at this; cases this
  · intro h1 h2
    have h1' : s.deqWait ≠ [] ∨ anyT { sh := s, ths := ths } sawEmpty := by
      rcases h1 with h | h
      · exact Or.inl (by simpa [Shared.setOwner] using h)
      · exact Or.inr (hdrop sawEmpty (by simp [sawEmpty]) h)
    have h2' : s.q ≠ [] := by simpa [Shared.setOwner] using h2
    rcases hv.j1 h1' h2' with h | h | h | h
    · exact Or.inl (by simpa [Shared.setOwner] using h)
    · exact Or.inr (Or.inl (hlift activeC h))
    · exact Or.inr (Or.inr (Or.inl (hlift debtD h)))
    · rw [hnd] at h; cases h
  · intro _ h2
    simp [Shared.enqueueDone, Shared.setOwner, m0, st0, sp0, ex0, sr0] at h2
  · intro h1
    have h1' : s.enqWait ≠ [] ∨ anyT { sh := s, ths := ths } sawFull := by
      rcases h1 with h | h
      · exact Or.inl (by simpa [Shared.setOwner] using h)
      · exact Or.inr (hdrop sawFull (by simp [sawFull]) h)
    rcases hv.k1 h1' with h | h | h | h | h
    · exact Or.inl (by simpa [Shared.setOwner] using h)
    · exact Or.inr (Or.inl (by simpa [Shared.setOwner] using h))
    · exact Or.inr (Or.inr (Or.inl (hlift debtE h)))
    · exact Or.inr (Or.inr (Or.inr (Or.inl (hlift commitP h))))
    · rw [hnd] at h; cases h
  · intro _ h2
    simp [Shared.enqueueDone, Shared.setOwner, m0, st0, sp0, ex0, sr0] at h2

/-! ## a configuration whose slots are all blocked or inert -/

/-- `stuck_all_parked` with inert slots: if every slot is inert or cannot take its (non-timeout) step, all
locks are free and every non-inert thread is `done` or parked without notification. -/
theorem stuck_all_parked_inert {c : Cfg} (hl : LockInv c)
    (hdead : ∀ (tid : Tid) (t : Thread), c.ths[tid]? = some t → t = inertT ∨ (stepThread c.sh t tid false).isSome = false) :
    (∀ l, c.sh.owner l = none) ∧
    ∀ tid t, c.ths[tid]? = some t →
      t = inertT ∨ t.pc = .done ∨ (consWakePc t.pc = true ∧ tid ∉ c.sh.deqNotified) ∨
        (prodWakePc t.pc = true ∧ tid ∉ c.sh.enqNotified) := by
  have hA : ∀ tid t, c.ths[tid]? = some t → t = inertT ∨ blocked c.sh t tid = true := by
    intro tid t ht
    rcases hdead tid t ht with h | h
    · exact Or.inl h
    · rcases stepThread_en (hl.1 tid t ht) with h' | h'
      · rw [h] at h'; cases h'
      · exact Or.inr h'
  have hst : c.sh.owner .st = none := by
    cases ho : c.sh.owner .st with
    | none => rfl
    | some u =>
      exfalso
      have hu := hl.2 .st u ho
      obtain ⟨tu, htu⟩ : ∃ tu, c.ths[u]? = some tu := ⟨c.ths[u], List.getElem?_eq_getElem hu⟩
      have hh := (hl.1 u tu htu .st).mp ho
      obtain ⟨h1, h2, h3, h4⟩ := holds_st_pc tu.pc hh
      rcases hA u tu htu with h | this
      · rw [h] at hh; simp [inertT, holds] at hh
      · simp [blocked, acqBlocked, h1, h2, h3, h4] at this
  have hcond : ∀ l, l ≠ .st → c.sh.owner l = none := by
    intro l hne
    cases ho : c.sh.owner l with
    | none => rfl
    | some u =>
      exfalso
      have hu := hl.2 l u ho
      obtain ⟨tu, htu⟩ : ∃ tu, c.ths[u]? = some tu := ⟨c.ths[u], List.getElem?_eq_getElem hu⟩
      have hh := (hl.1 u tu htu l).mp ho
      rcases hA u tu htu with h | this
      · rw [h] at hh; cases l <;> simp [inertT, holds] at hh
      · cases l with
        | st => exact hne rfl
        | deq =>
          obtain ⟨h1, h2, h3, h4⟩ := holds_deq_pc tu.pc hh
          rcases h2 with h2 | h2 <;> simp [blocked, acqBlocked, h1, h2, h3, h4, hst] at this
        | enq =>
          obtain ⟨h1, h2, h3, h4⟩ := holds_enq_pc tu.pc hh
          rcases h2 with h2 | h2 <;> simp [blocked, acqBlocked, h1, h2, h3, h4, hst] at this
  have hall : ∀ l, c.sh.owner l = none := by
    intro l; cases l
    · exact hcond .deq (by simp)
    · exact hcond .enq (by simp)
    · exact hst
  refine ⟨hall, fun tid t ht => ?_⟩
  rcases hA tid t ht with h | this
  · exact Or.inl h
  right
  unfold blocked at this
  have hacq : acqBlocked c.sh t.pc = false := by
    unfold acqBlocked
    cases acqPc t.pc with
    | none => rfl
    | some l => simp [hall l]
  rw [hacq] at this
  simp only [hall, Option.isSome_none, Bool.false_or, Bool.or_false, Bool.or_eq_true,
    Bool.and_eq_true, beq_iff_eq, Bool.not_eq_true', List.contains_eq_mem, decide_eq_false_iff_not] at this
  rcases this with (h | h) | h
  · exact Or.inl h
  · exact Or.inr (Or.inl h)
  · exact Or.inr (Or.inr h)

theorem parked_class_inert (t : Thread)
    (h : t = inertT ∨ t.pc = .done ∨ consWakePc t.pc = true ∨ prodWakePc t.pc = true) :
    sawEmpty t = false ∧ sawFull t = false ∧ activeC t = false ∧ debtD t = false ∧
    debtDAll t = false ∧ debtE t = false ∧ commitP t = false ∧ debtEAll t = false := by
  rcases h with rfl | h
  · obtain ⟨a1, a2, a3, a4, a5, a6, a7, -, -, -, -, -, -, -, a15, -⟩ := inert_class
    exact ⟨a1, a2, a15, a3, a4, a5, a6, a7⟩
  · exact parked_class t h

/-- **No deadlock through an embedding** (`no_deadlock_of_live` with inert slots, no stopper): if the
no-lost-wake-up invariant holds, there is a producer whenever there is a consumer, a bounded queue has a
consumer, and every slot is inert or cannot take its step, then every non-inert thread is `done`. -/
theorem dead_all_done {c : Cfg} (hv : Live c) (hto : c.sh.timeout = false)
    (hP : anyT c isCons → 0 < c.ths.countP isProd)
    (hC : c.sh.cap = 0 ∨ anyT c isCons)
    (hdead : ∀ (tid : Tid) (t : Thread), c.ths[tid]? = some t → t = inertT ∨ (stepThread c.sh t tid false).isSome = false) :
    ∀ (tid : Tid) (t : Thread), c.ths[tid]? = some t → t = inertT ∨ t.pc = .done := by
  have hb := hv.base
  obtain ⟨hfree, hpark⟩ := stuck_all_parked_inert hb.lock hdead
  obtain ⟨ndD, ndE, memD, memE⟩ := hb.wait
  have hpark' : ∀ (tid : Tid) (t : Thread), c.ths[tid]? = some t →
      t = inertT ∨ t.pc = .done ∨ consWakePc t.pc = true ∨ prodWakePc t.pc = true := by
    intro tid t ht
    rcases hpark tid t ht with h | h | h | h
    · exact Or.inl h
    · exact Or.inr (Or.inl h)
    · exact Or.inr (Or.inr (Or.inl h.1))
    · exact Or.inr (Or.inr (Or.inr h.1))
  have hno : ∀ P : Thread → Bool,
      (∀ t : Thread, (t = inertT ∨ t.pc = .done ∨ consWakePc t.pc = true ∨ prodWakePc t.pc = true) → P t = false) →
      ¬ anyT c P := by
    rintro P hPf ⟨t, ht, hp⟩
    obtain ⟨j, hj⟩ := List.getElem?_of_mem ht
    rw [hPf t (hpark' j t hj)] at hp; cases hp
  have hdn : c.sh.deqNotified = [] := by
    rw [List.eq_nil_iff_forall_not_mem]
    intro x hx
    obtain ⟨t, ht, hc⟩ := (memD x).mp (by unfold wlD; exact List.mem_append_left _ hx)
    rcases hpark x t ht with h | h | h | h
    · rw [h] at hc; simp [inertT, consWakePc] at hc
    · rw [h] at hc; simp [consWakePc] at hc
    · exact h.2 hx
    · have := (wake_kind t (hb.tok t (List.mem_of_getElem? ht)))
      have a := (this.1 hc).2.2; have b := (this.2 h.1).2.2
      rw [a] at b; cases b
  have hen : c.sh.enqNotified = [] := by
    rw [List.eq_nil_iff_forall_not_mem]
    intro x hx
    obtain ⟨t, ht, hc⟩ := (memE x).mp (by unfold wlE; exact List.mem_append_left _ hx)
    rcases hpark x t ht with h | h | h | h
    · rw [h] at hc; simp [inertT, prodWakePc] at hc
    · rw [h] at hc; simp [prodWakePc] at hc
    · have := (wake_kind t (hb.tok t (List.mem_of_getElem? ht)))
      have a := (this.1 h.1).2.2; have b := (this.2 hc).2.2
      rw [a] at b; cases b
    · exact h.2 hx
  have hcw : ∀ (tid : Tid) (t : Thread), c.ths[tid]? = some t → consWakePc t.pc = true → c.sh.deqWait ≠ [] := by
    intro tid t ht hc
    have : tid ∈ wlD c.sh := (memD tid).mpr ⟨t, ht, hc⟩
    unfold wlD at this; rw [hdn, List.nil_append] at this
    intro e; rw [e] at this; cases this
  have hpw : ∀ (tid : Tid) (t : Thread), c.ths[tid]? = some t → prodWakePc t.pc = true → c.sh.enqWait ≠ [] := by
    intro tid t ht hc
    have : tid ∈ wlE c.sh := (memE tid).mpr ⟨t, ht, hc⟩
    unfold wlE at this; rw [hen, List.nil_append] at this
    intro e; rw [e] at this; cases this
  have hcons : anyT c isCons → c.sh.deqWait ≠ [] ∨ c.sh.enqueueDone = true := by
    rintro ⟨t, ht, hs⟩
    obtain ⟨j, hj⟩ := List.getElem?_of_mem ht
    have hk := wake_kind t (hb.tok t ht)
    rcases hpark' j t hj with h | h | h | h
    · rw [h] at hs; simp [inertT, isCons, Prog.kind] at hs
    · right
      have : armed t = true := by unfold armed; rw [h]; exact hs
      rcases (hb.xok t ht).2.2.2.2.1 this with h1 | h1
      · exact hb.i3 h1
      · rw [hto] at h1; cases h1
    · exact Or.inl (hcw j t hj h)
    · rw [(hk.2 h).1] at hs; cases hs
  have nAC := hno activeC (fun t h => (parked_class_inert t h).2.2.1)
  have nDD := hno debtD (fun t h => (parked_class_inert t h).2.2.2.1)
  have nDA := hno debtDAll (fun t h => (parked_class_inert t h).2.2.2.2.1)
  have nDE := hno debtE (fun t h => (parked_class_inert t h).2.2.2.2.2.1)
  have nCP := hno commitP (fun t h => (parked_class_inert t h).2.2.2.2.2.2.1)
  have nEA := hno debtEAll (fun t h => (parked_class_inert t h).2.2.2.2.2.2.2)
  by_cases hPC : c.sh.deqWait = []
  · by_cases hPP : c.sh.enqWait = []
    · intro tid t ht
      rcases hpark' tid t ht with h | h | h | h
      · exact Or.inl h
      · exact Or.inr h
      · exact absurd hPC (hcw tid t ht h)
      · exact absurd hPP (hpw tid t ht h)
    · exfalso
      have hnd : ¬ c.sh.enqueueDone = true := fun hd => nEA (hv.k2 (Or.inl hPP) hd)
      obtain ⟨x, hx⟩ := List.exists_mem_of_ne_nil _ hPP
      obtain ⟨t, ht, hc⟩ := (memE x).mp (by unfold wlE; exact List.mem_append_right _ hx)
      have hcap : c.sh.cap ≠ 0 := XOK_cap (hb.xok t (List.mem_of_getElem? ht)) hc
      rcases hC with h | h
      · exact hcap h
      · rcases hcons h with h | h
        · exact h hPC
        · exact hnd h
  · exfalso
    have hnd : ¬ c.sh.enqueueDone = true := fun hd => nDA (hv.j2 (Or.inl hPC) hd)
    have hq : c.sh.q = [] := by
      cases hqq : c.sh.q with
      | nil => rfl
      | cons a l =>
        exfalso
        rcases hv.j1 (Or.inl hPC) (by rw [hqq]; simp) with h | h | h | h
        · exact h hdn
        · exact nAC h
        · exact nDD h
        · exact hnd h
    obtain ⟨x, hx⟩ := List.exists_mem_of_ne_nil _ hPC
    obtain ⟨tc, htc, hcc⟩ := (memD x).mp (by unfold wlD; exact List.mem_append_right _ hx)
    have hisc : anyT c isCons :=
      ⟨tc, List.mem_of_getElem? htc, ((wake_kind tc (hb.tok tc (List.mem_of_getElem? htc))).1 hcc).1⟩
    have hnd' := hnd
    rw [enqueueDone_iff] at hnd'
    have hsr : c.sh.stopRequested = false := by
      cases h : c.sh.stopRequested with
      | false => rfl
      | true => exact absurd (Or.inr (Or.inl h)) hnd'
    obtain ⟨e1, e2, e3⟩ := hb.cnt hsr
    have hpos : 0 < c.ths.countP isProd := hP hisc
    have hle1 : c.ths.countP pastT ≤ c.ths.countP pastS :=
      List.countP_mono_left (fun y _ h => pastT_pastS y h)
    have hle2 : c.ths.countP pastS ≤ c.ths.countP isProd :=
      List.countP_mono_left (fun y _ h => pastS_isProd y h)
    have hlt : c.ths.countP pastT < c.ths.countP isProd := by
      rcases Nat.lt_or_ge (c.ths.countP pastT) (c.ths.countP isProd) with h | h
      · exact h
      · exfalso
        apply hnd'
        right; right
        rw [e1, e2, e3]
        exact ⟨by omega, by omega, by omega⟩
    obtain ⟨a, ha, hap, hat⟩ := exists_of_countP_lt pastT isProd hlt
    obtain ⟨j, hj⟩ := List.getElem?_of_mem ha
    have hk := wake_kind a (hb.tok a ha)
    have hPP : c.sh.enqWait ≠ [] := by
      rcases hpark' j a hj with h | h | h | h
      · rw [h] at hap; simp [inertT, isProd, Prog.kind] at hap
      · exfalso
        apply hnd
        apply hb.early
        refine ⟨a, ha, ?_⟩
        unfold early; unfold pastT at hat
        rw [h] at hat ⊢
        simp only [hap, Bool.true_and] at hat ⊢
        simp [hat]
      · rw [(hk.1 h).2.2] at hap; cases hap
      · exact hpw j a hj h
    rcases hv.k1 (Or.inl hPP) with h | h | h | h | h
    · exact h hq
    · exact h hen
    · exact nDE h
    · exact nCP h
    · exact hnd h

end MlModel.Queue
