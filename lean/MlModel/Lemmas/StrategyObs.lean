import MlModel.Model.StrategyObs
import MlModel.Lemmas.Strategy
import MlModel.Lemmas.Shard
import MlModel.Lemmas.Merged
/-!
# Lemmas for `Model/StrategyObs.lean`

* merged-sequence sources: the code path through `MergedSequences.slice` = the flat model of `Strategy.lean`;
* `lookupLast` / `setKey` on association lists of the form `ks.map (k ↦ (k, g k))`;
* closed forms of `AStage.update` / `run`, of the chain's per-stage states, of `merge_states`.
-/
namespace MlModel.StrategyObs
open MlModel.Shard MlModel.Merged MlModel.Strategy

/-! ## merged-sequence sources -/

section Source
variable {α : Type}

theorem mergedElems_eq (d : DS) (parts : List (List α)) : mergedElems d parts = d.elems parts.flatten :=
  sliceElems_eq_pySlice parts _ _

theorem mergedShardParts_eq (d : DS) (k : Nat) (parts : List (List α)) :
    mergedShardParts d k parts = shardParts d k parts.flatten := by
  unfold mergedShardParts shardParts
  simp only [mergedElems_eq]

theorem mergedRoot_dataLen (parts : List (List α)) : (mergedRoot parts).dataLen = parts.flatten.length :=
  total_map_length parts

theorem mergedRoot_wf (parts : List (List α)) : (mergedRoot parts).WF := by
  simp only [DS.WF, mergedRoot, DS.root, DS.end, Option.getD_none]
  omega

theorem root_elems (xs : List α) : (DS.root xs.length).elems xs = xs := by
  simp only [DS.elems, DS.root, DS.end, Option.getD_none]
  rw [pySlice_nat xs 0 (xs.length : Int) (Int.le_refl 0) (by omega) (Int.le_refl _)]
  simp

theorem mergedElems_root (parts : List (List α)) : mergedElems (mergedRoot parts) parts = parts.flatten := by
  rw [mergedElems_eq]
  have h : mergedRoot parts = DS.root parts.flatten.length := by
    unfold mergedRoot; rw [total_map_length]
  rw [h, root_elems]

end Source

/-! ## association lists -/

section Chain
variable {K V X R : Type} [DecidableEq K]

theorem lookupLast_append (k : K) (a b : KV K V) :
    lookupLast k (a ++ b) = match lookupLast k b with
      | some w => some w
      | none => lookupLast k a := by
  induction a with
  | nil =>
    simp only [List.nil_append, lookupLast]
    cases lookupLast k b <;> rfl
  | cons kv a ih =>
    obtain ⟨k', v⟩ := kv
    simp only [List.cons_append, lookupLast, ih]
    cases lookupLast k b with
    | some w => rfl
    | none => rfl

theorem lookupLast_none_of_not_mem (k : K) (s : KV K V) (h : k ∉ s.map Prod.fst) : lookupLast k s = none := by
  induction s with
  | nil => rfl
  | cons kv s ih =>
    obtain ⟨k', v⟩ := kv
    simp only [List.map_cons, List.mem_cons, not_or] at h
    simp only [lookupLast, ih h.2]
    rw [if_neg (fun e => h.1 e.symm)]

theorem lookupLast_map_key (ks : List K) (g : K → V) (k : K) :
    lookupLast k (ks.map fun k' => (k', g k')) = if k ∈ ks then some (g k) else none := by
  induction ks with
  | nil => rfl
  | cons k' ks ih =>
    simp only [List.map_cons, lookupLast, ih, List.mem_cons]
    by_cases hin : k ∈ ks
    · simp [hin]
    · by_cases he : k' = k
      · subst he; simp [hin]
      · have : ¬ k = k' := fun e => he e.symm
        simp [hin, he, this]

theorem setKey_map_key (ks : List K) (g : K → V) (p : K) (v : V) :
    setKey (ks.map fun k => (k, g k)) p v = ks.map fun k => (k, if k = p then v else g k) := by
  unfold setKey
  rw [List.map_map]
  apply List.map_congr_left
  intro k _
  simp only [Function.comp]
  by_cases h : k = p
  · subst h; simp
  · simp [h]

omit [DecidableEq K] in
theorem map_key_fst (ks : List K) (g : K → V) : (ks.map fun k => (k, g k)).map Prod.fst = ks := by
  rw [List.map_map]
  simp [Function.comp_def]

/-! ## `update_state`, `run` -/

/-- the loop of `update_state` over a list `ps` of distinct keys that are all present -/
theorem foldlM_update_spec (st : AStage K V X R) (x : X) (ks : List K) :
    ∀ (ps : List K) (g : K → V), ps.Nodup → (∀ p ∈ ps, p ∈ ks) →
      ps.foldlM (st.updKey x) (ks.map fun k => (k, g k))
        = Except.ok (ks.map fun k => (k, if k ∈ ps then st.upd k (g k) x else g k)) := by
  intro ps
  induction ps with
  | nil => intro g _ _; simp [List.foldlM, pure, Except.pure]
  | cons p ps ih =>
    intro g hnd hsub
    have hp : p ∈ ks := hsub p List.mem_cons_self
    have hnd' := (List.nodup_cons.mp hnd)
    have hstep : st.updKey x (ks.map fun k => (k, g k)) p
        = Except.ok (ks.map fun k => (k, if k = p then st.upd p (g p) x else g k)) := by
      unfold AStage.updKey
      rw [lookupLast_map_key, if_pos hp]
      simp only []
      rw [setKey_map_key]
    rw [List.foldlM_cons, hstep]
    simp only [bind, Except.bind]
    rw [ih _ hnd'.2 (fun q hq => hsub q (List.mem_cons_of_mem _ hq))]
    congr 1
    apply List.map_congr_left
    intro k _
    by_cases hk : k = p
    · subst hk
      simp [hnd'.1]
    · simp [hk]

/-- what a stage's state holds after `feed`: under every key of `ks` the fold of `update_state` from `g0` -/
def stageFinal (st : AStage K V X R) (ks : List K) (g0 : K → V) (feed : List X) : KV K V :=
  ks.map fun k => (k, feed.foldl (st.upd k) (g0 k))

theorem foldlM_run_spec (st : AStage K V X R) (hnd : st.keys.Nodup) (ks : List K)
    (hsub : ∀ p ∈ st.keys, p ∈ ks) (hown : ∀ k ∈ ks, k ∈ st.keys) (feed : List X) :
    ∀ g0 : K → V, feed.foldlM st.update (ks.map fun k => (k, g0 k)) = Except.ok (stageFinal st ks g0 feed) := by
  induction feed with
  | nil => intro g0; simp [List.foldlM, pure, Except.pure, stageFinal]
  | cons x feed ih =>
    intro g0
    rw [List.foldlM_cons]
    have h1 : st.update (ks.map fun k => (k, g0 k)) x = Except.ok (ks.map fun k => (k, st.upd k (g0 k) x)) := by
      unfold AStage.update
      rw [foldlM_update_spec st x ks st.keys g0 hnd hsub]
      congr 1
      apply List.map_congr_left
      intro k hk
      simp [hown k hk]
    rw [h1]
    simp only [bind, Except.bind]
    rw [ih]
    simp [stageFinal]

theorem filter_map_key (gks : List K) (g0 : K → V) (own : List K) :
    ((gks.map fun k => (k, g0 k)).filter fun kv => decide (kv.1 ∈ own))
      = (gks.filter fun k => decide (k ∈ own)).map fun k => (k, g0 k) := by
  rw [List.filter_map]
  rfl

/-- `make().iterate()`: no state given -/
theorem run_none (st : AStage K V X R) (hnd : st.keys.Nodup) (feed : List X) :
    st.run none feed = Except.ok (stageFinal st st.keys st.create feed) := by
  unfold AStage.run AStage.init AStage.createState
  simp only []
  rw [filter_map_key]
  have hf : (st.keys.filter fun k => decide (k ∈ st.keys)) = st.keys :=
    List.filter_eq_self.mpr (fun k hk => by simpa using hk)
  rw [hf]
  exact foldlM_run_spec st hnd st.keys (fun _ h => h) (fun _ h => h) feed st.create

/-- a state handed in (`iterate(state=...)`, `update_state(state, inputs)`) that has every key of the runner -/
theorem run_given (st : AStage K V X R) (hnd : st.keys.Nodup) (gks : List K) (g0 : K → V) (hne : gks ≠ [])
    (hsub : ∀ p ∈ st.keys, p ∈ gks) (feed : List X) :
    st.run (some (gks.map fun k => (k, g0 k))) feed
      = Except.ok (stageFinal st (gks.filter fun k => decide (k ∈ st.keys)) g0 feed) := by
  unfold AStage.run AStage.init
  have he : (gks.map fun k => (k, g0 k)).isEmpty = false := by
    cases gks with
    | nil => exact absurd rfl hne
    | cons _ _ => rfl
  simp only [he, Bool.false_eq_true, if_false]
  rw [filter_map_key]
  exact foldlM_run_spec st hnd _
    (fun p hp => List.mem_filter.mpr ⟨hsub p hp, by simpa using hp⟩)
    (fun k hk => by simpa using (List.mem_filter.mp hk).2) feed g0

/-! ## the chain -/

/-- per-stage states of the chain in closed form: stage `st` holds `stageFinal st (ksOf st) (gOf st) feed` -/
def chainFinal (ksOf : AStage K V X R → List K) (gOf : AStage K V X R → K → V) :
    List (AStage K V X R) → List (List X) → List (KV K V)
  | [], _ => []
  | st :: rest, feeds => stageFinal st (ksOf st) (gOf st) (feeds.headD []) :: chainFinal ksOf gOf rest feeds.tail

theorem chainStates_spec (given : Option (KV K V)) (ksOf : AStage K V X R → List K)
    (gOf : AStage K V X R → K → V) :
    ∀ (stages : List (AStage K V X R)) (feeds : List (List X)),
      (∀ st ∈ stages, ∀ feed, st.run given feed = Except.ok (stageFinal st (ksOf st) (gOf st) feed)) →
      chainStates stages given feeds = Except.ok (chainFinal ksOf gOf stages feeds) := by
  intro stages
  induction stages with
  | nil => intro feeds _; rfl
  | cons st rest ih =>
    intro feeds hrun
    simp only [chainStates, hrun st List.mem_cons_self, ih feeds.tail (fun s hs => hrun s (List.mem_cons_of_mem _ hs)),
      chainFinal]

omit [DecidableEq K] in
theorem chainFinal_keys (ksOf : AStage K V X R → List K) (gOf : AStage K V X R → K → V) :
    ∀ (stages : List (AStage K V X R)) (feeds : List (List X)),
      (chainFinal ksOf gOf stages feeds).flatten.map Prod.fst = stages.flatMap ksOf := by
  intro stages
  induction stages with
  | nil => intro _; rfl
  | cons st rest ih =>
    intro feeds
    simp only [chainFinal, List.flatten_cons, List.map_append, List.flatMap_cons, ih]
    congr 1
    exact map_key_fst _ _

theorem stageFinal_lookup (st : AStage K V X R) (ks : List K) (g0 : K → V) (feed : List X) (k : K) (hk : k ∈ ks) :
    lookupLast k (stageFinal st ks g0 feed) = some (feed.foldl (st.upd k) (g0 k)) := by
  unfold stageFinal
  rw [lookupLast_map_key, if_pos hk]

/-- a key of stage `i` that no later stage has is answered by stage `i`'s own entry -/
theorem chainFinal_lookup (ksOf : AStage K V X R → List K) (gOf : AStage K V X R → K → V) :
    ∀ (stages : List (AStage K V X R)) (feeds : List (List X)) (i : Nat) (st : AStage K V X R) (k : K),
      stages[i]? = some st → k ∈ ksOf st →
      (∀ j st', i < j → stages[j]? = some st' → k ∉ ksOf st') →
      lookupLast k (chainFinal ksOf gOf stages feeds).flatten
        = some (((feeds[i]?).getD []).foldl (st.upd k) (gOf st k)) := by
  intro stages
  induction stages with
  | nil => intro feeds i st k h; simp at h
  | cons s0 rest ih =>
    intro feeds i st k hi hk hlater
    simp only [chainFinal, List.flatten_cons]
    rw [lookupLast_append]
    cases i with
    | zero =>
      simp only [List.getElem?_cons_zero, Option.some.injEq] at hi
      subst hi
      have hnone : lookupLast k (chainFinal ksOf gOf rest feeds.tail).flatten = none := by
        apply lookupLast_none_of_not_mem
        rw [chainFinal_keys]
        intro hmem
        obtain ⟨s', hs', hks'⟩ := List.mem_flatMap.mp hmem
        obtain ⟨j, hj, hjs⟩ := List.mem_iff_getElem.mp hs'
        have : (s0 :: rest)[j + 1]? = some s' := by
          simp only [List.getElem?_cons_succ]
          rw [List.getElem?_eq_getElem hj, hjs]
        exact hlater (j + 1) s' (Nat.succ_pos j) this hks'
      rw [hnone]
      simp only []
      rw [stageFinal_lookup _ _ _ _ _ hk]
      cases feeds <;> rfl
    | succ i =>
      simp only [List.getElem?_cons_succ] at hi
      have h := ih feeds.tail i st k hi hk (fun j st' hij hj => hlater (j + 1) st' (by omega) (by
        simpa only [List.getElem?_cons_succ] using hj))
      rw [h]
      simp only []
      congr 2
      cases feeds with
      | nil => simp
      | cons f fs => simp

end Chain

end MlModel.StrategyObs

/-! ## `merge_states`, `get_result` -/

namespace MlModel.StrategyObs
open MlModel.Agg

section Merge
variable {K V X R : Type} [DecidableEq K]

theorem lookupLast_setKey_ne (s : KV K V) (k k' : K) (v : V) (h : k' ≠ k) :
    lookupLast k (setKey s k' v) = lookupLast k s := by
  induction s with
  | nil => rfl
  | cons kv s ih =>
    obtain ⟨k0, v0⟩ := kv
    simp only [setKey, List.map_cons] at ih ⊢
    by_cases h0 : k0 = k'
    · subst h0
      simp only [if_true, lookupLast, ih, if_neg h]
    · simp only [if_neg h0, lookupLast, ih]

theorem lookupLast_eq_none_iff (k : K) (s : KV K V) : lookupLast k s = none ↔ k ∉ s.map Prod.fst := by
  constructor
  · intro h
    induction s with
    | nil => simp
    | cons kv s ih =>
      obtain ⟨k0, v0⟩ := kv
      simp only [lookupLast] at h
      cases hs : lookupLast k s with
      | some w => rw [hs] at h; simp at h
      | none =>
        rw [hs] at h
        simp only [] at h
        by_cases h0 : k0 = k
        · simp [h0] at h
        · simp only [List.map_cons, List.mem_cons, not_or]
          exact ⟨fun e => h0 e.symm, ih hs⟩
  · exact lookupLast_none_of_not_mem k s

theorem setKey_keys (s : KV K V) (k : K) (v : V) : (setKey s k v).map Prod.fst = s.map Prod.fst := by
  unfold setKey
  rw [List.map_map]
  apply List.map_congr_left
  intro kv _
  simp only [Function.comp]
  by_cases h : kv.1 = k
  · simp [h]
  · simp [h]

theorem lookupLast_setKey_eq (s : KV K V) (k : K) (v a : V) (h : lookupLast k s = some a) :
    lookupLast k (setKey s k v) = some v := by
  induction s generalizing a with
  | nil => simp [lookupLast] at h
  | cons kv s ih =>
    obtain ⟨k0, v0⟩ := kv
    have hcons : setKey ((k0, v0) :: s) k v = (if k0 = k then (k, v) else (k0, v0)) :: setKey s k v := rfl
    rw [hcons]
    simp only [lookupLast] at h
    cases hs : lookupLast k s with
    | some w =>
      have h1 := ih w hs
      simp only [lookupLast, h1]
    | none =>
      rw [hs] at h
      simp only [] at h
      have hn : lookupLast k (setKey s k v) = none := by
        rw [lookupLast_eq_none_iff, setKey_keys, ← lookupLast_eq_none_iff]
        exact hs
      by_cases h0 : k0 = k
      · simp only [h0, if_true, lookupLast, hn]
      · simp [h0] at h

theorem lookupLast_snoc (s : KV K V) (k k' : K) (v : V) :
    lookupLast k (s ++ [(k', v)]) = if k' = k then some v else lookupLast k s := by
  rw [lookupLast_append]
  simp only [lookupLast]
  by_cases h : k' = k
  · simp [h]
  · simp [h]

/-- how one more value under a key enters the merged entry -/
def comb (f : V → V → V) : Option V → V → Option V
  | none, b => some b
  | some a, b => some (f a b)

/-- the merged entry of a list of values: `none` for no value, else the left fold of `merge_states([acc, s])` -/
def mergeVals (f : V → V → V) : List V → Option V
  | [] => none
  | a :: rest => some (rest.foldl f a)

theorem foldl_comb (f : V → V → V) (vals : List V) (a : V) :
    vals.foldl (comb f) (some a) = some (vals.foldl f a) := by
  induction vals generalizing a with
  | nil => rfl
  | cons b vals ih => simp only [List.foldl_cons, comb, ih]

theorem foldl_comb_none (f : V → V → V) (vals : List V) : vals.foldl (comb f) none = mergeVals f vals := by
  cases vals with
  | nil => rfl
  | cons a rest => simp only [List.foldl_cons, comb, foldl_comb, mergeVals]

/-- the loop of `TransformRunner.merge_states` over any list of items, seen through one own key -/
theorem foldl_mergeItem_own (st : AStage K V X R) (k : K) (hk : k ∈ st.keys) (items : KV K V) :
    ∀ acc : KV K V, lookupLast k (items.foldl st.mergeItem acc)
      = ((items.filter fun kv => decide (kv.1 = k)).map (·.2)).foldl (comb (st.merge k)) (lookupLast k acc) := by
  induction items with
  | nil => intro acc; rfl
  | cons kv items ih =>
    intro acc
    obtain ⟨k', v'⟩ := kv
    rw [List.foldl_cons, ih]
    by_cases hkk : k' = k
    · subst hkk
      have hstep : lookupLast k' (st.mergeItem acc (k', v')) = comb (st.merge k') (lookupLast k' acc) v' := by
        unfold AStage.mergeItem
        simp only [hk, if_true]
        cases hl : lookupLast k' acc with
        | some a => simp only [comb]; exact lookupLast_setKey_eq acc k' _ a hl
        | none => simp only [comb]; rw [lookupLast_snoc]; simp
      simp only [List.filter_cons, decide_true, if_true, List.map_cons, List.foldl_cons, hstep]
    · have hstep : lookupLast k (st.mergeItem acc (k', v')) = lookupLast k acc := by
        unfold AStage.mergeItem
        by_cases hown : k' ∈ st.keys
        · simp only [hown, if_true]
          cases hl : lookupLast k' acc with
          | some a => simp only []; exact lookupLast_setKey_ne acc k k' _ hkk
          | none => simp only []; rw [lookupLast_snoc, if_neg hkk]
        · simp only [hown, if_false]
      have hd : decide (k' = k) = false := by simpa using hkk
      simp only [List.filter_cons, hd, Bool.false_eq_true, if_false, hstep]

/-- … and through a key that is NOT the runner's: nothing is ever stored under it -/
theorem foldl_mergeItem_foreign (st : AStage K V X R) (k : K) (hk : k ∉ st.keys) (items : KV K V) :
    ∀ acc : KV K V, lookupLast k (items.foldl st.mergeItem acc) = lookupLast k acc := by
  induction items with
  | nil => intro acc; rfl
  | cons kv items ih =>
    intro acc
    obtain ⟨k', v'⟩ := kv
    rw [List.foldl_cons, ih]
    unfold AStage.mergeItem
    by_cases hown : k' ∈ st.keys
    · have hkk : k' ≠ k := fun e => hk (e ▸ hown)
      simp only [hown, if_true]
      cases hl : lookupLast k' acc with
      | some a => simp only []; exact lookupLast_setKey_ne acc k k' _ hkk
      | none => simp only []; rw [lookupLast_snoc, if_neg hkk]
    · simp only [hown, if_false]

theorem mergeStates_eq_foldl (st : AStage K V X R) (states : List (KV K V)) :
    st.mergeStates states = states.flatten.foldl st.mergeItem [] := by
  unfold AStage.mergeStates
  rw [List.foldl_flatten]

theorem mergeStates_lookup_own (st : AStage K V X R) (k : K) (hk : k ∈ st.keys) (states : List (KV K V)) :
    lookupLast k (st.mergeStates states)
      = mergeVals (st.merge k) ((states.flatten.filter fun kv => decide (kv.1 = k)).map (·.2)) := by
  rw [mergeStates_eq_foldl, foldl_mergeItem_own st k hk]
  exact foldl_comb_none _ _

theorem mergeStates_lookup_foreign (st : AStage K V X R) (k : K) (hk : k ∉ st.keys) (states : List (KV K V)) :
    lookupLast k (st.mergeStates states) = none := by
  rw [mergeStates_eq_foldl, foldl_mergeItem_foreign st k hk]
  rfl

/-- in a chain of dicts, a key that dict `i` answers and no LATER dict answers is answered by dict `i` -/
theorem lookupLast_flatten_at (k : K) (v : V) :
    ∀ (ls : List (KV K V)) (i : Nat) (l : KV K V), ls[i]? = some l → lookupLast k l = some v →
      (∀ j l', i < j → ls[j]? = some l' → lookupLast k l' = none) →
      lookupLast k ls.flatten = some v := by
  intro ls
  induction ls with
  | nil => intro i l h; simp at h
  | cons l0 rest ih =>
    intro i l hi hv hlater
    rw [List.flatten_cons, lookupLast_append]
    cases i with
    | zero =>
      simp only [List.getElem?_cons_zero, Option.some.injEq] at hi
      subst hi
      have hnone : lookupLast k rest.flatten = none := by
        rw [lookupLast_eq_none_iff]
        intro hm
        rw [List.map_flatten] at hm
        obtain ⟨ks, hks, hk⟩ := List.mem_flatten.mp hm
        obtain ⟨l', hl', rfl⟩ := List.mem_map.mp hks
        obtain ⟨j, hj, hjl⟩ := List.mem_iff_getElem.mp hl'
        have hget : (l0 :: rest)[j + 1]? = some l' := by
          simp only [List.getElem?_cons_succ]
          rw [List.getElem?_eq_getElem hj, hjl]
        have := hlater (j + 1) l' (Nat.succ_pos j) hget
        rw [lookupLast_eq_none_iff] at this
        exact this hk
      rw [hnone]
      exact hv
    | succ i =>
      simp only [List.getElem?_cons_succ] at hi
      rw [ih i l hi hv (fun j l' hij hj => hlater (j + 1) l' (by omega) (by
        simpa only [List.getElem?_cons_succ] using hj))]

/-- `get_result` of one runner on any state, seen through one key -/
theorem lookupLast_getResult (st : AStage K V X R) (k : K) (s : KV K V) :
    lookupLast k (st.getResult s) = if k ∈ st.keys then (lookupLast k s).map (st.result k) else none := by
  by_cases hk : k ∈ st.keys
  · rw [if_pos hk]
    induction s with
    | nil => rfl
    | cons kv s ih =>
      obtain ⟨k0, v0⟩ := kv
      by_cases h0 : k0 ∈ st.keys
      · have hc : st.getResult ((k0, v0) :: s) = (k0, st.result k0 v0) :: st.getResult s := by
          simp [AStage.getResult, h0]
        rw [hc]
        simp only [lookupLast, ih]
        cases lookupLast k s with
        | some w => rfl
        | none =>
          by_cases hkk : k0 = k
          · subst hkk; simp
          · simp [hkk]
      · have hc : st.getResult ((k0, v0) :: s) = st.getResult s := by
          simp [AStage.getResult, h0]
        have hkk : ¬ k0 = k := fun e => h0 (e ▸ hk)
        rw [hc, ih]
        simp only [lookupLast]
        cases lookupLast k s with
        | some w => rfl
        | none => simp [hkk]
  · rw [if_neg hk, lookupLast_eq_none_iff]
    intro hm
    simp only [AStage.getResult, List.map_map, List.mem_map, List.mem_filter, Function.comp,
      decide_eq_true_eq] at hm
    obtain ⟨kv, ⟨_, hown⟩, rfl⟩ := hm
    exact hk hown

omit [DecidableEq K] in
theorem chainFinal_getElem? (ksOf : AStage K V X R → List K) (gOf : AStage K V X R → K → V) :
    ∀ (stages : List (AStage K V X R)) (feeds : List (List X)) (i : Nat),
      (chainFinal ksOf gOf stages feeds)[i]?
        = (stages[i]?).map fun st => stageFinal st (ksOf st) (gOf st) ((feeds[i]?).getD []) := by
  intro stages
  induction stages with
  | nil => intro feeds i; simp [chainFinal]
  | cons s0 rest ih =>
    intro feeds i
    cases i with
    | zero => cases feeds <;> simp [chainFinal]
    | succ i =>
      simp only [chainFinal, List.getElem?_cons_succ, ih]
      cases feeds <;> simp

omit [DecidableEq K] in
theorem chainFinal_length (ksOf : AStage K V X R → List K) (gOf : AStage K V X R → K → V) :
    ∀ (stages : List (AStage K V X R)) (feeds : List (List X)),
      (chainFinal ksOf gOf stages feeds).length = stages.length := by
  intro stages
  induction stages with
  | nil => intro _; rfl
  | cons s0 rest ih => intro feeds; simp [chainFinal, ih]

/-- a dict (distinct keys) lists exactly one value under a key it answers -/
theorem filter_key_of_nodup (k : K) (s : KV K V) (hnd : (s.map Prod.fst).Nodup) :
    ((s.filter fun kv => decide (kv.1 = k)).map (·.2)) = (lookupLast k s).toList := by
  induction s with
  | nil => rfl
  | cons kv s ih =>
    obtain ⟨k0, v0⟩ := kv
    simp only [List.map_cons, List.nodup_cons] at hnd
    have ih' := ih hnd.2
    by_cases h0 : k0 = k
    · subst h0
      have hn : lookupLast k0 s = none := (lookupLast_eq_none_iff k0 s).mpr hnd.1
      rw [hn] at ih'
      simp only [List.filter_cons, decide_true, if_true, List.map_cons, ih', lookupLast, hn]
      simp
    · have hd : decide (k0 = k) = false := by simpa using h0
      simp only [List.filter_cons, hd, Bool.false_eq_true, if_false, ih', lookupLast]
      cases lookupLast k s with
      | some w => rfl
      | none => simp [h0]

omit [DecidableEq K] in
theorem filter_map_flatten (p : K × V → Bool) (states : List (KV K V)) :
    ((states.flatten.filter p).map (·.2)) = states.flatMap fun s => (s.filter p).map (·.2) := by
  induction states with
  | nil => rfl
  | cons s states ih => simp only [List.flatten_cons, List.filter_append, List.map_append, List.flatMap_cons, ih]

omit [DecidableEq K] in
theorem ofMergeable_fold {Y : Type} (keys : List K) (m : K → Mergeable Y V R) (sel : K → X → List Y) (k : K)
    (feed : List X) :
    feed.foldl ((AStage.ofMergeable keys m sel).upd k) ((AStage.ofMergeable keys m sel).create k)
      = (m k).feed (feed.map (sel k)) := by
  unfold Mergeable.feed
  rw [List.foldl_map]
  rfl

end Merge
end MlModel.StrategyObs
