import MlModel.Lemmas.TreeNdArith
/-!
# Paths of ANY depth into an ndarray, values of any kind (work package C18D)

`ndWin shape ks` is the window (offset relative to the array's own window, remaining shape) that the chain of
in-range integer keys `ks` addresses in a C-contiguous array of shape `shape` — numpy basic indexing.  The two
main theorems say what `_set_by_path` does for such a path, by induction over the levels:

* in place (`setPath_nd_inplace_deep`): every level creates a view of the caller's buffer, the innermost level
  writes the value's elements into the window, every level above writes its view back onto itself — the buffer
  ends as `splice xs (off + o) ys`, nothing else changes;
* copying (`setPath_nd_copy_deep`): every level copies the view it was given (a new buffer per level), the
  innermost writes into the innermost copy, every level above stores the copy returned to it into its own
  window: `splice` composed with `slice` (`splice_splice_slice`) — the outermost new buffer ends as
  `splice (elements of the original) o ys`.

The value is any object that numpy can convert and broadcast to the window (`coerce`): an int, an ndarray (also a
view of the very buffer that is written), a (nested) list / tuple of ints.
-/
namespace MlModel.Tree

/-- The window addressed inside an array of shape `shape` by the chain of integer keys `ks` (each in range,
negative indices from the end): `(offset relative to the array's window, shape of the item)`. -/
def ndWin : List Nat → Path → Option (Nat × List Nat)
  | shape, [] => some (0, shape)
  | [], _ :: _ => none
  | n :: inner, k :: ks =>
    match k.asInt with
    | none => none
    | some i =>
      match resolveIdx n i with
      | none => none
      | some j => (ndWin inner ks).map fun os => (j * prod inner + os.1, os.2)

theorem ndWin_cons_inv {shape : List Nat} {k : PKey} {ks : Path} {o : Nat} {s : List Nat}
    (hw : ndWin shape (k :: ks) = some (o, s)) :
    ∃ n inner i j o', shape = n :: inner ∧ k.asInt = some i ∧ resolveIdx n i = some j ∧
      ndWin inner ks = some (o', s) ∧ o = j * prod inner + o' := by
  cases shape with
  | nil => simp [ndWin] at hw
  | cons n inner =>
    simp only [ndWin] at hw
    cases hi : k.asInt with
    | none => simp [hi] at hw
    | some i =>
      cases hj : resolveIdx n i with
      | none => simp [hi, hj] at hw
      | some j =>
        cases hr : ndWin inner ks with
        | none => simp [hi, hj, hr] at hw
        | some os =>
          obtain ⟨o1, s1⟩ := os
          simp [hi, hj, hr] at hw
          obtain ⟨rfl, rfl⟩ := hw
          exact ⟨n, inner, i, j, o1, rfl, rfl, hj, hr, rfl⟩

theorem item_bound {n j : Nat} (P : Nat) (hj : j < n) : j * P + P ≤ n * P :=
  calc j * P + P = (j + 1) * P := by rw [Nat.succ_mul]
    _ ≤ n * P := Nat.mul_le_mul_right _ hj

/-- the addressed window lies inside the array's window -/
theorem ndWin_bound : ∀ (ks : Path) (shape : List Nat) (o : Nat) (s : List Nat),
    ndWin shape ks = some (o, s) → o + prod s ≤ prod shape := by
  intro ks
  induction ks with
  | nil => intro shape o s hw; simp [ndWin] at hw; obtain ⟨rfl, rfl⟩ := hw; omega
  | cons k ks ih =>
    intro shape o s hw
    obtain ⟨n, inner, i, j, o', rfl, _, hj, hr, rfl⟩ := ndWin_cons_inv hw
    have := ih inner o' s hr
    have := item_bound (prod inner) (resolveIdx_lt hj)
    rw [prod_cons]; omega

theorem asInt_ne_self {k : PKey} {i : Int} (hi : k.asInt = some i) : k ≠ .self := by
  intro e; subst e; cases hi

theorem asInt_ne_skip {k : PKey} {i : Int} (hi : k.asInt = some i) : k ≠ .skip := by
  intro e; subst e; cases hi

/-- The value `v` converts and broadcasts to the elements `ys` for a window of shape `s`, and keeps doing so
while the heap is only extended (discharged from `NdWF` by `coerce_stable`). -/
def CoerceStable (h : Heap) (v : Ref) (s : List Nat) (ys : List Int) : Prop :=
  ∀ h', Extends h h' → coerce h' v s = some ys

theorem CoerceStable.mono {h h1 : Heap} {v : Ref} {s : List Nat} {ys : List Int} (c : CoerceStable h v s ys)
    (e : Extends h h1) : CoerceStable h1 v s ys := fun h' e' => c h' (e.trans e')

theorem ndWrite_get_ne' (h : Heap) (b o : Nat) (ys : List Int) {c : Ref} (hne : c ≠ b) :
    (ndWrite h b o ys)[c]? = h[c]? := by
  unfold ndWrite
  split
  · exact write_get_ne _ _ hne
  · rfl

/-! ## in place -/

theorem setPath_nd_inplace_deep (strict : Bool) (v : Ref) : ∀ (ks : Path) (shape : List Nat) (h : Heap)
    (t b off : Nat) (xs : List Int) (o : Nat) (s : List Nat) (ys : List Int), ks ≠ [] →
    h[t]? = some (.nd b off shape) → h[b]? = some (.buf xs) → off + prod shape ≤ xs.length →
    ndWin shape ks = some (o, s) → CoerceStable h v s ys → ys.length = prod s →
    ∃ h', setPath strict true h t ks v = (h', .ok t) ∧ h'[b]? = some (.buf (splice xs (off + o) ys)) ∧
      (∀ c, c < h.size → c ≠ b → h'[c]? = h[c]?) ∧ h.size ≤ h'.size := by
  intro ks
  induction ks with
  | nil => intro _ _ _ _ _ _ _ _ _ hne; exact absurd rfl hne
  | cons k rest ih =>
    intro shape h t b off xs o s ys _ hn hb hin hw hco hlen
    obtain ⟨n, inner, i, j, o', rfl, hi, hj, hr, rfl⟩ := ndWin_cons_inv hw
    have hblt := lt_size_of_get hb
    have hjb := item_bound (prod inner) (resolveIdx_lt hj)
    rw [prod_cons] at hin
    have hwb := ndWin_bound rest inner o' s hr
    rw [setPath.eq_4 _ _ _ _ _ _ _ (asInt_ne_self hi) (asInt_ne_skip hi), hn]
    simp only
    rw [setNd_unfold]
    simp only [ndPre, if_true, hi, resolveIdx_ne_len hj, if_false, hj]
    cases rest with
    | nil =>
      simp only [ndWin, Option.some.injEq, Prod.mk.injEq] at hr
      obtain ⟨rfl, rfl⟩ := hr
      simp only [setPath]
      rw [hco _ (ndItem_extends h b _ inner)]
      refine ⟨_, rfl, ?_, ?_, ?_⟩
      · rw [Nat.add_zero]
        exact ndWrite_get_eq (by rw [ndItem_get_lt _ _ _ _ hblt]; exact hb) _ _
      · intro c hc hne
        rw [ndWrite_get_ne' _ _ _ _ hne, ndItem_get_lt _ _ _ _ hc]
      · rw [ndWrite_size]; exact (ndItem_extends h b _ inner).1
    | cons k' rest' =>
      have hinner : inner ≠ [] := by rintro rfl; simp [ndWin] at hr
      obtain ⟨nn, hi1, hi2, hi3⟩ := ndItem_fst h b (off + j * prod inner) inner
      rcases hi3 with ⟨_, he⟩ | ⟨hnn, _⟩
      · exact absurd he hinner
      subst hnn
      rw [hi1, hi2]
      have hchild : (h.push (.nd b (off + j * prod inner) inner))[h.size]? = some (.nd b (off + j * prod inner) inner) :=
        push_get_size _ _
      have hb2 : (h.push (.nd b (off + j * prod inner) inner))[b]? = some (.buf xs) := by
        rw [push_get_lt _ _ hblt]; exact hb
      obtain ⟨h3, hs3, hb3, hfr3, hsz3⟩ := ih inner (h.push (.nd b (off + j * prod inner) inner)) h.size b
        (off + j * prod inner) xs o' s ys (by simp) hchild hb2 (by omega) hr (hco.mono (extends_push _ _)) hlen
      rw [hs3]
      simp only
      have hsz2 : (h.push (Node.nd b (off + j * prod inner) inner)).size = h.size + 1 := by simp
      have hc3 : h3[h.size]? = some (.nd b (off + j * prod inner) inner) := by
        rw [hfr3 h.size (by omega) (by omega), hchild]
      have hl3 : (splice xs (off + j * prod inner + o') ys).length = xs.length :=
        splice_length _ _ _ (by omega)
      have hel : ndElems h3 b (off + j * prod inner) inner =
          slice (splice xs (off + j * prod inner + o') ys) (off + j * prod inner) (prod inner) := by
        simp only [ndElems, bufOf_of_get hb3]
      have hco3 : coerce h3 h.size inner =
          some (slice (splice xs (off + j * prod inner + o') ys) (off + j * prod inner) (prod inner)) := by
        unfold coerce
        rw [hc3]
        simp only [if_neg hinner, hel]
        exact bcast_self (slice_length _ (by omega))
      rw [hco3]
      refine ⟨_, rfl, ?_, ?_, ?_⟩
      · rw [ndWrite_get_eq hb3, splice_slice_self _ (by omega), Nat.add_assoc]
      · intro c hc hne
        rw [ndWrite_get_ne' _ _ _ _ hne, hfr3 c (by omega) hne, push_get_lt _ _ hc]
      · rw [ndWrite_size]; omega

/-! ## copying -/

theorem setPath_nd_copy_deep (strict : Bool) (v : Ref) : ∀ (ks : Path) (shape : List Nat) (h : Heap)
    (t b off : Nat) (o : Nat) (s : List Nat) (ys : List Int), ks ≠ [] →
    h[t]? = some (.nd b off shape) → (ndElems h b off shape).length = prod shape →
    ndWin shape ks = some (o, s) → CoerceStable h v s ys → ys.length = prod s →
    ∃ h', setPath strict false h t ks v = (h', .ok (h.size + 1)) ∧
      h'[h.size + 1]? = some (.nd h.size 0 shape) ∧
      h'[h.size]? = some (.buf (splice (ndElems h b off shape) o ys)) := by
  intro ks
  induction ks with
  | nil => intro _ _ _ _ _ _ _ _ hne; exact absurd rfl hne
  | cons k rest ih =>
    intro shape h t b off o s ys _ hn hin hw hco hlen
    obtain ⟨n, inner, i, j, o', rfl, hi, hj, hr, rfl⟩ := ndWin_cons_inv hw
    have hjb := item_bound (prod inner) (resolveIdx_lt hj)
    rw [prod_cons] at hin
    have hwb := ndWin_bound rest inner o' s hr
    rw [setPath.eq_4 _ _ _ _ _ _ _ (asInt_ne_self hi) (asInt_ne_skip hi), hn]
    simp only
    rw [setNd_unfold]
    simp only [ndPre, Bool.false_eq_true, if_false, hi, resolveIdx_ne_len hj, hj, ndCopy_snd, Nat.zero_add]
    generalize hE : ndElems h b off (n :: inner) = E at hin ⊢
    have h1eq : (ndCopy h b off (n :: inner)).1 = (h.push (.buf E)).push (.nd h.size 0 (n :: inner)) := by
      rw [ndCopy_fst, hE]
    rw [h1eq]
    have hsz1 : ((h.push (.buf E)).push (.nd h.size 0 (n :: inner))).size = h.size + 2 := by simp
    have hbuf1 : ((h.push (.buf E)).push (.nd h.size 0 (n :: inner)))[h.size]? = some (.buf E) := by
      rw [push_get_lt _ _ (by simp)]; exact push_get_size _ _
    have hnd1 : ((h.push (.buf E)).push (.nd h.size 0 (n :: inner)))[h.size + 1]? = some (.nd h.size 0 (n :: inner)) := by
      have := push_get_size (h.push (.buf E)) (.nd h.size 0 (n :: inner))
      simpa using this
    have he1 : Extends h ((h.push (.buf E)).push (.nd h.size 0 (n :: inner))) :=
      (extends_push _ _).trans (extends_push _ _)
    generalize ((h.push (.buf E)).push (.nd h.size 0 (n :: inner))) = h1 at hsz1 hbuf1 hnd1 he1 ⊢
    cases rest with
    | nil =>
      simp only [ndWin, Option.some.injEq, Prod.mk.injEq] at hr
      obtain ⟨rfl, rfl⟩ := hr
      simp only [setPath]
      rw [hco _ (he1.trans (ndItem_extends h1 _ _ inner))]
      refine ⟨_, rfl, ?_, ?_⟩
      · rw [ndWrite_get_ne' _ _ _ _ (by omega), ndItem_get_lt _ _ _ _ (by omega), hnd1]
      · rw [Nat.add_zero]
        exact ndWrite_get_eq (by rw [ndItem_get_lt _ _ _ _ (by omega)]; exact hbuf1) _ _
    | cons k' rest' =>
      have hinner : inner ≠ [] := by rintro rfl; simp [ndWin] at hr
      obtain ⟨nn, hi1, hi2, hi3⟩ := ndItem_fst h1 h.size (j * prod inner) inner
      rcases hi3 with ⟨_, he⟩ | ⟨hnn, _⟩
      · exact absurd he hinner
      subst hnn
      rw [hi1, hi2]
      have hchild : (h1.push (.nd h.size (j * prod inner) inner))[h1.size]? = some (.nd h.size (j * prod inner) inner) :=
        push_get_size _ _
      have hsz2 : (h1.push (Node.nd h.size (j * prod inner) inner)).size = h.size + 3 := by simp [hsz1]
      have hbuf2 : (h1.push (.nd h.size (j * prod inner) inner))[h.size]? = some (.buf E) := by
        rw [push_get_lt _ _ (by omega)]; exact hbuf1
      have hel2 : ndElems (h1.push (.nd h.size (j * prod inner) inner)) h.size (j * prod inner) inner =
          slice E (j * prod inner) (prod inner) := by
        simp only [ndElems, bufOf_of_get hbuf2]
      obtain ⟨h3, hs3, hnd3, hbuf3⟩ := ih inner (h1.push (.nd h.size (j * prod inner) inner)) h1.size h.size
        (j * prod inner) o' s ys (by simp) hchild (by rw [hel2]; exact slice_length _ (by omega)) hr
        (hco.mono (he1.trans (extends_push _ _))) hlen
      have hext3 := setPath_extends strict (h1.push (.nd h.size (j * prod inner) inner)) h1.size (k' :: rest') v
      rw [hs3] at hext3 ⊢
      simp only at hext3 ⊢
      rw [hel2, hsz2] at hbuf3
      rw [hsz2] at hnd3
      have hW : (splice (slice E (j * prod inner) (prod inner)) o' ys).length = prod inner := by
        rw [splice_length _ _ _ (by rw [slice_length _ (by omega)]; omega), slice_length _ (by omega)]
      have hel3 : ndElems h3 (h.size + 3) 0 inner = splice (slice E (j * prod inner) (prod inner)) o' ys := by
        simp only [ndElems, bufOf_of_get hbuf3]
        have h0 := slice_full (splice (slice E (j * prod inner) (prod inner)) o' ys)
        rw [hW] at h0; exact h0
      have hco3 : coerce h3 (h.size + 3 + 1) inner = some (splice (slice E (j * prod inner) (prod inner)) o' ys) := by
        unfold coerce
        rw [hnd3]
        simp only [if_neg hinner, hel3]
        exact bcast_self hW
      rw [hsz2, hco3]
      have hbufE : h3[h.size]? = some (.buf E) := by rw [hext3.2 _ (by omega)]; exact hbuf2
      refine ⟨_, rfl, ?_, ?_⟩
      · rw [ndWrite_get_ne' _ _ _ _ (by omega), hext3.2 _ (by omega), push_get_lt _ _ (by omega), hnd1]
      · rw [ndWrite_get_eq hbufE, splice_splice_slice E ys (by omega) (by omega)]

/-! ## reading a deep path back: `ndWalk` follows `ndWin` -/

theorem ndWalk_step (h : Heap) (b off n : Nat) (inner : List Nat) {k : PKey} (ks : Path) {i : Int} {j : Nat}
    (hi : k.asInt = some i) (hj : resolveIdx n i = some j) :
    ndWalk h b off (n :: inner) (k :: ks) =
      match inner with
      | [] => scalarWalk ((bufOf h b).getD (off + j * prod inner) 0) ks
      | _ => ndWalk h b (off + j * prod inner) inner ks := by
  cases k <;> simp [PKey.asInt] at hi <;> subst hi <;> cases inner <;> simp [ndWalk, PKey.asInt, hj]

theorem ndWalk_of_ndWin (h : Heap) (b : Ref) : ∀ (ks : Path) (shape : List Nat) (off o : Nat) (s : List Nat),
    ndWin shape ks = some (o, s) →
    ndWalk h b off shape ks =
      if s = [] ∧ ks ≠ [] then .ok (.scalar ((bufOf h b).getD (off + o) 0), true)
      else .ok (.view b (off + o) s, true) := by
  intro ks
  induction ks with
  | nil =>
    intro shape off o s hw
    simp [ndWin] at hw
    obtain ⟨rfl, rfl⟩ := hw
    simp [ndWalk]
  | cons k ks ih =>
    intro shape off o s hw
    obtain ⟨n, inner, i, j, o', rfl, hi, hj, hr, rfl⟩ := ndWin_cons_inv hw
    rw [ndWalk_step h b off n inner ks hi hj]
    cases inner with
    | nil =>
      cases ks with
      | nil =>
        simp [ndWin] at hr
        obtain ⟨rfl, rfl⟩ := hr
        simp [scalarWalk]
      | cons _ _ => simp [ndWin] at hr
    | cons m inner' =>
      simp only
      rw [ih (m :: inner') (off + j * prod (m :: inner')) o' s hr]
      cases ks with
      | nil =>
        simp [ndWin] at hr
        obtain ⟨rfl, rfl⟩ := hr
        simp
      | cons _ _ => simp [Nat.add_assoc]

/-! ## every value numpy accepts is stable under heap extension and has the window's size -/

/-- Every array object shows a window that lies inside an existing buffer (always true of numpy arrays). -/
def NdWF (h : Heap) : Prop :=
  ∀ (r b off : Nat) (shape : List Nat), h[r]? = some (Node.nd b off shape) →
    ∃ xs : List Int, h[b]? = some (Node.buf xs) ∧ off + prod shape ≤ xs.length

/-- executable check of `NdWF` (for the non-vacuity examples) -/
def ndWFB (h : Heap) : Bool :=
  h.toList.all fun n =>
    match n with
    | .nd b off shape =>
      (match h[b]? with
       | some (.buf xs) => decide (off + prod shape ≤ xs.length)
       | _ => false)
    | _ => true

theorem ndWFB_sound {h : Heap} (hb : ndWFB h = true) : NdWF h := by
  intro r b off shape hr
  unfold ndWFB at hb
  rw [List.all_eq_true] at hb
  have hmem : Node.nd b off shape ∈ h.toList := by
    have hlt := lt_size_of_get hr
    have : h[r] = .nd b off shape := by
      have := Array.getElem?_eq_getElem hlt
      rw [this] at hr; exact Option.some.inj hr
    rw [← this]
    exact Array.mem_toList_iff.mpr (Array.getElem_mem hlt)
  have := hb _ hmem
  simp only at this
  split at this
  · rename_i xs hx
    exact ⟨xs, hx, by simpa using this⟩
  · cases this

theorem NdWF.elems_length {h : Heap} (w : NdWF h) {r b off : Nat} {shape : List Nat}
    (hr : h[r]? = some (.nd b off shape)) : (ndElems h b off shape).length = prod shape := by
  obtain ⟨xs, hb, hin⟩ := w r b off shape hr
  simp only [ndElems, bufOf_of_get hb]
  exact slice_length _ hin

theorem NdWF.elems_extends {h h' : Heap} (w : NdWF h) (e : Extends h h') {r b off : Nat} {shape : List Nat}
    (hr : h[r]? = some (.nd b off shape)) : ndElems h' b off shape = ndElems h b off shape := by
  obtain ⟨xs, hb, _⟩ := w r b off shape hr
  simp only [ndElems, bufOf_of_get hb, bufOf_of_get (e.get_some hb)]

theorem mapM_some_congr {α β : Type} {f g : α → Option β} :
    ∀ {l : List α} {ys : List β}, l.mapM f = some ys → (∀ a ∈ l, ∀ y, f a = some y → g a = some y) →
      l.mapM g = some ys := by
  intro l
  induction l with
  | nil => intro ys h _; simpa using h
  | cons a l ih =>
    intro ys h hfg
    rw [List.mapM_cons] at h ⊢
    cases ha : f a with
    | none => simp [ha] at h
    | some y =>
      cases hl : l.mapM f with
      | none => simp [ha, hl] at h
      | some ys' =>
        simp [ha, hl] at h
        rw [hfg a (by simp) y ha, ih hl (fun b hb => hfg b (by simp [hb]))]
        simp [h]

theorem valArr_cases {h : Heap} {f : Nat} {r : Ref} {x : List Nat × List Int} (hv : valArr h (f + 1) r = some x) :
    (∃ i, h[r]? = some (.leaf (.int i)) ∧ x = ([], [i])) ∨
    (∃ b off shape, h[r]? = some (.nd b off shape) ∧ x = (shape, ndElems h b off shape)) ∨
    (∃ rs l, (h[r]? = some (.list rs) ∨ h[r]? = some (.tuple rs)) ∧ rs.mapM (valArr h f) = some l ∧
      ((l = [] ∧ x = ([0], [])) ∨
       (∃ s0 xs0 rest, l = (s0, xs0) :: rest ∧ rest.all (fun sx => sx.1 == s0) = true ∧
          x = (rs.length :: s0, xs0 ++ (rest.map (·.2)).flatten)))) := by
  unfold valArr at hv
  split at hv
  · simp at hv; exact Or.inl ⟨_, by assumption, hv.symm⟩
  · simp at hv; exact Or.inr (Or.inl ⟨_, _, _, by assumption, hv.symm⟩)
  · rename_i rs hr
    refine Or.inr (Or.inr ?_)
    split at hv
    · cases hv
    · rename_i hm; simp at hv; exact ⟨rs, [], Or.inl hr, hm, Or.inl ⟨rfl, hv.symm⟩⟩
    · rename_i s0 xs0 rest hm
      split at hv
      · rename_i hall; simp at hv; exact ⟨rs, _, Or.inl hr, hm, Or.inr ⟨s0, xs0, rest, rfl, hall, hv.symm⟩⟩
      · cases hv
  · rename_i rs hr
    refine Or.inr (Or.inr ?_)
    split at hv
    · cases hv
    · rename_i hm; simp at hv; exact ⟨rs, [], Or.inr hr, hm, Or.inl ⟨rfl, hv.symm⟩⟩
    · rename_i s0 xs0 rest hm
      split at hv
      · rename_i hall; simp at hv; exact ⟨rs, _, Or.inr hr, hm, Or.inr ⟨s0, xs0, rest, rfl, hall, hv.symm⟩⟩
      · cases hv
  · cases hv

theorem valArr_extends {h h' : Heap} (w : NdWF h) (e : Extends h h') : ∀ (f f' : Nat) (r : Ref)
    (x : List Nat × List Int), valArr h f r = some x → f ≤ f' → valArr h' f' r = some x := by
  intro f
  induction f with
  | zero => intro f' r x hv; simp [valArr] at hv
  | succ f ih =>
    intro f' r x hv hle
    obtain ⟨f'', rfl⟩ : ∃ f'', f' = f'' + 1 := ⟨f' - 1, by omega⟩
    rcases valArr_cases hv with ⟨i, hr, rfl⟩ | ⟨b, off, shape, hr, rfl⟩ | ⟨rs, l, hr, hm, hx⟩
    · unfold valArr; rw [e.get_some hr]
    · unfold valArr; rw [e.get_some hr]; simp only; rw [w.elems_extends e hr]
    · have hm' : rs.mapM (valArr h' f'') = some l :=
        mapM_some_congr hm (fun a _ y hy => ih f'' a y hy (by omega))
      rcases hr with hr | hr
      · unfold valArr; rw [e.get_some hr]; simp only [hm']
        rcases hx with ⟨rfl, rfl⟩ | ⟨s0, xs0, rest, rfl, hall, rfl⟩
        · rfl
        · simp only [hall, if_true]
      · unfold valArr; rw [e.get_some hr]; simp only [hm']
        rcases hx with ⟨rfl, rfl⟩ | ⟨s0, xs0, rest, rfl, hall, rfl⟩
        · rfl
        · simp only [hall, if_true]

theorem valArr_length {h : Heap} (w : NdWF h) : ∀ (f : Nat) (r : Ref) (x : List Nat × List Int),
    valArr h f r = some x → x.2.length = prod x.1 := by
  intro f
  induction f with
  | zero => intro r x hv; simp [valArr] at hv
  | succ f ih =>
    intro r x hv
    rcases valArr_cases hv with ⟨i, hr, rfl⟩ | ⟨b, off, shape, hr, rfl⟩ | ⟨rs, l, hr, hm, hx⟩
    · rfl
    · exact w.elems_length hr
    · obtain ⟨hl1, hl2⟩ := mapM_some_inv hm
      rcases hx with ⟨rfl, rfl⟩ | ⟨s0, xs0, rest, rfl, hall, rfl⟩
      · rfl
      · have hall' : ∀ sx ∈ (s0, xs0) :: rest, sx.2.length = prod s0 := by
          intro sx hsx
          obtain ⟨i, hi, rfl⟩ := List.getElem_of_mem hsx
          have h1 := ih _ _ (hl2 i (by omega) hi)
          rcases List.mem_cons.mp hsx with e | e
          · rw [e] at h1 ⊢; exact h1
          · rw [List.all_eq_true] at hall
            have := hall _ e
            simp only [beq_iff_eq] at this
            rw [this] at h1; exact h1
        simp only [prod_cons]
        rw [List.length_append, hall' (s0, xs0) (by simp),
          length_flatten_of_forall (P := prod s0) (by
            intro l' hl'
            obtain ⟨sx, hsx, rfl⟩ := List.mem_map.mp hl'
            exact hall' sx (by simp [hsx]))]
        simp only [List.length_map]
        simp only [List.length_cons] at hl1
        rw [← hl1, Nat.succ_mul]; omega

/-- what `coerce` accepts on `h` it accepts, with the same elements, on every extension of `h` -/
theorem coerce_stable {h : Heap} (w : NdWF h) {v : Ref} {t : List Nat} {ys : List Int}
    (hc : coerce h v t = some ys) : CoerceStable h v t ys := by
  intro h' e
  unfold coerce at hc ⊢
  split at hc
  · rename_i x hv; rw [e.get_some hv]; exact hc
  · rename_i b off s hv
    rw [e.get_some hv]; simp only; rw [w.elems_extends e hv]; exact hc
  · rename_i rs hv
    rw [e.get_some hv]; simp only
    cases hva : valArr h (h.size + 1) v with
    | none => rw [hva] at hc; cases hc
    | some x =>
      rw [hva] at hc
      rw [valArr_extends w e _ (h'.size + 1) v x hva (by have := e.1; omega)]
      exact hc
  · rename_i rs hv
    rw [e.get_some hv]; simp only
    cases hva : valArr h (h.size + 1) v with
    | none => rw [hva] at hc; cases hc
    | some x =>
      rw [hva] at hc
      rw [valArr_extends w e _ (h'.size + 1) v x hva (by have := e.1; omega)]
      exact hc
  · cases hc

/-- … and the elements fill the window exactly -/
theorem coerce_length {h : Heap} (w : NdWF h) {v : Ref} {t : List Nat} {ys : List Int}
    (hc : coerce h v t = some ys) : ys.length = prod t := by
  unfold coerce at hc
  split at hc
  · simp at hc; subst hc; simp
  · rename_i b off s hv
    split at hc
    · cases hc
    · exact bcast_length (w.elems_length hv) hc
  · rename_i rs hv
    cases hva : valArr h (h.size + 1) v with
    | none => rw [hva] at hc; cases hc
    | some x =>
      rw [hva] at hc
      simp only at hc
      split at hc
      · cases hc
      · exact bcast_length (valArr_length w _ _ _ hva) hc
  · rename_i rs hv
    cases hva : valArr h (h.size + 1) v with
    | none => rw [hva] at hc; cases hc
    | some x =>
      rw [hva] at hc
      simp only at hc
      split at hc
      · cases hc
      · exact bcast_length (valArr_length w _ _ _ hva) hc
  · cases hc

end MlModel.Tree
