import MlModel.Lemmas.QueueLiveX
/-!
# Liveness of the IteratorQueue LTS — the wait lists of the two conditions

`wlD s` / `wlE s` (notified ++ parked) change only by the stepping thread's own `wait` (append its
tid) and wake-up (erase its tid): `notify` just moves tids from the parked to the notified part.
-/
namespace MlModel.Queue
set_option linter.unusedSimpArgs false

theorem erase_app_l {a : Tid} {l1 l2 : List Tid} (h : a ∈ l1) : l1.erase a ++ l2 = (l1 ++ l2).erase a :=
  (List.erase_append_left l2 h).symm

theorem erase_app_r {a : Tid} {l1 l2 : List Tid} (h : a ∉ l1) : l1 ++ l2.erase a = (l1 ++ l2).erase a :=
  (List.erase_append_right l2 h).symm

@[simp] theorem take1_tail (l : List Tid) : l.take 1 ++ l.tail = l := by cases l <;> simp

def WStep (s : Shared) (t : Thread) (tid : Tid) (alt : Bool) : Prop :=
  ∀ lbl s' t', stepThread s t tid alt = some (lbl, s', t') →
    wlD s' = (if consWakePc t.pc = true then (wlD s).erase tid
              else if consWakePc t'.pc = true then wlD s ++ [tid] else wlD s) ∧
    wlE s' = (if prodWakePc t.pc = true then (wlE s).erase tid
              else if prodWakePc t'.pc = true then wlE s ++ [tid] else wlE s) ∧
    (consWakePc t.pc = true → consWakePc t'.pc = false) ∧
    (prodWakePc t.pc = true → prodWakePc t'.pc = false)

set_option hygiene false in
macro "w_group" : tactic => `(tactic| (
  intro lbl s' t' h
  unfold stepThread at h
  cases hpc : t.pc <;> (try (simp only [hpc, Pc.group] at hg; omega)) <;>
    simp only [hpc] at h <;>
    (try simp only [acquire, release, notify, waitPark, waitWake, goto, enqLoop, putLoop, batchLoop,
      afterRaise, afterValue] at h) <;>
    (repeat' split at h) <;>
    (try simp only [Option.some.injEq, Prod.mk.injEq, reduceCtorEq] at h) <;>
    (try (obtain ⟨-, rfl, rfl⟩ := h)) <;>
    simp_all [Shared.setOwner, Shared.owner, consWakePc, prodWakePc, wlD, wlE, erase_app_l, erase_app_r]))

theorem w_g0 {s t tid alt} (hg : t.pc.group = 0) : WStep s t tid alt := by w_group
theorem w_g1 {s t tid alt} (hg : t.pc.group = 1) : WStep s t tid alt := by w_group
theorem w_g2 {s t tid alt} (hg : t.pc.group = 2) : WStep s t tid alt := by w_group
theorem w_g3 {s t tid alt} (hg : t.pc.group = 3) : WStep s t tid alt := by w_group
theorem w_g4 {s t tid alt} (hg : t.pc.group = 4) : WStep s t tid alt := by w_group
theorem w_g5 {s t tid alt} (hg : t.pc.group = 5) : WStep s t tid alt := by w_group
theorem w_g6 {s t tid alt} (hg : t.pc.group = 6) : WStep s t tid alt := by w_group
theorem w_g7 {s t tid alt} (hg : t.pc.group = 7) : WStep s t tid alt := by w_group

theorem stepThread_w {s t tid alt} : WStep s t tid alt := by
  have h := Pc.group_lt t.pc
  match hg : t.pc.group with
  | 0 => exact w_g0 hg | 1 => exact w_g1 hg | 2 => exact w_g2 hg | 3 => exact w_g3 hg
  | 4 => exact w_g4 hg | 5 => exact w_g5 hg | 6 => exact w_g6 hg | 7 => exact w_g7 hg
  | n + 8 => omega

end MlModel.Queue
