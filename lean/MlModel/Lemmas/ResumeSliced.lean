import MlModel.Model.ResumeSliced
import MlModel.Lemmas.ResumeChain
import MlModel.Lemmas.PipeAggCarry
/-!
# Lemmas for C10: a runner iterator with a SLICED aggregation refines "a cursor into its output list",
and its whole state map — dynamic keys included — is that of one pass over what it has delivered
-/
namespace MlModel.Resume
open MlModel.PipeAgg (Batch State Pipeline initFilter startState updateState runFrom createState
  Owned owned_runFrom owned_createState initFilter_of_owned runFrom_append startState_none)

variable {α X S Rv : Type} {R : Recoverable α} {Inv : R.It → Prop} {rem : R.It → List α}

theorem SlicedDef.elems_eq (D : SlicedDef α X S Rv) : D.elems = rowPipe D.f noAgg (fun _ => []) := rfl

/-- the state map after one more delivered batch -/
theorem aggStep_runFrom (P : Pipeline X S Rv) (s0 : State S) (Dl : List Batch) (b : Batch) :
    aggStep P (runFrom P s0 Dl) (some b) = runFrom P s0 (Dl ++ [b]) := by
  rw [runFrom_append]
  cases runFrom P s0 Dl with
  | error e => rfl
  | ok st =>
    simp only [aggStep, runFrom]
    cases updateState P st b <;> rfl

/-- the constructor's filter leaves a state reached from `create_state()` as it is -/
theorem map_initFilter_run (P : Pipeline X S Rv) (Dl : List Batch) :
    (runFrom P (createState P) Dl).map (initFilter P) = runFrom P (createState P) Dl := by
  cases h : runFrom P (createState P) Dl with
  | error e => rfl
  | ok st =>
    show Except.ok (initFilter P st) = Except.ok st
    rw [initFilter_of_owned (owned_runFrom (owned_createState P) h)]

/-- invariant of a sliced runner iterator over a refined source (`all` = the outputs of its uninterrupted
run): the multiplex part is in order, and `agg_state` is the state map of ONE PASS over exactly the
batches delivered so far -/
def SlicedIt.SInv (Inv : R.It → Prop) (rem : R.It → List α) (D : SlicedDef α X S Rv) (all : List Batch)
    (it : SlicedIt R S) : Prop :=
  PipeIt.SrcInv Inv rem D.f noAgg (fun _ => []) all it.base ∧
    ∃ Dl, Dl ++ (rem it.base.src).flatMap D.f = all ∧ it.agg = runFrom D.P (createState D.P) Dl

/-- **A runner iterator with a sliced aggregation refines "a cursor into its output list"**; a restore
from the captured state has the same remaining outputs AND the same state map (every key). -/
theorem slicedRec_refines (h : Refines R Inv rem) (D : SlicedDef α X S Rv)
    (hf : ∀ a, (D.f a).length ≤ 1) (all : List Batch) :
    Refines (slicedRec R D) (SlicedIt.SInv Inv rem D all) (fun it => (rem it.base.src).flatMap D.f) where
  next_nil := by
    intro it hi hr
    obtain ⟨hb, Dl, hD, hagg⟩ := hi
    obtain ⟨n1, n2, n3⟩ := (pipeRec_refines h D.f hf noAgg (fun _ => []) all).next_nil it.base hb hr
    have n1' : (PipeIt.next R D.elems it.base).1 = none := n1
    refine ⟨n1, ⟨n2, Dl, ?_, ?_⟩, n3⟩
    · show Dl ++ (rem (PipeIt.next R D.elems it.base).2.src).flatMap D.f = all
      have n3' : (rem (PipeIt.next R D.elems it.base).2.src).flatMap D.f = [] := n3
      rw [n3', ← hr]; exact hD
    · show aggStep D.P it.agg (PipeIt.next R D.elems it.base).1 = _
      rw [n1']; exact hagg
  next_cons := by
    intro it b bs hi hr
    obtain ⟨hb, Dl, hD, hagg⟩ := hi
    obtain ⟨n1, n2, n3⟩ := (pipeRec_refines h D.f hf noAgg (fun _ => []) all).next_cons it.base b bs hb hr
    have n1' : (PipeIt.next R D.elems it.base).1 = some b := n1
    refine ⟨n1, ⟨n2, Dl ++ [b], ?_, ?_⟩, n3⟩
    · show (Dl ++ [b]) ++ (rem (PipeIt.next R D.elems it.base).2.src).flatMap D.f = all
      have n3' : (rem (PipeIt.next R D.elems it.base).2.src).flatMap D.f = bs := n3
      have hr' : (rem it.base.src).flatMap D.f = b :: bs := hr
      rw [n3', List.append_assoc, ← hD, hr']; rfl
    · show aggStep D.P it.agg (PipeIt.next R D.elems it.base).1 = _
      rw [n1', hagg]; exact aggStep_runFrom _ _ _ _
  restore_state := by
    intro it hi
    obtain ⟨⟨hpi, hpend, D0, hD0, _⟩, Dl, hD, hagg⟩ := hi
    obtain ⟨src', h1, h2, h3⟩ := h.restore_state it.base.src hpi.1
    refine ⟨⟨PipeIt.fresh R D.elems src' (), it.agg⟩, ?_, ⟨⟨⟨h2, fun hd => by simp [PipeIt.fresh] at hd⟩, rfl, D0, ?_, rfl⟩, Dl, ?_, hagg⟩, ?_⟩
    · show SlicedIt.restoreWith R D (initFilter D.P) (R.state it.base.src, it.agg) = _
      simp only [SlicedIt.restoreWith, h1, bind, Except.bind, pure, Except.pure]
      rw [hagg, map_initFilter_run]
      rfl
    · show D0 ++ (rem src').flatMap D.f = all
      rw [h3]; exact hD0
    · show Dl ++ (rem src').flatMap D.f = all
      rw [h3]; exact hD
    · show (rem src').flatMap D.f = (rem it.base.src).flatMap D.f
      rw [h3]
  size_ok := by
    intro it hi
    exact (pipeRec_refines h D.f hf noAgg (fun _ => []) all).size_ok it.base hi.1

theorem SlicedIt.SInv.fresh (D : SlicedDef α X S Rv) (it : R.It) (hi : Inv it) :
    SlicedIt.SInv Inv rem D ((rem it).flatMap D.f) (SlicedIt.fresh R D it none) :=
  ⟨PipeIt.SrcInv.fresh D.f noAgg (fun _ => []) it hi, [], by simp [SlicedIt.fresh, PipeIt.fresh],
    by simp [SlicedIt.fresh, startState_none, runFrom]⟩

/-- what the invariant says about `agg_state`, given what was delivered -/
theorem SlicedIt.SInv.agg_eq {D : SlicedDef α X S Rv} {all : List Batch} {it : SlicedIt R S}
    (hi : SlicedIt.SInv Inv rem D all it) {dl : List Batch}
    (hd : dl ++ (rem it.base.src).flatMap D.f = all) : it.agg = PipeAgg.run D.P dl := by
  obtain ⟨_, Dl, hD, hagg⟩ := hi
  have : Dl = dl := List.append_cancel_right (hD.trans hd.symm)
  rw [hagg, this]; rfl

/-! ### chains of sliced runners -/

section chain
variable {R : Recoverable Batch} {Inv : R.It → Prop} {rem : R.It → List Batch}

/-- the outputs of the uninterrupted run of a chain (downstream first) -/
def slicedChainOut : List (SlicedDef Batch X S Rv) → List Batch → List Batch
  | [], xs => xs
  | D :: Ds, xs => (slicedChainOut Ds xs).flatMap D.f

def slicedChainRem (rem : R.It → List Batch) : (Ds : List (SlicedDef Batch X S Rv)) →
    (slicedChainRec R Ds).It → List Batch
  | [], it => rem it
  | D :: Ds, p => (slicedChainRem rem Ds (show SlicedIt (slicedChainRec R Ds) S from p).base.src).flatMap D.f

def slicedChainInv (Inv : R.It → Prop) (rem : R.It → List Batch) (E : List Batch) :
    (Ds : List (SlicedDef Batch X S Rv)) → (slicedChainRec R Ds).It → Prop
  | [], it => Inv it
  | D :: Ds, p =>
    SlicedIt.SInv (R := slicedChainRec R Ds) (slicedChainInv Inv rem E Ds) (slicedChainRem rem Ds) D
      (slicedChainOut (D :: Ds) E) p

/-- what every stage has delivered so far (downstream first): its uninterrupted output stream minus what
it will still deliver -/
def slicedDelivered (rem : R.It → List Batch) (E : List Batch) : (Ds : List (SlicedDef Batch X S Rv)) →
    (slicedChainRec R Ds).It → List (List Batch)
  | [], _ => []
  | D :: Ds, p =>
    (slicedChainOut (D :: Ds) E).take
        ((slicedChainOut (D :: Ds) E).length - (slicedChainRem rem (D :: Ds) p).length) ::
      slicedDelivered rem E Ds (show SlicedIt (slicedChainRec R Ds) S from p).base.src

theorem sliced_chain_refines (h : Refines R Inv rem) (E : List Batch) :
    ∀ Ds : List (SlicedDef Batch X S Rv), (∀ D ∈ Ds, ∀ a, (D.f a).length ≤ 1) →
      Refines (slicedChainRec R Ds) (slicedChainInv Inv rem E Ds) (slicedChainRem rem Ds) := by
  intro Ds
  induction Ds with
  | nil => intro _; exact h
  | cons D Ds ih =>
    intro hf
    exact slicedRec_refines (ih (fun D' hD a => hf D' (List.mem_cons_of_mem _ hD) a)) D
      (hf D List.mem_cons_self) _

theorem sliced_chain_fresh (it : R.It) (hi : Inv it) : ∀ Ds : List (SlicedDef Batch X S Rv),
    slicedChainInv Inv rem (rem it) Ds (slicedChainFresh R Ds it) ∧
      slicedChainRem rem Ds (slicedChainFresh R Ds it) = slicedChainOut Ds (rem it) := by
  intro Ds
  induction Ds with
  | nil => exact ⟨hi, rfl⟩
  | cons D Ds ih =>
    obtain ⟨i1, i2⟩ := ih
    have hfresh := SlicedIt.SInv.fresh (R := slicedChainRec R Ds) (Inv := slicedChainInv Inv rem (rem it) Ds)
      (rem := slicedChainRem rem Ds) D (slicedChainFresh R Ds it) i1
    rw [i2] at hfresh
    exact ⟨hfresh, by
      show (slicedChainRem rem Ds (slicedChainFresh R Ds it)).flatMap D.f = _
      rw [i2]; rfl⟩

/-- at every moment: every stage's state map is that of ONE PASS over exactly what the stage has
delivered so far -/
theorem slicedAggsDown_delivered (E : List Batch) : ∀ (Ds : List (SlicedDef Batch X S Rv))
    (it : (slicedChainRec R Ds).It), slicedChainInv Inv rem E Ds it →
      slicedAggsDown R Ds it =
        (Ds.zip (slicedDelivered rem E Ds it)).map (fun p => PipeAgg.run p.1.P p.2) := by
  intro Ds
  induction Ds with
  | nil => intro _ _; rfl
  | cons D Ds ih =>
    intro p hp
    have hsrc : slicedChainInv Inv rem E Ds (show SlicedIt (slicedChainRec R Ds) S from p).base.src :=
      hp.1.1.1
    obtain ⟨_, Dl, hD, hagg⟩ := hp
    have hD' : Dl ++ slicedChainRem rem (D :: Ds) p = slicedChainOut (D :: Ds) E := hD
    have htake : (slicedChainOut (D :: Ds) E).take
        ((slicedChainOut (D :: Ds) E).length - (slicedChainRem rem (D :: Ds) p).length) = Dl := by
      rw [← hD']; simp
    show (show SlicedIt (slicedChainRec R Ds) S from p).agg ::
      slicedAggsDown R Ds (show SlicedIt (slicedChainRec R Ds) S from p).base.src = _
    rw [ih _ hsrc, hagg]
    simp only [slicedDelivered, List.zip_cons_cons, List.map_cons]
    rw [htake]; rfl

end chain

/-! ### exhaustion: a `done` runner sits on a source that REPORTED exhaustion (as `Lemmas/ResumeChain.lean` does for
abstract aggregates), which makes the state maps of the stages far upstream final once the last stage is exhausted -/

section exh
variable {α X S Rv : Type} {R : Recoverable α} {Inv : R.It → Prop} {rem : R.It → List α}

/-- `SInv` + "done only on a source that reported exhaustion" -/
def SlicedIt.SInvX (Inv : R.It → Prop) (rem : R.It → List α) (Exh : R.It → Prop) (D : SlicedDef α X S Rv)
    (all : List Batch) (it : SlicedIt R S) : Prop :=
  SlicedIt.SInv Inv rem D all it ∧ (it.base.done = true → Exh it.base.src)

theorem slicedRec_refines_exh (h : Refines R Inv rem) (Exh : R.It → Prop)
    (hx : ∀ it, Inv it → (R.next it).1 = none → Exh (R.next it).2)
    (D : SlicedDef α X S Rv) (hf : ∀ a, (D.f a).length ≤ 1) (all : List Batch) :
    Refines (slicedRec R D) (SlicedIt.SInvX Inv rem Exh D all) (fun it => (rem it.base.src).flatMap D.f) where
  next_nil := by
    intro it hi hr
    obtain ⟨a, b, c⟩ := (slicedRec_refines h D hf all).next_nil it hi.1 hr
    exact ⟨a, ⟨b, PipeIt.nextAux_exh h D.elems Exh hx _ it.base hi.1.1.1.1 hi.2⟩, c⟩
  next_cons := by
    intro it x xs hi hr
    obtain ⟨a, b, c⟩ := (slicedRec_refines h D hf all).next_cons it x xs hi.1 hr
    exact ⟨a, ⟨b, PipeIt.nextAux_exh h D.elems Exh hx _ it.base hi.1.1.1.1 hi.2⟩, c⟩
  restore_state := by
    intro it hi
    obtain ⟨it', e, b, c⟩ := (slicedRec_refines h D hf all).restore_state it hi.1
    refine ⟨it', e, ⟨b, fun hd => ?_⟩, c⟩
    have e' : SlicedIt.restoreWith R D (PipeAgg.initFilter D.P) (SlicedIt.state R it) = .ok it' := e
    unfold SlicedIt.restoreWith at e'
    cases hq : R.restore (SlicedIt.state R it).1 with
    | error err => simp [hq, bind, Except.bind] at e'
    | ok src =>
      simp only [hq, bind, Except.bind, pure, Except.pure] at e'
      injection e' with e'
      subst e'
      simp [PipeIt.fresh] at hd
  size_ok := fun it hi => (slicedRec_refines h D hf all).size_ok it hi.1

/-- a sliced runner iterator that answers `none` is `done`, on a source that reported exhaustion -/
theorem slicedRec_none_exh (h : Refines R Inv rem) (Exh : R.It → Prop)
    (hx : ∀ it, Inv it → (R.next it).1 = none → Exh (R.next it).2)
    (D : SlicedDef α X S Rv) (all : List Batch) (it : SlicedIt R S)
    (hi : SlicedIt.SInvX Inv rem Exh D all it) (hn : ((slicedRec R D).next it).1 = none) :
    (SlicedIt.base (R := R) ((slicedRec R D).next it).2).done = true ∧
      Exh (SlicedIt.base (R := R) ((slicedRec R D).next it).2).src := by
  have hs := PipeIt.next_spec h (rowPipe D.f noAgg (fun _ => [])) (rowViewOf D.f)
    (rowPipe_conserves D.f noAgg (fun _ => [])) it.base hi.1.1.1
  have hn' : (PipeIt.next R (rowPipe D.f noAgg (fun _ => [])) it.base).1 = none := hn
  rw [hn'] at hs
  have hd : (PipeIt.next R (rowPipe D.f noAgg (fun _ => [])) it.base).2.done = true := hs.2.2.2.2
  exact ⟨hd, PipeIt.nextAux_exh h _ Exh hx _ it.base hi.1.1.1.1 hi.2 hd⟩

end exh

section chainx
variable {X S Rv : Type} {R : Recoverable Batch} {Inv : R.It → Prop} {rem : R.It → List Batch}

/-- every runner of the chain has seen its source's `StopIteration` -/
def slicedChainExh : (Ds : List (SlicedDef Batch X S Rv)) → (slicedChainRec R Ds).It → Prop
  | [], _ => True
  | _ :: Ds, p => (show SlicedIt (slicedChainRec R Ds) S from p).base.done = true ∧
      slicedChainExh Ds (show SlicedIt (slicedChainRec R Ds) S from p).base.src

def slicedChainInvX (Inv : R.It → Prop) (rem : R.It → List Batch) (E : List Batch) :
    (Ds : List (SlicedDef Batch X S Rv)) → (slicedChainRec R Ds).It → Prop
  | [], it => Inv it
  | D :: Ds, p =>
    SlicedIt.SInvX (R := slicedChainRec R Ds) (slicedChainInvX Inv rem E Ds) (slicedChainRem rem Ds)
      (slicedChainExh Ds) D (slicedChainOut (D :: Ds) E) p

theorem sliced_chain_refines_exh (h : Refines R Inv rem) (E : List Batch) :
    ∀ Ds : List (SlicedDef Batch X S Rv), (∀ D ∈ Ds, ∀ a, (D.f a).length ≤ 1) →
      Refines (slicedChainRec R Ds) (slicedChainInvX Inv rem E Ds) (slicedChainRem rem Ds) ∧
      (∀ it, slicedChainInvX Inv rem E Ds it → ((slicedChainRec R Ds).next it).1 = none →
        slicedChainExh Ds ((slicedChainRec R Ds).next it).2) := by
  intro Ds
  induction Ds with
  | nil => intro _; exact ⟨h, fun _ _ _ => trivial⟩
  | cons D Ds ih =>
    intro hf
    obtain ⟨h', hx'⟩ := ih (fun t ht => hf t (List.mem_cons_of_mem _ ht))
    have hfs := hf D List.mem_cons_self
    exact ⟨slicedRec_refines_exh h' (slicedChainExh Ds) hx' D hfs _,
      fun p hp hn => slicedRec_none_exh h' (slicedChainExh Ds) hx' D _ p hp hn⟩

theorem sliced_chain_fresh_exh (it : R.It) (hi : Inv it) : ∀ Ds : List (SlicedDef Batch X S Rv),
    slicedChainInvX Inv rem (rem it) Ds (slicedChainFresh R Ds it) ∧
      slicedChainRem rem Ds (slicedChainFresh R Ds it) = slicedChainOut Ds (rem it) := by
  intro Ds
  induction Ds with
  | nil => exact ⟨hi, rfl⟩
  | cons D Ds ih =>
    obtain ⟨i1, i2⟩ := ih
    have hfresh := SlicedIt.SInv.fresh (R := slicedChainRec R Ds) (Inv := slicedChainInvX Inv rem (rem it) Ds)
      (rem := slicedChainRem rem Ds) D (slicedChainFresh R Ds it) i1
    rw [i2] at hfresh
    refine ⟨⟨hfresh, fun hd => ?_⟩, ?_⟩
    · simp [slicedChainFresh, SlicedIt.fresh, PipeIt.fresh] at hd
    · show (slicedChainRem rem Ds (slicedChainFresh R Ds it)).flatMap D.f = _
      rw [i2]; rfl

/-- the state map of every stage (downstream first) after ONE PASS over the whole stream -/
def slicedFinalAggs : List (SlicedDef Batch X S Rv) → List Batch → List (Except ErrKind (State S))
  | [], _ => []
  | D :: Ds, E => PipeAgg.run D.P (slicedChainOut (D :: Ds) E) :: slicedFinalAggs Ds E

/-- once every runner is exhausted, every stage's state map is that of one pass over ALL its outputs -/
theorem slicedAggsDown_final (E : List Batch) : ∀ (Ds : List (SlicedDef Batch X S Rv))
    (it : (slicedChainRec R Ds).It), slicedChainInvX Inv rem E Ds it → slicedChainExh Ds it →
      slicedAggsDown R Ds it = slicedFinalAggs Ds E := by
  intro Ds
  induction Ds with
  | nil => intro _ _ _; rfl
  | cons D Ds ih =>
    intro p hp hx
    obtain ⟨⟨⟨⟨hsrc, hrem⟩, _, _, _, _⟩, Dl, hD, hagg⟩, _⟩ := hp
    obtain ⟨hd, hxs⟩ := hx
    have hnil := hrem hd
    rw [hnil, List.flatMap_nil, List.append_nil] at hD
    show (show SlicedIt (slicedChainRec R Ds) S from p).agg ::
      slicedAggsDown R Ds (show SlicedIt (slicedChainRec R Ds) S from p).base.src = _
    rw [ih _ hsrc hxs, hagg, hD]
    rfl

end chainx
end MlModel.Resume
