import MlModel.Model.Agg.Confusion
import MlModel.Model.Spec.Classification
/-!
# The count stage of `_indicator_confusion_matrix` against the textbook counts

`countsOf` (model of classification.py:480–490) computes `tp`, `fn` by masking and the other two
by subtraction (`fp = positive − tp`, `tn = negative − fn`) along an axis.  Here: each of the four
arrays is the textbook count (`Spec.Classification.tpOf …`) of the corresponding collection of
cells — all cells (axis `None`), the cells of one class (axis 0), the cells of one example (axis 1).
-/
namespace MlModel.Agg.Confusion
open MlModel.Spec.Classification

/-- the cells of one row: position-wise pairs (true?, predicted?) -/
def rowCells (t p : List Bool) : List Cell := List.zipWith Cell.mk t p

theorem cnt_nil : cnt [] = 0 := rfl

theorem cnt_cons (b : Bool) (bs : List Bool) : cnt (b :: bs) = (if b then 1 else 0) + cnt bs := by
  cases b <;> simp [cnt] <;> omega

theorem cnt_append (a b : List Bool) : cnt (a ++ b) = cnt a + cnt b := by
  simp [cnt, List.count_append]

theorem cnt_nonneg (bs : List Bool) : 0 ≤ cnt bs := by simp [cnt]

/-! ### one row (or one column) -/

theorem row_tp : ∀ (t p : List Bool), cnt (List.zipWith (· && ·) p t) = (tpOf (rowCells t p) : Int)
  | [], p => by cases p <;> simp [rowCells, tpOf, cnt]
  | _ :: _, [] => by simp [rowCells, tpOf, cnt]
  | a :: t, b :: p => by
    have ih := row_tp t p
    simp only [List.zipWith_cons_cons, cnt_cons, ih, rowCells, tpOf, List.countP_cons] at *
    cases a <;> cases b <;> simp <;> omega

theorem row_fn : ∀ (t p : List Bool),
    cnt (List.zipWith (· && ·) (p.map (!·)) t) = (fnOf (rowCells t p) : Int)
  | [], p => by cases p <;> simp [rowCells, fnOf, cnt]
  | _ :: _, [] => by simp [rowCells, fnOf, cnt]
  | a :: t, b :: p => by
    have ih := row_fn t p
    simp only [List.map_cons, List.zipWith_cons_cons, cnt_cons, ih, rowCells, fnOf,
      List.countP_cons] at *
    cases a <;> cases b <;> simp <;> omega

theorem row_pos : ∀ (t p : List Bool), t.length = p.length →
    cnt p = (tpOf (rowCells t p) : Int) + (fpOf (rowCells t p) : Int)
  | [], [], _ => by simp [rowCells, tpOf, fpOf, cnt]
  | [], _ :: _, h => by simp at h
  | _ :: _, [], h => by simp at h
  | a :: t, b :: p, h => by
    have ih := row_pos t p (by simpa using h)
    simp only [cnt_cons, ih, rowCells, tpOf, fpOf, List.zipWith_cons_cons, List.countP_cons] at *
    cases a <;> cases b <;> simp <;> omega

theorem row_neg : ∀ (t p : List Bool), t.length = p.length →
    cnt (p.map (!·)) = (fnOf (rowCells t p) : Int) + (tnOf (rowCells t p) : Int)
  | [], [], _ => by simp [rowCells, tnOf, fnOf, cnt]
  | [], _ :: _, h => by simp at h
  | _ :: _, [], h => by simp at h
  | a :: t, b :: p, h => by
    have ih := row_neg t p (by simpa using h)
    simp only [List.map_cons, cnt_cons, ih, rowCells, tnOf, fnOf, List.zipWith_cons_cons,
      List.countP_cons] at *
    cases a <;> cases b <;> simp <;> omega

theorem row_fp (t p : List Bool) (h : t.length = p.length) :
    cnt p - cnt (List.zipWith (· && ·) p t) = (fpOf (rowCells t p) : Int) := by
  rw [row_pos t p h, row_tp]; omega

theorem row_tn (t p : List Bool) (h : t.length = p.length) :
    cnt (p.map (!·)) - cnt (List.zipWith (· && ·) (p.map (!·)) t) = (tnOf (rowCells t p) : Int) := by
  rw [row_neg t p h, row_fn]; omega

/-! ### axis 1 : one count per example -/

theorem andRows_cons (a : List Bool) (as : List (List Bool)) (b : List Bool) (bs : List (List Bool)) :
    andRows (a :: as) (b :: bs) = List.zipWith (· && ·) a b :: andRows as bs := rfl

/-- rows of `tr`/`po` paired up -/
def pairRows (tr po : List (List Bool)) : List (List Bool × List Bool) := tr.zip po

/-- every paired row has matching widths -/
def RowsAligned (tr po : List (List Bool)) : Prop :=
  tr.length = po.length ∧ ∀ tp ∈ tr.zip po, tp.1.length = tp.2.length

theorem RowsAligned.tail {a b : List Bool} {tr po : List (List Bool)}
    (h : RowsAligned (a :: tr) (b :: po)) : a.length = b.length ∧ RowsAligned tr po := by
  obtain ⟨h1, h2⟩ := h
  refine ⟨h2 (a, b) (by simp), by simpa using h1, fun tp htp => h2 tp ?_⟩
  simp [htp]

theorem perRow_tp : ∀ (tr po : List (List Bool)),
    (andRows po tr).map cnt = (tr.zip po).map fun x => (tpOf (rowCells x.1 x.2) : Int)
  | [], po => by cases po <;> simp [andRows]
  | _ :: _, [] => by simp [andRows]
  | a :: tr, b :: po => by
    simp only [andRows_cons, List.map_cons, List.zip_cons_cons, row_tp, perRow_tp tr po]

theorem perRow_fn : ∀ (tr po : List (List Bool)),
    (andRows (notRows po) tr).map cnt = (tr.zip po).map fun x => (fnOf (rowCells x.1 x.2) : Int)
  | [], po => by cases po <;> simp [andRows, notRows]
  | _ :: _, [] => by simp [andRows, notRows]
  | a :: tr, b :: po => by
    have ih := perRow_fn tr po
    simp only [notRows, List.map_cons, andRows_cons, List.zip_cons_cons, row_fn] at *
    rw [ih]

theorem perRow_fp : ∀ (tr po : List (List Bool)), RowsAligned tr po →
    List.zipWith (· - ·) (po.map cnt) ((andRows po tr).map cnt)
      = (tr.zip po).map fun x => (fpOf (rowCells x.1 x.2) : Int)
  | [], [], _ => by simp [andRows]
  | [], _ :: _, h => by simp [RowsAligned] at h
  | _ :: _, [], h => by simp [RowsAligned] at h
  | a :: tr, b :: po, h => by
    obtain ⟨hab, ht⟩ := h.tail
    simp only [andRows_cons, List.map_cons, List.zipWith_cons_cons, List.zip_cons_cons,
      row_fp a b hab, perRow_fp tr po ht]

theorem perRow_tn : ∀ (tr po : List (List Bool)), RowsAligned tr po →
    List.zipWith (· - ·) ((notRows po).map cnt) ((andRows (notRows po) tr).map cnt)
      = (tr.zip po).map fun x => (tnOf (rowCells x.1 x.2) : Int)
  | [], [], _ => by simp [andRows, notRows]
  | [], _ :: _, h => by simp [RowsAligned] at h
  | _ :: _, [], h => by simp [RowsAligned] at h
  | a :: tr, b :: po, h => by
    obtain ⟨hab, ht⟩ := h.tail
    have ih := perRow_tn tr po ht
    simp only [notRows, List.map_cons, andRows_cons, List.zipWith_cons_cons, List.zip_cons_cons,
      row_tn a b hab] at *
    rw [ih]

/-- **samples** (axis 1): the `i`-th entry of each array is the textbook count over the cells of
example `i` -/
theorem countsOf_samples (W : Nat) (tr po : List (List Bool)) (h : RowsAligned tr po) :
    countsOf (some 1) W tr po =
      { tp := .v ((tr.zip po).map fun x => (tpOf (rowCells x.1 x.2) : Int)),
        tn := .v ((tr.zip po).map fun x => (tnOf (rowCells x.1 x.2) : Int)),
        fp := .v ((tr.zip po).map fun x => (fpOf (rowCells x.1 x.2) : Int)),
        fn := .v ((tr.zip po).map fun x => (fnOf (rowCells x.1 x.2) : Int)) } := by
  simp only [countsOf, sumAxis, arrSub]
  refine CMArr.mk.injEq .. |>.mpr ⟨?_, ?_, ?_, ?_⟩ <;> congr 1
  · exact perRow_tp tr po
  · exact perRow_tn tr po h
  · exact perRow_fp tr po h
  · exact perRow_fn tr po

/-! ### axis None : all cells pooled -/

/-- all (example, class) cells of the batch -/
def pooledCells (tr po : List (List Bool)) : List Cell :=
  (tr.zip po).flatMap fun x => rowCells x.1 x.2

theorem sum_map_count (f : List Bool × List Bool → List Cell) (g : List Cell → Nat)
    (hg : ∀ a b, g (a ++ b) = g a + g b) (hg0 : g [] = 0) :
    ∀ xs : List (List Bool × List Bool), ((xs.map fun x => ((g (f x) : Nat) : Int))).sum = (g (xs.flatMap f) : Int)
  | [] => by simp [hg0]
  | x :: xs => by
    simp only [List.map_cons, List.sum_cons, List.flatMap_cons, hg, sum_map_count f g hg hg0 xs]
    omega

theorem tpOf_append (a b : List Cell) : tpOf (a ++ b) = tpOf a + tpOf b := by simp [tpOf]
theorem fpOf_append (a b : List Cell) : fpOf (a ++ b) = fpOf a + fpOf b := by simp [fpOf]
theorem fnOf_append (a b : List Cell) : fnOf (a ++ b) = fnOf a + fnOf b := by simp [fnOf]
theorem tnOf_append (a b : List Cell) : tnOf (a ++ b) = tnOf a + tnOf b := by simp [tnOf]

theorem sum_zipWith_sub : ∀ (a b : List Int), a.length = b.length →
    (List.zipWith (· - ·) a b).sum = a.sum - b.sum
  | [], [], _ => by simp
  | [], _ :: _, h => by simp at h
  | _ :: _, [], h => by simp at h
  | x :: a, y :: b, h => by
    simp only [List.zipWith_cons_cons, List.sum_cons, sum_zipWith_sub a b (by simpa using h)]
    omega

theorem andRows_length (a b : List (List Bool)) : (andRows a b).length = min a.length b.length := by
  simp [andRows]

/-- **micro / binary** (axis `None`): each array is the textbook count over all cells -/
theorem countsOf_pooled (W : Nat) (tr po : List (List Bool)) (h : RowsAligned tr po) :
    countsOf none W tr po =
      { tp := .s (tpOf (pooledCells tr po)), tn := .s (tnOf (pooledCells tr po)),
        fp := .s (fpOf (pooledCells tr po)), fn := .s (fnOf (pooledCells tr po)) } := by
  have hlen : tr.length = po.length := h.1
  have e1 : ((andRows po tr).map cnt).sum = (tpOf (pooledCells tr po) : Int) := by
    rw [perRow_tp]; exact sum_map_count _ tpOf tpOf_append rfl _
  have e2 : ((andRows (notRows po) tr).map cnt).sum = (fnOf (pooledCells tr po) : Int) := by
    rw [perRow_fn]; exact sum_map_count _ fnOf fnOf_append rfl _
  have e3 : (po.map cnt).sum - ((andRows po tr).map cnt).sum = (fpOf (pooledCells tr po) : Int) := by
    rw [← sum_zipWith_sub _ _ (by simp [andRows_length, hlen]), perRow_fp tr po h]
    exact sum_map_count _ fpOf fpOf_append rfl _
  have e4 : ((notRows po).map cnt).sum - ((andRows (notRows po) tr).map cnt).sum
      = (tnOf (pooledCells tr po) : Int) := by
    rw [← sum_zipWith_sub _ _ (by simp [andRows_length, notRows, hlen]), perRow_tn tr po h]
    exact sum_map_count _ tnOf tnOf_append rfl _
  simp only [countsOf, sumAxis, arrSub]
  refine CMArr.mk.injEq .. |>.mpr ⟨?_, ?_, ?_, ?_⟩ <;> congr 1

/-! ### axis 0 : one count per class -/

/-- column `c` of a boolean matrix -/
def col (m : List (List Bool)) (c : Nat) : List Bool := m.map (·.getD c false)

/-- the cells of class `c`: one per example -/
def classCellsOf (tr po : List (List Bool)) (c : Nat) : List Cell := rowCells (col tr c) (col po c)

theorem getD_zipWith_and (p t : List Bool) (c : Nat) :
    (List.zipWith (· && ·) p t).getD c false = (p.getD c false && t.getD c false) := by
  induction p generalizing t c with
  | nil => simp
  | cons a p ih =>
    cases t with
    | nil => simp
    | cons b t =>
      cases c with
      | zero => simp
      | succ c => simpa using ih t c

theorem col_andRows : ∀ (po tr : List (List Bool)) (c : Nat),
    col (andRows po tr) c = List.zipWith (· && ·) (col po c) (col tr c)
  | [], tr, c => by simp [col, andRows]
  | _ :: _, [], c => by simp [col, andRows]
  | a :: po, b :: tr, c => by
    have ih := col_andRows po tr c
    simp only [col, andRows_cons, List.map_cons, List.zipWith_cons_cons, getD_zipWith_and] at *
    rw [ih]

theorem col_notRows (po : List (List Bool)) (c : Nat) (h : ∀ r ∈ po, c < r.length) :
    col (notRows po) c = (col po c).map (!·) := by
  induction po with
  | nil => simp [col, notRows]
  | cons a po ih =>
    have ha : c < a.length := h a (by simp)
    have := ih (fun r hr => h r (by simp [hr]))
    simp only [col, notRows, List.map_cons, List.map_map] at *
    rw [this]
    simp [List.getD_eq_getElem?_getD, List.getElem?_map, List.getElem?_eq_getElem ha]

theorem col_length (m : List (List Bool)) (c : Nat) : (col m c).length = m.length := by simp [col]

/-- **macro** (axis 0): the `c`-th entry of each array is the textbook count over the cells of
class `c` -/
theorem countsOf_perClass (W : Nat) (tr po : List (List Bool)) (hlen : tr.length = po.length)
    (hw : ∀ r ∈ po, r.length = W) :
    countsOf (some 0) W tr po =
      { tp := .v ((List.range W).map fun c => (tpOf (classCellsOf tr po c) : Int)),
        tn := .v ((List.range W).map fun c => (tnOf (classCellsOf tr po c) : Int)),
        fp := .v ((List.range W).map fun c => (fpOf (classCellsOf tr po c) : Int)),
        fn := .v ((List.range W).map fun c => (fnOf (classCellsOf tr po c) : Int)) } := by
  have hcl : ∀ c, (col tr c).length = (col po c).length := fun c => by simp [col_length, hlen]
  have key : ∀ c ∈ List.range W, ∀ r ∈ po, c < r.length := fun c hc r hr => by
    rw [hw r hr]; exact List.mem_range.mp hc
  simp only [countsOf, sumAxis, arrSub, List.zipWith_map_left, List.zipWith_map_right, List.zipWith_self]
  refine CMArr.mk.injEq .. |>.mpr ⟨?_, ?_, ?_, ?_⟩ <;> congr 1 <;> apply List.map_congr_left <;> intro c hc
  · show cnt (col (andRows po tr) c) = _
    rw [col_andRows, row_tp]; rfl
  · show cnt (col (notRows po) c) - cnt (col (andRows (notRows po) tr) c) = _
    rw [col_andRows, col_notRows po c (key c hc), row_tn _ _ (hcl c)]; rfl
  · show cnt (col po c) - cnt (col (andRows po tr) c) = _
    rw [col_andRows, row_fp _ _ (hcl c)]; rfl
  · show cnt (col (andRows (notRows po) tr) c) = _
    rw [col_andRows, col_notRows po c (key c hc), row_fn]; rfl

end MlModel.Agg.Confusion
