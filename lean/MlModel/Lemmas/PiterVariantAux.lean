import MlModel.Lemmas.PiterVariantDefs
/-!
# Termination measure of the parallel-iteration LTS — auxiliary lemmas
(how `Phi` reacts to replacing one thread, values of the thread potentials, cost of the inputs)
-/
namespace MlModel.Queue

/-- replacing one thread, same shared state -/
theorem phi_set {qc : Cfg} {tid : Tid} {a b : Thread} (ha : qc.ths[tid]? = some a) :
    Phi { sh := qc.sh, ths := qc.ths.set tid b } + potT qc.ths.length (xEmpty qc.sh) a =
      Phi qc + potT qc.ths.length (xEmpty qc.sh) b := by
  have := sum_map_set (potT qc.ths.length (xEmpty qc.sh)) (b := b) ha
  unfold Phi
  show potG (qc.ths.set tid b).length qc.sh +
      ((qc.ths.set tid b).map (potT (qc.ths.set tid b).length (xEmpty qc.sh))).sum + _ = _
  rw [List.length_set]
  omega

theorem sum_potT_false_le (N : Nat) (x : Bool) (l : List Thread) :
    (l.map (potT N false)).sum ≤ (l.map (potT N x)).sum := by
  cases x with
  | false => exact Nat.le_refl _
  | true =>
    have := sum_map_le_add (potT N true) (potT N false) 0 l (fun u _ => by have := (potT_x N u).2; omega)
    omega

/-- replacing one thread while an exception is recorded (`enqueue_done` becomes true, so no attempt of
`get_batch` fails any more: the other threads' parts do not grow) -/
theorem phi_set_exc {qc : Cfg} {tid : Tid} {a b : Thread} (e : ErrKind) (ha : qc.ths[tid]? = some a) :
    Phi { sh := { qc.sh with exc := some e }, ths := qc.ths.set tid b } + potT qc.ths.length false a ≤
      Phi qc + potT qc.ths.length false b := by
  have hx : xEmpty { qc.sh with exc := some e } = false := by
    simp [xEmpty, Shared.enqueueDone]
  have h1 := sum_map_set (potT qc.ths.length false) (b := b) ha
  have h2 := sum_potT_false_le qc.ths.length (xEmpty qc.sh) qc.ths
  unfold Phi
  show potG (qc.ths.set tid b).length { qc.sh with exc := some e } +
      ((qc.ths.set tid b).map (potT (qc.ths.set tid b).length (xEmpty { qc.sh with exc := some e }))).sum + _ ≤ _
  rw [List.length_set, hx]
  have hg : potG qc.ths.length { qc.sh with exc := some e } = potG qc.ths.length qc.sh := rfl
  rw [hg]
  omega

theorem srcLen_of_src {q : Thread} (h : q.src = []) (hstart : q.pc = .start → ∀ src r, q.prog = .producer src r → src = []) :
    srcLen q = 0 := by
  unfold srcLen
  split
  · rename_i hpc
    split
    · rename_i src r hp
      rw [hstart hpc src r hp]; rfl
    · rfl
  · rfl
  · simp [h]

theorem potT_eval (N : Nat) (x : Bool) (q : Thread) (hs : srcLen q = 0) (hr : q.result = []) :
    potT N x q = basePot N x q := by
  simp [potT, hs, hr]

/-- a generic bound: the parts of the other threads under a pointwise smaller family -/
theorem sum_set_le {α} (f g : α → Nat) {l : List α} {i : Nat} {a b : α} (h : l[i]? = some a)
    (hle : ∀ u ∈ l, g u ≤ f u) : ((l.set i b).map g).sum + f a ≤ (l.map f).sum + g b := by
  induction l generalizing i with
  | nil => simp at h
  | cons x xs ih =>
    cases i with
    | zero =>
      simp only [List.getElem?_cons_zero, Option.some.injEq] at h
      subst h
      have := sum_map_le_add f g 0 xs (fun u hu => by have := hle u (List.mem_cons_of_mem _ hu); omega)
      simp only [List.set_cons_zero, List.map_cons, List.sum_cons]; omega
    | succ j =>
      simp only [List.getElem?_cons_succ] at h
      have := ih h (fun u hu => hle u (List.mem_cons_of_mem _ hu))
      have := hle x List.mem_cons_self
      simp only [List.set_cons_succ, List.map_cons, List.sum_cons]; omega

end MlModel.Queue

namespace MlModel.Piter
open MlModel.Queue

variable {F : Nat → Option (List Nat)}

theorem qcfg_length (c : Cfg) : (qcfg c).ths.length = c.ths.length := by simp [qcfg]

/-- combining the queue part and the layer's part of the measure -/
theorem psi_lt {c c' : Cfg} {tid : Tid} {t t' : PThread} (ht : c.ths[tid]? = some t)
    (hths : c'.ths = c.ths.set tid t')
    (hothers : ∀ u ∈ c.ths, extra F c' c.ths.length u ≤ extra F c c.ths.length u)
    (hmain : Phi { sh := c'.sh, ths := (qcfg c).ths.set tid t'.q } + extra F c' c.ths.length t' <
      Phi (qcfg c) + extra F c c.ths.length t) : Psi F c' < Psi F c := by
  unfold Psi
  rw [qcfg_eq hths]
  have hl : c'.ths.length = c.ths.length := by rw [hths, List.length_set]
  rw [hl, hths]
  have := sum_set_le (extra F c c.ths.length) (extra F c' c.ths.length) (b := t') ht hothers
  omega

theorem extra_mono {c c' : Cfg} (N : Nat) (u : PThread)
    (hin : ∀ sid, inputCost F N (inputAt c' sid) ≤ inputCost F N (inputAt c sid))
    (hn : c'.nProd = c.nProd) (hs : c.nsub ≤ c'.nsub) : extra F c' N u ≤ extra F c N u := by
  unfold extra cRank
  split
  · have := hin u.sid; omega
  · rw [hn]; split <;> omega

theorem extra_same {c c' : Cfg} (N : Nat) (u : PThread) (hin : c'.inputs = c.inputs)
    (hn : c'.ths.length = c.ths.length) (hs : c.nsub ≤ c'.nsub) : extra F c' N u ≤ extra F c N u :=
  extra_mono N u (fun sid => by simp [inputAt, hin]) (by simp [Cfg.nProd, hn]) hs

/-- pulling from an input: its cost moves into the result; the other inputs are untouched -/
theorem pull_cost (N : Nat) (inputs : List (List Item)) (sid : Nat) :
    (∀ sid' : Nat, inputCost F N (((pull inputs sid).2[sid']?).getD []) ≤ inputCost F N ((inputs[sid']?).getD [])) ∧
    inputCost F N (((pull inputs sid).2[sid]?).getD []) + resCost F N (pull inputs sid).1 =
      inputCost F N ((inputs[sid]?).getD []) := by
  unfold pull
  cases h : inputs[sid]? with
  | none => simp [h, resCost]
  | some l =>
    cases l with
    | nil => simp [h, resCost]
    | cons i rest =>
      have hsid : sid < inputs.length := (List.getElem?_eq_some_iff.mp h).1
      have hg : inputs[sid] = i :: rest := (List.getElem?_eq_some_iff.mp h).2
      simp only
      constructor
      · intro sid'
        by_cases he : sid' = sid
        · subst he
          simp [hsid, hg, inputCost]
        · rw [List.getElem?_set_ne (Ne.symm he)]
          exact Nat.le_refl _
      · simp [hsid, hg, inputCost, resCost]
        omega

/-- the queue thread of a configuration's thread has no recorded source -/
theorem srcLen_q {c : Cfg} (hv : VI c) (hc : Ctl c) {t : PThread} (hmem : t ∈ c.ths) : srcLen t.q = 0 := by
  apply srcLen_of_src (hv.src t hmem)
  intro _ src r hp
  cases hip : t.isProd with
  | true =>
    obtain ⟨r', hr'⟩ := hv.progP t hmem hip
    rw [hr'] at hp; cases hp; rfl
  | false =>
    rcases hc.kindC t hmem hip with h | h <;> rw [hp] at h <;> cases h

theorem wA_mul_succ (N k : Nat) : wA N * (k + 1) = wA N * k + wA N := Nat.mul_succ _ _

end MlModel.Piter
