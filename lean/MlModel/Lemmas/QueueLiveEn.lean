import MlModel.Lemmas.QueueLiveInv
/-!
# Liveness of the IteratorQueue LTS — when is a thread enabled?

`acqPc pc`: the lock a thread at `pc` is about to acquire.  A thread that is not `done` is enabled
unless it waits for a lock that somebody owns, or it is parked and (the lock is owned or it has
not been notified).  Every other operation (release, notify, wait, queue operation, `next`) is
always enabled for the thread that is at that program point.  **Lock order**: a thread holding the
state lock never acquires or parks; a thread holding a condition lock only ever acquires the state
lock (`nAcq`, `pStAcq`) — hence no cycle of lock waits.
-/
namespace MlModel.Queue
set_option linter.unusedSimpArgs false

def acqPc : Pc → Option Lk
  | .nAcq _ | .sAcq | .pStAcq | .tAcq | .tR4 | .tS4 | .mAcq => some .st
  | .gAcq | .gR4 | .bAcq | .bR4 | .pR1 | .tR1 | .mD0 => some .deq
  | .gR1 | .bR1 | .bE1 | .pAcq | .pR4 | .tS1 | .mE0 => some .enq
  | _ => none

/-- the lock the thread wants is owned -/
def acqBlocked (s : Shared) (pc : Pc) : Bool :=
  match acqPc pc with | some l => (s.owner l).isSome | none => false

/-- the precise reason why a thread cannot take its normal (non-timeout) step -/
def blocked (s : Shared) (t : Thread) (tid : Tid) : Bool :=
  t.pc == .done || acqBlocked s t.pc ||
  (consWakePc t.pc && ((s.owner .deq).isSome || !s.deqNotified.contains tid)) ||
  (prodWakePc t.pc && ((s.owner .enq).isSome || !s.enqNotified.contains tid))

def EnStep (s : Shared) (t : Thread) (tid : Tid) : Prop :=
  (∀ l, s.owner l = some tid ↔ holds l t.pc = true) →
    (stepThread s t tid false).isSome = true ∨ blocked s t tid = true

set_option hygiene false in
macro "en_group" : tactic => `(tactic| (
  intro hown
  have hd := hown .deq; have he := hown .enq; have hs := hown .st
  clear hown
  unfold stepThread blocked acqBlocked
  cases hpc : t.pc <;> (try (simp only [hpc, Pc.group] at hg; omega)) <;>
    simp only [hpc] at hd he hs <;>
    simp only [holds, iff_true, iff_false, Bool.false_eq_true, Shared.owner] at hd he hs <;>
    simp [acquire, release, notify, waitPark, waitWake, acqPc, consWakePc, prodWakePc, Shared.owner, hd, he, hs] <;>
    (try (cases hp : t.prog <;> simp)) <;>
    (try ((repeat' split) <;> simp_all))))

theorem en_g0 {s t tid} (hg : t.pc.group = 0) : EnStep s t tid := by en_group
theorem en_g1 {s t tid} (hg : t.pc.group = 1) : EnStep s t tid := by en_group
theorem en_g2 {s t tid} (hg : t.pc.group = 2) : EnStep s t tid := by en_group
theorem en_g3 {s t tid} (hg : t.pc.group = 3) : EnStep s t tid := by en_group
theorem en_g4 {s t tid} (hg : t.pc.group = 4) : EnStep s t tid := by en_group
theorem en_g5 {s t tid} (hg : t.pc.group = 5) : EnStep s t tid := by en_group
theorem en_g6 {s t tid} (hg : t.pc.group = 6) : EnStep s t tid := by en_group
theorem en_g7 {s t tid} (hg : t.pc.group = 7) : EnStep s t tid := by en_group

theorem stepThread_en {s t tid} : EnStep s t tid := by
  have h := Pc.group_lt t.pc
  match hg : t.pc.group with
  | 0 => exact en_g0 hg | 1 => exact en_g1 hg | 2 => exact en_g2 hg | 3 => exact en_g3 hg
  | 4 => exact en_g4 hg | 5 => exact en_g5 hg | 6 => exact en_g6 hg | 7 => exact en_g7 hg
  | n + 8 => omega

end MlModel.Queue
