import MlModel.Lemmas.ConfusionApi
/-!
# The encoders: every input type reduces a batch to the dense stage, example by example

For each input encoding: `batchCM c (toBatch xs) = ok (denseCM axis W (xs.map enc))` where `enc`
maps ONE example to its (true row, positive row) — so the dense rows of a batch are the
concatenation of the rows of its examples, whatever the batch-mates are.
-/
namespace MlModel.Agg.Confusion

theorem mapM_ok {α β : Type} (f : α → Except ErrKind β) (g : α → β) :
    ∀ (l : List α), (∀ x ∈ l, f x = .ok (g x)) → l.mapM f = .ok (l.map g)
  | [], _ => rfl
  | x :: l, h => by
    simp only [List.mapM_cons, h x (by simp), mapM_ok f g l (fun y hy => h y (by simp [hy])), bind,
      Except.bind, pure, Except.pure, List.map_cons]

/-- a configuration whose batches reduce to the dense stage example by example -/
structure Encodes (c : Cfg) (axis : Option Nat) (W : Nat) {X : Type} (okB : List X → Prop)
    (toBatch : List X → Batch) (enc : X → DenseEx) : Prop where
  axis_ok : axis = none ∨ axis = some 0
  /-- `merge_states` does not demand a vocabulary -/
  guard : ((c.average == .weighted || c.average == .macro) && c.vocab.isNone) = false
  batch_eq : ∀ xs, okB xs → batchCM c (toBatch xs) = .ok (denseCM axis W (xs.map enc))

/-! ## binary input -/

def binBatch (xs : List (Label × Label)) : Batch :=
  { yTrue := .flat (xs.map (·.1)), yPred := .flat (xs.map (·.2)) }

/-- binary input, `average = binary`: one class, the positive label -/
def encBinary (pos : Label) (x : Label × Label) : DenseEx := ([x.1 == pos], [x.2 == pos])
/-- binary input, `micro` / `macro`: two classes, "is positive" and "is not" -/
def encBinary2 (pos : Label) (x : Label × Label) : DenseEx :=
  ([x.1 == pos, !(x.1 == pos)], [x.2 == pos, !(x.2 == pos)])

theorem checkRows_self (n : Nat) : checkRows n n = .ok () := by simp [checkRows]

theorem batchCM_binary_binary (c : Cfg) (hk : c.kind = .cm) (hi : c.input = some .binary)
    (ha : c.average = .binary) (xs : List (Label × Label)) :
    batchCM c (binBatch xs) = .ok (denseCM none 1 (xs.map (encBinary c.posLabel))) := by
  simp only [batchCM, hk, hi, ha, indicatorCM, axisOf, binBatch, asBool, bind, Except.bind, indicatorCore,
    Bool.false_and, Bool.false_eq_true, ↓reduceIte, List.length_map, checkRows_self, pure, Except.pure,
    denseCM, List.map_map, BNd.ndim]
  rfl

theorem batchCM_binary_micro (c : Cfg) (hk : c.kind = .cm) (hi : c.input = some .binary)
    (ha : c.average = .micro) (xs : List (Label × Label)) :
    batchCM c (binBatch xs) = .ok (denseCM none 2 (xs.map (encBinary2 c.posLabel))) := by
  simp only [batchCM, hk, hi, ha, indicatorCM, axisOf, binBatch, asBool, bind, Except.bind, indicatorCore,
    Bool.false_and, Bool.false_eq_true, ↓reduceIte, List.length_map, checkRows_self, pure, Except.pure,
    denseCM, List.map_map, BNd.ndim]
  rfl

theorem batchCM_binary_macro (c : Cfg) (hk : c.kind = .cm) (hi : c.input = some .binary)
    (ha : c.average = .macro) (xs : List (Label × Label)) :
    batchCM c (binBatch xs) = .ok (denseCM (some 0) 2 (xs.map (encBinary2 c.posLabel))) := by
  simp only [batchCM, hk, hi, ha, indicatorCM, axisOf, binBatch, asBool, bind, Except.bind, indicatorCore,
    Bool.false_and, Bool.false_eq_true, ↓reduceIte, List.length_map, checkRows_self, pure, Except.pure,
    denseCM, List.map_map, BNd.ndim]
  rfl


/-! ## vocabulary: `_apply_vocab` on an enumerated vocabulary -/

/-- the multi-hot row of a set of labels over the classes `keys` -/
def mark (keys : List Label) (elems : List Label) : List Bool := keys.map fun k => elems.contains k

theorem lookup_zipIdx (keys : List Label) (e : Label) (h : e ∈ keys) (n : Nat) :
    (keys.zipIdx n).find? (·.1 == e) = some (e, n + keys.idxOf e) := by
  induction keys generalizing n with
  | nil => simp at h
  | cons k ks ih =>
    simp only [List.zipIdx_cons, List.find?_cons, List.idxOf_cons]
    by_cases hk : k = e
    · subst hk; simp
    · have hk' : (k == e) = false := by simpa using hk
      have he : e ∈ ks := by
        rcases List.mem_cons.mp h with h | h
        · exact absurd h.symm hk
        · exact h
      simp only [hk', cond_false, ih he (n + 1)]
      congr 2; omega

theorem vocab_lookup (keys : List Label) (e : Label) (h : e ∈ keys) :
    Vocab.lookup keys.zipIdx e = .ok (keys.idxOf e) := by
  simp [Vocab.lookup, lookup_zipIdx keys e h 0]

theorem mark_set (keys : List Label) (hn : keys.Nodup) (S : List Label) (e : Label) (he : e ∈ keys) :
    (mark keys S).set (keys.idxOf e) true = mark keys (S ++ [e]) := by
  apply List.ext_getElem
  · simp [mark]
  · intro i h1 h2
    have hi : i < keys.length := by simpa [mark] using h2
    simp only [mark, List.getElem_set, List.getElem_map, List.contains_append]
    by_cases hie : keys.idxOf e = i
    · have : keys[i] = e := by subst hie; exact List.getElem_idxOf _
      simp [hie, this]
    · have hne : keys[i] ≠ e := by
        intro hc
        apply hie
        rw [← hc]; exact hn.idxOf_getElem i hi
      have : (keys[i] == e) = false := by simpa using hne
      simp [hie]
      intro h; exact absurd h hne

theorem applyVocabRow_mark (keys : List Label) (hn : keys.Nodup) (elems : List Label)
    (h : ∀ e ∈ elems, e ∈ keys) :
    applyVocabRow keys.zipIdx elems = .ok (mark keys elems) := by
  have gen : ∀ (S : List Label),
      elems.foldlM (vocabStep keys.zipIdx) (mark keys S) = .ok (mark keys (S ++ elems)) := by
    induction elems with
    | nil => intro S; simp [pure, Except.pure]
    | cons e es ih =>
      intro S
      have he : e ∈ keys := h e (by simp)
      have hlt : keys.idxOf e < (mark keys S).length := by
        simpa [mark] using List.idxOf_lt_length_of_mem he
      simp only [List.foldlM_cons, vocabStep, vocab_lookup keys e he, bind, Except.bind, setCell, hlt,
        ↓reduceIte, mark_set keys hn S e he]
      have := ih (fun e' he' => h e' (by simp [he'])) (S ++ [e])
      simpa [List.append_assoc, vocabStep, bind, Except.bind] using this
  have h0 : List.replicate keys.zipIdx.length false = mark keys [] := by
    simp [mark, List.map_const']
  unfold applyVocabRow
  rw [h0]
  simpa using gen []

theorem applyVocab_flat (keys : List Label) (hn : keys.Nodup) (ys : List Label) (h : ∀ y ∈ ys, y ∈ keys) :
    applyVocab keys.zipIdx false (.flat ys) = .ok (ys.map fun y => mark keys [y]) := by
  simp only [applyVocab, rowsFor, Bool.false_eq_true, ↓reduceIte, bind, Except.bind]
  rw [mapM_ok _ (mark keys)]
  · simp [List.map_map, Function.comp_def]
  · intro r hr
    obtain ⟨y, hy, rfl⟩ := List.mem_map.mp hr
    exact applyVocabRow_mark keys hn _ (by simpa using h y hy)

theorem applyVocab_nested (keys : List Label) (hn : keys.Nodup) (rows : List (List Label))
    (h : ∀ r ∈ rows, ∀ e ∈ r, e ∈ keys) :
    applyVocab keys.zipIdx true (.nested rows) = .ok (rows.map (mark keys)) := by
  simp only [applyVocab, rowsFor, ↓reduceIte, bind, Except.bind]
  exact mapM_ok _ (mark keys) rows fun r hr => applyVocabRow_mark keys hn r (h r hr)

/-! ## multiclass / multiclass-multioutput input with an explicit vocabulary -/

def mcBatch (xs : List (Label × Label)) : Batch :=
  { yTrue := .flat (xs.map (·.1)), yPred := .flat (xs.map (·.2)) }
def moBatch (xs : List (List Label × List Label)) : Batch :=
  { yTrue := .nested (xs.map (·.1)), yPred := .nested (xs.map (·.2)) }

def encMulticlass (keys : List Label) (x : Label × Label) : DenseEx := (mark keys [x.1], mark keys [x.2])
def encMultioutput (keys : List Label) (x : List Label × List Label) : DenseEx :=
  (mark keys x.1, mark keys x.2)

theorem effectiveVocab_some (v : Vocab) (hv : v ≠ []) (order : List Label) :
    effectiveVocab (some v) order = v := by
  cases v with
  | nil => exact absurd rfl hv
  | cons x xs => rfl

theorem indicatorCore_dense (avg : Average) (hb : avg ≠ .binary) (axis : Option Nat) (W : Nat)
    (td pd : List (List Bool)) (hl : td.length = pd.length) :
    indicatorCore true avg axis (.b2 td W) (.b2 pd W) = .ok (countsOf axis W td pd) := by
  have h1 : (avg == Average.binary) = false := by simpa using hb
  simp [indicatorCore, h1, hl, checkRows_self, bind, Except.bind, pure, Except.pure]

theorem multiclassCM_explicit (keys : List Label) (hn : keys.Nodup) (hne : keys ≠ []) (avg : Average)
    (axis : Option Nat) (hax : axisOf avg = .ok axis) (hb : avg ≠ .binary) (xs : List (Label × Label))
    (hx : ∀ x ∈ xs, x.1 ∈ keys ∧ x.2 ∈ keys) :
    multiclassCM (some keys.zipIdx) false avg (mcBatch xs)
      = .ok (denseCM axis keys.length (xs.map (encMulticlass keys))) := by
  have hv : keys.zipIdx ≠ [] := by
    cases keys with
    | nil => exact absurd rfl hne
    | cons k ks => simp
  have e1 := applyVocab_flat keys hn (xs.map (·.1)) (by
    intro y hy; obtain ⟨x, hx', rfl⟩ := List.mem_map.mp hy; exact (hx x hx').1)
  have e2 := applyVocab_flat keys hn (xs.map (·.2)) (by
    intro y hy; obtain ⟨x, hx', rfl⟩ := List.mem_map.mp hy; exact (hx x hx').2)
  simp only [multiclassCM, mcBatch, effectiveVocab_some _ hv, e1, e2, hax, bind, Except.bind,
    List.length_zipIdx]
  rw [indicatorCore_dense avg hb axis _ _ _ (by simp)]
  simp [denseCM, encMulticlass, List.map_map, Function.comp_def]

theorem multioutputCM_explicit (keys : List Label) (hn : keys.Nodup) (hne : keys ≠ []) (avg : Average)
    (axis : Option Nat) (hax : axisOf avg = .ok axis) (hb : avg ≠ .binary)
    (xs : List (List Label × List Label))
    (hx : ∀ x ∈ xs, (∀ e ∈ x.1, e ∈ keys) ∧ (∀ e ∈ x.2, e ∈ keys)) :
    multiclassCM (some keys.zipIdx) true avg (moBatch xs)
      = .ok (denseCM axis keys.length (xs.map (encMultioutput keys))) := by
  have hv : keys.zipIdx ≠ [] := by
    cases keys with
    | nil => exact absurd rfl hne
    | cons k ks => simp
  have e1 := applyVocab_nested keys hn (xs.map (·.1)) (by
    intro r hr; obtain ⟨x, hx', rfl⟩ := List.mem_map.mp hr; exact (hx x hx').1)
  have e2 := applyVocab_nested keys hn (xs.map (·.2)) (by
    intro r hr; obtain ⟨x, hx', rfl⟩ := List.mem_map.mp hr; exact (hx x hx').2)
  simp only [multiclassCM, moBatch, effectiveVocab_some _ hv, e1, e2, hax, bind, Except.bind,
    List.length_zipIdx]
  rw [indicatorCore_dense avg hb axis _ _ _ (by simp)]
  simp [denseCM, encMultioutput, List.map_map, Function.comp_def]

/-! ## multiclass-indicator input -/

def indBatch (xs : List (List Label × List Label)) : Batch :=
  { yTrue := .nested (xs.map (·.1)), yPred := .nested (xs.map (·.2)) }

def encIndicator (pos : Label) (x : List Label × List Label) : DenseEx :=
  (x.1.map (· == pos), x.2.map (· == pos))

theorem asBool_nested (pos : Label) (W : Nat) (rows : List (List Label)) (hne : rows ≠ [])
    (hw : ∀ r ∈ rows, r.length = W) :
    asBool pos (.nested rows) = .ok (.b2 (rows.map (·.map (· == pos))) W) := by
  cases rows with
  | nil => exact absurd rfl hne
  | cons r rs =>
    have hr : r.length = W := hw r (by simp)
    have hall : (rs.all fun x => x.length == r.length) = true := by
      simp only [List.all_eq_true, beq_iff_eq]
      intro x hx; rw [hw x (by simp [hx]), hr]
    rw [hr] at hall
    simp only [asBool, hr, hall, ↓reduceIte]

theorem indicatorCM_dense (pos : Label) (avg : Average) (axis : Option Nat) (hax : axisOf avg = .ok axis)
    (hb : avg ≠ .binary) (W : Nat) (xs : List (List Label × List Label)) (hne : xs ≠ [])
    (hw : ∀ x ∈ xs, x.1.length = W ∧ x.2.length = W) :
    indicatorCM pos true avg (indBatch xs).yTrue (indBatch xs).yPred
      = .ok (denseCM axis W (xs.map (encIndicator pos))) := by
  have h1 := asBool_nested pos W (xs.map (·.1)) (by simpa using hne)
    (by intro r hr; obtain ⟨x, hx, rfl⟩ := List.mem_map.mp hr; exact (hw x hx).1)
  have h2 := asBool_nested pos W (xs.map (·.2)) (by simpa using hne)
    (by intro r hr; obtain ⟨x, hx, rfl⟩ := List.mem_map.mp hr; exact (hw x hx).2)
  simp only [indicatorCM, indBatch, hax, h1, h2, bind, Except.bind, BNd.ndim, bne_self_eq_false,
    Bool.or_self, Bool.and_false, Bool.false_eq_true, ↓reduceIte]
  rw [indicatorCore_dense avg hb axis _ _ _ (by simp)]
  simp [denseCM, encIndicator, List.map_map, Function.comp_def]

end MlModel.Agg.Confusion
