import MlModel.Lemmas.Retrieval
/-!
# From one example to a batch / a dataset: `rowVals`, `batchVals`, `ofBatch`, `MeanCell`
-/
namespace MlModel.Agg.Retrieval
open MlModel.Spec.Retrieval

variable {α : Type} [DecidableEq α]
set_option linter.unusedSectionVars false

/-- every metric, at every `1 ≤ k ≤ W`: the numpy-style value is the textbook value -/
theorem metric_eq (W : Nat) (r : Row α) (m : Metric) (k : Nat) (h1 : 1 ≤ k) (h2 : k ≤ W) :
    (mkCtx W r).metric m k = Spec.Retrieval.metric m r.yTrue r.yPred k := by
  cases m <;>
    simp only [Ctx.metric, Spec.Retrieval.metric, accuracy_eq W r k h1 h2, precision_eq W r k h1 h2,
      recall_eq W r k h1 h2, iou_eq W r k h1 h2, f1_eq W r k h1 h2, ap_eq W r k h1 h2,
      rr_eq W r k h1 h2, missRate_eq W r k h1 h2, fdr_eq W r k h1 h2, threat_eq W r k h1 h2,
      fmi_eq W r k h1 h2, dcg_eq W r k h1 h2, ndcg_eq W r k h1 h2]

/-- the documented domain of `k_list`: every K is at least 1 -/
def Config.KsPos (cfg : Config) : Prop := ∀ ks, cfg.ks? = some ks → ∀ k ∈ ks, 1 ≤ k

instance (cfg : Config) : Decidable cfg.KsPos := by
  unfold Config.KsPos
  cases h : cfg.ks? with
  | none => exact isTrue (by intro ks hks; cases hks)
  | some ks =>
    by_cases hk : ∀ k ∈ ks, 1 ≤ k
    · exact isTrue (by intro ks' hks'; cases hks'; exact hk)
    · exact isFalse (fun hh => hk (hh ks rfl))

theorem rowKs_pos (cfg : Config) (h : cfg.KsPos) (r : Row α) : ∀ k ∈ cfg.rowKs r, 1 ≤ k := by
  intro k hk
  unfold Config.rowKs at hk
  cases hks : cfg.ks? with
  | none =>
    simp only [hks, List.mem_singleton] at hk
    omega
  | some ks =>
    simp only [hks] at hk
    by_cases hm : cfg.multiclass = true
    · simp only [hm, if_true, List.mem_map] at hk
      obtain ⟨k', hk', rfl⟩ := hk
      have := h ks hks k' hk'
      omega
    · simp only [hm] at hk
      exact h ks hks k hk

theorem rowKs_length (cfg : Config) (r : Row α) : (cfg.rowKs r).length = cfg.nk := by
  unfold Config.rowKs Config.nk
  cases cfg.ks? with
  | none => rfl
  | some ks => by_cases hm : cfg.multiclass = true <;> simp [hm]

theorem le_foldl_max (l : List Nat) (a : Nat) : a ≤ l.foldl max a ∧ ∀ x ∈ l, x ≤ l.foldl max a := by
  induction l generalizing a with
  | nil => simp
  | cons y ys ih =>
    simp only [List.foldl_cons, List.mem_cons]
    have := ih (max a y)
    refine ⟨by omega, ?_⟩
    rintro x (rfl | hx)
    · omega
    · exact this.2 x hx

/-- `max_pred_count` covers every K of every example of the batch -/
theorem le_width (cfg : Config) (rows : List (Row α)) (r : Row α) (hr : r ∈ rows) :
    ∀ k ∈ cfg.rowKs r, k ≤ cfg.width rows := by
  intro k hk
  unfold Config.width
  have h1 : k ≤ (cfg.rowKs r).foldl max 1 := (le_foldl_max _ _).2 k hk
  have h2 : (cfg.rowKs r).foldl max 1 ≤ (rows.map fun r => (cfg.rowKs r).foldl max 1).foldl max 1 :=
    (le_foldl_max _ _).2 _ (List.mem_map.mpr ⟨r, hr, rfl⟩)
  omega

/-- **row independence, model level**: whatever the padded width of the batch arrays (at least the
example's own Ks), the values of an example are its textbook values -/
theorem rowVals_eq_spec (cfg : Config) (h : cfg.KsPos) (W : Nat) (r : Row α)
    (hW : ∀ k ∈ cfg.rowKs r, k ≤ W) : rowVals cfg W r = rowVec cfg r := by
  unfold rowVals rowVec
  apply List.map_congr_left
  intro m _
  apply List.map_congr_left
  intro k hk
  exact metric_eq W r m k (rowKs_pos cfg h r k hk) (hW k hk)

theorem batchVals_eq_spec (cfg : Config) (h : cfg.KsPos) (rows : List (Row α)) :
    batchVals cfg rows =
      (List.range cfg.metrics.length).map fun j => rows.map fun r => (rowVec cfg r).getD j [] := by
  unfold batchVals
  apply List.map_congr_left
  intro j _
  rw [List.map_map]
  apply List.map_congr_left
  intro r hr
  simp only [Function.comp, rowVals_eq_spec cfg h _ r (le_width cfg rows r hr)]

/-! ## vectors -/

theorem Q.add_assoc (a b c : Q) : Q.add (Q.add a b) c = Q.add a (Q.add b c) := by
  cases a <;> cases b <;> cases c <;> simp [Q.add, Rat.add_assoc]

theorem Q.add_comm (a b : Q) : Q.add a b = Q.add b a := by
  cases a <;> cases b <;> simp [Q.add, Rat.add_comm]

theorem Q.zero_add (a : Q) : Q.add (some 0) a = a := by
  cases a <;> simp [Q.add, Rat.zero_add]

theorem Q.add_zero (a : Q) : Q.add a (some 0) = a := by
  cases a <;> simp [Q.add, Rat.add_zero]

theorem V.add_assoc (a b c : V) : V.add (V.add a b) c = V.add a (V.add b c) := by
  simp [V.add, Q.add_assoc, List.append_assoc]

theorem V.zero_add (a : V) : V.add V.zero a = a := by
  cases a; simp [V.add, V.zero, Q.zero_add]

theorem V.add_zero (a : V) : V.add a V.zero = a := by
  cases a; simp [V.add, V.zero, Q.add_zero]

theorem vecAdd_assoc (a b c : List V) : vecAdd (vecAdd a b) c = vecAdd a (vecAdd b c) := by
  induction a generalizing b c with
  | nil => simp [vecAdd]
  | cons x xs ih =>
    cases b with
    | nil => simp [vecAdd]
    | cons y ys =>
      cases c with
      | nil => simp [vecAdd]
      | cons z zs =>
        have := ih ys zs
        simp only [vecAdd] at this ⊢
        simp [V.add_assoc, this]

theorem vecAdd_length (a b : List V) : (vecAdd a b).length = min a.length b.length := by
  simp [vecAdd]

theorem zero_vecAdd (n : Nat) (v : List V) (h : v.length = n) :
    vecAdd (List.replicate n V.zero) v = v := by
  induction v generalizing n with
  | nil => simp [vecAdd]
  | cons x xs ih =>
    cases n with
    | zero => simp at h
    | succ n =>
      have := ih n (by simpa using h)
      simp only [vecAdd] at this ⊢
      simp [List.replicate_succ, V.zero_add, this]

theorem vecAdd_zero (n : Nat) (v : List V) (h : v.length = n) :
    vecAdd v (List.replicate n V.zero) = v := by
  induction v generalizing n with
  | nil => simp [vecAdd]
  | cons x xs ih =>
    cases n with
    | zero => simp at h
    | succ n =>
      have := ih n (by simpa using h)
      simp only [vecAdd] at this ⊢
      simp [List.replicate_succ, V.add_zero, this]

theorem foldl_vecAdd_length (n : Nat) (B : List (List V)) (s : List V) (hs : s.length = n)
    (hB : ∀ b ∈ B, b.length = n) : (B.foldl vecAdd s).length = n := by
  induction B generalizing s with
  | nil => simpa using hs
  | cons b B ih =>
    simp only [List.foldl_cons]
    apply ih
    · rw [vecAdd_length, hs, hB b (by simp)]; omega
    · intro b' hb'; exact hB b' (by simp [hb'])

/-- a running sum started at `s` is `s` plus the running sum started at zero -/
theorem foldl_vecAdd_shift (n : Nat) (B : List (List V)) (s : List V) (hs : s.length = n)
    (hB : ∀ b ∈ B, b.length = n) :
    B.foldl vecAdd s = vecAdd s (B.foldl vecAdd (List.replicate n V.zero)) := by
  induction B generalizing s with
  | nil => simp [vecAdd_zero n s hs]
  | cons b B ih =>
    have hb : b.length = n := hB b (by simp)
    have hB' : ∀ b' ∈ B, b'.length = n := fun b' hb' => hB b' (by simp [hb'])
    simp only [List.foldl_cons]
    rw [ih (vecAdd s b) (by rw [vecAdd_length, hs, hb]; omega) hB', zero_vecAdd n b hb, ih b hb hB',
      vecAdd_assoc]

/-- `MeanState.new` of a concatenation = merge of the two `new`s (all vectors of width `nk`) -/
theorem MeanCell.new_append (nk : Nat) (A B : List (List V)) (hA : ∀ a ∈ A, a.length = nk)
    (hB : ∀ b ∈ B, b.length = nk) :
    MeanCell.new nk (A ++ B) = MeanCell.merge (MeanCell.new nk A) (MeanCell.new nk B) := by
  simp only [MeanCell.new, MeanCell.merge, List.foldl_append, List.length_append]
  rw [foldl_vecAdd_shift nk B _ (foldl_vecAdd_length nk A _ (by simp) hA) hB]

theorem rowVec_getD_length (cfg : Config) (r : Row α) (j : Nat) (hj : j < cfg.metrics.length) :
    ((rowVec cfg r).getD j []).length = cfg.nk := by
  unfold rowVec
  rw [List.getD_eq_getElem?_getD, List.getElem?_map, List.getElem?_eq_getElem hj]
  simp [rowKs_length]

theorem zipWith_map_range {β γ δ : Type} (f : β → γ → δ) (g : Nat → β) (h : Nat → γ) (n : Nat) :
    List.zipWith f ((List.range n).map g) ((List.range n).map h) =
      (List.range n).map fun j => f (g j) (h j) := by
  rw [List.zipWith_map]
  simp [List.zipWith_self]

/-- `add(xs); add(ys)` on one accumulator = `add(xs ++ ys)` -/
theorem ofBatch_append (cfg : Config) (h : cfg.KsPos) (xs ys : List (Row α)) :
    mergeState (ofBatch cfg xs) (ofBatch cfg ys) = ofBatch cfg (xs ++ ys) := by
  unfold ofBatch mergeState
  rw [batchVals_eq_spec cfg h, batchVals_eq_spec cfg h, batchVals_eq_spec cfg h]
  simp only [List.map_map]
  rw [zipWith_map_range]
  apply List.map_congr_left
  intro j hj
  have hj' : j < cfg.metrics.length := List.mem_range.mp hj
  simp only [Function.comp, List.map_append]
  rw [MeanCell.new_append]
  · intro a ha
    obtain ⟨r, _, rfl⟩ := List.mem_map.mp ha
    exact rowVec_getD_length cfg r j hj'
  · intro a ha
    obtain ⟨r, _, rfl⟩ := List.mem_map.mp ha
    exact rowVec_getD_length cfg r j hj'

theorem ofBatch_nil (cfg : Config) : ofBatch cfg ([] : List (Row α)) = emptyState cfg := by
  unfold ofBatch batchVals emptyState
  simp [MeanCell.new, List.map_const']

end MlModel.Agg.Retrieval
