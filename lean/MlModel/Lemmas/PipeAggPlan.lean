import MlModel.Lemmas.PipeAggRun
/-!
# The structure of one `update_state` call: which updates reach which key
-/
namespace MlModel.PipeAgg
open MlModel MlModel.Agg

variable {X S Rv : Type}

/-! ### list helpers -/

theorem eq_of_nodup_map {α β : Type} (g : α → β) :
    ∀ {l : List α}, (l.map g).Nodup → ∀ {x y : α}, x ∈ l → y ∈ l → g x = g y → x = y := by
  intro l
  induction l with
  | nil => intro _ x y hx; cases hx
  | cons a l ih =>
    intro h x y hx hy hg
    rw [List.map_cons, List.nodup_cons] at h
    rcases List.mem_cons.mp hx with rfl | hx'
    · rcases List.mem_cons.mp hy with rfl | hy'
      · rfl
      · exact absurd (List.mem_map.mpr ⟨y, hy', hg.symm⟩) h.1
    · rcases List.mem_cons.mp hy with rfl | hy'
      · exact absurd (List.mem_map.mpr ⟨x, hx', hg⟩) h.1
      · exact ih h.2 hx' hy' hg

theorem filter_eq_singleton {α β : Type} [DecidableEq β] (g : α → β) :
    ∀ {l : List α}, (l.map g).Nodup → ∀ {x0 : α}, x0 ∈ l →
      l.filter (fun x => g x = g x0) = [x0] := by
  intro l
  induction l with
  | nil => intro _ x0 hx; cases hx
  | cons a l ih =>
    intro h x0 hx
    rw [List.map_cons, List.nodup_cons] at h
    rcases List.mem_cons.mp hx with rfl | hx'
    · have : l.filter (fun x => g x = g x0) = [] := by
        rw [List.filter_eq_nil_iff]
        intro y hy hg
        exact h.1 (List.mem_map.mpr ⟨y, hy, of_decide_eq_true hg⟩)
      simp [this]
    · have hne : g a ≠ g x0 := fun e => h.1 (List.mem_map.mpr ⟨x0, hx', e.symm⟩)
      simp [hne, ih h.2 hx']

/-! ### single contributor -/

theorem feedsTo_flatten_none {α : Type} {f : α → Except ErrKind (List (Upd X S Rv))} (mk : MetricKey) :
    ∀ {xs : List α} {uss : List (List (Upd X S Rv))}, mapE f xs = .ok uss →
      (∀ x ∈ xs, ∀ us, f x = .ok us → feedsTo mk us = []) → feedsTo mk uss.flatten = [] := by
  intro xs
  induction xs with
  | nil => intro uss h _; simp only [mapE] at h; cases h; rfl
  | cons x xs ih =>
    intro uss h hn
    obtain ⟨y, ys', hx, hxs, rfl⟩ := mapE_cons_ok h
    rw [List.flatten_cons, feedsTo_append, hn x List.mem_cons_self y hx,
      ih hxs fun x' hx' => hn x' (List.mem_cons_of_mem _ hx')]
    rfl

/-- in a `mapE` over `xs` where only the elements with `c x` can touch key `mk`, and `x0` is the only
such element, the updates that reach `mk` are those of `x0` -/
theorem feedsTo_flatten_single {α : Type} {f : α → Except ErrKind (List (Upd X S Rv))} (c : α → Bool)
    (mk : MetricKey) (x0 : α) :
    ∀ {xs : List α} {uss : List (List (Upd X S Rv))}, mapE f xs = .ok uss → xs.filter c = [x0] →
      (∀ x ∈ xs, c x = false → ∀ us, f x = .ok us → feedsTo mk us = []) →
      ∃ us0, f x0 = .ok us0 ∧ feedsTo mk uss.flatten = feedsTo mk us0 := by
  intro xs
  induction xs with
  | nil => intro uss _ hc; simp at hc
  | cons x xs ih =>
    intro uss h hc hn
    obtain ⟨y, ys', hx, hxs, rfl⟩ := mapE_cons_ok h
    have hn' : ∀ x' ∈ xs, c x' = false → ∀ us, f x' = .ok us → feedsTo mk us = [] :=
      fun x' hx' => hn x' (List.mem_cons_of_mem _ hx')
    rw [List.flatten_cons, feedsTo_append]
    by_cases hcx : c x = true
    · simp only [List.filter_cons, hcx, if_true, List.cons.injEq] at hc
      obtain ⟨rfl, hrest⟩ := hc
      have hall : ∀ x' ∈ xs, ∀ us, f x' = .ok us → feedsTo mk us = [] := by
        intro x' hx' us hus
        have : ¬ c x' = true := (List.filter_eq_nil_iff.mp hrest) x' hx'
        exact hn' x' hx' (by simpa using this) us hus
      rw [feedsTo_flatten_none mk hxs hall]
      exact ⟨y, hx, by simp⟩
    · have hcx' : c x = false := by simpa using hcx
      simp only [List.filter_cons, hcx', Bool.false_eq_true, if_false] at hc
      obtain ⟨us0, h0, he⟩ := ih hxs hc hn'
      rw [hn x List.mem_cons_self hcx' y hx, he]
      exact ⟨us0, h0, by simp⟩

theorem mem_flatten_mapE {α β : Type} {f : α → Except ErrKind (List β)} {xs : List α} {yss : List (List β)}
    (h : mapE f xs = .ok yss) (y : β) :
    y ∈ yss.flatten ↔ ∃ x ∈ xs, ∃ ys, f x = .ok ys ∧ y ∈ ys := by
  rw [List.mem_flatten]
  constructor
  · rintro ⟨ys, hys, hy⟩
    obtain ⟨x, hx, hfx⟩ := mapE_ok_mem_inv h hys
    exact ⟨x, hx, ys, hfx, hy⟩
  · rintro ⟨x, hx, ys, hfx, hy⟩
    obtain ⟨ys', hfx', hys'⟩ := mapE_ok_mem h hx
    rw [hfx] at hfx'; cases hfx'
    exact ⟨ys, hys', hy⟩

/-! ### slicers -/

theorem mkSliceKey_ok {name : List String} {v : List Int} {k : SliceKey}
    (h : mkSliceKey name v = .ok k) : k = ⟨name, v⟩ ∧ v.length = name.length := by
  unfold mkSliceKey at h
  split at h
  · cases h; exact ⟨rfl, by assumption⟩
  · cases h

/-- every slice key a slicer yields carries the slicer's name (`SliceKey(self.slice_name, ..)`) -/
theorem Slicer.slice_features {sl : Slicer} {b : Batch} {kms : List (SliceKey × List TopMask)}
    (h : sl.slice b = .ok kms) : ∀ km ∈ kms, km.1.features = sl.name := by
  intro km hkm
  unfold Slicer.slice at h
  cases hfn : sl.fn with
  | rows f =>
    simp only [hfn] at h
    split at h
    · cases h
    · split at h
      · cases h
      · obtain ⟨vi, _, hvi⟩ := mapE_ok_mem_inv h hkm
        cases hk : mkSliceKey sl.name vi.1 with
        | error e => simp [hk] at hvi
        | ok k =>
          simp only [hk, Except.ok.injEq] at hvi
          subst hvi
          exact (mkSliceKey_ok hk).1 ▸ rfl
  | masks g =>
    simp only [hfn] at h
    split at h
    · cases h
    · obtain ⟨vm, _, hvm⟩ := mapE_ok_mem_inv h hkm
      cases hk : mkSliceKey sl.name vm.1 with
      | error e => simp [hk] at hvm
      | ok k =>
        simp only [hk, Except.ok.injEq] at hvm
        subst hvm
        exact (mkSliceKey_ok hk).1 ▸ rfl

/-! ### `planSlicer` -/

/-- the step function of `planSlicer` -/
theorem planSlicer_ok {a : Agg X S Rv} {b : Batch} {sl : Slicer} {us : List (Upd X S Rv)}
    (h : planSlicer a b sl = .ok us) :
    ∃ kms, sl.slice b = .ok kms ∧
      mapE (fun km : SliceKey × List TopMask => match a.feed km.2 sl.replace b with
        | .error e => .error e
        | .ok rows => .ok (⟨⟨a.out, km.1⟩, a.m, rows⟩ : Upd X S Rv)) kms = .ok us := by
  unfold planSlicer at h
  cases hs : sl.slice b with
  | error e => rw [hs] at h; cases h
  | ok kms => rw [hs] at h; exact ⟨kms, rfl, h⟩

theorem planSlicer_mem {a : Agg X S Rv} {b : Batch} {sl : Slicer} {us : List (Upd X S Rv)}
    (h : planSlicer a b sl = .ok us) {u : Upd X S Rv} (hu : u ∈ us) :
    u.m = a.m ∧ u.key.metrics = a.out ∧ u.key.slice.features = sl.name ∧
      ∃ kms, sl.slice b = .ok kms ∧ ∃ km ∈ kms, u.key = ⟨a.out, km.1⟩ ∧ a.feed km.2 sl.replace b = .ok u.rows := by
  obtain ⟨kms, hs, hm⟩ := planSlicer_ok h
  obtain ⟨km, hkm, hf⟩ := mapE_ok_mem_inv hm hu
  cases hfeed : a.feed km.2 sl.replace b with
  | error e => simp [hfeed] at hf
  | ok rows =>
    simp only [hfeed, Except.ok.injEq] at hf
    subst hf
    exact ⟨rfl, rfl, Slicer.slice_features hs km hkm, kms, hs, km, hkm, rfl, hfeed⟩

theorem planSlicer_mem_of_key {a : Agg X S Rv} {b : Batch} {sl : Slicer} {us : List (Upd X S Rv)}
    (h : planSlicer a b sl = .ok us) {kms : List (SliceKey × List TopMask)} (hs : sl.slice b = .ok kms)
    {km : SliceKey × List TopMask} (hkm : km ∈ kms) : ∃ u ∈ us, u.key = ⟨a.out, km.1⟩ := by
  obtain ⟨kms', hs', hm⟩ := planSlicer_ok h
  rw [hs] at hs'; cases hs'
  obtain ⟨u, hfu, hu⟩ := mapE_ok_mem hm hkm
  cases hfeed : a.feed km.2 sl.replace b with
  | error e => simp [hfeed] at hfu
  | ok rows =>
    simp only [hfeed, Except.ok.injEq] at hfu
    subst hfu
    exact ⟨_, hu, rfl⟩

/-- the rows one slicer feeds to slice key `k` of aggregate `a` for one batch = `sliceRows` -/
theorem planSlicer_sliceRows {a : Agg X S Rv} {b : Batch} {sl : Slicer} {us : List (Upd X S Rv)}
    (h : planSlicer a b sl = .ok us) (k : SliceKey) :
    sliceRows a sl k b = .ok (feedsTo ⟨a.out, k⟩ us).flatten := by
  obtain ⟨kms, hs, hm⟩ := planSlicer_ok h
  unfold sliceRows
  rw [hs]
  have h1 := mapE_filter (p := fun km : SliceKey × List TopMask => decide (km.1 = k))
    (q := fun u : Upd X S Rv => decide (u.key = ⟨a.out, k⟩)) (by
      intro km u hf
      cases hfeed : a.feed km.2 sl.replace b with
      | error e => simp [hfeed] at hf
      | ok rows =>
        simp only [hfeed, Except.ok.injEq] at hf
        subst hf
        by_cases hk : km.1 = k
        · simp [hk]
        · have : ¬ (⟨a.out, km.1⟩ : MetricKey) = ⟨a.out, k⟩ := by
            intro e; injection e with _ e2; exact hk e2
          simp [hk, this]) hm
  have h2 := mapE_map_ok (f' := fun km : SliceKey × List TopMask => a.feed km.2 sl.replace b)
    (g := fun u : Upd X S Rv => u.rows) (by
      intro km u hf
      cases hfeed : a.feed km.2 sl.replace b with
      | error e => simp [hfeed] at hf
      | ok rows =>
        simp only [hfeed, Except.ok.injEq] at hf
        subst hf; rfl) h1
  simp only [h2]
  rfl

/-! ### `planAgg` -/

theorem planAgg_ok {P : Pipeline X S Rv} {b : Batch} {a : Agg X S Rv} {us : List (Upd X S Rv)}
    (h : planAgg P b a = .ok us) :
    ∃ rows, a.rowsOf b = .ok rows ∧
      ((a.noSlice = true ∧ us = [⟨⟨a.out, SliceKey.none⟩, a.m, rows⟩]) ∨
       (a.noSlice = false ∧ ∃ uss, mapE (planSlicer a b) P.slicers = .ok uss ∧
          us = ⟨⟨a.out, SliceKey.none⟩, a.m, rows⟩ :: uss.flatten)) := by
  unfold planAgg at h
  cases hr : a.rowsOf b with
  | error e => rw [hr] at h; cases h
  | ok rows =>
    rw [hr] at h
    refine ⟨rows, rfl, ?_⟩
    by_cases hn : a.noSlice = true
    · simp only [hn, if_true, Except.ok.injEq] at h
      exact Or.inl ⟨hn, h.symm⟩
    · have hn' : a.noSlice = false := by simpa using hn
      simp only [hn', Bool.false_eq_true, if_false] at h
      cases hm : mapE (planSlicer a b) P.slicers with
      | error e => rw [hm] at h; cases h
      | ok uss => rw [hm] at h; cases h; exact Or.inr ⟨hn', uss, rfl, rfl⟩

theorem planAgg_mem {P : Pipeline X S Rv} {b : Batch} {a : Agg X S Rv} {us : List (Upd X S Rv)}
    (h : planAgg P b a = .ok us) {u : Upd X S Rv} (hu : u ∈ us) :
    u.m = a.m ∧ u.key.metrics = a.out ∧
      (u.key.slice = SliceKey.none ∨
        (a.noSlice = false ∧ ∃ sl ∈ P.slicers, u.key.slice.features = sl.name ∧
          ∃ kms, sl.slice b = .ok kms ∧ ∃ km ∈ kms, u.key.slice = km.1)) := by
  obtain ⟨rows, _, hcase⟩ := planAgg_ok h
  rcases hcase with ⟨_, rfl⟩ | ⟨hn, uss, hm, rfl⟩
  · simp only [List.mem_singleton] at hu
    subst hu
    exact ⟨rfl, rfl, Or.inl rfl⟩
  · rcases List.mem_cons.mp hu with rfl | hu'
    · exact ⟨rfl, rfl, Or.inl rfl⟩
    · obtain ⟨sl, hsl, us', hps, hu''⟩ := (mem_flatten_mapE hm u).mp hu'
      obtain ⟨h1, h2, h3, kms, hs, km, hkm, hkey, _⟩ := planSlicer_mem hps hu''
      exact ⟨h1, h2, Or.inr ⟨hn, sl, hsl, h3, kms, hs, km, hkm, by rw [hkey]⟩⟩

/-- the unsliced entry receives exactly the selected rows of the batch -/
theorem planAgg_unsliced {P : Pipeline X S Rv} (hne : ∀ sl ∈ P.slicers, sl.name ≠ []) {b : Batch}
    {a : Agg X S Rv} {us : List (Upd X S Rv)} (h : planAgg P b a = .ok us) :
    ∃ rows, a.rowsOf b = .ok rows ∧ feedsTo ⟨a.out, SliceKey.none⟩ us = [rows] := by
  obtain ⟨rows, hr, hcase⟩ := planAgg_ok h
  refine ⟨rows, hr, ?_⟩
  rcases hcase with ⟨_, rfl⟩ | ⟨_, uss, hm, rfl⟩
  · simp [feedsTo]
  · rw [feedsTo_cons]
    simp only [if_true]
    rw [feedsTo_flatten_none _ hm]
    intro sl hsl us' hps
    unfold feedsTo
    have : us'.filter (fun u => decide (u.key = ⟨a.out, SliceKey.none⟩)) = [] := by
      rw [List.filter_eq_nil_iff]
      intro u hu hk
      have hk' := of_decide_eq_true hk
      obtain ⟨_, _, h3, _⟩ := planSlicer_mem hps hu
      rw [hk'] at h3
      exact hne sl hsl h3.symm
    rw [this]; rfl

/-- a sliced entry receives, from one batch, exactly `sliceRows` of the slicer that owns the key -/
theorem planAgg_sliced {P : Pipeline X S Rv} (hnd : (P.slicers.map (·.name)).Nodup)
    (hne : ∀ sl ∈ P.slicers, sl.name ≠ []) {b : Batch}
    {a : Agg X S Rv} {us : List (Upd X S Rv)} (h : planAgg P b a = .ok us) (hns : a.noSlice = false)
    {sl : Slicer} (hsl : sl ∈ P.slicers) {k : SliceKey} (hk : k.features = sl.name) :
    ∃ us0, planSlicer a b sl = .ok us0 ∧ feedsTo ⟨a.out, k⟩ us = feedsTo ⟨a.out, k⟩ us0 := by
  obtain ⟨rows, _, hcase⟩ := planAgg_ok h
  rcases hcase with ⟨hn, _⟩ | ⟨_, uss, hm, rfl⟩
  · rw [hns] at hn; cases hn
  · rw [feedsTo_cons]
    have hk0 : ¬ (⟨a.out, SliceKey.none⟩ : MetricKey) = ⟨a.out, k⟩ := by
      intro e; injection e with _ e2
      rw [← e2] at hk
      exact hne sl hsl hk.symm
    simp only [hk0, if_false]
    have hc := filter_eq_singleton (fun s : Slicer => s.name) hnd hsl
    exact feedsTo_flatten_single (fun s : Slicer => decide (s.name = sl.name)) _ sl hm hc (by
      intro s hs hcs us' hps
      unfold feedsTo
      have : us'.filter (fun u => decide (u.key = ⟨a.out, k⟩)) = [] := by
        rw [List.filter_eq_nil_iff]
        intro u hu hku
        have hku' := of_decide_eq_true hku
        obtain ⟨_, _, h3, _⟩ := planSlicer_mem hps hu
        rw [hku'] at h3
        have : s.name = sl.name := by rw [← h3]; exact hk
        simp [this] at hcs
      rw [this]; rfl)

theorem planAgg_noSlice {P : Pipeline X S Rv} {b : Batch}
    {a : Agg X S Rv} {us : List (Upd X S Rv)} (h : planAgg P b a = .ok us) (hns : a.noSlice = true)
    {k : SliceKey} (hk : k ≠ SliceKey.none) : feedsTo ⟨a.out, k⟩ us = [] := by
  obtain ⟨rows, _, hcase⟩ := planAgg_ok h
  rcases hcase with ⟨_, rfl⟩ | ⟨hn, _⟩
  · have hk0 : ¬ (⟨a.out, SliceKey.none⟩ : MetricKey) = ⟨a.out, k⟩ := by
      intro e; injection e with _ e2; exact hk e2.symm
    simp [feedsTo, hk0]
  · rw [hns] at hn; cases hn

/-! ### `plan` -/

theorem plan_ok {P : Pipeline X S Rv} {b : Batch} {us : List (Upd X S Rv)} (h : plan P b = .ok us) :
    ∃ uss, mapE (planAgg P b) P.aggs = .ok uss ∧ us = uss.flatten := by
  unfold plan at h
  cases hm : mapE (planAgg P b) P.aggs with
  | error e => rw [hm] at h; cases h
  | ok uss => rw [hm] at h; cases h; exact ⟨uss, rfl, rfl⟩

theorem plan_mem {P : Pipeline X S Rv} {b : Batch} {us : List (Upd X S Rv)} (h : plan P b = .ok us)
    {u : Upd X S Rv} (hu : u ∈ us) :
    ∃ a ∈ P.aggs, ∃ us', planAgg P b a = .ok us' ∧ u ∈ us' := by
  obtain ⟨uss, hm, rfl⟩ := plan_ok h
  exact (mem_flatten_mapE hm u).mp hu

/-- only the aggregate that owns the output keys feeds the entries under them -/
theorem plan_feedsTo {P : Pipeline X S Rv} (hnd : (P.aggs.map (·.out)).Nodup) {b : Batch}
    {us : List (Upd X S Rv)} (h : plan P b = .ok us) {a : Agg X S Rv} (ha : a ∈ P.aggs) (k : SliceKey) :
    ∃ us0, planAgg P b a = .ok us0 ∧ feedsTo ⟨a.out, k⟩ us = feedsTo ⟨a.out, k⟩ us0 := by
  obtain ⟨uss, hm, rfl⟩ := plan_ok h
  have hc := filter_eq_singleton (fun x : Agg X S Rv => x.out) hnd ha
  exact feedsTo_flatten_single (fun x : Agg X S Rv => decide (x.out = a.out)) _ a hm hc (by
    intro a' _ hca us' hpa
    unfold feedsTo
    have : us'.filter (fun u => decide (u.key = ⟨a.out, k⟩)) = [] := by
      rw [List.filter_eq_nil_iff]
      intro u hu hku
      have hku' := of_decide_eq_true hku
      obtain ⟨_, h2, _⟩ := planAgg_mem hpa hu
      rw [hku'] at h2
      simp [← h2] at hca
    rw [this]; rfl)

theorem plan_m_of_key {P : Pipeline X S Rv} (hnd : (P.aggs.map (·.out)).Nodup) {b : Batch}
    {us : List (Upd X S Rv)} (h : plan P b = .ok us) {a : Agg X S Rv} (ha : a ∈ P.aggs) (k : SliceKey) :
    ∀ u ∈ us, u.key = ⟨a.out, k⟩ → u.m = a.m := by
  intro u hu hk
  obtain ⟨a', ha', us', hpa, hu'⟩ := plan_mem h hu
  obtain ⟨h1, h2, _⟩ := planAgg_mem hpa hu'
  rw [hk] at h2
  have : a' = a := eq_of_nodup_map (fun x : Agg X S Rv => x.out) hnd ha' ha h2.symm
  rw [h1, this]

end MlModel.PipeAgg
