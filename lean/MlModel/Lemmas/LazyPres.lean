import MlModel.Lemmas.LazySound2
import MlModel.Lemmas.LruFind
/-! Every evaluation keeps both caches well-formed and never changes the value an existing handle
id stands for (it can only disappear). -/
namespace MlModel.Lazy
set_option linter.unusedSimpArgs false
set_option linter.unusedVariables false
open MlModel.Lru (Inv keysOf)

structure Good (s : St) : Prop where
  fnc : Inv s.fnc
  obj : Inv s.obj
  ids : ∀ k ∈ keysOf s.obj.data, k < s.nextId

structure Ext (s s' : St) : Prop where
  fmax : s'.fnc.maxsize = s.fnc.maxsize
  omax : s'.obj.maxsize = s.obj.maxsize
  next : s.nextId ≤ s'.nextId
  old : ∀ id, id < s.nextId → ∀ rv, Lru.find? s'.obj.data id = some rv → Lru.find? s.obj.data id = some rv

theorem Ext.refl (s : St) : Ext s s := ⟨rfl, rfl, Nat.le_refl _, fun _ _ _ h => h⟩

theorem Ext.trans {a b c : St} (h1 : Ext a b) (h2 : Ext b c) : Ext a c :=
  ⟨h2.fmax.trans h1.fmax, h2.omax.trans h1.omax, Nat.le_trans h1.next h2.next,
   fun id hid rv h => h1.old id hid rv (h2.old id (Nat.lt_of_lt_of_le hid h1.next) rv h)⟩

def Pres {α : Type} (m : M α) : Prop := ∀ s, Good s → Good (m s).2 ∧ Ext s (m s).2

theorem pres_pure {α : Type} (a : α) : Pres (pure a : M α) := fun s h => ⟨h, Ext.refl s⟩
theorem pres_throw {α : Type} (e : Err) : Pres (M.throw e : M α) := fun s h => ⟨h, Ext.refl s⟩

theorem pres_bind {α β : Type} {m : M α} {f : α → M β} (hm : Pres m) (hf : ∀ a, Pres (f a)) :
    Pres (m >>= f) := by
  intro s hs
  obtain ⟨g1, e1⟩ := hm s hs
  rw [bind_def]
  cases h : m s with
  | mk r s1 =>
    rw [h] at g1 e1
    cases r with
    | error e => exact ⟨g1, e1⟩
    | ok a =>
      obtain ⟨g2, e2⟩ := hf a s1 g1
      exact ⟨g2, e1.trans e2⟩

theorem pres_ite {α : Type} {c : Prop} [Decidable c] {a b : M α} (ha : Pres a) (hb : Pres b) :
    Pres (if c then a else b) := by split <;> assumption

theorem pres_fncGet (k : Expr) : Pres (fncGet k) := by
  intro s hs
  refine ⟨⟨Lru.inv_getitem hs.fnc k, hs.obj, hs.ids⟩, ⟨Lru.getitem_maxsize _ _, rfl, Nat.le_refl _, fun _ _ _ h => h⟩⟩

theorem pres_fncSet (k : Expr) (r : RVal) : Pres (fncSet k r) := by
  intro s hs
  refine ⟨⟨Lru.inv_setitem hs.fnc k r, hs.obj, hs.ids⟩, ⟨Lru.setitem_maxsize _ _ _, rfl, Nat.le_refl _, fun _ _ _ h => h⟩⟩

theorem objGet_state (id : Nat) (s : St) : (objGet id s).2 = { s with obj := (s.obj.getitem id).2 } := by
  unfold objGet
  cases h : s.obj.getitem id with
  | mk r c => cases r <;> rfl

theorem pres_objGet (id : Nat) : Pres (objGet id) := by
  intro s hs
  rw [objGet_state]
  refine ⟨⟨hs.fnc, Lru.inv_getitem hs.obj id, ?_⟩, ⟨rfl, Lru.getitem_maxsize _ _, Nat.le_refl _, ?_⟩⟩
  · intro k hk
    obtain ⟨p, hp, rfl⟩ := List.mem_map.mp hk
    exact hs.ids p.1 (List.mem_map.mpr ⟨p, mem_getitem _ _ _ hp, rfl⟩)
  · intro j _ rv h
    simpa [Lru.getitem_find?] using h

theorem pres_newHandle (r : RVal) : Pres (newHandle r) := by
  intro s hs
  have hfresh : s.nextId ∉ keysOf s.obj.data := fun h => Nat.lt_irrefl _ (hs.ids _ h)
  refine ⟨⟨hs.fnc, Lru.inv_setitem hs.obj _ _, ?_⟩, ⟨rfl, Lru.setitem_maxsize _ _ _, Nat.le_succ _, ?_⟩⟩
  · intro k hk
    obtain ⟨p, hp, rfl⟩ := List.mem_map.mp hk
    rcases mem_setitem _ _ _ _ hp with h | h
    · exact Nat.lt_succ_of_lt (hs.ids p.1 (List.mem_map.mpr ⟨p, h, rfl⟩))
    · rw [h]; exact Nat.lt_succ_self _
  · intro j hj rv h
    exact Lru.setitem_new_find?_ne hs.obj r hfresh (Nat.ne_of_lt hj) h

theorem pres_liftLib (name : String) (a : List RVal) (k : List (String × RVal)) : Pres (liftLib name a k) :=
  fun s hs => ⟨⟨hs.fnc, hs.obj, hs.ids⟩, ⟨rfl, rfl, Nat.le_refl _, fun _ _ _ h => h⟩⟩

theorem pres_makeVal (r : RVal) : Pres (makeVal r) := by
  obtain ⟨v, n⟩ := r
  cases v <;> first | exact pres_pure _ | exact pres_objGet _

theorem pres_makeVals : ∀ l : List RVal, Pres (makeVals l)
  | [] => pres_pure _
  | r :: rs => pres_bind (pres_makeVal r) fun a => pres_bind (pres_makeVals rs) fun as => pres_pure _

theorem pres_makeKws : ∀ l : List (String × RVal), Pres (makeKws l)
  | [] => pres_pure _
  | (k, r) :: rs => pres_bind (pres_makeVal r) fun a => pres_bind (pres_makeKws rs) fun as => pres_pure _

theorem pres_applyMake (f : RVal) (a : List RVal) (k : List (String × RVal)) : Pres (applyMake f a k) := by
  unfold applyMake
  split
  · apply pres_ite
    · exact pres_bind (pres_makeVals _) fun a' =>
        pres_ite (pres_throw _) (pres_bind (pres_liftLib _ _ _) fun r => pres_makeVal r)
    · exact pres_bind (pres_liftLib _ _ _) fun r => pres_makeVal r
  · refine pres_bind (pres_objGet _) fun v => ?_
    split
    · exact pres_bind (pres_makeVals _) fun a' => pres_bind (pres_makeKws _) fun k' =>
        pres_ite (pres_throw _) (pres_bind (pres_liftLib _ _ _) fun r => pres_makeVal r)
    · exact pres_throw _
    · exact pres_throw _
  · exact pres_throw _

mutual
theorem pres_eval : ∀ e : Expr, Pres (eval e)
  | .const v => by simp only [eval]; exact pres_makeVal _
  | .traced v l => by simp only [eval]; exact pres_ite (pres_newHandle _) (pres_pure _)
  | .call f as ks c l => by
    have hbody : Pres (callBody f as ks l) := by
      unfold callBody
      apply pres_ite
      · exact pres_ite (pres_newHandle _) (pres_pure _)
      · exact pres_bind (pres_eval f) fun fv => pres_ite (pres_throw _)
          (pres_bind (pres_evalArgs as) fun a => pres_bind (pres_evalKw ks) fun k =>
            pres_bind (pres_applyMake _ _ _) fun r => pres_ite (pres_newHandle _) (pres_pure _))
    rw [eval_call]
    apply pres_ite
    · refine pres_bind (pres_fncGet _) fun x => ?_
      cases x with
      | some r => exact pres_pure _
      | none => exact pres_bind hbody fun r => pres_bind (pres_fncSet _ _) fun _ => pres_pure _
    · exact hbody
theorem pres_evalArgs : ∀ as : List Expr, Pres (evalArgs as)
  | [] => by simp only [evalArgs]; exact pres_pure _
  | a :: as => by
    simp only [evalArgs]
    exact pres_bind (pres_eval a) fun v => pres_bind (pres_evalArgs as) fun vs => pres_pure _
theorem pres_evalKw : ∀ ks : List (String × Expr), Pres (evalKw ks)
  | [] => by simp only [evalKw]; exact pres_pure _
  | (k, a) :: ks => by
    simp only [evalKw]
    exact pres_bind (pres_eval a) fun v => pres_bind (pres_evalKw ks) fun vs => pres_pure _
end

theorem good_init (fnMax objMax : Nat) : Good (St.init fnMax objMax) :=
  ⟨Lru.inv_empty _, Lru.inv_empty _, by intro k hk; simp [St.init, Lru.empty] at hk⟩

end MlModel.Lazy
