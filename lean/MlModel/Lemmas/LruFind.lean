import MlModel.Lemmas.LruInv
/-! Lookup after the operations of the cache. -/
namespace MlModel.Lru
set_option linter.unusedSectionVars false
set_option linter.unusedSimpArgs false
variable {κ ν : Type} [DecidableEq κ]

theorem find?_append (a b : List (κ × ν)) (k : κ) :
    find? (a ++ b) k = (find? a k).or (find? b k) := by
  induction a with
  | nil => simp [find?]
  | cons p a ih =>
    rw [List.cons_append, find?_cons_eq, find?_cons_eq]
    by_cases h : p.1 = k <;> simp [h, ih]

theorem find?_remove_ne (d : List (κ × ν)) {k j : κ} (h : j ≠ k) : find? (remove d k) j = find? d j := by
  induction d with
  | nil => simp [remove, find?]
  | cons p d ih =>
    have hr : remove (p :: d) k = if p.1 = k then remove d k else p :: remove d k := by
      by_cases hp : p.1 = k <;> simp [remove, List.filter_cons, hp]
    rw [hr]
    by_cases hp : p.1 = k
    · have hpj : ¬ p.1 = j := fun e => h (e ▸ hp)
      simp only [hp, if_true]
      rw [find?_cons_eq, ih]
      simp [hp, Ne.symm h]
    · simp only [hp, if_false]
      rw [find?_cons_eq, find?_cons_eq, ih]

theorem find?_remove_self (d : List (κ × ν)) (k : κ) : find? (remove d k) k = none :=
  (find?_none_iff _ _).mpr (not_mem_remove d k)

theorem find?_moveToEnd (d : List (κ × ν)) (k j : κ) : find? (moveToEnd d k) j = find? d j := by
  unfold moveToEnd
  cases hf : find? d k with
  | none => rfl
  | some v =>
    simp only
    rw [find?_append]
    by_cases h : j = k
    · subst h; rw [find?_remove_self, hf]; simp [find?]
    · rw [find?_remove_ne d h]
      have : find? [(k, v)] j = none := by simp [find?, Ne.symm h]
      rw [this]; simp

theorem getitem_find? (c : Cache κ ν) (k j : κ) : find? (c.getitem k).2.data j = find? c.data j := by
  unfold Cache.getitem
  cases hf : find? c.data k with
  | none => rfl
  | some v => exact find?_moveToEnd c.data k j

/-- Inserting a key that is not present leaves every other key with its old value, or evicts it. -/
theorem setitem_new_find?_ne {c : Cache κ ν} (h : Inv c) {k j : κ} (v : ν) (hk : k ∉ keysOf c.data)
    (hj : j ≠ k) {x : ν} (hx : find? (c.setitem k v).data j = some x) : find? c.data j = some x := by
  rw [(setitem_new h v hk).1] at hx
  unfold Spec.put Spec.touch at hx
  rw [remove_of_not_mem hk] at hx
  have hnew : find? [(k, v)] j = none := by simp [find?, Ne.symm hj]
  simp only at hx
  split at hx
  · cases hd : c.data with
    | nil => rw [hd] at hx; simp [find?] at hx
    | cons p rest =>
      rw [hd] at hx
      simp only [List.cons_append, List.drop_one, List.tail_cons] at hx
      rw [find?_append, hnew] at hx
      simp only [Option.or_none] at hx
      rw [find?_cons_eq]
      by_cases hp : p.1 = j
      · exfalso
        have hn := h.nodup
        rw [hd] at hn
        simp only [keysOf_cons, List.nodup_cons] at hn
        have : j ∈ keysOf rest := (find?_isSome_iff rest j).mp (by simp [hx])
        exact hn.1 (hp ▸ this)
      · simp [hp, hx]
  · rw [find?_append, hnew] at hx
    simpa using hx

/-- With room for at least one entry, a freshly stored key is found with the stored value. -/
theorem setitem_find?_self {c : Cache κ ν} (h : Inv c) (hm : 1 ≤ c.maxsize) (k : κ) (v : ν) :
    find? (c.setitem k v).data k = some v := by
  by_cases hk : k ∈ keysOf c.data
  · rw [(setitem_present h v hk).1]
    have : ∀ d : List (κ × ν), k ∈ keysOf d →
        find? (d.map (fun p => if p.1 == k then (k, v) else p)) k = some v := by
      intro d
      induction d with
      | nil => simp
      | cons p d ih =>
        intro hm
        simp only [List.map_cons]
        rw [find?_cons_eq]
        by_cases hp : p.1 = k
        · simp [hp]
        · have : k ∈ keysOf d := by
            simp only [keysOf_cons, List.mem_cons] at hm
            rcases hm with e | e
            · exact absurd e.symm hp
            · exact e
          have hb : (p.1 == k) = false := beq_false_of_ne hp
          simp only [hb, Bool.false_eq_true, if_false, hp]
          exact ih this
    exact this c.data hk
  · rw [(setitem_new h v hk).1]
    unfold Spec.put Spec.touch
    rw [remove_of_not_mem hk]
    simp only
    split
    · rename_i hgt
      cases hd : c.data with
      | nil => rw [hd] at hgt; simp at hgt; omega
      | cons p rest =>
        simp only [List.cons_append, List.drop_one, List.tail_cons]
        have : k ∉ keysOf rest := by
          rw [hd] at hk; simp only [keysOf_cons, List.mem_cons, not_or] at hk; exact hk.2
        exact find?_append_new v this
    · exact find?_append_new v hk

end MlModel.Lru
