import MlModel.Model.Sched
/-!
Running an explicit label sequence (used by witnesses and non-vacuity examples).
-/
namespace MlModel.Sched

def acRun (c : ACfg) : AC → List ALabel → Option AC
  | s, [] => some s
  | s, l :: ls => (acStep c s l).bind fun s' => acRun c s' ls

def itRun (c : ICfg) : IT → List ILabel → Option IT
  | s, [] => some s
  | s, l :: ls => (itStep c s l).bind fun s' => itRun c s' ls

theorem areach_trans {c : ACfg} {s0 s1 s2 : AC} (h1 : AReach c s0 s1) (h2 : AReach c s1 s2) :
    AReach c s0 s2 := by
  induction h2 with
  | refl => exact h1
  | step l _ hs ih => exact .step l ih hs

theorem areach_of_run {c : ACfg} : ∀ {s s' : AC} (ls : List ALabel), acRun c s ls = some s' → AReach c s s'
  | s, s', [], h => by simp [acRun] at h; subst h; exact .refl
  | s, s', l :: ls, h => by
    simp only [acRun] at h
    cases hs : acStep c s l with
    | none => simp [hs] at h
    | some s1 =>
      simp [hs] at h
      exact areach_trans (.step l .refl hs) (areach_of_run ls h)

theorem ireach_trans {c : ICfg} {s0 s1 s2 : IT} (h1 : IReach c s0 s1) (h2 : IReach c s1 s2) :
    IReach c s0 s2 := by
  induction h2 with
  | refl => exact h1
  | step l _ hs ih => exact .step l ih hs

theorem ireach_of_run {c : ICfg} : ∀ {s s' : IT} (ls : List ILabel), itRun c s ls = some s' → IReach c s s'
  | s, s', [], h => by simp [itRun] at h; subst h; exact .refl
  | s, s', l :: ls, h => by
    simp only [itRun] at h
    cases hs : itStep c s l with
    | none => simp [hs] at h
    | some s1 =>
      simp [hs] at h
      exact ireach_trans (.step l .refl hs) (ireach_of_run ls h)

/-- a reachable state with a decidable property, found by running an explicit schedule -/
theorem areach_witness {c : ACfg} {s0 : AC} (ls : List ALabel) (P : AC → Bool)
    (h : ((acRun c s0 ls).map P).getD false = true) : ∃ s, AReach c s0 s ∧ P s = true := by
  cases hr : acRun c s0 ls with
  | none => simp [hr] at h
  | some s => exact ⟨s, areach_of_run ls hr, by simpa [hr] using h⟩

theorem ireach_witness {c : ICfg} {s0 : IT} (ls : List ILabel) (P : IT → Bool)
    (h : ((itRun c s0 ls).map P).getD false = true) : ∃ s, IReach c s0 s ∧ P s = true := by
  cases hr : itRun c s0 ls with
  | none => simp [hr] at h
  | some s => exact ⟨s, ireach_of_run ls hr, by simpa [hr] using h⟩

end MlModel.Sched
