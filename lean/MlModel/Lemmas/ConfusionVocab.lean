import MlModel.Lemmas.ConfusionEncode
/-!
# `_apply_vocab` under an ARBITRARY explicit vocabulary

`Lemmas/ConfusionEncode` treats the vocabulary `keys.zipIdx` (class ids `0 … n-1` in key order).
A user's `vocab: dict[label, int]` may map its labels to any integers: permuted ids, several
labels sharing one class id.  The only thing the code needs (`result[i][vocab[elem]] = True` on a
row of width `len(vocab)`) is that every label it meets is a key whose id is `< len(vocab)`
(`Vocab.Has`); then the dense row of a label set is `markV`: class `j` is switched on iff some label
of the set has id `j`.
-/
namespace MlModel.Agg.Confusion

/-- `vocab.get(e)` -/
def Vocab.idx (v : Vocab) (e : Label) : Option Nat := (v.find? (·.1 == e)).map (·.2)

theorem Vocab.lookup_of_idx {v : Vocab} {e : Label} {j : Nat} (h : v.idx e = some j) :
    v.lookup e = .ok j := by
  unfold Vocab.idx at h
  unfold Vocab.lookup
  cases hf : v.find? (·.1 == e) with
  | none => simp [hf] at h
  | some p =>
    obtain ⟨l, i⟩ := p
    simp only [hf, Option.map_some, Option.some.injEq] at h
    simp [h]

theorem Vocab.lookup_of_idx_none {v : Vocab} {e : Label} (h : v.idx e = none) :
    v.lookup e = .error .key := by
  unfold Vocab.idx at h
  unfold Vocab.lookup
  cases hf : v.find? (·.1 == e) with
  | none => rfl
  | some p => simp [hf] at h

/-- the label is a key of the vocabulary and its class id fits the width `len(vocab)` -/
def Vocab.Has (v : Vocab) (e : Label) : Prop := ∃ j, v.idx e = some j ∧ j < v.length

instance (v : Vocab) (e : Label) : Decidable (v.Has e) :=
  match h : v.idx e with
  | none => isFalse (by rintro ⟨j, hj, _⟩; rw [h] at hj; cases hj)
  | some j =>
    if hl : j < v.length then isTrue ⟨j, h, hl⟩
    else isFalse (by rintro ⟨j', hj, hj'⟩; rw [h] at hj; cases hj; exact hl hj')

/-- the multi-hot row of a set of labels: class `j` is on iff some label of the set has id `j` -/
def markV (v : Vocab) (elems : List Label) : List Bool :=
  (List.range v.length).map fun j => elems.any fun e => v.idx e == some j

@[simp] theorem markV_length (v : Vocab) (elems : List Label) : (markV v elems).length = v.length := by
  simp [markV]

theorem markV_nil (v : Vocab) : markV v [] = List.replicate v.length false := by
  simp [markV, List.map_const']

/-- what a cell of the dense row means -/
theorem markV_getD (v : Vocab) (elems : List Label) (i : Nat) (hi : i < v.length) :
    (markV v elems).getD i false = elems.any fun e => v.idx e == some i := by
  simp [markV, List.getD_eq_getElem?_getD, List.getElem?_map, List.getElem?_range hi]

theorem markV_set (v : Vocab) (S : List Label) (e : Label) (j : Nat) (he : v.idx e = some j)
    (_hj : j < v.length) : (markV v S).set j true = markV v (S ++ [e]) := by
  apply List.ext_getElem
  · simp
  · intro i h1 h2
    have hi : i < v.length := by simpa using h2
    simp only [markV, List.getElem_set, List.getElem_map, List.getElem_range, List.any_append,
      List.any_cons, List.any_nil, Bool.or_false, he]
    by_cases hji : j = i
    · simp [hji]
    · have : (some j == some i) = false := by simpa using hji
      simp [hji, this]

theorem vocabStep_markV (v : Vocab) (S : List Label) (e : Label) (h : v.Has e) :
    vocabStep v (markV v S) e = .ok (markV v (S ++ [e])) := by
  obtain ⟨j, hj, hlt⟩ := h
  have hlt' : j < (markV v S).length := by simpa using hlt
  simp only [vocabStep, Vocab.lookup_of_idx hj, bind, Except.bind, setCell, hlt', ↓reduceIte,
    markV_set v S e j hj hlt]

theorem applyVocabRow_markV (v : Vocab) (elems : List Label) (h : ∀ e ∈ elems, v.Has e) :
    applyVocabRow v elems = .ok (markV v elems) := by
  have gen : ∀ (S : List Label),
      elems.foldlM (vocabStep v) (markV v S) = .ok (markV v (S ++ elems)) := by
    induction elems with
    | nil => intro S; simp [pure, Except.pure]
    | cons e es ih =>
      intro S
      simp only [List.foldlM_cons, vocabStep_markV v S e (h e (by simp)), bind, Except.bind]
      have := ih (fun e' he' => h e' (by simp [he'])) (S ++ [e])
      simpa [List.append_assoc] using this
  unfold applyVocabRow
  rw [← markV_nil]
  simpa using gen []

theorem applyVocab_flatV (v : Vocab) (ys : List Label) (h : ∀ y ∈ ys, v.Has y) :
    applyVocab v false (.flat ys) = .ok (ys.map fun y => markV v [y]) := by
  simp only [applyVocab, rowsFor, Bool.false_eq_true, ↓reduceIte, bind, Except.bind]
  rw [mapM_ok _ (markV v)]
  · simp [List.map_map, Function.comp_def]
  · intro r hr
    obtain ⟨y, hy, rfl⟩ := List.mem_map.mp hr
    exact applyVocabRow_markV v _ (by simpa using h y hy)

theorem applyVocab_nestedV (v : Vocab) (rows : List (List Label)) (h : ∀ r ∈ rows, ∀ e ∈ r, v.Has e) :
    applyVocab v true (.nested rows) = .ok (rows.map (markV v)) := by
  simp only [applyVocab, rowsFor, ↓reduceIte, bind, Except.bind]
  exact mapM_ok _ (markV v) rows fun r hr => applyVocabRow_markV v r (h r hr)

/-- a label outside the vocabulary is a `KeyError`, a class id beyond `len(vocab)` an `IndexError`:
the admissibility hypothesis cannot be dropped -/
theorem vocabStep_not_has (v : Vocab) (row : List Bool) (hr : row.length = v.length) (e : Label)
    (h : ¬ v.Has e) : vocabStep v row e = .error .key ∨ vocabStep v row e = .error .index := by
  cases hi : v.idx e with
  | none => left; simp [vocabStep, Vocab.lookup_of_idx_none hi, bind, Except.bind]
  | some j =>
    right
    have : ¬ j < row.length := by rw [hr]; intro hj; exact h ⟨j, hi, hj⟩
    simp [vocabStep, Vocab.lookup_of_idx hi, bind, Except.bind, setCell, this]

/-! ## the encoders under an arbitrary vocabulary -/

/-- a batch together with CPython's enumeration order of its label set (read only without a vocabulary) -/
def mcBatchO (order : List Label) (xs : List (Label × Label)) : Batch :=
  { yTrue := .flat (xs.map (·.1)), yPred := .flat (xs.map (·.2)), order := order }
def moBatchO (order : List Label) (xs : List (List Label × List Label)) : Batch :=
  { yTrue := .nested (xs.map (·.1)), yPred := .nested (xs.map (·.2)), order := order }

theorem mcBatchO_nil (xs : List (Label × Label)) : mcBatchO [] xs = mcBatch xs := rfl
theorem moBatchO_nil (xs : List (List Label × List Label)) : moBatchO [] xs = moBatch xs := rfl

def encMulticlassV (v : Vocab) (x : Label × Label) : DenseEx := (markV v [x.1], markV v [x.2])
def encMultioutputV (v : Vocab) (x : List Label × List Label) : DenseEx := (markV v x.1, markV v x.2)

theorem multiclassCM_vocab (v : Vocab) (hv : v ≠ []) (avg : Average) (axis : Option Nat)
    (hax : axisOf avg = .ok axis) (hb : avg ≠ .binary) (order : List Label) (xs : List (Label × Label))
    (hx : ∀ x ∈ xs, v.Has x.1 ∧ v.Has x.2) :
    multiclassCM (some v) false avg (mcBatchO order xs)
      = .ok (denseCM axis v.length (xs.map (encMulticlassV v))) := by
  have e1 := applyVocab_flatV v (xs.map (·.1)) (by
    intro y hy; obtain ⟨x, hx', rfl⟩ := List.mem_map.mp hy; exact (hx x hx').1)
  have e2 := applyVocab_flatV v (xs.map (·.2)) (by
    intro y hy; obtain ⟨x, hx', rfl⟩ := List.mem_map.mp hy; exact (hx x hx').2)
  simp only [multiclassCM, mcBatchO, effectiveVocab_some _ hv, e1, e2, hax, bind, Except.bind]
  rw [indicatorCore_dense avg hb axis _ _ _ (by simp)]
  simp [denseCM, encMulticlassV, List.map_map, Function.comp_def]

theorem multioutputCM_vocab (v : Vocab) (hv : v ≠ []) (avg : Average) (axis : Option Nat)
    (hax : axisOf avg = .ok axis) (hb : avg ≠ .binary) (order : List Label)
    (xs : List (List Label × List Label))
    (hx : ∀ x ∈ xs, (∀ e ∈ x.1, v.Has e) ∧ (∀ e ∈ x.2, v.Has e)) :
    multiclassCM (some v) true avg (moBatchO order xs)
      = .ok (denseCM axis v.length (xs.map (encMultioutputV v))) := by
  have e1 := applyVocab_nestedV v (xs.map (·.1)) (by
    intro r hr; obtain ⟨x, hx', rfl⟩ := List.mem_map.mp hr; exact (hx x hx').1)
  have e2 := applyVocab_nestedV v (xs.map (·.2)) (by
    intro r hr; obtain ⟨x, hx', rfl⟩ := List.mem_map.mp hr; exact (hx x hx').2)
  simp only [multiclassCM, moBatchO, effectiveVocab_some _ hv, e1, e2, hax, bind, Except.bind]
  rw [indicatorCore_dense avg hb axis _ _ _ (by simp)]
  simp [denseCM, encMultioutputV, List.map_map, Function.comp_def]

/-! ## the enumerated vocabulary `keys.zipIdx` is a special case -/

theorem idx_zipIdx (keys : List Label) (e : Label) (h : e ∈ keys) :
    Vocab.idx keys.zipIdx e = some (keys.idxOf e) := by
  simp [Vocab.idx, lookup_zipIdx keys e h 0]

theorem has_zipIdx (keys : List Label) (e : Label) (h : e ∈ keys) : Vocab.Has keys.zipIdx e :=
  ⟨keys.idxOf e, idx_zipIdx keys e h, by simpa using List.idxOf_lt_length_of_mem h⟩

end MlModel.Agg.Confusion
