import MlModel.Lemmas.QueueInv
/-!
# One producer, one (sequential) consumer on an `IteratorQueue`: exact delivery

Queue-level invariants used by C15: a queue fed by a single `enqueue_from_iterator` thread `P`
(source `src`, return value `ret`, no declared `max_enqueuer`, no stop request, no time-out) and
drained by one `get_batch(n, block=True, keep_partial=True)` (the queue's `keepPartial` flag is set) caller at a time.

* `ProdOK`  — the producer's program point determines the counters, the recorded exception and how
              much of the source has been enqueued: `src = produced ++ (value in hand) ++ rest` exactly;
* `ConsOK`  — everything ever dequeued is `delivered ++` what the consumer currently holds, in order,
              nothing was dropped, and an armed end-of-stream exception implies `exhausted`;
* `exhausted → q = [] ∧ enqueue_done`.

Each is preserved by every step of `P` and of the consumer (`spsc_prod_step`, `spsc_cons_step`).
-/
namespace MlModel.Queue

/-- the source items already handed to the queue, as items -/
def asItems (l : List Elem) : List Item := l.map fun e => Item.val e.2

/-- how `enqueue_from_iterator` ends: normally after the whole source, or at the first failing item -/
def EndOK (src : List Item) (ret : Nat) (q : Shared) (P : Thread) : Prop :=
  (P.reraise = none ∧ q.exc = none ∧ P.rets = [ret] ∧ src = asItems q.produced) ∨
  (P.reraise = some .value ∧ q.exc = some .value ∧ P.rets = [] ∧
    ∃ rest, src = asItems q.produced ++ Item.fail :: rest)

/-- counters while the producer is feeding the queue -/
def Ctr1 (q : Shared) : Prop :=
  q.start = 1 ∧ q.stop = 0 ∧ q.maxEnq = 1 ∧ q.exc = none ∧ q.returned = []

def ProdPc (src : List Item) (ret : Nat) (ptid : Tid) (q : Shared) (P : Thread) : Prop :=
  match P.pc with
  | .sAcq => q.start = 0 ∧ q.stop = 0 ∧ q.maxEnq = 0 ∧ q.exc = none ∧ q.returned = [] ∧ q.produced = [] ∧ P.src = src
  | .sRel | .eNext | .pStAcq | .pStRel | .pR0 | .pR1 | .pR2 | .pR3 | .pR4 | .pRet =>
    Ctr1 q ∧ src = asItems q.produced ++ P.src
  | .pAcq | .pPut | .pWait | .pWake =>
    Ctr1 q ∧ P.v.1 = ptid ∧ src = asItems q.produced ++ Item.val P.v.2 :: P.src
  | .tAcq => q.start = 1 ∧ q.stop = 0 ∧ q.maxEnq = 1 ∧ q.returned = [] ∧ EndOK src ret q P
  | .tR0 | .tR1 | .tR2 | .tR3 | .tR4 | .tS0 | .tS1 | .tS2 | .tS3 | .tS4 | .tRel | .done =>
    q.start = 1 ∧ q.stop = 1 ∧ q.maxEnq = 1 ∧ q.returned = P.rets ∧ EndOK src ret q P
  | _ => False

structure ProdOK (src : List Item) (ret : Nat) (ptid : Tid) (q : Shared) (P : Thread) : Prop where
  prog : P.prog = .producer src ret
  nostop : q.stopRequested = false
  noign : q.ignoreError = false
  tags : ∀ e ∈ q.produced, e.1 = ptid
  pc : ProdPc src ret ptid q P

/-- is the producer still feeding (it has not reached `_stop_enqueue`)? -/
def feedPc : Pc → Bool
  | .sAcq | .sRel | .eNext | .pStAcq | .pStRel | .pR0 | .pR1 | .pR2 | .pR3 | .pR4 | .pRet
  | .pAcq | .pPut | .pWait | .pWake => true
  | _ => false

theorem ProdOK.not_done_of_feed {src ret ptid q P} (h : ProdOK src ret ptid q P) (hf : feedPc P.pc = true) :
    q.enqueueDone = false := by
  have hp := h.pc
  have hs := h.nostop
  unfold ProdPc at hp
  cases hpc : P.pc <;> simp only [hpc, feedPc, Bool.false_eq_true] at hp hf <;>
    simp_all [Shared.enqueueDone, Ctr1]

/-- after `_stop_enqueue` took effect without a failure the return value is recorded and the whole
source has been enqueued; with a failure exactly the items before the failing one -/
theorem ProdOK.of_done {src ret ptid q P} (h : ProdOK src ret ptid q P) (hd : q.enqueueDone = true) :
    (q.exc = none → q.returned = [ret] ∧ src = asItems q.produced) ∧
    (∀ e, q.exc = some e → e = .value ∧ ∃ rest, src = asItems q.produced ++ Item.fail :: rest) := by
  have hp := h.pc
  have hs := h.nostop
  unfold ProdPc at hp
  cases hpc : P.pc <;> simp only [hpc] at hp <;>
    simp_all [Shared.enqueueDone, Ctr1, EndOK] <;>
    (try (rcases hp with ⟨_, _, _, _, hp⟩)) <;>
    (try (rcases hp with hp | hp)) <;> simp_all

end MlModel.Queue

namespace MlModel.Queue

/-- what a producer step may do to the rest of the queue state -/
def ProdFrame (q q' : Shared) : Prop :=
  q'.keepPartial = q.keepPartial ∧
  q'.dequeued = q.dequeued ∧ q'.exhausted = q.exhausted ∧ q'.lost = q.lost ∧
  ((q'.q = q.q ∧ q'.produced = q.produced) ∨
    (q.enqueueDone = false ∧ ∃ e, q'.q = q.q ++ [e] ∧ q'.produced = q.produced ++ [e])) ∧
  (q.enqueueDone = true → q'.enqueueDone = true)

def ProdStepOK (src : List Item) (ret : Nat) (ptid : Tid) (q : Shared) (P : Thread) : Prop :=
  ∀ lbl q' P', stepThread q P ptid false = some (lbl, q', P') → ProdOK src ret ptid q P →
    ProdOK src ret ptid q' P' ∧ ProdFrame q q'

set_option hygiene false in
macro "spsc_prod_group" : tactic => `(tactic| (
  intro lbl q' P' h hP
  obtain ⟨hprog, hns, hni, htags, hp⟩ := hP
  unfold ProdPc at hp
  unfold stepThread at h
  cases hpc : P.pc <;> (try (simp only [hpc, Pc.group] at hg; omega)) <;>
    simp only [hpc] at h hp <;>
    (try (exact hp.elim)) <;>
    (try simp only [acquire, release, notify, waitPark, waitWake, goto, enqLoop, putLoop, batchLoop,
      afterRaise, afterValue] at h) <;>
    (repeat' split at h) <;>
    (try simp only [Option.some.injEq, Prod.mk.injEq, reduceCtorEq] at h) <;>
    (try (obtain ⟨-, rfl, rfl⟩ := h)) <;>
    (refine ⟨⟨?_, ?_, ?_, ?_, ?_⟩, ?_, ?_, ?_, ?_, ?_, ?_⟩) <;>
    simp_all [ProdPc, Ctr1, EndOK, asItems, Shared.setOwner, Shared.enqueueDone, Shared.full] <;>
    (try assumption) <;>
    (try (intro a b hm; rcases hm with hm | hm
          · exact htags a b hm
          · obtain ⟨_, hv, _⟩ := hp; rw [← hm] at hv; exact hv))))

theorem spsc_prod_g0 {src ret ptid q P} (hg : P.pc.group = 0) : ProdStepOK src ret ptid q P := by
  spsc_prod_group
theorem spsc_prod_g1 {src ret ptid q P} (hg : P.pc.group = 1) : ProdStepOK src ret ptid q P := by
  spsc_prod_group
theorem spsc_prod_g2 {src ret ptid q P} (hg : P.pc.group = 2) : ProdStepOK src ret ptid q P := by
  spsc_prod_group
theorem spsc_prod_g3 {src ret ptid q P} (hg : P.pc.group = 3) : ProdStepOK src ret ptid q P := by
  spsc_prod_group
theorem spsc_prod_g4 {src ret ptid q P} (hg : P.pc.group = 4) : ProdStepOK src ret ptid q P := by
  spsc_prod_group
theorem spsc_prod_g5 {src ret ptid q P} (hg : P.pc.group = 5) : ProdStepOK src ret ptid q P := by
  spsc_prod_group
theorem spsc_prod_g6 {src ret ptid q P} (hg : P.pc.group = 6) : ProdStepOK src ret ptid q P := by
  spsc_prod_group
theorem spsc_prod_g7 {src ret ptid q P} (hg : P.pc.group = 7) : ProdStepOK src ret ptid q P := by
  spsc_prod_group

theorem spsc_prod_step {src ret ptid q P} : ProdStepOK src ret ptid q P := by
  have h := Pc.group_lt P.pc
  match hg : P.pc.group with
  | 0 => exact spsc_prod_g0 hg | 1 => exact spsc_prod_g1 hg | 2 => exact spsc_prod_g2 hg
  | 3 => exact spsc_prod_g3 hg | 4 => exact spsc_prod_g4 hg | 5 => exact spsc_prod_g5 hg
  | 6 => exact spsc_prod_g6 hg | 7 => exact spsc_prod_g7 hg
  | n + 8 => omega

end MlModel.Queue

namespace MlModel.Queue

/-- thread-local facts of a `get_batch(n, block=True, keep_partial=True)` (the queue's `keepPartial` flag is set) caller (no time-out fires):
a raise never drops a partial batch, and an armed end-of-stream exception implies `exhausted` -/
structure KeepOK (q : Shared) (C : Thread) : Prop where
  keep : C.pc = .bRaise → C.result = []
  armedN : ∀ c, C.pc = .nNaErr c → q.exhausted = true
  armedR : ∀ c, C.pc = .nRelErr c → C.x ≠ .empty → q.exhausted = true
  idleS : C.pc = .start → C.result = []
  idleB : C.pc = .bAcq → C.result = []
  idleD : C.pc = .done → C.result = []

/-- what a consumer step may do to the rest of the queue state -/
def ConsFrame (q q' : Shared) : Prop :=
  q'.keepPartial = q.keepPartial ∧
  q'.exc = q.exc ∧ q'.stopRequested = q.stopRequested ∧ q'.start = q.start ∧ q'.stop = q.stop ∧
  q'.maxEnq = q.maxEnq ∧ q'.returned = q.returned ∧ q'.produced = q.produced ∧ q'.ignoreError = q.ignoreError ∧
  (q'.exhausted = true → q.exhausted = true ∨ (q'.q = [] ∧ q.enqueueDone = true)) ∧
  (q.exhausted = true → q'.exhausted = true) ∧
  (q'.q = q.q ∨ ∃ e, q.q = e :: q'.q)

def ConsStepOK (n : Nat) (ctid : Tid) (q : Shared) (C : Thread) : Prop :=
  ∀ lbl q' C', stepThread q C ctid false = some (lbl, q', C') → C.prog = .batchLoop n true → TOK C →
    q.ignoreError = false → q.keepPartial = true → KeepOK q C → KeepOK q' C' ∧ ConsFrame q q'

set_option hygiene false in
macro "spsc_cons_group" : tactic => `(tactic| (
  intro lbl q' C' h hprog htok hni hkp hK
  have hk := htok.kind
  obtain ⟨hkeep, harmN, harmR, hidleS, hidleB, hidleD⟩ := hK
  unfold stepThread at h
  cases hpc : C.pc <;> (try (simp only [hpc, Pc.group] at hg; omega)) <;>
    simp only [hpc] at h hk hkeep harmN harmR hidleS hidleB hidleD <;>
    (try (simp [pcKind, hprog, Prog.kind] at hk; done)) <;>
    (try simp only [acquire, release, notify, waitPark, waitWake, goto, enqLoop, putLoop, batchLoop,
      afterRaise, afterValue] at h) <;>
    (repeat' split at h) <;>
    (try simp only [Option.some.injEq, Prod.mk.injEq, reduceCtorEq] at h) <;>
    (try (obtain ⟨-, rfl, rfl⟩ := h)) <;>
    (refine ⟨⟨?_, ?_, ?_, ?_, ?_, ?_⟩, ?_, ?_, ?_, ?_, ?_, ?_, ?_, ?_, ?_, ?_, ?_, ?_⟩) <;>
    (first | simp_all [Shared.setOwner, Shared.enqueueDone, Shared.final, Thread.batchMax,
      Thread.batchBlock, Prog.kind, pcKind] | skip)))

theorem spsc_cons_g0 {n ctid q C} (hg : C.pc.group = 0) : ConsStepOK n ctid q C := by spsc_cons_group
theorem spsc_cons_g1 {n ctid q C} (hg : C.pc.group = 1) : ConsStepOK n ctid q C := by spsc_cons_group
theorem spsc_cons_g2 {n ctid q C} (hg : C.pc.group = 2) : ConsStepOK n ctid q C := by spsc_cons_group
theorem spsc_cons_g3 {n ctid q C} (hg : C.pc.group = 3) : ConsStepOK n ctid q C := by spsc_cons_group
theorem spsc_cons_g4 {n ctid q C} (hg : C.pc.group = 4) : ConsStepOK n ctid q C := by spsc_cons_group
theorem spsc_cons_g5 {n ctid q C} (hg : C.pc.group = 5) : ConsStepOK n ctid q C := by spsc_cons_group
theorem spsc_cons_g6 {n ctid q C} (hg : C.pc.group = 6) : ConsStepOK n ctid q C := by spsc_cons_group
theorem spsc_cons_g7 {n ctid q C} (hg : C.pc.group = 7) : ConsStepOK n ctid q C := by spsc_cons_group

theorem spsc_cons_step {n ctid q C} : ConsStepOK n ctid q C := by
  have h := Pc.group_lt C.pc
  match hg : C.pc.group with
  | 0 => exact spsc_cons_g0 hg | 1 => exact spsc_cons_g1 hg | 2 => exact spsc_cons_g2 hg
  | 3 => exact spsc_cons_g3 hg | 4 => exact spsc_cons_g4 hg | 5 => exact spsc_cons_g5 hg
  | 6 => exact spsc_cons_g6 hg | 7 => exact spsc_cons_g7 hg
  | n + 8 => omega

end MlModel.Queue

namespace MlModel.Queue

/-- The single-producer / single-consumer invariant of one queue. `delivered` = what earlier
`get_batch` calls have returned, in order. -/
structure Spsc (src : List Item) (ret : Nat) (ptid : Tid) (delivered : List Elem)
    (q : Shared) (P C : Thread) : Prop where
  prod : ProdOK src ret ptid q P
  keepP : q.keepPartial = true
  ctok : TOK C
  keep : KeepOK q C
  deq : q.dequeued = delivered ++ seqOf C
  lost : q.lost = []
  fifo : q.produced = q.dequeued ++ q.q
  exh : q.exhausted = true → q.q = [] ∧ q.enqueueDone = true

theorem ProdOK.congr {src ret ptid q q' P} (h : ProdOK src ret ptid q P)
    (h1 : q'.exc = q.exc) (h2 : q'.stopRequested = q.stopRequested) (h3 : q'.start = q.start)
    (h4 : q'.stop = q.stop) (h5 : q'.maxEnq = q.maxEnq) (h6 : q'.returned = q.returned)
    (h7 : q'.produced = q.produced) (h8 : q'.ignoreError = q.ignoreError) : ProdOK src ret ptid q' P := by
  obtain ⟨hprog, hns, hni, htags, hp⟩ := h
  refine ⟨hprog, by rw [h2]; exact hns, by rw [h8]; exact hni, by rw [h7]; exact htags, ?_⟩
  unfold ProdPc at hp ⊢
  cases hpc : P.pc <;> simp only [hpc] at hp ⊢ <;>
    simp_all [Ctr1, EndOK]

theorem enqueueDone_congr {q q' : Shared}
    (h1 : q'.exc = q.exc) (h2 : q'.stopRequested = q.stopRequested) (h3 : q'.start = q.start)
    (h4 : q'.stop = q.stop) (h5 : q'.maxEnq = q.maxEnq) : q'.enqueueDone = q.enqueueDone := by
  simp [Shared.enqueueDone, h1, h2, h3, h4, h5]

/-- a consumer step preserves the invariant -/
theorem Spsc.cons_step {src ret ptid delivered q P C n ctid lbl q' C'}
    (hI : Spsc src ret ptid delivered q P C) (hprog : C.prog = .batchLoop n true)
    (h : stepThread q C ctid false = some (lbl, q', C')) :
    Spsc src ret ptid delivered q' P C' ∧ C'.prog = .batchLoop n true := by
  obtain ⟨hK', hF⟩ := spsc_cons_step lbl q' C' h hprog hI.ctok hI.prod.noign hI.keepP hI.keep
  obtain ⟨htok', hprog', hq, hdq, hpr, hlost, hseq⟩ := stepThread_data lbl q' C' h hI.ctok
  obtain ⟨f0, f1, f2, f3, f4, f5, f6, f7, f8, f9, f10, f11⟩ := hF
  have hnew : newOf q C = [] := by
    unfold newOf
    split
    · rename_i hpc
      have := hI.ctok.kind .producer (by simp [pcKind, hpc])
      simp [hprog, Prog.kind] at this
    · rfl
  have hdrop : droppedOf C = [] := by
    unfold droppedOf
    split
    · rename_i hpc; exact hI.keep.keep hpc
    · rfl
  rw [hnew, List.append_nil] at hq hpr
  rw [hdrop, List.append_nil] at hlost hseq
  refine ⟨⟨hI.prod.congr f1 f2 f3 f4 f5 f6 f7 f8, by rw [f0]; exact hI.keepP, htok', hK', ?_, ?_, ?_, ?_⟩,
    by rw [hprog']; exact hprog⟩
  · rw [hdq, hI.deq, List.append_assoc, hseq]
  · rw [hlost]; exact hI.lost
  · rw [hpr, hdq, hI.fifo, List.append_assoc, hq]
  · intro he
    rcases f9 he with h0 | ⟨h1, h2⟩
    · obtain ⟨hq0, hd0⟩ := hI.exh h0
      refine ⟨?_, by rw [enqueueDone_congr f1 f2 f3 f4 f5]; exact hd0⟩
      rcases f11 with h | ⟨e, h⟩
      · rw [h]; exact hq0
      · rw [hq0] at h; exact absurd h (by simp)
    · exact ⟨h1, by rw [enqueueDone_congr f1 f2 f3 f4 f5]; exact h2⟩

/-- a producer step preserves the invariant -/
theorem Spsc.prod_step {src ret ptid delivered q P C lbl q' P'}
    (hI : Spsc src ret ptid delivered q P C)
    (h : stepThread q P ptid false = some (lbl, q', P')) :
    Spsc src ret ptid delivered q' P' C := by
  obtain ⟨hP', g0, g1, g2, g3, g4, g5⟩ := spsc_prod_step lbl q' P' h hI.prod
  refine ⟨hP', by rw [g0]; exact hI.keepP, hI.ctok, ⟨hI.keep.keep, ?_, ?_, hI.keep.idleS, hI.keep.idleB, hI.keep.idleD⟩, by rw [g1]; exact hI.deq, by rw [g3]; exact hI.lost, ?_, ?_⟩
  · intro c hc; rw [g2]; exact hI.keep.armedN c hc
  · intro c hc hx; rw [g2]; exact hI.keep.armedR c hc hx
  · rcases g4 with ⟨a, b⟩ | ⟨_, e, a, b⟩
    · rw [a, b, g1]; exact hI.fifo
    · rw [a, b, g1, hI.fifo, List.append_assoc]
  · intro he
    rw [g2] at he
    obtain ⟨hq0, hd0⟩ := hI.exh he
    refine ⟨?_, g5 hd0⟩
    rcases g4 with ⟨a, _⟩ | ⟨hnd, _⟩
    · rw [a]; exact hq0
    · rw [hd0] at hnd; exact absurd hnd (by simp)

end MlModel.Queue

namespace MlModel.Queue

/-- a thread that is not inside a `get_batch` call (finished, or about to start one) and holds nothing -/
structure Quiet (C : Thread) : Prop where
  tok : TOK C
  pc : C.pc = .bAcq ∨ C.pc = .done
  res : C.result = []

theorem Quiet.seqOf {C : Thread} (h : Quiet C) : seqOf C = C.received := by
  unfold Queue.seqOf inHand
  rcases h.pc with hp | hp <;> simp [hp, inHandPc, h.res]

theorem Quiet.keepOK {q : Shared} {C : Thread} (h : Quiet C) : KeepOK q C := by
  refine ⟨fun hp => h.res, ?_, ?_, fun _ => h.res, fun _ => h.res, fun _ => h.res⟩ <;>
    (intro c hc; rcases h.pc with hp | hp <;> simp [hp] at hc)

/-- the consumer slot is handed to another quiet thread that holds the same elements -/
theorem Spsc.swap {src ret ptid d q P C C'} (hI : Spsc src ret ptid d q P C) (hq : Quiet C')
    (hs : C'.received = seqOf C) : Spsc src ret ptid d q P C' :=
  ⟨hI.prod, hI.keepP, hq.tok, hq.keepOK, by rw [hq.seqOf, hs]; exact hI.deq, hI.lost, hI.fifo, hI.exh⟩

/-- a finished call hands its elements over: they count as delivered, the slot is empty again -/
theorem Spsc.deliver {src ret ptid d q P C C'} (hI : Spsc src ret ptid d q P C) (hC : Quiet C)
    (hq : Quiet C') (hs : C'.received = []) : Spsc src ret ptid (d ++ C.received) q P C' :=
  ⟨hI.prod, hI.keepP, hq.tok, hq.keepOK, by rw [hq.seqOf, hs, List.append_nil, hI.deq, hC.seqOf], hI.lost,
    hI.fifo, hI.exh⟩

/-- what `exhausted` tells the consumer: everything enqueued has been taken out, and the enqueuer ended
normally with the whole source (return value recorded) or at its first failing item -/
theorem Spsc.at_end {src ret ptid d q P C} (hI : Spsc src ret ptid d q P C) (he : q.exhausted = true) :
    (q.exc = none → q.returned = [ret] ∧ src = asItems (d ++ seqOf C)) ∧
    (∀ e, q.exc = some e → e = .value ∧ ∃ rest, src = asItems (d ++ seqOf C) ++ Item.fail :: rest) := by
  obtain ⟨hq0, hd⟩ := hI.exh he
  have hp : q.produced = d ++ seqOf C := by rw [hI.fifo, hq0, List.append_nil, hI.deq]
  have := hI.prod.of_done hd
  rw [hp] at this
  exact this

/-- what has been delivered is always an initial segment of the source, all of it values -/
theorem Spsc.prefix {src ret ptid d q P C} (hI : Spsc src ret ptid d q P C) :
    ∃ tail, src = asItems d ++ tail := by
  have hp : q.produced = d ++ (seqOf C ++ q.q) := by rw [hI.fifo, hI.deq, List.append_assoc]
  have hpc := hI.prod.pc
  unfold ProdPc at hpc
  have key : ∃ tail, src = asItems q.produced ++ tail := by
    cases h : P.pc <;> simp only [h] at hpc <;> (try exact hpc.elim)
    all_goals first
      | (obtain ⟨_, _, _, _, _, hp0, _⟩ := hpc; exact ⟨src, by rw [hp0]; rfl⟩)
      | exact ⟨_, hpc.2⟩
      | exact ⟨_, hpc.2.2⟩
      | (obtain ⟨_, _, _, _, hE⟩ := hpc
         rcases hE with ⟨_, _, _, h⟩ | ⟨_, _, _, rest, h⟩
         · exact ⟨[], by rw [List.append_nil]; exact h⟩
         · exact ⟨_, h⟩)
  obtain ⟨tail, ht⟩ := key
  refine ⟨asItems (seqOf C ++ q.q) ++ tail, ?_⟩
  rw [ht, hp]
  simp [asItems]

/-- a fresh queue with its not yet started prefetch thread and no consumer -/
theorem spsc_fresh (src : List Item) (ret : Nat) (ptid : Tid) (cap : Nat) (C : Thread) (hq : Quiet C)
    (hr : C.received = []) :
    Spsc src ret ptid [] { cap := cap, keepPartial := true }
      { prog := .producer src ret, pc := .sAcq, src := src } C := by
  refine ⟨⟨rfl, rfl, rfl, by simp, ?_⟩, rfl, hq.tok, hq.keepOK, by simp [hq.seqOf, hr], rfl, rfl, by simp⟩
  simp [ProdPc]

end MlModel.Queue
