import MlModel.Lemmas.TreeInPlace
/-!
# Finite trees in the heap (`WF`), structural equality across heaps (`SEq`), and "setting a path to its
current value gives a structurally equal tree".
-/
namespace MlModel.Tree

/-- The structure below `r` is a finite tree (or DAG): every reference is valid and there is no cycle. -/
inductive WF (h : Heap) : Ref → Prop
  | mk {r : Ref} {n : Node} : h[r]? = some n → (∀ c ∈ n.refs, WF h c) → WF h r

/-- A node with its references erased: kind, dict keys / arity, leaf value. -/
def Node.skel : Node → Node
  | .dict es => .dict (es.map fun e => (e.1, 0))
  | .list rs => .list (List.replicate rs.length 0)
  | .tuple rs => .tuple (List.replicate rs.length 0)
  | n => n

/-- Structural equality of the tree below `a` in `h1` and the tree below `b` in `h2`: same kind of node,
same keys in the same order / same length, same leaf value, children pairwise structurally equal.
(Object identities are ignored; inductive, so it only holds of finite structures.) -/
inductive SEq (h1 h2 : Heap) : Ref → Ref → Prop
  | mk {a b : Ref} {n1 n2 : Node} : h1[a]? = some n1 → h2[b]? = some n2 → n1.skel = n2.skel →
      (∀ (i : Nat) (c1 c2 : Ref), n1.refs[i]? = some c1 → n2.refs[i]? = some c2 → SEq h1 h2 c1 c2) → SEq h1 h2 a b

theorem WF.lt {h : Heap} {r : Ref} (w : WF h r) : r < h.size := by
  cases w with | mk hn _ => exact lt_size_of_get hn

theorem WF.region (h : Heap) : Region (WF h) h :=
  ⟨fun _ w => w.lt, fun r n w hn c hc => by
    cases w with
    | mk hn' hch => rw [hn] at hn'; cases hn'; exact hch c hc⟩

/-- A finite tree is structurally equal to itself, seen through any heap that agrees on a region
containing it. -/
theorem SEq.of_WF_agree {A : Ref → Prop} {h h'' : Heap} (hA : Region A h) (hag : ∀ r, A r → h''[r]? = h[r]?)
    {d : Ref} (w : WF h d) (hd : A d) : SEq h'' h d d := by
  induction w with
  | @mk r n hn hch ih =>
    refine SEq.mk (by rw [hag r hd]; exact hn) hn rfl ?_
    intro i c1 c2 h1 h2
    rw [h1] at h2; cases h2
    have hm := List.mem_of_getElem? h1
    exact ih c1 hm (hA.closed r n hd hn c1 hm)

/-- The right-hand heap of `SEq` may be replaced by one that agrees on a region containing the tree. -/
theorem SEq.right_agree {A : Ref → Prop} {h'' hm h : Heap} (hA : Region A h) (hag : ∀ r, A r → hm[r]? = h[r]?)
    {a b : Ref} (s : SEq h'' hm a b) (hb : A b) : SEq h'' h a b := by
  induction s with
  | @mk a b n1 n2 h1 h2 hsk _ ih =>
    have hn : h[b]? = some n2 := by rw [← hag b hb]; exact h2
    exact SEq.mk h1 hn hsk (fun i c1 c2 e1 e2 =>
      ih i c1 c2 e1 e2 (hA.closed b n2 hb hn c2 (List.mem_of_getElem? e2)))

theorem WF.agree {A : Ref → Prop} {h hm : Heap} (hA : Region A h) (hag : ∀ r, A r → hm[r]? = h[r]?)
    {d : Ref} (w : WF h d) (hd : A d) : WF hm d := by
  induction w with
  | @mk r n hn hch ih =>
    exact WF.mk (by rw [hag r hd]; exact hn) (fun c hc => ih c hc (hA.closed r n hd hn c hc))

/-! ## replacing an existing slot -/

theorem dictSet_refs {es : List (DKey × Ref)} {k : DKey} {child c : Ref} (hg : dictGet es k = some child) :
    ∃ j : Nat, (es.map (·.2))[j]? = some child ∧ ((dictSet es k c).map (·.2))[j]? = some c ∧
      ∀ i : Nat, i ≠ j → ((dictSet es k c).map (·.2))[i]? = (es.map (·.2))[i]? := by
  induction es with
  | nil => simp [dictGet] at hg
  | cons e es ih =>
    obtain ⟨k0, v0⟩ := e
    by_cases hk : k0.norm = k.norm
    · simp [dictGet, hk] at hg
      subst hg
      refine ⟨0, by simp, by simp [dictSet, hk], ?_⟩
      intro i hi
      cases i with
      | zero => exact absurd rfl hi
      | succ i => simp [dictSet, hk]
    · simp [dictGet, hk] at hg
      obtain ⟨j, h1, h2, h3⟩ := ih hg
      refine ⟨j + 1, by simpa using h1, by simpa [dictSet, hk] using h2, ?_⟩
      intro i hi
      cases i with
      | zero => simp [dictSet, hk]
      | succ i =>
        have := h3 i (by omega)
        simpa [dictSet, hk] using this

/-- Putting `c` into an **existing** slot of `n` keeps the skeleton and changes exactly one reference. -/
theorem Node.slotPut_existing {n n' : Node} {k : PKey} {child c : Ref} (hg : n.slotGet k = .ok child)
    (hp : n.slotPut k c = some n') :
    n'.skel = n.skel ∧ ∃ j : Nat, n.refs[j]? = some child ∧ n'.refs[j]? = some c ∧
      ∀ i : Nat, i ≠ j → n'.refs[i]? = n.refs[i]? := by
  cases n with
  | dict es =>
    simp only [Node.slotGet] at hg
    split at hg
    · rename_i c0 hd
      cases hg
      simp [Node.slotPut] at hp
      subst hp
      have hd' : dictGet es k.stored = some child := by rw [← dictGet_norm, PKey.stored_norm]; exact hd
      refine ⟨?_, dictSet_refs hd'⟩
      have := dictSet_keys_of_mem es (v' := c) hd'
      simp only [Node.skel, Node.dict.injEq]
      have h2 : ∀ l : List (DKey × Ref), l.map (fun e => (e.1, 0)) = (l.map (·.1)).map (fun k => (k, 0)) := by
        intro l; simp
      rw [h2, h2, this]
    · cases hg
  | list rs =>
    simp only [Node.slotGet, seqGet] at hg
    simp only [Node.slotPut, Option.map_eq_some_iff] at hp
    obtain ⟨rs', hp, rfl⟩ := hp
    cases hi : k.asInt with
    | none => simp [hi] at hg
    | some i =>
      simp only [hi] at hg
      cases hr : resolveIdx rs.length i with
      | none => simp [hr] at hg
      | some j =>
        simp only [hr, Option.bind_some] at hg
        have hlt := resolveIdx_lt hr
        have hne : i ≠ (rs.length : Int) := by
          intro e; rw [e, resolveIdx_len_none] at hr; cases hr
        simp [seqPut, hi, hne, hr] at hp
        subst hp
        cases hgj : rs[j]? with
        | none => simp [hgj] at hg
        | some c0 =>
          simp [hgj] at hg
          subst hg
          refine ⟨by simp [Node.skel], j, hgj, by simp [Node.refs, hlt], ?_⟩
          intro i' hi'
          simp [Node.refs, List.getElem?_set_ne (Ne.symm hi')]
  | tuple rs =>
    simp only [Node.slotGet, seqGet] at hg
    simp only [Node.slotPut, Option.map_eq_some_iff] at hp
    obtain ⟨rs', hp, rfl⟩ := hp
    cases hi : k.asInt with
    | none => simp [hi] at hg
    | some i =>
      simp only [hi] at hg
      cases hr : resolveIdx rs.length i with
      | none => simp [hr] at hg
      | some j =>
        simp only [hr, Option.bind_some] at hg
        have hlt := resolveIdx_lt hr
        have hne : i ≠ (rs.length : Int) := by
          intro e; rw [e, resolveIdx_len_none] at hr; cases hr
        simp [seqPut, hi, hne, hr] at hp
        subst hp
        cases hgj : rs[j]? with
        | none => simp [hgj] at hg
        | some c0 =>
          simp [hgj] at hg
          subst hg
          refine ⟨by simp [Node.skel], j, hgj, by simp [Node.refs, hlt], ?_⟩
          intro i' hi'
          simp [Node.refs, List.getElem?_set_ne (Ne.symm hi')]
  | leaf v => simp [Node.slotGet] at hg
  | null => simp [Node.slotGet] at hg
  | nd _ _ _ => simp [Node.slotGet] at hg
  | buf _ => simp [Node.slotGet] at hg

/-- **Setting a path to its current value gives a structurally equal tree** (strengthened for the
induction: seen through any heap that agrees with the result on the new cells and with the old heap on a
region `A` containing the old tree). -/
theorem setPath_set_same (strict : Bool) : ∀ (p : Path) (h : Heap) (t cur : Ref) (h' : Heap) (t' : Ref)
    (A : Ref → Prop), PlainSelf p → Region A h → A t → WF h t → get h t p = .ok cur →
    setPath strict false h t p cur = (h', .ok t') →
    ∀ h'' : Heap, (∀ r, A r → h''[r]? = h[r]?) → (∀ r, h.size ≤ r → r < h'.size → h''[r]? = h'[r]?) →
    SEq h'' h t' t := by
  intro p
  induction p with
  | nil =>
    intro h t cur h' t' A _ hA hAt w hg hs h'' hagA _
    simp at hg; subst hg
    simp [setPath] at hs; obtain ⟨_, rfl⟩ := hs
    exact SEq.of_WF_agree hA hagA w hAt
  | cons k rest ih =>
    intro h t cur h' t' A hp hA hAt w hg hs h'' hagA hagF
    by_cases hself : k = .self
    · subst hself
      simp at hg; subst hg
      simp [setPath] at hs; obtain ⟨_, rfl⟩ := hs
      exact SEq.of_WF_agree hA hagA w hAt
    have hk : k.isPlain = true ∧ PlainSelf rest := by
      cases k <;> simp_all [PlainSelf]
    have hk1 := PKey.isPlain_ne_self hk.1
    have hk2 := PKey.isPlain_ne_skip hk.1
    cases w with
    | @mk _ n hn hch =>
      rw [get_cons _ (Or.inl hk.1), index_of_get hn] at hg
      cases hsl : n.slotGet k with
      | error e => rw [hsl] at hg; cases hg
      | ok child =>
        rw [hsl] at hg
        simp only at hg
        have hnull : n ≠ .null := by intro e; subst e; simp [Node.slotGet] at hsl
        obtain ⟨hm, child', hc, c, n', hext, hlt, hslot, hrec, hput, hcell, htq, hmc, hch', hsame⟩ :=
          setPath_step hk1 hk2 hn hnull (Node.slotGet_not_nd hsl) hs
        have hchild : child' = child := by
          rcases hslot with h1 | ⟨h1, _, _⟩
          · rw [hsl] at h1; cases h1; rfl
          · exact absurd hsl (h1 child)
        subst hchild
        have hmem := Node.slotGet_mem hsl
        have hwc : WF h child' := hch child' hmem
        have hAc : A child' := hA.closed t n hAt hn child' hmem
        have hagm : ∀ r, A r → hm[r]? = h[r]? := fun r hr => hext.2 r (hA.lt r hr)
        have hAm : Region A hm :=
          ⟨fun r hr => Nat.lt_of_lt_of_le (hA.lt r hr) hext.1,
           fun r n' hr hn' => by rw [hagm r hr] at hn'; exact hA.closed r n' hr hn'⟩
        have hgm : get hm child' rest = .ok cur := by
          rw [get_agree hA hagm rest hAc]; exact hg
        have hagA' : ∀ r, A r → h''[r]? = hm[r]? := fun r hr => by rw [hagA r hr, hagm r hr]
        have hagF' : ∀ r, hm.size ≤ r → r < hc.size → h''[r]? = hc[r]? := by
          intro r hr1 hr2
          rw [hagF r (by omega) (by omega), hsame r hr2 (by omega)]
        have hrecS : SEq h'' hm c child' :=
          ih hm child' cur hc c A hk.2 hAm hAc (hwc.agree hA hagm hAc) hgm hrec h'' hagA' hagF'
        have hrecS' : SEq h'' h c child' := hrecS.right_agree hA hagm hAc
        have ht' : t' < h'.size := lt_size_of_get hcell
        have hcell'' : h''[t']? = some n' := by
          have : h.size ≤ t' := by rcases htq with e | e <;> rw [e] <;> omega
          rw [hagF t' this ht']; exact hcell
        obtain ⟨hsk, j, hj1, hj2, hj3⟩ := Node.slotPut_existing hsl hput
        refine SEq.mk hcell'' hn hsk ?_
        intro i c1 c2 e1 e2
        by_cases hij : i = j
        · subst hij
          rw [hj2] at e1; rw [hj1] at e2
          cases e1; cases e2
          exact hrecS'
        · rw [hj3 i hij] at e1
          rw [e1] at e2; cases e2
          have hm1 := List.mem_of_getElem? e1
          exact SEq.of_WF_agree hA hagA (hch c1 hm1) (hA.closed t n hAt hn c1 hm1)

end MlModel.Tree
