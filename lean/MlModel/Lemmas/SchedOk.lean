import MlModel.Lemmas.SchedITInv
/-!
# The fault-free environment: `iterate` delivers every output batch exactly once (C16)
-/
namespace MlModel.Sched

/-- all output batches of shard `sh` -/
def allB (c : ICfg) (sh : Nat) : List (Nat × Nat) := (List.range' 0 (c.nb sh)).map fun b => (sh, b)

/-- the batches an attempt has received (and put on `output_queue`) so far -/
def prefixB (c : ICfg) (r : RunI) : List (Nat × Nat) :=
  match r.co with
  | .awaitNext _ pos => (List.range' 0 pos).map fun b => (r.shard, b)
  | .putDone | .finished => allB c r.shard
  | _ => []

/-- no failure has touched the attempt -/
def CoSt.clean : CoSt → Prop
  | .awaitInit f => f = .ok
  | .awaitNext f _ => f = .ok
  | .raisedTimeout | .raisedErr => False
  | _ => True

structure OkInv (c : ICfg) (s : IT) : Prop where
  alive : ∀ x ∈ s.ws, x.alive = true
  wk : ∀ r ∈ s.running, r.worker < s.ws.length
  clean : ∀ r ∈ s.running, r.co.clean
  quiet : s.zombies = [] ∧ s.timeoutCnt = 0 ∧ s.failed = []
  done : s.outcome ≠ none → s.outQ = [] ∧ s.running = []
  bat : (s.yieldedB ++ s.outQ).Perm (s.finished.flatMap (allB c) ++ s.running.flatMap (prefixB c))

theorem okInv_init (c : ICfg) (nw : Nat) : OkInv c (IT.init nw c.n) := by
  refine ⟨?_, ?_, ?_, ?_, ?_, ?_⟩ <;> simp [IT.init]

theorem set_alive {ws : List Worker} {w : Nat} {y : Worker} (hws : ∀ z ∈ ws, z.alive = true)
    (hy : y.alive = true) : ∀ z ∈ ws.set w y, z.alive = true := by
  intro z hz
  rcases List.mem_or_eq_of_mem_set hz with hz | rfl
  · exact hws z hz
  · exact hy

/-- in the fault-free environment a call on a live worker is answered and the worker stays alive -/
theorem issue_ok {env : Env} (hok : ∀ w i, env w i = .ok) {ws : List Worker} {w : Nat}
    (hws : ∀ z ∈ ws, z.alive = true) (hw : w < ws.length) :
    (issue env ws w).1 = .ok ∧ (∀ z ∈ (issue env ws w).2, z.alive = true) ∧
      (issue env ws w).2.length = ws.length := by
  unfold issue
  have hx : ws[w]? = some ws[w] := List.getElem?_eq_getElem hw
  have ha := hws ws[w] (List.getElem_mem hw)
  simp only [hx]
  have hi : ws[w].issue (env w) = (.ok, { ws[w] with calls := ws[w].calls + 1 }) := by
    unfold Worker.issue
    simp [ha, hok]
  rw [hi]
  exact ⟨rfl, set_alive hws ha, by simp⟩

theorem aliveAt_of {ws : List Worker} {w : Nat} (hws : ∀ z ∈ ws, z.alive = true) (hw : w < ws.length) :
    aliveAt ws w = true := by
  unfold aliveAt
  rw [List.getElem?_eq_getElem hw]
  exact hws _ (List.getElem_mem hw)

theorem lt_of_aliveAt {ws : List Worker} {w : Nat} (h : aliveAt ws w = true) : w < ws.length := by
  unfold aliveAt at h
  cases hx : ws[w]? with
  | none => simp [hx] at h
  | some x =>
    cases Nat.lt_or_ge w ws.length with
    | inl hlt => exact hlt
    | inr hge => rw [List.getElem?_eq_none hge] at hx; cases hx

theorem crashW_none_of_ok {env : Env} (hok : ∀ w i, env w i = .ok) (ws : List Worker) (w : Nat) :
    crashW env ws w = none := by
  unfold crashW
  cases ws[w]? with
  | none => rfl
  | some x => simp only [hok]; split <;> rfl

theorem rejoinW_none_of_alive {ws : List Worker} (hws : ∀ z ∈ ws, z.alive = true) (w : Nat) :
    rejoinW ws w = none := by
  unfold rejoinW
  cases hx : ws[w]? with
  | none => rfl
  | some x => simp [hws x (List.mem_of_getElem? hx)]

theorem set_perm_flatMap {α β : Type} (f : α → List β) {l : List α} {i : Nat} {a b : α}
    (h : l[i]? = some a) :
    (l.flatMap f).Perm (f a ++ (l.eraseIdx i).flatMap f) ∧
      ((l.set i b).flatMap f).Perm (f b ++ (l.eraseIdx i).flatMap f) := by
  have hlt : i < l.length := by
    cases Nat.lt_or_ge i l.length with
    | inl hlt => exact hlt
    | inr hge => rw [List.getElem?_eq_none hge] at h; cases h
  have h2 : (l.set i b)[i]? = some b := by simp [hlt]
  have e : (l.set i b).eraseIdx i = l.eraseIdx i := by
    clear h h2
    induction l generalizing i with
    | nil => simp
    | cons x l ih =>
      cases i with
      | zero => simp
      | succ i => simp at hlt; simp [ih hlt]
  refine ⟨?_, ?_⟩
  · simpa using (perm_cons_eraseIdx h).flatMap_right f
  · have := (perm_cons_eraseIdx h2).flatMap_right f
    rw [e] at this
    simpa using this

theorem range'_split (pos k : Nat) : List.range' 0 (pos + k) = List.range' 0 pos ++ List.range' pos k := by
  have := @List.range'_append_1 0 pos k
  simpa using this.symm

theorem bat_co {β : Type} [BEq β] [LawfulBEq β] {Y O F RP RP' Pr bs E : List β}
    (hb : (Y ++ O).Perm (F ++ RP)) (h1 : RP.Perm (Pr ++ E)) (h2 : RP'.Perm (Pr ++ bs ++ E)) :
    (Y ++ (O ++ bs)).Perm (F ++ RP') := by
  rw [List.perm_iff_count] at *
  intro a
  have := hb a; have := h1 a; have := h2 a
  simp only [List.count_append] at *
  omega

theorem okInv_step {c : ICfg} (hok : ∀ w i, c.env w i = .ok) {s s' : IT} (h : OkInv c s)
    (hs : IStep c s s') : OkInv c s' := by
  obtain ⟨hz, ht, hf⟩ := h.quiet
  have hnb : s.broken c = false := by simp [IT.broken, hf, ht]
  have hsubC : ∀ i, ∀ r ∈ s.running.eraseIdx i, r.co.clean := fun i r hr => h.clean r (List.mem_of_mem_eraseIdx hr)
  have hsubW : ∀ i, ∀ r ∈ s.running.eraseIdx i, r.worker < s.ws.length :=
    fun i r hr => h.wk r (List.mem_of_mem_eraseIdx hr)
  cases hs with
  | submitNone w ho hb hd =>
    obtain ⟨_, _, _, h4, h5, h6, h7, h8, _, _, _, h12, h13, h14, h15⟩ := it_draw_facts s
    exact ⟨by rw [h14]; exact h.alive, by rw [h5, h14]; exact h.wk, by rw [h5]; exact h.clean,
      by rw [h15, h7, h6]; exact h.quiet, by rw [h4, h13, h5]; exact h.done,
      by rw [h12, h13, h8, h5]; exact h.bat⟩
  | submitSome w t rest ho hb halive hfree hd =>
    obtain ⟨_, _, _, h4, h5, h6, h7, h8, _, _, _, h12, h13, h14, h15⟩ := it_draw_facts s
    refine ⟨by simp only [h14]; exact h.alive, ?_, ?_, by simp only [h15, h7, h6]; exact h.quiet,
      by simp [h4, ho], ?_⟩
    · intro r hr
      simp only [List.mem_append, List.mem_singleton] at hr
      simp only [h14]
      rcases hr with hr | rfl
      · exact h.wk r hr
      · exact lt_of_aliveAt halive
    · intro r hr
      simp only [List.mem_append, List.mem_singleton] at hr
      rcases hr with hr | rfl
      · exact h.clean r hr
      · simp [CoSt.clean]
    · simp only [h12, h13, h8, List.flatMap_append]
      simpa [prefixB] using h.bat
  | co i k m r o hr hco =>
    have hrm := List.mem_of_getElem? hr
    have hrw := h.wk r hrm
    have hrc := h.clean r hrm
    have hi := issue_ok hok h.alive hrw
    have hrun : s.running ≠ [] := by intro he; simp [he] at hr
    have hout : s.outcome = none := by
      cases ho : s.outcome with
      | none => rfl
      | some o' => exact absurd (h.done (by simp [ho])).2 hrun
    obtain ⟨hp1, hp2⟩ := set_perm_flatMap (prefixB c) (b := o.r) hr
    have hmem : ∀ r' ∈ s.running.set i o.r, r' ∈ s.running ∨ r' = o.r :=
      fun r' hr' => List.mem_or_eq_of_mem_set hr'
    have hrel := coStep_sound hco
    have build : (∀ z ∈ o.ws, z.alive = true) → o.ws.length = s.ws.length → o.r.worker = r.worker →
        o.r.co.clean → prefixB c o.r = prefixB c r ++ o.batches → OkInv c
          { s with ws := o.ws, running := s.running.set i o.r, outQ := s.outQ ++ o.batches,
                   statesQ := putStates s.statesQ o.put } := by
      intro ha hl hw hc hp
      refine ⟨ha, ?_, ?_, h.quiet, by simp [hout], ?_⟩
      · intro r' hr'
        simp only [hl]
        rcases hmem r' hr' with hr' | rfl
        · exact h.wk r' hr'
        · rw [hw]; exact hrw
      · intro r' hr'
        rcases hmem r' hr' with hr' | rfl
        · exact h.clean r' hr'
        · exact hc
      · exact bat_co h.bat hp1 (by rw [hp] at hp2; exact hp2)
    cases hrel with
    | start h' => exact build hi.2.1 hi.2.2 rfl (by simp [CoSt.clean, hi.1]) (by simp [prefixB, h'])
    | initOk h' => exact build hi.2.1 hi.2.2 rfl (by simp [CoSt.clean, hi.1]) (by simp [prefixB, h'])
    | raiseT h' =>
      rcases h' with h' | ⟨pos, h'⟩ <;> simp [CoSt.clean, h'] at hrc
    | raiseE h' =>
      rcases h' with h' | ⟨pos, h'⟩ <;> simp [CoSt.clean, h'] at hrc
    | batches pos k h' hk =>
      refine build hi.2.1 hi.2.2 rfl (by simp [CoSt.clean, hi.1]) ?_
      simp only [prefixB, h']
      rw [← List.map_append, range'_split]
    | marker pos k h' hk =>
      refine build h.alive rfl rfl (by simp [CoSt.clean]) ?_
      simp only [prefixB, h', allB]
      rw [← List.map_append, ← hk, range'_split]
    | fin h' => exact build h.alive rfl rfl (by simp [CoSt.clean]) (by simp [prefixB, h'])
  | zco i k m r o hr hco => simp [hz] at hr
  | drain b q ho hq =>
    refine ⟨h.alive, h.wk, h.clean, h.quiet, by simp [ho], ?_⟩
    have := h.bat
    simpa [hq] using this
  | checkFinished i r ho hr hco =>
    obtain ⟨hp1, _⟩ := set_perm_flatMap (prefixB c) (b := r) hr
    refine ⟨h.alive, hsubW i, hsubC i, h.quiet, by simp [ho], ?_⟩
    have hb := h.bat
    have hpr : prefixB c r = allB c r.shard := by simp [prefixB, hco]
    rw [hpr] at hp1
    simp only [List.flatMap_append, List.flatMap_cons, List.flatMap_nil, List.append_nil]
    rw [List.perm_iff_count] at *
    intro a
    have := hb a; have := hp1 a
    simp only [List.count_append] at *
    omega
  | checkTimeout i r ho hr hco => have := h.clean r (List.mem_of_getElem? hr); simp [CoSt.clean, hco] at this
  | checkErr i r ho hr hco => have := h.clean r (List.mem_of_getElem? hr); simp [CoSt.clean, hco] at this
  | checkDead i r ho hr hco hdead =>
    have := aliveAt_of h.alive (h.wk r (List.mem_of_getElem? hr))
    rw [this] at hdead; cases hdead
  | finish ho hc =>
    have hlo : s.loopOver = true := by simpa [hnb] using hc
    have hrun : s.running = [] := by simp [IT.loopOver] at hlo; exact hlo.2
    refine ⟨h.alive, h.wk, h.clean, h.quiet, fun _ => ⟨rfl, hrun⟩, ?_⟩
    simpa using h.bat
  | merge sh q hres hq => exact ⟨h.alive, h.wk, h.clean, h.quiet, h.done, h.bat⟩
  | mergeStop q hres hq => exact ⟨h.alive, h.wk, h.clean, h.quiet, h.done, h.bat⟩
  | env ws' hw =>
    rcases hw with ⟨w, hw⟩ | ⟨w, hw, _⟩
    · rw [crashW_none_of_ok hok] at hw; cases hw
    · rw [rejoinW_none_of_alive h.alive] at hw; cases hw

end MlModel.Sched
