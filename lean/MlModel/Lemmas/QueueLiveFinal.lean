import MlModel.Lemmas.QueueLiveProgs
import MlModel.Lemmas.QueueProd
/-!
# Liveness of the IteratorQueue LTS — what a fault-free run computes, one step at a time

Fault-free: no `Item.fail` in any source, no stopper, no timeout.  Then no exception is ever
recorded (`clean`), every producer puts *all* its source values and stops with its own return
value, and a consumer's end-of-stream exception is `StopIteration(*returned)`.
-/
namespace MlModel.Queue
set_option linter.unusedSimpArgs false

def noFail (l : List Item) : Bool := l.all (fun i => i != .fail)

def Prog.noFail : Prog → Bool
  | .producer src _ => Queue.noFail src
  | _ => true

/-- the return value of a producer's source iterator -/
def progRet : Prog → List Nat
  | .producer _ r => [r]
  | _ => []

/-- `final` as a function of the two fields it reads (kept folded in the step proofs) -/
def finalOf (exc : Option ErrKind) (returned : List Nat) : Raise :=
  match exc with
  | some e => .err e
  | none => .stop returned

theorem final_eq (s : Shared) : s.final = finalOf s.exc s.returned := rfl

/-- thread-local facts of a fault-free run -/
def CT (t : Thread) : Prop :=
  noFail t.src = true ∧ t.prog.noFail = true ∧ t.prog.kind ≠ .stopper ∧ t.pc ≠ .pRaiseT ∧
  (stopped t = true → t.rets = progRet t.prog) ∧ (stopped t = true → t.src = []) ∧
  ((t.pc = .done ∨ t.pc = .bRaise) → t.result = []) ∧
  t.reraise = none ∧ (t.pc = .done → isProd t = true → t.outcome = none)

def CleanStep (s : Shared) (t : Thread) (tid : Tid) (alt : Bool) : Prop :=
  ∀ lbl s' t', stepThread s t tid alt = some (lbl, s', t') → TOK t → TL t →
    s.exc = none → s.stopRequested = false → s.timeout = false →
    ((match t.pc with | .nRelErr _ => true | _ => false) = true → t.x.isErr = true → s.exc.isSome = true) →
    CT t → s'.exc = none ∧ s'.stopRequested = false ∧ CT t'

set_option hygiene false in
macro "clean_group" : tactic => `(tactic| (
  intro lbl s' t' h htok htl he hsr hto hx3 hct
  unfold TL at htl
  have hk := htok.kind; have hr := htok.res
  obtain ⟨c1, c2, c3, c4, c5, c7, c6, c8, c9⟩ := hct
  clear htok
  unfold CT
  unfold stepThread at h
  cases hpc : t.pc <;> (try (simp only [hpc, Pc.group] at hg; omega)) <;>
    simp only [hpc] at h hk hx3 c4 c6 c9 htl <;>
    (try simp only [Bool.false_eq_true, false_imp_iff] at hx3) <;>
    (try simp only [acquire, release, notify, waitPark, waitWake, goto, enqLoop, putLoop, batchLoop,
      afterRaise, afterValue] at h) <;>
    (repeat' split at h) <;>
    (try simp only [Option.some.injEq, Prod.mk.injEq, reduceCtorEq] at h) <;>
    (try (obtain ⟨-, rfl, rfl⟩ := h)) <;>
    (try (have hen : t.pc = Pc.eNext := hpc; clear hen; cases hprog : t.prog)) <;>
    simp_all [Shared.setOwner, Shared.owner, pcKind, Prog.kind, noFail, Prog.noFail, progRet, stopped, isProd] <;>
    (try (refine ⟨?_, ?_⟩ <;> assumption))))

theorem clean_g0 {s t tid alt} (hg : t.pc.group = 0) : CleanStep s t tid alt := by clean_group
theorem clean_g1 {s t tid alt} (hg : t.pc.group = 1) : CleanStep s t tid alt := by clean_group
theorem clean_g2 {s t tid alt} (hg : t.pc.group = 2) : CleanStep s t tid alt := by clean_group
theorem clean_g3 {s t tid alt} (hg : t.pc.group = 3) : CleanStep s t tid alt := by clean_group
theorem clean_g4 {s t tid alt} (hg : t.pc.group = 4) : CleanStep s t tid alt := by clean_group
theorem clean_g5 {s t tid alt} (hg : t.pc.group = 5) : CleanStep s t tid alt := by clean_group
theorem clean_g6 {s t tid alt} (hg : t.pc.group = 6) : CleanStep s t tid alt := by clean_group
theorem clean_g7 {s t tid alt} (hg : t.pc.group = 7) : CleanStep s t tid alt := by clean_group

theorem stepThread_clean {s t tid alt} : CleanStep s t tid alt := by
  have h := Pc.group_lt t.pc
  match hg : t.pc.group with
  | 0 => exact clean_g0 hg | 1 => exact clean_g1 hg | 2 => exact clean_g2 hg | 3 => exact clean_g3 hg
  | 4 => exact clean_g4 hg | 5 => exact clean_g5 hg | 6 => exact clean_g6 hg | 7 => exact clean_g7 hg
  | n + 8 => omega

/-! ## shared state of a fault-free run -/

/-- what a producer has contributed to `returned` -/
def retOf (t : Thread) : List Nat := if pastT t = true then t.rets else []

/-- a consumer that has armed its final exception -/
def armedX (t : Thread) : Bool :=
  match t.pc with
  | .nRelErr _ => t.x != .empty
  | .gRaise | .bRaise => true
  | _ => false

def ShStep (s : Shared) (t : Thread) (tid : Tid) (alt : Bool) : Prop :=
  ∀ lbl s' t', stepThread s t tid alt = some (lbl, s', t') → TOK t → TL t →
    s.exc = none → s.timeout = false → CT t →
    (armedX t = true → t.x = s.final) → s.lost = [] → (s.exhausted = true → s.q = []) →
    s'.returned = s.returned ++ (if t.pc = .tAcq then t.rets else []) ∧
    retOf t' = (if t.pc = .tAcq then t.rets else retOf t) ∧
    (armedX t' = true → t'.x = s'.final) ∧
    (t'.pc = .done → isCons t' = true → t'.outcome = some s'.final) ∧
    s'.lost = [] ∧
    ((s'.exhausted = true → s'.q = []) ∨ t.pc = .pPut)

set_option hygiene false in
macro "sh_group" : tactic => `(tactic| (
  intro lbl s' t' h htok htl he hto hct hax hlost hqe
  unfold TL at htl
  have hk := htok.kind; have hr := htok.res
  obtain ⟨c1, c2, c3, c4, c5, c7, c6, c8, c9⟩ := hct
  clear htok c1 c2 c5 c7 c8 c9
  unfold stepThread at h
  cases hpc : t.pc <;> (try (simp only [hpc, Pc.group] at hg; omega)) <;>
    simp only [hpc] at h hk c4 c6 htl <;>
    (try simp only [acquire, release, notify, waitPark, waitWake, goto, enqLoop, putLoop, batchLoop,
      afterRaise, afterValue] at h) <;>
    (repeat' split at h) <;>
    (try simp only [Option.some.injEq, Prod.mk.injEq, reduceCtorEq] at h) <;>
    (try (obtain ⟨-, rfl, rfl⟩ := h)) <;>
    simp_all [Shared.setOwner, Shared.owner, pcKind, Prog.kind, retOf, pastT, isProd, isCons, armedX, final_eq,
      stopped]))

theorem sh_g0 {s t tid alt} (hg : t.pc.group = 0) : ShStep s t tid alt := by sh_group
theorem sh_g1 {s t tid alt} (hg : t.pc.group = 1) : ShStep s t tid alt := by sh_group
theorem sh_g2 {s t tid alt} (hg : t.pc.group = 2) : ShStep s t tid alt := by sh_group
theorem sh_g3 {s t tid alt} (hg : t.pc.group = 3) : ShStep s t tid alt := by sh_group
theorem sh_g4 {s t tid alt} (hg : t.pc.group = 4) : ShStep s t tid alt := by sh_group
theorem sh_g5 {s t tid alt} (hg : t.pc.group = 5) : ShStep s t tid alt := by sh_group
theorem sh_g6 {s t tid alt} (hg : t.pc.group = 6) : ShStep s t tid alt := by sh_group
theorem sh_g7 {s t tid alt} (hg : t.pc.group = 7) : ShStep s t tid alt := by sh_group

theorem stepThread_sh {s t tid alt} : ShStep s t tid alt := by
  have h := Pc.group_lt t.pc
  match hg : t.pc.group with
  | 0 => exact sh_g0 hg | 1 => exact sh_g1 hg | 2 => exact sh_g2 hg | 3 => exact sh_g3 hg
  | 4 => exact sh_g4 hg | 5 => exact sh_g5 hg | 6 => exact sh_g6 hg | 7 => exact sh_g7 hg
  | n + 8 => omega

/-- in a fault-free run a producer never drops a value: what it puts plus what it still has to
put stays equal -/
def ProdEqStep (s : Shared) (t : Thread) (tid : Tid) (alt : Bool) : Prop :=
  ∀ lbl s' t', stepThread s t tid alt = some (lbl, s', t') → TOK t → s.timeout = false →
    (pendPc t.pc = true → s.enqueueDone = false) →
    (newOf s t).map (·.2) ++ todoV t' = todoV t

set_option hygiene false in
macro "prodeq_group" : tactic => `(tactic| (
  intro lbl s' t' h htok hto hnd
  have hk := htok.kind
  clear htok
  unfold stepThread at h
  cases hpc : t.pc <;> (try (simp only [hpc, Pc.group] at hg; omega)) <;>
    simp only [hpc] at h hnd hk <;>
    (try simp only [acquire, release, notify, waitPark, waitWake, goto, enqLoop, putLoop, batchLoop,
      afterRaise, afterValue] at h) <;>
    (repeat' split at h) <;>
    (try simp only [Option.some.injEq, Prod.mk.injEq, reduceCtorEq] at h) <;>
    (try (obtain ⟨-, rfl, rfl⟩ := h)) <;>
    (try (cases hprog : t.prog)) <;>
    simp_all [pendPc, newOf, todoV, vals, hpc, pcKind, Prog.kind, enqueueDone_eq, Shared.setOwner]))

theorem prodeq_g0 {s t tid alt} (hg : t.pc.group = 0) : ProdEqStep s t tid alt := by prodeq_group
theorem prodeq_g1 {s t tid alt} (hg : t.pc.group = 1) : ProdEqStep s t tid alt := by prodeq_group
theorem prodeq_g2 {s t tid alt} (hg : t.pc.group = 2) : ProdEqStep s t tid alt := by prodeq_group
theorem prodeq_g3 {s t tid alt} (hg : t.pc.group = 3) : ProdEqStep s t tid alt := by prodeq_group
theorem prodeq_g4 {s t tid alt} (hg : t.pc.group = 4) : ProdEqStep s t tid alt := by prodeq_group
theorem prodeq_g5 {s t tid alt} (hg : t.pc.group = 5) : ProdEqStep s t tid alt := by prodeq_group
theorem prodeq_g6 {s t tid alt} (hg : t.pc.group = 6) : ProdEqStep s t tid alt := by prodeq_group
theorem prodeq_g7 {s t tid alt} (hg : t.pc.group = 7) : ProdEqStep s t tid alt := by prodeq_group

theorem stepThread_prodeq {s t tid alt} : ProdEqStep s t tid alt := by
  have h := Pc.group_lt t.pc
  match hg : t.pc.group with
  | 0 => exact prodeq_g0 hg | 1 => exact prodeq_g1 hg | 2 => exact prodeq_g2 hg | 3 => exact prodeq_g3 hg
  | 4 => exact prodeq_g4 hg | 5 => exact prodeq_g5 hg | 6 => exact prodeq_g6 hg | 7 => exact prodeq_g7 hg
  | n + 8 => omega

end MlModel.Queue
