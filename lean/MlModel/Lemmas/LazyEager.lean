import MlModel.Lemmas.LazyLib
/-! Facts about the eager reference evaluator. -/
namespace MlModel.Lazy
set_option linter.unusedSimpArgs false
set_option linter.unusedVariables false

mutual
theorem eager_leafAll (p : Val → Bool) : ∀ (e : Expr) (w w' : World) (r : RVal),
    e.leafAll p = true → eager e w = (.ok r, w') → r.1.leafAll p = true
  | .const v, w, w', r, hp, h => by
    simp only [eager] at h; injection h with h1 _; injection h1 with h1; subst h1; simpa [Expr.leafAll] using hp
  | .traced v l, w, w', r, hp, h => by
    simp only [eager] at h; injection h with h1 _; injection h1 with h1; subst h1; simpa [Expr.leafAll] using hp
  | .call f as ks c l, w, w', r, hp, h => by
    simp only [Expr.leafAll, Bool.and_eq_true] at hp
    obtain ⟨⟨hf, has⟩, hks⟩ := hp
    simp only [eager] at h
    cases h1 : eager f w with
    | mk r1 w1 =>
      cases r1 with
      | error e => simp [h1] at h
      | ok fv =>
        simp only [h1] at h
        cases hfv : fv.1 with
        | fn name =>
          simp only [hfv] at h
          cases h2 : eagerArgs as w1 with
          | mk r2 w2 =>
            cases r2 with
            | error e => simp [h2] at h
            | ok avs =>
              simp only [h2] at h
              cases h3 : eagerKw ks w2 with
              | mk r3 w3 =>
                cases r3 with
                | error e => simp [h3] at h
                | ok kvs =>
                  simp only [h3] at h
                  exact applyLib_leafAll p (eagerArgs_leafAll p as w1 w2 avs has h2)
                    (eagerKw_leafAll p ks w2 w3 kvs hks h3) h
        | int _ => simp [hfv] at h
        | str _ => simp [hfv] at h
        | none => simp [hfv] at h
        | tup _ => simp [hfv] at h
        | record _ => simp [hfv] at h
        | handle _ => simp [hfv] at h
theorem eagerArgs_leafAll (p : Val → Bool) : ∀ (as : List Expr) (w w' : World) (rs : List RVal),
    Expr.leafAllL p as = true → eagerArgs as w = (.ok rs, w') → ∀ a ∈ rs, a.1.leafAll p = true
  | [], w, w', rs, hp, h => by
    simp only [eagerArgs] at h; injection h with h1 _; injection h1 with h1; subst h1; simp
  | a :: as, w, w', rs, hp, h => by
    simp only [Expr.leafAllL, Bool.and_eq_true] at hp
    simp only [eagerArgs] at h
    cases h1 : eager a w with
    | mk r1 w1 =>
      cases r1 with
      | error e => simp [h1] at h
      | ok v =>
        simp only [h1] at h
        cases h2 : eagerArgs as w1 with
        | mk r2 w2 =>
          cases r2 with
          | error e => simp [h2] at h
          | ok vs =>
            simp only [h2] at h
            injection h with h _; injection h with h; subst h
            intro x hx
            rcases List.mem_cons.mp hx with e | e
            · rw [e]; exact eager_leafAll p a w w1 v hp.1 h1
            · exact eagerArgs_leafAll p as w1 w2 vs hp.2 h2 x e
theorem eagerKw_leafAll (p : Val → Bool) : ∀ (ks : List (String × Expr)) (w w' : World)
    (rs : List (String × RVal)),
    Expr.leafAllK p ks = true → eagerKw ks w = (.ok rs, w') → ∀ q ∈ rs, q.2.1.leafAll p = true
  | [], w, w', rs, hp, h => by
    simp only [eagerKw] at h; injection h with h1 _; injection h1 with h1; subst h1; simp
  | (k, a) :: ks, w, w', rs, hp, h => by
    simp only [Expr.leafAllK, Bool.and_eq_true] at hp
    simp only [eagerKw] at h
    cases h1 : eager a w with
    | mk r1 w1 =>
      cases r1 with
      | error e => simp [h1] at h
      | ok v =>
        simp only [h1] at h
        cases h2 : eagerKw ks w1 with
        | mk r2 w2 =>
          cases r2 with
          | error e => simp [h2] at h
          | ok vs =>
            simp only [h2] at h
            injection h with h _; injection h with h; subst h
            intro x hx
            rcases List.mem_cons.mp hx with e | e
            · rw [e]; exact eager_leafAll p a w w1 v hp.1 h1
            · exact eagerKw_leafAll p ks w1 w2 vs hp.2 h2 x e
end

end MlModel.Lazy

namespace MlModel.Lazy
set_option linter.unusedSimpArgs false

/-! ### `eager` on a call node, case by case -/
section
variable {f : Expr} {as : List Expr} {ks : List (String × Expr)} {c l : Bool} {w w1 w2 w3 : World}

theorem eager_call_err_f {e : Err} (h1 : eager f w = (.error e, w1)) :
    eager (.call f as ks c l) w = (.error e, w1) := by simp only [eager, h1]

theorem eager_call_not_callable {fv : RVal} (h1 : eager f w = (.ok fv, w1))
    (hn : ∀ n, fv.1 ≠ .fn n) (hh : ∀ i, fv.1 ≠ .handle i) :
    eager (.call f as ks c l) w = (.error (.py .type), w1) := by
  simp only [eager, h1]

theorem eager_call_err_args {fv : RVal} {name : String} {e : Err} (h1 : eager f w = (.ok fv, w1))
    (hf : fv.1 = .fn name) (h2 : eagerArgs as w1 = (.error e, w2)) :
    eager (.call f as ks c l) w = (.error e, w2) := by simp only [eager, h1, hf, h2]

theorem eager_call_err_kw {fv : RVal} {name : String} {e : Err} {avs : List RVal}
    (h1 : eager f w = (.ok fv, w1)) (hf : fv.1 = .fn name) (h2 : eagerArgs as w1 = (.ok avs, w2))
    (h3 : eagerKw ks w2 = (.error e, w3)) :
    eager (.call f as ks c l) w = (.error e, w3) := by simp only [eager, h1, hf, h2, h3]

theorem eager_call_ok {fv : RVal} {name : String} {avs : List RVal} {kvs : List (String × RVal)}
    (h1 : eager f w = (.ok fv, w1)) (hf : fv.1 = .fn name) (h2 : eagerArgs as w1 = (.ok avs, w2))
    (h3 : eagerKw ks w2 = (.ok kvs, w3)) :
    eager (.call f as ks c l) w = applyLib name avs kvs w3 := by simp only [eager, h1, hf, h2, h3]
end

section
variable {a : Expr} {as : List Expr} {k : String} {ks : List (String × Expr)} {w w1 w2 : World}

theorem eagerArgs_cons_err1 {e : Err} (h1 : eager a w = (.error e, w1)) :
    eagerArgs (a :: as) w = (.error e, w1) := by simp only [eagerArgs, h1]
theorem eagerArgs_cons_err2 {e : Err} {v : RVal} (h1 : eager a w = (.ok v, w1))
    (h2 : eagerArgs as w1 = (.error e, w2)) : eagerArgs (a :: as) w = (.error e, w2) := by
  simp only [eagerArgs, h1, h2]
theorem eagerArgs_cons_ok {v : RVal} {vs : List RVal} (h1 : eager a w = (.ok v, w1))
    (h2 : eagerArgs as w1 = (.ok vs, w2)) : eagerArgs (a :: as) w = (.ok (v :: vs), w2) := by
  simp only [eagerArgs, h1, h2]
theorem eagerKw_cons_err1 {e : Err} (h1 : eager a w = (.error e, w1)) :
    eagerKw ((k, a) :: ks) w = (.error e, w1) := by simp only [eagerKw, h1]
theorem eagerKw_cons_err2 {e : Err} {v : RVal} (h1 : eager a w = (.ok v, w1))
    (h2 : eagerKw ks w1 = (.error e, w2)) : eagerKw ((k, a) :: ks) w = (.error e, w2) := by
  simp only [eagerKw, h1, h2]
theorem eagerKw_cons_ok {v : RVal} {vs : List (String × RVal)} (h1 : eager a w = (.ok v, w1))
    (h2 : eagerKw ks w1 = (.ok vs, w2)) : eagerKw ((k, a) :: ks) w = (.ok ((k, v) :: vs), w2) := by
  simp only [eagerKw, h1, h2]
end

end MlModel.Lazy
