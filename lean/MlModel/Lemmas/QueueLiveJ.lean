import MlModel.Lemmas.QueueLiveBase
/-!
# Liveness of the IteratorQueue LTS — the no-lost-wake-up invariant, consumer side, one step

The per-step lemmas see only the stepping thread; what the *other* threads contribute to the
invariant is abstracted by propositions (`oSE`: another consumer has `sawEmpty`; `oDA`, `oAD`:
another thread is a debtor / an active consumer) that a step of this thread does not change.
-/
namespace MlModel.Queue
set_option linter.unusedSimpArgs false

@[simp] theorem doneOf_stop (e : Option ErrKind) (m a b : Nat) : doneOf e true m a b = true := by
  simp [doneOf]
@[simp] theorem doneOf_some (x : ErrKind) (sr : Bool) (m a b : Nat) : doneOf (some x) sr m a b = true := by
  simp [doneOf]
theorem doneOf_isSome {e : Option ErrKind} (h : e.isSome = true) (sr : Bool) (m a b : Nat) :
    doneOf e sr m a b = true := by
  simp [doneOf, h]

def J2L (s : Shared) (t : Thread) (oSE oDA : Prop) : Prop :=
  (s.deqWait ≠ [] ∨ sawEmpty t = true ∨ oSE) → s.enqueueDone = true → (debtDAll t = true ∨ oDA)

def J2Step (s : Shared) (t : Thread) (tid : Tid) (alt : Bool) : Prop :=
  ∀ lbl s' t', stepThread s t tid alt = some (lbl, s', t') → ∀ (oSE oDA : Prop),
    (t.pc = .tAcq → t.reraise.isSome = true → s.exc.isSome = true) →
    (t.pc = .mRel → s.stopRequested = true) →
    (holds .deq t.pc = true → ¬oSE) →
    (t.pc = .sAcq → s'.enqueueDone = true → s.enqueueDone = true) →
    J2L s t oSE oDA → J2L s' t' oSE oDA

set_option hygiene false in
macro "j2_group" : tactic => `(tactic| (
  intro lbl s' t' h oSE oDA hx1 hx2 hm hS hj
  unfold J2L at hj ⊢
  unfold stepThread at h
  cases hpc : t.pc <;> (try (simp only [hpc, Pc.group] at hg; omega)) <;>
    simp only [hpc] at h hx1 hx2 hm hS hj <;>
    (try simp only [acquire, release, notify, waitPark, waitWake, goto, enqLoop, putLoop, batchLoop,
      afterRaise, afterValue] at h) <;>
    (repeat' split at h) <;>
    (try simp only [Option.some.injEq, Prod.mk.injEq, reduceCtorEq] at h) <;>
    (try (obtain ⟨-, rfl, rfl⟩ := h)) <;>
    first
    | (simp_all [Shared.setOwner, Shared.owner, sawEmpty, debtDAll, holds, enqueueDone_eq, doneOf_isSome]; done)
    | (cases hdw : s.deqWait <;>
        simp_all [Shared.setOwner, Shared.owner, sawEmpty, debtDAll, holds, enqueueDone_eq, doneOf_isSome])))

theorem j2_g0 {s t tid alt} (hg : t.pc.group = 0) : J2Step s t tid alt := by j2_group
theorem j2_g1 {s t tid alt} (hg : t.pc.group = 1) : J2Step s t tid alt := by j2_group
theorem j2_g2 {s t tid alt} (hg : t.pc.group = 2) : J2Step s t tid alt := by j2_group
theorem j2_g3 {s t tid alt} (hg : t.pc.group = 3) : J2Step s t tid alt := by j2_group
theorem j2_g4 {s t tid alt} (hg : t.pc.group = 4) : J2Step s t tid alt := by j2_group
theorem j2_g5 {s t tid alt} (hg : t.pc.group = 5) : J2Step s t tid alt := by j2_group
theorem j2_g6 {s t tid alt} (hg : t.pc.group = 6) : J2Step s t tid alt := by j2_group
theorem j2_g7 {s t tid alt} (hg : t.pc.group = 7) : J2Step s t tid alt := by j2_group

theorem stepThread_j2 {s t tid alt} : J2Step s t tid alt := by
  have h := Pc.group_lt t.pc
  match hg : t.pc.group with
  | 0 => exact j2_g0 hg | 1 => exact j2_g1 hg | 2 => exact j2_g2 hg | 3 => exact j2_g3 hg
  | 4 => exact j2_g4 hg | 5 => exact j2_g5 hg | 6 => exact j2_g6 hg | 7 => exact j2_g7 hg
  | n + 8 => omega

def J1L (s : Shared) (t : Thread) (oSE oAD : Prop) : Prop :=
  (s.deqWait ≠ [] ∨ sawEmpty t = true ∨ oSE) → s.q ≠ [] →
    (s.deqNotified ≠ [] ∨ activeC t = true ∨ debtD t = true ∨ oAD ∨ s.enqueueDone = true)

def J1Step (s : Shared) (t : Thread) (tid : Tid) (alt : Bool) : Prop :=
  ∀ lbl s' t', stepThread s t tid alt = some (lbl, s', t') → ∀ (oSE oAD : Prop),
    (s.exhausted = true → s.enqueueDone = true) →
    (holds .deq t.pc = true → ¬oSE) →
    (s.enqueueDone = true → s'.enqueueDone = true) →
    J1L s t oSE oAD → J1L s' t' oSE oAD

set_option hygiene false in
macro "j1_group" : tactic => `(tactic| (
  intro lbl s' t' h oSE oAD hi3 hm hmono hj
  unfold J1L at hj ⊢
  unfold stepThread at h
  cases hpc : t.pc <;> (try (simp only [hpc, Pc.group] at hg; omega)) <;>
    simp only [hpc] at h hm hj <;>
    (try simp only [acquire, release, notify, waitPark, waitWake, goto, enqLoop, putLoop, batchLoop,
      afterRaise, afterValue] at h) <;>
    (repeat' split at h) <;>
    (try simp only [Option.some.injEq, Prod.mk.injEq, reduceCtorEq] at h) <;>
    (try (obtain ⟨-, rfl, rfl⟩ := h)) <;>
    first
    | (simp_all [Shared.setOwner, Shared.owner, sawEmpty, activeC, debtD, holds, enqueueDone_eq, doneOf_isSome,
        isCons, Prog.kind]; done)
    | (cases hdw : s.deqWait <;>
        simp_all [Shared.setOwner, Shared.owner, sawEmpty, activeC, debtD, holds, enqueueDone_eq, doneOf_isSome,
          isCons, Prog.kind] <;> grind)))

theorem j1_g0 {s t tid alt} (hg : t.pc.group = 0) : J1Step s t tid alt := by j1_group
theorem j1_g1 {s t tid alt} (hg : t.pc.group = 1) : J1Step s t tid alt := by j1_group
theorem j1_g2 {s t tid alt} (hg : t.pc.group = 2) : J1Step s t tid alt := by j1_group
theorem j1_g3 {s t tid alt} (hg : t.pc.group = 3) : J1Step s t tid alt := by j1_group
theorem j1_g4 {s t tid alt} (hg : t.pc.group = 4) : J1Step s t tid alt := by j1_group
theorem j1_g5 {s t tid alt} (hg : t.pc.group = 5) : J1Step s t tid alt := by j1_group
theorem j1_g6 {s t tid alt} (hg : t.pc.group = 6) : J1Step s t tid alt := by j1_group
theorem j1_g7 {s t tid alt} (hg : t.pc.group = 7) : J1Step s t tid alt := by j1_group

theorem stepThread_j1 {s t tid alt} : J1Step s t tid alt := by
  have h := Pc.group_lt t.pc
  match hg : t.pc.group with
  | 0 => exact j1_g0 hg | 1 => exact j1_g1 hg | 2 => exact j1_g2 hg | 3 => exact j1_g3 hg
  | 4 => exact j1_g4 hg | 5 => exact j1_g5 hg | 6 => exact j1_g6 hg | 7 => exact j1_g7 hg
  | n + 8 => omega

end MlModel.Queue
