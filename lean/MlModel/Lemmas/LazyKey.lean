import MlModel.Lemmas.LazyFresh
import MlModel.Lemmas.Lru
/-! `eager` ignores the flags (so it is well defined on cache keys); membership facts for the cache. -/
namespace MlModel.Lazy
set_option linter.unusedSimpArgs false
set_option linter.unusedVariables false

mutual
theorem eager_key : ∀ (e : Expr) (w : World), eager e.key w = eager e w
  | .const v, w => by simp [Expr.key, eager]
  | .traced v l, w => by simp [Expr.key, eager]
  | .call f as ks c l, w => by
    simp only [Expr.key, eager, eager_key f, eagerArgs_key as, eagerKw_key ks]
theorem eagerArgs_key : ∀ (as : List Expr) (w : World), eagerArgs (Expr.keyL as) w = eagerArgs as w
  | [], w => by simp [Expr.keyL]
  | a :: as, w => by simp only [Expr.keyL, eagerArgs, eager_key a, eagerArgs_key as]
theorem eagerKw_key : ∀ (ks : List (String × Expr)) (w : World), eagerKw (Expr.keyK ks) w = eagerKw ks w
  | [], w => by simp [Expr.keyK]
  | (k, a) :: ks, w => by simp only [Expr.keyK, eagerKw, eager_key a, eagerKw_key ks]
end

open MlModel.Lru in
theorem mem_getitem {κ ν : Type} [DecidableEq κ] (c : Cache κ ν) (k : κ) (p : κ × ν)
    (h : p ∈ (c.getitem k).2.data) : p ∈ c.data := by
  unfold Cache.getitem at h
  cases hf : find? c.data k with
  | none => simpa [hf] using h
  | some v =>
    simp only [hf, moveToEnd] at h
    rcases List.mem_append.mp h with h | h
    · exact (List.mem_filter.mp h).1
    · simp only [List.mem_singleton] at h; rw [h]; exact find?_some_mem hf

open MlModel.Lru in
theorem mem_moveToEnd {κ ν : Type} [DecidableEq κ] (d : List (κ × ν)) (k : κ) (p : κ × ν)
    (h : p ∈ moveToEnd d k) : p ∈ d := by
  unfold moveToEnd at h
  cases hf : find? d k with
  | none => simpa [hf] using h
  | some v =>
    simp only [hf] at h
    rcases List.mem_append.mp h with h | h
    · exact (List.mem_filter.mp h).1
    · simp only [List.mem_singleton] at h; rw [h]; exact find?_some_mem hf

open MlModel.Lru in
theorem mem_assign {κ ν : Type} [DecidableEq κ] (d : List (κ × ν)) (k : κ) (v : ν) (p : κ × ν)
    (h : p ∈ assign d k v) : p ∈ d ∨ p = (k, v) := by
  unfold assign at h
  split at h
  · obtain ⟨q, hq, rfl⟩ := List.mem_map.mp h
    split
    · exact Or.inr rfl
    · exact Or.inl hq
  · rcases List.mem_append.mp h with h | h
    · exact Or.inl h
    · right; simpa using h

open MlModel.Lru in
theorem mem_setitem {κ ν : Type} [DecidableEq κ] (c : Cache κ ν) (k : κ) (v : ν) (p : κ × ν)
    (h : p ∈ (c.setitem k v).data) : p ∈ c.data ∨ p = (k, v) := by
  unfold Cache.setitem at h
  simp only at h
  generalize hq : (if (!has c.data k) = true then (c.currsize + 1, moveToEnd (assign c.data k v) k)
      else (c.currsize, assign c.data k v)) = q at h
  have h1 : ∀ x, x ∈ q.2 → x ∈ c.data ∨ x = (k, v) := by
    subst hq
    intro x hx
    split at hx
    · exact mem_assign _ _ _ _ (mem_moveToEnd _ _ _ hx)
    · exact mem_assign _ _ _ _ hx
  obtain ⟨q1, q2⟩ := q
  simp only at h h1
  split at h
  · cases q2 with
    | nil => simp at h
    | cons hd tl =>
      obtain ⟨k0, v0⟩ := hd
      simp only [remove] at h
      exact h1 p (List.mem_filter.mp h).1
  · exact h1 p h

end MlModel.Lazy
