import MlModel.Model.QueueIntr
import MlModel.Lemmas.QueueLiveDead
import MlModel.Lemmas.QueueLiveWait
/-!
# The interrupted consumer: invariants of `Model/QueueIntr.lean`

Every `run` step of the extended LTS is a step of the queue LTS, so the one-step lemmas of the queue
(`stepThread_locks`, `stepThread_data`, `stepThread_w`, `stepThread_fault`, `stepThread_en`) and
`stuck_all_parked` (which needs only `LockInv`) are reused as they are; what is added here are the two new events
and three small invariants about a completed `maybe_stop()`.
-/
namespace MlModel.QueueIntr
open MlModel.Queue

inductive Reachable (c0 : Cfg) : Cfg → Prop where
  | init : Reachable c0 c0
  | step {c c' : Cfg} {tid : Tid} {ch : Choice} {lbl : String} :
      Reachable c0 c → step c tid ch = some (lbl, c') → Reachable c0 c'

/-- decomposition of a step of the extended LTS -/
theorem step_cases {c c' : Cfg} {tid : Tid} {ch : Choice} {lbl : String} (h : step c tid ch = some (lbl, c')) :
    (∃ alt, Queue.step c tid alt = some (lbl, c')) ∨
    (∃ t s' t', c.ths[tid]? = some t ∧ intrThread c.sh t tid = some (s', t') ∧
      c' = { sh := s', ths := c.ths.set tid t' }) ∨
    (∃ t t', c.ths[tid]? = some t ∧ handlerThread t = some t' ∧ c' = { c with ths := c.ths.set tid t' }) := by
  unfold step at h
  cases ch with
  | run alt => exact Or.inl ⟨alt, h⟩
  | interrupt =>
    right; left
    cases ht : c.ths[tid]? with
    | none => simp [ht] at h
    | some t =>
      simp only [ht] at h
      cases hi : intrThread c.sh t tid with
      | none => simp [hi] at h
      | some r =>
        obtain ⟨s', t'⟩ := r
        simp only [hi, Option.some.injEq, Prod.mk.injEq] at h
        exact ⟨t, s', t', rfl, hi, h.2.symm⟩
  | handler =>
    right; right
    cases ht : c.ths[tid]? with
    | none => simp [ht] at h
    | some t =>
      simp only [ht] at h
      cases hi : handlerThread t with
      | none => simp [hi] at h
      | some t' =>
        simp only [hi, Option.some.injEq, Prod.mk.injEq] at h
        exact ⟨t, t', rfl, hi, h.2.symm⟩

/-! ## what the interrupt does to one thread -/

/-- a stopper that has executed the state update of `maybe_stop` -/
def pastAcq : Pc → Bool
  | .mRel | .mE0 | .mE1 | .mE2 | .mD0 | .mD1 | .mD2 => true
  | _ => false

/-- a thread whose `maybe_stop()` has executed its `notify_all` on the enqueue condition -/
def notifiedE (t : Thread) : Bool :=
  match t.pc with
  | .mE2 | .mD0 | .mD1 | .mD2 => true
  | .done => t.prog.kind == .stopper && t.outcome.isNone
  | _ => false

/-- the jump keeps the lock discipline (the target program point owns exactly what the thread owns, nobody else's
ownership changes), the thread's program and the kind of its program point; the recorded exception, the stop
request and the producers' wait lists are untouched; the thread is not (and does not become) a parked producer, a
stopper, or a producer about to park -/
theorem intr_step {s s' : Shared} {t t' : Thread} {tid : Tid} (h : intrThread s t tid = some (s', t'))
    (hown : ∀ l, s.owner l = some tid ↔ holds l t.pc = true) :
    (∀ l, (s'.owner l = some tid ↔ holds l t'.pc = true) ∧
      (∀ u, u ≠ tid → (s'.owner l = some u ↔ s.owner l = some u))) ∧
    t'.prog = t.prog ∧ (∀ k, pcKind t'.pc = some k → pcKind t.pc = some k) ∧
    s'.exc = s.exc ∧ s'.stopRequested = s.stopRequested ∧ s'.enqWait = s.enqWait ∧
    s'.enqNotified = s.enqNotified ∧
    prodWakePc t.pc = false ∧ prodWakePc t'.pc = false ∧ t'.pc ≠ .pWait ∧ t.pc ≠ .pWait ∧
    pastAcq t'.pc = false ∧ notifiedE t' = false ∧ notifiedE t = false ∧ t.pc ≠ .done ∧
    (t'.result = t.result ∨ t'.result = []) ∧ (t'.pc = .done → t'.outcome ≠ none) := by
  have hd := hown .deq; have he := hown .enq; have hs := hown .st
  clear hown
  unfold intrThread at h
  cases hpc : t.pc <;> simp only [hpc] at h hd he hs <;>
    simp only [holds, iff_true, iff_false, Bool.false_eq_true] at hd he hs <;>
    (try (rename_i c; cases c)) <;>
    (try simp only [reduceCtorEq] at h) <;>
    (repeat' split at h) <;>
    (try simp only [Option.some.injEq, Prod.mk.injEq, reduceCtorEq] at h) <;>
    (try (obtain ⟨rfl, rfl⟩ := h)) <;>
    (refine ⟨fun l => ?_, ?_⟩) <;> (try (cases l)) <;>
    simp_all [holds, Shared.owner, pcKind, prodWakePc, pastAcq, notifiedE, intrRaise] <;>
    (try (exact fun u hu h => hu h.symm))

/-! ## one queue step and a completed `maybe_stop()` -/

def SStep (s : Shared) (t : Thread) (tid : Tid) (alt : Bool) : Prop :=
  ∀ lbl s' t', stepThread s t tid alt = some (lbl, s', t') →
    (∀ k, pcKind t.pc = some k → t.prog.kind = k) →
    ((pastAcq t.pc = true → s.stopRequested = true) → (pastAcq t'.pc = true → s'.stopRequested = true)) ∧
    (s.stopRequested = true → t'.pc ≠ .pWait) ∧
    (t.pc ≠ .pWait → s.enqWait = [] → s'.enqWait = []) ∧
    (notifiedE t' = true → notifiedE t = true ∨ t.pc = .mE1) ∧
    (t.pc = .mE1 → s'.enqWait = []) ∧
    ((pastAcq t.pc = true → s.stopRequested = true) → t'.pc = .done → t.prog.kind = .stopper → t'.outcome = none)

set_option hygiene false in
macro "s_group" : tactic => `(tactic| (
  intro lbl s' t' h hk
  unfold stepThread at h
  cases hpc : t.pc <;> (try (simp only [hpc, Pc.group] at hg; omega)) <;>
    simp only [hpc] at h hk <;>
    (try simp only [pcKind, reduceCtorEq, Option.some.injEq, forall_eq', imp_false, not_false_eq_true,
      implies_true] at hk) <;>
    (try simp only [acquire, release, notify, waitPark, waitWake, goto, enqLoop, putLoop, batchLoop,
      afterRaise, afterValue] at h) <;>
    (repeat' split at h) <;>
    (try simp only [Option.some.injEq, Prod.mk.injEq, reduceCtorEq] at h) <;>
    (try (obtain ⟨-, rfl, rfl⟩ := h)) <;>
    simp_all [Shared.setOwner, Shared.owner, pastAcq, notifiedE, Shared.enqueueDone]))

set_option hygiene false in
macro "s_group2" : tactic => `(tactic| (
  intro lbl s' t' h hk
  unfold stepThread at h
  cases hpc : t.pc <;> (try (simp only [hpc, Pc.group] at hg; omega)) <;>
    simp only [hpc] at h hk <;>
    (try simp only [pcKind, reduceCtorEq, Option.some.injEq, forall_eq', imp_false, not_false_eq_true,
      implies_true] at hk) <;>
    (try simp only [acquire, release, notify, waitPark, waitWake, goto, enqLoop, putLoop, batchLoop,
      afterRaise, afterValue] at h) <;>
    (repeat' split at h) <;>
    (try simp only [Option.some.injEq, Prod.mk.injEq, reduceCtorEq] at h) <;>
    (try (obtain ⟨-, rfl, rfl⟩ := h)) <;>
    simp_all [Shared.setOwner, Shared.owner, pastAcq, notifiedE] ))

theorem s_g0 {s t tid alt} (hg : t.pc.group = 0) : SStep s t tid alt := by s_group
theorem s_g1 {s t tid alt} (hg : t.pc.group = 1) : SStep s t tid alt := by s_group
theorem s_g2 {s t tid alt} (hg : t.pc.group = 2) : SStep s t tid alt := by s_group
theorem s_g3 {s t tid alt} (hg : t.pc.group = 3) : SStep s t tid alt := by s_group
theorem s_g4 {s t tid alt} (hg : t.pc.group = 4) : SStep s t tid alt := by s_group
theorem s_g5 {s t tid alt} (hg : t.pc.group = 5) : SStep s t tid alt := by s_group
theorem s_g6 {s t tid alt} (hg : t.pc.group = 6) : SStep s t tid alt := by s_group2
theorem s_g7 {s t tid alt} (hg : t.pc.group = 7) : SStep s t tid alt := by s_group

theorem stepThread_s {s t tid alt} : SStep s t tid alt := by
  have h := Pc.group_lt t.pc
  match hg : t.pc.group with
  | 0 => exact s_g0 hg | 1 => exact s_g1 hg | 2 => exact s_g2 hg | 3 => exact s_g3 hg
  | 4 => exact s_g4 hg | 5 => exact s_g5 hg | 6 => exact s_g6 hg | 7 => exact s_g7 hg
  | n + 8 => omega

/-! ## the invariant -/

structure Inv (c : Cfg) : Prop where
  lock : LockInv c
  tok : ∀ t ∈ c.ths, TOK t
  w4 : ∀ tid t, c.ths[tid]? = some t → prodWakePc t.pc = true → tid ∈ wlE c.sh
  s1 : ∀ t ∈ c.ths, pastAcq t.pc = true → c.sh.stopRequested = true
  d : ∀ t ∈ c.ths, t.prog.kind = .stopper → t.pc = .done → t.outcome = none
  b : (∃ t ∈ c.ths, notifiedE t = true) →
    c.sh.stopRequested = true ∧ c.sh.enqWait = [] ∧ ∀ t ∈ c.ths, t.pc ≠ .pWait

theorem inv_init (cap maxEnq : Nat) (to ig : Bool) (progs : List Prog) : Inv (Queue.init cap maxEnq to ig progs) := by
  have hth : ∀ t ∈ (Queue.init cap maxEnq to ig progs).ths, ∃ p, t = { prog := p } := by
    intro t ht
    simp only [Queue.init, List.mem_map] at ht
    obtain ⟨p, _, rfl⟩ := ht; exact ⟨p, rfl⟩
  refine ⟨lockInv_init cap maxEnq to ig progs, (dataInv_init cap maxEnq to ig progs).tok, ?_, ?_, ?_, ?_⟩
  · intro tid t ht hp
    obtain ⟨p, rfl⟩ := hth t (List.mem_of_getElem? ht)
    simp [prodWakePc] at hp
  · intro t ht hp
    obtain ⟨p, rfl⟩ := hth t ht
    simp [pastAcq] at hp
  · intro t ht _ hp
    obtain ⟨p, rfl⟩ := hth t ht
    simp at hp
  · rintro ⟨t, ht, hn⟩
    obtain ⟨p, rfl⟩ := hth t ht
    simp [notifiedE] at hn

theorem mem_set_cases {ths : List Thread} {tid : Tid} {t' u : Thread} (h : u ∈ ths.set tid t') :
    u ∈ ths ∨ u = t' := List.mem_or_eq_of_mem_set h

/-- a run step (= a step of the queue LTS) keeps the invariant -/
theorem inv_run {c c' : Cfg} {tid : Tid} {alt : Bool} {lbl : String} (hi : Inv c)
    (h : Queue.step c tid alt = some (lbl, c')) : Inv c' := by
  obtain ⟨t, s', t', ht, hst, rfl⟩ := step_inv h
  have htm : t ∈ c.ths := List.mem_of_getElem? ht
  have htid : tid < c.ths.length := by
    rcases List.getElem?_eq_some_iff.mp ht with ⟨h1, _⟩; exact h1
  have hk := (hi.tok t htm).kind
  obtain ⟨htok', hprog, -⟩ := stepThread_data lbl s' t' hst (hi.tok t htm)
  obtain ⟨q1, q2, q3, q4, q5, q6⟩ := stepThread_s lbl s' t' hst hk
  obtain ⟨_, fsr, _, _, _⟩ := stepThread_fault lbl s' t' hst
  obtain ⟨_, wE, _, wp⟩ := stepThread_w lbl s' t' hst
  have hs1t := hi.s1 t htm
  refine ⟨lockInv_step hi.lock h, ?_, ?_, ?_, ?_, ?_⟩
  · intro u hu
    rcases mem_set_cases hu with h1 | h1
    · exact hi.tok u h1
    · subst h1; exact htok'
  · intro u tu hu hp
    show u ∈ wlE s'
    by_cases hut : u = tid
    · subst hut
      simp only [List.getElem?_set_self htid, Option.some.injEq] at hu
      subst hu
      have hnp : prodWakePc t.pc = false := by
        cases hpp : prodWakePc t.pc with
        | false => rfl
        | true => have := wp hpp; rw [hp] at this; cases this
      rw [wE, if_neg (by simp [hnp]), if_pos hp]
      exact List.mem_append_right _ (List.mem_singleton.mpr rfl)
    · simp only [List.getElem?_set_ne (Ne.symm hut)] at hu
      have hm := hi.w4 u tu hu hp
      rw [wE]
      split
      · exact (List.mem_erase_of_ne hut).mpr hm
      · split
        · exact List.mem_append_left _ hm
        · exact hm
  · intro u hu hp
    rcases mem_set_cases hu with h1 | h1
    · exact fsr (hi.s1 u h1 hp)
    · subst h1; exact q1 hs1t hp
  · intro u hu hkind hdone
    rcases mem_set_cases hu with h1 | h1
    · exact hi.d u h1 hkind hdone
    · subst h1; exact q6 hs1t hdone (hprog ▸ hkind)
  · rintro ⟨u, hu, hn⟩
    -- either somebody was notified before, or this step is the `notify_all` of `maybe_stop`
    have hcase : (∃ w ∈ c.ths, notifiedE w = true) ∨ t.pc = .mE1 := by
      rcases mem_set_cases hu with h1 | h1
      · exact Or.inl ⟨u, h1, hn⟩
      · subst h1
        rcases q4 hn with h2 | h2
        · exact Or.inl ⟨t, htm, h2⟩
        · exact Or.inr h2
    have hsr : c.sh.stopRequested = true := by
      rcases hcase with h1 | h1
      · exact (hi.b h1).1
      · exact hs1t (by rw [h1]; rfl)
    have hothers : ∀ w ∈ c.ths, w ≠ t ∨ True → w.pc = .pWait → w = t := by
      intro w hw _ hwp
      rcases hcase with h1 | h1
      · exact absurd hwp ((hi.b h1).2.2 w hw)
      · -- `t` owns the enqueue lock at `mE1`, and so would `w` at `pWait`
        obtain ⟨iw, hiw⟩ := List.mem_iff_getElem?.mp hw
        have o1 := (hi.lock.1 iw w hiw .enq).mpr (by rw [hwp]; rfl)
        have o2 := (hi.lock.1 tid t ht .enq).mpr (by rw [h1]; rfl)
        rw [o1] at o2
        have : iw = tid := Option.some.inj o2
        subst this
        rw [ht] at hiw; exact (Option.some.inj hiw).symm
    have hnw : t.pc ≠ .pWait := by
      rcases hcase with h1 | h1
      · exact (hi.b h1).2.2 t htm
      · rw [h1]; simp
    refine ⟨fsr hsr, ?_, ?_⟩
    · show s'.enqWait = []
      rcases hcase with h1 | h1
      · exact q3 hnw (hi.b h1).2.1
      · exact q5 h1
    · intro w hw
      rcases mem_set_cases hw with h1 | h1
      · intro hwp
        have := hothers w h1 (Or.inr trivial) hwp
        subst this; exact hnw hwp
      · subst h1; exact q2 hsr

/-- the interrupt keeps the invariant -/
theorem inv_intr {c : Cfg} {tid : Tid} {t t' : Thread} {s' : Shared} (hi : Inv c) (ht : c.ths[tid]? = some t)
    (h : intrThread c.sh t tid = some (s', t')) : Inv { sh := s', ths := c.ths.set tid t' } := by
  have htm : t ∈ c.ths := List.mem_of_getElem? ht
  have htid : tid < c.ths.length := by
    rcases List.getElem?_eq_some_iff.mp ht with ⟨h1, _⟩; exact h1
  obtain ⟨key, hprog, hkind, hexc, hsr, hew, hen, np, np', nw', nw, npa, nn', nn, nd, hres, hout⟩ :=
    intr_step h (hi.lock.1 tid t ht)
  refine ⟨⟨?_, ?_⟩, ?_, ?_, ?_, ?_, ?_⟩
  · intro u tu hu l
    by_cases hut : u = tid
    · subst hut
      simp only [List.getElem?_set_self htid, Option.some.injEq] at hu
      subst hu
      exact (key l).1
    · simp only [List.getElem?_set_ne (Ne.symm hut)] at hu
      show s'.owner l = some u ↔ _
      rw [(key l).2 u hut]
      exact hi.lock.1 u tu hu l
  · intro l u hu
    simp only [List.length_set]
    by_cases hut : u = tid
    · subst hut; exact htid
    · exact hi.lock.2 l u (((key l).2 u hut).mp hu)
  · intro u hu
    rcases mem_set_cases hu with h1 | h1
    · exact hi.tok u h1
    · subst h1
      have tk := hi.tok t htm
      refine ⟨fun k hk => ?_, fun hb => ?_⟩
      · rw [hprog]; exact tk.kind k (hkind k hk)
      · rw [hprog] at hb
        rcases hres with h2 | h2
        · rw [h2]; exact tk.res hb
        · exact h2
  · intro u tu hu hp
    show u ∈ s'.enqNotified ++ s'.enqWait
    rw [hen, hew]
    by_cases hut : u = tid
    · subst hut
      simp only [List.getElem?_set_self htid, Option.some.injEq] at hu
      subst hu; rw [np'] at hp; cases hp
    · simp only [List.getElem?_set_ne (Ne.symm hut)] at hu
      exact hi.w4 u tu hu hp
  · intro u hu hp
    show s'.stopRequested = true
    rw [hsr]
    rcases mem_set_cases hu with h1 | h1
    · exact hi.s1 u h1 hp
    · subst h1; rw [npa] at hp; cases hp
  · intro u hu hkind' hdone
    rcases mem_set_cases hu with h1 | h1
    · exact hi.d u h1 hkind' hdone
    · subst h1
      -- the interrupted thread is a consumer
      exfalso
      have tk := (hi.tok t htm).kind
      rw [hprog] at hkind'
      unfold intrThread at h
      cases hpc : t.pc <;> simp only [hpc] at h tk <;>
        (try (have := tk _ rfl; rw [hkind'] at this; cases this)) <;>
        (try (rename_i cc; cases cc <;> (have := tk _ rfl; rw [hkind'] at this; cases this))) <;>
        simp at h
  · rintro ⟨u, hu, hn⟩
    have hold : ∃ w ∈ c.ths, notifiedE w = true := by
      rcases mem_set_cases hu with h1 | h1
      · exact ⟨u, h1, hn⟩
      · subst h1; rw [nn'] at hn; cases hn
    obtain ⟨b1, b2, b3⟩ := hi.b hold
    refine ⟨by show s'.stopRequested = true; rw [hsr]; exact b1, by show s'.enqWait = []; rw [hew]; exact b2, ?_⟩
    intro w hw
    rcases mem_set_cases hw with h1 | h1
    · exact b3 w h1
    · subst h1; exact nw'

/-- the handler keeps the invariant -/
theorem inv_handler {c : Cfg} {tid : Tid} {t t' : Thread} (hi : Inv c) (ht : c.ths[tid]? = some t)
    (h : handlerThread t = some t') : Inv { c with ths := c.ths.set tid t' } := by
  have htm : t ∈ c.ths := List.mem_of_getElem? ht
  have htid : tid < c.ths.length := by
    rcases List.getElem?_eq_some_iff.mp ht with ⟨h1, _⟩; exact h1
  unfold handlerThread at h
  split at h
  · rename_i hc
    simp only [Bool.and_eq_true, beq_iff_eq] at hc
    obtain ⟨_, hpc⟩ := hc
    obtain rfl := Option.some.inj h
    refine ⟨⟨?_, ?_⟩, ?_, ?_, ?_, ?_, ?_⟩
    · intro u tu hu l
      by_cases hut : u = tid
      · subst hut
        simp only [List.getElem?_set_self htid, Option.some.injEq] at hu
        subst hu
        have := hi.lock.1 u t ht l
        rw [hpc] at this
        cases l <;> simpa [holds] using this
      · simp only [List.getElem?_set_ne (Ne.symm hut)] at hu
        exact hi.lock.1 u tu hu l
    · intro l u hu
      simp only [List.length_set]
      exact hi.lock.2 l u hu
    · intro u hu
      rcases mem_set_cases hu with h1 | h1
      · exact hi.tok u h1
      · subst h1
        exact ⟨fun k hk => by simp only [pcKind, Option.some.injEq] at hk; subst hk; rfl, fun _ => rfl⟩
    · intro u tu hu hp
      by_cases hut : u = tid
      · subst hut
        simp only [List.getElem?_set_self htid, Option.some.injEq] at hu
        subst hu; simp [prodWakePc] at hp
      · simp only [List.getElem?_set_ne (Ne.symm hut)] at hu
        exact hi.w4 u tu hu hp
    · intro u hu hp
      rcases mem_set_cases hu with h1 | h1
      · exact hi.s1 u h1 hp
      · subst h1; simp [pastAcq] at hp
    · intro u hu hk hd
      rcases mem_set_cases hu with h1 | h1
      · exact hi.d u h1 hk hd
      · subst h1; simp at hd
    · rintro ⟨u, hu, hn⟩
      have hold : ∃ w ∈ c.ths, notifiedE w = true := by
        rcases mem_set_cases hu with h1 | h1
        · exact ⟨u, h1, hn⟩
        · subst h1; simp [notifiedE] at hn
      obtain ⟨b1, b2, b3⟩ := hi.b hold
      refine ⟨b1, b2, ?_⟩
      intro w hw
      rcases mem_set_cases hw with h1 | h1
      · exact b3 w h1
      · subst h1; simp
  · simp at h

theorem inv_reachable {c0 c : Cfg} (h0 : Inv c0) (h : Reachable c0 c) : Inv c := by
  induction h with
  | init => exact h0
  | step _ hs ih =>
    rcases step_cases hs with ⟨alt, h1⟩ | ⟨t, s', t', ht, hi, rfl⟩ | ⟨t, t', ht, hh, rfl⟩
    · exact inv_run ih h1
    · exact inv_intr ih ht hi
    · exact inv_handler ih ht hh

theorem queue_enabled_nil {c : Cfg} (hq : ∀ tid alt, Queue.step c tid alt = none) : Queue.enabled c = [] := by
  unfold Queue.enabled
  simp [hq]

end MlModel.QueueIntr
