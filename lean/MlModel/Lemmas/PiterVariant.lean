import MlModel.Lemmas.PiterVariantAux
/-!
# The termination measure `Psi` of the parallel-iteration LTS strictly decreases on every step
-/
namespace MlModel.Piter
open MlModel.Queue

variable {F : Nat → Option (List Nat)}

theorem srcLen_mid {q : Queue.Thread} (h : q.src = []) (h1 : q.pc ≠ .start) : srcLen q = 0 :=
  srcLen_of_src h (fun e => absurd e h1)

theorem extra_prod {c : Cfg} {N : Nat} {t : PThread} (hp : t.isProd = true) :
    extra F c N t = wA N * t.pend.length + pullRes t + handCost F N t + inputCost F N (inputAt c t.sid) := by
  simp [extra, hp]

theorem extra_cons {c : Cfg} {N : Nat} {t : PThread} (hp : t.isProd = false) : extra F c N t = cRank c N t := by
  simp [extra, hp]

/-! ### the outcome of `next(iterator)` -/

theorem afterPull_sh (tid : Tid) (s : Shared) (t : PThread) (r : PullRes) :
    (afterPull F tid s t r).1 = s ∨ (afterPull F tid s t r).1 = { s with exc := some .value } := by
  unfold afterPull failPull
  split
  · exact Or.inl rfl
  · exact Or.inr rfl
  · split
    · exact Or.inr rfl
    · exact Or.inl rfl
    · exact Or.inl rfl

theorem afterPull_measure (tid : Tid) (s : Shared) (t : PThread) (r : PullRes) (N : Nat) (x x' : Bool)
    (hpc : t.q.pc = .eNext) (hsrc : t.q.src = []) (hres : t.q.result = []) :
    potT N x' (afterPull F tid s t r).2.q + wA N * (afterPull F tid s t r).2.pend.length +
        pullRes (afterPull F tid s t r).2 + handCost F N (afterPull F tid s t r).2 ≤
      tA N + 1 + wA N * t.pend.length + resCost F N r ∧
    potT N x t.q = tA N + 1 ∧
    (afterPull F tid s t r).2.isProd = t.isProd ∧ (afterPull F tid s t r).2.sid = t.sid := by
  have h0 : ∀ b : Bool, potT N b t.q = tA N + 1 := by
    intro b
    rw [potT_eval N b t.q (srcLen_mid hsrc (by rw [hpc]; simp)) hres]
    simp [basePot, hpc]
  refine ⟨?_, h0 x, (afterPull_frame (F := F) tid s t r).1, (afterPull_frame (F := F) tid s t r).2.1⟩
  have hw : wA N = wB N + 100 := rfl
  unfold afterPull failPull
  split
  · -- StopIteration
    simp [potT, basePot, srcLen, pullRes, handCost, noPull, resCost, hsrc, hres]
  · -- the input raises
    simp [potT, basePot, srcLen, pullRes, handCost, noPull, resCost, itemCost, hsrc, hres]
    omega
  · rename_i v
    split
    · -- the row function raises
      simp [potT, basePot, srcLen, pullRes, handCost, noPull, resCost, itemCost, hsrc, hres]
      omega
    · -- no output: pull again
      rename_i hF
      have h1 := h0 x'
      cases hu : t.useLock <;>
        simp [pullRes, handCost, hpc, ipcPot, resCost, itemCost, outLen, hF, h1]
    · -- an output: put it
      rename_i y ys hF
      have := wA_mul_succ N ys.length
      simp [potT, basePot, srcLen, pullRes, handCost, noPull, pastStop, resCost, itemCost, outLen, hF, hsrc, hres, wD]
      omega

/-! ### the step of a producer through the queue API, followed by `postProd` -/

theorem noPull_step {s s' : Shared} {q q' : Queue.Thread} {tid : Tid} {alt : Bool} {lbl : String}
    (hst : stepThread s q tid alt = some (lbl, s', q')) (hne : q.pc ≠ .eNext) (h : noPull q.pc = true) :
    noPull q'.pc = true ∧ q'.pc ≠ .eNext := by
  obtain ⟨-, f2, -, -, -, -, -, -, -, f10⟩ := stepThread_flow lbl s' q' hst hne
  have hps : pastStop q'.pc = true := by
    by_cases ht : q.pc = .tAcq
    · exact f10 ht
    · apply f2
      unfold noPull at h
      cases hq : q.pc <;> simp_all
  refine ⟨by unfold noPull; cases hq : q'.pc <;> simp_all, ?_⟩
  intro e; rw [e] at hps; simp [pastStop] at hps

theorem postProd_measure (tid : Tid) (t : PThread) (q' : Queue.Thread) (N : Nat) (x : Bool)
    (hpc : t.q.pc ≠ .eNext) (hsrc : q'.src = []) (hres : q'.result = [])
    (hq' : q'.pc ≠ .start) (hnp : noPull t.q.pc = true → noPull q'.pc = true ∧ q'.pc ≠ .eNext) :
    potT N x (postProd tid t q').q + wA N * (postProd tid t q').pend.length + pullRes (postProd tid t q') +
        handCost F N (postProd tid t q') ≤
      potT N x q' + wA N * t.pend.length + pullRes t + handCost F N t ∧
    (postProd tid t q').isProd = t.isProd ∧ (postProd tid t q').sid = t.sid := by
  refine ⟨?_, (postProd_frame tid t q').1, (postProd_frame tid t q').2.1⟩
  have hpr : pullRes t = if noPull t.q.pc then 0 else 3 := by simp [pullRes, hpc]
  have hh : handCost F N t = 0 := by simp [handCost, hpc]
  unfold postProd enterNext
  by_cases he : q'.pc = .eNext
  · have hnn : noPull t.q.pc = false := by
      cases h : noPull t.q.pc with
      | false => rfl
      | true => exact absurd he (hnp h).2
    have h0 : potT N x q' = tA N + 1 := by
      rw [potT_eval N x q' (srcLen_mid hsrc hq') hres]; simp [basePot, he]
    cases hpd : t.pend with
    | nil =>
      rw [hpr, hnn, hh]
      cases hu : t.useLock <;>
        simp [pullRes, handCost, he, ipcPot, h0]
    | cons y ys =>
      rw [hpr, hnn, hh, h0]
      have := wA_mul_succ N ys.length
      have hw : wA N = wB N + 100 := rfl
      simp [potT, basePot, srcLen, pullRes, handCost, noPull, pastStop, he, hsrc, hres, wD]
      omega
  · have : (q'.pc == Pc.eNext) = false := by simpa using he
    simp only [this, Bool.false_eq_true, if_false]
    rw [hpr, hh]
    simp only [pullRes, handCost, he, if_false, false_and]
    cases h : noPull t.q.pc with
    | true => simp [(hnp h).1]
    | false => simp only [Bool.false_eq_true, if_false]; split <;> omega

/-! ### how `Phi` of the embedded configuration reacts -/

theorem phi_tweak {c : Cfg} {tid : Tid} {t : PThread} (ht : c.ths[tid]? = some t) (b : Queue.Thread) :
    Phi { sh := c.sh, ths := (qcfg c).ths.set tid b } + potT c.ths.length (xEmpty c.sh) t.q =
      Phi (qcfg c) + potT c.ths.length (xEmpty c.sh) b := by
  have := phi_set (qc := qcfg c) (b := b) (qcfg_get ht)
  rw [qcfg_length] at this
  exact this

theorem phi_tweak_exc {c : Cfg} {tid : Tid} {t : PThread} (ht : c.ths[tid]? = some t) (b : Queue.Thread) :
    Phi { sh := { c.sh with exc := some .value }, ths := (qcfg c).ths.set tid b } + potT c.ths.length false t.q ≤
      Phi (qcfg c) + potT c.ths.length false b := by
  have := phi_set_exc (qc := qcfg c) (b := b) .value (qcfg_get ht)
  rw [qcfg_length] at this
  exact this

theorem phi_deleg_tweak {c : Cfg} {tid : Tid} {t : PThread} (ht : c.ths[tid]? = some t) (s' : Shared)
    (q' b : Queue.Thread) :
    Phi { sh := s', ths := (qcfg c).ths.set tid b } + potT c.ths.length (xEmpty s') q' =
      Phi { sh := s', ths := (qcfg c).ths.set tid q' } + potT c.ths.length (xEmpty s') b := by
  have htid : tid < (qcfg c).ths.length := (List.getElem?_eq_some_iff.mp (qcfg_get ht)).1
  have := phi_set (qc := { sh := s', ths := (qcfg c).ths.set tid q' }) (tid := tid) (a := q') (b := b)
    (by show ((qcfg c).ths.set tid q')[tid]? = some q'; simp [htid])
  simp only [List.set_set, List.length_set, qcfg_length] at this
  exact this

theorem phi_lost (s : Shared) (ths : List Queue.Thread) (l : List Elem) :
    Phi { sh := { s with lost := l }, ths := ths } = Phi { sh := s, ths := ths } := rfl

end MlModel.Piter
