import MlModel.Lemmas.PrefetchGen
/-!
# `_init_iterator` with arbitrary concurrent requests: what is installed, and by whom

`step_eff` classifies every step of the LTS by what it does to `self._generator`, `self._enqueue_thread`, the
generator lock and the thread list (a *plain* step, the *install* of a fresh queue, the *spawn* of its prefetch
thread).  On top of it `IInv` — for ANY list of request threads (clients, healthy and failing `init_generator`
requests, next / stop / shutdown requests) and any schedule:

* the generator lock is held by exactly the thread that is inside the locked stop / the installation;
* a queue that is `self._generator` has its prefetch thread recorded in `self._enqueue_thread`, or the request
  that installed it still holds the generator lock and is about to start that thread (`iiSpawn`);
* a failing `init_generator` (`Prog.initFail`) never installs anything.
-/
namespace MlModel.Prefetch

/-- program points at which a thread holds `_generator_lock` -/
def holdsGen : Pc → Bool
  | .lkStop | .lkJoin | .lkRel | .iiSpawn => true
  | _ => false

/-- what one step of thread `tid` (at `t`) does to the generator, the prefetch-thread handle and the threads -/
inductive Kind (c c' : Cfg) (tid : Queue.Tid) (t t' : Thread) : Prop where
  /-- neither `self._generator` nor `self._enqueue_thread` changes; no queue, no thread is created -/
  | plain (hths : c'.ths = c.ths.set tid t') (hgen : c'.sh.generator = c.sh.generator)
      (henq : c'.sh.enqThread = c.sh.enqThread) (hlen : c'.sh.qs.length = c.sh.qs.length)
      (h1 : t.pc ≠ .iiSpawn) (h2 : t'.pc ≠ .iiSpawn)
      (hstop : t'.pc = .lkStop ∨ t'.pc = .lkJoin →
        ((t.pc = .lkStop ∨ t.pc = .lkJoin) ∧ t'.g = t.g) ∨ (t.pc = .lkAcq ∧ c.sh.generator = some t'.g))
  /-- `_init_iterator` installs a fresh queue (only a healthy `init_generator`) -/
  | install (hths : c'.ths = c.ths.set tid t') (hgen : c'.sh.generator = some t'.g)
      (henq : c'.sh.enqThread = c.sh.enqThread) (hlen : c'.sh.qs.length = c.sh.qs.length + 1)
      (hfresh : c'.sh.qs[c.sh.qs.length]? = some (freshQueue c.sh.prefetch))
      (hg : t'.g = c.sh.qs.length) (h1 : t.pc ≠ .iiSpawn) (h2 : t'.pc = .iiSpawn)
      (hprog : (gen? t.prog).isSome = true)
  /-- `_init_iterator` starts the prefetch thread of the queue it installed -/
  | spawn (p : Thread) (hths : c'.ths = c.ths.set tid t' ++ [p]) (hgen : c'.sh.generator = c.sh.generator)
      (henq : c'.sh.enqThread = some c.ths.length) (hlen : c'.sh.qs.length = c.sh.qs.length)
      (h1 : t.pc = .iiSpawn) (h2 : t'.pc = .lkRel) (hp : p.prog = .producer t.g) (hpc : p.pc = .start)
      (hqt : p.qt.pc = .sAcq)

/-- the effect of one step on the generator lock -/
structure LockEff (c c' : Cfg) (tid : Queue.Tid) (t t' : Thread) : Prop where
  prog : t'.prog = t.prog
  /-- entering the locked region = taking the free lock -/
  enter : holdsGen t.pc = false → holdsGen t'.pc = true → c.sh.genOwner = none ∧ c'.sh.genOwner = some tid
  stay : holdsGen t.pc = true → holdsGen t'.pc = true → c'.sh.genOwner = c.sh.genOwner
  leave : holdsGen t.pc = true → holdsGen t'.pc = false → c.sh.genOwner = some tid ∧ c'.sh.genOwner = none
  out : holdsGen t.pc = false → holdsGen t'.pc = false → c'.sh.genOwner = c.sh.genOwner

/-- closes `∃ t', Kind .. ∧ LockEff ..` for a step whose result is syntactically known -/
macro "eff_plain" : tactic => `(tactic|
  (refine ⟨_, Kind.plain rfl rfl rfl ?_ ?_ ?_ ?_, ⟨?_, ?_, ?_, ?_, ?_⟩⟩ <;> (simp [holdsGen, setTh, *]; done)))
macro "eff_install" : tactic => `(tactic|
  (refine ⟨_, Kind.install rfl rfl rfl ?_ ?_ ?_ ?_ rfl ?_, ⟨?_, ?_, ?_, ?_, ?_⟩⟩ <;> (simp [holdsGen, setTh, gen?, *]; done)))
set_option hygiene false in
macro "eff_split" : tactic => `(tactic|
  ((repeat' split at h) <;> (try (simp at *; done)) <;>
    simp only [Option.some.injEq, Prod.mk.injEq] at h <;> obtain ⟨-, rfl⟩ := h))

set_option maxHeartbeats 400000 in
theorem step_eff {c c' : Cfg} {tid : Queue.Tid} {lbl : String} {t : Thread}
    (ht : c.ths[tid]? = some t) (h : step c tid = some (lbl, c')) :
    ∃ t', Kind c c' tid t t' ∧ LockEff c c' tid t t' := by
  unfold step at h
  simp only [ht] at h
  cases hpc : t.pc <;> simp only [hpc] at h
  case done => simp at h
  case iiSpawn =>
    cases hg : gen? t.prog with
    | none => simp [hg] at h
    | some g =>
      simp only [hg, Option.some.injEq, Prod.mk.injEq] at h
      obtain ⟨-, rfl⟩ := h
      exact ⟨_, .spawn _ rfl rfl rfl rfl hpc rfl rfl rfl rfl,
        ⟨rfl, by simp [holdsGen, hpc], by intros; rfl, by simp [holdsGen], by simp [holdsGen, hpc]⟩⟩
  case lkStop =>
    cases hq : c.sh.qs[t.g]? with
    | none => simp [hq] at h
    | some q =>
      have hlt : t.g < c.sh.qs.length := by
        rcases List.getElem?_eq_some_iff.mp hq with ⟨h, _⟩; exact h
      simp only [hq] at h
      cases hst : Queue.stepThread q t.qt tid false with
      | none => simp [hst] at h
      | some res =>
        obtain ⟨lbl0, q', qt'⟩ := res
        simp only [hst, afterStop, install, failInit] at h
        cases hprog : t.prog <;> simp only [hprog] at h <;> eff_split <;> first | eff_plain | eff_install
  case lkJoin =>
    cases he : c.sh.enqThread with
    | none => simp [he] at h
    | some p =>
      simp only [he] at h
      cases hp : c.ths[p]? with
      | none => simp [hp] at h
      | some tp =>
        simp only [hp, afterStop, install, failInit] at h
        cases hprog : t.prog <;> simp only [hprog] at h <;> eff_split <;> first | eff_plain | eff_install
  case lkAcq =>
    split at h
    · simp at h
    · rename_i hfree
      have hfree : c.sh.genOwner = none := by simpa using hfree
      simp only [beginStop, install, failInit] at h
      cases hprog : t.prog <;> simp only [hprog] at h <;> eff_split <;> first | eff_plain | eff_install
  case lkRel =>
    split at h
    · simp at h
    · rename_i hown
      have hown : c.sh.genOwner = some tid := by simpa using hown
      cases hprog : t.prog <;> simp only [hprog] at h <;> eff_split <;> eff_plain
  all_goals
    try simp only [callNext, beginNext, receive] at h
    eff_split <;> eff_plain

/-! ### looking up threads after a step -/

theorem Kind.get_self {c c' : Cfg} {tid : Queue.Tid} {t t' : Thread} (ht : c.ths[tid]? = some t)
    (k : Kind c c' tid t t') : c'.ths[tid]? = some t' := by
  have hlt : tid < c.ths.length := by
    rcases List.getElem?_eq_some_iff.mp ht with ⟨h, _⟩; exact h
  cases k with
  | plain hths => rw [hths]; simp [List.getElem?_set_self hlt]
  | install hths => rw [hths]; simp [List.getElem?_set_self hlt]
  | spawn p hths =>
    rw [hths, List.getElem?_append_left (by simpa using hlt)]; simp [List.getElem?_set_self hlt]

theorem Kind.get_other {c c' : Cfg} {tid j : Queue.Tid} {t t' u : Thread}
    (k : Kind c c' tid t t') (hj : j ≠ tid) (hu : c.ths[j]? = some u) : c'.ths[j]? = some u := by
  have hlt : j < c.ths.length := by
    rcases List.getElem?_eq_some_iff.mp hu with ⟨h, _⟩; exact h
  cases k with
  | plain hths => rw [hths, List.getElem?_set_ne (Ne.symm hj)]; exact hu
  | install hths => rw [hths, List.getElem?_set_ne (Ne.symm hj)]; exact hu
  | spawn p hths =>
    rw [hths, List.getElem?_append_left (by simpa using hlt), List.getElem?_set_ne (Ne.symm hj)]; exact hu

/-- a thread of the new configuration is the stepping thread, an untouched old one, or the spawned one -/
theorem Kind.get_inv {c c' : Cfg} {tid j : Queue.Tid} {t t' u : Thread} (ht : c.ths[tid]? = some t)
    (k : Kind c c' tid t t') (hu : c'.ths[j]? = some u) :
    (j = tid ∧ u = t') ∨ (j ≠ tid ∧ c.ths[j]? = some u) ∨
    (j = c.ths.length ∧ u.prog = .producer t.g ∧ u.pc = .start ∧ t.pc = .iiSpawn ∧
      c'.sh.enqThread = some c.ths.length ∧ u.qt.pc = .sAcq) := by
  have hlt : tid < c.ths.length := by
    rcases List.getElem?_eq_some_iff.mp ht with ⟨h, _⟩; exact h
  by_cases hj : j = tid
  · subst hj
    rw [k.get_self ht] at hu
    exact Or.inl ⟨rfl, (Option.some.inj hu).symm⟩
  · cases k with
    | plain hths =>
      rw [hths, List.getElem?_set_ne (Ne.symm hj)] at hu; exact Or.inr (Or.inl ⟨hj, hu⟩)
    | install hths =>
      rw [hths, List.getElem?_set_ne (Ne.symm hj)] at hu; exact Or.inr (Or.inl ⟨hj, hu⟩)
    | spawn p hths hgen henq hlen h1 h2 hp hpc hqt =>
      rw [hths] at hu
      by_cases hjl : j < c.ths.length
      · rw [List.getElem?_append_left (by simpa using hjl), List.getElem?_set_ne (Ne.symm hj)] at hu
        exact Or.inr (Or.inl ⟨hj, hu⟩)
      · rw [List.getElem?_append_right (by simpa using Nat.le_of_not_lt hjl)] at hu
        simp only [List.length_set] at hu
        cases hd : j - c.ths.length with
        | zero =>
          rw [hd] at hu
          simp only [List.getElem?_cons_zero, Option.some.injEq] at hu
          subst hu
          exact Or.inr (Or.inr ⟨Nat.le_antisymm (Nat.sub_eq_zero_iff_le.mp hd) (Nat.le_of_not_lt hjl), hp, hpc, h1, henq, hqt⟩)
        | succ n => rw [hd] at hu; simp at hu

theorem step_some_thread {c c' : Cfg} {tid : Queue.Tid} {lbl : String} (h : step c tid = some (lbl, c')) :
    ∃ t, c.ths[tid]? = some t := by
  cases ht : c.ths[tid]? with
  | none => unfold step at h; simp [ht] at h
  | some t => exact ⟨t, rfl⟩

/-! ### the invariant -/

structure IInv (c : Cfg) : Prop where
  /-- a thread inside the locked region holds the generator lock … -/
  lock : ∀ (tid : Queue.Tid) (t : Thread), c.ths[tid]? = some t → holdsGen t.pc = true → c.sh.genOwner = some tid
  /-- … and the lock is held by such a thread only -/
  owner : ∀ (tid : Queue.Tid), c.sh.genOwner = some tid → ∃ (t : Thread), c.ths[tid]? = some t ∧ holdsGen t.pc = true
  /-- the request between `install` and the start of the prefetch thread installed the current generator,
  and it is a healthy `init_generator` -/
  spawnG : ∀ (tid : Queue.Tid) (t : Thread), c.ths[tid]? = some t → t.pc = .iiSpawn →
    c.sh.generator = some t.g ∧ (gen? t.prog).isSome = true
  /-- **every installed queue has its prefetch thread** (recorded in `_enqueue_thread`), or the installing
  request still holds the generator lock and is about to start it -/
  gen : ∀ (k : Nat), c.sh.generator = some k →
    (∃ (tp : Queue.Tid) (t : Thread), c.sh.enqThread = some tp ∧ c.ths[tp]? = some t ∧ t.prog = .producer k) ∨
    (∃ (tid : Queue.Tid) (t : Thread), c.ths[tid]? = some t ∧ t.pc = .iiSpawn ∧ t.g = k)
  /-- `_enqueue_thread` is a prefetch thread: of the current generator, or an installation is in progress -/
  enq : ∀ (tp : Queue.Tid), c.sh.enqThread = some tp → ∃ (t : Thread) (k : Nat), c.ths[tp]? = some t ∧ t.prog = .producer k ∧
    (c.sh.generator = some k ∨ ∃ (tid : Queue.Tid) (t : Thread), c.ths[tid]? = some t ∧ t.pc = .iiSpawn)
  /-- prefetch threads work on the queue they were created for -/
  prodG : ∀ (tid : Queue.Tid) (t : Thread) (k : Nat), c.ths[tid]? = some t → t.prog = .producer k → k < c.sh.qs.length
  /-- the generator is one of the queues -/
  genLt : ∀ (k : Nat), c.sh.generator = some k → k < c.sh.qs.length

theorem holdsGen_iiSpawn : holdsGen .iiSpawn = true := rfl

theorem not_fail_of_gen {pr : Prog} (h : (gen? pr).isSome = true) : ∀ e a, pr ≠ .initFail e a := by
  intro e a hp; rw [hp] at h; cases h

theorem iinv_init (p : Nat) (progs : List Prog) (hreq : Requests progs) : IInv (init p progs) := by
  have hstart : ∀ (tid : Queue.Tid) (t : Thread), (init p progs).ths[tid]? = some t → t.pc = .start ∧ ∀ k, t.prog ≠ .producer k := by
    intro tid t ht
    cases tid with
    | zero =>
      simp only [init, List.getElem?_cons_zero, Option.some.injEq] at ht; subst ht
      exact ⟨rfl, by intro k hk; cases hk⟩
    | succ n =>
      simp only [init, List.getElem?_cons_succ, List.getElem?_map, Option.map_eq_some_iff] at ht
      obtain ⟨p0, hp0, rfl⟩ := ht
      exact ⟨rfl, hreq p0 (List.mem_of_getElem? hp0)⟩
  refine ⟨?_, ?_, ?_, ?_, ?_, ?_, ?_⟩
  · intro tid t ht hh; rw [(hstart tid t ht).1] at hh; cases hh
  · intro tid h; simp [init] at h
  · intro tid t ht hh; rw [(hstart tid t ht).1] at hh; cases hh
  · intro k h; simp [init] at h
  · intro tp h; simp [init] at h
  · intro tid t k ht hp; exact absurd hp ((hstart tid t ht).2 k)
  · intro k h; simp [init] at h

theorem iinv_step {c c' : Cfg} {tid : Queue.Tid} {lbl : String} (hI : IInv c)
    (h : step c tid = some (lbl, c')) : IInv c' := by
  obtain ⟨t, ht⟩ := step_some_thread h
  obtain ⟨t', hk, hl⟩ := step_eff ht h
  have hself := hk.get_self ht
  -- the lock, for every kind of step
  have hlock : ∀ (j : Queue.Tid) (u : Thread), c'.ths[j]? = some u → holdsGen u.pc = true → c'.sh.genOwner = some j := by
    intro j u hu hh
    rcases hk.get_inv ht hu with ⟨rfl, rfl⟩ | ⟨hj, hu0⟩ | ⟨-, -, hpc, -⟩
    · cases h0 : holdsGen t.pc with
      | true => rw [hl.stay h0 hh]; exact hI.lock _ t ht h0
      | false => exact (hl.enter h0 hh).2
    · have hown := hI.lock j u hu0 hh
      cases h0 : holdsGen t.pc <;> cases h1 : holdsGen t'.pc
      · rw [hl.out h0 h1]; exact hown
      · rw [(hl.enter h0 h1).1] at hown; cases hown
      · rw [(hl.leave h0 h1).1] at hown; exact absurd (Option.some.inj hown).symm hj
      · rw [hl.stay h0 h1]; exact hown
    · rw [hpc] at hh; cases hh
  have howner : ∀ (j : Queue.Tid), c'.sh.genOwner = some j → ∃ (u : Thread), c'.ths[j]? = some u ∧ holdsGen u.pc = true := by
    intro j hj
    cases h0 : holdsGen t.pc <;> cases h1 : holdsGen t'.pc
    · rw [hl.out h0 h1] at hj
      obtain ⟨u, hu, hh⟩ := hI.owner j hj
      have hne : j ≠ tid := by
        rintro rfl; rw [ht] at hu; rw [← Option.some.inj hu, h0] at hh; cases hh
      exact ⟨u, hk.get_other hne hu, hh⟩
    · rw [(hl.enter h0 h1).2] at hj; obtain rfl := Option.some.inj hj; exact ⟨t', hself, h1⟩
    · rw [(hl.leave h0 h1).2] at hj; cases hj
    · rw [hl.stay h0 h1, hI.lock _ t ht h0] at hj; obtain rfl := Option.some.inj hj; exact ⟨t', hself, h1⟩
  -- no other thread is between install and spawn while this one is inside the locked region
  have hexcl : ∀ (j : Queue.Tid) (u : Thread), j ≠ tid → c.ths[j]? = some u → holdsGen u.pc = true → holdsGen t.pc = true → False := by
    intro j u hj hu hh h0
    have a := hI.lock j u hu hh
    rw [hI.lock _ t ht h0] at a
    exact hj (Option.some.inj a).symm
  cases hk with
  | plain hths hgen henq hlen h1 h2 hstop =>
    refine ⟨hlock, howner, ?_, ?_, ?_, ?_, ?_⟩
    · intro j u hu hpc
      rcases (Kind.plain hths hgen henq hlen h1 h2 hstop).get_inv ht hu with ⟨rfl, rfl⟩ | ⟨hj, hu0⟩ | ⟨-, -, -, h3, -⟩
      · exact absurd hpc h2
      · rw [hgen]; exact hI.spawnG j u hu0 hpc
      · exact absurd h3 h1
    · intro k hg
      rw [hgen] at hg
      rcases hI.gen k hg with ⟨tp, u, he, hu, hp⟩ | ⟨j, u, hu, hpc, hgk⟩
      · refine Or.inl ⟨tp, ?_⟩
        by_cases hj : tp = tid
        · subst hj
          rw [ht] at hu; obtain rfl := Option.some.inj hu
          exact ⟨t', by rw [henq]; exact he, hself, by rw [hl.prog]; exact hp⟩
        · exact ⟨u, by rw [henq]; exact he, (Kind.plain hths hgen henq hlen h1 h2 hstop).get_other hj hu, hp⟩
      · have hj : j ≠ tid := by
          rintro rfl; rw [ht] at hu; rw [← Option.some.inj hu] at hpc; exact h1 hpc
        exact Or.inr ⟨j, u, (Kind.plain hths hgen henq hlen h1 h2 hstop).get_other hj hu, hpc, hgk⟩
    · intro tp he
      rw [henq] at he
      obtain ⟨u, k, hu, hp, hor⟩ := hI.enq tp he
      have hor' : c'.sh.generator = some k ∨ ∃ (j : Queue.Tid) (v : Thread), c'.ths[j]? = some v ∧ v.pc = .iiSpawn := by
        rcases hor with hg | ⟨j, v, hv, hpc⟩
        · exact Or.inl (by rw [hgen]; exact hg)
        · have hj : j ≠ tid := by
            rintro rfl; rw [ht] at hv; rw [← Option.some.inj hv] at hpc; exact h1 hpc
          exact Or.inr ⟨j, v, (Kind.plain hths hgen henq hlen h1 h2 hstop).get_other hj hv, hpc⟩
      by_cases hj : tp = tid
      · subst hj
        rw [ht] at hu; obtain rfl := Option.some.inj hu
        exact ⟨t', k, hself, by rw [hl.prog]; exact hp, hor'⟩
      · exact ⟨u, k, (Kind.plain hths hgen henq hlen h1 h2 hstop).get_other hj hu, hp, hor'⟩
    · intro j u k hu hp
      rw [hlen]
      rcases (Kind.plain hths hgen henq hlen h1 h2 hstop).get_inv ht hu with ⟨rfl, rfl⟩ | ⟨hj, hu0⟩ | ⟨-, -, -, h3, -⟩
      · exact hI.prodG _ t k ht (by rw [← hl.prog]; exact hp)
      · exact hI.prodG j u k hu0 hp
      · exact absurd h3 h1
    · intro k hg; rw [hlen]; rw [hgen] at hg; exact hI.genLt k hg
  | install hths hgen henq hlen hfresh hg h1 h2 hprog =>
    have hK : Kind c c' tid t t' := .install hths hgen henq hlen hfresh hg h1 h2 hprog
    -- the installing thread is inside the locked region, nobody else is
    have hin : holdsGen t'.pc = true := by rw [h2]; rfl
    have hnone : ∀ (j : Queue.Tid) (u : Thread), j ≠ tid → c.ths[j]? = some u → u.pc ≠ .iiSpawn := by
      intro j u hj hu hpc
      have hh : holdsGen u.pc = true := by rw [hpc]; rfl
      have a := hlock j u (hK.get_other hj hu) hh
      rw [hlock tid t' hself hin] at a
      exact hj (Option.some.inj a).symm
    refine ⟨hlock, howner, ?_, ?_, ?_, ?_, ?_⟩
    · intro j u hu hpc
      rcases hK.get_inv ht hu with ⟨rfl, rfl⟩ | ⟨hj, hu0⟩ | ⟨-, -, -, h3, -⟩
      · exact ⟨hgen, by rw [hl.prog]; exact hprog⟩
      · exact absurd hpc (hnone j u hj hu0)
      · exact absurd h3 h1
    · intro k hgk
      rw [hgen] at hgk
      exact Or.inr ⟨tid, t', hself, h2, Option.some.inj hgk⟩
    · intro tp he
      rw [henq] at he
      obtain ⟨u, k, hu, hp, -⟩ := hI.enq tp he
      by_cases hj : tp = tid
      · subst hj
        rw [ht] at hu; obtain rfl := Option.some.inj hu
        exact ⟨t', k, hself, by rw [hl.prog]; exact hp, Or.inr ⟨_, t', hself, h2⟩⟩
      · exact ⟨u, k, hK.get_other hj hu, hp, Or.inr ⟨tid, t', hself, h2⟩⟩
    · intro j u k hu hp
      rw [hlen]
      rcases hK.get_inv ht hu with ⟨rfl, rfl⟩ | ⟨hj, hu0⟩ | ⟨-, -, -, h3, -⟩
      · exact Nat.lt_succ_of_lt (hI.prodG _ t k ht (by rw [← hl.prog]; exact hp))
      · exact Nat.lt_succ_of_lt (hI.prodG j u k hu0 hp)
      · exact absurd h3 h1
    · intro k hgk
      rw [hgen] at hgk
      rw [hlen, ← Option.some.inj hgk, hg]; exact Nat.lt_succ_self _
  | spawn p hths hgen henq hlen h1 h2 hp hpc hqt =>
    have hK : Kind c c' tid t t' := .spawn p hths hgen henq hlen h1 h2 hp hpc hqt
    have h0 : holdsGen t.pc = true := by rw [h1]; rfl
    have hgt := (hI.spawnG tid t ht h1).1
    have hnew : c'.ths[c.ths.length]? = some p := by
      rw [hths, List.getElem?_append_right (by simp)]; simp
    have hnone : ∀ (j : Queue.Tid) (u : Thread), c'.ths[j]? = some u → u.pc ≠ .iiSpawn := by
      intro j u hu hpcu
      rcases hK.get_inv ht hu with ⟨rfl, rfl⟩ | ⟨hj, hu0⟩ | ⟨-, -, h3, -⟩
      · rw [h2] at hpcu; cases hpcu
      · exact hexcl j u hj hu0 (by rw [hpcu]; rfl) h0
      · rw [h3] at hpcu; cases hpcu
    refine ⟨hlock, howner, ?_, ?_, ?_, ?_, ?_⟩
    · intro j u hu hpcu; exact absurd hpcu (hnone j u hu)
    · intro k hgk
      rw [hgen, hgt] at hgk
      exact Or.inl ⟨c.ths.length, p, henq, hnew, by rw [hp, Option.some.inj hgk]⟩
    · intro tp he
      rw [henq] at he
      obtain rfl := Option.some.inj he
      exact ⟨p, t.g, hnew, hp, Or.inl (by rw [hgen]; exact hgt)⟩
    · intro j u k hu hpu
      rw [hlen]
      rcases hK.get_inv ht hu with ⟨rfl, rfl⟩ | ⟨hj, hu0⟩ | ⟨-, h3, -⟩
      · exact hI.prodG _ t k ht (by rw [← hl.prog]; exact hpu)
      · exact hI.prodG j u k hu0 hpu
      · rw [h3] at hpu
        obtain rfl := Prog.producer.inj hpu
        exact hI.genLt _ hgt
    · intro k hgk; rw [hlen]; rw [hgen] at hgk; exact hI.genLt k hgk

theorem iinv_reachable {p : Nat} {progs : List Prog} {c : Cfg} (hreq : Requests progs)
    (h : Reachable (init p progs) c) : IInv c := by
  induction h with
  | init => exact iinv_init p progs hreq
  | step _ hs ih => exact iinv_step ih hs

/-! ### one prefetch thread per queue; a locked stop works on the current generator -/

structure UInv (c : Cfg) : Prop where
  /-- at most one prefetch thread per queue -/
  uniq : ∀ (i j : Queue.Tid) (ti tj : Thread) (k : Nat), c.ths[i]? = some ti → c.ths[j]? = some tj →
    ti.prog = .producer k → tj.prog = .producer k → i = j
  /-- the queue installed by the request at `thread_start` has no prefetch thread yet -/
  fresh : ∀ (tid : Queue.Tid) (t : Thread), c.ths[tid]? = some t → t.pc = .iiSpawn →
    ∀ (j : Queue.Tid) (u : Thread), c.ths[j]? = some u → u.prog ≠ .producer t.g
  /-- a locked stop (its `maybe_stop`, its join) works on the queue that is `self._generator` -/
  stopG : ∀ (tid : Queue.Tid) (t : Thread), c.ths[tid]? = some t → t.pc = .lkStop ∨ t.pc = .lkJoin →
    c.sh.generator = some t.g

theorem uinv_init (p : Nat) (progs : List Prog) (hreq : Requests progs) : UInv (init p progs) := by
  have hstart : ∀ (tid : Queue.Tid) (t : Thread), (init p progs).ths[tid]? = some t →
      t.pc = .start ∧ ∀ k, t.prog ≠ .producer k := by
    intro tid t ht
    cases tid with
    | zero =>
      simp only [init, List.getElem?_cons_zero, Option.some.injEq] at ht; subst ht
      exact ⟨rfl, by intro k hk; cases hk⟩
    | succ n =>
      simp only [init, List.getElem?_cons_succ, List.getElem?_map, Option.map_eq_some_iff] at ht
      obtain ⟨p0, hp0, rfl⟩ := ht
      exact ⟨rfl, hreq p0 (List.mem_of_getElem? hp0)⟩
  refine ⟨?_, ?_, ?_⟩
  · intro i j ti tj k hi _ hpi; exact absurd hpi ((hstart i ti hi).2 k)
  · intro tid t ht hpc; rw [(hstart tid t ht).1] at hpc; cases hpc
  · intro tid t ht hpc; rw [(hstart tid t ht).1] at hpc; rcases hpc with h | h <;> cases h

theorem uinv_step {c c' : Cfg} {tid : Queue.Tid} {lbl : String} (hI : IInv c) (hU : UInv c)
    (h : step c tid = some (lbl, c')) : UInv c' := by
  obtain ⟨t, ht⟩ := step_some_thread h
  obtain ⟨t', hk, hl⟩ := step_eff ht h
  have hself := hk.get_self ht
  have hI' := iinv_step hI h
  -- while `tid` is inside the locked region nobody else is
  have hexcl : ∀ (j : Queue.Tid) (u : Thread), j ≠ tid → c.ths[j]? = some u → holdsGen u.pc = true →
      holdsGen t.pc = true → False := by
    intro j u hj hu hh h0
    have a := hI.lock j u hu hh
    rw [hI.lock _ t ht h0] at a
    exact hj (Option.some.inj a).symm
  have hexcl' : ∀ (j : Queue.Tid) (u : Thread), j ≠ tid → c'.ths[j]? = some u → holdsGen u.pc = true →
      holdsGen t'.pc = true → False := by
    intro j u hj hu hh h0
    have a := hI'.lock j u hu hh
    rw [hI'.lock _ t' hself h0] at a
    exact hj (Option.some.inj a).symm
  -- programs of old threads
  have hprog_inv : ∀ (j : Queue.Tid) (u : Thread), c'.ths[j]? = some u →
      (∃ u0, c.ths[j]? = some u0 ∧ u0.prog = u.prog) ∨
      (j = c.ths.length ∧ u.prog = .producer t.g ∧ t.pc = .iiSpawn) := by
    intro j u hu
    rcases hk.get_inv ht hu with ⟨rfl, rfl⟩ | ⟨hj, hu0⟩ | ⟨hj, hp, -, h3, -⟩
    · exact Or.inl ⟨t, ht, hl.prog.symm⟩
    · exact Or.inl ⟨u, hu0, rfl⟩
    · exact Or.inr ⟨hj, hp, h3⟩
  have hlt : ∀ (j : Queue.Tid) (u : Thread), c.ths[j]? = some u → j < c.ths.length := by
    intro j u hu; rcases List.getElem?_eq_some_iff.mp hu with ⟨h, _⟩; exact h
  refine ⟨?_, ?_, ?_⟩
  · intro i j ti tj k hi hj hpi hpj
    rcases hprog_inv i ti hi with ⟨ui, hui, hpui⟩ | ⟨hil, hpi', hsp⟩ <;>
      rcases hprog_inv j tj hj with ⟨uj, huj, hpuj⟩ | ⟨hjl, hpj', hsp'⟩
    · exact hU.uniq i j ui uj k hui huj (by rw [hpui]; exact hpi) (by rw [hpuj]; exact hpj)
    · rw [hpj] at hpj'; obtain rfl := Prog.producer.inj hpj'
      exact absurd (by rw [hpui]; exact hpi) (hU.fresh tid t ht hsp' i ui hui)
    · rw [hpi] at hpi'; obtain rfl := Prog.producer.inj hpi'
      exact absurd (by rw [hpuj]; exact hpj) (hU.fresh tid t ht hsp j uj huj)
    · rw [hil, hjl]
  · intro a ta ha hpc j u hu
    have hha : holdsGen ta.pc = true := by rw [hpc]; rfl
    -- the thread at `iiSpawn` in `c'` is the stepping thread right after its install, or an old one
    rcases hk.get_inv ht ha with ⟨rfl, rfl⟩ | ⟨haj, ha0⟩ | ⟨-, -, h3, -⟩
    · cases hk with
      | plain _ _ _ _ _ h2 _ => exact absurd hpc h2
      | spawn _ _ _ _ _ _ h2 => rw [h2] at hpc; cases hpc
      | install hths hgen henq hlen hfresh hg h1 h2 hprog =>
        rw [hg]
        rcases hprog_inv j u hu with ⟨u0, hu0, hpu0⟩ | ⟨-, -, hsp⟩
        · intro hp
          have := hI.prodG j u0 c.sh.qs.length hu0 (by rw [hpu0]; exact hp)
          exact Nat.lt_irrefl _ this
        · exact absurd hsp h1
    · -- an old thread at `iiSpawn` other than the stepping one: the stepping thread is outside the region
      have hout : holdsGen t.pc = false := by
        cases h0 : holdsGen t.pc with
        | false => rfl
        | true => exact (hexcl a ta haj ha0 hha h0).elim
      have hout' : holdsGen t'.pc = false := by
        cases h0 : holdsGen t'.pc with
        | false => rfl
        | true => exact (hexcl' a ta haj ha hha h0).elim
      rcases hprog_inv j u hu with ⟨u0, hu0, hpu0⟩ | ⟨-, -, hsp⟩
      · rw [← hpu0]; exact hU.fresh a ta ha0 hpc j u0 hu0
      · rw [hsp] at hout; cases hout
    · rw [h3] at hpc; cases hpc
  · intro a ta ha hpc
    have hha : holdsGen ta.pc = true := by rcases hpc with h | h <;> rw [h] <;> rfl
    rcases hk.get_inv ht ha with ⟨rfl, rfl⟩ | ⟨haj, ha0⟩ | ⟨-, -, h3, -⟩
    · cases hk with
      | plain hths hgen henq hlen h1 h2 hstop =>
        rw [hgen]
        rcases hstop hpc with ⟨hp0, hg0⟩ | ⟨-, hg0⟩
        · rw [hg0]; exact hU.stopG _ t ht hp0
        · exact hg0
      | spawn _ _ _ _ _ _ h2 => rw [h2] at hpc; rcases hpc with h | h <;> cases h
      | install _ _ _ _ _ _ _ h2 => rw [h2] at hpc; rcases hpc with h | h <;> cases h
    · have hout : holdsGen t.pc = false := by
        cases h0 : holdsGen t.pc with
        | false => rfl
        | true => exact (hexcl a ta haj ha0 hha h0).elim
      have hout' : holdsGen t'.pc = false := by
        cases h0 : holdsGen t'.pc with
        | false => rfl
        | true => exact (hexcl' a ta haj ha hha h0).elim
      cases hk with
      | plain hths hgen _ _ _ _ _ => rw [hgen]; exact hU.stopG a ta ha0 hpc
      | spawn _ _ _ _ _ h1 => rw [h1] at hout; cases hout
      | install _ _ _ _ _ _ _ h2 => rw [h2] at hout'; cases hout'
    · rw [h3] at hpc; rcases hpc with h | h <;> cases h

theorem uinv_reachable {p : Nat} {progs : List Prog} {c : Cfg} (hreq : Requests progs)
    (h : Reachable (init p progs) c) : UInv c := by
  induction h with
  | init => exact uinv_init p progs hreq
  | step hr hs ih => exact uinv_step (iinv_reachable hreq hr) ih hs

end MlModel.Prefetch
