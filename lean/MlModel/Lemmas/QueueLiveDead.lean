import MlModel.Lemmas.QueueLiveEn
/-!
# Liveness of the IteratorQueue LTS — a configuration without enabled step is final

`stuck_all_parked`: if no step is enabled then all three locks are free and every thread that is
not `done` is parked on a condition without having been notified (lock-order acyclicity).
`no_deadlock_of_live`: with the no-lost-wake-up invariant such a configuration has no parked
thread at all.
-/
namespace MlModel.Queue

theorem step_isSome {c : Cfg} {tid : Tid} {alt : Bool} {t : Thread} (ht : c.ths[tid]? = some t) :
    (step c tid alt).isSome = (stepThread c.sh t tid alt).isSome := by
  simp only [step, ht]
  cases hs : stepThread c.sh t tid alt with
  | none => rfl
  | some r => obtain ⟨a, b, d⟩ := r; rfl

theorem enabled_ne_nil {c : Cfg} {tid : Tid} {alt : Bool} (h : (step c tid alt).isSome = true) :
    enabled c ≠ [] := by
  have hlt : tid < c.ths.length := by
    rcases Nat.lt_or_ge tid c.ths.length with h1 | h1
    · exact h1
    · exfalso
      have : c.ths[tid]? = none := List.getElem?_eq_none h1
      simp [step, this] at h
  have : (tid, alt) ∈ enabled c := by
    unfold enabled
    rw [List.mem_flatMap]
    refine ⟨tid, List.mem_range.mpr hlt, ?_⟩
    rw [List.mem_map]
    refine ⟨alt, ?_, rfl⟩
    rw [List.mem_filter]
    exact ⟨by cases alt <;> simp, h⟩
  intro e; rw [e] at this; cases this

theorem holds_st_pc (pc : Pc) (h : holds .st pc = true) :
    pc ≠ .done ∧ acqPc pc = none ∧ consWakePc pc = false ∧ prodWakePc pc = false := by
  cases pc <;> simp_all [holds, acqPc, consWakePc, prodWakePc]

theorem holds_deq_pc (pc : Pc) (h : holds .deq pc = true) :
    pc ≠ .done ∧ (acqPc pc = none ∨ acqPc pc = some .st) ∧ consWakePc pc = false ∧ prodWakePc pc = false := by
  cases pc <;> simp_all [holds, acqPc, consWakePc, prodWakePc]

theorem holds_enq_pc (pc : Pc) (h : holds .enq pc = true) :
    pc ≠ .done ∧ (acqPc pc = none ∨ acqPc pc = some .st) ∧ consWakePc pc = false ∧ prodWakePc pc = false := by
  cases pc <;> simp_all [holds, acqPc, consWakePc, prodWakePc]

/-- **Lock-order acyclicity**: in a configuration without enabled step all locks are free and every
thread is `done` or parked without notification. -/
theorem stuck_all_parked {c : Cfg} (hl : LockInv c) (hdead : enabled c = []) :
    (∀ l, c.sh.owner l = none) ∧
    ∀ tid t, c.ths[tid]? = some t →
      t.pc = .done ∨ (consWakePc t.pc = true ∧ tid ∉ c.sh.deqNotified) ∨
        (prodWakePc t.pc = true ∧ tid ∉ c.sh.enqNotified) := by
  have hA : ∀ tid t, c.ths[tid]? = some t → blocked c.sh t tid = true := by
    intro tid t ht
    rcases stepThread_en (hl.1 tid t ht) with h | h
    · exact absurd hdead (enabled_ne_nil (by rw [step_isSome ht]; exact h))
    · exact h
  have hst : c.sh.owner .st = none := by
    cases ho : c.sh.owner .st with
    | none => rfl
    | some u =>
      exfalso
      have hu := hl.2 .st u ho
      obtain ⟨tu, htu⟩ : ∃ tu, c.ths[u]? = some tu := ⟨c.ths[u], List.getElem?_eq_getElem hu⟩
      obtain ⟨h1, h2, h3, h4⟩ := holds_st_pc tu.pc ((hl.1 u tu htu .st).mp ho)
      have := hA u tu htu
      simp [blocked, acqBlocked, h1, h2, h3, h4] at this
  have hcond : ∀ l, l ≠ .st → c.sh.owner l = none := by
    intro l hne
    cases ho : c.sh.owner l with
    | none => rfl
    | some u =>
      exfalso
      have hu := hl.2 l u ho
      obtain ⟨tu, htu⟩ : ∃ tu, c.ths[u]? = some tu := ⟨c.ths[u], List.getElem?_eq_getElem hu⟩
      have hh := (hl.1 u tu htu l).mp ho
      have := hA u tu htu
      cases l with
      | st => exact hne rfl
      | deq =>
        obtain ⟨h1, h2, h3, h4⟩ := holds_deq_pc tu.pc hh
        rcases h2 with h2 | h2 <;> simp [blocked, acqBlocked, h1, h2, h3, h4, hst] at this
      | enq =>
        obtain ⟨h1, h2, h3, h4⟩ := holds_enq_pc tu.pc hh
        rcases h2 with h2 | h2 <;> simp [blocked, acqBlocked, h1, h2, h3, h4, hst] at this
  have hall : ∀ l, c.sh.owner l = none := by
    intro l; cases l
    · exact hcond .deq (by simp)
    · exact hcond .enq (by simp)
    · exact hst
  refine ⟨hall, fun tid t ht => ?_⟩
  have := hA tid t ht
  unfold blocked at this
  have hacq : acqBlocked c.sh t.pc = false := by
    unfold acqBlocked
    cases acqPc t.pc with
    | none => rfl
    | some l => simp [hall l]
  rw [hacq] at this
  simp only [hall, Option.isSome_none, Bool.false_or, Bool.or_false, Bool.or_eq_true,
    Bool.and_eq_true, beq_iff_eq, Bool.not_eq_true', List.contains_eq_mem, decide_eq_false_iff_not] at this
  rcases this with (h | h) | h
  · exact Or.inl h
  · exact Or.inr (Or.inl h)
  · exact Or.inr (Or.inr h)

/-- with a timeout configured a parked thread whose lock is free can always wake up by itself -/
theorem wake_timeout {s : Shared} {t : Thread} {tid : Tid} (hto : s.timeout = true)
    (hfree : ∀ l, s.owner l = none) :
    (consWakePc t.pc = true → tid ∉ s.deqNotified → (stepThread s t tid true).isSome = true) ∧
    (prodWakePc t.pc = true → tid ∉ s.enqNotified → (stepThread s t tid true).isSome = true) := by
  have hd := hfree .deq; have he := hfree .enq
  constructor <;> intro hp hn <;> unfold stepThread <;> cases hpc : t.pc <;>
    simp_all [consWakePc, prodWakePc, waitWake, Shared.owner]

theorem allDone_of {c : Cfg} (h : ∀ (tid : Tid) (t : Thread), c.ths[tid]? = some t → t.pc = .done) : c.allDone = true := by
  unfold Cfg.allDone
  rw [List.all_eq_true]
  intro t ht
  obtain ⟨j, hj⟩ := List.getElem?_of_mem ht
  simp [h j t hj]

/-- **No deadlock when a timeout is configured** (needs only the lock discipline). -/
theorem no_deadlock_timeout {c : Cfg} (hl : LockInv c) (hto : c.sh.timeout = true)
    (hdead : enabled c = []) : c.allDone = true := by
  obtain ⟨hfree, hpark⟩ := stuck_all_parked hl hdead
  apply allDone_of
  intro tid t ht
  rcases hpark tid t ht with h | ⟨h1, h2⟩ | ⟨h1, h2⟩
  · exact h
  · exact absurd hdead (enabled_ne_nil (by rw [step_isSome ht]; exact (wake_timeout hto hfree).1 h1 h2))
  · exact absurd hdead (enabled_ne_nil (by rw [step_isSome ht]; exact (wake_timeout hto hfree).2 h1 h2))

theorem parked_class (t : Thread)
    (h : t.pc = .done ∨ consWakePc t.pc = true ∨ prodWakePc t.pc = true) :
    sawEmpty t = false ∧ sawFull t = false ∧ activeC t = false ∧ debtD t = false ∧
    debtDAll t = false ∧ debtE t = false ∧ commitP t = false ∧ debtEAll t = false := by
  cases hp : t.pc <;>
    simp_all [consWakePc, prodWakePc, sawEmpty, sawFull, activeC, debtD, debtDAll, debtE, commitP, debtEAll]

theorem wake_kind (t : Thread) (htok : TOK t) :
    (consWakePc t.pc = true → isCons t = true ∧ isStopper t = false ∧ isProd t = false) ∧
    (prodWakePc t.pc = true → isCons t = false ∧ isStopper t = false ∧ isProd t = true) := by
  have hk := htok.kind
  cases hp : t.pc <;> simp_all [consWakePc, prodWakePc, pcKind, isCons, isStopper, isProd]

theorem XOK_cap {s : Shared} {t : Thread} (h : XOK s t) (hp : prodWakePc t.pc = true) : s.cap ≠ 0 := by
  unfold XOK at h
  cases hpc : t.pc <;> simp_all [prodWakePc]

/-- **No deadlock** from the no-lost-wake-up invariant.
`hP`: somebody will end the enqueueing (a producer, or a stopper) if there is a consumer;
`hC`: somebody will make room in a bounded queue (a consumer, or a stopper). -/
theorem no_deadlock_of_live {c : Cfg} (hv : Live c) (hto : c.sh.timeout = false)
    (hP : 0 < c.ths.countP isProd ∨ anyT c isStopper ∨ ¬ anyT c isCons)
    (hC : c.sh.cap = 0 ∨ anyT c isCons ∨ anyT c isStopper)
    (hdead : enabled c = []) : c.allDone = true := by
  have hb := hv.base
  obtain ⟨hfree, hpark⟩ := stuck_all_parked hb.lock hdead
  obtain ⟨ndD, ndE, memD, memE⟩ := hb.wait
  have hpark' : ∀ (tid : Tid) (t : Thread), c.ths[tid]? = some t →
      t.pc = .done ∨ consWakePc t.pc = true ∨ prodWakePc t.pc = true := by
    intro tid t ht
    rcases hpark tid t ht with h | h | h
    · exact Or.inl h
    · exact Or.inr (Or.inl h.1)
    · exact Or.inr (Or.inr h.1)
  have hno : ∀ P : Thread → Bool,
      (∀ t : Thread, (t.pc = .done ∨ consWakePc t.pc = true ∨ prodWakePc t.pc = true) → P t = false) →
      ¬ anyT c P := by
    rintro P hPf ⟨t, ht, hp⟩
    obtain ⟨j, hj⟩ := List.getElem?_of_mem ht
    rw [hPf t (hpark' j t hj)] at hp; cases hp
  have hdn : c.sh.deqNotified = [] := by
    rw [List.eq_nil_iff_forall_not_mem]
    intro x hx
    obtain ⟨t, ht, hc⟩ := (memD x).mp (by unfold wlD; exact List.mem_append_left _ hx)
    rcases hpark x t ht with h | h | h
    · rw [h] at hc; simp [consWakePc] at hc
    · exact h.2 hx
    · have := (wake_kind t (hb.tok t (List.mem_of_getElem? ht)))
      have a := (this.1 hc).2.2; have b := (this.2 h.1).2.2
      rw [a] at b; cases b
  have hen : c.sh.enqNotified = [] := by
    rw [List.eq_nil_iff_forall_not_mem]
    intro x hx
    obtain ⟨t, ht, hc⟩ := (memE x).mp (by unfold wlE; exact List.mem_append_left _ hx)
    rcases hpark x t ht with h | h | h
    · rw [h] at hc; simp [prodWakePc] at hc
    · have := (wake_kind t (hb.tok t (List.mem_of_getElem? ht)))
      have a := (this.1 h.1).2.2; have b := (this.2 hc).2.2
      rw [a] at b; cases b
    · exact h.2 hx
  -- a parked consumer / producer is in the wait list
  have hcw : ∀ (tid : Tid) (t : Thread), c.ths[tid]? = some t → consWakePc t.pc = true → c.sh.deqWait ≠ [] := by
    intro tid t ht hc
    have : tid ∈ wlD c.sh := (memD tid).mpr ⟨t, ht, hc⟩
    unfold wlD at this; rw [hdn, List.nil_append] at this
    intro e; rw [e] at this; cases this
  have hpw : ∀ (tid : Tid) (t : Thread), c.ths[tid]? = some t → prodWakePc t.pc = true → c.sh.enqWait ≠ [] := by
    intro tid t ht hc
    have : tid ∈ wlE c.sh := (memE tid).mpr ⟨t, ht, hc⟩
    unfold wlE at this; rw [hen, List.nil_append] at this
    intro e; rw [e] at this; cases this
  -- a stopper has finished, hence enqueueing is done
  have hstop : anyT c isStopper → c.sh.enqueueDone = true := by
    rintro ⟨t, ht, hs⟩
    obtain ⟨j, hj⟩ := List.getElem?_of_mem ht
    have hk := wake_kind t (hb.tok t ht)
    rcases hpark' j t hj with h | h | h
    · have := (hb.xok t ht).2.1 (by rw [h]; exact hs)
      exact (enqueueDone_iff _).mpr (Or.inr (Or.inl this))
    · rw [(hk.1 h).2.1] at hs; cases hs
    · rw [(hk.2 h).2.1] at hs; cases hs
  -- a consumer is parked or has finished, and then enqueueing is done
  have hcons : anyT c isCons → c.sh.deqWait ≠ [] ∨ c.sh.enqueueDone = true := by
    rintro ⟨t, ht, hs⟩
    obtain ⟨j, hj⟩ := List.getElem?_of_mem ht
    have hk := wake_kind t (hb.tok t ht)
    rcases hpark' j t hj with h | h | h
    · right
      have : armed t = true := by unfold armed; rw [h]; exact hs
      rcases (hb.xok t ht).2.2.2.2.1 this with h1 | h1
      · exact hb.i3 h1
      · rw [hto] at h1; cases h1
    · exact Or.inl (hcw j t hj h)
    · rw [(hk.2 h).1] at hs; cases hs
  have nSE := hno sawEmpty (fun t h => (parked_class t h).1)
  have nSF := hno sawFull (fun t h => (parked_class t h).2.1)
  have nAC := hno activeC (fun t h => (parked_class t h).2.2.1)
  have nDD := hno debtD (fun t h => (parked_class t h).2.2.2.1)
  have nDA := hno debtDAll (fun t h => (parked_class t h).2.2.2.2.1)
  have nDE := hno debtE (fun t h => (parked_class t h).2.2.2.2.2.1)
  have nCP := hno commitP (fun t h => (parked_class t h).2.2.2.2.2.2.1)
  have nEA := hno debtEAll (fun t h => (parked_class t h).2.2.2.2.2.2.2)
  by_cases hPC : c.sh.deqWait = []
  · by_cases hPP : c.sh.enqWait = []
    · -- nobody is parked: everybody is done
      apply allDone_of
      intro tid t ht
      rcases hpark' tid t ht with h | h | h
      · exact h
      · exact absurd hPC (hcw tid t ht h)
      · exact absurd hPP (hpw tid t ht h)
    · -- only producers are parked
      exfalso
      have hnd : ¬ c.sh.enqueueDone = true := fun hd => nEA (hv.k2 (Or.inl hPP) hd)
      -- a parked producer exists, so the queue is bounded
      obtain ⟨x, hx⟩ := List.exists_mem_of_ne_nil _ hPP
      obtain ⟨t, ht, hc⟩ := (memE x).mp (by unfold wlE; exact List.mem_append_right _ hx)
      have hcap : c.sh.cap ≠ 0 := XOK_cap (hb.xok t (List.mem_of_getElem? ht)) hc
      rcases hC with h | h | h
      · exact hcap h
      · rcases hcons h with h | h
        · exact h hPC
        · exact hnd h
      · exact hnd (hstop h)
  · -- a consumer is parked
    exfalso
    have hnd : ¬ c.sh.enqueueDone = true := fun hd => nDA (hv.j2 (Or.inl hPC) hd)
    have hq : c.sh.q = [] := by
      cases hqq : c.sh.q with
      | nil => rfl
      | cons a l =>
        exfalso
        rcases hv.j1 (Or.inl hPC) (by rw [hqq]; simp) with h | h | h | h
        · exact h hdn
        · exact nAC h
        · exact nDD h
        · exact hnd h
    -- some producer has not stopped, and it is parked
    obtain ⟨x, hx⟩ := List.exists_mem_of_ne_nil _ hPC
    obtain ⟨tc, htc, hcc⟩ := (memD x).mp (by unfold wlD; exact List.mem_append_right _ hx)
    have hisc : anyT c isCons :=
      ⟨tc, List.mem_of_getElem? htc, ((wake_kind tc (hb.tok tc (List.mem_of_getElem? htc))).1 hcc).1⟩
    have hnd' := hnd
    rw [enqueueDone_iff] at hnd'
    have hsr : c.sh.stopRequested = false := by
      cases h : c.sh.stopRequested with
      | false => rfl
      | true => exact absurd (Or.inr (Or.inl h)) hnd'
    obtain ⟨e1, e2, e3⟩ := hb.cnt hsr
    have hpos : 0 < c.ths.countP isProd := by
      rcases hP with h | h | h
      · exact h
      · exact absurd (hstop h) hnd
      · exact absurd hisc h
    have hle1 : c.ths.countP pastT ≤ c.ths.countP pastS :=
      List.countP_mono_left (fun y _ h => pastT_pastS y h)
    have hle2 : c.ths.countP pastS ≤ c.ths.countP isProd :=
      List.countP_mono_left (fun y _ h => pastS_isProd y h)
    have hlt : c.ths.countP pastT < c.ths.countP isProd := by
      rcases Nat.lt_or_ge (c.ths.countP pastT) (c.ths.countP isProd) with h | h
      · exact h
      · exfalso
        apply hnd'
        right; right
        rw [e1, e2, e3]
        exact ⟨by omega, by omega, by omega⟩
    obtain ⟨a, ha, hap, hat⟩ := exists_of_countP_lt pastT isProd hlt
    obtain ⟨j, hj⟩ := List.getElem?_of_mem ha
    have hk := wake_kind a (hb.tok a ha)
    have hPP : c.sh.enqWait ≠ [] := by
      rcases hpark' j a hj with h | h | h
      · exfalso
        apply hnd
        apply hb.early
        refine ⟨a, ha, ?_⟩
        unfold early; unfold pastT at hat
        rw [h] at hat ⊢
        simp only [hap, Bool.true_and] at hat ⊢
        simp [hat]
      · rw [(hk.1 h).2.2] at hap; cases hap
      · exact hpw j a hj h
    rcases hv.k1 (Or.inl hPP) with h | h | h | h | h
    · exact h hq
    · exact h hen
    · exact nDE h
    · exact nCP h
    · exact hnd h

end MlModel.Queue
