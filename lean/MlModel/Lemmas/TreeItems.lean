import MlModel.Lemmas.TreeDecide
/-!
# `_dfs_iter_tree`: every leaf exactly once, in DFS order, with a path that reads back that leaf
-/
namespace MlModel.Tree

/-! ## `collectE` -/

/-- (core-only stand-in for Mathlib's `Forall2`) -/
inductive Forall2 {α β : Type} (R : α → β → Prop) : List α → List β → Prop
  | nil : Forall2 R [] []
  | cons {a : α} {b : β} {l1 : List α} {l2 : List β} : R a b → Forall2 R l1 l2 → Forall2 R (a :: l1) (b :: l2)

theorem collectE_ok {α β : Type} {g : α → Except ErrKind (List β)} :
    ∀ {xs : List α} {res : List β}, collectE g xs = .ok res →
      ∃ parts : List (List β), Forall2 (fun x part => g x = .ok part) xs parts ∧ res = parts.flatten := by
  intro xs
  induction xs with
  | nil => intro res h; simp [collectE] at h; subst h; exact ⟨[], .nil, rfl⟩
  | cons x xs ih =>
    intro res h
    simp only [collectE] at h
    split at h
    · cases h
    · rename_i ys hy
      split at h
      · cases h
      · rename_i zs hz
        cases h
        obtain ⟨parts, hf, rfl⟩ := ih hz
        exact ⟨ys :: parts, .cons hy hf, by simp⟩

theorem collectE_of_parts {α β : Type} {g : α → Except ErrKind (List β)} :
    ∀ {xs : List α} {parts : List (List β)}, Forall2 (fun x part => g x = .ok part) xs parts →
      collectE g xs = .ok parts.flatten := by
  intro xs parts hf
  induction hf with
  | nil => rfl
  | cons hy _ ih => simp [collectE, hy, ih]

theorem mem_collectE {α β : Type} {g : α → Except ErrKind (List β)} {xs : List α} {res : List β}
    (h : collectE g xs = .ok res) (p : β) : p ∈ res ↔ ∃ x ∈ xs, ∃ ys, g x = .ok ys ∧ p ∈ ys := by
  induction xs generalizing res with
  | nil => simp [collectE] at h; subst h; simp
  | cons x xs ih =>
    simp only [collectE] at h
    split at h
    · cases h
    · rename_i ys hy
      split at h
      · cases h
      · rename_i zs hz
        cases h
        rw [List.mem_append, ih hz]
        constructor
        · rintro (hp | ⟨x', hx', ys', hg', hp'⟩)
          · exact ⟨x, by simp, ys, hy, hp⟩
          · exact ⟨x', by simp [hx'], ys', hg', hp'⟩
        · rintro ⟨x', hx', ys', hg', hp'⟩
          rcases List.mem_cons.mp hx' with e | e
          · subst e; rw [hy] at hg'; cases hg'; exact Or.inl hp'
          · exact Or.inr ⟨x', e, ys', hg', hp'⟩

/-- The concatenation has no duplicates when every part has none and parts of different elements are
disjoint (`Pairwise` over the input list). -/
theorem nodup_collectE {α β : Type} {g : α → Except ErrKind (List β)} {xs : List α} {res : List β}
    (h : collectE g xs = .ok res) (h1 : ∀ x ∈ xs, ∀ ys, g x = .ok ys → ys.Nodup)
    (h2 : xs.Pairwise fun x y => ∀ ys zs, g x = .ok ys → g y = .ok zs → ∀ p ∈ ys, p ∉ zs) : res.Nodup := by
  induction xs generalizing res with
  | nil => simp [collectE] at h; subst h; simp
  | cons x xs ih =>
    simp only [collectE] at h
    split at h
    · cases h
    · rename_i ys hy
      split at h
      · cases h
      · rename_i zs hz
        cases h
        rw [List.pairwise_cons] at h2
        rw [List.nodup_append]
        refine ⟨h1 x (by simp) ys hy, ih hz (fun x' hx' => h1 x' (by simp [hx'])) h2.2, ?_⟩
        intro a ha b hb hab
        subst hab
        obtain ⟨x', hx', ys', hg', hp'⟩ := (mem_collectE hz a).mp hb
        exact h2.1 x' hx' ys ys' hy hg' a ha hp'

/-! ## leaf walks -/

/-- `LeafWalk h r q x`: following the *stored* keys `q` (dict keys as stored, `Index(i)` for sequence
positions) from `r` arrives at `x`, and `x` is a leaf (anything that is not a non-empty dict/list/tuple). -/
inductive LeafWalk (h : Heap) : Ref → Path → Ref → Prop
  | leaf {r : Ref} {n : Node} : h[r]? = some n → n.children = [] → LeafWalk h r [] r
  | step {r : Ref} {n : Node} {k : PKey} {c : Ref} {q : Path} {x : Ref} :
      h[r]? = some n → (k, c) ∈ n.children → LeafWalk h c q x → LeafWalk h r (k :: q) x

theorem dfs_succ (h : Heap) (fuel : Nat) (r : Ref) (parent : Path) {n : Node} (hn : h[r]? = some n) :
    dfs h (fuel + 1) r parent =
      if n.children.isEmpty then dfs.dfsLeaf h r parent
      else collectE (fun kc => dfs h fuel kc.2 (parent ++ [kc.1])) n.children := by
  simp only [dfs, hn]

theorem dfsLeaf_nonroot (h : Heap) (r : Ref) {parent : Path} (hp : parent ≠ []) :
    dfs.dfsLeaf h r parent = .ok [parent] := by
  simp [dfs.dfsLeaf, hp]

/-- **Soundness**: every listed path is `parent ++ q` for a leaf walk `q`. -/
theorem dfs_sound (h : Heap) : ∀ (fuel : Nat) (r : Ref) (parent : Path) (ps : List Path),
    dfs h fuel r parent = .ok ps → (parent ≠ [] ∨ ∃ n, h[r]? = some n ∧ n.children ≠ []) →
    ∀ p ∈ ps, ∃ q x, p = parent ++ q ∧ LeafWalk h r q x := by
  intro fuel
  induction fuel with
  | zero => intro r parent ps hd; simp [dfs] at hd
  | succ fuel ih =>
    intro r parent ps hd hroot p hp
    cases hn : h[r]? with
    | none => simp [dfs, hn] at hd
    | some n =>
      rw [dfs_succ h fuel r parent hn] at hd
      by_cases hch : n.children = []
      · have hpar : parent ≠ [] := by
          rcases hroot with h1 | ⟨n', hn', hc'⟩
          · exact h1
          · rw [hn] at hn'; cases hn'; exact absurd hch hc'
        simp only [hch, List.isEmpty_nil, if_true] at hd
        rw [dfsLeaf_nonroot h r hpar] at hd
        cases hd
        simp at hp; subst hp
        exact ⟨[], r, by simp, LeafWalk.leaf hn hch⟩
      · have hne : n.children.isEmpty = false := by
          cases hc : n.children with
          | nil => exact absurd hc hch
          | cons _ _ => rfl
        simp only [hne] at hd
        obtain ⟨kc', hkc', ys, hg, hpy⟩ := (mem_collectE hd p).mp hp
        obtain ⟨q, x, rfl, hw⟩ := ih kc'.2 (parent ++ [kc'.1]) ys hg (Or.inl (by simp)) p hpy
        exact ⟨kc'.1 :: q, x, by simp, LeafWalk.step hn hkc' hw⟩

/-- **Completeness**: every leaf walk is listed. -/
theorem dfs_complete (h : Heap) : ∀ (fuel : Nat) (r : Ref) (parent : Path) (ps : List Path),
    dfs h fuel r parent = .ok ps → (parent ≠ [] ∨ ∃ n, h[r]? = some n ∧ n.children ≠ []) →
    ∀ q x, LeafWalk h r q x → parent ++ q ∈ ps := by
  intro fuel
  induction fuel with
  | zero => intro r parent ps hd; simp [dfs] at hd
  | succ fuel ih =>
    intro r parent ps hd hroot q x hw
    cases hw with
    | @leaf _ n hn hch =>
      rw [dfs_succ h fuel r parent hn] at hd
      have hpar : parent ≠ [] := by
        rcases hroot with h1 | ⟨n', hn', hc'⟩
        · exact h1
        · rw [hn] at hn'; cases hn'; exact absurd hch hc'
      simp only [hch, List.isEmpty_nil, if_true] at hd
      rw [dfsLeaf_nonroot h r hpar] at hd
      cases hd; simp
    | @step _ n k c q' _ hn hmem hw' =>
      rw [dfs_succ h fuel r parent hn] at hd
      have hne : n.children.isEmpty = false := by
        cases hc : n.children with
        | nil => rw [hc] at hmem; cases hmem
        | cons _ _ => rfl
      simp only [hne] at hd
      obtain ⟨parts, hf, hflat⟩ := collectE_ok hd
      -- the part of child (k, c)
      have : ∃ ys, dfs h fuel c (parent ++ [k]) = .ok ys := by
        clear hd hflat hne
        generalize n.children = kcs at hf hmem
        induction hf with
        | nil => cases hmem
        | @cons a b l1 l2 hab _ ih2 =>
          rcases List.mem_cons.mp hmem with e | e
          · subst e; exact ⟨b, hab⟩
          · exact ih2 e
      obtain ⟨ys, hys⟩ := this
      have hin := ih c (parent ++ [k]) ys hys (Or.inl (by simp)) q' x hw'
      have : parent ++ k :: q' = (parent ++ [k]) ++ q' := by simp
      rw [this]
      exact (mem_collectE hd _).mpr ⟨(k, c), hmem, ys, hys, hin⟩

/-- More recursion budget never changes a result. -/
theorem dfs_mono (h : Heap) : ∀ (fuel : Nat) (r : Ref) (parent : Path) (ps : List Path),
    dfs h fuel r parent = .ok ps → dfs h (fuel + 1) r parent = .ok ps := by
  intro fuel
  induction fuel with
  | zero => intro r parent ps hd; simp [dfs] at hd
  | succ fuel ih =>
    intro r parent ps hd
    cases hn : h[r]? with
    | none => simp [dfs, hn] at hd
    | some n =>
      rw [dfs_succ h fuel r parent hn] at hd
      rw [dfs_succ h (fuel + 1) r parent hn]
      by_cases hch : n.children.isEmpty = true
      · simp only [hch, if_true] at hd ⊢; exact hd
      · simp only [hch] at hd ⊢
        obtain ⟨parts, hf, rfl⟩ := collectE_ok hd
        apply collectE_of_parts
        clear hd hch
        generalize n.children = kcs at hf
        induction hf with
        | nil => exact .nil
        | cons hab _ ih2 => exact .cons (ih _ _ _ hab) ih2

theorem dfs_mono_le (h : Heap) {fuel fuel' : Nat} (hle : fuel ≤ fuel') {r : Ref} {parent : Path}
    {ps : List Path} (hd : dfs h fuel r parent = .ok ps) : dfs h fuel' r parent = .ok ps := by
  induction hle with
  | refl => exact hd
  | step _ ih => exact dfs_mono h _ r parent ps ih

end MlModel.Tree

namespace MlModel.Tree

/-! ## children: keys are distinct and read back -/

/-- Python dict invariants that matter here: keys are pairwise distinct **up to `==`** (an `Index(i)` and the
int `i` are never both keys of one dict), and no key is a `Literal` object (those only arise from `set` with a
`Literal` key, outside the laws). -/
def GoodDicts (h : Heap) : Prop :=
  ∀ (r : Ref) (es : List (DKey × Ref)), h[r]? = some (.dict es) →
    (es.map (·.1.norm)).Nodup ∧ ∀ e ∈ es, ∀ id v, e.1 ≠ .lit id v

theorem mem_seqChildren {rs : List Ref} {start : Nat} {k : PKey} {c : Ref} :
    (k, c) ∈ seqChildren rs start ↔ ∃ i : Nat, rs[i]? = some c ∧ k = .idx ((start + i : Nat) : Int) := by
  induction rs generalizing start with
  | nil => simp [seqChildren]
  | cons a rs ih =>
    simp only [seqChildren, List.mem_cons, Prod.mk.injEq]
    constructor
    · rintro (⟨rfl, rfl⟩ | hm)
      · exact ⟨0, by simp, by simp⟩
      · obtain ⟨i, hi, rfl⟩ := ih.mp hm
        exact ⟨i + 1, by simpa using hi, by congr 1; omega⟩
    · rintro ⟨i, hi, rfl⟩
      cases i with
      | zero => simp at hi; subst hi; exact Or.inl ⟨by simp, rfl⟩
      | succ j =>
        refine Or.inr (ih.mpr ⟨j, by simpa using hi, ?_⟩)
        congr 1; omega

theorem seqChildren_keys_pairwise (rs : List Ref) (start : Nat) :
    (seqChildren rs start).Pairwise fun a b => a.1 ≠ b.1 := by
  induction rs generalizing start with
  | nil => simp [seqChildren]
  | cons a rs ih =>
    simp only [seqChildren, List.pairwise_cons]
    refine ⟨?_, ih (start + 1)⟩
    intro b hb
    obtain ⟨k, c⟩ := b
    obtain ⟨i, _, rfl⟩ := mem_seqChildren.mp hb
    simp only [ne_eq, PKey.idx.injEq]
    omega

theorem dkeyToPKey_inj {a b : DKey} (h : dkeyToPKey a = dkeyToPKey b) : a = b := by
  cases a <;> cases b <;> simp_all [dkeyToPKey]

theorem children_keys_pairwise {h : Heap} (hg : GoodDicts h) {r : Ref} {n : Node} (hn : h[r]? = some n) :
    n.children.Pairwise fun a b => a.1 ≠ b.1 := by
  cases n with
  | dict es =>
    have hnd := (hg r es hn).1
    simp only [Node.children]
    rw [List.pairwise_map]
    rw [List.Nodup, List.pairwise_map] at hnd
    exact hnd.imp (fun hab e => hab (by rw [dkeyToPKey_inj e]))
  | list rs => exact seqChildren_keys_pairwise rs 0
  | tuple rs => exact seqChildren_keys_pairwise rs 0
  | leaf v => simp [Node.children]
  | null => simp [Node.children]
  | nd _ _ _ => simp [Node.children]
  | buf _ => simp [Node.children]

theorem dictGet_of_mem {es : List (DKey × Ref)} (hnd : (es.map (·.1.norm)).Nodup) {k : DKey} {c : Ref}
    (hm : (k, c) ∈ es) : dictGet es k = some c := by
  induction es with
  | nil => cases hm
  | cons e es ih =>
    obtain ⟨k0, v0⟩ := e
    simp only [List.map_cons, List.nodup_cons] at hnd
    rcases List.mem_cons.mp hm with e | e
    · cases e; simp [dictGet]
    · have : ¬ k0.norm = k.norm := by
        intro e2
        exact hnd.1 (List.mem_map.mpr ⟨(k, c), e, e2.symm⟩)
      simp only [dictGet, if_neg this, ih hnd.2 e]

/-- A (key, child) pair listed for iteration reads back that child, and the key is a plain one. -/
theorem children_slotGet {h : Heap} (hg : GoodDicts h) {r : Ref} {n : Node} (hn : h[r]? = some n)
    {k : PKey} {c : Ref} (hm : (k, c) ∈ n.children) : n.slotGet k = .ok c ∧ k.isPlain = true := by
  cases n with
  | dict es =>
    obtain ⟨hnd, hnl⟩ := hg r es hn
    simp only [Node.children, List.mem_map] at hm
    obtain ⟨⟨dk, c'⟩, hmem, he⟩ := hm
    simp only [Prod.mk.injEq] at he
    obtain ⟨rfl, rfl⟩ := he
    have hd : (dkeyToPKey dk).toDKey = dk.norm := by cases dk <;> rfl
    refine ⟨by simp [Node.slotGet, hd, dictGet_norm, dictGet_of_mem hnd hmem], ?_⟩
    cases dk with
    | str s => rfl
    | int i => rfl
    | idx i => rfl
    | obj i => rfl
    | lit id v => exact absurd rfl (hnl _ hmem id v)
  | list rs =>
    obtain ⟨i, hi, rfl⟩ := mem_seqChildren.mp hm
    have hlt : i < rs.length := by
      rcases Nat.lt_or_ge i rs.length with h1 | h1
      · exact h1
      · rw [List.getElem?_eq_none h1] at hi; cases hi
    refine ⟨?_, rfl⟩
    have hge : rs[i] = c := by
      have := List.getElem?_eq_getElem hlt
      rw [this] at hi; cases hi; rfl
    simp [Node.slotGet, seqGet, PKey.asInt, resolveIdx, hlt, hge]
  | tuple rs =>
    obtain ⟨i, hi, rfl⟩ := mem_seqChildren.mp hm
    have hlt : i < rs.length := by
      rcases Nat.lt_or_ge i rs.length with h1 | h1
      · exact h1
      · rw [List.getElem?_eq_none h1] at hi; cases hi
    refine ⟨?_, rfl⟩
    have hge : rs[i] = c := by
      have := List.getElem?_eq_getElem hlt
      rw [this] at hi; cases hi; rfl
    simp [Node.slotGet, seqGet, PKey.asInt, resolveIdx, hlt, hge]
  | leaf v => simp [Node.children] at hm
  | null => simp [Node.children] at hm
  | nd _ _ _ => simp [Node.children] at hm
  | buf _ => simp [Node.children] at hm

/-- **A listed path reads back its leaf.** -/
theorem LeafWalk.get {h : Heap} (hg : GoodDicts h) {r : Ref} {q : Path} {x : Ref} (w : LeafWalk h r q x) :
    get h r q = .ok x := by
  induction w with
  | leaf _ _ => simp
  | @step r n k c q x hn hm _ ih =>
    obtain ⟨hs, hk⟩ := children_slotGet hg hn hm
    rw [get_cons _ (Or.inl hk), index_of_get hn, hs]
    exact ih

theorem LeafWalk.isLeaf {h : Heap} {r : Ref} {q : Path} {x : Ref} (w : LeafWalk h r q x) :
    ∃ n, h[x]? = some n ∧ n.children = [] := by
  induction w with
  | leaf hn hc => exact ⟨_, hn, hc⟩
  | step _ _ _ ih => exact ih

/-! ## exactly once -/

theorem dfs_nodup (h : Heap) (hg : GoodDicts h) : ∀ (fuel : Nat) (r : Ref) (parent : Path) (ps : List Path),
    dfs h fuel r parent = .ok ps → (parent ≠ [] ∨ ∃ n, h[r]? = some n ∧ n.children ≠ []) → ps.Nodup := by
  intro fuel
  induction fuel with
  | zero => intro r parent ps hd; simp [dfs] at hd
  | succ fuel ih =>
    intro r parent ps hd hroot
    cases hn : h[r]? with
    | none => simp [dfs, hn] at hd
    | some n =>
      rw [dfs_succ h fuel r parent hn] at hd
      by_cases hch : n.children = []
      · have hpar : parent ≠ [] := by
          rcases hroot with h1 | ⟨n', hn', hc'⟩
          · exact h1
          · rw [hn] at hn'; cases hn'; exact absurd hch hc'
        simp only [hch, List.isEmpty_nil, if_true] at hd
        rw [dfsLeaf_nonroot h r hpar] at hd
        cases hd; simp
      · have hne : n.children.isEmpty = false := by
          cases hc : n.children with
          | nil => exact absurd hc hch
          | cons _ _ => rfl
        simp only [hne] at hd
        refine nodup_collectE hd (fun kc _ ys hys => ih kc.2 _ ys hys (Or.inl (by simp))) ?_
        refine (children_keys_pairwise hg hn).imp ?_
        intro a b hab ys zs hya hzb p hpy hpz
        obtain ⟨q1, _, e1, _⟩ := dfs_sound h fuel a.2 _ ys hya (Or.inl (by simp)) p hpy
        obtain ⟨q2, _, e2, _⟩ := dfs_sound h fuel b.2 _ zs hzb (Or.inl (by simp)) p hpz
        rw [e1] at e2
        simp only [List.append_assoc, List.singleton_append] at e2
        have := List.append_cancel_left e2
        simp only [List.cons.injEq] at this
        exact hab this.1

/-! ## termination on finite trees -/

theorem collectE_total {α β : Type} {g : α → Except ErrKind (List β)} {xs : List α}
    (h : ∀ x ∈ xs, ∃ ys, g x = .ok ys) : ∃ res, collectE g xs = .ok res := by
  induction xs with
  | nil => exact ⟨[], rfl⟩
  | cons x xs ih =>
    obtain ⟨ys, hy⟩ := h x (by simp)
    obtain ⟨zs, hz⟩ := ih (fun x' hx' => h x' (by simp [hx']))
    exact ⟨ys ++ zs, by simp [collectE, hy, hz]⟩

theorem dfs_total {h : Heap} {r : Ref} (w : WF h r) :
    ∃ fuel, ∀ parent : Path, parent ≠ [] → ∃ ps, dfs h fuel r parent = .ok ps := by
  induction w with
  | @mk r n hn hch ih =>
    by_cases hc : n.children = []
    · refine ⟨1, fun parent hp => ⟨[parent], ?_⟩⟩
      rw [dfs_succ h 0 r parent hn]
      simp [hc, dfsLeaf_nonroot h r hp]
    · -- a fuel that works for all children
      have hmemrefs : ∀ kc ∈ n.children, kc.2 ∈ n.refs := by
        intro kc hkc
        cases n with
        | dict es =>
          simp only [Node.children, List.mem_map] at hkc
          obtain ⟨e, he, rfl⟩ := hkc
          exact List.mem_map.mpr ⟨e, he, rfl⟩
        | list rs =>
          obtain ⟨k, c⟩ := kc
          obtain ⟨i, hi, _⟩ := mem_seqChildren.mp hkc
          exact List.mem_of_getElem? hi
        | tuple rs =>
          obtain ⟨k, c⟩ := kc
          obtain ⟨i, hi, _⟩ := mem_seqChildren.mp hkc
          exact List.mem_of_getElem? hi
        | leaf v => simp [Node.children] at hkc
        | null => simp [Node.children] at hkc
        | nd _ _ _ => simp [Node.children] at hkc
        | buf _ => simp [Node.children] at hkc
      have hall : ∃ F, ∀ kc ∈ n.children, ∀ parent : Path, parent ≠ [] → ∃ ps, dfs h F kc.2 parent = .ok ps := by
        generalize n.children = kcs at hmemrefs
        induction kcs with
        | nil => exact ⟨0, fun _ hkc => by cases hkc⟩
        | cons kc kcs ih2 =>
          obtain ⟨F1, hF1⟩ := ih kc.2 (hmemrefs kc (by simp))
          obtain ⟨F2, hF2⟩ := ih2 (fun kc' hkc' => hmemrefs kc' (by simp [hkc']))
          refine ⟨max F1 F2, ?_⟩
          intro kc' hkc' parent hp
          rcases List.mem_cons.mp hkc' with e | e
          · subst e
            obtain ⟨ps, hps⟩ := hF1 parent hp
            exact ⟨ps, dfs_mono_le h (Nat.le_max_left _ _) hps⟩
          · obtain ⟨ps, hps⟩ := hF2 kc' e parent hp
            exact ⟨ps, dfs_mono_le h (Nat.le_max_right _ _) hps⟩
      obtain ⟨F, hF⟩ := hall
      refine ⟨F + 1, fun parent _ => ?_⟩
      rw [dfs_succ h F r parent hn]
      have hne : n.children.isEmpty = false := by
        cases hc' : n.children with
        | nil => exact absurd hc' hc
        | cons _ _ => rfl
      simp only [hne]
      exact collectE_total (fun kc hkc => hF kc hkc _ (by simp))

end MlModel.Tree
