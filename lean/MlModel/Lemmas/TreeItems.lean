import MlModel.Lemmas.TreeDecide
/-!
# `_dfs_iter_tree`: every leaf exactly once, in DFS order, with a path that reads back that leaf
-/
namespace MlModel.Tree

/-! ## `collectE` -/

/-- (core-only stand-in for Mathlib's `Forall2`) -/
inductive Forall2 {α β : Type} (R : α → β → Prop) : List α → List β → Prop
  | nil : Forall2 R [] []
  | cons {a : α} {b : β} {l1 : List α} {l2 : List β} : R a b → Forall2 R l1 l2 → Forall2 R (a :: l1) (b :: l2)

theorem collectE_ok {α β : Type} {g : α → Except ErrKind (List β)} :
    ∀ {xs : List α} {res : List β}, collectE g xs = .ok res →
      ∃ parts : List (List β), Forall2 (fun x part => g x = .ok part) xs parts ∧ res = parts.flatten := by
  intro xs
  induction xs with
  | nil => intro res h; simp [collectE] at h; subst h; exact ⟨[], .nil, rfl⟩
  | cons x xs ih =>
    intro res h
    simp only [collectE] at h
    split at h
    · cases h
    · rename_i ys hy
      split at h
      · cases h
      · rename_i zs hz
        cases h
        obtain ⟨parts, hf, rfl⟩ := ih hz
        exact ⟨ys :: parts, .cons hy hf, by simp⟩

theorem collectE_of_parts {α β : Type} {g : α → Except ErrKind (List β)} :
    ∀ {xs : List α} {parts : List (List β)}, Forall2 (fun x part => g x = .ok part) xs parts →
      collectE g xs = .ok parts.flatten := by
  intro xs parts hf
  induction hf with
  | nil => rfl
  | cons hy _ ih => simp [collectE, hy, ih]

theorem mem_collectE {α β : Type} {g : α → Except ErrKind (List β)} {xs : List α} {res : List β}
    (h : collectE g xs = .ok res) (p : β) : p ∈ res ↔ ∃ x ∈ xs, ∃ ys, g x = .ok ys ∧ p ∈ ys := by
  induction xs generalizing res with
  | nil => simp [collectE] at h; subst h; simp
  | cons x xs ih =>
    simp only [collectE] at h
    split at h
    · cases h
    · rename_i ys hy
      split at h
      · cases h
      · rename_i zs hz
        cases h
        rw [List.mem_append, ih hz]
        constructor
        · rintro (hp | ⟨x', hx', ys', hg', hp'⟩)
          · exact ⟨x, by simp, ys, hy, hp⟩
          · exact ⟨x', by simp [hx'], ys', hg', hp'⟩
        · rintro ⟨x', hx', ys', hg', hp'⟩
          rcases List.mem_cons.mp hx' with e | e
          · subst e; rw [hy] at hg'; cases hg'; exact Or.inl hp'
          · exact Or.inr ⟨x', e, ys', hg', hp'⟩

/-- The concatenation has no duplicates when every part has none and parts of different elements are
disjoint (`Pairwise` over the input list). -/
theorem nodup_collectE {α β : Type} {g : α → Except ErrKind (List β)} {xs : List α} {res : List β}
    (h : collectE g xs = .ok res) (h1 : ∀ x ∈ xs, ∀ ys, g x = .ok ys → ys.Nodup)
    (h2 : xs.Pairwise fun x y => ∀ ys zs, g x = .ok ys → g y = .ok zs → ∀ p ∈ ys, p ∉ zs) : res.Nodup := by
  induction xs generalizing res with
  | nil => simp [collectE] at h; subst h; simp
  | cons x xs ih =>
    simp only [collectE] at h
    split at h
    · cases h
    · rename_i ys hy
      split at h
      · cases h
      · rename_i zs hz
        cases h
        rw [List.pairwise_cons] at h2
        rw [List.nodup_append]
        refine ⟨h1 x (by simp) ys hy, ih hz (fun x' hx' => h1 x' (by simp [hx'])) h2.2, ?_⟩
        intro a ha b hb hab
        subst hab
        obtain ⟨x', hx', ys', hg', hp'⟩ := (mem_collectE hz a).mp hb
        exact h2.1 x' hx' ys ys' hy hg' a ha hp'

/-! ## leaf walks -/

/-- `LeafWalk h r q x`: following the *stored* keys `q` (dict keys as stored, `Index(i)` for sequence
positions) from `r` arrives at `x`, and `x` is a leaf (anything that is not a non-empty dict/list/tuple). -/
inductive LeafWalk (h : Heap) : Ref → Path → Ref → Prop
  | leaf {r : Ref} {n : Node} : h[r]? = some n → n.children = [] → LeafWalk h r [] r
  | step {r : Ref} {n : Node} {k : PKey} {c : Ref} {q : Path} {x : Ref} :
      h[r]? = some n → (k, c) ∈ n.children → LeafWalk h c q x → LeafWalk h r (k :: q) x

theorem dfs_succ (h : Heap) (fuel : Nat) (r : Ref) (parent : Path) {n : Node} (hn : h[r]? = some n) :
    dfs h (fuel + 1) r parent =
      if n.children.isEmpty then dfs.dfsLeaf h r parent
      else collectE (fun kc => dfs h fuel kc.2 (parent ++ [kc.1])) n.children := by
  simp only [dfs, hn]

theorem dfsLeaf_nonroot (h : Heap) (r : Ref) {parent : Path} (hp : parent ≠ []) :
    dfs.dfsLeaf h r parent = .ok [parent] := by
  simp [dfs.dfsLeaf, hp]

/-- **Soundness**: every listed path is `parent ++ q` for a leaf walk `q`. -/
theorem dfs_sound (h : Heap) : ∀ (fuel : Nat) (r : Ref) (parent : Path) (ps : List Path),
    dfs h fuel r parent = .ok ps → (parent ≠ [] ∨ ∃ n, h[r]? = some n ∧ n.children ≠ []) →
    ∀ p ∈ ps, ∃ q x, p = parent ++ q ∧ LeafWalk h r q x := by
  intro fuel
  induction fuel with
  | zero => intro r parent ps hd; simp [dfs] at hd
  | succ fuel ih =>
    intro r parent ps hd hroot p hp
    cases hn : h[r]? with
    | none => simp [dfs, hn] at hd
    | some n =>
      rw [dfs_succ h fuel r parent hn] at hd
      by_cases hch : n.children = []
      · have hpar : parent ≠ [] := by
          rcases hroot with h1 | ⟨n', hn', hc'⟩
          · exact h1
          · rw [hn] at hn'; cases hn'; exact absurd hch hc'
        simp only [hch, List.isEmpty_nil, if_true] at hd
        rw [dfsLeaf_nonroot h r hpar] at hd
        cases hd
        simp at hp; subst hp
        exact ⟨[], r, by simp, LeafWalk.leaf hn hch⟩
      · have hne : n.children.isEmpty = false := by
          cases hc : n.children with
          | nil => exact absurd hc hch
          | cons _ _ => rfl
        simp only [hne] at hd
        obtain ⟨kc', hkc', ys, hg, hpy⟩ := (mem_collectE hd p).mp hp
        obtain ⟨q, x, rfl, hw⟩ := ih kc'.2 (parent ++ [kc'.1]) ys hg (Or.inl (by simp)) p hpy
        exact ⟨kc'.1 :: q, x, by simp, LeafWalk.step hn hkc' hw⟩

/-- **Completeness**: every leaf walk is listed. -/
theorem dfs_complete (h : Heap) : ∀ (fuel : Nat) (r : Ref) (parent : Path) (ps : List Path),
    dfs h fuel r parent = .ok ps → (parent ≠ [] ∨ ∃ n, h[r]? = some n ∧ n.children ≠ []) →
    ∀ q x, LeafWalk h r q x → parent ++ q ∈ ps := by
  intro fuel
  induction fuel with
  | zero => intro r parent ps hd; simp [dfs] at hd
  | succ fuel ih =>
    intro r parent ps hd hroot q x hw
    cases hw with
    | @leaf _ n hn hch =>
      rw [dfs_succ h fuel r parent hn] at hd
      have hpar : parent ≠ [] := by
        rcases hroot with h1 | ⟨n', hn', hc'⟩
        · exact h1
        · rw [hn] at hn'; cases hn'; exact absurd hch hc'
      simp only [hch, List.isEmpty_nil, if_true] at hd
      rw [dfsLeaf_nonroot h r hpar] at hd
      cases hd; simp
    | @step _ n k c q' _ hn hmem hw' =>
      rw [dfs_succ h fuel r parent hn] at hd
      have hne : n.children.isEmpty = false := by
        cases hc : n.children with
        | nil => rw [hc] at hmem; cases hmem
        | cons _ _ => rfl
      simp only [hne] at hd
      obtain ⟨parts, hf, hflat⟩ := collectE_ok hd
      -- the part of child (k, c)
      have : ∃ ys, dfs h fuel c (parent ++ [k]) = .ok ys := by
        clear hd hflat hne
        generalize n.children = kcs at hf hmem
        induction hf with
        | nil => cases hmem
        | @cons a b l1 l2 hab _ ih2 =>
          rcases List.mem_cons.mp hmem with e | e
          · subst e; exact ⟨b, hab⟩
          · exact ih2 e
      obtain ⟨ys, hys⟩ := this
      have hin := ih c (parent ++ [k]) ys hys (Or.inl (by simp)) q' x hw'
      have : parent ++ k :: q' = (parent ++ [k]) ++ q' := by simp
      rw [this]
      exact (mem_collectE hd _).mpr ⟨(k, c), hmem, ys, hys, hin⟩

/-- More recursion budget never changes a result. -/
theorem dfs_mono (h : Heap) : ∀ (fuel : Nat) (r : Ref) (parent : Path) (ps : List Path),
    dfs h fuel r parent = .ok ps → dfs h (fuel + 1) r parent = .ok ps := by
  intro fuel
  induction fuel with
  | zero => intro r parent ps hd; simp [dfs] at hd
  | succ fuel ih =>
    intro r parent ps hd
    cases hn : h[r]? with
    | none => simp [dfs, hn] at hd
    | some n =>
      rw [dfs_succ h fuel r parent hn] at hd
      rw [dfs_succ h (fuel + 1) r parent hn]
      by_cases hch : n.children.isEmpty = true
      · simp only [hch, if_true] at hd ⊢; exact hd
      · simp only [hch] at hd ⊢
        obtain ⟨parts, hf, rfl⟩ := collectE_ok hd
        apply collectE_of_parts
        clear hd hch
        generalize n.children = kcs at hf
        induction hf with
        | nil => exact .nil
        | cons hab _ ih2 => exact .cons (ih _ _ _ hab) ih2

theorem dfs_mono_le (h : Heap) {fuel fuel' : Nat} (hle : fuel ≤ fuel') {r : Ref} {parent : Path}
    {ps : List Path} (hd : dfs h fuel r parent = .ok ps) : dfs h fuel' r parent = .ok ps := by
  induction hle with
  | refl => exact hd
  | step _ ih => exact dfs_mono h _ r parent ps ih

end MlModel.Tree
