import MlModel.Lemmas.ConfusionCounts
import MlModel.Lemmas.AggCore
/-!
# The confusion-matrix accumulator is a lawful mergeable metric (dense stage)

`denseCM axis W xs` = the four count arrays of a batch given in dense ("multi-hot") form — exactly
what `_indicator_confusion_matrix` computes after the encoders.  For `axis = None`
(`micro`/`binary`) and `axis = 0` (`macro`) it is a monoid homomorphism from batches (lists of
examples, `++`) to count arrays (pointwise `+`).
-/
namespace MlModel.Agg.Confusion

/-- pointwise sum of equally shaped count arrays (what numpy's `+` does on equal shapes) -/
def Arr.addP : Arr Int → Arr Int → Arr Int
  | .s x, .s y => .s (x + y)
  | .v xs, .v ys => .v (List.zipWith (· + ·) xs ys)
  | .m a, .m b => .m (List.zipWith (List.zipWith (· + ·)) a b)
  | a, _ => a

def CMArr.addP (a b : CMArr) : CMArr :=
  { tp := a.tp.addP b.tp, tn := a.tn.addP b.tn, fp := a.fp.addP b.fp, fn := a.fn.addP b.fn }

/-- one example in dense form: (row of `true`, row of `positive`) -/
abbrev DenseEx := List Bool × List Bool

def denseCM (axis : Option Nat) (W : Nat) (xs : List DenseEx) : CMArr :=
  countsOf axis W (xs.map (·.1)) (xs.map (·.2))

theorem andRows_append (a1 a2 b1 b2 : List (List Bool)) (h : a1.length = b1.length) :
    andRows (a1 ++ a2) (b1 ++ b2) = andRows a1 b1 ++ andRows a2 b2 := by
  simp [andRows, List.zipWith_append h]

theorem notRows_append (a b : List (List Bool)) : notRows (a ++ b) = notRows a ++ notRows b := by
  simp [notRows]

theorem denseCM_append_none (W : Nat) (xs ys : List DenseEx) :
    denseCM none W (xs ++ ys) = (denseCM none W xs).addP (denseCM none W ys) := by
  have h1 : (xs.map (·.2)).length = (xs.map (·.1)).length := by simp
  have h2 : (notRows (xs.map (·.2))).length = (xs.map (·.1)).length := by simp [notRows]
  simp only [denseCM, countsOf, sumAxis, arrSub, List.map_append, notRows_append,
    andRows_append _ _ _ _ h1, andRows_append _ _ _ _ h2, List.sum_append, CMArr.addP, Arr.addP]
  refine CMArr.mk.injEq .. |>.mpr ⟨rfl, ?_, ?_, rfl⟩ <;> congr 1 <;> omega

theorem col_append (a b : List (List Bool)) (c : Nat) : col (a ++ b) c = col a c ++ col b c := by
  simp [col]

theorem denseCM_append_macro (W : Nat) (xs ys : List DenseEx) :
    denseCM (some 0) W (xs ++ ys) = (denseCM (some 0) W xs).addP (denseCM (some 0) W ys) := by
  have h1 : (xs.map (·.2)).length = (xs.map (·.1)).length := by simp
  have h2 : (notRows (xs.map (·.2))).length = (xs.map (·.1)).length := by simp [notRows]
  simp only [denseCM, countsOf, sumAxis, arrSub, List.map_append, notRows_append,
    andRows_append _ _ _ _ h1, andRows_append _ _ _ _ h2, cnt_append, CMArr.addP, Arr.addP,
    List.zipWith_map_left, List.zipWith_map_right, List.zipWith_self]
  refine CMArr.mk.injEq .. |>.mpr ⟨rfl, ?_, ?_, rfl⟩ <;> congr 1 <;> apply List.map_congr_left <;>
    intro c _ <;> omega

/-- the dense stage as a mergeable metric -/
def denseAgg (axis : Option Nat) (W : Nat) : Mergeable DenseEx CMArr CMArr where
  empty := denseCM axis W []
  ofBatch := denseCM axis W
  merge := CMArr.addP
  result := id

theorem denseAgg_lawful (axis : Option Nat) (W : Nat) (h : axis = none ∨ axis = some 0) :
    Lawful (denseAgg axis W) Eq where
  refl := fun _ => rfl
  symm := fun h => h.symm
  trans := fun h1 h2 => h1.trans h2
  merge_congr := fun h1 h2 => by rw [h1, h2]
  result_congr := fun h => by rw [h]
  empty_eq := rfl
  hom := fun xs ys => by
    rcases h with rfl | rfl
    · exact (denseCM_append_none W xs ys).symm
    · exact (denseCM_append_macro W xs ys).symm


/-! ## samples axis: one entry per example -/

def appendV : Arr Int → Arr Int → Arr Int
  | .v a, .v b => .v (a ++ b)
  | a, _ => a

theorem zip_fst_snd : ∀ (xs : List DenseEx), (xs.map (·.1)).zip (xs.map (·.2)) = xs
  | [] => rfl
  | x :: xs => by simp [zip_fst_snd xs]

theorem rowsAligned_of (xs : List DenseEx) (h : ∀ x ∈ xs, x.1.length = x.2.length) :
    RowsAligned (xs.map (·.1)) (xs.map (·.2)) := by
  refine ⟨by simp, ?_⟩
  rw [zip_fst_snd]
  exact h

open MlModel.Spec.Classification in
/-- with `axis = 1` the `i`-th entry of every array is computed from example `i` alone -/
theorem denseCM_samples (W : Nat) (xs : List DenseEx) (h : ∀ x ∈ xs, x.1.length = x.2.length) :
    denseCM (some 1) W xs =
      { tp := .v (xs.map fun x => (tpOf (rowCells x.1 x.2) : Int)),
        tn := .v (xs.map fun x => (tnOf (rowCells x.1 x.2) : Int)),
        fp := .v (xs.map fun x => (fpOf (rowCells x.1 x.2) : Int)),
        fn := .v (xs.map fun x => (fnOf (rowCells x.1 x.2) : Int)) } := by
  rw [denseCM, countsOf_samples W _ _ (rowsAligned_of xs h), zip_fst_snd]

theorem denseCM_samples_append (W : Nat) (xs ys : List DenseEx)
    (hx : ∀ x ∈ xs, x.1.length = x.2.length) (hy : ∀ x ∈ ys, x.1.length = x.2.length) :
    denseCM (some 1) W (xs ++ ys) =
      { tp := appendV (denseCM (some 1) W xs).tp (denseCM (some 1) W ys).tp,
        tn := appendV (denseCM (some 1) W xs).tn (denseCM (some 1) W ys).tn,
        fp := appendV (denseCM (some 1) W xs).fp (denseCM (some 1) W ys).fp,
        fn := appendV (denseCM (some 1) W xs).fn (denseCM (some 1) W ys).fn } := by
  have hxy : ∀ x ∈ xs ++ ys, x.1.length = x.2.length := by
    intro x hm; rcases List.mem_append.mp hm with h | h
    · exact hx x h
    · exact hy x h
  rw [denseCM_samples W _ hxy, denseCM_samples W _ hx, denseCM_samples W _ hy]
  simp [appendV]

end MlModel.Agg.Confusion
