import MlModel.Lemmas.ConfusionGen
import MlModel.Lemmas.ConfusionVocab
import MlModel.Lemmas.ConfusionTopK
/-!
# `TopKConfusionMatrixAggFn`: closed form of one batch, and its algebra

`_topk_confusion_matrix` (classification.py:688–727) runs `_apply_vocab_at_k` for
`j = 0 … max(k_list) - 1` — a bound that depends on the CONFIGURATION only — and stacks one
confusion matrix per `k = j + 1 ∈ k_list`.  Closed form (`topkCM_closed`): for the fixed list
`ksOf k_list` (the distinct positive members of `k_list`, increasing) the batch result is
`topkD`: entry `i` of every array is the ordinary count array of the batch whose prediction rows
are cut to their first `ks[i]` entries.  Rows shorter than `k` are simply taken whole
(`List.take`), an empty batch gives zero arrays *of the same shape*, so `topkD` is a monoid
homomorphism and the generic sharding theorem (`EncodesG`) applies.
-/
namespace MlModel.Agg.Confusion

/-! ## which `k` are reported -/

/-- the `k`s with a yield: `j + 1 ∈ set(k_list)` for `j < max(k_list)` -/
def ksOf (kList : List Int) : List Nat :=
  (List.range' 1 (kMax kList).toNat).filter (kMember kList)

theorem foldl_max_ge_init (l : List Int) (a : Int) : a ≤ l.foldl max a := by
  induction l generalizing a with
  | nil => simp
  | cons x l ih => exact Int.le_trans (Int.le_max_left a x) (ih (max a x))

theorem foldl_max_ge_mem (l : List Int) (a x : Int) (hx : x ∈ l) : x ≤ l.foldl max a := by
  induction l generalizing a with
  | nil => simp at hx
  | cons y l ih =>
    rcases List.mem_cons.mp hx with rfl | h
    · exact Int.le_trans (Int.le_max_right a x) (foldl_max_ge_init l (max a x))
    · exact ih (max a y) h

theorem le_kMax (kList : List Int) (x : Int) (hx : x ∈ kList) : x ≤ kMax kList :=
  foldl_max_ge_mem kList _ x hx

/-- exactly the positive members of `k_list` -/
theorem mem_ksOf (kList : List Int) (k : Nat) : k ∈ ksOf kList ↔ 0 < k ∧ (k : Int) ∈ kList := by
  simp only [ksOf, List.mem_filter, List.mem_range'_1, kMember, List.contains_iff_mem]
  constructor
  · rintro ⟨⟨h1, _⟩, h2⟩; exact ⟨h1, h2⟩
  · rintro ⟨h1, h2⟩
    have := le_kMax kList k h2
    exact ⟨⟨h1, by omega⟩, h2⟩

/-- in increasing order, each once (positions follow increasing `k`, not `k_list`: finding FC4) -/
theorem ksOf_sorted (kList : List Int) : (ksOf kList).Pairwise (· < ·) :=
  List.Pairwise.filter _ (List.pairwise_lt_range')

/-! ## stacking: `np.asarray((a₁, …, a_K))` -/

def Arr.toS : Arr Int → Int
  | .s x => x
  | _ => 0
def Arr.toV : Arr Int → List Int
  | .v xs => xs
  | _ => []

theorem filterMap_eq_map_of {α β : Type} {f : α → Option β} {g : α → β} :
    ∀ (l : List α), (∀ a ∈ l, f a = some (g a)) → l.filterMap f = l.map g
  | [], _ => rfl
  | a :: l, h => by
    rw [List.filterMap_cons, h a (by simp), filterMap_eq_map_of l (fun x hx => h x (by simp [hx]))]
    rfl

theorem stackArr_s (l : List (Arr Int)) (hne : l ≠ []) (h : ∀ a ∈ l, ∃ x, a = .s x) :
    stackArr l = .ok (.v (l.map Arr.toS)) := by
  cases l with
  | nil => exact absurd rfl hne
  | cons a l =>
    simp only [stackArr]
    rw [if_pos, filterMap_eq_map_of (g := Arr.toS)]
    · rfl
    · intro a' ha'; obtain ⟨x, rfl⟩ := h a' ha'; rfl
    · rw [List.all_eq_true]; intro a' ha'; obtain ⟨x, rfl⟩ := h a' ha'; rfl

theorem stackArr_v (l : List (Arr Int)) (hne : l ≠ []) (h : ∀ a ∈ l, ∃ xs, a = .v xs) :
    stackArr l = .ok (.m (l.map Arr.toV)) := by
  cases l with
  | nil => exact absurd rfl hne
  | cons a l =>
    obtain ⟨x, rfl⟩ := h a (by simp)
    simp only [stackArr]
    rw [if_neg, if_pos, filterMap_eq_map_of (g := Arr.toV)]
    · rfl
    · intro a' ha'; obtain ⟨x, rfl⟩ := h a' ha'; rfl
    · rw [List.all_eq_true]; intro a' ha'; obtain ⟨x, rfl⟩ := h a' ha'; rfl
    · simp

/-- the stacked confusion matrix of per-`k` matrices of one shape -/
def stackK (axis : Option Nat) (cms : List CMArr) : CMArr :=
  match axis with
  | none => { tp := .v (cms.map (·.tp.toS)), tn := .v (cms.map (·.tn.toS)),
              fp := .v (cms.map (·.fp.toS)), fn := .v (cms.map (·.fn.toS)) }
  | _ => { tp := .m (cms.map (·.tp.toV)), tn := .m (cms.map (·.tn.toV)),
           fp := .m (cms.map (·.fp.toV)), fn := .m (cms.map (·.fn.toV)) }

theorem stack_fields (axis : Option Nat) (W : Nat) (cms : List CMArr) (hne : cms ≠ [])
    (hg : ∀ cm ∈ cms, GoodCM axis W cm) :
    (do pure ({ tp := ← stackArr (cms.map (·.tp)), tn := ← stackArr (cms.map (·.tn)),
                fp := ← stackArr (cms.map (·.fp)), fn := ← stackArr (cms.map (·.fn)) } : CMArr))
      = (.ok (stackK axis cms) : Except ErrKind CMArr) := by
  have hne' : ∀ (f : CMArr → Arr Int), cms.map f ≠ [] := fun f => by simpa using hne
  cases axis with
  | none =>
    have hs : ∀ (f : CMArr → Arr Int), (∀ cm ∈ cms, ∃ x, f cm = .s x) →
        stackArr (cms.map f) = .ok (.v (cms.map fun cm => (f cm).toS)) := by
      intro f hf
      rw [stackArr_s _ (hne' f) (by
        intro a ha; obtain ⟨cm, hcm, rfl⟩ := List.mem_map.mp ha; exact hf cm hcm), List.map_map]
      rfl
    simp only [hs (·.tp) (fun cm h => (hg cm h).tp), hs (·.tn) (fun cm h => (hg cm h).tn),
      hs (·.fp) (fun cm h => (hg cm h).fp), hs (·.fn) (fun cm h => (hg cm h).fn), bind, Except.bind,
      pure, Except.pure, stackK]
  | some k =>
    have hs : ∀ (f : CMArr → Arr Int), (∀ cm ∈ cms, ∃ xs, f cm = .v xs ∧ xs.length = W) →
        stackArr (cms.map f) = .ok (.m (cms.map fun cm => (f cm).toV)) := by
      intro f hf
      rw [stackArr_v _ (hne' f) (by
        intro a ha; obtain ⟨cm, hcm, rfl⟩ := List.mem_map.mp ha
        obtain ⟨xs, h1, _⟩ := hf cm hcm; exact ⟨xs, h1⟩), List.map_map]
      rfl
    simp only [hs (·.tp) (fun cm h => (hg cm h).tp), hs (·.tn) (fun cm h => (hg cm h).tn),
      hs (·.fp) (fun cm h => (hg cm h).fp), hs (·.fn) (fun cm h => (hg cm h).fn), bind, Except.bind,
      pure, Except.pure, stackK]

/-! ## the loop under an arbitrary vocabulary, for both input types -/

/-- the `j`-th prediction the loop reads: for `multiclass` input every row is the single label -/
theorem topk_pick (mo : Bool) (r : List Label) (j : Nat) (h : mo = true ∨ r.length = 1) :
    (if mo then r[j]? else if j = 0 then r[0]? else none) = r[j]? := by
  rcases h with rfl | h
  · rfl
  · cases mo with
    | true => rfl
    | false =>
      by_cases hj : j = 0
      · simp [hj]
      · have : r.length ≤ j := by omega
        simp [hj, List.getElem?_eq_none this]

theorem markV_take_succ (v : Vocab) (row : List Label) (j : Nat) (h : ∀ e ∈ row, v.Has e) :
    topkCell v (markV v (row.take j)) row[j]? = .ok (markV v (row.take (j + 1))) := by
  cases hj : row[j]? with
  | none =>
    have : row.length ≤ j := by simpa using hj
    simp [topkCell, List.take_of_length_le this, List.take_of_length_le (Nat.le_succ_of_le this)]
  | some e =>
    have hlt : j < row.length := by
      rcases Nat.lt_or_ge j row.length with h | h
      · exact h
      · simp [List.getElem?_eq_none h] at hj
    have he : row[j] = e := by simpa [List.getElem?_eq_getElem hlt] using hj
    have hek : v.Has e := by rw [← he]; exact h _ (List.getElem_mem hlt)
    simp only [topkCell, vocabStep_markV v _ e hek]
    rw [List.take_add_one, List.getElem?_eq_getElem hlt, he]
    rfl

theorem topkRound_markV (v : Vocab) (mo : Bool) (rows : List (List Label)) (j : Nat)
    (h : ∀ r ∈ rows, ∀ e ∈ r, v.Has e) (hmo : mo = true ∨ ∀ r ∈ rows, r.length = 1) :
    topkRound v mo j (rows.map fun r => markV v (r.take j)) rows
      = .ok (rows.map fun r => markV v (r.take (j + 1))) := by
  unfold topkRound
  rw [zip_map_self, List.mapM_map]
  apply mapM_ok
  intro r hr
  have hp := topk_pick mo r j (hmo.imp id (fun h' => h' r hr))
  simp only [Function.comp, hp]
  exact markV_take_succ v r j (h r hr)

/-- one yield per `k ∈ k_list` within the scanned range, in increasing order, each the confusion
matrix of the prediction prefixes of length `k` (a row shorter than `k` is taken whole) -/
theorem topkLoop_closedV (v : Vocab) (mo : Bool) (avg : Average) (hb : avg ≠ .binary)
    (axis : Option Nat) (kList : List Int) (td : List (List Bool)) (rows : List (List Label))
    (hl : td.length = rows.length) (h : ∀ r ∈ rows, ∀ e ∈ r, v.Has e)
    (hmo : mo = true ∨ ∀ r ∈ rows, r.length = 1) :
    ∀ (fuel j : Nat),
      topkLoop v mo avg axis kList td rows fuel j (rows.map fun r => markV v (r.take j))
        = .ok (((List.range' (j + 1) fuel).filter (kMember kList)).map fun k =>
            (k, countsOf axis v.length td (rows.map fun r => markV v (r.take k))))
  | 0, j => by simp [topkLoop]
  | fuel + 1, j => by
    have ih := topkLoop_closedV v mo avg hb axis kList td rows hl h hmo fuel (j + 1)
    simp only [topkLoop, topkRound_markV v mo rows j h hmo, bind, Except.bind]
    rw [indicatorCore_dense avg hb axis _ _ _ (by simp [hl])]
    by_cases hk : kMember kList (j + 1) = true
    · simp only [hk, ↓reduceIte, pure, Except.pure, ih, List.range'_succ, List.filter_cons,
        List.map_cons, List.singleton_append]
    · simp only [hk, Bool.false_eq_true, ↓reduceIte, pure, Except.pure, ih, List.range'_succ,
        List.filter_cons, List.nil_append]

/-! ## the batch result -/

/-- the per-`k` encoders: the true row, and the first `k` predictions -/
def encTopKmo (v : Vocab) (k : Nat) (x : List Label × List Label) : DenseEx :=
  (markV v x.1, markV v (x.2.take k))
def encTopKmc (v : Vocab) (k : Nat) (x : Label × Label) : DenseEx :=
  (markV v [x.1], markV v ([x.2].take k))

/-- the count arrays of `TopKConfusionMatrixAggFn` for one batch: one ordinary count array per `k` -/
def topkD {X : Type} (axis : Option Nat) (W : Nat) (ks : List Nat) (enc : Nat → X → DenseEx)
    (xs : List X) : CMArr :=
  stackK axis (ks.map fun k => denseCM axis W (xs.map (enc k)))

/-- the part of `topkCM` after the vocabulary / dense `y_true` / rows are fixed -/
theorem topkCM_core (v : Vocab) (mo : Bool) (avg : Average) (hb : avg ≠ .binary) (axis : Option Nat)
    (h01 : axis = none ∨ axis = some 0) (kList : List Int) (hks : ksOf kList ≠ [])
    (td : List (List Bool)) (rows : List (List Label)) (hl : td.length = rows.length)
    (h : ∀ r ∈ rows, ∀ e ∈ r, v.Has e) (hmo : mo = true ∨ ∀ r ∈ rows, r.length = 1) :
    (do let cms ← topkLoop v mo avg axis kList td rows (kMax kList).toNat 0
          (rows.map fun _ => List.replicate v.length false)
        if cms.isEmpty then throw ErrKind.type
        pure ({ tp := ← stackArr (cms.map fun (x : Nat × CMArr) => x.2.tp),
                tn := ← stackArr (cms.map fun (x : Nat × CMArr) => x.2.tn),
                fp := ← stackArr (cms.map fun (x : Nat × CMArr) => x.2.fp),
                fn := ← stackArr (cms.map fun (x : Nat × CMArr) => x.2.fn) } : CMArr))
      = (.ok (stackK axis ((ksOf kList).map fun k =>
          countsOf axis v.length td (rows.map fun r => markV v (r.take k)))) : Except ErrKind CMArr) := by
  have h0 : (rows.map fun _ => List.replicate v.length false)
      = rows.map fun r => markV v (r.take 0) := by
    apply List.map_congr_left; intro r _; simp [markV_nil]
  rw [h0, topkLoop_closedV v mo avg hb axis kList td rows hl h hmo _ 0]
  have hne : ((ksOf kList).map fun k =>
      countsOf axis v.length td (rows.map fun r => markV v (r.take k))) ≠ [] := by simpa using hks
  have hgood : ∀ cm ∈ (ksOf kList).map (fun k =>
      countsOf axis v.length td (rows.map fun r => markV v (r.take k))), GoodCM axis v.length cm := by
    intro cm hcm
    obtain ⟨k, _, rfl⟩ := List.mem_map.mp hcm
    rcases h01 with rfl | rfl
    · constructor <;> simp [countsOf, sumAxis, arrSub, GoodArr]
    · constructor <;> simp [countsOf, sumAxis, arrSub, GoodArr]
  have := stack_fields axis v.length _ hne hgood
  simp only [List.map_map, Function.comp_def] at this
  have hemp : (List.map (fun k => (k, countsOf axis v.length td (rows.map fun r => markV v (r.take k))))
      (List.filter (kMember kList) (List.range' (0 + 1) (kMax kList).toNat))).isEmpty = false := by
    have : ksOf kList = List.filter (kMember kList) (List.range' (0 + 1) (kMax kList).toNat) := rfl
    rw [← this]
    cases hk : ksOf kList with
    | nil => exact absurd hk hks
    | cons a l => rfl
  simp only [bind, Except.bind, hemp, Bool.false_eq_true, ↓reduceIte, List.map_map, Function.comp_def]
  exact this

theorem topkCM_closed_mo (v : Vocab) (hv : v ≠ []) (avg : Average) (hb : avg ≠ .binary)
    (axis : Option Nat) (hax : axisOf avg = .ok axis) (h01 : axis = none ∨ axis = some 0)
    (kList : List Int) (hks : ksOf kList ≠ []) (order : List Label) (xs : List (List Label × List Label))
    (hx : ∀ x ∈ xs, (∀ e ∈ x.1, v.Has e) ∧ (∀ e ∈ x.2, v.Has e)) :
    topkCM (some v) true avg kList (moBatchO order xs)
      = .ok (topkD axis v.length (ksOf kList) (encTopKmo v) xs) := by
  have e1 := applyVocab_nestedV v (xs.map (·.1)) (by
    intro r hr; obtain ⟨x, hx', rfl⟩ := List.mem_map.mp hr; exact (hx x hx').1)
  have hkne : kList.isEmpty = false := by
    cases kList with
    | nil => exact absurd rfl hks
    | cons a l => rfl
  have core := topkCM_core v true avg hb axis h01 kList hks ((xs.map (·.1)).map (markV v))
    (xs.map (·.2)) (by simp) (by
      intro r hr; obtain ⟨x, hx', rfl⟩ := List.mem_map.mp hr; exact (hx x hx').2) (Or.inl rfl)
  unfold topkCM
  simp only [moBatchO, effectiveVocab_some _ hv, e1, hkne, rowsFor, hax, bind, Except.bind,
    Bool.false_eq_true, ↓reduceIte] at core ⊢
  rw [core]
  simp [topkD, denseCM, encTopKmo, List.map_map, Function.comp_def]

theorem topkCM_closed_mc (v : Vocab) (hv : v ≠ []) (avg : Average) (hb : avg ≠ .binary)
    (axis : Option Nat) (hax : axisOf avg = .ok axis) (h01 : axis = none ∨ axis = some 0)
    (kList : List Int) (hks : ksOf kList ≠ []) (order : List Label) (xs : List (Label × Label))
    (hx : ∀ x ∈ xs, v.Has x.1 ∧ v.Has x.2) :
    topkCM (some v) false avg kList (mcBatchO order xs)
      = .ok (topkD axis v.length (ksOf kList) (encTopKmc v) xs) := by
  have e1 := applyVocab_flatV v (xs.map (·.1)) (by
    intro y hy; obtain ⟨x, hx', rfl⟩ := List.mem_map.mp hy; exact (hx x hx').1)
  have hkne : kList.isEmpty = false := by
    cases kList with
    | nil => exact absurd rfl hks
    | cons a l => rfl
  have core := topkCM_core v false avg hb axis h01 kList hks ((xs.map (·.1)).map fun y => markV v [y])
    ((xs.map (·.2)).map ([·])) (by simp) (by
      intro r hr
      obtain ⟨y, hy, rfl⟩ := List.mem_map.mp hr
      obtain ⟨x, hx', rfl⟩ := List.mem_map.mp hy
      simpa using (hx x hx').2) (Or.inr (by
      intro r hr; obtain ⟨y, _, rfl⟩ := List.mem_map.mp hr; rfl))
  unfold topkCM
  simp only [mcBatchO, effectiveVocab_some _ hv, e1, hkne, rowsFor, hax, bind, Except.bind,
    Bool.false_eq_true, ↓reduceIte] at core ⊢
  rw [core]
  simp [topkD, denseCM, encTopKmc, List.map_map, Function.comp_def]

/-! ## shapes `(K,)` and `(K, W)` and their algebra -/

/-- a `K × W` matrix -/
def GoodM (K W : Nat) (a : Arr Int) : Prop :=
  ∃ rows, a = .m rows ∧ rows.length = K ∧ ∀ r ∈ rows, r.length = W

theorem mapM_zip_bcast (W : Nat) : ∀ (a b : List (List Int)), (∀ r ∈ a, r.length = W) →
    (∀ r ∈ b, r.length = W) →
    (a.zip b).mapM (fun (p : List Int × List Int) => bcast1 (· + ·) p.1 p.2)
      = .ok (List.zipWith (List.zipWith (· + ·)) a b)
  | [], b, _, _ => by simp [pure, Except.pure]
  | _ :: _, [], _, _ => by simp [pure, Except.pure]
  | r :: a, r' :: b, ha, hb => by
    have h1 : r.length = r'.length := by rw [ha r (by simp), hb r' (by simp)]
    rw [List.zip_cons_cons, List.mapM_cons,
      mapM_zip_bcast W a b (fun x hx => ha x (by simp [hx])) (fun x hx => hb x (by simp [hx]))]
    simp only [bcast1, h1, ↓reduceIte, bind, Except.bind, pure, Except.pure, List.zipWith_cons_cons]

theorem zipWith2_add_comm : ∀ (a b : List (List Int)),
    List.zipWith (List.zipWith (· + ·)) a b = List.zipWith (List.zipWith (· + ·)) b a
  | [], b => by cases b <;> simp
  | _ :: _, [] => by simp
  | x :: a, y :: b => by simp [zipWith2_add_comm a b, zipWith_add_comm x y]

theorem zipWith2_add_assoc : ∀ (a b c : List (List Int)),
    List.zipWith (List.zipWith (· + ·)) (List.zipWith (List.zipWith (· + ·)) a b) c
      = List.zipWith (List.zipWith (· + ·)) a (List.zipWith (List.zipWith (· + ·)) b c)
  | [], _, _ => by simp
  | _ :: _, [], _ => by simp
  | _ :: _, _ :: _, [] => by simp
  | x :: a, y :: b, z :: c => by simp [zipWith2_add_assoc a b c, zipWith_add_assoc x y z]

theorem goodM_zipWith {K W : Nat} {a b : List (List Int)} (ha : a.length = K) (hb : b.length = K)
    (hwa : ∀ r ∈ a, r.length = W) (hwb : ∀ r ∈ b, r.length = W) :
    (List.zipWith (List.zipWith (· + ·)) a b).length = K ∧
      ∀ r ∈ List.zipWith (List.zipWith (· + ·)) a b, r.length = W := by
  refine ⟨by simp [ha, hb], ?_⟩
  intro r hr
  obtain ⟨i, hi, rfl⟩ := List.mem_iff_getElem.mp hr
  simp only [List.length_zipWith] at hi
  simp only [List.getElem_zipWith, List.length_zipWith]
  rw [hwa _ (List.getElem_mem _), hwb _ (List.getElem_mem _)]; simp

theorem goodM_laws (K W : Nat) : ArrLaws (GoodM K W) where
  addP := by
    rintro _ _ ⟨a, rfl, ha, hwa⟩ ⟨b, rfl, hb, hwb⟩
    exact ⟨_, rfl, goodM_zipWith ha hb hwa hwb⟩
  zipWithB := by
    rintro _ _ ⟨a, rfl, ha, hwa⟩ ⟨b, rfl, hb, hwb⟩
    have hl : a.length = b.length := by rw [ha, hb]
    have := mapM_zip_bcast W a b hwa hwb
    simp only [Arr.zipWithB, hl, ↓reduceIte, Arr.addP, Functor.map, Except.map]
    rw [show (fun (x : List Int × List Int) => match x with | (r, r') => bcast1 (· + ·) r r')
      = fun (p : List Int × List Int) => bcast1 (· + ·) p.1 p.2 from by funext ⟨r, r'⟩; rfl, this]
  iaddB := by
    rintro _ _ ⟨a, rfl, ha, hwa⟩ ⟨b, rfl, hb, hwb⟩
    have hl : a.length = b.length := by rw [ha, hb]
    have := mapM_zip_bcast W a b hwa hwb
    obtain ⟨g1, g2⟩ := goodM_zipWith ha hb hwa hwb
    have hshape : (Arr.m (List.zipWith (List.zipWith (· + ·)) a b)).shape = (Arr.m a).shape := by
      simp only [Arr.shape, g1, ha]
      congr 2
      cases a with
      | nil => simp
      | cons r a =>
        cases b with
        | nil => simp at hl
        | cons r' b =>
          simp [List.headD, hwa r (by simp), hwb r' (by simp)]
    simp only [Arr.iaddB, Arr.zipWithB, hl, ↓reduceIte, Arr.addP, Functor.map, Except.map, bind,
      Except.bind]
    rw [show (fun (x : List Int × List Int) => match x with | (r, r') => bcast1 (· + ·) r r')
      = fun (p : List Int × List Int) => bcast1 (· + ·) p.1 p.2 from by funext ⟨r, r'⟩; rfl, this]
    simp only [hshape, ↓reduceIte]
  comm := by
    rintro _ _ ⟨a, rfl, _, _⟩ ⟨b, rfl, _, _⟩
    simp only [Arr.addP]; congr 1; exact zipWith2_add_comm a b
  assoc := by
    rintro _ _ _ ⟨a, rfl, _, _⟩ ⟨b, rfl, _, _⟩ ⟨c, rfl, _, _⟩
    simp only [Arr.addP]; congr 1; exact zipWith2_add_assoc a b c

/-- the shape family of the top-k state: `(K,)` for micro, `(K, W)` for macro -/
def GoodK (axis : Option Nat) (K W : Nat) : Arr Int → Prop :=
  match axis with
  | none => GoodArr (some 0) K
  | _ => GoodM K W

theorem goodK_laws (axis : Option Nat) (K W : Nat) : ArrLaws (GoodK axis K W) := by
  cases axis with
  | none => exact goodArr_laws (some 0) K
  | some k => exact goodM_laws K W

section topkD
variable {X : Type} (axis : Option Nat) (h01 : axis = none ∨ axis = some 0) (W : Nat) (ks : List Nat)
  (enc : Nat → X → DenseEx)
include h01

theorem topkD_good (xs : List X) : GCM (GoodK axis ks.length W) (topkD axis W ks enc xs) := by
  rcases h01 with rfl | rfl
  · constructor <;> exact ⟨_, rfl, by simp⟩
  · constructor <;>
    · refine ⟨_, rfl, by simp, ?_⟩
      intro r hr
      simp only [List.map_map, List.mem_map, Function.comp] at hr
      obtain ⟨k, _, rfl⟩ := hr
      simp [denseCM, countsOf, sumAxis, arrSub, Arr.toV]

theorem topkD_append (xs ys : List X) :
    topkD axis W ks enc (xs ++ ys) = (topkD axis W ks enc xs).addP (topkD axis W ks enc ys) := by
  rcases h01 with rfl | rfl
  · simp only [topkD, stackK, List.map_map, Function.comp_def, List.map_append, denseCM_append_none,
      CMArr.addP, Arr.addP, List.zipWith_map_left, List.zipWith_map_right, List.zipWith_self]
    refine CMArr.mk.injEq .. |>.mpr ⟨?_, ?_, ?_, ?_⟩ <;> congr 1 <;> apply List.map_congr_left <;>
      intro k _ <;> simp [denseCM, countsOf, sumAxis, arrSub, Arr.toS, Arr.addP]
  · simp only [topkD, stackK, List.map_map, Function.comp_def, List.map_append, denseCM_append_macro,
      CMArr.addP, Arr.addP, List.zipWith_map_left, List.zipWith_map_right, List.zipWith_self]
    refine CMArr.mk.injEq .. |>.mpr ⟨?_, ?_, ?_, ?_⟩ <;> congr 1 <;> apply List.map_congr_left <;>
      intro k _ <;> simp [denseCM, countsOf, sumAxis, arrSub, Arr.toV, Arr.addP]

end topkD

end MlModel.Agg.Confusion
