import MlModel.Model.Merged
/-! Helper lemmas for `Properties/C09.lean`: characterisation of `locate` and the decomposition of a
flattened list along its parts. -/
namespace MlModel.Merged

/-- Recursive reading of `locate`: walk over the parts, skipping those that end at or before `i`. -/
def locRec : List Nat → Nat → Nat × Option Nat
  | [], _ => (0, none)
  | l :: ls, i => if i < l then (0, some i) else ((locRec ls (i - l)).1 + 1, (locRec ls (i - l)).2)

theorem locRec_none (lens : List Nat) (i : Nat) :
    (locRec lens i).2 = none ↔ (locRec lens i).1 = lens.length := by
  induction lens generalizing i with
  | nil => simp [locRec]
  | cons l ls ih =>
    unfold locRec
    split
    · simp
    · simp [ih]

theorem locRec_lt (lens : List Nat) (i : Nat) (h : i < lens.sum) :
    ∃ j, (locRec lens i).2 = some j ∧ ∃ hp : (locRec lens i).1 < lens.length,
      j < lens[(locRec lens i).1] ∧ (lens.take (locRec lens i).1).sum + j = i := by
  induction lens generalizing i with
  | nil => simp at h
  | cons l ls ih =>
    unfold locRec
    split
    · rename_i hl
      exact ⟨i, rfl, by simp, by simpa using hl, by simp⟩
    · rename_i hl
      have h' : i - l < ls.sum := by simp at h; omega
      obtain ⟨j, h1, hp, h2, h3⟩ := ih (i - l) h'
      refine ⟨j, h1, by simpa using hp, by simpa using h2, ?_⟩
      simp [List.take_succ_cons]
      omega

theorem locRec_ge (lens : List Nat) (i : Nat) (h : lens.sum ≤ i) :
    locRec lens i = (lens.length, none) := by
  induction lens generalizing i with
  | nil => simp [locRec]
  | cons l ls ih =>
    unfold locRec
    simp at h
    have : ¬ i < l := by omega
    simp [this, ih (i - l) (by omega)]

theorem bisectRight_offsetsFrom_lt (lens : List Nat) (acc x : Nat) (h : x < acc) :
    bisectRight (offsetsFrom acc lens) x = 0 := by
  cases lens <;> simp [offsetsFrom, bisectRight] <;> omega

theorem bisect_locRec (lens : List Nat) (acc x : Nat) (h : acc ≤ x) :
    bisectRight (offsetsFrom acc lens) x = (locRec lens (x - acc)).1 + 1 ∧
    ∀ j, (locRec lens (x - acc)).2 = some j →
      (offsetsFrom acc lens).getD (locRec lens (x - acc)).1 0 + j = x := by
  induction lens generalizing acc with
  | nil => simp [offsetsFrom, bisectRight, locRec, h]
  | cons l ls ih =>
    unfold locRec
    by_cases hl : x - acc < l
    · simp only [hl, if_true]
      have : x < acc + l := by omega
      simp [offsetsFrom, bisectRight, h, bisectRight_offsetsFrom_lt ls (acc + l) x this]
    · simp only [hl, if_false]
      have h2 : acc + l ≤ x := by omega
      have := ih (acc + l) h2
      have e : x - (acc + l) = x - acc - l := by omega
      rw [e] at this
      constructor
      · simp [offsetsFrom, bisectRight, h, this.1]; omega
      · intro j hj
        simpa [offsetsFrom] using this.2 j hj

theorem locate_eq_locRec (lens : List Nat) (i : Nat) :
    locate lens i = locRec lens i := by
  have hb := bisect_locRec lens 0 i (Nat.zero_le _)
  simp only [Nat.sub_zero] at hb
  unfold locate offsets
  simp only [hb.1, Nat.add_sub_cancel]
  by_cases hn : (locRec lens i).1 = lens.length
  · simp only [hn, if_true]
    have := (locRec_none lens i).2 hn
    exact Prod.ext hn.symm this.symm
  · simp only [hn, if_false]
    cases h2 : (locRec lens i).2 with
    | none => exact absurd ((locRec_none lens i).1 h2) hn
    | some j =>
      have := hb.2 j h2
      apply Prod.ext
      · rfl
      · simp only [h2]; congr 1; omega


/-! ### Decomposition of a flattened list along its parts -/

theorem sum_take_succ (lens : List Nat) (p : Nat) (hp : p < lens.length) :
    (lens.take (p + 1)).sum = (lens.take p).sum + lens[p] := by
  induction lens generalizing p with
  | nil => simp at hp
  | cons l ls ih =>
    cases p with
    | zero => simp
    | succ p =>
      simp only [List.take_succ_cons, List.sum_cons, List.getElem_cons_succ]
      rw [ih p (by simpa using hp)]; omega

theorem sum_take_mono (lens : List Nat) (p q : Nat) (h : p ≤ q) :
    (lens.take p).sum ≤ (lens.take q).sum := by
  induction lens generalizing p q with
  | nil => simp
  | cons l ls ih =>
    cases p with
    | zero => simp
    | succ p =>
      cases q with
      | zero => omega
      | succ q =>
        simp only [List.take_succ_cons, List.sum_cons]
        have := ih p q (by omega); omega

theorem sum_take_le (lens : List Nat) (p : Nat) : (lens.take p).sum ≤ lens.sum := by
  have := sum_take_mono lens p lens.length
  by_cases h : p ≤ lens.length
  · simpa using this h
  · rw [List.take_of_length_le (by omega)]; exact Nat.le_refl _

theorem flatten_take_pos {α : Type} (parts : List (List α)) (p j : Nat)
    (hj : j ≤ (parts.getD p []).length) :
    parts.flatten.take (((parts.map List.length).take p).sum + j)
      = (parts.take p).flatten ++ (parts.getD p []).take j := by
  induction parts generalizing p with
  | nil => simp at hj; simp [hj]
  | cons q qs ih =>
    cases p with
    | zero =>
      simp at hj
      simp [List.take_append_of_le_length hj]
    | succ p =>
      simp only [List.getD_cons_succ] at hj
      simp only [List.map_cons, List.take_succ_cons, List.sum_cons, List.flatten_cons,
        List.getD_cons_succ, List.append_assoc]
      rw [Nat.add_assoc, List.take_length_add_append, ih p hj]

theorem flatMap_range' {α : Type} (parts : List (List α)) (a n : Nat) (h : a + n ≤ parts.length) :
    (List.range' a n).flatMap (fun s => parts.getD s []) = ((parts.drop a).take n).flatten := by
  induction n generalizing a with
  | zero => simp
  | succ n ih =>
    have ha : a < parts.length := by omega
    rw [List.range'_succ, List.flatMap_cons, ih (a + 1) (by omega)]
    rw [List.drop_eq_getElem_cons ha, List.take_succ_cons, List.flatten_cons]
    simp [List.getD_eq_getElem?_getD, List.getElem?_eq_getElem ha]

theorem take_split {α : Type} (parts : List α) (p q : Nat) (hpq : p < q) (hp : p < parts.length) :
    parts.take q = parts.take p ++ parts[p] :: (parts.drop (p + 1)).take (q - (p + 1)) := by
  have : q = p + (1 + (q - (p + 1))) := by omega
  conv => lhs; rw [this]
  rw [List.take_add, Nat.add_comm 1, List.drop_eq_getElem_cons hp, List.take_succ_cons]

theorem clampBound_le (n dflt : Nat) (o : Option Int) (h : dflt ≤ n) : clampBound n dflt o ≤ n := by
  unfold clampBound
  split
  · exact h
  · split <;> omega


theorem total_map_length {α : Type} (parts : List (List α)) :
    total (parts.map List.length) = parts.flatten.length := by
  simp [total, List.length_flatten]

theorem locate_lt {α : Type} (parts : List (List α)) (i : Nat) (h : i < parts.flatten.length) :
    ∃ p j, locate (parts.map List.length) i = (p, some j) ∧ ∃ hp : p < parts.length,
      j < parts[p].length ∧ ((parts.map List.length).take p).sum + j = i := by
  rw [locate_eq_locRec]
  have h' : i < (parts.map List.length).sum := by rw [← List.length_flatten]; exact h
  obtain ⟨j, h1, hp, h2, h3⟩ := locRec_lt _ i h'
  refine ⟨_, j, Prod.ext rfl h1, by simpa using hp, by simpa using h2, h3⟩

theorem locate_ge {α : Type} (parts : List (List α)) (i : Nat) (h : parts.flatten.length ≤ i) :
    locate (parts.map List.length) i = (parts.length, none) := by
  rw [locate_eq_locRec, locRec_ge _ i (by rw [← List.length_flatten]; exact h)]
  simp

theorem sum_take_map_length {α : Type} (parts : List (List α)) (p : Nat) :
    ((parts.map List.length).take p).sum = (parts.take p).flatten.length := by
  rw [List.length_flatten, List.map_take]

/-- The chained range iterators of a normalised slice yield `flatten[s:e]`. -/
theorem rangesBetween_elems {α : Type} (parts : List (List α)) (s e : Nat) (hse : s < e)
    (he : e ≤ parts.flatten.length) :
    (rangesBetween (parts.map List.length) s e).flatMap (rngElems parts)
      = (parts.flatten.drop s).take (e - s) := by
  obtain ⟨p, j, hs, hp, hj, hpos⟩ := locate_lt parts s (by omega)
  have hPp := sum_take_map_length parts p
  have hgp : parts.getD p [] = parts[p] := by
    simp [List.getD_eq_getElem?_getD, List.getElem?_eq_getElem hp]
  -- the stop position as (q, j2) with `flatten.take e = (take q).flatten ++ (getD q).take j2`
  have hstop : ∃ q j2, (locate (parts.map List.length) e).1 = q ∧
      ((locate (parts.map List.length) e).2 = some j2 ∨
        ((locate (parts.map List.length) e).2 = none ∧ j2 = 0 ∧ q = parts.length)) ∧
      q ≤ parts.length ∧ j2 ≤ (parts.getD q []).length ∧
      ((parts.map List.length).take q).sum + j2 = e ∧ (q < parts.length → j2 < (parts.getD q []).length) := by
    by_cases hlt : e < parts.flatten.length
    · obtain ⟨q, j2, h1, hq, h2, h3⟩ := locate_lt parts e hlt
      have hgq : parts.getD q [] = parts[q] := by
        simp [List.getD_eq_getElem?_getD, List.getElem?_eq_getElem hq]
      exact ⟨q, j2, by rw [h1], Or.inl (by rw [h1]), by omega, by rw [hgq]; omega, h3,
        fun _ => by rw [hgq]; exact h2⟩
    · have h1 := locate_ge parts e (by omega)
      refine ⟨parts.length, 0, by rw [h1], Or.inr ⟨by rw [h1], rfl, rfl⟩, Nat.le_refl _, Nat.zero_le _, ?_,
        fun h => absurd h (Nat.lt_irrefl _)⟩
      rw [sum_take_map_length, List.take_length]; omega
  obtain ⟨q, j2, hq1, hq2, hqle, hj2, hepos, hj2lt⟩ := hstop
  have htake : parts.flatten.take e = (parts.take q).flatten ++ (parts.getD q []).take j2 := by
    rw [← hepos]; exact flatten_take_pos parts q j2 hj2
  have hgoal : (parts.flatten.drop s).take (e - s) = (parts.flatten.take e).drop s := by
    rw [List.drop_take]
  rw [hgoal, htake]
  -- p ≤ q
  have hpq : p ≤ q := by
    by_cases hc : p ≤ q
    · exact hc
    · exfalso
      have hq : q < parts.length := by omega
      have h1 := sum_take_succ (parts.map List.length) q (by simpa using hq)
      have h2 := sum_take_mono (parts.map List.length) (q + 1) p (by omega)
      have h3 := hj2lt hq
      have hgq : parts.getD q [] = parts[q] := by
        simp [List.getD_eq_getElem?_getD, List.getElem?_eq_getElem hq]
      rw [hgq] at h3
      simp only [List.getElem_map] at h1
      omega
  unfold rangesBetween
  simp only [hs, hq1, List.length_map]
  rw [if_neg (by omega)]
  by_cases hpq' : p = q
  · subst hpq'
    rw [if_pos rfl]
    have hstop2 : (locate (parts.map List.length) e).2 = some j2 := by
      rcases hq2 with h | ⟨_, _, h⟩
      · exact h
      · omega
    simp only [hstop2, Option.getD_some, List.flatMap_cons, List.flatMap_nil, List.append_nil]
    unfold rngElems
    simp only [hgp, Option.getD_some]
    rw [← hpos, hPp, List.drop_append]
    simp only [List.drop_eq_nil_of_le (Nat.le_add_right _ _), List.nil_append, Nat.add_sub_cancel_left]
    rw [List.drop_take]
  · rw [if_neg hpq']
    have hlt : p < q := by omega
    rw [take_split parts p q hlt hp]
    simp only [List.flatten_append, List.flatten_cons, List.append_assoc]
    rw [← hpos, hPp, List.drop_append]
    simp only [List.drop_eq_nil_of_le (Nat.le_add_right _ _), List.nil_append, Nat.add_sub_cancel_left]
    rw [List.drop_append_of_le_length (by omega)]
    have e1 : rngElems parts ⟨p, j, none⟩ = parts[p].drop j := by
      unfold rngElems
      simp only [hgp, Option.getD_none]
      rw [List.take_of_length_le (by simp)]
    have e2 : (List.range' (p + 1) (q - (p + 1))).flatMap (fun s => rngElems parts ⟨s, 0, none⟩)
        = ((parts.drop (p + 1)).take (q - (p + 1))).flatten := by
      rw [← flatMap_range' parts (p + 1) (q - (p + 1)) (by omega)]
      congr 1
      funext x
      simp [rngElems]
    simp only [Option.getD_some, List.flatMap_cons, List.flatMap_append, List.flatMap_map]
    rw [e1, e2, List.append_assoc]
    congr 1
    congr 1
    rcases hq2 with h | ⟨h, h0, _⟩
    · rw [h]
      cases j2 with
      | zero => simp
      | succ k => simp [rngElems]
    · rw [h, h0]; simp


theorem sliceElems_eq_pySlice {α : Type} (parts : List (List α)) (a b : Option Int) :
    sliceElems parts a b = pySlice parts.flatten a b := by
  unfold sliceElems sliceRanges pySlice sliceIndices
  rw [total_map_length]
  have hs := clampBound_le parts.flatten.length 0 a (Nat.zero_le _)
  have he := clampBound_le parts.flatten.length parts.flatten.length b (Nat.le_refl _)
  by_cases h : clampBound parts.flatten.length 0 a ≥ clampBound parts.flatten.length parts.flatten.length b
  · rw [if_pos h]
    have : clampBound parts.flatten.length parts.flatten.length b - clampBound parts.flatten.length 0 a = 0 := by
      omega
    simp only [this, List.take_zero, List.flatMap_nil]
  · rw [if_neg h]
    exact rangesBetween_elems parts _ _ (by omega) he

theorem flatten_getElem_pos {α : Type} (parts : List (List α)) (p j : Nat) (hp : p < parts.length)
    (hj : j < parts[p].length) :
    parts.flatten[((parts.map List.length).take p).sum + j]? = some parts[p][j] := by
  induction parts generalizing p with
  | nil => simp at hp
  | cons q qs ih =>
    cases p with
    | zero =>
      simp only [List.getElem_cons_zero] at hj
      simp [List.getElem?_append_left hj]
    | succ p =>
      simp only [List.getElem_cons_succ] at hj
      simp only [List.map_cons, List.take_succ_cons, List.sum_cons, List.flatten_cons,
        List.getElem_cons_succ]
      rw [Nat.add_assoc, List.getElem?_append_right (by omega), Nat.add_sub_cancel_left]
      exact ih p (by simpa using hp) hj

theorem mem_le_sum (l : List Nat) (a : Nat) (h : a ∈ l) : a ≤ l.sum := by
  induction l with
  | nil => simp at h
  | cons b bs ih =>
    simp only [List.mem_cons] at h
    simp only [List.sum_cons]
    rcases h with h | h
    · omega
    · have := ih h; omega

theorem pyIndex_norm {α : Type} (xs : List α) (i k : Int)
    (hk : (if i < 0 then (xs.length : Int) + i else i) = k) :
    pyIndex xs i = if k < 0 then .error .index else orIndexError xs[k.toNat]? := by
  unfold pyIndex
  subst hk
  by_cases h : i < 0 <;> simp [h, Int.add_comm]

theorem pyIndex_nat {α : Type} (xs : List α) (j : Nat) :
    pyIndex xs (j : Int) = orIndexError xs[j]? := by
  rw [pyIndex_norm xs j j (by simp [show ¬ ((j : Int) < 0) by omega])]
  simp [show ¬ ((j : Int) < 0) by omega]

theorem getitem_eq_pyIndex {α : Type} (parts : List (List α)) (i : Int) :
    getitem parts i = pyIndex parts.flatten i := by
  unfold getitem index_
  rw [total_map_length]
  generalize hk : (if i < 0 then (parts.flatten.length : Int) + i else i) = k
  rw [pyIndex_norm parts.flatten i k hk]
  by_cases hneg : k < 0
  · simp only [hneg, if_true]
    -- `sequences[-1][k - n]`
    by_cases hemp : parts.length = 0
    · have : parts = [] := List.eq_nil_of_length_eq_zero hemp
      subst this
      simp [pyIndex]
    · have hlast : pyIndex parts (-1) = .ok (parts[parts.length - 1]'(by omega)) := by
        rw [pyIndex_norm parts (-1) ((parts.length : Int) - 1) (by simp; omega)]
        have h1 : ¬ ((parts.length : Int) - 1 < 0) := by omega
        have h2 : ((parts.length : Int) - 1).toNat = parts.length - 1 := by omega
        simp only [h1, if_false, h2]
        rw [List.getElem?_eq_getElem (by omega)]
        rfl
      rw [hlast]
      simp only []
      have hlen : (parts[parts.length - 1]'(by omega)).length ≤ parts.flatten.length := by
        rw [List.length_flatten]
        exact mem_le_sum _ _ (List.mem_map.2 ⟨_, List.getElem_mem _, rfl⟩)
      rw [pyIndex_norm _ (k - (parts.flatten.length : Int))
        (((parts[parts.length - 1]'(by omega)).length : Int) + (k - (parts.flatten.length : Int)))
        (by simp; omega)]
      simp only [show ((parts[parts.length - 1]'(by omega)).length : Int) + (k - (parts.flatten.length : Int)) < 0
        by omega, if_true]
  · simp only [hneg, if_false]
    by_cases hlt : k.toNat < parts.flatten.length
    · obtain ⟨p, j, hloc, hp, hj, hpos⟩ := locate_lt parts k.toNat hlt
      have hget := flatten_getElem_pos parts p j hp hj
      rw [hpos] at hget
      simp only [hloc, hget, Option.map_some]
      rw [pyIndex_nat, List.getElem?_eq_getElem hp]
      show pyIndex parts[p] ((j : Nat) : Int) = _
      rw [pyIndex_nat, List.getElem?_eq_getElem hj]
    · have hloc := locate_ge parts k.toNat (by omega)
      have hnone : parts.flatten[k.toNat]? = none := by
        rw [List.getElem?_eq_none_iff]; omega
      simp only [hloc, hnone, Option.map_none]
      rw [pyIndex_nat, List.getElem?_eq_none (Nat.le_refl _)]
      rfl

end MlModel.Merged
