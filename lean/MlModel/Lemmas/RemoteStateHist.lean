import MlModel.Lemmas.RemoteState
/-!
# One client operation on a remote object = the same operation on the local object
-/
namespace MlModel.RemoteState
open MlModel MlModel.Lazy

theorem pyChain_append (as bs : List SLink) : ∀ (v : PyVal) (h : Heap),
    pyChain v (as ++ bs) h =
      match pyChain v as h with
      | (.ok v', h') => pyChain v' bs h'
      | (.error e, h') => (.error e, h') := by
  induction as with
  | nil => intro v h; simp [pyChain]
  | cons a as ih =>
    intro v h
    simp only [List.cons_append, pyChain]
    cases hl : pyLink v a h with
    | mk res h' => cases res <;> simp [ih]

theorem pyChain_single (v : PyVal) (l : SLink) (h : Heap) : pyChain v [l] h = pyLink v l h := by
  simp only [pyChain]
  cases hl : pyLink v l h with
  | mk res h' => cases res <;> rfl

/-- `chainF` with no flag set is `chainR` -/
theorem chainF_plain (fs : List FLink) : ∀ x : CExpr, (fs.all (fun f => !f.cache && !f.lazy)) = true →
    chainF x fs = chainR x (fs.map (·.l)) := by
  induction fs with
  | nil => intro x _; rfl
  | cons f fs ih =>
    intro x h
    simp only [List.all_cons, Bool.and_eq_true, Bool.not_eq_true'] at h
    obtain ⟨⟨h1, h2⟩, h3⟩ := h
    simp only [chainF, List.foldl_cons, List.map_cons, chainR_cons] at *
    have : applyF x f = applyR x f.l := by simp [applyF, applyR, h1, h2]
    rw [this]
    exact ih _ (by simpa using h3)

/-- the operations whose expressions carry no `cache_result` flag (everything `RemoteObject`,
`RemoteIterator` and flag-free lazy expressions produce) -/
def Op.plain : Op → Bool
  | .getF _ fs => fs.all (fun f => !f.cache && !f.lazy)
  | _ => true

theorem loc_newHandle (v : PyVal) (s : SSt) :
    (newHandle v s).2.loc = (Loc.bind s.loc v).2 ∧ Obs.remote s.nextId = (Loc.bind s.loc v).1 := by
  simp [newHandle, SSt.loc, Loc.bind]

/-- a builtin traced on a flag-free chain -/
theorem evalBuiltin_chainR (f : Heap → PyVal → Except Err PyVal × Heap) (id : Nat) (ls : List SLink) (z : Bool)
    (s : SSt) (v : PyVal) (h : s.hnd.lookup id = some v) :
    evalBuiltin f (chainR (.root id) ls) z s =
      match pyChain v ls s.heap with
      | (.error e, h') => (.error e, { s with heap := h' })
      | (.ok v', h') =>
        match f h' v' with
        | (.error e, h'') => (.error e, { s with heap := h'' })
        | (.ok w, h'') =>
          if z then ((.ok (newHandle w { s with heap := h'' }).1), (newHandle w { s with heap := h'' }).2)
          else (.ok (.val w), { s with heap := h'' }) := by
  unfold evalBuiltin
  rw [evalC_handle_chain id ls s v h]
  cases hp : pyChain v ls s.heap with
  | mk res h' =>
    cases res with
    | error e => simp [liftPy, Except.map]
    | ok v' =>
      simp only [liftPy, Except.map, derefRV]
      cases hf : f h' v' with
      | mk r2 h'' => cases r2 <;> simp

theorem step_eq_local (op : Op) (s : SSt) (hp : op.plain = true) :
    (remoteStep op s).1 = (localStep op s.loc).1 ∧ (remoteStep op s).2.loc = (localStep op s.loc).2 := by
  cases op with
  | mk c args =>
    simp only [remoteStep, remoteStepWith, localStep, SSt.loc]
    cases hc : construct s.heap c args with
    | mk res h' =>
      cases res with
      | error e => simp
      | ok v => simp [obsOf, newHandle, Loc.bind]
  | clear => simp [remoteStep, remoteStepWith, localStep, clearCache, SSt.loc]
  | next h =>
    simp only [remoteStep, remoteStepWith, localStep, Loc.apply]
    cases hl : s.hnd.lookup h with
    | none =>
      have : evalBuiltin nextOf (.root h) false s = (.error .missing, s) := by
        simp [evalBuiltin, evalC, hl]
      simp [this, obsOf, SSt.loc, hl]
    | some v =>
      have := evalBuiltin_chainR nextOf h [] false s v hl
      simp only [chainR_nil, pyChain] at this
      rw [this]
      simp only [SSt.loc, hl]
      cases hf : nextOf s.heap v with
      | mk r2 h'' => cases r2 <;> simp [obsOf]
  | iter h ls =>
    simp only [remoteStep, remoteStepWith, localStep, Loc.apply]
    cases hl : s.hnd.lookup h with
    | none =>
      have : evalBuiltin iterOf (chainR (.root h) ls) true s = (.error .missing, s) := by
        simp [evalBuiltin, evalC_handle_chain_missing h ls s hl]
      simp [this, obsOf, SSt.loc, hl]
    | some v =>
      rw [evalBuiltin_chainR iterOf h ls true s v hl]
      simp only [SSt.loc, hl]
      cases hp : pyChain v ls s.heap with
      | mk res h' =>
        cases res with
        | error e => simp [obsOf]
        | ok v' =>
          simp only
          cases hf : iterOf h' v' with
          | mk r2 h'' => cases r2 <;> simp [obsOf, newHandle, Loc.bind]
  | getF h fs =>
    simp only [Op.plain] at hp
    simp only [remoteStep, remoteStepWith, localStep, Loc.apply, chainF_plain fs _ hp]
    cases hl : s.hnd.lookup h with
    | none => simp [evalC_handle_chain_missing h _ s hl, obsOf, SSt.loc, hl]
    | some v =>
      rw [evalC_handle_chain h _ s v hl]
      simp only [SSt.loc, hl]
      cases hp : pyChain v (fs.map (·.l)) s.heap with
      | mk res h' => cases res <;> simp [obsOf, liftPy, Except.map]
  | get h ls lazy =>
    simp only [remoteStep, remoteStepWith, localStep, Loc.apply]
    cases lazy with
    | false =>
      simp only [Bool.false_and, Bool.false_eq_true, if_false]
      cases hl : s.hnd.lookup h with
      | none => simp [evalC_handle_chain_missing h _ s hl, obsOf, SSt.loc, hl]
      | some v =>
        rw [evalC_handle_chain h _ s v hl]
        simp only [SSt.loc, hl]
        cases hp : pyChain v ls s.heap with
        | mk res h' => cases res <;> simp [obsOf, liftPy, Except.map]
    | true =>
      simp only [if_true, Bool.true_and]
      cases hg : ls.getLast? with
      | none =>
        have hnil : ls = [] := by simpa using hg
        subst hnil
        cases hl : s.hnd.lookup h with
        | none => simp [evalC, obsOf, SSt.loc, hl]
        | some v => simp [evalC, obsOf, SSt.loc, hl, pyChain]
      | some l =>
        obtain ⟨init, rfl⟩ := List.getLast?_eq_some_iff.mp hg
        have hne : (init ++ [l]).isEmpty = false := by cases init <;> rfl
        simp only [hne, Bool.not_false, if_true, List.dropLast_concat]
        rw [evalC_link_nocache]
        cases hl : s.hnd.lookup h with
        | none =>
          simp [evalC_handle_chain_missing h _ s hl, linkBody, obsOf, SSt.loc, hl]
        | some v =>
          rw [evalC_handle_chain h _ s v hl]
          simp only [SSt.loc, hl, pyChain_append]
          cases hp : pyChain v init s.heap with
          | mk res h' =>
            cases res with
            | error e => simp [liftPy, Except.map, linkBody, obsOf]
            | ok v' =>
              simp only [liftPy, Except.map, linkBody, derefRV, pyChain_single]
              cases hk : pyLink v' l h' with
              | mk r2 h'' => cases r2 <;> simp [obsOf, newHandle, Loc.bind]

/-- every history of flag-free operations: the client's observations are the observations of the same
history on local objects, and the server's objects end in the state of the local ones -/
theorem run_eq_local (ops : List Op) : ∀ s : SSt, (∀ op ∈ ops, op.plain = true) →
    (remoteRun ops s).1 = (localRun ops s.loc).1 ∧ (remoteRun ops s).2.loc = (localRun ops s.loc).2 := by
  induction ops with
  | nil => intro s _; simp [remoteRun, remoteRunWith, localRun]
  | cons op ops ih =>
    intro s h
    obtain ⟨h1, h2⟩ := step_eq_local op s (h op (by simp))
    obtain ⟨i1, i2⟩ := ih (remoteStep op s).2 (fun o ho => h o (by simp [ho]))
    simp only [remoteRun, remoteRunWith, localRun]
    simp only [remoteRun, remoteStep] at i1 i2 h1 h2
    rw [← h2, ← h1]
    exact ⟨by rw [i1], i2⟩

end MlModel.RemoteState
