import MlModel.Model.Agg.Text
import MlModel.Model.Spec.Text
/-!
# `re.sub(...).lower().split()` is the one-pass tokeniser of the specification

`Agg.Text.words t = Spec.Text.words t` for every text `t` (arbitrary code points).
-/
namespace MlModel.Agg.Text


theorem toLower_ne_space (c : Char) (h : c.isAlpha = true) : c.toLower ≠ ' ' := by
  intro e
  have h2 : c.toLower.toNat = 32 := by rw [e]; rfl
  simp only [Char.isAlpha, Char.isUpper, Char.isLower, Bool.or_eq_true, Bool.and_eq_true,
    decide_eq_true_eq, Bool.decide_and] at h
  unfold Char.toLower at h2
  split at h2
  · rename_i hu
    simp only [Char.toNat, UInt32.le_iff_toNat_le, ge_iff_le] at hu h2
    simp [UInt32.toNat_add] at h2
    have : c.toNat = c.val.toNat := rfl
    have : ('A'.val).toNat = 65 := rfl
    have : ('Z'.val).toNat = 90 := rfl
    omega
  · rename_i hu
    simp only [Char.toNat, UInt32.le_iff_toNat_le, ge_iff_le] at hu h h2
    have : ('A'.val).toNat = 65 := rfl
    have : ('Z'.val).toNat = 90 := rfl
    have : ('a'.val).toNat = 97 := rfl
    have : ('z'.val).toNat = 122 := rfl
    omega

theorem fields_ne_nil (s : Str) : fields s ≠ [] := by
  cases s with
  | nil => simp [fields]
  | cons c cs =>
    simp only [fields]
    split
    · simp
    · split <;> simp

theorem normalize_cons_alpha (c : Char) (cs : Str) (h : c.isAlpha = true) :
    normalize (c :: cs) = c.toLower :: normalize cs := by
  simp [normalize, keep, h]

theorem normalize_cons_space (cs : Str) : normalize (' ' :: cs) = ' ' :: normalize cs := by
  have : Char.toLower ' ' = ' ' := by decide
  simp [normalize, keep, this]

theorem normalize_cons_other (c : Char) (cs : Str) (h : c.isAlpha = false) (h' : c ≠ ' ') :
    normalize (c :: cs) = normalize cs := by
  simp [normalize, keep, h, h']

/-- the scanner with a partially read word `cur` = the split of the normalised rest, with `cur` glued
in front of its first field -/
theorem scan_eq (t : Str) : ∀ (cur w : Str) (ws : List Str), fields (normalize t) = w :: ws →
    Spec.Text.scan t cur = ((cur ++ w) :: ws).filter (· ≠ []) := by
  induction t with
  | nil =>
    intro cur w ws h
    simp only [normalize, List.filter_nil, List.map_nil, fields, List.cons.injEq] at h
    obtain ⟨rfl, rfl⟩ := h
    by_cases hc : cur = [] <;> simp [Spec.Text.scan, hc]
  | cons c cs ih =>
    intro cur w ws h
    obtain ⟨w', ws', hf⟩ : ∃ w' ws', fields (normalize cs) = w' :: ws' := by
      cases hh : fields (normalize cs) with
      | nil => exact absurd hh (fields_ne_nil _)
      | cons a b => exact ⟨a, b, rfl⟩
    by_cases ha : c.isAlpha = true
    · rw [normalize_cons_alpha c cs ha] at h
      simp only [fields, hf, toLower_ne_space c ha, if_false, List.cons.injEq] at h
      obtain ⟨rfl, rfl⟩ := h
      simp only [Spec.Text.scan, ha, if_true]
      rw [ih (cur ++ [c.toLower]) w' ws' hf]
      simp [List.append_assoc]
    · have ha' : c.isAlpha = false := by simpa using ha
      by_cases hs : c = ' '
      · subst hs
        rw [normalize_cons_space] at h
        simp only [fields, hf, if_true, List.cons.injEq] at h
        obtain ⟨rfl, rfl⟩ := h
        simp only [Spec.Text.scan, ha', Bool.false_eq_true, if_false, if_true]
        rw [ih [] w' ws' hf]
        by_cases hc : cur = [] <;> simp [hc]
      · rw [normalize_cons_other c cs ha' hs] at h
        simp only [Spec.Text.scan, ha', Bool.false_eq_true, if_false, hs]
        exact ih cur w ws h

/-- **tokenisation**: the regex/`lower`/`split` pipeline is the documented tokeniser -/
theorem words_eq_spec (t : Str) : words t = Spec.Text.words t := by
  obtain ⟨w, ws, hf⟩ : ∃ w ws, fields (normalize t) = w :: ws := by
    cases hh : fields (normalize t) with
    | nil => exact absurd hh (fields_ne_nil _)
    | cons a b => exact ⟨a, b, rfl⟩
  rw [Spec.Text.words, scan_eq t [] w ws hf, words, splitWords, hf, List.nil_append]

end MlModel.Agg.Text
