import MlModel.Lemmas.QueueLiveCnt
/-!
# Liveness of the IteratorQueue LTS — generic list / frame lemmas

`others c u P`: some thread other than `u` satisfies `P`.  A step of thread `u` does not change
`others c u P`; this is how the per-step lemmas (which only see the stepping thread) are lifted to
statements about the whole configuration.
-/
namespace MlModel.Queue

theorem countP_set' {α} (p : α → Bool) {l : List α} {i : Nat} {a b : α} (h : l[i]? = some a) :
    (l.set i b).countP p + (if p a = true then 1 else 0) = l.countP p + (if p b = true then 1 else 0) := by
  induction l generalizing i with
  | nil => simp at h
  | cons x xs ih =>
    cases i with
    | zero =>
      simp only [List.getElem?_cons_zero, Option.some.injEq] at h
      subst h
      simp only [List.set_cons_zero, List.countP_cons]
      omega
    | succ j =>
      simp only [List.getElem?_cons_succ] at h
      have := ih h
      simp only [List.set_cons_succ, List.countP_cons]
      omega

theorem countP_lt_of {α} (p q : α → Bool) {l : List α} {a : α} (hpq : ∀ x, p x = true → q x = true)
    (ha : a ∈ l) (hqa : q a = true) (hpa : p a = false) : l.countP p + 1 ≤ l.countP q := by
  induction l with
  | nil => simp at ha
  | cons x xs ih =>
    simp only [List.countP_cons]
    have hmono : xs.countP p ≤ xs.countP q := List.countP_mono_left (fun y _ h => hpq y h)
    rcases List.mem_cons.mp ha with rfl | hm
    · simp only [hqa, hpa, if_true]; simp; omega
    · have := ih hm
      have h1 : (if p x = true then 1 else 0) ≤ (if q x = true then 1 else 0) := by
        by_cases hx : p x = true
        · simp [hx, hpq x hx]
        · simp [hx]
      omega

theorem exists_of_countP_lt {α} (p q : α → Bool) {l : List α} (h : l.countP p < l.countP q) :
    ∃ a ∈ l, q a = true ∧ p a = false := by
  induction l with
  | nil => simp at h
  | cons x xs ih =>
    by_cases hx : q x = true ∧ p x = false
    · exact ⟨x, List.mem_cons_self, hx⟩
    · have : xs.countP p < xs.countP q := by
        simp only [List.countP_cons] at h
        by_cases hq : q x = true
        · have hp : p x = true := by
            cases hpx : p x
            · exact absurd ⟨hq, hpx⟩ hx
            · rfl
          simp only [hq, hp, if_true] at h; omega
        · simp only [hq] at h
          split at h <;> simp at h <;> omega
      obtain ⟨a, ha, h1⟩ := ih this
      exact ⟨a, List.mem_cons_of_mem _ ha, h1⟩

def others (c : Cfg) (u : Tid) (P : Thread → Bool) : Prop :=
  ∃ j tj, j ≠ u ∧ c.ths[j]? = some tj ∧ P tj = true

theorem anyT_iff {c : Cfg} {u : Tid} {t : Thread} {P : Thread → Bool} (h : c.ths[u]? = some t) :
    anyT c P ↔ (P t = true ∨ others c u P) := by
  unfold anyT others
  constructor
  · rintro ⟨x, hx, hp⟩
    obtain ⟨j, hj⟩ := List.getElem?_of_mem hx
    by_cases hju : j = u
    · subst hju; rw [h] at hj; cases hj; exact Or.inl hp
    · exact Or.inr ⟨j, x, hju, hj, hp⟩
  · rintro (hp | ⟨j, x, _, hj, hp⟩)
    · exact ⟨t, List.mem_of_getElem? h, hp⟩
    · exact ⟨x, List.mem_of_getElem? hj, hp⟩

theorem others_set {c : Cfg} {u : Tid} {t' : Thread} {s' : Shared} {P : Thread → Bool} :
    others { sh := s', ths := c.ths.set u t' } u P ↔ others c u P := by
  unfold others
  constructor
  · rintro ⟨j, x, hju, hj, hp⟩
    rw [List.getElem?_set_ne (Ne.symm hju)] at hj
    exact ⟨j, x, hju, hj, hp⟩
  · rintro ⟨j, x, hju, hj, hp⟩
    refine ⟨j, x, hju, ?_, hp⟩
    show (c.ths.set u t')[j]? = some x
    rw [List.getElem?_set_ne (Ne.symm hju)]; exact hj

theorem anyT_set {c : Cfg} {u : Tid} {t t' : Thread} {s' : Shared} {P : Thread → Bool}
    (h : c.ths[u]? = some t) :
    anyT { sh := s', ths := c.ths.set u t' } P ↔ (P t' = true ∨ others c u P) := by
  have hu : u < c.ths.length := (List.getElem?_eq_some_iff.mp h).1
  have h' : ({ sh := s', ths := c.ths.set u t' } : Cfg).ths[u]? = some t' := by
    show (c.ths.set u t')[u]? = some t'
    simp [hu]
  rw [anyT_iff h', others_set]

end MlModel.Queue
