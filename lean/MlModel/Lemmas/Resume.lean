import MlModel.Model.Resume
/-!
# Lemmas for C10: refinement of recoverable iterators to "a cursor into a list"

`Refines R Inv rem`: under the invariant `Inv`, the iterator behaves like the list `rem it` of
elements it will still deliver: `next` pops its head, and a restore from the captured state has
the same list.  Everything about histories is proved once against this interface; the two data
sources of `chainables/io.py` are instances.
-/
namespace MlModel.Resume

variable {α : Type}

structure Refines (R : Recoverable α) (Inv : R.It → Prop) (rem : R.It → List α) : Prop where
  next_nil : ∀ it, Inv it → rem it = [] →
    (R.next it).1 = none ∧ Inv (R.next it).2 ∧ rem (R.next it).2 = []
  next_cons : ∀ it a as, Inv it → rem it = a :: as →
    (R.next it).1 = some a ∧ Inv (R.next it).2 ∧ rem (R.next it).2 = as
  restore_state : ∀ it, Inv it → ∃ it', R.restore (R.state it) = .ok it' ∧ Inv it' ∧ rem it' = rem it
  size_ok : ∀ it, Inv it → (rem it).length ≤ R.size it

section generic
variable {R : Recoverable α} {Inv : R.It → Prop} {rem : R.It → List α}

theorem Refines.takeN (h : Refines R Inv rem) : ∀ (k : Nat) (it : R.It), Inv it →
    (takeN R k it).1 = (rem it).take k ∧ Inv (takeN R k it).2 ∧
      rem (takeN R k it).2 = (rem it).drop k := by
  intro k
  induction k with
  | zero => intro it hi; simp [Resume.takeN, hi]
  | succ k ih =>
    intro it hi
    cases hr : rem it with
    | nil =>
      obtain ⟨h1, h2, h3⟩ := h.next_nil it hi hr
      have : R.next it = (none, (R.next it).2) := by rw [← h1]
      unfold Resume.takeN
      rw [this]
      simp [h2, h3]
    | cons a as =>
      obtain ⟨h1, h2, h3⟩ := h.next_cons it a as hi hr
      have : R.next it = (some a, (R.next it).2) := by rw [← h1]
      unfold Resume.takeN
      rw [this]
      obtain ⟨i1, i2, i3⟩ := ih _ h2
      simp only [List.take_succ_cons, List.drop_succ_cons]
      rw [h3] at i1 i3
      exact ⟨by rw [i1], i2, i3⟩

/-- invariant of a source iterator under a history; `E` = the elements of the source -/
structure SrcRun.Good (h : Refines R Inv rem) (E : List α) (r : SrcRun R) : Prop where
  inv : Inv r.it
  cur : r.committed ++ r.tentative ++ rem r.it = E
  saved : ∃ its, r.saved = R.state its ∧ Inv its ∧ r.committed ++ rem its = E

theorem SrcRun.Good.step (h : Refines R Inv rem) {E : List α} {r : SrcRun R}
    (g : SrcRun.Good h E r) (op : Op) :
    ∃ r', SrcRun.step R r op = .ok r' ∧ SrcRun.Good h E r' := by
  cases op with
  | take k =>
    obtain ⟨t1, t2, t3⟩ := h.takeN k r.it g.inv
    refine ⟨_, rfl, ⟨t2, ?_, g.saved⟩⟩
    show r.committed ++ (r.tentative ++ (Resume.takeN R k r.it).1) ++ rem (Resume.takeN R k r.it).2 = E
    rw [t1, t3, ← g.cur]
    simp [List.append_assoc, List.take_append_drop]
  | ckpt =>
    refine ⟨_, rfl, ⟨g.inv, ?_, ⟨r.it, rfl, g.inv, ?_⟩⟩⟩
    · show r.committed ++ r.tentative ++ [] ++ rem r.it = E
      simpa using g.cur
    · show r.committed ++ r.tentative ++ rem r.it = E
      exact g.cur
  | restore =>
    obtain ⟨its, hs, hi, he⟩ := g.saved
    obtain ⟨it', h1, h2, h3⟩ := h.restore_state its hi
    refine ⟨{ r with it := it', tentative := [] }, ?_, ⟨h2, ?_, ⟨its, hs, hi, he⟩⟩⟩
    · simp only [SrcRun.step, hs, h1]; rfl
    · show r.committed ++ [] ++ rem it' = E
      rw [h3]; simpa using he

theorem SrcRun.Good.run (h : Refines R Inv rem) {E : List α} (ops : List Op) :
    ∀ {r : SrcRun R}, SrcRun.Good h E r →
      ∃ r', SrcRun.run R r ops = .ok r' ∧ SrcRun.Good h E r' := by
  induction ops with
  | nil => intro r g; exact ⟨r, rfl, g⟩
  | cons op ops ih =>
    intro r g
    obtain ⟨r1, h1, g1⟩ := g.step h op
    obtain ⟨r2, h2, g2⟩ := ih g1
    refine ⟨r2, ?_, g2⟩
    simp only [SrcRun.run, List.foldlM_cons, h1] at h2 ⊢
    exact h2

theorem SrcRun.Good.init (h : Refines R Inv rem) (it : R.It) (hi : Inv it) :
    SrcRun.Good h (rem it) (SrcRun.init R it) :=
  ⟨hi, by simp [SrcRun.init], ⟨it, rfl, hi, by simp [SrcRun.init]⟩⟩

/-- **Generic C10 for sources**: after any history, what was delivered on the surviving timeline
followed by what the current iterator will still deliver is exactly the source's elements. -/
theorem Refines.history (h : Refines R Inv rem) (it : R.It) (hi : Inv it) (ops : List Op) :
    ∃ r, SrcRun.run R (SrcRun.init R it) ops = .ok r ∧ Inv r.it ∧
      r.delivered ++ rem r.it = rem it := by
  obtain ⟨r, h1, g⟩ := (SrcRun.Good.init h it hi).run h ops
  exact ⟨r, h1, g.inv, g.cur⟩

/-- … and with a final `take k` that drains (`k ≥` number of elements): delivered = elements. -/
theorem Refines.history_drained (h : Refines R Inv rem) (it : R.It) (hi : Inv it) (ops : List Op)
    (k : Nat) (hk : (rem it).length ≤ k) :
    ∃ r, SrcRun.run R (SrcRun.init R it) (ops ++ [.take k]) = .ok r ∧ r.delivered = rem it := by
  obtain ⟨r, h1, g⟩ := (SrcRun.Good.init h it hi).run h ops
  obtain ⟨t1, t2, t3⟩ := h.takeN k r.it g.inv
  refine ⟨{ r with it := (Resume.takeN R k r.it).2,
                   tentative := r.tentative ++ (Resume.takeN R k r.it).1,
                   log := r.log ++ [(Resume.takeN R k r.it).1] }, ?_, ?_⟩
  · simp only [SrcRun.run, List.foldlM_append, List.foldlM_cons, List.foldlM_nil] at h1 ⊢
    rw [h1]; rfl
  · show r.committed ++ (r.tentative ++ (Resume.takeN R k r.it).1) = rem it
    have hc := g.cur
    have hl : (rem r.it).length ≤ k := by
      have := congrArg List.length hc
      simp only [List.length_append] at this
      omega
    rw [t1, List.take_of_length_le hl, ← List.append_assoc]
    exact hc

end generic

/-! ## `SequenceDataSource` / `SequenceIterator` -/

theorem shardIval_dflt (n : Nat) : shardIval (0, n) Cfg.dflt = .ok (0, n) := by
  simp [shardIval, Cfg.dflt, shardLoop, List.range_succ, Nat.mod_one]

/-- the offset only shifts the start -/
theorem shardIval_off (iv : Nat × Nat) (c : Cfg) (o : Nat) {a b : Nat}
    (h : shardIval iv c = .ok (a, b)) :
    shardIval iv { c with off := o } = .ok (a - c.off + o, b) := by
  unfold shardIval at h ⊢
  by_cases hn : c.num < 1
  · simp [hn] at h
  · simp only [hn, if_false] at h ⊢
    injection h with h
    injection h with h1 h2
    subst h1 h2
    simp

/-- intervals only -/
def ival (n : Nat) (ch : Chain) : Except ErrKind (Nat × Nat) := ch.foldlM shardIval (0, n)

theorem foldlM_shard (ch : Chain) : ∀ (s : Src),
    ch.foldlM Src.shard s =
      match ch.foldlM shardIval (s.start, s.stop) with
      | .error e => .error e
      | .ok iv => .ok ⟨s.chain ++ ch, iv.1, iv.2⟩ := by
  induction ch with
  | nil => intro s; simp [pure, Except.pure]
  | cons c ch ih =>
    intro s
    simp only [List.foldlM_cons]
    cases hs : shardIval (s.start, s.stop) c with
    | error e => simp [Src.shard, hs, bind, Except.bind]
    | ok iv =>
      have : s.shard c = .ok ⟨s.chain ++ [c], iv.1, iv.2⟩ := by simp [Src.shard, hs]
      simp only [this, bind, Except.bind]
      rw [ih]
      simp [List.append_assoc]

theorem fromState_eq (n : Nat) (ch : Chain) :
    Src.fromState n ch =
      match ival n ch with
      | .error e => .error e
      | .ok iv => .ok ⟨Cfg.dflt :: ch, iv.1, iv.2⟩ := by
  unfold Src.fromState ival
  rw [foldlM_shard]
  rfl

theorem ival_dflt (n : Nat) (ch : Chain) : ival n (Cfg.dflt :: ch) = ival n ch := by
  simp [ival, List.foldlM_cons, shardIval_dflt, bind, Except.bind]

theorem ival_snoc (n : Nat) (ch : Chain) (c : Cfg) :
    ival n (ch ++ [c]) = (ival n ch >>= fun iv => shardIval iv c) := by
  simp [ival, List.foldlM_append]

/-- a data source whose interval is what its `ShardConfig` chain says -/
def Src.WF (n : Nat) (s : Src) : Prop := s.chain ≠ [] ∧ ival n s.chain = .ok (s.start, s.stop)

theorem Src.WF.root (n : Nat) : (Src.root n).WF n :=
  ⟨by simp [Src.root], by simp [Src.root, ival, shardIval_dflt, pure, Except.pure, bind, Except.bind]⟩

theorem Src.WF.shard {n : Nat} {s s' : Src} {c : Cfg} (h : s.WF n) (hs : s.shard c = .ok s') :
    s'.WF n := by
  unfold Src.shard at hs
  cases hi : shardIval (s.start, s.stop) c with
  | error e => simp [hi] at hs
  | ok iv =>
    simp only [hi] at hs
    injection hs with hs
    subst hs
    refine ⟨by simp, ?_⟩
    show ival n (s.chain ++ [c]) = .ok (iv.1, iv.2)
    rw [ival_snoc, h.2]
    simpa [bind, Except.bind] using hi

theorem Src.WF.fromState {n : Nat} {ch : Chain} {s : Src} (h : Src.fromState n ch = .ok s) :
    s.WF n := by
  rw [fromState_eq] at h
  cases hi : ival n ch with
  | error e => simp [hi] at h
  | ok iv =>
    simp only [hi] at h
    injection h with h
    subst h
    exact ⟨by simp, by rw [ival_dflt]; exact hi⟩

/-- the elements a `SequenceIterator` will still deliver -/
def SeqIt.rem (data : List α) (it : SeqIt) : List α := (data.take it.src.stop).drop it.index

def SeqIt.Inv (n : Nat) (it : SeqIt) : Prop := it.src.WF n ∧ it.src.start ≤ it.index

theorem SeqIt.rem_cons {data : List α} {it : SeqIt} {a : α} {as : List α}
    (h : SeqIt.rem data it = a :: as) :
    it.index < it.src.stop ∧ data[it.index]? = some a ∧
      SeqIt.rem data { it with index := it.index + 1 } = as := by
  unfold SeqIt.rem at h ⊢
  have hlt : it.index < (data.take it.src.stop).length := by
    apply Nat.lt_of_not_le
    intro hc
    rw [List.drop_eq_nil_of_le hc] at h
    cases h
  have hg : (data.take it.src.stop)[it.index]? = some a := by
    have := List.getElem?_drop (xs := data.take it.src.stop) (i := it.index) (j := 0)
    rw [h] at this
    simpa using this.symm
  rw [List.length_take] at hlt
  have hlt' : it.index < it.src.stop := by omega
  refine ⟨hlt', ?_, ?_⟩
  · rw [List.getElem?_take] at hg
    simpa [hlt'] using hg
  · have := congrArg List.tail h
    simpa [List.tail_drop] using this

theorem SeqIt.rem_nil {data : List α} {it : SeqIt} (h : SeqIt.rem data it = []) :
    ¬ it.index < it.src.stop ∨ data[it.index]? = none := by
  unfold SeqIt.rem at h
  rw [List.drop_eq_nil_iff, List.length_take] at h
  by_cases hl : it.index < it.src.stop
  · right
    rw [List.getElem?_eq_none_iff]
    omega
  · left; exact hl

theorem seqRec_refines (data : List α) :
    Refines (seqRec data) (SeqIt.Inv data.length) (SeqIt.rem data) where
  next_nil := by
    intro it hi hr
    show (SeqIt.next data it).1 = none ∧ SeqIt.Inv data.length (SeqIt.next data it).2 ∧
      SeqIt.rem data (SeqIt.next data it).2 = []
    unfold SeqIt.next
    rcases SeqIt.rem_nil hr with h | h
    · simp [h, hi, hr]
    · by_cases hl : it.index < it.src.stop
      · simp [hl, h, hi, hr]
      · simp [hl, hi, hr]
  next_cons := by
    intro it a as hi hr
    show (SeqIt.next data it).1 = some a ∧ SeqIt.Inv data.length (SeqIt.next data it).2 ∧
      SeqIt.rem data (SeqIt.next data it).2 = as
    obtain ⟨h1, h2, h3⟩ := SeqIt.rem_cons hr
    unfold SeqIt.next
    rw [if_pos h1, h2]
    exact ⟨rfl, ⟨hi.1, Nat.le_succ_of_le hi.2⟩, h3⟩
  restore_state := by
    intro it hi
    obtain ⟨⟨hne, hiv⟩, hle⟩ := hi
    show ∃ it', SeqIt.restore data.length (SeqIt.state it) = .ok it' ∧ _
    -- split the chain into its parents and the leaf
    obtain ⟨pre, c, hc⟩ : ∃ pre c, it.src.chain = pre ++ [c] :=
      ⟨it.src.chain.dropLast, it.src.chain.getLast hne, (List.dropLast_concat_getLast hne).symm⟩
    have hst : SeqIt.state it = pre ++ [{ c with off := c.off + it.index - it.src.start }] := by
      simp [SeqIt.state, hc]
    rw [hc, ival_snoc] at hiv
    cases hp : ival data.length pre with
    | error e => simp [hp, bind, Except.bind] at hiv
    | ok ivp =>
      simp only [hp, bind, Except.bind] at hiv
      have hoff := shardIval_off ivp c (c.off + it.index - it.src.start) hiv
      have hstart : c.off ≤ it.src.start := by
        unfold shardIval at hiv
        by_cases hn : c.num < 1
        · simp [hn] at hiv
        · simp only [hn, if_false] at hiv
          injection hiv with hiv
          injection hiv with h1 h2
          omega
      have hidx : it.src.start - c.off + (c.off + it.index - it.src.start) = it.index := by omega
      rw [hidx] at hoff
      have hiv' : ival data.length (SeqIt.state it) = .ok (it.index, it.src.stop) := by
        rw [hst, ival_snoc, hp]
        simpa [bind, Except.bind] using hoff
      refine ⟨⟨⟨Cfg.dflt :: SeqIt.state it, it.index, it.src.stop⟩, it.index⟩, ?_, ?_, ?_⟩
      · simp [SeqIt.restore, fromState_eq, hiv', bind, Except.bind, Src.iterate, pure, Except.pure]
      · exact ⟨⟨by simp, by rw [ival_dflt]; exact hiv'⟩, Nat.le_refl _⟩
      · rfl
  size_ok := by
    intro it _
    show (SeqIt.rem data it).length ≤ it.src.stop - it.index
    simp only [SeqIt.rem, List.length_drop, List.length_take]
    omega


/-! ## `ShardedIterable` / `DataIterator` -/

/-- The elements of `xs` (whose head sits at position `j` of the iterable) at positions
`p ≥ lo` with `p % num = idx` — "filter by position", written by recursion on the list. -/
def shardElems (idx num lo : Nat) : Nat → List α → List α
  | _, [] => []
  | j, a :: as =>
    if lo ≤ j ∧ j % num = idx then a :: shardElems idx num lo (j + 1) as
    else shardElems idx num lo (j + 1) as

/-- `shardElems` is the filter on positions -/
theorem shardElems_eq_filter (idx num lo : Nat) (xs : List α) : ∀ j,
    shardElems idx num lo j xs =
      ((xs.zipIdx j).filter fun p => decide (lo ≤ p.2 ∧ p.2 % num = idx)).map (·.1) := by
  induction xs with
  | nil => intro j; rfl
  | cons a as ih =>
    intro j
    simp only [shardElems, List.zipIdx_cons, List.filter_cons]
    by_cases h : lo ≤ j ∧ j % num = idx
    · simp [h, ih]
    · simp [h, ih]

theorem shardElems_skip (idx num lo : Nat) : ∀ (i : Nat) (xs : List α) (j : Nat), j + i ≤ lo →
    shardElems idx num lo j xs = shardElems idx num lo (j + i) (xs.drop i) := by
  intro i
  induction i with
  | zero => intro xs j _; simp
  | succ i ih =>
    intro xs j h
    cases xs with
    | nil => simp [shardElems]
    | cons a as =>
      have : ¬ (lo ≤ j ∧ j % num = idx) := by omega
      simp only [shardElems, this, if_false, List.drop_succ_cons]
      rw [ih as (j + 1) (by omega)]
      congr 1
      omega

theorem shardElems_congr (idx num lo lo' : Nat) : ∀ (xs : List α) (j : Nat),
    (∀ p, j ≤ p → (lo ≤ p ↔ lo' ≤ p)) → shardElems idx num lo j xs = shardElems idx num lo' j xs := by
  intro xs
  induction xs with
  | nil => intro j _; rfl
  | cons a as ih =>
    intro j h
    have h1 := h j (Nat.le_refl _)
    have h2 := ih (j + 1) (fun p hp => h p (by omega))
    simp only [shardElems, h1, h2]

/-- the elements a `DataIterator` will still deliver -/
def IterIt.rem (data : List α) (it : IterIt) : List α :=
  shardElems it.cfg.idx it.cfg.num it.cfg.off it.index (data.drop it.index)

def IterIt.Inv (it : IterIt) : Prop := 1 ≤ it.cfg.num

theorem iterNextAux_spec (data : List α) (cfg : Cfg) : ∀ (fuel i : Nat), data.length - i < fuel →
    match shardElems cfg.idx cfg.num cfg.off i (data.drop i) with
    | [] => (iterNextAux data cfg fuel i).1 = none ∧
        shardElems cfg.idx cfg.num cfg.off (iterNextAux data cfg fuel i).2
          (data.drop (iterNextAux data cfg fuel i).2) = []
    | a :: as => (iterNextAux data cfg fuel i).1 = some a ∧
        shardElems cfg.idx cfg.num cfg.off (iterNextAux data cfg fuel i).2
          (data.drop (iterNextAux data cfg fuel i).2) = as := by
  intro fuel
  induction fuel with
  | zero => intro i h; omega
  | succ fuel ih =>
    intro i h
    by_cases hi : i < data.length
    · have hd : data.drop i = data[i] :: data.drop (i + 1) := List.drop_eq_getElem_cons hi
      have hg : data[i]? = some data[i] := List.getElem?_eq_getElem hi
      rw [hd]
      simp only [shardElems, iterNextAux, hg]
      by_cases hp : cfg.off ≤ i ∧ i % cfg.num = cfg.idx
      · have hn : ¬ (i < cfg.off ∨ i % cfg.num ≠ cfg.idx) := by omega
        rw [if_pos hp, if_neg hn]
        exact ⟨rfl, rfl⟩
      · have hn : (i < cfg.off ∨ i % cfg.num ≠ cfg.idx) := by omega
        rw [if_neg hp, if_pos hn]
        exact ih (i + 1) (by omega)
    · have hd : data.drop i = [] := List.drop_eq_nil_of_le (by omega)
      have hg : data[i]? = none := List.getElem?_eq_none_iff.mpr (by omega)
      simp [shardElems, iterNextAux, hg, hd]

theorem iterRec_refines (data : List α) :
    Refines (iterRec data) IterIt.Inv (IterIt.rem data) where
  next_nil := by
    intro it hi hr
    have := iterNextAux_spec data it.cfg (data.length - it.index + 1) it.index (by omega)
    unfold IterIt.rem at hr
    rw [hr] at this
    exact ⟨this.1, hi, this.2⟩
  next_cons := by
    intro it a as hi hr
    have := iterNextAux_spec data it.cfg (data.length - it.index + 1) it.index (by omega)
    unfold IterIt.rem at hr
    rw [hr] at this
    exact ⟨this.1, hi, this.2⟩
  restore_state := by
    intro it hi
    refine ⟨⟨{ it.cfg with off := max it.index it.cfg.off }, 0⟩, ?_, hi, ?_⟩
    · show IterIt.restore (IterIt.state it) = _
      have : ¬ it.cfg.num < 1 := by unfold IterIt.Inv at hi; omega
      simp only [IterIt.restore, IterIt.state, this, if_false]
      rfl
    · show shardElems it.cfg.idx it.cfg.num (max it.index it.cfg.off) 0 (data.drop 0) =
        shardElems it.cfg.idx it.cfg.num it.cfg.off it.index (data.drop it.index)
      have h1 := shardElems_skip (α := α) it.cfg.idx it.cfg.num
        (max it.index it.cfg.off) it.index data 0 (by omega)
      rw [List.drop_zero, h1, Nat.zero_add]
      exact shardElems_congr it.cfg.idx it.cfg.num (max it.index it.cfg.off) it.cfg.off
        (data.drop it.index) it.index (fun p hp => by omega)
  size_ok := by
    intro it _
    show (shardElems it.cfg.idx it.cfg.num it.cfg.off it.index (data.drop it.index)).length ≤ data.length - it.index
    have : ∀ (xs : List α) (lo j : Nat), (shardElems it.cfg.idx it.cfg.num lo j xs).length ≤ xs.length := by
      intro xs
      induction xs with
      | nil => intro lo j; simp [shardElems]
      | cons a as ih =>
        intro lo j
        simp only [shardElems]
        split
        · simp only [List.length_cons]; have := ih lo (j + 1); omega
        · simp only [List.length_cons]; have := ih lo (j + 1); omega
    have h := this (data.drop it.index) it.cfg.off it.index
    rw [List.length_drop] at h
    exact h


/-! ## Sequential pipelines -/

section pipe
variable {β T X S Res ρ : Type}

/-- the chain neither invents nor drops rows: what goes in comes out or stays in the buffer -/
structure Conserves (tr : Trans α β T) (V : RowView α β T ρ) : Prop where
  init : V.bufRows tr.init = []
  step : ∀ t a, (tr.step t a).2.flatMap V.rows ++ V.bufRows (tr.step t a).1 = V.bufRows t ++ V.srcRows a
  finish : ∀ t, (tr.finish t).flatMap V.rows = V.bufRows t

variable {R : Recoverable α} {Inv : R.It → Prop} {rem : R.It → List α}

def PipeIt.PInv (Inv : R.It → Prop) (rem : R.It → List α) (p : PipeIt R β T S) : Prop :=
  Inv p.src ∧ (p.done = true → rem p.src = [])

/-- all rows the pipeline will still deliver if it is never interrupted -/
def PipeIt.futRows (rem : R.It → List α) (V : RowView α β T ρ) (p : PipeIt R β T S) : List ρ :=
  PipeIt.heldRows V p ++ (rem p.src).flatMap V.srcRows

theorem PipeIt.nextAux_spec (h : Refines R Inv rem) (P : PipeDef α β T X S Res)
    (V : RowView α β T ρ) (hc : Conserves P.tr V) : ∀ (fuel : Nat) (p : PipeIt R β T S),
    PipeIt.PInv Inv rem p →
    (p.pending = [] → p.done = false → (rem p.src).length + 1 ≤ fuel) →
    PipeIt.PInv Inv rem (PipeIt.nextAux R P fuel p).2 ∧
    match (PipeIt.nextAux R P fuel p).1 with
    | some b => V.rows b ++ PipeIt.futRows rem V (PipeIt.nextAux R P fuel p).2 = PipeIt.futRows rem V p ∧
        (PipeIt.nextAux R P fuel p).2.agg = P.m.add p.agg (P.batchOf b)
    | none => PipeIt.futRows rem V p = [] ∧ PipeIt.futRows rem V (PipeIt.nextAux R P fuel p).2 = [] ∧
        (PipeIt.nextAux R P fuel p).2.agg = p.agg ∧ (PipeIt.nextAux R P fuel p).2.done = true := by
  intro fuel
  induction fuel with
  | zero =>
    intro p hp hf
    cases hpend : p.pending with
    | cons b rest =>
      simp only [PipeIt.nextAux, hpend]
      refine ⟨hp, ?_, trivial⟩
      simp [PipeIt.futRows, PipeIt.heldRows, hpend, List.append_assoc]
    | nil =>
      simp only [PipeIt.nextAux, hpend]
      have hd : p.done = true := by
        cases hdd : p.done with
        | true => rfl
        | false => have := hf hpend hdd; omega
      have : PipeIt.futRows rem V p = [] := by
        simp [PipeIt.futRows, PipeIt.heldRows, hpend, hd, hp.2 hd]
      exact ⟨hp, this, this, trivial, hd⟩
  | succ fuel ih =>
    intro p hp hf
    cases hpend : p.pending with
    | cons b rest =>
      simp only [PipeIt.nextAux, hpend]
      refine ⟨hp, ?_, trivial⟩
      simp [PipeIt.futRows, PipeIt.heldRows, hpend, List.append_assoc]
    | nil =>
      cases hd : p.done with
      | true =>
        simp only [PipeIt.nextAux, hpend, hd, if_true]
        have : PipeIt.futRows rem V p = [] := by
          simp [PipeIt.futRows, PipeIt.heldRows, hpend, hd, hp.2 hd]
        exact ⟨hp, this, this, trivial, trivial⟩
      | false =>
        have hfuel := hf hpend hd
        cases hr : rem p.src with
        | nil =>
          obtain ⟨h1, h2, h3⟩ := h.next_nil p.src hp.1 hr
          have hn : R.next p.src = (none, (R.next p.src).2) := by rw [← h1]
          have e : PipeIt.nextAux R P (fuel + 1) p =
              PipeIt.nextAux R P fuel { p with src := (R.next p.src).2, pending := P.tr.finish p.t, done := true } := by
            rw [PipeIt.nextAux]
            simp only [hpend, hd]
            rw [hn]
            rfl
          rw [e]
          have hp1 : PipeIt.PInv Inv rem ({ p with src := (R.next p.src).2, pending := P.tr.finish p.t, done := true } : PipeIt R β T S) :=
            ⟨h2, fun _ => h3⟩
          have hfut : PipeIt.futRows rem V ({ p with src := (R.next p.src).2, pending := P.tr.finish p.t, done := true } : PipeIt R β T S) =
              PipeIt.futRows rem V p := by
            simp [PipeIt.futRows, PipeIt.heldRows, hpend, hd, h3, hr, hc.finish]
          have := ih _ hp1 (fun _ hdd => by simp at hdd)
          rw [hfut] at this
          exact this
        | cons a as =>
          obtain ⟨h1, h2, h3⟩ := h.next_cons p.src a as hp.1 hr
          have hn : R.next p.src = (some a, (R.next p.src).2) := by rw [← h1]
          have e : PipeIt.nextAux R P (fuel + 1) p =
              PipeIt.nextAux R P fuel { p with src := (R.next p.src).2, t := (P.tr.step p.t a).1, pending := (P.tr.step p.t a).2 } := by
            rw [PipeIt.nextAux]
            simp only [hpend, hd]
            rw [hn]
            rfl
          rw [e]
          have hp1 : PipeIt.PInv Inv rem ({ p with src := (R.next p.src).2, t := (P.tr.step p.t a).1, pending := (P.tr.step p.t a).2 } : PipeIt R β T S) :=
            ⟨h2, fun hdd => by simp [hd] at hdd⟩
          have hfut : PipeIt.futRows rem V ({ p with src := (R.next p.src).2, t := (P.tr.step p.t a).1, pending := (P.tr.step p.t a).2 } : PipeIt R β T S) =
              PipeIt.futRows rem V p := by
            simp only [PipeIt.futRows, PipeIt.heldRows, hpend, hd, h3, hr, List.flatMap_cons, List.flatMap_nil,
              List.nil_append, Bool.false_eq_true, if_false]
            rw [← List.append_assoc, hc.step, List.append_assoc]
          have := ih _ hp1 (fun _ _ => by
            show (rem (R.next p.src).2).length + 1 ≤ fuel
            rw [h3]; rw [hr] at hfuel; simp only [List.length_cons] at hfuel; omega)
          rw [hfut] at this
          exact this

theorem PipeIt.next_spec (h : Refines R Inv rem) (P : PipeDef α β T X S Res)
    (V : RowView α β T ρ) (hc : Conserves P.tr V) (p : PipeIt R β T S)
    (hp : PipeIt.PInv Inv rem p) :
    PipeIt.PInv Inv rem (PipeIt.next R P p).2 ∧
    match (PipeIt.next R P p).1 with
    | some b => V.rows b ++ PipeIt.futRows rem V (PipeIt.next R P p).2 = PipeIt.futRows rem V p ∧
        (PipeIt.next R P p).2.agg = P.m.add p.agg (P.batchOf b)
    | none => PipeIt.futRows rem V p = [] ∧ PipeIt.futRows rem V (PipeIt.next R P p).2 = [] ∧
        (PipeIt.next R P p).2.agg = p.agg ∧ (PipeIt.next R P p).2.done = true :=
  PipeIt.nextAux_spec h P V hc _ p hp (fun _ _ => by have := h.size_ok p.src hp.1; omega)

/-- `agg_state` after feeding the outputs `bs` one by one -/
def aggOf (P : PipeDef α β T X S Res) (bs : List β) (s : S) : S := (bs.map P.batchOf).foldl P.m.add s

theorem pipeTakeN_spec (h : Refines R Inv rem) (P : PipeDef α β T X S Res)
    (V : RowView α β T ρ) (hc : Conserves P.tr V) : ∀ (k : Nat) (p : PipeIt R β T S),
    PipeIt.PInv Inv rem p →
    PipeIt.PInv Inv rem (pipeTakeN R P k p).2 ∧
    (pipeTakeN R P k p).1.flatMap V.rows ++ PipeIt.futRows rem V (pipeTakeN R P k p).2 =
      PipeIt.futRows rem V p ∧
    (pipeTakeN R P k p).2.agg = aggOf P (pipeTakeN R P k p).1 p.agg ∧
    ((pipeTakeN R P k p).1.length < k → PipeIt.futRows rem V (pipeTakeN R P k p).2 = [] ∧
      (pipeTakeN R P k p).2.done = true) := by
  intro k
  induction k with
  | zero => intro p hp; simp [pipeTakeN, hp, aggOf]
  | succ k ih =>
    intro p hp
    have hs := PipeIt.next_spec h P V hc p hp
    cases hn : (PipeIt.next R P p).1 with
    | none =>
      have e : PipeIt.next R P p = (none, (PipeIt.next R P p).2) := by rw [← hn]
      rw [hn] at hs
      have e2 : pipeTakeN R P (k + 1) p = ([], (PipeIt.next R P p).2) := by
        rw [pipeTakeN, e]
      rw [e2]
      obtain ⟨h1, h2, h3, h4, h5⟩ := hs
      refine ⟨h1, ?_, ?_, fun _ => ⟨h3, h5⟩⟩
      · simp [h2, h3]
      · simp [aggOf, h4]
    | some b =>
      have e : PipeIt.next R P p = (some b, (PipeIt.next R P p).2) := by rw [← hn]
      rw [hn] at hs
      have e2 : pipeTakeN R P (k + 1) p =
          (b :: (pipeTakeN R P k (PipeIt.next R P p).2).1, (pipeTakeN R P k (PipeIt.next R P p).2).2) := by
        rw [pipeTakeN, e]
      rw [e2]
      obtain ⟨h1, h2, h3⟩ := hs
      obtain ⟨i1, i2, i3, i4⟩ := ih _ h1
      refine ⟨i1, ?_, ?_, ?_⟩
      · simp only [List.flatMap_cons, List.append_assoc]
        rw [i2, h2]
      · rw [i3, h3]; simp [aggOf]
      · intro hl
        apply i4
        simp only [List.length_cons] at hl
        omega

/-! ### events -/

theorem Ev.allRows_append (V : RowView α β T ρ) (xs ys : List (Ev β ρ)) :
    Ev.allRows V (xs ++ ys) = Ev.allRows V xs ++ Ev.allRows V ys := by
  induction xs with
  | nil => rfl
  | cons e es ih => cases e <;> simp [Ev.allRows, ih, List.append_assoc]

theorem Ev.allRows_dlv (V : RowView α β T ρ) (bs : List β) :
    Ev.allRows V (bs.map (Ev.dlv (ρ := ρ))) = bs.flatMap V.rows := by
  induction bs with
  | nil => rfl
  | cons b bs ih => simp [Ev.allRows, ih]

theorem Ev.delivered_append (xs ys : List (Ev β ρ)) :
    Ev.delivered (xs ++ ys) = Ev.delivered xs ++ Ev.delivered ys := by
  induction xs with
  | nil => rfl
  | cons e es ih => cases e <;> simp [Ev.delivered, ih]

theorem Ev.delivered_dlv (bs : List β) : Ev.delivered (bs.map (Ev.dlv (ρ := ρ))) = bs := by
  induction bs with
  | nil => rfl
  | cons b bs ih => simp [Ev.delivered, ih]

theorem Ev.lostRows_append (xs ys : List (Ev β ρ)) :
    Ev.lostRows (xs ++ ys) = Ev.lostRows xs ++ Ev.lostRows ys := by
  induction xs with
  | nil => rfl
  | cons e es ih => cases e <;> simp [Ev.lostRows, ih, List.append_assoc]

theorem Ev.lostRows_dlv (bs : List β) : Ev.lostRows (bs.map (Ev.dlv (ρ := ρ))) = [] := by
  induction bs with
  | nil => rfl
  | cons b bs ih => simp [Ev.lostRows, ih]

/-- the event appended by a restore -/
def lostEv (held : List ρ) : List (Ev β ρ) := if held.isEmpty then [] else [Ev.lost held]

theorem allRows_lostEv (V : RowView α β T ρ) (held : List ρ) :
    Ev.allRows V (lostEv (β := β) held) = held := by
  unfold lostEv
  cases held with
  | nil => rfl
  | cons x xs => simp [Ev.allRows]

theorem delivered_lostEv (held : List ρ) : Ev.delivered (lostEv (β := β) held) = [] := by
  unfold lostEv
  cases held <;> simp [Ev.delivered]

theorem lostRows_lostEv (held : List ρ) : Ev.lostRows (lostEv (β := β) held) = held := by
  unfold lostEv
  cases held <;> simp [Ev.lostRows]

/-! ### histories of a pipeline -/

/-- invariant of a pipeline under a history; `E` = all rows of the uninterrupted run -/
structure PipeRun.Good (h : Refines R Inv rem) (P : PipeDef α β T X S Res) (V : RowView α β T ρ)
    (E : List ρ) (r : PipeRun R β T S ρ) : Prop where
  inv : PipeIt.PInv Inv rem r.p
  cur : Ev.allRows V r.trace ++ PipeIt.futRows rem V r.p = E
  agg : r.p.agg = aggOf P (Ev.delivered r.trace) P.m.empty
  saved : ∃ ps : PipeIt R β T S, r.saved = PipeIt.state R ps ∧ PipeIt.PInv Inv rem ps ∧
    r.savedHeld = PipeIt.heldRows V ps ∧
    Ev.allRows V r.savedTrace ++ PipeIt.futRows rem V ps = E ∧
    ps.agg = aggOf P (Ev.delivered r.savedTrace) P.m.empty

theorem PipeRun.Good.step (h : Refines R Inv rem) (P : PipeDef α β T X S Res)
    (V : RowView α β T ρ) (hc : Conserves P.tr V) {E : List ρ} {r : PipeRun R β T S ρ}
    (g : PipeRun.Good h P V E r) (op : Op) :
    ∃ r', PipeRun.step R P V r op = .ok r' ∧ PipeRun.Good h P V E r' := by
  cases op with
  | take k =>
    obtain ⟨t1, t2, t3, _⟩ := pipeTakeN_spec h P V hc k r.p g.inv
    refine ⟨_, rfl, ⟨t1, ?_, ?_, g.saved⟩⟩
    · show Ev.allRows V (r.trace ++ (pipeTakeN R P k r.p).1.map Ev.dlv) ++ _ = E
      rw [Ev.allRows_append, Ev.allRows_dlv, List.append_assoc, t2]
      exact g.cur
    · show (pipeTakeN R P k r.p).2.agg = aggOf P (Ev.delivered (r.trace ++ (pipeTakeN R P k r.p).1.map Ev.dlv)) _
      rw [t3, g.agg, Ev.delivered_append, Ev.delivered_dlv]
      simp [aggOf, List.foldl_append]
  | ckpt =>
    exact ⟨_, rfl, ⟨g.inv, g.cur, g.agg, ⟨r.p, rfl, g.inv, rfl, g.cur, g.agg⟩⟩⟩
  | restore =>
    obtain ⟨ps, hs, hi, hh, he, ha⟩ := g.saved
    obtain ⟨src', h1, h2, h3⟩ := h.restore_state ps.src hi.1
    refine ⟨{ r with p := PipeIt.fresh R P src' ps.agg, trace := r.savedTrace ++ lostEv r.savedHeld }, ?_,
      ⟨⟨h2, fun hd => by simp [PipeIt.fresh] at hd⟩, ?_, ?_, ⟨ps, hs, hi, hh, he, ha⟩⟩⟩
    · simp only [PipeRun.step, hs, PipeIt.restore, PipeIt.state, h1, bind, Except.bind, pure, Except.pure]
      rfl
    · show Ev.allRows V (r.savedTrace ++ lostEv r.savedHeld) ++ PipeIt.futRows rem V (PipeIt.fresh R P src' ps.agg) = E
      rw [Ev.allRows_append, allRows_lostEv, hh, ← he]
      simp [PipeIt.futRows, PipeIt.fresh, PipeIt.heldRows, hc.init, h3, List.append_assoc]
    · show ps.agg = aggOf P (Ev.delivered (r.savedTrace ++ lostEv r.savedHeld)) _
      rw [Ev.delivered_append, delivered_lostEv, List.append_nil]
      exact ha

theorem PipeRun.Good.run (h : Refines R Inv rem) (P : PipeDef α β T X S Res)
    (V : RowView α β T ρ) (hc : Conserves P.tr V) {E : List ρ} (ops : List Op) :
    ∀ {r : PipeRun R β T S ρ}, PipeRun.Good h P V E r →
      ∃ r', PipeRun.run R P V r ops = .ok r' ∧ PipeRun.Good h P V E r' := by
  induction ops with
  | nil => intro r g; exact ⟨r, rfl, g⟩
  | cons op ops ih =>
    intro r g
    obtain ⟨r1, h1, g1⟩ := g.step h P V hc op
    obtain ⟨r2, h2, g2⟩ := ih g1
    refine ⟨r2, ?_, g2⟩
    simp only [PipeRun.run, List.foldlM_cons, h1] at h2 ⊢
    exact h2

theorem PipeRun.Good.init (h : Refines R Inv rem) (P : PipeDef α β T X S Res)
    (V : RowView α β T ρ) (hc : Conserves P.tr V) (it : R.It) (hi : Inv it) :
    PipeRun.Good h P V ((rem it).flatMap V.srcRows) (PipeRun.init R P it) := by
  have hp : PipeIt.PInv Inv rem (PipeIt.fresh R P it P.m.empty) :=
    ⟨hi, fun hd => by simp [PipeIt.fresh] at hd⟩
  have hf : PipeIt.futRows rem V (PipeIt.fresh R P it P.m.empty) = (rem it).flatMap V.srcRows := by
    simp [PipeIt.futRows, PipeIt.fresh, PipeIt.heldRows, hc.init]
  exact ⟨hp, by simpa [PipeRun.init, Ev.allRows] using hf, by simp [PipeRun.init, PipeIt.fresh, aggOf, Ev.delivered],
    ⟨PipeIt.fresh R P it P.m.empty, rfl, hp, by simp [PipeRun.init, PipeIt.heldRows, PipeIt.fresh, hc.init],
      by simpa [PipeRun.init, Ev.allRows] using hf, by simp [PipeIt.fresh, PipeRun.init, aggOf, Ev.delivered]⟩⟩

/-! ### row-wise chains lose nothing -/

/-- at most one output per source element, nothing at exhaustion -/
structure RowWise1 (tr : Trans α β T) : Prop where
  step_le : ∀ t a, (tr.step t a).2.length ≤ 1
  finish_nil : ∀ t, tr.finish t = []

theorem PipeIt.nextAux_pending (P : PipeDef α β T X S Res) (hw : RowWise1 P.tr) :
    ∀ (fuel : Nat) (p : PipeIt R β T S), p.pending.length ≤ 1 →
      (PipeIt.nextAux R P fuel p).2.pending = [] := by
  intro fuel
  induction fuel with
  | zero =>
    intro p hl
    cases hpend : p.pending with
    | nil => simp [PipeIt.nextAux, hpend]
    | cons b rest =>
      rw [hpend] at hl
      have : rest = [] := List.eq_nil_of_length_eq_zero (by simp only [List.length_cons] at hl; omega)
      simp [PipeIt.nextAux, hpend, this]
  | succ fuel ih =>
    intro p hl
    cases hpend : p.pending with
    | cons b rest =>
      rw [hpend] at hl
      have : rest = [] := List.eq_nil_of_length_eq_zero (by simp only [List.length_cons] at hl; omega)
      simp [PipeIt.nextAux, hpend, this]
    | nil =>
      cases hd : p.done with
      | true => simp [PipeIt.nextAux, hpend, hd]
      | false =>
        rw [PipeIt.nextAux]
        simp only [hpend, hd]
        cases hn : (R.next p.src).1 with
        | none =>
          have e : R.next p.src = (none, (R.next p.src).2) := by rw [← hn]
          rw [e]
          exact ih _ (by simp [hw.finish_nil])
        | some a =>
          have e : R.next p.src = (some a, (R.next p.src).2) := by rw [← hn]
          rw [e]
          exact ih _ (hw.step_le p.t a)

theorem pipeTakeN_pending (P : PipeDef α β T X S Res) (hw : RowWise1 P.tr) :
    ∀ (k : Nat) (p : PipeIt R β T S), p.pending = [] → (pipeTakeN R P k p).2.pending = [] := by
  intro k
  induction k with
  | zero => intro p hp; simpa [pipeTakeN] using hp
  | succ k ih =>
    intro p hp
    have hq : (PipeIt.next R P p).2.pending = [] :=
      PipeIt.nextAux_pending P hw _ p (by simp [hp])
    cases hn : (PipeIt.next R P p).1 with
    | none =>
      have e : PipeIt.next R P p = (none, (PipeIt.next R P p).2) := by rw [← hn]
      rw [pipeTakeN, e]; exact hq
    | some b =>
      have e : PipeIt.next R P p = (some b, (PipeIt.next R P p).2) := by rw [← hn]
      rw [pipeTakeN, e]; exact ih _ hq

/-- no `lost` event in a trace -/
def Ev.NoLoss (tr : List (Ev β ρ)) : Prop := tr = (Ev.delivered tr).map Ev.dlv

structure PipeRun.Clean (r : PipeRun R β T S ρ) : Prop where
  pending : r.p.pending = []
  held : r.savedHeld = []
  trace : Ev.NoLoss r.trace
  savedTrace : Ev.NoLoss r.savedTrace

theorem PipeRun.Clean.step (P : PipeDef α β T X S Res) (V : RowView α β T ρ)
    (hw : RowWise1 P.tr) (hb : ∀ t, V.bufRows t = []) {r r' : PipeRun R β T S ρ}
    (c : PipeRun.Clean r) (op : Op) (hs : PipeRun.step R P V r op = .ok r') : PipeRun.Clean r' := by
  cases op with
  | take k =>
    simp only [PipeRun.step] at hs
    injection hs with hs
    subst hs
    refine ⟨pipeTakeN_pending P hw k r.p c.pending, c.held, ?_, c.savedTrace⟩
    show r.trace ++ (pipeTakeN R P k r.p).1.map Ev.dlv = _
    rw [Ev.delivered_append, Ev.delivered_dlv, List.map_append, ← c.trace]
  | ckpt =>
    simp only [PipeRun.step] at hs
    injection hs with hs
    subst hs
    refine ⟨c.pending, ?_, c.trace, c.trace⟩
    show PipeIt.heldRows V r.p = []
    simp [PipeIt.heldRows, c.pending, hb]
  | restore =>
    simp only [PipeRun.step] at hs
    cases hr : PipeIt.restore R P r.saved with
    | error e => simp [hr, bind, Except.bind] at hs
    | ok p' =>
      simp only [hr, bind, Except.bind] at hs
      injection hs with hs
      subst hs
      have hp : p'.pending = [] := by
        unfold PipeIt.restore at hr
        cases hq : R.restore r.saved.1 with
        | error e => simp [hq, bind, Except.bind] at hr
        | ok src =>
          simp only [hq, bind, Except.bind, pure, Except.pure] at hr
          injection hr with hr
          subst hr
          rfl
      refine ⟨hp, c.held, ?_, c.savedTrace⟩
      show r.savedTrace ++ (if r.savedHeld.isEmpty then [] else [Ev.lost r.savedHeld]) = _
      simp only [c.held, List.isEmpty_nil, if_true, List.append_nil]
      exact c.savedTrace

theorem PipeRun.Clean.run (P : PipeDef α β T X S Res) (V : RowView α β T ρ)
    (hw : RowWise1 P.tr) (hb : ∀ t, V.bufRows t = []) (ops : List Op) :
    ∀ {r r' : PipeRun R β T S ρ}, PipeRun.Clean r → PipeRun.run R P V r ops = .ok r' →
      PipeRun.Clean r' := by
  induction ops with
  | nil =>
    intro r r' c hs
    simp only [PipeRun.run, List.foldlM_nil, pure, Except.pure] at hs
    injection hs with hs
    subst hs; exact c
  | cons op ops ih =>
    intro r r' c hs
    simp only [PipeRun.run, List.foldlM_cons] at hs
    cases h1 : PipeRun.step R P V r op with
    | error e => simp [h1, bind, Except.bind] at hs
    | ok r1 =>
      simp only [h1, bind, Except.bind] at hs
      exact ih (c.step P V hw hb op h1) hs

theorem PipeRun.Clean.init (P : PipeDef α β T X S Res) (it : R.It) :
    PipeRun.Clean (PipeRun.init (ρ := ρ) R P it) :=
  ⟨rfl, rfl, rfl, rfl⟩

/-! ### row-wise pipelines and the single-column re-batcher as instances -/

/-- the pipeline of a row-wise chain `f` (each source element yields the list `f a`) -/
def rowPipe (f : α → List β) (m : Agg.Mergeable X S Res) (batchOf : β → List X) :
    PipeDef α β Unit X S Res := ⟨Trans.ofFn f, m, batchOf⟩

/-- rows = outputs for a row-wise chain -/
def rowViewOf (f : α → List β) : RowView α β Unit β := ⟨fun b => [b], fun _ => [], f⟩

theorem rowPipe_conserves (f : α → List β) (m : Agg.Mergeable X S Res) (batchOf : β → List X) :
    Conserves (rowPipe f m batchOf).tr (rowViewOf f) :=
  ⟨rfl, by intro t a; simp [rowPipe, Trans.ofFn, rowViewOf], by intro t; simp [rowPipe, Trans.ofFn, rowViewOf]⟩

theorem flatMap_singleton (bs : List β) : bs.flatMap (fun b => [b]) = bs := by
  induction bs with
  | nil => rfl
  | cons b bs ih => simp [ih]

/-- `rebatched_args` for one list column conserves rows -/
theorem chunkEmit_conserves (target : Nat) : ∀ (fuel : Nat) (rows : List ρ),
    (chunkEmit target fuel rows).2.flatten ++ (chunkEmit target fuel rows).1 = rows := by
  intro fuel
  induction fuel with
  | zero => intro rows; simp [chunkEmit]
  | succ fuel ih =>
    intro rows
    unfold chunkEmit
    split
    · simp
    · simp only [List.flatten_cons, List.append_assoc]
      rw [ih, List.take_append_drop]

/-! ### a drained row-wise pipeline, and a pipeline iterator as a data source (chains of runners) -/

theorem flatMap_length_le (f : α → List β) (hf : ∀ a, (f a).length ≤ 1) (xs : List α) :
    (xs.flatMap f).length ≤ xs.length := by
  induction xs with
  | nil => simp
  | cons a as ih => simp only [List.flatMap_cons, List.length_append, List.length_cons]; have := hf a; omega

/-- what a row-wise pipeline iterator with nothing pending will still deliver -/
theorem futRows_rowwise (f : α → List β) (p : PipeIt R β Unit S) (hp : p.pending = []) :
    PipeIt.futRows rem (rowViewOf f) p = (rem p.src).flatMap f := by
  cases hd : p.done <;> simp [PipeIt.futRows, PipeIt.heldRows, hp, hd, rowViewOf]

/-- Any history of a row-wise pipeline followed by a draining `take k`: the state reached. -/
theorem PipeRun.drained (h : Refines R Inv rem) (f : α → List β) (hf : ∀ a, (f a).length ≤ 1)
    (m : Agg.Mergeable X S Res) (batchOf : β → List X) (it : R.It) (hi : Inv it) (ops : List Op)
    (k : Nat) (hk : ((rem it).flatMap f).length < k) :
    ∃ r, PipeRun.run R (rowPipe f m batchOf) (rowViewOf f) (PipeRun.init R (rowPipe f m batchOf) it)
        (ops ++ [.take k]) = .ok r ∧
      Ev.delivered r.trace = (rem it).flatMap f ∧
      r.p.agg = aggOf (rowPipe f m batchOf) ((rem it).flatMap f) m.empty ∧
      PipeIt.PInv Inv rem r.p ∧ r.p.done = true := by
  have hc := rowPipe_conserves f m batchOf
  obtain ⟨r0, h0, g0⟩ := (PipeRun.Good.init h (rowPipe f m batchOf) (rowViewOf f) hc it hi).run h _ _ hc ops
  have hw : RowWise1 (rowPipe f m batchOf).tr := ⟨fun _ a => hf a, fun _ => rfl⟩
  have c0 := (PipeRun.Clean.init (ρ := β) (rowPipe f m batchOf) it).run _ (rowViewOf f) hw (fun _ => rfl) ops h0
  obtain ⟨t1, t2, t3, t4⟩ := pipeTakeN_spec h (rowPipe f m batchOf) (rowViewOf f) hc k r0.p g0.inv
  have hrows : ∀ bs : List β, bs.flatMap (rowViewOf f).rows = bs := flatMap_singleton
  have hcur : Ev.delivered r0.trace ++ PipeIt.futRows rem (rowViewOf f) r0.p = (rem it).flatMap f := by
    have := g0.cur
    rw [c0.trace, Ev.allRows_dlv, hrows] at this
    exact this
  rw [hrows] at t2
  have hlen : (pipeTakeN R (rowPipe f m batchOf) k r0.p).1.length < k := by
    have e1 := congrArg List.length t2
    have e2 := congrArg List.length hcur
    simp only [List.length_append] at e1 e2
    omega
  obtain ⟨hnil, hdone⟩ := t4 hlen
  rw [hnil, List.append_nil] at t2
  refine ⟨{ r0 with p := (pipeTakeN R (rowPipe f m batchOf) k r0.p).2,
                    trace := r0.trace ++ (pipeTakeN R (rowPipe f m batchOf) k r0.p).1.map Ev.dlv,
                    log := r0.log ++ [(pipeTakeN R (rowPipe f m batchOf) k r0.p).1] }, ?_, ?_, ?_, t1, hdone⟩
  · simp only [PipeRun.run, List.foldlM_append, List.foldlM_cons, List.foldlM_nil] at h0 ⊢
    rw [h0]; rfl
  · show Ev.delivered (r0.trace ++ (pipeTakeN R (rowPipe f m batchOf) k r0.p).1.map Ev.dlv) = _
    rw [Ev.delivered_append, Ev.delivered_dlv, t2, hcur]
  · show (pipeTakeN R (rowPipe f m batchOf) k r0.p).2.agg = _
    rw [t3, g0.agg, ← hcur, t2]
    simp [aggOf, List.foldl_append, rowPipe]

/-- invariant of an upstream runner's iterator used as a data source: nothing pending, and its
aggregation state is the aggregate of exactly the outputs it has delivered so far
(`all` = the outputs of its uninterrupted run) -/
def PipeIt.SrcInv (Inv : R.It → Prop) (rem : R.It → List α) (f : α → List β)
    (m : Agg.Mergeable X S Res) (batchOf : β → List X) (all : List β) (p : PipeIt R β Unit S) : Prop :=
  PipeIt.PInv Inv rem p ∧ p.pending = [] ∧
    ∃ D, D ++ (rem p.src).flatMap f = all ∧ p.agg = aggOf (rowPipe f m batchOf) D m.empty

/-- **A row-wise pipeline iterator refines "a cursor into its output list"** — so it can be the
data source of another runner, to any depth. -/
theorem pipeRec_refines (h : Refines R Inv rem) (f : α → List β) (hf : ∀ a, (f a).length ≤ 1)
    (m : Agg.Mergeable X S Res) (batchOf : β → List X) (all : List β) :
    Refines (pipeRec R (rowPipe f m batchOf)) (PipeIt.SrcInv Inv rem f m batchOf all)
      (fun p => (rem p.src).flatMap f) where
  next_nil := by
    intro p hp hr
    obtain ⟨hpi, hpend, D, hD, hagg⟩ := hp
    have hs := PipeIt.next_spec h (rowPipe f m batchOf) (rowViewOf f) (rowPipe_conserves f m batchOf) p hpi
    have hw : RowWise1 (rowPipe f m batchOf).tr := ⟨fun _ a => hf a, fun _ => rfl⟩
    have hq : (PipeIt.next R (rowPipe f m batchOf) p).2.pending = [] :=
      PipeIt.nextAux_pending _ hw _ p (by simp [hpend])
    have hfut := futRows_rowwise (rem := rem) f p hpend
    have hfut' := futRows_rowwise (rem := rem) f _ hq
    show (PipeIt.next R (rowPipe f m batchOf) p).1 = none ∧
      PipeIt.SrcInv Inv rem f m batchOf all (PipeIt.next R (rowPipe f m batchOf) p).2 ∧
      (rem (PipeIt.next R (rowPipe f m batchOf) p).2.src).flatMap f = []
    cases hn : (PipeIt.next R (rowPipe f m batchOf) p).1 with
    | some b =>
      rw [hn] at hs
      have := hs.2.1
      rw [hfut, hr] at this
      simp [rowViewOf] at this
    | none =>
      rw [hn] at hs
      obtain ⟨h1, _, h3, h4, _⟩ := hs
      rw [hfut'] at h3
      exact ⟨rfl, ⟨h1, hq, D, by rw [h3, ← hr]; exact hD, by rw [h4]; exact hagg⟩, h3⟩
  next_cons := by
    intro p b bs hp hr
    obtain ⟨hpi, hpend, D, hD, hagg⟩ := hp
    have hs := PipeIt.next_spec h (rowPipe f m batchOf) (rowViewOf f) (rowPipe_conserves f m batchOf) p hpi
    have hw : RowWise1 (rowPipe f m batchOf).tr := ⟨fun _ a => hf a, fun _ => rfl⟩
    have hq : (PipeIt.next R (rowPipe f m batchOf) p).2.pending = [] :=
      PipeIt.nextAux_pending _ hw _ p (by simp [hpend])
    have hfut := futRows_rowwise (rem := rem) f p hpend
    have hfut' := futRows_rowwise (rem := rem) f _ hq
    show (PipeIt.next R (rowPipe f m batchOf) p).1 = some b ∧
      PipeIt.SrcInv Inv rem f m batchOf all (PipeIt.next R (rowPipe f m batchOf) p).2 ∧
      (rem (PipeIt.next R (rowPipe f m batchOf) p).2.src).flatMap f = bs
    cases hn : (PipeIt.next R (rowPipe f m batchOf) p).1 with
    | none =>
      rw [hn] at hs
      have := hs.2.1
      rw [hfut, hr] at this
      cases this
    | some b' =>
      rw [hn] at hs
      obtain ⟨h1, h2, h3⟩ := hs
      rw [hfut, hfut', hr] at h2
      have hb : b' = b ∧ (rem (PipeIt.next R (rowPipe f m batchOf) p).2.src).flatMap f = bs := by
        simpa [rowViewOf] using h2
      refine ⟨by rw [hb.1], ⟨h1, hq, D ++ [b], ?_, ?_⟩, hb.2⟩
      · rw [hb.2, List.append_assoc, ← hD, hr]; rfl
      · rw [h3, hagg, hb.1]; simp [aggOf, List.foldl_append, rowPipe]
  restore_state := by
    intro p hp
    obtain ⟨hpi, hpend, D, hD, hagg⟩ := hp
    obtain ⟨src', h1, h2, h3⟩ := h.restore_state p.src hpi.1
    refine ⟨PipeIt.fresh R (rowPipe f m batchOf) src' p.agg, ?_, ⟨⟨h2, fun hd => by simp [PipeIt.fresh] at hd⟩, rfl, D, ?_, hagg⟩, ?_⟩
    · show PipeIt.restore R (rowPipe f m batchOf) (PipeIt.state R p) = _
      simp only [PipeIt.restore, PipeIt.state, h1, bind, Except.bind, pure, Except.pure]
      rfl
    · show D ++ (rem src').flatMap f = all
      rw [h3]; exact hD
    · show (rem src').flatMap f = (rem p.src).flatMap f
      rw [h3]
  size_ok := by
    intro p hp
    show ((rem p.src).flatMap f).length ≤ R.size p.src + p.pending.length
    have := flatMap_length_le f hf (rem p.src)
    have := h.size_ok p.src hp.1.1
    omega

theorem PipeIt.SrcInv.fresh (f : α → List β) (m : Agg.Mergeable X S Res) (batchOf : β → List X)
    (it : R.It) (hi : Inv it) :
    PipeIt.SrcInv Inv rem f m batchOf ((rem it).flatMap f) (PipeIt.fresh R (rowPipe f m batchOf) it m.empty) :=
  ⟨⟨hi, fun hd => by simp [PipeIt.fresh] at hd⟩, rfl, [], by simp [PipeIt.fresh], by simp [PipeIt.fresh, aggOf]⟩


end pipe

/-! ## Threaded pipelines -/

section par
variable {β S : Type} {R : Recoverable α} {Inv : R.It → Prop} {rem : R.It → List α}

/-- the outputs the producers have not produced yet -/
def futOf (rem : R.It → List α) (f : α → List β) (cs : List R.It) : List β :=
  cs.flatMap fun it => (rem it).flatMap f

theorem futOf_split (f : α → List β) (cs : List R.It) (i : Nat) (it : R.It)
    (hi : cs[i]? = some it) :
    futOf rem f cs = futOf rem f (cs.take i) ++ ((rem it).flatMap f ++ futOf rem f (cs.drop (i + 1))) := by
  obtain ⟨hlt, hit⟩ := List.getElem?_eq_some_iff.mp hi
  have : cs = cs.take i ++ it :: cs.drop (i + 1) := by
    rw [← hit, ← List.drop_eq_getElem_cons hlt, List.take_append_drop]
  conv => lhs; rw [this]
  simp [futOf, List.flatMap_append]

theorem futOf_set (f : α → List β) (cs : List R.It) (i : Nat) (it it' : R.It)
    (hi : cs[i]? = some it) :
    futOf rem f (cs.set i it') =
      futOf rem f (cs.take i) ++ ((rem it').flatMap f ++ futOf rem f (cs.drop (i + 1))) := by
  obtain ⟨hlt, _⟩ := List.getElem?_eq_some_iff.mp hi
  rw [List.set_eq_take_append_cons_drop, if_pos hlt]
  simp [futOf, List.flatMap_append]

theorem restoreAll_spec (h : Refines R Inv rem) (f : α → List β) : ∀ (cs : List R.It),
    (∀ it ∈ cs, Inv it) →
    ∃ cs', restoreAll R (cs.map R.state) = .ok cs' ∧ (∀ it ∈ cs', Inv it) ∧
      futOf rem f cs' = futOf rem f cs := by
  intro cs
  induction cs with
  | nil => intro _; exact ⟨[], rfl, by simp, rfl⟩
  | cons c cs ih =>
    intro hi
    obtain ⟨c', h1, h2, h3⟩ := h.restore_state c (hi c (by simp))
    obtain ⟨cs', i1, i2, i3⟩ := ih (fun it hm => hi it (by simp [hm]))
    refine ⟨c' :: cs', ?_, ?_, ?_⟩
    · simp [restoreAll, h1, i1, bind, Except.bind, pure, Except.pure]
    · intro it hm
      rcases List.mem_cons.mp hm with e | e
      · rw [e]; exact h2
      · exact i2 it e
    · simp only [futOf, List.flatMap_cons] at i3 ⊢
      rw [h3, i3]

structure ParRun.Good (h : Refines R Inv rem) (f : α → List β) (add : S → β → S) (empty : S)
    (E : List β) (r : ParRun R β S) : Prop where
  inv : ∀ it ∈ r.s.cursors, Inv it
  cur : List.Perm (r.delivered ++ r.lost ++ r.s.buf ++ futOf rem f r.s.cursors) E
  agg : r.s.agg = r.delivered.foldl add empty
  saved : ∃ cs : List R.It, r.saved.1 = cs.map R.state ∧ (∀ it ∈ cs, Inv it) ∧
    List.Perm (r.savedDelivered ++ r.savedLost ++ r.savedBuf ++ futOf rem f cs) E ∧
    r.saved.2 = r.savedDelivered.foldl add empty

theorem perm_move (X A F G B : List β) :
    List.Perm (X ++ F ++ (A ++ (G ++ B))) (X ++ (A ++ (F ++ G ++ B))) := by
  rw [List.append_assoc]
  apply List.Perm.append_left
  rw [← List.append_assoc, ← List.append_assoc A, ← List.append_assoc A]
  rw [List.append_assoc (A ++ F)]
  exact List.Perm.append_right _ List.perm_append_comm

theorem ParRun.Good.step (h : Refines R Inv rem) (f : α → List β) (add : S → β → S) (empty : S)
    {E : List β} {r : ParRun R β S} (g : ParRun.Good h f add empty E r) (op : ParOp) :
    ∃ r', ParRun.step R f add r op = .ok r' ∧ ParRun.Good h f add empty E r' := by
  cases op with
  | pull i =>
    cases hc : r.s.cursors[i]? with
    | none => exact ⟨r, by simp [ParRun.step, hc], g⟩
    | some it =>
      have hin : Inv it := g.inv it (List.mem_of_getElem? hc)
      have hsplit := futOf_split (rem := rem) f r.s.cursors i it hc
      cases hr : rem it with
      | nil =>
        obtain ⟨h1, h2, h3⟩ := h.next_nil it hin hr
        have e : R.next it = (none, (R.next it).2) := by rw [← h1]
        refine ⟨{ r with s := { r.s with cursors := r.s.cursors.set i (R.next it).2 } }, ?_, ⟨?_, ?_, g.agg, g.saved⟩⟩
        · simp only [ParRun.step, hc]; rw [e]
        · intro x hx
          rcases List.mem_or_eq_of_mem_set hx with hx | hx
          · exact g.inv x hx
          · rw [hx]; exact h2
        · show List.Perm (r.delivered ++ r.lost ++ r.s.buf ++ futOf rem f (r.s.cursors.set i (R.next it).2)) E
          rw [futOf_set (rem := rem) f r.s.cursors i it _ hc, h3]
          have hcur := g.cur
          rw [hsplit, hr] at hcur
          exact hcur
      | cons a as =>
        obtain ⟨h1, h2, h3⟩ := h.next_cons it a as hin hr
        have e : R.next it = (some a, (R.next it).2) := by rw [← h1]
        refine ⟨{ r with s := { r.s with cursors := r.s.cursors.set i (R.next it).2, buf := r.s.buf ++ f a } }, ?_, ⟨?_, ?_, g.agg, g.saved⟩⟩
        · simp only [ParRun.step, hc]; rw [e]
        · intro x hx
          rcases List.mem_or_eq_of_mem_set hx with hx | hx
          · exact g.inv x hx
          · rw [hx]; exact h2
        · show List.Perm (r.delivered ++ r.lost ++ (r.s.buf ++ f a) ++ futOf rem f (r.s.cursors.set i (R.next it).2)) E
          rw [futOf_set (rem := rem) f r.s.cursors i it _ hc, h3]
          have hcur := g.cur
          rw [hsplit, hr, List.flatMap_cons] at hcur
          refine List.Perm.trans ?_ hcur
          have := perm_move (r.delivered ++ r.lost ++ r.s.buf) (futOf rem f (r.s.cursors.take i)) (f a)
            (as.flatMap f) (futOf rem f (r.s.cursors.drop (i + 1)))
          simpa only [List.append_assoc] using this
  | deliver j =>
    cases hb : r.s.buf[j]? with
    | none => exact ⟨r, by simp [ParRun.step, hb], g⟩
    | some b =>
      refine ⟨{ r with s := { r.s with buf := r.s.buf.eraseIdx j, agg := add r.s.agg b },
                       delivered := r.delivered ++ [b] }, by simp [ParRun.step, hb], ⟨g.inv, ?_, ?_, g.saved⟩⟩
      · show List.Perm (r.delivered ++ [b] ++ r.lost ++ r.s.buf.eraseIdx j ++ futOf rem f r.s.cursors) E
        refine List.Perm.trans ?_ g.cur
        apply List.Perm.append_right
        obtain ⟨hlt, hjb⟩ := List.getElem?_eq_some_iff.mp hb
        have hbuf : r.s.buf = r.s.buf.take j ++ b :: r.s.buf.drop (j + 1) := by
          rw [← hjb, ← List.drop_eq_getElem_cons hlt, List.take_append_drop]
        rw [List.eraseIdx_eq_take_drop_succ]
        conv => rhs; rw [hbuf]
        simp only [List.append_assoc]
        apply List.Perm.append_left
        -- [b] ++ (L ++ (T ++ D)) ~ L ++ (T ++ b :: D)
        have p1 : List.Perm ([b] ++ (r.lost ++ (r.s.buf.take j ++ r.s.buf.drop (j + 1))))
            (r.lost ++ ([b] ++ (r.s.buf.take j ++ r.s.buf.drop (j + 1)))) := by
          have := List.Perm.append_right (r.s.buf.take j ++ r.s.buf.drop (j + 1))
            (List.perm_append_comm (l₁ := [b]) (l₂ := r.lost))
          simpa only [List.append_assoc] using this
        refine List.Perm.trans p1 (List.Perm.append_left _ ?_)
        exact (List.perm_middle (a := b) (l₁ := r.s.buf.take j) (l₂ := r.s.buf.drop (j + 1))).symm
      · show add r.s.agg b = (r.delivered ++ [b]).foldl add empty
        rw [List.foldl_append, ← g.agg]; rfl
  | ckpt =>
    exact ⟨_, rfl, ⟨g.inv, g.cur, g.agg, ⟨r.s.cursors, rfl, g.inv, g.cur, g.agg⟩⟩⟩
  | restore =>
    obtain ⟨cs, hs, hi, hp, ha⟩ := g.saved
    obtain ⟨cs', h1, h2, h3⟩ := restoreAll_spec h f cs hi
    refine ⟨{ r with s := ⟨cs', [], r.saved.2⟩, delivered := r.savedDelivered,
                     lost := r.savedLost ++ r.savedBuf }, ?_, ⟨h2, ?_, ha, ⟨cs, hs, hi, hp, ha⟩⟩⟩
    · simp only [ParRun.step, hs, h1, bind, Except.bind]
    · show List.Perm (r.savedDelivered ++ (r.savedLost ++ r.savedBuf) ++ [] ++ futOf rem f cs') E
      rw [h3, List.append_nil, ← List.append_assoc]
      exact hp

theorem ParRun.Good.run (h : Refines R Inv rem) (f : α → List β) (add : S → β → S) (empty : S)
    {E : List β} (ops : List ParOp) : ∀ {r : ParRun R β S}, ParRun.Good h f add empty E r →
      ∃ r', ParRun.run R f add r ops = .ok r' ∧ ParRun.Good h f add empty E r' := by
  induction ops with
  | nil => intro r g; exact ⟨r, rfl, g⟩
  | cons op ops ih =>
    intro r g
    obtain ⟨r1, h1, g1⟩ := g.step h f add empty op
    obtain ⟨r2, h2, g2⟩ := ih g1
    refine ⟨r2, ?_, g2⟩
    simp only [ParRun.run, List.foldlM_cons, h1] at h2 ⊢
    exact h2

theorem ParRun.Good.init (h : Refines R Inv rem) (f : α → List β) (add : S → β → S) (empty : S)
    (cs : List R.It) (hi : ∀ it ∈ cs, Inv it) :
    ParRun.Good h f add empty (futOf rem f cs) (ParRun.init R empty cs) :=
  ⟨hi, by simp [ParRun.init], rfl, ⟨cs, rfl, hi, by simp [ParRun.init], rfl⟩⟩

end par

end MlModel.Resume
