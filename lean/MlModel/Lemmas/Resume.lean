import MlModel.Model.Resume
/-!
# Lemmas for C10: refinement of recoverable iterators to "a cursor into a list"

`Refines R Inv rem`: under the invariant `Inv`, the iterator behaves like the list `rem it` of
elements it will still deliver: `next` pops its head, and a restore from the captured state has
the same list.  Everything about histories is proved once against this interface; the two data
sources of `chainables/io.py` are instances.
-/
namespace MlModel.Resume

variable {α : Type}

structure Refines (R : Recoverable α) (Inv : R.It → Prop) (rem : R.It → List α) : Prop where
  next_nil : ∀ it, Inv it → rem it = [] →
    (R.next it).1 = none ∧ Inv (R.next it).2 ∧ rem (R.next it).2 = []
  next_cons : ∀ it a as, Inv it → rem it = a :: as →
    (R.next it).1 = some a ∧ Inv (R.next it).2 ∧ rem (R.next it).2 = as
  restore_state : ∀ it, Inv it → ∃ it', R.restore (R.state it) = .ok it' ∧ Inv it' ∧ rem it' = rem it
  size_ok : ∀ it, Inv it → (rem it).length ≤ R.size it

section generic
variable {R : Recoverable α} {Inv : R.It → Prop} {rem : R.It → List α}

theorem Refines.takeN (h : Refines R Inv rem) : ∀ (k : Nat) (it : R.It), Inv it →
    (takeN R k it).1 = (rem it).take k ∧ Inv (takeN R k it).2 ∧
      rem (takeN R k it).2 = (rem it).drop k := by
  intro k
  induction k with
  | zero => intro it hi; simp [Resume.takeN, hi]
  | succ k ih =>
    intro it hi
    cases hr : rem it with
    | nil =>
      obtain ⟨h1, h2, h3⟩ := h.next_nil it hi hr
      have : R.next it = (none, (R.next it).2) := by rw [← h1]
      unfold Resume.takeN
      rw [this]
      simp [h2, h3]
    | cons a as =>
      obtain ⟨h1, h2, h3⟩ := h.next_cons it a as hi hr
      have : R.next it = (some a, (R.next it).2) := by rw [← h1]
      unfold Resume.takeN
      rw [this]
      obtain ⟨i1, i2, i3⟩ := ih _ h2
      simp only [List.take_succ_cons, List.drop_succ_cons]
      rw [h3] at i1 i3
      exact ⟨by rw [i1], i2, i3⟩

/-- invariant of a source iterator under a history; `E` = the elements of the source -/
structure SrcRun.Good (h : Refines R Inv rem) (E : List α) (r : SrcRun R) : Prop where
  inv : Inv r.it
  cur : r.committed ++ r.tentative ++ rem r.it = E
  saved : ∃ its, r.saved = R.state its ∧ Inv its ∧ r.committed ++ rem its = E

theorem SrcRun.Good.step (h : Refines R Inv rem) {E : List α} {r : SrcRun R}
    (g : SrcRun.Good h E r) (op : Op) :
    ∃ r', SrcRun.step R r op = .ok r' ∧ SrcRun.Good h E r' := by
  cases op with
  | take k =>
    obtain ⟨t1, t2, t3⟩ := h.takeN k r.it g.inv
    refine ⟨_, rfl, ⟨t2, ?_, g.saved⟩⟩
    show r.committed ++ (r.tentative ++ (Resume.takeN R k r.it).1) ++ rem (Resume.takeN R k r.it).2 = E
    rw [t1, t3, ← g.cur]
    simp [List.append_assoc, List.take_append_drop]
  | ckpt =>
    refine ⟨_, rfl, ⟨g.inv, ?_, ⟨r.it, rfl, g.inv, ?_⟩⟩⟩
    · show r.committed ++ r.tentative ++ [] ++ rem r.it = E
      simpa using g.cur
    · show r.committed ++ r.tentative ++ rem r.it = E
      exact g.cur
  | restore =>
    obtain ⟨its, hs, hi, he⟩ := g.saved
    obtain ⟨it', h1, h2, h3⟩ := h.restore_state its hi
    refine ⟨{ r with it := it', tentative := [] }, ?_, ⟨h2, ?_, ⟨its, hs, hi, he⟩⟩⟩
    · simp only [SrcRun.step, hs, h1]; rfl
    · show r.committed ++ [] ++ rem it' = E
      rw [h3]; simpa using he

theorem SrcRun.Good.run (h : Refines R Inv rem) {E : List α} (ops : List Op) :
    ∀ {r : SrcRun R}, SrcRun.Good h E r →
      ∃ r', SrcRun.run R r ops = .ok r' ∧ SrcRun.Good h E r' := by
  induction ops with
  | nil => intro r g; exact ⟨r, rfl, g⟩
  | cons op ops ih =>
    intro r g
    obtain ⟨r1, h1, g1⟩ := g.step h op
    obtain ⟨r2, h2, g2⟩ := ih g1
    refine ⟨r2, ?_, g2⟩
    simp only [SrcRun.run, List.foldlM_cons, h1] at h2 ⊢
    exact h2

theorem SrcRun.Good.init (h : Refines R Inv rem) (it : R.It) (hi : Inv it) :
    SrcRun.Good h (rem it) (SrcRun.init R it) :=
  ⟨hi, by simp [SrcRun.init], ⟨it, rfl, hi, by simp [SrcRun.init]⟩⟩

/-- **Generic C10 for sources**: after any history, what was delivered on the surviving timeline
followed by what the current iterator will still deliver is exactly the source's elements. -/
theorem Refines.history (h : Refines R Inv rem) (it : R.It) (hi : Inv it) (ops : List Op) :
    ∃ r, SrcRun.run R (SrcRun.init R it) ops = .ok r ∧ Inv r.it ∧
      r.delivered ++ rem r.it = rem it := by
  obtain ⟨r, h1, g⟩ := (SrcRun.Good.init h it hi).run h ops
  exact ⟨r, h1, g.inv, g.cur⟩

/-- … and with a final `take k` that drains (`k ≥` number of elements): delivered = elements. -/
theorem Refines.history_drained (h : Refines R Inv rem) (it : R.It) (hi : Inv it) (ops : List Op)
    (k : Nat) (hk : (rem it).length ≤ k) :
    ∃ r, SrcRun.run R (SrcRun.init R it) (ops ++ [.take k]) = .ok r ∧ r.delivered = rem it := by
  obtain ⟨r, h1, g⟩ := (SrcRun.Good.init h it hi).run h ops
  obtain ⟨t1, t2, t3⟩ := h.takeN k r.it g.inv
  refine ⟨{ r with it := (Resume.takeN R k r.it).2,
                   tentative := r.tentative ++ (Resume.takeN R k r.it).1,
                   log := r.log ++ [(Resume.takeN R k r.it).1] }, ?_, ?_⟩
  · simp only [SrcRun.run, List.foldlM_append, List.foldlM_cons, List.foldlM_nil] at h1 ⊢
    rw [h1]; rfl
  · show r.committed ++ (r.tentative ++ (Resume.takeN R k r.it).1) = rem it
    have hc := g.cur
    have hl : (rem r.it).length ≤ k := by
      have := congrArg List.length hc
      simp only [List.length_append] at this
      omega
    rw [t1, List.take_of_length_le hl, ← List.append_assoc]
    exact hc

end generic

/-! ## `SequenceDataSource` / `SequenceIterator` -/

theorem shardIval_dflt (n : Nat) : shardIval (0, n) Cfg.dflt = .ok (0, n) := by
  simp [shardIval, Cfg.dflt, shardLoop, List.range_succ, Nat.mod_one]

/-- the offset only shifts the start -/
theorem shardIval_off (iv : Nat × Nat) (c : Cfg) (o : Nat) {a b : Nat}
    (h : shardIval iv c = .ok (a, b)) :
    shardIval iv { c with off := o } = .ok (a - c.off + o, b) := by
  unfold shardIval at h ⊢
  by_cases hn : c.num < 1
  · simp [hn] at h
  · simp only [hn, if_false] at h ⊢
    injection h with h
    injection h with h1 h2
    subst h1 h2
    simp

/-- intervals only -/
def ival (n : Nat) (ch : Chain) : Except ErrKind (Nat × Nat) := ch.foldlM shardIval (0, n)

theorem foldlM_shard (ch : Chain) : ∀ (s : Src),
    ch.foldlM Src.shard s =
      match ch.foldlM shardIval (s.start, s.stop) with
      | .error e => .error e
      | .ok iv => .ok ⟨s.chain ++ ch, iv.1, iv.2⟩ := by
  induction ch with
  | nil => intro s; simp [pure, Except.pure]
  | cons c ch ih =>
    intro s
    simp only [List.foldlM_cons]
    cases hs : shardIval (s.start, s.stop) c with
    | error e => simp [Src.shard, hs, bind, Except.bind]
    | ok iv =>
      have : s.shard c = .ok ⟨s.chain ++ [c], iv.1, iv.2⟩ := by simp [Src.shard, hs]
      simp only [this, bind, Except.bind]
      rw [ih]
      simp [List.append_assoc]

theorem fromState_eq (n : Nat) (ch : Chain) :
    Src.fromState n ch =
      match ival n ch with
      | .error e => .error e
      | .ok iv => .ok ⟨Cfg.dflt :: ch, iv.1, iv.2⟩ := by
  unfold Src.fromState ival
  rw [foldlM_shard]
  rfl

theorem ival_dflt (n : Nat) (ch : Chain) : ival n (Cfg.dflt :: ch) = ival n ch := by
  simp [ival, List.foldlM_cons, shardIval_dflt, bind, Except.bind]

theorem ival_snoc (n : Nat) (ch : Chain) (c : Cfg) :
    ival n (ch ++ [c]) = (ival n ch >>= fun iv => shardIval iv c) := by
  simp [ival, List.foldlM_append]

/-- a data source whose interval is what its `ShardConfig` chain says -/
def Src.WF (n : Nat) (s : Src) : Prop := s.chain ≠ [] ∧ ival n s.chain = .ok (s.start, s.stop)

theorem Src.WF.root (n : Nat) : (Src.root n).WF n :=
  ⟨by simp [Src.root], by simp [Src.root, ival, shardIval_dflt, pure, Except.pure, bind, Except.bind]⟩

theorem Src.WF.shard {n : Nat} {s s' : Src} {c : Cfg} (h : s.WF n) (hs : s.shard c = .ok s') :
    s'.WF n := by
  unfold Src.shard at hs
  cases hi : shardIval (s.start, s.stop) c with
  | error e => simp [hi] at hs
  | ok iv =>
    simp only [hi] at hs
    injection hs with hs
    subst hs
    refine ⟨by simp, ?_⟩
    show ival n (s.chain ++ [c]) = .ok (iv.1, iv.2)
    rw [ival_snoc, h.2]
    simpa [bind, Except.bind] using hi

theorem Src.WF.fromState {n : Nat} {ch : Chain} {s : Src} (h : Src.fromState n ch = .ok s) :
    s.WF n := by
  rw [fromState_eq] at h
  cases hi : ival n ch with
  | error e => simp [hi] at h
  | ok iv =>
    simp only [hi] at h
    injection h with h
    subst h
    exact ⟨by simp, by rw [ival_dflt]; exact hi⟩

/-- the elements a `SequenceIterator` will still deliver -/
def SeqIt.rem (data : List α) (it : SeqIt) : List α := (data.take it.src.stop).drop it.index

def SeqIt.Inv (n : Nat) (it : SeqIt) : Prop := it.src.WF n ∧ it.src.start ≤ it.index

theorem SeqIt.rem_cons {data : List α} {it : SeqIt} {a : α} {as : List α}
    (h : SeqIt.rem data it = a :: as) :
    it.index < it.src.stop ∧ data[it.index]? = some a ∧
      SeqIt.rem data { it with index := it.index + 1 } = as := by
  unfold SeqIt.rem at h ⊢
  have hlt : it.index < (data.take it.src.stop).length := by
    apply Nat.lt_of_not_le
    intro hc
    rw [List.drop_eq_nil_of_le hc] at h
    cases h
  have hg : (data.take it.src.stop)[it.index]? = some a := by
    have := List.getElem?_drop (xs := data.take it.src.stop) (i := it.index) (j := 0)
    rw [h] at this
    simpa using this.symm
  rw [List.length_take] at hlt
  have hlt' : it.index < it.src.stop := by omega
  refine ⟨hlt', ?_, ?_⟩
  · rw [List.getElem?_take] at hg
    simpa [hlt'] using hg
  · have := congrArg List.tail h
    simpa [List.tail_drop] using this

theorem SeqIt.rem_nil {data : List α} {it : SeqIt} (h : SeqIt.rem data it = []) :
    ¬ it.index < it.src.stop ∨ data[it.index]? = none := by
  unfold SeqIt.rem at h
  rw [List.drop_eq_nil_iff, List.length_take] at h
  by_cases hl : it.index < it.src.stop
  · right
    rw [List.getElem?_eq_none_iff]
    omega
  · left; exact hl

theorem seqRec_refines (data : List α) :
    Refines (seqRec data) (SeqIt.Inv data.length) (SeqIt.rem data) where
  next_nil := by
    intro it hi hr
    show (SeqIt.next data it).1 = none ∧ SeqIt.Inv data.length (SeqIt.next data it).2 ∧
      SeqIt.rem data (SeqIt.next data it).2 = []
    unfold SeqIt.next
    rcases SeqIt.rem_nil hr with h | h
    · simp [h, hi, hr]
    · by_cases hl : it.index < it.src.stop
      · simp [hl, h, hi, hr]
      · simp [hl, hi, hr]
  next_cons := by
    intro it a as hi hr
    show (SeqIt.next data it).1 = some a ∧ SeqIt.Inv data.length (SeqIt.next data it).2 ∧
      SeqIt.rem data (SeqIt.next data it).2 = as
    obtain ⟨h1, h2, h3⟩ := SeqIt.rem_cons hr
    unfold SeqIt.next
    rw [if_pos h1, h2]
    exact ⟨rfl, ⟨hi.1, Nat.le_succ_of_le hi.2⟩, h3⟩
  restore_state := by
    intro it hi
    obtain ⟨⟨hne, hiv⟩, hle⟩ := hi
    show ∃ it', SeqIt.restore data.length (SeqIt.state it) = .ok it' ∧ _
    -- split the chain into its parents and the leaf
    obtain ⟨pre, c, hc⟩ : ∃ pre c, it.src.chain = pre ++ [c] :=
      ⟨it.src.chain.dropLast, it.src.chain.getLast hne, (List.dropLast_concat_getLast hne).symm⟩
    have hst : SeqIt.state it = pre ++ [{ c with off := c.off + it.index - it.src.start }] := by
      simp [SeqIt.state, hc]
    rw [hc, ival_snoc] at hiv
    cases hp : ival data.length pre with
    | error e => simp [hp, bind, Except.bind] at hiv
    | ok ivp =>
      simp only [hp, bind, Except.bind] at hiv
      have hoff := shardIval_off ivp c (c.off + it.index - it.src.start) hiv
      have hstart : c.off ≤ it.src.start := by
        unfold shardIval at hiv
        by_cases hn : c.num < 1
        · simp [hn] at hiv
        · simp only [hn, if_false] at hiv
          injection hiv with hiv
          injection hiv with h1 h2
          omega
      have hidx : it.src.start - c.off + (c.off + it.index - it.src.start) = it.index := by omega
      rw [hidx] at hoff
      have hiv' : ival data.length (SeqIt.state it) = .ok (it.index, it.src.stop) := by
        rw [hst, ival_snoc, hp]
        simpa [bind, Except.bind] using hoff
      refine ⟨⟨⟨Cfg.dflt :: SeqIt.state it, it.index, it.src.stop⟩, it.index⟩, ?_, ?_, ?_⟩
      · simp [SeqIt.restore, fromState_eq, hiv', bind, Except.bind, Src.iterate, pure, Except.pure]
      · exact ⟨⟨by simp, by rw [ival_dflt]; exact hiv'⟩, Nat.le_refl _⟩
      · rfl
  size_ok := by
    intro it _
    show (SeqIt.rem data it).length ≤ it.src.stop - it.index
    simp only [SeqIt.rem, List.length_drop, List.length_take]
    omega


/-! ## `ShardedIterable` / `DataIterator` -/

/-- The elements of `xs` (whose head sits at position `j` of the iterable) at positions
`p ≥ lo` with `p % num = idx` — "filter by position", written by recursion on the list. -/
def shardElems (idx num lo : Nat) : Nat → List α → List α
  | _, [] => []
  | j, a :: as =>
    if lo ≤ j ∧ j % num = idx then a :: shardElems idx num lo (j + 1) as
    else shardElems idx num lo (j + 1) as

/-- `shardElems` is the filter on positions -/
theorem shardElems_eq_filter (idx num lo : Nat) (xs : List α) : ∀ j,
    shardElems idx num lo j xs =
      ((xs.zipIdx j).filter fun p => decide (lo ≤ p.2 ∧ p.2 % num = idx)).map (·.1) := by
  induction xs with
  | nil => intro j; rfl
  | cons a as ih =>
    intro j
    simp only [shardElems, List.zipIdx_cons, List.filter_cons]
    by_cases h : lo ≤ j ∧ j % num = idx
    · simp [h, ih]
    · simp [h, ih]

theorem shardElems_skip (idx num lo : Nat) : ∀ (i : Nat) (xs : List α) (j : Nat), j + i ≤ lo →
    shardElems idx num lo j xs = shardElems idx num lo (j + i) (xs.drop i) := by
  intro i
  induction i with
  | zero => intro xs j _; simp
  | succ i ih =>
    intro xs j h
    cases xs with
    | nil => simp [shardElems]
    | cons a as =>
      have : ¬ (lo ≤ j ∧ j % num = idx) := by omega
      simp only [shardElems, this, if_false, List.drop_succ_cons]
      rw [ih as (j + 1) (by omega)]
      congr 1
      omega

theorem shardElems_congr (idx num lo lo' : Nat) : ∀ (xs : List α) (j : Nat),
    (∀ p, j ≤ p → (lo ≤ p ↔ lo' ≤ p)) → shardElems idx num lo j xs = shardElems idx num lo' j xs := by
  intro xs
  induction xs with
  | nil => intro j _; rfl
  | cons a as ih =>
    intro j h
    have h1 := h j (Nat.le_refl _)
    have h2 := ih (j + 1) (fun p hp => h p (by omega))
    simp only [shardElems, h1, h2]

/-- the elements a `DataIterator` will still deliver -/
def IterIt.rem (data : List α) (it : IterIt) : List α :=
  shardElems it.cfg.idx it.cfg.num it.cfg.off it.index (data.drop it.index)

def IterIt.Inv (it : IterIt) : Prop := 1 ≤ it.cfg.num

theorem iterNextAux_spec (data : List α) (cfg : Cfg) : ∀ (fuel i : Nat), data.length - i < fuel →
    match shardElems cfg.idx cfg.num cfg.off i (data.drop i) with
    | [] => (iterNextAux data cfg fuel i).1 = none ∧
        shardElems cfg.idx cfg.num cfg.off (iterNextAux data cfg fuel i).2
          (data.drop (iterNextAux data cfg fuel i).2) = []
    | a :: as => (iterNextAux data cfg fuel i).1 = some a ∧
        shardElems cfg.idx cfg.num cfg.off (iterNextAux data cfg fuel i).2
          (data.drop (iterNextAux data cfg fuel i).2) = as := by
  intro fuel
  induction fuel with
  | zero => intro i h; omega
  | succ fuel ih =>
    intro i h
    by_cases hi : i < data.length
    · have hd : data.drop i = data[i] :: data.drop (i + 1) := List.drop_eq_getElem_cons hi
      have hg : data[i]? = some data[i] := List.getElem?_eq_getElem hi
      rw [hd]
      simp only [shardElems, iterNextAux, hg]
      by_cases hp : cfg.off ≤ i ∧ i % cfg.num = cfg.idx
      · have hn : ¬ (i < cfg.off ∨ i % cfg.num ≠ cfg.idx) := by omega
        rw [if_pos hp, if_neg hn]
        exact ⟨rfl, rfl⟩
      · have hn : (i < cfg.off ∨ i % cfg.num ≠ cfg.idx) := by omega
        rw [if_neg hp, if_pos hn]
        exact ih (i + 1) (by omega)
    · have hd : data.drop i = [] := List.drop_eq_nil_of_le (by omega)
      have hg : data[i]? = none := List.getElem?_eq_none_iff.mpr (by omega)
      simp [shardElems, iterNextAux, hg, hd]

theorem iterRec_refines (data : List α) :
    Refines (iterRec data) IterIt.Inv (IterIt.rem data) where
  next_nil := by
    intro it hi hr
    have := iterNextAux_spec data it.cfg (data.length - it.index + 1) it.index (by omega)
    unfold IterIt.rem at hr
    rw [hr] at this
    exact ⟨this.1, hi, this.2⟩
  next_cons := by
    intro it a as hi hr
    have := iterNextAux_spec data it.cfg (data.length - it.index + 1) it.index (by omega)
    unfold IterIt.rem at hr
    rw [hr] at this
    exact ⟨this.1, hi, this.2⟩
  restore_state := by
    intro it hi
    refine ⟨⟨{ it.cfg with off := max it.index it.cfg.off }, 0⟩, ?_, hi, ?_⟩
    · show IterIt.restore (IterIt.state it) = _
      have : ¬ it.cfg.num < 1 := by unfold IterIt.Inv at hi; omega
      simp only [IterIt.restore, IterIt.state, this, if_false]
      rfl
    · show shardElems it.cfg.idx it.cfg.num (max it.index it.cfg.off) 0 (data.drop 0) =
        shardElems it.cfg.idx it.cfg.num it.cfg.off it.index (data.drop it.index)
      have h1 := shardElems_skip (α := α) it.cfg.idx it.cfg.num
        (max it.index it.cfg.off) it.index data 0 (by omega)
      rw [List.drop_zero, h1, Nat.zero_add]
      exact shardElems_congr it.cfg.idx it.cfg.num (max it.index it.cfg.off) it.cfg.off
        (data.drop it.index) it.index (fun p hp => by omega)
  size_ok := by
    intro it _
    show (shardElems it.cfg.idx it.cfg.num it.cfg.off it.index (data.drop it.index)).length ≤ data.length - it.index
    have : ∀ (xs : List α) (lo j : Nat), (shardElems it.cfg.idx it.cfg.num lo j xs).length ≤ xs.length := by
      intro xs
      induction xs with
      | nil => intro lo j; simp [shardElems]
      | cons a as ih =>
        intro lo j
        simp only [shardElems]
        split
        · simp only [List.length_cons]; have := ih lo (j + 1); omega
        · simp only [List.length_cons]; have := ih lo (j + 1); omega
    have h := this (data.drop it.index) it.cfg.off it.index
    rw [List.length_drop] at h
    exact h

end MlModel.Resume
