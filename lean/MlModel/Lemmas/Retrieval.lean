import MlModel.Model.Spec.Retrieval
/-!
# Lemmas tying the numpy-style row computations of `Model/Agg/Retrieval.lean`
(padded indicator row, running sums, gather at `k-1`) to the textbook definitions of
`Model/Spec/Retrieval.lean`.
-/
namespace MlModel.Agg.Retrieval
open MlModel.Spec.Retrieval

variable {α : Type} [DecidableEq α]

/-! ## `np.cumsum` -/

theorem cumsumG_length {β : Type} (add : β → β → β) (z : β) (xs : List β) :
    (cumsumG add z xs).length = xs.length := by
  induction xs generalizing z with
  | nil => rfl
  | cons x xs ih => simp [cumsumG, ih]

/-- entry `i` of a running sum is the sum of the first `i+1` entries -/
theorem cumsumG_getElem? {β : Type} (add : β → β → β) (z : β) (xs : List β) (i : Nat)
    (h : i < xs.length) : (cumsumG add z xs)[i]? = some ((xs.take (i + 1)).foldl add z) := by
  induction xs generalizing z i with
  | nil => simp at h
  | cons x xs ih =>
    cases i with
    | zero => simp [cumsumG]
    | succ i =>
      have h' : i < xs.length := by simpa using h
      simp [cumsumG, ih (add z x) i h']

theorem cumsumG_getD {β : Type} (add : β → β → β) (z d : β) (xs : List β) (i : Nat)
    (h : i < xs.length) : (cumsumG add z xs).getD i d = (xs.take (i + 1)).foldl add z := by
  simp [List.getD, cumsumG_getElem? add z xs i h]

/-- `_at_k(cumsum(xs), k)` for `1 ≤ k ≤ len`: the sum of the first `k` entries -/
theorem atK_cumsumG {β : Type} (add : β → β → β) (z d : β) (xs : List β) (k : Nat)
    (h1 : 1 ≤ k) (h2 : k ≤ xs.length) :
    atK (cumsumG add z xs) k d = (xs.take k).foldl add z := by
  unfold atK
  rw [cumsumG_getD add z d xs (k - 1) (by omega)]
  congr 2
  omega

/-! ## the indicator row -/

/-- indicator of "the item at rank `i+1` is relevant" -/
def ind (T P : List α) (i : Nat) : Nat := if rel T P (i + 1) then 1 else 0

theorem tpRow_eq (W : Nat) (r : Row α) :
    tpRow W r = (List.range W).map (ind r.yTrue r.yPred) := by
  unfold tpRow
  apply List.map_congr_left
  intro i _
  simp only [ind, rel, Nat.add_sub_cancel]
  cases r.yPred[i]? with
  | none => simp
  | some p => by_cases h : p ∈ r.yTrue <;> simp [h]

theorem take_map_range {β : Type} (f : Nat → β) (W k : Nat) (h : k ≤ W) :
    ((List.range W).map f).take k = (List.range k).map f := by
  rw [← List.map_take, List.take_range, Nat.min_eq_left h]

/-- `Σ_{i<k} [item i+1 relevant] = |top_k ∩ true|` -/
theorem sum_ind (T P : List α) (k : Nat) :
    ((List.range k).map (ind T P)).foldl (· + ·) 0 = hits T P k := by
  induction k with
  | zero => simp [hits, topK]
  | succ k ih =>
    rw [List.range_succ, List.map_append, List.foldl_append, ih]
    simp only [List.map_cons, List.map_nil, List.foldl_cons, List.foldl_nil, hits, topK,
      List.take_add_one, List.filter_append, List.length_append, ind, rel, Nat.add_sub_cancel]
    cases P[k]? with
    | none => simp
    | some p => by_cases h : p ∈ T <;> simp [h]

theorem tp_getD (W : Nat) (r : Row α) (i : Nat) (h : i < W) :
    (tpRow W r).getD i 0 = ind r.yTrue r.yPred i := by
  rw [tpRow_eq]
  simp [List.getD, h]

theorem tpRow_length (W : Nat) (r : Row α) : (tpRow W r).length = W := by simp [tpRow]

/-- `tp_at_topks[k-1] = |top_k ∩ true|` whatever the padded width `W ≥ k` -/
theorem tpK_eq (W : Nat) (r : Row α) (k : Nat) (h1 : 1 ≤ k) (h2 : k ≤ W) :
    (mkCtx W r).tpK k = hits r.yTrue r.yPred k := by
  simp only [Ctx.tpK, mkCtx]
  rw [atK_cumsumG _ _ _ _ k h1 (by rw [tpRow_length]; exact h2), tpRow_eq, take_map_range _ _ _ h2]
  exact sum_ind _ _ _

theorem tpAt_getD (W : Nat) (r : Row α) (i : Nat) (h : i < W) :
    (mkCtx W r).tpAt.getD i 0 = hits r.yTrue r.yPred (i + 1) := by
  have := tpK_eq W r (i + 1) (by omega) (by omega)
  simpa [Ctx.tpK, atK] using this


/-! ## the rational metrics -/

theorem precision_eq (W : Nat) (r : Row α) (k : Nat) (h1 : 1 ≤ k) (h2 : k ≤ W) :
    (mkCtx W r).precision k = Spec.Retrieval.precision r.yTrue r.yPred k := by
  simp only [Ctx.precision, Spec.Retrieval.precision, retrieved, tpK_eq W r k h1 h2]
  rfl

theorem recall_eq (W : Nat) (r : Row α) (k : Nat) (h1 : 1 ≤ k) (h2 : k ≤ W) :
    (mkCtx W r).recall k = Spec.Retrieval.recall r.yTrue r.yPred k := by
  simp only [Ctx.recall, Spec.Retrieval.recall, tpK_eq W r k h1 h2]
  rfl

theorem accuracy_eq (W : Nat) (r : Row α) (k : Nat) (h1 : 1 ≤ k) (h2 : k ≤ W) :
    (mkCtx W r).accuracy k = Spec.Retrieval.accuracy r.yTrue r.yPred k := by
  simp only [Ctx.accuracy, Spec.Retrieval.accuracy, tpK_eq W r k h1 h2]

theorem iou_eq (W : Nat) (r : Row α) (k : Nat) (h1 : 1 ≤ k) (h2 : k ≤ W) :
    (mkCtx W r).iou k = Spec.Retrieval.iou r.yTrue r.yPred k := by
  simp only [Ctx.iou, Spec.Retrieval.iou, retrieved, tpK_eq W r k h1 h2]
  rfl

theorem f1_eq (W : Nat) (r : Row α) (k : Nat) (h1 : 1 ≤ k) (h2 : k ≤ W) :
    (mkCtx W r).f1 k = Spec.Retrieval.f1 r.yTrue r.yPred k := by
  simp only [Ctx.f1, Spec.Retrieval.f1, precision_eq W r k h1 h2, recall_eq W r k h1 h2]
  cases Spec.Retrieval.precision r.yTrue r.yPred k with
  | none => cases Spec.Retrieval.recall r.yTrue r.yPred k <;> simp [Q.add, Q.safeDiv]
  | some p =>
    cases Spec.Retrieval.recall r.yTrue r.yPred k with
    | none => simp [Q.add, Q.safeDiv]
    | some q =>
      by_cases h : p + q = 0 <;> simp [Q.mul, Q.add, Q.safeDiv, Q.div, h]

theorem missRate_eq (W : Nat) (r : Row α) (k : Nat) (h1 : 1 ≤ k) (h2 : k ≤ W) :
    (mkCtx W r).missRate k = Spec.Retrieval.missRate r.yTrue r.yPred k := by
  simp only [Ctx.missRate, Spec.Retrieval.missRate, recall_eq W r k h1 h2]

theorem fdr_eq (W : Nat) (r : Row α) (k : Nat) (h1 : 1 ≤ k) (h2 : k ≤ W) :
    (mkCtx W r).fdr k = Spec.Retrieval.fdr r.yTrue r.yPred k := by
  simp only [Ctx.fdr, Spec.Retrieval.fdr, precision_eq W r k h1 h2]

theorem threat_eq (W : Nat) (r : Row α) (k : Nat) (h1 : 1 ≤ k) (h2 : k ≤ W) :
    (mkCtx W r).threat k = Spec.Retrieval.threat r.yTrue r.yPred k := by
  simp only [Ctx.threat, Spec.Retrieval.threat, tpK_eq W r k h1 h2]
  congr 2
  show (r.yTrue.length : Int) - _ + _ = _
  omega

theorem fmi_eq (W : Nat) (r : Row α) (k : Nat) (h1 : 1 ≤ k) (h2 : k ≤ W) :
    (mkCtx W r).fmi k = Spec.Retrieval.fmi r.yTrue r.yPred k := by
  simp only [Ctx.fmi, Spec.Retrieval.fmi, precision_eq W r k h1 h2, recall_eq W r k h1 h2]
  cases Spec.Retrieval.precision r.yTrue r.yPred k with
  | none => cases Spec.Retrieval.recall r.yTrue r.yPred k <;> simp [Q.mul]
  | some p => cases Spec.Retrieval.recall r.yTrue r.yPred k <;> simp [Q.mul]


/-! ## average precision -/

@[simp] theorem mkCtx_W (W : Nat) (r : Row α) : (mkCtx W r).W = W := rfl
@[simp] theorem mkCtx_nTrue (W : Nat) (r : Row α) : (mkCtx W r).nTrue = r.yTrue.length := rfl
@[simp] theorem mkCtx_nPred (W : Nat) (r : Row α) : (mkCtx W r).nPred = r.yPred.length := rfl


theorem foldl_congr_mem {β γ : Type} (f g : γ → β → γ) (l : List β) (z : γ)
    (h : ∀ a, ∀ x ∈ l, f a x = g a x) : l.foldl f z = l.foldl g z := by
  induction l generalizing z with
  | nil => rfl
  | cons x xs ih =>
    simp only [List.foldl_cons]
    rw [h z x (by simp)]
    exact ih _ (fun a y hy => h a y (by simp [hy]))

theorem tp_pos_iff (W : Nat) (r : Row α) (i : Nat) (h : i < W) :
    (tpRow W r).getD i 0 > 0 ↔ rel r.yTrue r.yPred (i + 1) = true := by
  rw [tp_getD W r i h, ind]
  by_cases hr : rel r.yTrue r.yPred (i + 1) = true <;> simp [hr]

theorem ap_eq (W : Nat) (r : Row α) (k : Nat) (h1 : 1 ≤ k) (h2 : k ≤ W) :
    (mkCtx W r).ap k = Spec.Retrieval.ap r.yTrue r.yPred k := by
  have hk : k - 1 < W := by omega
  simp only [Ctx.ap, Ctx.apAll, atK, Spec.Retrieval.ap, mkCtx_W, mkCtx_nTrue]
  rw [List.getD_eq_getElem?_getD, List.getElem?_map, List.getElem?_range hk]
  simp only [Option.map_some, Option.getD_some]
  have hk1 : k - 1 + 1 = k := by omega
  rw [hk1]
  congr 2
  · rw [cumsumG_getD _ _ _ _ (k - 1) (by simpa using hk), hk1, take_map_range _ _ _ h2,
      List.foldl_map]
    apply foldl_congr_mem
    intro a i hi
    have hi' : i < W := by have := List.mem_range.mp hi; omega
    have e1 : (mkCtx W r).tpAt.getD i 0 = hits r.yTrue r.yPred (i + 1) := tpAt_getD W r i hi'
    have e2 : (mkCtx W r).tp.getD i 0 = ind r.yTrue r.yPred i := tp_getD W r i hi'
    rw [e1, e2, ind]
    by_cases hr : rel r.yTrue r.yPred (i + 1) = true
    · simp [hr, Rat.mul_one]
    · simp [hr, Rat.mul_zero]

/-! ## DCG / NDCG -/

theorem foldl_append_ranks (q : Nat → Bool) (k : Nat) :
    ((List.range k).map fun i => if q (i + 1) then [i + 1] else []).foldl (· ++ ·) [] =
      (List.range' 1 k).filter q := by
  induction k with
  | zero => simp
  | succ k ih =>
    rw [List.range_succ, List.map_append, List.foldl_append, ih, List.range'_concat,
      List.filter_append]
    by_cases h : q (k + 1) = true <;> simp [h, Nat.add_comm]

theorem dcgAll_atK (W : Nat) (r : Row α) (k : Nat) (h1 : 1 ≤ k) (h2 : k ≤ W) :
    atK (mkCtx W r).dcgAll k [] = relRanks r.yTrue r.yPred k := by
  unfold Ctx.dcgAll
  rw [mkCtx_W, atK_cumsumG _ _ _ _ k h1 (by simpa using h2), take_map_range _ _ _ h2, relRanks,
    ← foldl_append_ranks]
  congr 1
  apply List.map_congr_left
  intro i hi
  have hi' : i < W := by have := List.mem_range.mp hi; omega
  have e2 : (mkCtx W r).tp.getD i 0 = ind r.yTrue r.yPred i := tp_getD W r i hi'
  rw [e2, ind]
  by_cases hr : rel r.yTrue r.yPred (i + 1) = true <;> simp [hr]

theorem dcg_eq (W : Nat) (r : Row α) (k : Nat) (h1 : 1 ≤ k) (h2 : k ≤ W) :
    (mkCtx W r).dcg k = Spec.Retrieval.dcg r.yTrue r.yPred k := by
  simp only [Ctx.dcg, Spec.Retrieval.dcg, dcgAll_atK W r k h1 h2]

theorem foldl_ideal (n k : Nat) :
    ((List.range k).map fun i => if i + 1 > n then [] else [i + 1]).foldl (· ++ ·) [] =
      List.range' 1 (min k n) := by
  induction k with
  | zero => simp
  | succ k ih =>
    rw [List.range_succ, List.map_append, List.foldl_append, ih]
    by_cases h : k + 1 > n
    · have e1 : min (k + 1) n = n := by omega
      have e2 : min k n = n := by omega
      simp [h, e1, e2]
    · have e1 : min (k + 1) n = k + 1 := by omega
      have e2 : min k n = k := by omega
      simp [h, e1, e2, List.range'_concat, Nat.add_comm]

theorem idealAll_atK (W : Nat) (r : Row α) (k : Nat) (h1 : 1 ≤ k) (h2 : k ≤ W) :
    atK (mkCtx W r).idealAll k [] = idealRanks r.yTrue k := by
  unfold Ctx.idealAll
  rw [mkCtx_W, mkCtx_nTrue, atK_cumsumG _ _ _ _ k h1 (by simpa using h2), take_map_range _ _ _ h2, idealRanks]
  exact foldl_ideal _ _

theorem ndcg_eq (W : Nat) (r : Row α) (k : Nat) (h1 : 1 ≤ k) (h2 : k ≤ W) :
    (mkCtx W r).ndcg k = Spec.Retrieval.ndcg r.yTrue r.yPred k := by
  simp only [Ctx.ndcg, Spec.Retrieval.ndcg, dcgAll_atK W r k h1 h2, idealAll_atK W r k h1 h2]
  cases idealRanks r.yTrue k <;> rfl


/-! ## reciprocal rank -/

theorem hits_succ (T P : List α) (n : Nat) : hits T P (n + 1) = hits T P n + ind T P n := by
  rw [← sum_ind, ← sum_ind, List.range_succ, List.map_append, List.foldl_append]
  simp

theorem hits_pos_iff (T P : List α) (n : Nat) :
    hits T P n > 0 ↔ ∃ i, 1 ≤ i ∧ i ≤ n ∧ rel T P i = true := by
  induction n with
  | zero =>
    simp only [hits, topK, List.take_zero, List.filter_nil, List.length_nil, Nat.lt_irrefl,
      false_iff, not_exists]
    intro i hi
    omega
  | succ n ih =>
    rw [hits_succ, ind]
    constructor
    · intro h
      by_cases hr : rel T P (n + 1) = true
      · exact ⟨n + 1, by omega, by omega, hr⟩
      · simp only [hr] at h
        obtain ⟨i, h1, h2, h3⟩ := ih.mp (by simpa using h)
        exact ⟨i, h1, by omega, h3⟩
    · rintro ⟨i, h1, h2, h3⟩
      by_cases hi : i = n + 1
      · subst hi; simp [h3]
      · have : hits T P n > 0 := ih.mpr ⟨i, h1, by omega, h3⟩
        omega

theorem tpAt_getElem? (W : Nat) (r : Row α) (i : Nat) (h : i < W) :
    (mkCtx W r).tpAt[i]? = some (hits r.yTrue r.yPred (i + 1)) := by
  simp only [mkCtx]
  rw [cumsumG_getElem? _ _ _ i (by rw [tpRow_length]; exact h), tpRow_eq,
    take_map_range _ _ _ (by omega), sum_ind]

theorem tpAt_length (W : Nat) (r : Row α) : (mkCtx W r).tpAt.length = W := by
  simp [mkCtx, cumsumG_length, tpRow_length]

theorem rr_eq (W : Nat) (r : Row α) (k : Nat) (h1 : 1 ≤ k) (h2 : k ≤ W) :
    (mkCtx W r).rr k = Spec.Retrieval.rr r.yTrue r.yPred k := by
  have hk : k - 1 < W := by omega
  have hk1 : k - 1 + 1 = k := by omega
  simp only [Ctx.rr, Ctx.rrAll, atK, Spec.Retrieval.rr]
  rw [List.getD_eq_getElem?_getD, List.getElem?_map, tpAt_getElem? W r (k - 1) hk, hk1]
  simp only [Option.map_some, Option.getD_some]
  cases hf : firstRel r.yTrue r.yPred k with
  | none =>
    have hnone : ¬ (hits r.yTrue r.yPred k > 0) := by
      rw [hits_pos_iff]
      rintro ⟨i, hi1, hi2, hi3⟩
      have := (List.find?_range'_eq_none.mp hf) i hi1 (by omega)
      simp [hi3] at this
    simp [hnone]
  | some j =>
    obtain ⟨hj, hmem, hmin⟩ := List.find?_range'_eq_some.mp hf
    have hj1 : 1 ≤ j ∧ j < 1 + k := by simpa using hmem
    have hpos : hits r.yTrue r.yPred k > 0 := (hits_pos_iff _ _ _).mpr ⟨j, hj1.1, by omega, hj⟩
    have hidx : (mkCtx W r).tpAt.findIdx? (· > 0) = some (j - 1) := by
      rw [List.findIdx?_eq_some_iff_getElem]
      refine ⟨by rw [tpAt_length]; omega, ?_, ?_⟩
      · have := tpAt_getElem? W r (j - 1) (by omega)
        rw [List.getElem?_eq_getElem (by rw [tpAt_length]; omega)] at this
        have e : (mkCtx W r).tpAt[j - 1]'(by rw [tpAt_length]; omega) = hits r.yTrue r.yPred (j - 1 + 1) :=
          Option.some.inj this
        rw [e, show j - 1 + 1 = j by omega]
        simpa using (hits_pos_iff _ _ _).mpr ⟨j, hj1.1, Nat.le_refl _, hj⟩
      · intro i hi
        have := tpAt_getElem? W r i (by omega)
        rw [List.getElem?_eq_getElem (by rw [tpAt_length]; omega)] at this
        have e : (mkCtx W r).tpAt[i]'(by rw [tpAt_length]; omega) = hits r.yTrue r.yPred (i + 1) :=
          Option.some.inj this
        rw [e]
        intro hgt
        obtain ⟨i', hi1, hi2, hi3⟩ := (hits_pos_iff _ _ _).mp (by simpa using hgt)
        have := hmin i' hi1 (by omega)
        simp [hi3] at this
    simp only [hpos, if_true, Ctx.argmaxPos, hidx]
    rw [show j - 1 + 1 = j by omega]

end MlModel.Agg.Retrieval
