import MlModel.Model.Iter
/-! The state-machine view (`next : σ → Step α σ`, `drain`) and the event-list view of the iterator
combinators agree. -/
namespace MlModel.Iter

theorem drain_cursor {α : Type} (evs : List (Ev α)) (fuel : Nat) (h : evs.length < fuel) :
    drain cursorNext fuel evs = evs := by
  induction evs generalizing fuel with
  | nil => cases fuel with
    | zero => omega
    | succ n => simp [drain, cursorNext]
  | cons ev rest ih =>
    cases fuel with
    | zero => simp at h
    | succ n =>
      have hr : rest.length < n := by simpa using h
      cases ev with
      | ok a => simp [drain, cursorNext, ih n hr]
      | error e => simp [drain, cursorNext, ih n hr]

theorem drain_gen_none {α σ : Type} (next : σ → Step α σ) (fuel : Nat) :
    drain (genNext next) fuel none = [] := by
  cases fuel <;> simp [drain, genNext]

/-- a generator object answers `StopIteration` for ever after an exception has passed through it:
its events are those of its body up to and including the first error -/
theorem drain_gen {α σ : Type} (next : σ → Step α σ) (fuel : Nat) (s : σ) :
    drain (genNext next) fuel (some s) = cutAfterErr (drain next fuel s) := by
  induction fuel generalizing s with
  | zero => simp [drain, cutAfterErr]
  | succ n ih =>
    cases h : next s with
    | yield a s' => simp [drain, genNext, h, cutAfterErr, ih]
    | stop => simp [drain, genNext, h, cutAfterErr]
    | raise e s' => simp [drain, genNext, h, cutAfterErr, drain_gen_none]

theorem drain_map {α β : Type} (f : α → Ev β) (evs : List (Ev α)) (fuel : Nat) (h : evs.length < fuel) :
    drain (mapNext f) fuel evs = mapEv f evs := by
  induction evs generalizing fuel with
  | nil => cases fuel with
    | zero => omega
    | succ n => simp [drain, mapNext, mapEv]
  | cons ev rest ih =>
    cases fuel with
    | zero => simp at h
    | succ n =>
      have hr : rest.length < n := by simpa using h
      cases ev with
      | ok a => cases hf : f a <;> simp [drain, mapNext, mapEv, hf, ih n hr]
      | error e => simp [drain, mapNext, mapEv, ih n hr]

theorem ignoreNext_stop {α : Type} (r : Option α) (evs : List (Ev α)) (h : ignoreNext r evs = .stop) :
    ignoreErr r evs = [] := by
  induction evs with
  | nil => simp [ignoreErr]
  | cons ev rest ih =>
    cases ev with
    | ok a => simp [ignoreNext] at h
    | error e =>
      by_cases hi : e.ignorable = true
      · cases r with
        | some x => simp [ignoreNext, hi] at h
        | none =>
          simp only [ignoreNext, hi, if_true] at h
          simp [ignoreErr, hi, ih h]
      · simp [ignoreNext, hi] at h

theorem ignoreNext_yield {α : Type} (r : Option α) (evs : List (Ev α)) (a : α) (rest : List (Ev α))
    (h : ignoreNext r evs = .yield a rest) :
    ignoreErr r evs = .ok a :: ignoreErr r rest ∧ rest.length < evs.length := by
  induction evs with
  | nil => simp [ignoreNext] at h
  | cons ev tl ih =>
    cases ev with
    | ok x =>
      simp only [ignoreNext, Step.yield.injEq] at h
      obtain ⟨h1, h2⟩ := h
      subst h1 h2
      simp [ignoreErr]
    | error e =>
      by_cases hi : e.ignorable = true
      · cases r with
        | some x =>
          simp only [ignoreNext, hi, if_true, Step.yield.injEq] at h
          obtain ⟨h1, h2⟩ := h
          subst h1 h2
          simp [ignoreErr, hi]
        | none =>
          simp only [ignoreNext, hi, if_true] at h
          obtain ⟨h1, h2⟩ := ih h
          exact ⟨by simp [ignoreErr, hi, h1], by simp; omega⟩
      · simp [ignoreNext, hi] at h

theorem ignoreNext_raise {α : Type} (r : Option α) (evs : List (Ev α)) (e : Err) (rest : List (Ev α))
    (h : ignoreNext r evs = .raise e rest) : ignoreErr r evs = [.error e] ∧ rest = [] := by
  induction evs with
  | nil => simp [ignoreNext] at h
  | cons ev tl ih =>
    cases ev with
    | ok x => simp [ignoreNext] at h
    | error e' =>
      by_cases hi : e'.ignorable = true
      · cases r with
        | some x => simp [ignoreNext, hi] at h
        | none =>
          simp only [ignoreNext, hi, if_true] at h
          obtain ⟨h1, h2⟩ := ih h
          exact ⟨by simp [ignoreErr, hi, h1], h2⟩
      · simp only [ignoreNext, hi, Bool.false_eq_true, if_false, Step.raise.injEq] at h
        obtain ⟨h1, h2⟩ := h
        subst h1
        exact ⟨by simp [ignoreErr, hi], h2.symm⟩

/-- `iter_ignore_error` as a state machine (`ignoreNext`: one `next()` of the generator) produces
exactly the event list `ignoreErr` -/
theorem drain_ignore {α : Type} (r : Option α) (evs : List (Ev α)) (fuel : Nat) (h : evs.length < fuel) :
    drain (ignoreNext r) fuel evs = ignoreErr r evs := by
  induction fuel generalizing evs with
  | zero => omega
  | succ n ih =>
    cases hn : ignoreNext r evs with
    | stop => simp [drain, hn, ignoreNext_stop r evs hn]
    | yield a rest =>
      obtain ⟨h1, h2⟩ := ignoreNext_yield r evs a rest hn
      have : rest.length < n := by omega
      simp [drain, hn, h1, ih rest this]
    | raise e rest =>
      obtain ⟨h1, h2⟩ := ignoreNext_raise r evs e rest hn
      subst h2
      cases n with
      | zero => simp [drain, hn, h1]
      | succ m => simp [drain, hn, h1, ignoreNext]

/-! ## the lock wrapper `_ThreadSafeIterator` -/

/-- the wrapper is transparent: the results of successive `__next__` calls are those of the wrapped
iterator, whatever its kind -/
theorem drain_ts {α σ : Type} (next : σ → Step α σ) (fuel : Nat) (s : σ) (l : Bool) :
    drain (tsNext next) fuel { inner := s, locked := l } = drain next fuel s := by
  induction fuel generalizing s l with
  | zero => simp [drain]
  | succ n ih =>
    cases h : next s with
    | yield a s' => simp [drain, tsNext, h, ih]
    | stop => simp [drain, tsNext, h]
    | raise e s' => simp [drain, tsNext, h, ih]

/-- whichever workers call in whichever order: the events handed out, in call order, are the
events of the wrapped iterator -/
theorem tsServe_events {α σ : Type} (next : σ → Step α σ) (sched : List Nat) (s : σ) (l : Bool) :
    (tsServe next sched { inner := s, locked := l }).map (·.2) = drain next sched.length s := by
  induction sched generalizing s l with
  | nil => simp [tsServe, drain]
  | cons w sched ih =>
    cases h : next s with
    | yield a s' => simp [tsServe, drain, tsNext, h, ih]
    | stop =>
      -- the exhausted iterator stays exhausted: every later call gets `StopIteration` too
      have hstop : ∀ (sc : List Nat), tsServe next sc { inner := s, locked := l } = ([] : List (Nat × Ev α)) := by
        intro sc
        induction sc with
        | nil => simp [tsServe]
        | cons w' sc ih' => simp [tsServe, tsNext, h, ih']
      simp [tsServe, drain, tsNext, h, hstop]
    | raise e s' => simp [tsServe, drain, tsNext, h, ih]

theorem tsFreeAfter_true {α σ : Type} (next : σ → Step α σ) (s : σ) :
    tsFreeAfter next { inner := s, locked := false } = true := by
  unfold tsFreeAfter tsNext
  cases next s <;> simp

end MlModel.Iter
