import MlModel.Lemmas.AggLawfulU
/-!
# The algebraic content of C11 packaged per metric

`MergeLaws m Eqv`: on the states that can arise from data (`Reach`: any history of fresh
accumulators, batches and merges), `merge` is associative and commutative up to the result
equivalence `Eqv`, a fresh accumulator is a two-sided unit, and equivalent states have equal results.
`OrderedMergeLaws` is the same without commutativity (order-carrying accumulators).
-/
namespace MlModel.Agg

variable {X S R : Type}

structure OrderedMergeLaws (m : Mergeable X S R) (Eqv : S → S → Prop) : Prop where
  assoc : ∀ {a b c}, Reach m a → Reach m b → Reach m c →
    Eqv (m.merge (m.merge a b) c) (m.merge a (m.merge b c))
  unit_left : ∀ {a}, Reach m a → Eqv (m.merge m.empty a) a
  unit_right : ∀ {a}, Reach m a → Eqv (m.merge a m.empty) a
  result_congr : ∀ {s t}, Eqv s t → m.result s = m.result t
  /-- any two histories with the same data in the same order (and both fed, or both not) agree -/
  history : ∀ {e₁ e₂ : Expr X}, e₁.data = e₂.data → e₁.fed = e₂.fed →
    m.result (e₁.eval m) = m.result (e₂.eval m)

structure MergeLaws (m : Mergeable X S R) (Eqv : S → S → Prop) : Prop
    extends OrderedMergeLaws m Eqv where
  comm : ∀ {a b}, Reach m a → Reach m b → Eqv (m.merge a b) (m.merge b a)
  /-- any bracketing, any order: two histories over the same multiset of examples agree -/
  any_history : ∀ {e₁ e₂ : Expr X}, e₁.data.Perm e₂.data → e₁.fed = e₂.fed →
    m.result (e₁.eval m) = m.result (e₂.eval m)

theorem LawfulU.orderedMergeLaws {m : Mergeable X S R} {Eqv : S → S → Prop} (h : LawfulU m Eqv) :
    OrderedMergeLaws m Eqv where
  assoc := h.assoc
  unit_left := h.merge_fresh_left
  unit_right := h.merge_fresh_right
  result_congr := h.result_congr
  history := h.result_eq_of_data_eq

theorem LawfulU.mergeLaws {m : Mergeable X S R} {Eqv : S → S → Prop} (h : LawfulU m Eqv)
    (hp : PermInv m Eqv) : MergeLaws m Eqv where
  toOrderedMergeLaws := h.orderedMergeLaws
  comm := h.comm hp
  any_history := h.result_eq_of_perm hp

/-- for a metric whose fresh state *is* the state of an empty batch, the `fed` side condition
disappears -/
theorem Lawful.any_history {m : Mergeable X S R} {Eqv : S → S → Prop} (h : Lawful m Eqv)
    (hp : PermInv m Eqv) {e₁ e₂ : Expr X} (hd : e₁.data.Perm e₂.data) :
    m.result (e₁.eval m) = m.result (e₂.eval m) := by
  have key : ∀ e : Expr X, m.result (e.eval m) = m.result (m.ofBatch e.data) := by
    intro e
    rw [h.toLawfulU.eval_result e, Expr.canon]
    by_cases hf : e.fed = true
    · simp only [hf, if_true]
    · simp only [hf, if_false]
      rw [Expr.data_of_not_fed (by simpa using hf)]
      exact h.result_congr h.empty_eq
  rw [key, key]
  exact h.result_congr (hp _ _ hd)

end MlModel.Agg
