import MlModel.Lemmas.Pipe
import MlModel.Lemmas.Rebatch
/-! Lemmas for operators **with batch sizes** (`apply` / `select` with `fn_batch_size` / `batch_size`,
`.batch(n)`): the annotated iterator stack of `Impl.iterate` with its `rebatched_args` *generators*
equals the list-level reference `Ref.opEventsB` (built on `Rebatch.run` / `Rebatch.online`, the model
property C19 is about).

Route: erase the `used` annotations (`*_ev`) → a generator layer only depends on the values before
the first error of its input and on that error (`rebatchEv_observe`) → on a well-formed stream the
generator is `Rebatch.run` (stream ended) / `Rebatch.online` (stream broke off) (`rebatchEv_wf`) →
the guarded call layer (`observe_callEv`) → `iterEv_spec` → `opIterate_batched_spec` →
`topEventsG_spec` (chains mixing batched and un-batched operators). -/
set_option linter.unusedSimpArgs false
set_option linter.unusedVariables false
namespace MlModel.Pipe
open MlModel.Iter

/-! ## erasing the `used` annotations -/

theorem annot_ev (k : Nat) (src : List (Ev Val)) : (Impl.annot k src).map (·.ev) = src := by
  induction src generalizing k with
  | nil => rfl
  | cons e rest ih => simp [Impl.annot, ih]

theorem aMap_ev {α β : Type} (f : α → Ev β) (l : List (Impl.AEv α)) :
    (Impl.aMap f l).map (·.ev) = mapEv f (l.map (·.ev)) := by
  induction l with
  | nil => rfl
  | cons a rest ih =>
    obtain ⟨ev, u⟩ := a
    cases ev <;> simp [Impl.aMap, mapEv, ih]

/-- `map(self._maybe_call_fn, fn_inputs)` on plain event lists -/
def callEv (op : Op) : Nat → List (Ev (List Val)) → List (Ev Val)
  | _, [] => []
  | s, .ok ins :: rest => (callFn op s ins).1 :: callEv op (callFn op s ins).2 rest
  | s, .error e :: rest => .error e :: callEv op s rest

theorem callLayer_ev (op : Op) (s : Nat) (l : List (Impl.AEv (List Val))) :
    (Impl.callLayer op s l).map (·.ev) = callEv op s (l.map (·.ev)) := by
  induction l generalizing s with
  | nil => rfl
  | cons a rest ih =>
    obtain ⟨ev, u⟩ := a
    cases ev with
    | error e => simp [Impl.callLayer, callEv, ih]
    | ok ins =>
      rcases hc : callFn op s ins with ⟨r, s'⟩
      simp [Impl.callLayer, callEv, hc, ih]

def dropIgn {β : Type} : List (Ev β) → List (Ev β)
  | [] => []
  | .ok a :: rest => .ok a :: dropIgn rest
  | .error e :: rest => if e.ignorable then dropIgn rest else .error e :: dropIgn rest

theorem dropIgnorable_ev {β : Type} (l : List (Impl.AEv β)) :
    (Impl.dropIgnorable l).map (·.ev) = dropIgn (l.map (·.ev)) := by
  induction l with
  | nil => rfl
  | cons a rest ih =>
    obtain ⟨ev, u⟩ := a
    cases ev with
    | ok x => simp [Impl.dropIgnorable, dropIgn, ih]
    | error e => by_cases h : e.ignorable = true <;> simp [Impl.dropIgnorable, dropIgn, ih, h]

theorem aCut_ev {β : Type} (ignore : Bool) (l : List (Impl.AEv β)) :
    (Impl.aCut ignore l).map (·.ev) = cutTerminal ignore (l.map (·.ev)) := by
  induction l with
  | nil => rfl
  | cons a rest ih =>
    obtain ⟨ev, u⟩ := a
    cases ev with
    | ok x => simp [Impl.aCut, cutTerminal, ih]
    | error e => by_cases h : terminal ignore e = true <;> simp [Impl.aCut, cutTerminal, ih, h]

/-- the conversion `rebatched_args` applies to an incoming tuple (column count, then `_batch_size`) -/
def toBatch (nc : Nat) (cols : List Val) : Except ErrKind (Rebatch.Batch Val) :=
  if cols.length != nc then .error .value else cols.mapM Impl.toCol

def okB (b : Rebatch.Batch Val) : Ev (List Val) := .ok (Ref.ofBatch b)

theorem okB_eq : okB = fun b => (.ok (Ref.ofBatch b) : Ev (List Val)) := rfl

/-- `rebatched_args(.., batch_size=t, num_columns=nc)` (`nc ≠ 0`) as a generator over plain events -/
def rebatchEv (t nc : Nat) : Rebatch.St Val → List (Ev (List Val)) → List (Ev (List Val))
  | st, [] =>
    match Rebatch.finish t none st with
    | .ok outs => outs.map okB
    | .error k => [.error { kind := k }]
  | _, .error e :: _ => [.error e]
  | st, .ok cols :: rest =>
    match toBatch nc cols >>= Rebatch.step t nc none st with
    | .ok (st', outs) => outs.map okB ++ rebatchEv t nc st' rest
    | .error k => [.error { kind := k }]

theorem rebatchGen_ev (t nc : Nat) (hnc : nc ≠ 0) (st : Rebatch.St Val)
    (l : List (Impl.AEv (List Val))) (eu : Nat) :
    (Impl.rebatchGen t nc st l eu).evs.map (·.ev) = rebatchEv t nc st (l.map (·.ev)) := by
  induction l generalizing st with
  | nil =>
    simp only [Impl.rebatchGen, List.map_nil, rebatchEv]
    cases Rebatch.finish t none st with
    | ok outs => simp [okB, Ref.ofBatch, Function.comp_def]
    | error k => simp
  | cons a rest ih =>
    obtain ⟨ev, u⟩ := a
    cases ev with
    | error e => simp [Impl.rebatchGen, rebatchEv]
    | ok cols =>
      simp only [Impl.rebatchGen, hnc, if_false, List.map_cons, rebatchEv, toBatch]
      cases hb : ((if cols.length != nc then Except.error ErrKind.value else cols.mapM Impl.toCol) >>=
          Rebatch.step t nc none st) with
      | error k => simp
      | ok v =>
        obtain ⟨st', outs⟩ := v
        simp [ih, okB, Ref.ofBatch, Function.comp_def]

/-- `TreeFn._iterate` on plain event lists -/
def iterEv (guard : Bool) (op : Op) (src : List (Ev Val)) : List (Ev (List Val)) :=
  let l1 := mapEv (fun r => liftErr (getInputs op r)) src
  let l2 := if op.fnBatch = 0 then l1
    else rebatchEv op.fnBatch op.inKeys.length (Rebatch.St.init op.inKeys.length) l1
  let l3 := callEv op op.s0 l2
  let l3 := if guard then dropIgn l3 else l3
  let l4 := mapEv (fun v => liftErr (normalizeOutputs op v)) l3
  if op.batch = 0 then l4
  else rebatchEv op.batch op.outKeys.length (Rebatch.St.init op.outKeys.length) l4

theorem iterate_ev (guard : Bool) (op : Op) (hin : op.fnBatch ≠ 0 → op.inKeys.length ≠ 0)
    (hout : op.batch ≠ 0 → op.outKeys.length ≠ 0) (k eu : Nat) (src : List (Ev Val)) :
    (Impl.iterate guard op ⟨Impl.annot k src, eu⟩).evs.map (·.ev) = iterEv guard op src := by
  unfold Impl.iterate iterEv Impl.maybeRebatch
  by_cases hfb : op.fnBatch = 0
  · by_cases hb : op.batch = 0
    · cases guard <;>
        simp [hfb, hb, aMap_ev, callLayer_ev, dropIgnorable_ev, annot_ev]
    · cases guard <;>
        simp [hfb, hb, aMap_ev, callLayer_ev, dropIgnorable_ev, annot_ev, rebatchGen_ev _ _ (hout hb)]
  · by_cases hb : op.batch = 0
    · cases guard <;>
        simp [hfb, hb, aMap_ev, callLayer_ev, dropIgnorable_ev, annot_ev, rebatchGen_ev _ _ (hin hfb)]
    · cases guard <;>
        simp [hfb, hb, aMap_ev, callLayer_ev, dropIgnorable_ev, annot_ev, rebatchGen_ev _ _ (hin hfb),
          rebatchGen_ev _ _ (hout hb)]

/-! ## a generator only sees the values before the first error, and that error -/

theorem observe_cons_ok {α : Type} (a : α) (rest : List (Ev α)) :
    observe (.ok a :: rest) = (a :: (observe rest).1, (observe rest).2) := by
  simp [observe]

theorem observe_cons_error {α : Type} (e : Err) (rest : List (Ev α)) :
    observe (.error e :: rest) = ([], some e) := rfl

theorem observe_unobserve {α : Type} (p : List α × Option Err) : observe (Ref.unobserve p) = p := by
  obtain ⟨xs, t⟩ := p
  induction xs with
  | nil => cases t <;> simp [Ref.unobserve, observe]
  | cons x xs ih =>
    simp only [Ref.unobserve, List.map_cons, List.cons_append] at ih ⊢
    rw [observe_cons_ok, ih]

theorem unobserve_cons {α : Type} (a : α) (xs : List α) (t : Option Err) :
    Ref.unobserve (a :: xs, t) = .ok a :: Ref.unobserve (xs, t) := by
  simp [Ref.unobserve]

theorem rebatchEv_observe (t nc : Nat) (st : Rebatch.St Val) (evs : List (Ev (List Val))) :
    rebatchEv t nc st evs = rebatchEv t nc st (Ref.unobserve (observe evs)) := by
  induction evs generalizing st with
  | nil => simp [observe, Ref.unobserve]
  | cons ev rest ih =>
    cases ev with
    | error e => simp [observe, Ref.unobserve, rebatchEv]
    | ok cols =>
      rw [observe_cons_ok, unobserve_cons]
      simp only [rebatchEv]
      cases toBatch nc cols >>= Rebatch.step t nc none st with
      | error k => rfl
      | ok v => obtain ⟨st', outs⟩ := v; simp only; rw [ih]

/-- the generator on a canonical stream, in terms of the online transducer `Rebatch.feed` -/
theorem rebatchEv_canon_end (t nc : Nat) (vs : List (List Val)) (st : Rebatch.St Val)
    (hvs : ∀ v ∈ vs, toBatch nc v = .ok (Ref.asBatch v)) :
    rebatchEv t nc st (vs.map .ok) =
      (Rebatch.feed t nc none st (vs.map Ref.asBatch)).out.map okB ++
        match (Rebatch.feed t nc none st (vs.map Ref.asBatch)).err with
        | some k => [.error { kind := k }]
        | none =>
          match Rebatch.finish t none (Rebatch.feed t nc none st (vs.map Ref.asBatch)).st with
          | .ok o => o.map okB
          | .error k => [.error { kind := k }] := by
  induction vs generalizing st with
  | nil => simp [rebatchEv, Rebatch.feed]
  | cons v vs ih =>
    have ih := fun st => ih st (fun x hx => hvs x (List.mem_cons_of_mem _ hx))
    simp only [List.map_cons, rebatchEv, hvs v (List.mem_cons_self ..), Rebatch.feed, bind, Except.bind]
    cases hs : Rebatch.step t nc none st (Ref.asBatch v) with
    | error k => simp
    | ok r => obtain ⟨st', o⟩ := r; simp [ih st']

theorem rebatchEv_canon_broken (t nc : Nat) (vs : List (List Val)) (st : Rebatch.St Val)
    (e : Err) (rest : List (Ev (List Val)))
    (hvs : ∀ v ∈ vs, toBatch nc v = .ok (Ref.asBatch v)) :
    rebatchEv t nc st (vs.map .ok ++ .error e :: rest) =
      (Rebatch.feed t nc none st (vs.map Ref.asBatch)).out.map okB ++
        match (Rebatch.feed t nc none st (vs.map Ref.asBatch)).err with
        | some k => [.error { kind := k }]
        | none => [.error e] := by
  induction vs generalizing st with
  | nil => simp [rebatchEv, Rebatch.feed]
  | cons v vs ih =>
    have ih := fun st => ih st (fun x hx => hvs x (List.mem_cons_of_mem _ hx))
    simp only [List.map_cons, List.cons_append, rebatchEv, hvs v (List.mem_cons_self ..), Rebatch.feed,
      bind, Except.bind]
    cases hs : Rebatch.step t nc none st (Ref.asBatch v) with
    | error k => simp
    | ok r => obtain ⟨st', o⟩ := r; simp [ih st']

/-! ## on a well-formed stream the generator is `Rebatch.run` / `Rebatch.online` -/

theorem asCol_kind {c : Val} (h : (Ref.asCol c).kind ≠ .other) : Impl.toCol c = .ok (Ref.asCol c) := by
  cases c <;> simp_all [Ref.asCol, Impl.toCol]

theorem toBatch_of_rect {nc r : Nat} {cols : List Val} (h : Rebatch.Rect nc r (Ref.asBatch cols)) :
    toBatch nc cols = .ok (Ref.asBatch cols) := by
  have hl : cols.length = nc := by simpa [Ref.asBatch] using h.1
  have hm : cols.mapM Impl.toCol = .ok (cols.map Ref.asCol) :=
    Rebatch.mapM_ok_of_forall cols fun x hx =>
      asCol_kind (h.2 (Ref.asCol x) (by simp [Ref.asBatch]; exact ⟨x, hx, rfl⟩)).1
  simp [toBatch, hl, hm, Ref.asBatch]

theorem toBatch_of_wf {nc : Nat} {vs : List (List Val)} (h : Rebatch.WF nc (vs.map Ref.asBatch)) :
    ∀ v ∈ vs, toBatch nc v = .ok (Ref.asBatch v) :=
  fun v hv => toBatch_of_rect (h (Ref.asBatch v) (List.mem_map_of_mem hv))

/-- `Ref.regroup` for a positive target, unfolded -/
theorem regroup_pos {t : Nat} (ht : 0 < t) (nc : Nat) (p : List (List Val) × Option Err) :
    Ref.regroup t nc p =
      match p.2 with
      | none => ((Rebatch.run t nc none (p.1.map Ref.asBatch)).out.map Ref.ofBatch,
                 (Rebatch.run t nc none (p.1.map Ref.asBatch)).err.map fun k => { kind := k })
      | some e => ((Rebatch.online t nc none (p.1.map Ref.asBatch)).map Ref.ofBatch, some e) := by
  have : t ≠ 0 := by omega
  unfold Ref.regroup
  simp only [this, if_false]
  cases p.2 <;> rfl

/-- **the `rebatched_args` generator = the list-level regrouping** on a stream whose values are
well-formed column batches: `Rebatch.run` if the stream ends, `Rebatch.online` then the error if it
breaks off -/
theorem rebatchEv_wf {t nc : Nat} (ht : 0 < t) (hnc : 0 < nc) (evs : List (Ev (List Val)))
    (hwf : Rebatch.WF nc ((observe evs).1.map Ref.asBatch)) :
    rebatchEv t nc (Rebatch.St.init nc) evs = Ref.unobserve (Ref.regroup t nc (observe evs)) := by
  rw [rebatchEv_observe, regroup_pos ht]
  rcases ho : observe evs with ⟨vs, tl⟩
  rw [ho] at hwf
  simp only at hwf
  have hvs := toBatch_of_wf hwf
  obtain ⟨herr, hinv, hfull, hcons⟩ :=
    Rebatch.feed_spec ht hnc none (vs.map Ref.asBatch) _ (Rebatch.Inv.init ht nc) hwf
  cases tl with
  | none =>
    obtain ⟨fin, m, hrun, _⟩ := Rebatch.run_spec ht hnc (Or.inl rfl) none hwf
    have hrun' := hrun
    rw [Rebatch.run_eq ht hnc (Or.inl rfl) none hwf, Rebatch.runFrom_eq_feed, herr] at hrun'
    simp only [Ref.unobserve, List.append_nil]
    rw [rebatchEv_canon_end t nc vs _ hvs, herr]
    simp only
    cases hf : Rebatch.finish t none (Rebatch.feed t nc none (Rebatch.St.init nc) (vs.map Ref.asBatch)).st with
    | error k => rw [hf] at hrun'; simp at hrun'
    | ok o =>
      rw [hf] at hrun'
      simp only [List.nil_append] at hrun'
      rw [hrun, ← hrun']
      simp [okB_eq, Function.comp_def]
  | some e =>
    simp only [Ref.unobserve]
    rw [rebatchEv_canon_broken t nc vs _ e [] hvs, herr,
      Rebatch.online_eq ht hnc (Or.inl rfl) none hwf]
    simp [okB_eq, Function.comp_def]

/-- every regrouped tuple has `nc` columns -/
theorem regroup_length {t nc : Nat} (ht : 0 < t) (hnc : 0 < nc) (p : List (List Val) × Option Err)
    (hwf : Rebatch.WF nc (p.1.map Ref.asBatch)) :
    ∀ cols ∈ (Ref.regroup t nc p).1, cols.length = nc := by
  rw [regroup_pos ht]
  obtain ⟨fin, m, hrun, hfull, _, _, h0, h1, _⟩ := Rebatch.run_spec ht hnc (Or.inl rfl) none hwf
  have honl : ∀ b ∈ Rebatch.online t nc none (p.1.map Ref.asBatch), b.length = nc :=
    fun b hb => (hfull b hb).1
  cases hp : p.2 with
  | some e =>
    intro cols hc
    simp only [List.mem_map] at hc
    obtain ⟨b, hb, rfl⟩ := hc
    simpa [Ref.ofBatch] using honl b hb
  | none =>
    intro cols hc
    simp only [hrun, List.mem_map, List.mem_append] at hc
    obtain ⟨b, hb, rfl⟩ := hc
    rcases hb with hb | hb
    · simpa [Ref.ofBatch] using honl b hb
    · rcases Nat.eq_zero_or_pos m with hm | hm
      · rw [h0 hm] at hb; simp at hb
      · obtain ⟨last, hl, hr⟩ := h1 hm
        rw [hl] at hb
        simp only [List.mem_singleton] at hb
        subst hb
        simpa [Ref.ofBatch] using hr.1

/-- on a well-formed stream the regrouping raises nothing of its own: the error after it is the
error before it -/
theorem regroup_err {t nc : Nat} (hnc : 0 < nc) (p : List (List Val) × Option Err)
    (hwf : t ≠ 0 → Rebatch.WF nc (p.1.map Ref.asBatch)) : (Ref.regroup t nc p).2 = p.2 := by
  by_cases ht : t = 0
  · simp [Ref.regroup, ht]
  · have ht' : 0 < t := by omega
    rw [regroup_pos ht']
    cases hp : p.2 with
    | some e => rfl
    | none =>
      obtain ⟨fin, m, hrun, _⟩ := Rebatch.run_spec ht' hnc (Or.inl rfl) none (hwf ht)
      simp [hrun]

/-! ## the (guarded) call layer -/

theorem callFn_err_ignorable {op : Op} {s : Nat} {ins : List Val} {e : Err} {s' : Nat}
    (h : callFn op s ins = (.error e, s')) : e.ignorable = true := by
  unfold callFn at h
  generalize (if op.argNames.isEmpty then op.fn s ins [] else op.fn s [] (op.argNames.zip ins)) = res at h
  rcases res with ⟨r, s''⟩
  cases r with
  | ok v => simp at h
  | error k =>
    simp only [Prod.mk.injEq, Except.error.injEq] at h
    rw [← h.1]; rfl

/-- `map_(self._maybe_call_fn, ..)` then `map(self._normalize_outputs, ..)`: the values before the
first error and that error are `Ref.callGroups` over the incoming groups — with skipping on, an
incoming skippable error is dropped by the same `iter_ignore_error` (`Ref.skipNT`) -/
theorem observe_callEv (ignore : Bool) (op : Op) (s : Nat) (evs : List (Ev (List Val))) :
    observe (mapEv (fun v => liftErr (normalizeOutputs op v))
        (if ignore then dropIgn (callEv op s evs) else callEv op s evs))
      = Ref.callGroups ignore op (observe (Ref.skipNT ignore evs)).2 s (observe (Ref.skipNT ignore evs)).1 := by
  have hn : (fun v => liftErr (normalizeOutputs op v))
      = fun v => (.ok (normOuts op v) : Ev (List Val)) := by
    funext v; simp [normalizeOutputs_eq]
  rw [hn]
  induction evs generalizing s with
  | nil => cases ignore <;> simp [callEv, dropIgn, mapEv, observe, Ref.callGroups, Ref.skipNT]
  | cons ev rest ih =>
    cases ev with
    | error e =>
      cases ignore with
      | false => simp [callEv, mapEv, observe, Ref.callGroups, Ref.skipNT, terminal]
      | true =>
        have ih := ih s
        simp only [if_true] at ih
        by_cases hi : e.ignorable = true
        · simp [callEv, dropIgn, hi, Ref.skipNT, terminal, ih]
        · simp [callEv, dropIgn, hi, mapEv, observe, Ref.callGroups, Ref.skipNT, terminal]
    | ok g =>
      simp only [Ref.skipNT]
      rw [observe_cons_ok]
      rcases hc : callFn op s g with ⟨r, s'⟩
      have ih := ih s'
      cases r with
      | ok v =>
        cases ignore with
        | false =>
          simp only [Bool.false_eq_true, if_false] at ih
          simp only [Bool.false_eq_true, if_false, callEv, hc, mapEv,
            observe_cons_ok, ih, Ref.callGroups]
        | true =>
          simp only [if_true] at ih
          simp only [if_true, callEv, hc, dropIgn, mapEv,
            observe_cons_ok, ih, Ref.callGroups]
      | error ec =>
        have hig := callFn_err_ignorable hc
        cases ignore with
        | false => simp [callEv, hc, mapEv, observe, Ref.callGroups, terminal]
        | true =>
          simp only [if_true] at ih
          simp [callEv, hc, dropIgn, hig, ih, Ref.callGroups, terminal]

/-! ## the operator -/

/-- every error of the stream is terminal (`Ref.Clean` for any element type) -/
def CleanL {α : Type} (ignore : Bool) (evs : List (Ev α)) : Prop :=
  ∀ e, Except.error e ∈ evs → terminal ignore e = true

/-- the side conditions of the batched refinement for one operator over one source stream -/
structure BatchedOK (ignore : Bool) (op : Op) (s : Nat) (src : List (Ev Val)) : Prop where
  kind : op.kind = .select ∨ op.kind = .apply
  selfAlone : SelfAlone op
  /-- `batch_size > 0` (the builder rejects `fn_batch_size` without it) -/
  batch : 0 < op.batch
  nout : 0 < op.outKeys.length
  /-- with `fn_batch_size`: no skippable error reaches the first re-batching generator — with
  skipping on, every record's inputs can be read or fail with a non-skippable error (vacuous with
  skipping off).  Necessary: finding F-C12-fnbatch-lost.  (Without `fn_batch_size` a record whose
  inputs cannot be read is skipped like a record whose call fails.) -/
  clean : op.fnBatch ≠ 0 → CleanL ignore (mapEv (fun r => liftErr (getInputs op r)) src)
  /-- with `fn_batch_size`: the selected inputs of every record are equally long columns -/
  inputs : op.fnBatch ≠ 0 → 0 < op.inKeys.length ∧
    Rebatch.WF op.inKeys.length
      ((observe (Ref.skipNT ignore (mapEv (fun r => liftErr (getInputs op r)) src))).1.map Ref.asBatch)
  /-- every successful call returns equally long columns, one per output key -/
  outputs : Rebatch.WF op.outKeys.length
    ((Ref.callGroups ignore op
        (Ref.regroup op.fnBatch op.inKeys.length
          (observe (Ref.skipNT ignore (mapEv (fun r => liftErr (getInputs op r)) src)))).2 s
        (Ref.regroup op.fnBatch op.inKeys.length
          (observe (Ref.skipNT ignore (mapEv (fun r => liftErr (getInputs op r)) src)))).1).1.map Ref.asBatch)

theorem skipNT_cleanL {α : Type} (ignore : Bool) (l : List (Ev α)) : CleanL ignore (Ref.skipNT ignore l) := by
  induction l with
  | nil => intro e he; simp [Ref.skipNT] at he
  | cons ev rest ih =>
    cases ev with
    | ok a =>
      intro e he
      simp only [Ref.skipNT, List.mem_cons] at he
      rcases he with he | he
      · cases he
      · exact ih e he
    | error e' =>
      by_cases ht : terminal ignore e' = true
      · intro e he
        simp only [Ref.skipNT, ht, if_true, List.mem_cons] at he
        rcases he with he | he
        · cases he; exact ht
        · exact ih e he
      · simpa [Ref.skipNT, ht] using ih

theorem skipNT_of_clean {α : Type} (ignore : Bool) (l : List (Ev α)) (h : CleanL ignore l) :
    Ref.skipNT ignore l = l := by
  induction l with
  | nil => rfl
  | cons ev rest ih =>
    have hr : CleanL ignore rest := fun e he => h e (List.mem_cons_of_mem _ he)
    cases ev with
    | ok a => simp [Ref.skipNT, ih hr]
    | error e => simp [Ref.skipNT, h e (List.mem_cons_self ..), ih hr]

theorem observe_skipNT_mapEv_cut {α β : Type} (ignore : Bool) (f : α → Ev β) (src : List (Ev α)) :
    observe (Ref.skipNT ignore (mapEv f (cutTerminal ignore src)))
      = observe (Ref.skipNT ignore (mapEv f src)) := by
  induction src with
  | nil => rfl
  | cons ev rest ih =>
    cases ev with
    | error e =>
      by_cases ht : terminal ignore e = true
      · simp [cutTerminal, ht, mapEv, Ref.skipNT, observe]
      · simp [cutTerminal, ht, mapEv, Ref.skipNT, ih]
    | ok a =>
      simp only [cutTerminal, mapEv]
      cases f a with
      | error e =>
        by_cases ht : terminal ignore e = true
        · simp [Ref.skipNT, ht, observe]
        · simp [Ref.skipNT, ht, ih]
      | ok b => simp only [Ref.skipNT]; rw [observe_cons_ok, observe_cons_ok, ih]

theorem cleanL_mapEv_cut {α β : Type} (ignore : Bool) (f : α → Ev β) (src : List (Ev α))
    (h : CleanL ignore (mapEv f src)) : CleanL ignore (mapEv f (cutTerminal ignore src)) := by
  induction src with
  | nil => exact h
  | cons ev rest ih =>
    have hr : CleanL ignore (mapEv f rest) := by
      intro e he
      cases ev with
      | ok a => exact h e (by simp only [mapEv]; exact List.mem_cons_of_mem _ he)
      | error e' => exact h e (by simp only [mapEv]; exact List.mem_cons_of_mem _ he)
    cases ev with
    | error e =>
      have ht : terminal ignore e = true := h e (by simp [mapEv])
      intro e' he'
      simp only [cutTerminal, ht, if_true, mapEv, List.mem_cons, List.not_mem_nil, or_false] at he'
      cases he'; exact ht
    | ok a =>
      intro e he
      simp only [cutTerminal, mapEv, List.mem_cons] at he
      rcases he with he | he
      · exact h e (by simp only [mapEv]; rw [← he]; exact List.mem_cons_self ..)
      · exact ih hr e he

theorem observe_err_mem {α : Type} (l : List (Ev α)) (e : Err) (h : (observe l).2 = some e) :
    Except.error e ∈ l := by
  induction l with
  | nil => simp [observe] at h
  | cons ev rest ih =>
    cases ev with
    | error e' =>
      have : e' = e := by simpa [observe] using h
      simp [this]
    | ok a =>
      rw [observe_cons_ok] at h
      exact List.mem_cons_of_mem _ (ih h)

theorem observe_mapEv_cut {α β : Type} (ignore : Bool) (f : α → Ev β) (src : List (Ev α)) :
    observe (mapEv f (cutTerminal ignore src)) = observe (mapEv f src) := by
  induction src with
  | nil => rfl
  | cons ev rest ih =>
    cases ev with
    | error e => by_cases ht : terminal ignore e = true <;> simp [cutTerminal, ht, mapEv, observe]
    | ok a =>
      simp only [cutTerminal, mapEv]
      cases f a with
      | error e => simp [observe]
      | ok b => rw [observe_cons_ok, observe_cons_ok, ih]

theorem mapEv_unobserve {α β : Type} (f : α → Ev β) (p : List α × Option Err) :
    mapEv f (Ref.unobserve p) = p.1.map f ++ Ref.unobserve (α := β) ([], p.2) := by
  obtain ⟨xs, t⟩ := p
  induction xs with
  | nil => cases t <;> simp [Ref.unobserve, mapEv]
  | cons x xs ih =>
    simp only [Ref.unobserve, List.map_cons, List.cons_append, mapEv, List.map_nil, List.nil_append] at ih ⊢
    rw [ih]

/-- `_iterate` of a batched `apply` / `select` = the four list-level steps of the reference -/
theorem iterEv_spec (ignore : Bool) (op : Op) (src : List (Ev Val))
    (h : BatchedOK ignore op op.s0 src) :
    iterEv ignore op (cutTerminal ignore src) = Ref.unobserve (Ref.batchedCols ignore op op.s0 src) := by
  have hb : op.batch ≠ 0 := by have := h.batch; omega
  unfold iterEv Ref.batchedCols
  simp only [hb, if_false]
  have hp1 : observe (Ref.skipNT ignore (mapEv (fun r => liftErr (getInputs op r)) (cutTerminal ignore src)))
      = observe (Ref.skipNT ignore (mapEv (fun r => liftErr (getInputs op r)) src)) :=
    observe_skipNT_mapEv_cut ignore _ src
  have hcl1 : op.fnBatch ≠ 0 →
      CleanL ignore (mapEv (fun r => liftErr (getInputs op r)) (cutTerminal ignore src)) :=
    fun hf => cleanL_mapEv_cut ignore _ src (h.clean hf)
  have hin := h.inputs
  have hout := h.outputs
  generalize mapEv (fun r => liftErr (getInputs op r)) (cutTerminal ignore src) = l1c at hp1 hcl1
  generalize observe (Ref.skipNT ignore (mapEv (fun r => liftErr (getInputs op r)) src)) = p1 at hp1 hin hout
  have hclean : ∀ e, p1.2 = some e → terminal ignore e = true := by
    intro e he
    rw [← hp1] at he
    exact skipNT_cleanL ignore l1c e (observe_err_mem _ e he)
  -- the first re-batcher
  generalize hl2 : (if op.fnBatch = 0 then l1c
      else rebatchEv op.fnBatch op.inKeys.length (Rebatch.St.init op.inKeys.length) l1c) = l2
  have hp2e : (Ref.regroup op.fnBatch op.inKeys.length p1).2 = p1.2 := by
    by_cases hf : op.fnBatch = 0
    · simp [hf, Ref.regroup]
    · exact regroup_err (hin hf).1 p1 (fun _ => (hin hf).2)
  have hp2 : observe (Ref.skipNT ignore l2) = Ref.regroup op.fnBatch op.inKeys.length p1 := by
    rw [← hl2]
    by_cases hf : op.fnBatch = 0
    · simp [hf, Ref.regroup, hp1]
    · simp only [hf, if_false]
      obtain ⟨hnin, hwf⟩ := hin hf
      have hsk : Ref.skipNT ignore l1c = l1c := skipNT_of_clean ignore l1c (hcl1 hf)
      rw [hsk] at hp1
      rw [rebatchEv_wf (by omega) hnin l1c (by rw [hp1]; exact hwf), hp1]
      have hc2 : CleanL ignore (Ref.unobserve (Ref.regroup op.fnBatch op.inKeys.length p1)) := by
        intro e he
        have hmem : (Ref.regroup op.fnBatch op.inKeys.length p1).2 = some e := by
          simp only [Ref.unobserve, List.mem_append, List.mem_map] at he
          rcases he with ⟨a, _, ha⟩ | he
          · cases ha
          · cases hx : (Ref.regroup op.fnBatch op.inKeys.length p1).2 with
            | none => rw [hx] at he; simp at he
            | some e' => rw [hx] at he; simp at he; rw [he]
        rw [hp2e] at hmem
        exact hclean e hmem
      rw [skipNT_of_clean ignore _ hc2, observe_unobserve]
  -- the call layer
  have hp3 := observe_callEv ignore op op.s0 l2
  rw [hp2] at hp3
  -- the second re-batcher
  rw [rebatchEv_wf h.batch h.nout _ (by rw [hp3]; exact hout), hp3]

theorem getOutputs_cols (op : Op) (hs : SelfAlone op) (hn : 0 < op.outKeys.length) (base : Val)
    (cols : List Val) (hl : cols.length = op.outKeys.length) :
    getOutputs op base cols = Ref.write op base (.tuple cols) := by
  rw [← getOutputs_normOuts op hs base (.tuple cols)]
  congr 1
  unfold normOuts
  simp only [outputsOf]
  rcases hk : op.outKeys with _ | ⟨k, rest⟩
  · rfl
  · by_cases hself : k.isSelf = true
    · cases rest with
      | nil =>
        have : cols.length = 1 := by rw [hl, hk]; rfl
        simp [hself, this]
      | cons k' rest' =>
        have := hs k k' rest' hk
        rw [this] at hself; cases hself
    · simp [hself]

/-- **operator-level refinement for `apply` / `select` with batch sizes** -/
theorem opIterate_batched_spec (ignore : Bool) (op : Op) (src : List (Ev Val))
    (h : BatchedOK ignore op op.s0 src) :
    (Impl.opIterate ignore op src).evs.map (·.ev) = Ref.opEventsB ignore op op.s0 src := by
  have hin : op.fnBatch ≠ 0 → op.inKeys.length ≠ 0 := fun hf => by have := (h.inputs hf).1; omega
  have hout : op.batch ≠ 0 → op.outKeys.length ≠ 0 := fun _ => by have := h.nout; omega
  have hb : op.batch ≠ 0 := by have := h.batch; omega
  have hcols : ∀ cols ∈ (Ref.batchedCols ignore op op.s0 src).1, cols.length = op.outKeys.length := by
    unfold Ref.batchedCols
    exact regroup_length h.batch h.nout _ h.outputs
  have hmain : cutTerminal ignore (mapEv (fun outs => liftErr (getOutputs op .null outs))
        (iterEv ignore op (cutTerminal ignore src))) = Ref.opEventsB ignore op op.s0 src := by
    rw [iterEv_spec ignore op src h, mapEv_unobserve]
    unfold Ref.opEventsB
    congr 2
    apply List.map_congr_left
    intro cols hc
    rw [getOutputs_cols op h.selfAlone h.nout .null cols (hcols cols hc)]
  unfold Impl.opIterate
  rcases h.kind with hk | hk <;>
    simp only [hk, aCut_ev, aMap_ev, iterate_ev ignore op hin hout, hmain]

/-! ## chains that mix batched and un-batched operators -/

/-- what the refinement assumes of one operator of a chain, given the stream it receives: an
operator without batch sizes as before (`OpOK`, clean source); an `apply` / `select` with batch
sizes `BatchedOK`.  (`assign` with batch sizes is excluded: findings F-C08-assign-rebatch, F5.) -/
def OpOKG (ignore : Bool) (op : Op) (src : List (Ev Val)) : Prop :=
  if op.fnBatch = 0 ∧ op.batch = 0 then OpOK op ∧ Ref.Clean ignore src
  else BatchedOK ignore op op.s0 src

def RunOKG (ignore : Bool) : List Op → List (Ev Val) → Prop
  | [], _ => True
  | op :: ops, src => OpOKG ignore op src ∧ RunOKG ignore ops (Ref.opEventsG ignore op op.s0 src)

theorem opIterateG_spec (ignore : Bool) (op : Op) (src : List (Ev Val)) (h : OpOKG ignore op src) :
    (Impl.opIterate ignore op src).evs.map (·.ev) = Ref.opEventsG ignore op op.s0 src := by
  unfold OpOKG at h
  unfold Ref.opEventsG
  by_cases hu : op.fnBatch = 0 ∧ op.batch = 0
  · simp only [hu, and_self, if_true] at h ⊢
    exact opIterate_spec ignore op h.1 src h.2
  · simp only [hu, if_false] at h ⊢
    exact opIterate_batched_spec ignore op src h

theorem topEventsG_spec (ignore : Bool) (ops : List Op) (src : List (Ev Val))
    (h : RunOKG ignore ops src) :
    Impl.topEvents ignore ops src = Ref.chainEventsG ignore ops src := by
  induction ops generalizing src with
  | nil => rfl
  | cons op ops ih =>
    simp only [Impl.topEvents, Ref.chainEventsG, opIterateG_spec ignore op src h.1]
    exact ih _ h.2

/-- on chains without batch sizes the generalised reference is the old one -/
theorem chainEventsG_unbatched (ignore : Bool) (ops : List Op)
    (hu : ∀ op ∈ ops, op.fnBatch = 0 ∧ op.batch = 0) (src : List (Ev Val)) :
    Ref.chainEventsG ignore ops src = Ref.chainEvents ignore ops src := by
  induction ops generalizing src with
  | nil => rfl
  | cons op ops ih =>
    have h1 := hu op (List.mem_cons_self ..)
    simp only [Ref.chainEventsG, Ref.chainEvents, Ref.opEventsG, h1, and_self, if_true]
    exact ih (fun o ho => hu o (List.mem_cons_of_mem _ ho)) _

theorem runOKG_of_cleanRun (ignore : Bool) (ops : List Op) (hops : ∀ op ∈ ops, OpOK op)
    (src : List (Ev Val)) (hc : Ref.CleanRun ignore ops src) : RunOKG ignore ops src := by
  induction ops generalizing src with
  | nil => trivial
  | cons op ops ih =>
    have hop := hops op (List.mem_cons_self ..)
    refine ⟨?_, ?_⟩
    · unfold OpOKG; simp only [hop.unbatched, and_self, if_true]; exact ⟨hop, hc.1⟩
    · simp only [Ref.opEventsG, hop.unbatched, and_self, if_true]
      exact ih (fun o ho => hops o (List.mem_cons_of_mem _ ho)) _ hc.2

/-- with skipping off an error can only be the last event of the reference run -/
theorem chainEventsG_false_errLast (ops : List Op) (src : List (Ev Val)) :
    ErrLast (Ref.chainEventsG false ops src) := by
  induction ops generalizing src with
  | nil => exact cutTerminal_false_errLast src
  | cons op ops ih => exact ih _

/-! ## the Boolean side conditions (driver, non-vacuity examples) are sound -/

theorem rectB_sound (nc : Nat) (vs : List (List Val)) (h : Ref.rectB nc vs = true) :
    Rebatch.WF nc (vs.map Ref.asBatch) := by
  intro b hb
  simp only [List.mem_map] at hb
  obtain ⟨cols, hc, rfl⟩ := hb
  have h1 := (List.all_eq_true.mp h) cols hc
  simp only [Bool.and_eq_true, beq_iff_eq, List.all_eq_true] at h1
  obtain ⟨hlen, hall⟩ := h1
  refine ⟨by simp [Ref.asBatch, hlen], ?_⟩
  intro c hc'
  simp only [Ref.asBatch, List.mem_map] at hc'
  obtain ⟨v, hv, rfl⟩ := hc'
  obtain ⟨hk, hr⟩ := hall v hv
  constructor
  · cases v <;> simp_all [Ref.asCol]
  · have hn : Rebatch.nrows (cols.map Ref.asCol) = (Ref.asCol (cols.headD .none)).rows.length := by
      cases cols with
      | nil => simp at hv
      | cons a as => simp [Rebatch.nrows]
    show _ = Rebatch.nrows (cols.map Ref.asCol)
    rw [hn]; exact hr

theorem cleanLB_sound {α : Type} (ignore : Bool) (evs : List (Ev α))
    (h : Ref.cleanLB ignore evs = true) : CleanL ignore evs := by
  intro e he
  have := (List.all_eq_true.mp h) _ he
  simpa using this

theorem batchedOKB_sound (ignore : Bool) (op : Op) (s : Nat) (src : List (Ev Val))
    (hk : op.kind = .select ∨ op.kind = .apply) (hs : SelfAlone op)
    (h : Ref.batchedOKB ignore op s src = true) : BatchedOK ignore op s src := by
  simp only [Ref.batchedOKB, Bool.and_eq_true, decide_eq_true_eq, Bool.or_eq_true, beq_iff_eq] at h
  obtain ⟨⟨⟨⟨_, hb⟩, hn⟩, hin⟩, hout⟩ := h
  refine ⟨hk, hs, hb, hn, ?_, ?_, rectB_sound _ _ hout⟩
  · intro hf
    rcases hin with hin | hin
    · exact absurd hin hf
    · exact cleanLB_sound ignore _ hin.1.1
  · intro hf
    rcases hin with hin | hin
    · exact absurd hin hf
    · exact ⟨hin.1.2, rectB_sound _ _ hin.2⟩

end MlModel.Pipe
