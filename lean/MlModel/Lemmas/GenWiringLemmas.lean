import MlModel.Lemmas.GenWiring
/-!
# Lemmas about the interpreted wiring tables (`Lemmas/GenWiring.lean` over `Generated/Wiring.lean`)
used by `Properties/C07/GeneratedWiring.lean` and `Properties/C11/GeneratedCm.lean`.
-/
set_option linter.unusedSimpArgs false
namespace MlModel.GenWiring
open MlModel.Generated MlModel.Generated.Wiring MlModel.Agg.Confusion

/-- a function of the standard shape IS the hand model's `oneShot` on the configuration its `metrics` keyword denotes -/
theorem evalWrapper_std (sqrt : Rat → Rat) (w : Wrapper) (ms : Src) (h : StdWrapper w ms) (a : RawCfg)
    (b : Batch) (names : List String) (single : Bool)
    (hinit : ∀ r, evalInit r initTree = constructWrapper r)
    (hver : ∀ r b, evalVerify r b verifyTree = verifyInput r b)
    (hms : evalSrc (rawEnv a) noEnv ms = some (.metrics names single)) :
    evalWrapper sqrt w a b = oneShot sqrt { a with metrics := names, single := single } b := by
  obtain ⟨hv, hc, hk, ha⟩ := h
  cases a with
  | mk metrics sg posLabel inputType average vocab kList =>
    simp only [evalWrapper, hv, hc, hk, ha, kwRaw, List.foldlM, hms, evalSrc, rawEnv, setKw, Option.bind,
      initDefault, noEnv]
    simp [oneShot, hver, hinit, bind, Except.bind, verifyInput, labelsFor]

theorem avg_roundtrip (a : Average) : Average.ofValue? a.value = some a := by cases a <;> rfl

theorem constructCM_input (r : RawCfg) (c0 : Cfg) (h : constructCM r = .ok c0) :
    c0.input = InputType.ofValue? r.inputType := by
  unfold constructCM at h
  cases hi : InputType.ofValue? r.inputType with
  | none =>
    simp only [hi, bind, Except.bind, pure, Except.pure, throw, throwThe, MonadExceptOf.throw] at h
    split at h <;> simp at h
  | some it =>
    simp only [hi, bind, Except.bind, pure, Except.pure, throw, throwThe, MonadExceptOf.throw] at h
    split at h
    · cases h
    · split at h
      · split at h
        · cases h
        · split at h
          · cases h
          · split at h
            · cases h
            · cases h; rfl
      · cases h

theorem entries_keys {K V : Type} (f : K → Except ErrKind V) :
    ∀ (ms : List K) (kv : List (K × V)), getResultEntries f ms = .ok kv → kv.map Prod.fst = ms := by
  intro ms
  induction ms with
  | nil => intro kv h; simp [getResultEntries, pure, Except.pure] at h; subst h; rfl
  | cons m ms ih =>
    intro kv h
    unfold getResultEntries at h ih
    rw [List.mapM_cons] at h
    generalize hr : List.mapM (fun metric => do let v ← f metric; pure (metric, v)) ms = res at h ih
    cases hv : f m with
    | error e => simp [hv, bind, Except.bind] at h
    | ok v =>
      cases res with
      | error e => simp [hv, bind, Except.bind, pure, Except.pure] at h
      | ok rest =>
        simp [hv, bind, Except.bind, pure, Except.pure] at h
        subst h
        simp [ih rest rfl]

end MlModel.GenWiring
