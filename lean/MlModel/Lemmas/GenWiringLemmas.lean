import MlModel.Lemmas.GenWiring
/-!
# Lemmas about the interpreted wiring tables (`Lemmas/GenWiring.lean` over `Generated/Wiring.lean`)
used by `Properties/C07/GeneratedWiring.lean` and `Properties/C11/GeneratedCm.lean`.
-/
set_option linter.unusedSimpArgs false
namespace MlModel.GenWiring
open MlModel.Generated MlModel.Generated.Wiring MlModel.Agg.Confusion

/-- a function of the standard shape IS the hand model's `oneShot` on the configuration its `metrics` keyword denotes -/
theorem evalWrapper_std (sqrt : Rat → Rat) (w : Wrapper) (ms : Src) (h : StdWrapper w ms) (a : RawCfg)
    (b : Batch) (names : List String) (single : Bool)
    (hinit : ∀ r, evalInit r initTree = constructWrapper r)
    (hver : ∀ r b, evalVerify r b verifyTree = verifyInput r b)
    (hms : evalSrc (rawEnv a) noEnv ms = some (.metrics names single)) :
    evalWrapper sqrt w a b = oneShot sqrt { a with metrics := names, single := single } b := by
  obtain ⟨hv, hc, hk, ha⟩ := h
  cases a with
  | mk metrics sg posLabel inputType average vocab kList =>
    simp only [evalWrapper, hv, hc, hk, ha, kwRaw, List.foldlM, hms, evalSrc, rawEnv, setKw, Option.bind,
      initDefault, noEnv]
    simp [oneShot, hver, hinit, bind, Except.bind, verifyInput, labelsFor]

theorem avg_roundtrip (a : Average) : Average.ofValue? a.value = some a := by cases a <;> rfl

theorem constructCM_input (r : RawCfg) (c0 : Cfg) (h : constructCM r = .ok c0) :
    c0.input = InputType.ofValue? r.inputType := by
  unfold constructCM at h
  cases hi : InputType.ofValue? r.inputType with
  | none =>
    simp only [hi, bind, Except.bind, pure, Except.pure, throw, throwThe, MonadExceptOf.throw] at h
    split at h <;> simp at h
  | some it =>
    simp only [hi, bind, Except.bind, pure, Except.pure, throw, throwThe, MonadExceptOf.throw] at h
    split at h
    · cases h
    · split at h
      · split at h
        · cases h
        · split at h
          · cases h
          · split at h
            · cases h
            · cases h; rfl
      · cases h

theorem entries_keys {K V : Type} (f : K → Except ErrKind V) :
    ∀ (ms : List K) (kv : List (K × V)), getResultEntries f ms = .ok kv → kv.map Prod.fst = ms := by
  intro ms
  induction ms with
  | nil => intro kv h; simp [getResultEntries, pure, Except.pure] at h; subst h; rfl
  | cons m ms ih =>
    intro kv h
    unfold getResultEntries at h ih
    rw [List.mapM_cons] at h
    generalize hr : List.mapM (fun metric => do let v ← f metric; pure (metric, v)) ms = res at h ih
    cases hv : f m with
    | error e => simp [hv, bind, Except.bind] at h
    | ok v =>
      cases res with
      | error e => simp [hv, bind, Except.bind, pure, Except.pure] at h
      | ok rest =>
        simp [hv, bind, Except.bind, pure, Except.pure] at h
        subst h
        simp [ih rest rfl]

/-! ## confusion-matrix state -/

/-- a `_ConfusionMatrix` with 0-d counts -/
def ofCM (x : CM Int) : CMArr := { tp := .s x.tp, tn := .s x.tn, fp := .s x.fp, fn := .s x.fn }

/-- a `_ConfusionMatrix` with 1-d counts: one cell per class / per k -/
def ofCMs (xs : List (CM Int)) : CMArr :=
  { tp := .v (xs.map (·.tp)), tn := .v (xs.map (·.tn)), fp := .v (xs.map (·.fp)), fn := .v (xs.map (·.fn)) }

theorem evalGuard_mergeGuard (c : Cfg) : evalGuard c mergeGuard
    = if (c.average == .weighted || c.average == .macro) && c.vocab.isNone then .error .value else .ok () := by
  cases c with
  | mk kind metrics single posLabel input average vocab kList =>
    cases average <;> cases vocab <;>
      simp [mergeGuard, evalGuard, evalCond, evalSrc, cfgEnv, Average.value, isNone, errOf, Option.bind]

/-- what the translated loop computes, as a fold over the states that are not `None` -/
theorem mergeFold_fst {S : Type} (iadd : S → S → Except ErrKind S) (states : List (Option S)) :
    ∀ (i : Nat) (res : Option S) (tk : List Take),
      Prod.fst <$> mergeFold iadd states i (res, tk)
        = match res with
          | none => (match states.filterMap id with
            | [] => .ok none
            | s :: rest => some <$> rest.foldlM iadd s)
          | some r => some <$> (states.filterMap id).foldlM iadd r := by
  induction states with
  | nil => intro i res tk; cases res <;> simp [mergeFold, Functor.map, Except.map, pure, Except.pure]
  | cons st rest ih =>
    intro i res tk
    cases st with
    | none =>
      simp only [mergeFold, Wiring.mergeStep, bind, Except.bind, pure, Except.pure, List.append_nil,
        List.filterMap_cons_none, id]
      exact ih (i + 1) res tk
    | some s =>
      cases res with
      | none =>
        simp only [mergeFold, Wiring.mergeStep, bind, Except.bind, pure, Except.pure]
        rw [ih]
        simp
      | some r =>
        simp only [mergeFold, Wiring.mergeStep, bind, Except.bind, pure, Except.pure, Functor.map, Except.map]
        cases hr : iadd r s with
        | error e => simp [hr, List.foldlM, bind, Except.bind]
        | ok r' =>
          simp only [hr]
          have := ih (i + 1) (some r') (tk ++ [])
          simp only [Functor.map, Except.map] at this
          rw [this]
          simp [List.foldlM, bind, Except.bind, hr]

/-- after the first position the translated loop never takes a state by reference -/
theorem mergeFold_alias_later {S : Type} (iadd : S → S → Except ErrKind S) (states : List (Option S)) :
    ∀ (i : Nat) (res : Option S) (tk : List Take) (r : Option S) (takes : List Take), 0 < i →
      mergeFold iadd states i (res, tk) = .ok (r, takes) → Take.alias ∈ takes → Take.alias ∈ tk := by
  induction states with
  | nil =>
    intro i res tk r takes _ h ha
    simp [mergeFold] at h
    rw [h.2]; exact ha
  | cons st rest ih =>
    intro i res tk r takes hi h ha
    cases st with
    | none =>
      simp only [mergeFold, Wiring.mergeStep, bind, Except.bind, pure, Except.pure, List.append_nil] at h
      exact ih (i + 1) res tk r takes (Nat.succ_pos _) h ha
    | some s =>
      cases res with
      | none =>
        simp only [mergeFold, Wiring.mergeStep, bind, Except.bind, pure, Except.pure] at h
        have hne : i ≠ 0 := Nat.pos_iff_ne_zero.mp hi
        simp only [hne, if_false] at h
        have := ih (i + 1) (some s) (tk ++ [Take.copy]) r takes (Nat.succ_pos _) h ha
        simpa using this
      | some r0 =>
        simp only [mergeFold, Wiring.mergeStep, bind, Except.bind, pure, Except.pure, Functor.map, Except.map] at h
        cases hr : iadd r0 s with
        | error e => simp [hr] at h
        | ok r' =>
          simp only [hr, List.append_nil] at h
          exact ih (i + 1) (some r') tk r takes (Nat.succ_pos _) h ha

theorem mergeFold_alias_first {S : Type} (iadd : S → S → Except ErrKind S)
    (states : List (Option S)) (r : Option S) (takes : List Take)
    (h : mergeFold iadd states 0 (none, []) = .ok (r, takes)) (ha : Take.alias ∈ takes) :
    ∃ s, states.head? = some (some s) := by
  cases states with
  | nil => simp [mergeFold] at h; rw [h.2] at ha; cases ha
  | cons st rest =>
    cases st with
    | some s => exact ⟨s, rfl⟩
    | none =>
      simp only [mergeFold, Wiring.mergeStep, bind, Except.bind, pure, Except.pure, List.append_nil] at h
      have := mergeFold_alias_later iadd rest 1 none [] r takes (Nat.succ_pos _) h ha
      cases this

/-- a comprehension whose values cannot fail is a `map` -/
theorem entries_pure {K V : Type} (f : K → V) (ms : List K) :
    samplewiseResultEntries (m := Except ErrKind) (fun k => pure (f k)) ms = .ok (ms.map fun k => (k, f k)) := by
  induction ms with
  | nil => rfl
  | cons k ks ih =>
    unfold samplewiseResultEntries at ih ⊢
    rw [List.mapM_cons, ih]
    rfl

end MlModel.GenWiring
