import MlModel.Model.PrefetchClient
/-!
# The client loop at value level: any split of the stream into replies gives the same result
-/
namespace MlModel.PrefetchClient

theorem stepElem_raised {ne : Exc → Bool} {st : Client} (h : st.raised.isSome = true) (v : Val) :
    stepElem ne st v = st := by
  simp [stepElem, h]

theorem interp_raised {ne : Exc → Bool} (xs : List Val) {st : Client} (h : st.raised.isSome = true) :
    interpBatch ne st xs = st := by
  induction xs with
  | nil => rfl
  | cons v rest ih => simp only [interpBatch, List.foldl_cons, stepElem_raised h]; exact ih

theorem interp_append (ne : Exc → Bool) (st : Client) (xs ys : List Val) :
    interpBatch ne st (xs ++ ys) = interpBatch ne (interpBatch ne st xs) ys := by
  simp [interpBatch, List.foldl_append]

theorem live_raised {st : Client} (h : st.live = true) : st.raised = none := by
  simp only [Client.live, Bool.and_eq_true, Bool.not_eq_true', Option.isNone_iff_eq_none] at h
  exact h.2

/-- elements that are not exception instances are yielded, in order, and nothing else happens -/
theorem interp_plains (ne : Exc → Bool) : ∀ (xs : List Val) (st : Client), st.raised = none →
    (∀ v ∈ xs, v.isPlain = true) → interpBatch ne st xs = { st with yielded := st.yielded ++ xs }
  | [], st, _, _ => by simp [interpBatch]
  | v :: rest, st, hr, hp => by
    have hv : v.isPlain = true := hp v (List.mem_cons_self)
    cases v with
    | exc e => cases hv
    | plain s =>
      have h1 : stepElem ne st (.plain s) = { st with yielded := st.yielded ++ [.plain s] } := by
        simp [stepElem, hr]
      have := interp_plains ne rest { st with yielded := st.yielded ++ [.plain s] } hr
        (fun w hw => hp w (List.mem_cons_of_mem _ hw))
      simp only [interpBatch, List.foldl_cons, h1] at this ⊢
      rw [this]; simp

theorem runClient_not_live (ne : Exc → Bool) {st : Client} (h : st.live = false) (bs : List (List Val)) :
    runClient ne st bs = st := by
  cases bs with
  | nil => rfl
  | cons b rest => simp [runClient, h]

/-- a stream of non-exception elements followed by ONE marker that ends the loop: however the stream is cut into
replies (empty replies included), the client ends in the state the marker produces after all the elements -/
theorem run_marker (ne : Exc → Bool) (m : Exc)
    (hend : ∀ st : Client, st.raised = none → (stepElem ne st (.exc m)).live = false) :
    ∀ (bs : List (List Val)) (xs : List Val) (st : Client), st.live = true → (∀ v ∈ xs, v.isPlain = true) →
      bs.flatten = xs ++ [.exc m] →
      runClient ne st bs = stepElem ne { st with yielded := st.yielded ++ xs } (.exc m)
  | [], xs, st, _, _, hf => by simp at hf
  | b :: rest, xs, st, hl, hp, hf => by
    have hr := live_raised hl
    simp only [List.flatten_cons] at hf
    simp only [runClient, hl, if_true]
    rcases List.append_eq_append_iff.mp hf with ⟨a', hxs, hrest⟩ | ⟨c', hb, hc⟩
    · -- the reply holds elements only
      subst hxs
      have hb : ∀ v ∈ b, v.isPlain = true := fun v hv => hp v (List.mem_append_left _ hv)
      rw [interp_plains ne b st hr hb]
      have := run_marker ne m hend rest a' { st with yielded := st.yielded ++ b }
        (by simpa [Client.live] using hl) (fun v hv => hp v (List.mem_append_right _ hv)) hrest
      rw [this]; simp [List.append_assoc]
    · rcases List.append_eq_singleton_iff.mp hc.symm with ⟨h1, h2⟩ | ⟨h1, h2⟩
      · -- the marker comes in a later reply
        subst h1
        simp only [List.append_nil] at hb
        subst hb
        rw [interp_plains ne b st hr hp]
        have := run_marker ne m hend rest [] { st with yielded := st.yielded ++ b }
          (by simpa [Client.live] using hl) (by simp) (by simpa using h2)
        rw [this]; simp
      · -- this reply ends with the marker
        subst h1
        subst hb
        rw [interp_append, interp_plains ne xs st hr hp]
        have h3 : interpBatch ne { st with yielded := st.yielded ++ xs } [.exc m] =
            stepElem ne { st with yielded := st.yielded ++ xs } (.exc m) := rfl
        rw [h3]
        exact runClient_not_live ne (hend { st with yielded := st.yielded ++ xs } hr) rest

theorem chunks_flatten (b : Nat) : ∀ (fuel : Nat) (ys : List Val), ys.length ≤ fuel → (chunks b fuel ys).flatten = ys
  | 0, ys, h => by
    have : ys = [] := List.length_eq_zero_iff.mp (Nat.le_zero.mp h)
    subst this; simp [chunks]
  | fuel + 1, [], _ => by simp [chunks]
  | fuel + 1, y :: ys, h => by
    have hk : 1 ≤ max b 1 := Nat.le_max_right _ _
    have hlen : ((y :: ys).drop (max b 1)).length ≤ fuel := by
      rw [List.length_drop]; simp only [List.length_cons] at h ⊢; omega
    simp only [chunks, List.flatten_cons, chunks_flatten b fuel _ hlen, List.take_append_drop]

/-- the replies of the server, concatenated, are the generator's elements followed by ONE terminal marker -/
theorem replies_flatten (b : Nat) (attach : Bool) (ys : List Val) (fin : Fin) :
    (replies b attach ys fin).flatten = ys ++ [.exc (serverMarker fin)] := by
  have hc := chunks_flatten b (ys.length + 1) ys (Nat.le_succ _)
  unfold replies
  generalize chunks b (ys.length + 1) ys = cs at hc
  simp only
  cases hl : cs.getLast? with
  | none =>
    have : cs = [] := List.getLast?_eq_none_iff.mp hl
    subst this
    simp at hc
    subst hc
    simp
  | some last =>
    have hne : cs ≠ [] := by intro h; subst h; simp at hl
    have hd : cs.dropLast ++ [last] = cs := by
      have h1 := List.dropLast_concat_getLast hne
      have h2 : cs.getLast hne = last := by
        rw [List.getLast?_eq_some_getLast hne] at hl; exact Option.some.inj hl
      rw [h2] at h1; exact h1
    have hfl : cs.dropLast.flatten ++ last = ys := by
      have h2 := congrArg List.flatten hd
      simpa [hc] using h2
    simp only
    split
    · rw [List.flatten_append]
      simp only [List.flatten_cons, List.flatten_nil, List.append_nil]
      rw [← List.append_assoc, hfl]
    · rw [List.flatten_append, hc]; simp

end MlModel.PrefetchClient
