import MlModel.Model.Agg.CmStateMS
import MlModel.Lemmas.AggHeapMS
/-!
# The n-ary loops = the left fold of the binary call = `Sys.mergeStates` (work package SC11)

* generic: `Sys.mergeInto` on distinct existing accumulators is the Python loop
  `for state in iter_states: result.merge(state)` run on the listed OBJECTS (`foldMerge`): same heap,
  the first slot rebound to the receiver's final record, every other slot untouched;
* `ConfusionMatrixAggFn.merge_states` (`SH.mergeStatesN`, its own loop with `None` states and the
  deep copy) is the left fold of the two-state call, hence what `Sys.mergeStates` computes.
-/
namespace MlModel.Agg.Heap

variable {C B : Type}

/-- `for state in states: result.merge(state)` on object records -/
def foldMerge (cls : HClass C B) (p : Heap C × cls.Obj) (os : List cls.Obj) : Heap C × cls.Obj :=
  os.foldl (fun p o => cls.merge p.1 p.2 o) p

theorem mergeInto_eq_foldMerge {cls : HClass C B} (i : Nat) (js : List Nat) :
    ∀ (σ : Sys cls) (s : cls.Obj), σ.objs[i]? = some s →
      (∀ j ∈ js, j ≠ i ∧ j < σ.objs.length) →
      σ.mergeInto i js =
        ⟨(foldMerge cls (σ.heap, s) (js.map fun j => (σ.objs[j]?).getD s)).1,
         σ.objs.set i (foldMerge cls (σ.heap, s) (js.map fun j => (σ.objs[j]?).getD s)).2⟩ := by
  induction js with
  | nil =>
    intro σ s hi _
    have hlt := lt_of_getElem?_some hi
    have : σ.objs.set i s = σ.objs := by
      apply List.ext_getElem?; intro k
      by_cases hk : k = i
      · subst hk; rw [List.getElem?_set_self hlt, hi]
      · rw [List.getElem?_set_ne (Ne.symm hk)]
    simp only [Sys.mergeInto, List.foldl_nil, List.map_nil, foldMerge, this]
  | cons j js ih =>
    intro σ s hi hjs
    obtain ⟨hji, hjl⟩ := hjs j List.mem_cons_self
    have hlt := lt_of_getElem?_some hi
    obtain ⟨o, ho⟩ : ∃ o, σ.objs[j]? = some o := ⟨σ.objs[j], List.getElem?_eq_getElem hjl⟩
    have hstep : σ.step (.merge i j) =
        ⟨(cls.merge σ.heap s o).1, σ.objs.set i (cls.merge σ.heap s o).2⟩ := by
      simp only [Sys.step, if_neg (Ne.symm hji), hi, ho]
    have hunf : σ.mergeInto i (j :: js) = (σ.step (.merge i j)).mergeInto i js := rfl
    rw [hunf, hstep]
    have hi1 : (σ.objs.set i (cls.merge σ.heap s o).2)[i]? = some (cls.merge σ.heap s o).2 := by
      rw [List.getElem?_set_self hlt]
    have hrest : ∀ j' ∈ js, j' ≠ i ∧ j' < (σ.objs.set i (cls.merge σ.heap s o).2).length := fun j' hm => by
      obtain ⟨a, b⟩ := hjs j' (List.mem_cons_of_mem _ hm)
      exact ⟨a, by rw [List.length_set]; exact b⟩
    rw [ih ⟨(cls.merge σ.heap s o).1, σ.objs.set i (cls.merge σ.heap s o).2⟩ _ hi1 hrest]
    have hmap : (js.map fun j' => ((σ.objs.set i (cls.merge σ.heap s o).2)[j']?).getD (cls.merge σ.heap s o).2)
        = js.map fun j' => (σ.objs[j']?).getD s := by
      apply List.map_congr_left
      intro j' hm
      obtain ⟨a, b⟩ := hjs j' (List.mem_cons_of_mem _ hm)
      rw [List.getElem?_set_ne (Ne.symm a), List.getElem?_eq_getElem b]
      rfl
    simp only [hmap, List.set_set, List.map_cons, ho, Option.getD_some, foldMerge, List.foldl_cons]

end MlModel.Agg.Heap

namespace MlModel.Agg.Confusion.SH
open MlModel.Agg.Heap

/-- the two-state call folded over the remaining states -/
def foldBinary (p : Heap Cell × St) (rest : List St) : Heap Cell × St :=
  rest.foldl (fun p o => mergeStates true p.1 p.2 o) p

theorem foldBinary_cons (p : Heap Cell × St) (o : St) (rest : List St) :
    foldBinary p (o :: rest) = foldBinary (mergeStates true p.1 p.2 o) rest := rfl

theorem mergeLoop_succ (rest : List St) :
    ∀ (h : Heap Cell) (result : St) (i : Nat), mergeLoop h result (i + 1) rest = foldBinary (h, result) rest := by
  induction rest with
  | nil => intro h result i; rfl
  | cons o rest ih =>
    intro h result i
    rw [foldBinary_cons]
    cases o with
    | none =>
      rw [mergeLoop, ih]
      cases result <;> rfl
    | some a =>
      cases result with
      | none =>
        rw [mergeLoop]
        simp only [Nat.add_one_ne_zero, if_false]
        rw [ih]; rfl
      | some r =>
        rw [mergeLoop, ih]; rfl

/-- **the loop over n states is the left fold of the two-state call into the first state** -/
theorem mergeStatesN_cons (h : Heap Cell) (s : St) (rest : List St) :
    mergeStatesN h (s :: rest) = foldBinary (h, s) rest := by
  cases s with
  | none =>
    rw [mergeStatesN, mergeLoop]
    exact mergeLoop_succ rest h none 0
  | some a =>
    rw [mergeStatesN, mergeLoop]
    simp only [if_true]
    exact mergeLoop_succ rest h (some a) 0

theorem mergeStatesN_nil (h : Heap Cell) : mergeStatesN h [] = (h, none) := rfl

end MlModel.Agg.Confusion.SH
