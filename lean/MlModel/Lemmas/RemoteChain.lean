import MlModel.Lemmas.RemoteBasic
import MlModel.Lemmas.LazyFresh
import MlModel.Lemmas.LazyCached
/-! A chain of attr / item / call links traced over a handle and made by the evaluator equals the same
chain applied to the object the handle denotes by ordinary evaluation. -/
namespace MlModel.Remote
open MlModel MlModel.Lazy
set_option linter.unusedSimpArgs false
set_option linter.unusedVariables false

/-- the values written into a link are handle-free (a handle among them would be dereferenced by the
server: `_maybe_make(arg)`) -/
def Link.noHandle : Link → Bool
  | .attr _ => true
  | .item k => k.leafAll noHandleP
  | .call args kw => args.all (·.leafAll noHandleP) && kw.all (·.2.leafAll noHandleP)

/-- `applyLib` looks at the identities of its arguments only to compute the identity of its result. -/
theorem applyLib_strip (name : String) (args args' : List RVal) (kw kw' : List (String × RVal)) (w : World)
    (ha : args.map (·.1) = args'.map (·.1))
    (hk : kw.map (fun p => (p.1, p.2.1)) = kw'.map (fun p => (p.1, p.2.1))) :
    strip (applyLib name args kw w) = strip (applyLib name args' kw' w) := by
  unfold strip applyLib
  simp only [ha, hk]
  cases (libVal name (args'.map (·.1)) (kw'.map (fun p => (p.1, p.2.1))) w.counter).1 with
  | error e => rfl
  | ok v =>
    simp only
    split
    · rfl
    · split
      · rfl
      · split <;> rfl

theorem evalArgs_cons_ok {a : Expr} {as : List Expr} {s s1 s2 : St} {v : RVal} {vs : List RVal}
    (h1 : eval a s = (.ok v, s1)) (h2 : evalArgs as s1 = (.ok vs, s2)) :
    evalArgs (a :: as) s = (.ok (v :: vs), s2) := by
  simp only [evalArgs]
  rw [bind_ok h1, bind_ok h2]
  rfl

theorem evalArgs_const (vs : List Val) (h : ∀ v ∈ vs, v.leafAll noHandleP = true) (s : St) :
    evalArgs (constArgs vs) s = (.ok (vs.map (fun a => (a, 0))), s) := by
  induction vs with
  | nil => rfl
  | cons v rest ih =>
    have hv := h v (by simp)
    have h1 : eval (.const v) s = (.ok (v, 0), s) := by
      simp only [eval]
      rw [makeVal_not_handle (r := (v, 0)) (leafAll_noHandle_ne hv)]; rfl
    have ih' := ih (fun a ha => h a (by simp [ha]))
    simp only [constArgs, List.map_cons, evalArgs] at ih' ⊢
    rw [bind_ok h1, bind_ok ih']
    rfl

theorem evalKw_const (kvs : List (String × Val)) (h : ∀ p ∈ kvs, p.2.leafAll noHandleP = true) (s : St) :
    evalKw (constKw kvs) s = (.ok (kvs.map (fun p => (p.1, (p.2, 0)))), s) := by
  induction kvs with
  | nil => rfl
  | cons p rest ih =>
    obtain ⟨k, v⟩ := p
    have hv := h (k, v) (by simp)
    have h1 : eval (.const v) s = (.ok (v, 0), s) := by
      simp only [eval]
      rw [makeVal_not_handle (r := (v, 0)) (leafAll_noHandle_ne hv)]; rfl
    have ih' := ih (fun a ha => h a (by simp [ha]))
    simp only [constKw, List.map_cons, evalKw] at ih' ⊢
    rw [bind_ok h1, bind_ok ih']
    rfl

theorem eval_fnConst (name : String) (s : St) : eval (.const (.fn name)) s = (.ok (.fn name, 0), s) := by
  simp only [eval, makeVal]; rfl

/-- value of a successful link is again handle-free -/
theorem localLink_leafAll {v v' : Val} {l : Link} {w w' : World} (hv : v.leafAll noHandleP = true)
    (hl : l.noHandle = true) (h : localLink v l w = (.ok v', w')) : v'.leafAll noHandleP = true := by
  have key : ∀ (name : String) (args : List RVal) (kw : List (String × RVal)),
      (∀ a ∈ args, a.1.leafAll noHandleP = true) → (∀ q ∈ kw, q.2.1.leafAll noHandleP = true) →
      strip (applyLib name args kw w) = (.ok v', w') → v'.leafAll noHandleP = true := by
    intro name args kw ha hk hs
    cases hr : applyLib name args kw w with
    | mk r w2 =>
      rw [hr] at hs
      cases r with
      | error e => simp [strip, Except.map] at hs
      | ok rv =>
        simp only [strip, Except.map, Prod.mk.injEq, Except.ok.injEq] at hs
        have := applyLib_leafAll noHandleP ha hk hr
        rw [hs.1] at this
        exact this
  cases l with
  | attr n =>
    refine key "getattr" _ _ ?_ ?_ h
    · intro a ha
      simp only [List.mem_cons, List.mem_nil_iff, or_false] at ha
      rcases ha with rfl | rfl
      · exact hv
      · rfl
    · intro q hq; cases hq
  | item k =>
    simp only [Link.noHandle] at hl
    refine key "getitem" _ _ ?_ ?_ h
    · intro a ha
      simp only [List.mem_cons, List.mem_nil_iff, or_false] at ha
      rcases ha with rfl | rfl
      · exact hv
      · exact hl
    · intro q hq; cases hq
  | call args kw =>
    simp only [Link.noHandle, Bool.and_eq_true, List.all_eq_true] at hl
    cases v with
    | fn name =>
      simp only [localLink] at h
      refine key name _ _ ?_ ?_ h
      · intro a ha
        obtain ⟨b, hb, rfl⟩ := List.mem_map.mp ha
        exact hl.1 b hb
      · intro q hq
        obtain ⟨b, hb, rfl⟩ := List.mem_map.mp hq
        exact hl.2 b hb
    | _ => simp [localLink] at h

/-- One link: if the traced expression `x` evaluates to the handle-free value `v` (leaving state `s1`),
the expression with one more link evaluates like the link applied to `v` in the world of `s1`. -/
theorem eval_applyLink (x : Expr) (l : Link) (s s1 : St) (v : Val) (r : Nat) (hx : x ≠ .const .none)
    (hv : v.leafAll noHandleP = true) (hl : l.noHandle = true) (h : eval x s = (.ok (v, r), s1)) :
    (eval (applyLink x l) s).1.map (·.1) = (localLink v l s1.w).1 ∧
    (eval (applyLink x l) s).2 = s1.withW (localLink v l s1.w).2 := by
  have hstr : ∀ n : String, eval (.const (.str n)) s1 = (.ok (.str n, 0), s1) := by
    intro n; simp only [eval, makeVal]; rfl
  -- the two builtin links share their shape
  have builtin : ∀ (name : String) (k : Val), k.leafAll noHandleP = true →
      (eval (.call (.const (.fn name)) [x, .const k] [] false false) s).1.map (·.1) =
        (strip (applyLib name [(v, 0), (k, 0)] [] s1.w)).1 ∧
      (eval (.call (.const (.fn name)) [x, .const k] [] false false) s).2 =
        s1.withW (strip (applyLib name [(v, 0), (k, 0)] [] s1.w)).2 := by
    intro name k hk
    have hk1 : eval (.const k) s1 = (.ok (k, 0), s1) := by
      simp only [eval]
      rw [makeVal_not_handle (r := (k, 0)) (leafAll_noHandle_ne hk)]; rfl
    have hargs : evalArgs [x, .const k] s = (.ok [(v, r), (k, 0)], s1) :=
      evalArgs_cons_ok h (evalArgs_cons_ok hk1 (s2 := s1) (vs := []) rfl)
    have happ := applyMake_fn noHandleP (fun _ => rfl) (name := name) (ref := 0)
      (args := [(v, r), (k, 0)]) (kw := [])
      (by intro a ha
          simp only [List.mem_cons, List.mem_nil_iff, or_false] at ha
          rcases ha with rfl | rfl
          · exact hv
          · exact hk)
      (by intro q hq; cases hq) s1
    have hs := applyLib_strip name [(v, r), (k, 0)] [(v, 0), (k, 0)] [] [] s1.w rfl rfl
    rw [eval_call]
    simp only [Bool.false_eq_true, if_false, callBody]
    have hne : (Expr.const (.fn name) = Expr.const .none) = False := by simp
    simp only [hne, if_false]
    rw [bind_ok (eval_fnConst name s)]
    simp only [Val.callable, Bool.not_true, Bool.false_eq_true, if_false]
    rw [bind_ok hargs]
    have hkw : evalKw [] s1 = (.ok [], s1) := rfl
    rw [bind_ok hkw]
    cases hr : applyLib name [(v, r), (k, 0)] [] s1.w with
    | mk res w2 =>
      rw [hr] at happ hs
      cases res with
      | error e =>
        rw [bind_err happ]
        rw [← hs]
        exact ⟨rfl, rfl⟩
      | ok rv =>
        rw [bind_ok happ]
        rw [← hs]
        exact ⟨rfl, rfl⟩
  cases l with
  | attr n => exact builtin "getattr" (.str n) rfl
  | item k =>
    simp only [Link.noHandle] at hl
    exact builtin "getitem" k hl
  | call args kw =>
    simp only [Link.noHandle, Bool.and_eq_true, List.all_eq_true] at hl
    simp only [applyLink]
    rw [eval_call]
    simp only [Bool.false_eq_true, if_false, callBody, hx]
    rw [bind_ok h]
    by_cases hfn : ∃ name, v = .fn name
    · obtain ⟨name, rfl⟩ := hfn
      simp only [Val.callable, Bool.not_true, Bool.false_eq_true, if_false]
      rw [bind_ok (evalArgs_const args hl.1 s1), bind_ok (evalKw_const kw hl.2 s1)]
      have happ := applyMake_fn noHandleP (fun _ => rfl) (name := name) (ref := r)
        (args := args.map (fun a => (a, 0))) (kw := kw.map (fun p => (p.1, (p.2, 0))))
        (by intro a ha
            obtain ⟨b, hb, rfl⟩ := List.mem_map.mp ha
            exact hl.1 b hb)
        (by intro q hq
            obtain ⟨b, hb, rfl⟩ := List.mem_map.mp hq
            exact hl.2 b hb) s1
      simp only [localLink]
      cases hr : applyLib name (args.map (fun a => (a, 0))) (kw.map (fun p => (p.1, (p.2, 0)))) s1.w with
      | mk res w2 =>
        rw [hr] at happ
        cases res with
        | error e => rw [bind_err happ]; exact ⟨rfl, rfl⟩
        | ok rv => rw [bind_ok happ]; exact ⟨rfl, rfl⟩
    · have hnc : v.callable = false := by
        cases v with
        | fn name => exact absurd ⟨name, rfl⟩ hfn
        | handle i => exact absurd rfl (leafAll_noHandle_ne hv i)
        | _ => rfl
      have hloc : localLink v (.call args kw) s1.w = (.error (.py .type), s1.w) := by
        cases v with
        | fn name => exact absurd ⟨name, rfl⟩ hfn
        | _ => rfl
      simp only [hnc, Bool.not_false, if_true, hloc]
      exact ⟨rfl, rfl⟩

theorem applyLink_ne_none (x : Expr) (l : Link) : applyLink x l ≠ .const .none := by
  cases l <;> simp [applyLink, Expr.getattr, Expr.getitem]

/-- an error of the traced prefix surfaces unchanged through every further link -/
theorem eval_applyLink_err (x : Expr) (l : Link) (s s1 : St) (e : Err) (hx : x ≠ .const .none)
    (h : eval x s = (.error e, s1)) : eval (applyLink x l) s = (.error e, s1) := by
  have builtin : ∀ (name : String) (k : Val),
      eval (.call (.const (.fn name)) [x, .const k] [] false false) s = (.error e, s1) := by
    intro name k
    rw [eval_call]
    simp only [Bool.false_eq_true, if_false, callBody]
    have hne : (Expr.const (.fn name) = Expr.const .none) = False := by simp
    simp only [hne, if_false]
    rw [bind_ok (eval_fnConst name s)]
    simp only [Val.callable, Bool.not_true, Bool.false_eq_true, if_false]
    have hargs : evalArgs [x, .const k] s = (.error e, s1) := by
      have : ∀ as : List Expr, evalArgs (x :: as) s = (.error e, s1) := by
        intro as
        simp only [evalArgs]
        rw [bind_err h]
      exact this _
    rw [bind_err hargs]
  cases l with
  | attr n => exact builtin "getattr" (.str n)
  | item k => exact builtin "getitem" k
  | call args kw =>
    simp only [applyLink]
    rw [eval_call]
    simp only [Bool.false_eq_true, if_false, callBody, hx]
    rw [bind_err h]

theorem eval_chain_err (ls : List Link) : ∀ (x : Expr) (s s1 : St) (e : Err), x ≠ .const .none →
    eval x s = (.error e, s1) → eval (chain x ls) s = (.error e, s1) := by
  induction ls with
  | nil => intro x s s1 e _ h; exact h
  | cons l rest ih =>
    intro x s s1 e hx h
    exact ih (applyLink x l) s s1 e (applyLink_ne_none x l) (eval_applyLink_err x l s s1 e hx h)

/-- The whole chain. -/
theorem eval_chain (ls : List Link) : ∀ (x : Expr) (s s1 : St) (v : Val) (r : Nat), x ≠ .const .none →
    v.leafAll noHandleP = true → (∀ l ∈ ls, l.noHandle = true) → eval x s = (.ok (v, r), s1) →
    (eval (chain x ls) s).1.map (·.1) = (localChain v ls s1.w).1 ∧
    (eval (chain x ls) s).2 = s1.withW (localChain v ls s1.w).2 := by
  induction ls with
  | nil =>
    intro x s s1 v r _ _ _ h
    simp only [chain, List.foldl_nil, localChain, h, Except.map, St.withW_self, and_self]
  | cons l rest ih =>
    intro x s s1 v r hx hv hls h
    have hl := hls l (by simp)
    have hrest : ∀ l' ∈ rest, l'.noHandle = true := fun l' h' => hls l' (by simp [h'])
    obtain ⟨h1, h2⟩ := eval_applyLink x l s s1 v r hx hv hl h
    have hchain : chain x (l :: rest) = chain (applyLink x l) rest := rfl
    rw [hchain]
    cases hloc : localLink v l s1.w with
    | mk res w' =>
      rw [hloc] at h1 h2
      cases hev : eval (applyLink x l) s with
      | mk res2 s2 =>
        rw [hev] at h1 h2
        simp only at h1 h2
        subst h2
        cases res with
        | error e =>
          cases res2 with
          | ok rv => simp [Except.map] at h1
          | error e2 =>
            simp only [Except.map, Except.error.injEq] at h1
            subst h1
            rw [eval_chain_err rest _ _ _ _ (applyLink_ne_none x l) hev]
            simp only [localChain, hloc, Except.map, and_self]
        | ok v' =>
          cases res2 with
          | error e2 => simp [Except.map] at h1
          | ok rv =>
            obtain ⟨v2, r2⟩ := rv
            simp only [Except.map, Except.ok.injEq] at h1
            subst h1
            have hv' := localLink_leafAll hv hl hloc
            have := ih (applyLink x l) s (s1.withW w') v2 r2 (applyLink_ne_none x l) hv' hrest hev
            simp only [St.withW_w, St.withW_withW] at this
            simp only [localChain, hloc]
            exact this

theorem localChain_leafAll (ls : List Link) : ∀ (v v' : Val) (w w' : World), v.leafAll noHandleP = true →
    (∀ l ∈ ls, l.noHandle = true) → localChain v ls w = (.ok v', w') → v'.leafAll noHandleP = true := by
  induction ls with
  | nil =>
    intro v v' w w' hv _ h
    simp only [localChain, Prod.mk.injEq, Except.ok.injEq] at h
    rw [← h.1]; exact hv
  | cons l rest ih =>
    intro v v' w w' hv hls h
    simp only [localChain] at h
    cases hloc : localLink v l w with
    | mk res w2 =>
      rw [hloc] at h
      cases res with
      | error e => simp at h
      | ok v2 =>
        simp only at h
        exact ih v2 v' w2 w' (localLink_leafAll hv (hls l (by simp)) hloc)
          (fun l' h' => hls l' (by simp [h'])) h

/-- no link carries a result flag, so tracing a chain never fails -/
theorem badFlags_const_args (vs : List Val) : Expr.badFlagsL (constArgs vs) = false := by
  induction vs with
  | nil => rfl
  | cons v rest ih => simp only [constArgs, List.map_cons, Expr.badFlagsL, Expr.badFlags, Bool.false_or] at ih ⊢; exact ih

theorem badFlags_const_kw (kvs : List (String × Val)) : Expr.badFlagsK (constKw kvs) = false := by
  induction kvs with
  | nil => rfl
  | cons p rest ih =>
    obtain ⟨k, v⟩ := p
    simp only [constKw, List.map_cons, Expr.badFlagsK, Expr.badFlags, Bool.false_or] at ih ⊢; exact ih

theorem badFlags_applyLink (x : Expr) (l : Link) : (applyLink x l).badFlags = x.badFlags := by
  cases l with
  | attr n => simp [applyLink, Expr.getattr, Expr.badFlags, Expr.badFlagsL, Expr.badFlagsK]
  | item k => simp [applyLink, Expr.getitem, Expr.badFlags, Expr.badFlagsL, Expr.badFlagsK]
  | call args kw => simp [applyLink, Expr.badFlags, badFlags_const_args, badFlags_const_kw]

theorem badFlags_chain (ls : List Link) : ∀ x : Expr, (chain x ls).badFlags = x.badFlags := by
  induction ls with
  | nil => intro x; rfl
  | cons l rest ih =>
    intro x
    have : chain x (l :: rest) = chain (applyLink x l) rest := rfl
    rw [this, ih, badFlags_applyLink]

/-- dereferencing a handle that is held: the stored object, only the cache's recency order moves -/
theorem objGet_found {id : Nat} {s : St} {rv : RVal} (h : Lru.find? s.obj.data id = some rv) :
    objGet id s = (.ok rv, { s with obj := (s.obj.getitem id).2 }) := by
  have hr := Lru.getitem_result s.obj id
  unfold objGet
  cases hg : s.obj.getitem id with
  | mk a c =>
    rw [hg] at hr
    simp only at hr
    rw [h] at hr
    subst hr
    rfl

end MlModel.Remote

namespace MlModel.Remote
open MlModel MlModel.Lazy
set_option linter.unusedSimpArgs false
set_option linter.unusedVariables false

theorem bind_ok_inv {α β : Type} {m : M α} {f : α → M β} {s s2 : St} {b : β}
    (h : (m >>= f) s = (.ok b, s2)) : ∃ a s1, m s = (.ok a, s1) ∧ f a s1 = (.ok b, s2) := by
  rw [bind_def] at h
  cases hm : m s with
  | mk r s1 =>
    rw [hm] at h
    cases r with
    | error e => simp at h
    | ok a => exact ⟨a, s1, rfl, h⟩

/-- An uncached call marked `lazy_result_` that succeeds returns a handle, and its id is fresh: not
below the id counter before the call, below the counter after it. -/
theorem eval_lazy_call_handle (f : Expr) (as : List Expr) (ks : List (String × Expr)) (s s' : St) (rv : RVal)
    (hg : Good s) (h : eval (.call f as ks false true) s = (.ok rv, s')) :
    ∃ id, rv.1 = .handle id ∧ s.nextId ≤ id ∧ id < s'.nextId := by
  rw [eval_call] at h
  simp only [Bool.false_eq_true, if_false, callBody, if_true] at h
  split at h
  · simp only [newHandle, Prod.mk.injEq, Except.ok.injEq] at h
    obtain ⟨h1, h2⟩ := h
    subst h1; subst h2
    exact ⟨s.nextId, rfl, Nat.le_refl _, Nat.lt_succ_self _⟩
  · obtain ⟨fv, s1, h1, h⟩ := bind_ok_inv h
    have p1 := pres_eval f s hg
    rw [h1] at p1
    split at h
    · simp at h
    · obtain ⟨avs, s2, h2, h⟩ := bind_ok_inv h
      have p2 := pres_evalArgs as s1 p1.1
      rw [h2] at p2
      obtain ⟨kvs, s3, h3, h⟩ := bind_ok_inv h
      have p3 := pres_evalKw ks s2 p2.1
      rw [h3] at p3
      obtain ⟨r, s4, h4, h⟩ := bind_ok_inv h
      have p4 := pres_applyMake fv avs kvs s3 p3.1
      rw [h4] at p4
      simp only [newHandle, Prod.mk.injEq, Except.ok.injEq] at h
      obtain ⟨h5, h6⟩ := h
      subst h5; subst h6
      refine ⟨s4.nextId, rfl, ?_, Nat.lt_succ_self _⟩
      exact Nat.le_trans p1.2.next (Nat.le_trans p2.2.next (Nat.le_trans p3.2.next p4.2.next))

end MlModel.Remote
