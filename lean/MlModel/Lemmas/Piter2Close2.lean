import MlModel.Lemmas.Piter2Close
/-!
# Two-queue LTS: what holds at the END of a run in which the OUTPUT queue neither failed nor was stopped

`End2 c`, an invariant of every reachable configuration:
* (`res`) the caller's `get_batch` about to raise `StopIteration` holds no partial result; finished, it holds none;
* while `Q2` has no recorded failure and no stop request (`Clean c.s2`):
  (`lost`) unless the caller stopped early, nothing taken out of `Q2` was dropped, (`qe`) `exhausted ⇒ queue empty`,
  (`pend`) a second-level task inside / past `_stop_enqueue` has seen the `StopIteration` of the input queue and holds no
  pending output of `iterator_fn`.
-/
namespace MlModel.Piter2
open MlModel.Queue

variable {F : Nat → Option (List Nat)}

structure End2 (c : Cfg) : Prop where
  res : ∀ t0, c.ths[0]? = some t0 → AXl t0.b ∧ (t0.b.pc = .done → t0.b.result = [])
  lost : Clean c.s2 → (∀ t0, c.ths[0]? = some t0 → t0.early = false) → c.s2.lost = []
  qe : Clean c.s2 → c.s2.exhausted = true → c.s2.q = []
  pend : Clean c.s2 → ∀ t ∈ c.ths, t.role = .l2 → (tRegion t.b.pc = true ∨ t.b.pc = .done) →
    t.pend = [] ∧ stopSeen t = true

theorem afterIter_noearly {c : Cfg} {pc : Pc} {s : Shared} {t : Th} (h : (afterIter c pc s t).2.early = false) :
    (afterIter c pc s t).1 = s ∧ (afterIter c pc s t).2.b = t.b ∧ t.early = false := by
  unfold afterIter at h ⊢
  (repeat' split) <;> (repeat' split at h) <;> simp_all

theorem afterIter_b (c : Cfg) (pc : Pc) (s : Shared) (t : Th) :
    (afterIter c pc s t).2.b = t.b ∨ ((afterIter c pc s t).2.b.pc = .mAcq ∧ (afterIter c pc s t).2.b.result = t.b.result) := by
  unfold afterIter
  (repeat' split) <;> first | exact .inl rfl | exact .inr ⟨rfl, rfl⟩

theorem beginIter_b (c : Cfg) (t : Th) :
    ((beginIter c t).b.pc = .mAcq ∨ (beginIter c t).b.pc = .bAcq) ∧ ((beginIter c t).early = false → t.early = false) := by
  unfold beginIter
  split <;> simp

theorem pastT_false_of {q : Queue.Thread} (h1 : tRegion q.pc = false) (h3 : q.pc ≠ .done) : pastT q = false := by
  unfold pastT
  cases hpc : q.pc <;> simp_all [tRegion]

theorem afterPull_clean {fwd : Bool} {tid : Tid} {s2 : Shared} {t : Th} (hpc : t.b.pc = .eNext)
    (hc : Clean (afterPull F fwd tid s2 t t.hand).1)
    (hreg : tRegion (afterPull F fwd tid s2 t t.hand).2.b.pc = true ∨ (afterPull F fwd tid s2 t t.hand).2.b.pc = .done) :
    (∃ r, t.hand = .stop r) ∧ (afterPull F fwd tid s2 t t.hand).2.pend = t.pend := by
  cases hh : t.hand with
  | stop r => exact ⟨⟨r, rfl⟩, by simp [afterPull]⟩
  | err e =>
    rw [hh] at hc
    simp [afterPull, failPull, Clean] at hc
  | item v =>
    rw [hh] at hc hreg
    simp only [afterPull] at hc hreg
    split at hc
    · simp [failPull, Clean] at hc
    · rename_i hF
      simp only [hF] at hreg
      simp [hpc, tRegion] at hreg
    · rename_i y ys hF
      simp only [hF] at hreg
      simp [tRegion] at hreg

/-- a step that leaves the output queue alone and changes neither `b`, `pend` nor the caller's `early` -/
theorem end2_local {c : Cfg} {tid : Tid} {t t' : Th} {s1' : Shared} {il : Option Tid} {ns : Nat} {ca : List Elem}
    (he : End2 c) (ht : c.ths[tid]? = some t) (hr : t'.role = t.role) (hb : t.role ≠ .l2 → t'.b = t.b)
    (hrole0 : tid = 0 → t.role = .cons)
    (hreg' : t.role = .l2 → (tRegion t'.b.pc = true ∨ t'.b.pc = .done) → (tRegion t.b.pc = true ∨ t.b.pc = .done))
    (hearly : t'.early = false → t.early = false) (hp : t.role = .l2 → t'.pend = t.pend)
    (hseen : t.role = .l2 → (tRegion t.b.pc = true ∨ t.b.pc = .done) → stopSeen t = true → stopSeen t' = true) :
    End2 { c with s1 := s1', ths := c.ths.set tid t', ilock := il, nsub := ns, cache := ca } := by
  have htm := List.mem_of_getElem? ht
  refine ⟨?_, ?_, he.qe, ?_⟩
  · intro t0 ht0
    rcases getElem?_set_cases ht ht0 with ⟨h00, rfl⟩ | ⟨-, h0⟩
    · rw [hb (by rw [hrole0 h00.symm]; simp)]; exact he.res t (by rw [h00]; exact ht)
    · exact he.res t0 h0
  · intro hc hne
    refine he.lost hc fun t0 ht0 => ?_
    by_cases h0 : tid = 0
    · subst h0
      rw [ht] at ht0; cases ht0
      have hlt : 0 < c.ths.length := (List.getElem?_eq_some_iff.mp ht).1
      exact hearly (hne t' (by simp [hlt]))
    · exact hne t0 (by
        show (c.ths.set tid t')[0]? = some t0
        rw [List.getElem?_set_ne h0]; exact ht0)
  · intro hc u hu hur hreg
    rcases List.mem_or_eq_of_mem_set hu with hu | rfl
    · exact he.pend hc u hu hur hreg
    · have hr1 : t.role = .l2 := by rw [← hr]; exact hur
      have hreg0 := hreg' hr1 hreg
      obtain ⟨h1, h2⟩ := he.pend hc t htm hr1 hreg0
      exact ⟨by rw [hp hr1]; exact h1, hseen hr1 hreg0 h2⟩

set_option maxHeartbeats 400000 in
theorem end2_step {c c' : Cfg} {tid : Tid} {alt : Bool} {lbl : String} (hg : Good c) (hl2 : L2Eq F c)
    (h : step F c tid alt = some (lbl, c')) (he : End2 c) : End2 c' := by
  have hi := hg.inv
  have hstk2 := (step_sticky h).2
  obtain ⟨t, ht, hsh⟩ := step_shape h
  have htm := List.mem_of_getElem? ht
  have hti := hi.ti t htm
  have hlt : tid < c.ths.length := (List.getElem?_eq_some_iff.mp ht).1
  -- generic: a `Queue.stepThread` step of `t.b` on the output queue
  have hqb : ∀ {l : String} {s2' : Shared} {b' : Queue.Thread} (t' : Th) (s2'' : Shared),
      stepThread c.s2 t.b tid alt = some (l, s2', b') → t'.role = t.role →
      (s2''.q = s2'.q ∧ s2''.exhausted = s2'.exhausted ∧ s2''.exc = s2'.exc ∧ s2''.stopRequested = s2'.stopRequested) →
      (t.role ≠ .l1) →
      (t.role = .cons → AXl t'.b ∧ (t'.b.pc = .done → t'.b.result = [])) →
      (Clean s2'' → (t.role = .cons → t'.early = false) → s2''.lost = s2'.lost ∧ (t.role = .cons → t.early = false)) →
      (Clean s2'' → t.role = .l2 → (tRegion t'.b.pc = true ∨ t'.b.pc = .done) → t'.pend = [] ∧ stopSeen t' = true) →
      End2 { c with s2 := s2'', ths := c.ths.set tid t' } := by
    intro l s2' b' t' s2'' hst hr hsame hnl1 hres hlost hpend
    have hq2 := q2_get ht
    have hpcv : (v2 t).pc = t.b.pc ∧ (v2 t).prog = t.b.prog := by
      cases hrole : t.role with
      | cons => rw [v2_cons hrole]; exact ⟨rfl, rfl⟩
      | l1 => exact absurd hrole hnl1
      | l2 => exact v2_l2_pc hrole
    have htokv : TOK (v2 t) := hg.live2.base.tok (v2 t) (List.mem_of_getElem? hq2)
    have htok : TOK t.b := by
      cases hrole : t.role with
      | cons => rw [v2_cons hrole] at htokv; exact htokv
      | l1 => exact absurd hrole hnl1
      | l2 => exact tok_of_v2 hrole htokv
    have hstk := sticky_of_stepThread hst
    have hcl : Clean s2'' → Clean c.s2 := by
      intro hc
      refine clean_of_sticky hstk ⟨?_, ?_⟩
      · rw [← hsame.2.2.1]; exact hc.1
      · rw [← hsame.2.2.2]; exact hc.2
    obtain ⟨c1, c2, c3, -⟩ := stepThread_close l s2' b' hst htok hi.to2
    refine ⟨?_, ?_, ?_, ?_⟩
    · intro t0 ht0
      rcases getElem?_set_cases ht ht0 with ⟨h00, rfl⟩ | ⟨-, h0⟩
      · exact hres ((hi.role0 tid t ht).mpr h00.symm)
      · exact he.res t0 h0
    · intro hc hne
      have hc0 := hcl hc
      show s2''.lost = []
      by_cases h0 : tid = 0
      · subst h0
        have hrc : t.role = .cons := (hi.role0 0 t ht).mpr rfl
        obtain ⟨e1, e2⟩ := hlost hc (fun _ => hne t' (by simp [hlt]))
        rw [e1, c3, he.lost hc0 (fun t0 ht0 => by rw [ht] at ht0; cases ht0; exact e2 hrc)]
        split
        · rename_i hb
          refine (he.res t ht).1 hb ?_
          cases hxe : t.b.x.isErr with
          | false => rfl
          | true =>
            exfalso
            have hxok := hg.live2.base.xok (v2 t) (List.mem_of_getElem? hq2)
            rw [v2_cons hrc] at hxok
            rcases hxok.2.2.1 (by rw [hb]) hxe with h | h
            · have h' : c.s2.exc.isSome = true := h
              rw [hc0.1] at h'; cases h'
            · have h' : c.s2.timeout = true := h
              rw [hi.to2] at h'; cases h'
        · rfl
      · have hrl : t.role = .l2 := by
          cases hrole : t.role with
          | cons => exact absurd ((hi.role0 tid t ht).mp hrole) h0
          | l1 => exact absurd hrole hnl1
          | l2 => rfl
        obtain ⟨e1, -⟩ := hlost hc (fun e => by rw [hrl] at e; cases e)
        have hne' : ∀ t0, c.ths[0]? = some t0 → t0.early = false := fun t0 ht0 =>
          hne t0 (by show (c.ths.set tid t')[0]? = some t0; rw [List.getElem?_set_ne h0]; exact ht0)
        rw [e1, c3, he.lost hc0 hne']
        split
        · rename_i hb
          have hk := htok.kind .batch (by rw [hb]; rfl)
          unfold TI at hti
          simp only [hrl] at hti
          rw [hti.1] at hk; cases hk
        · rfl
    · intro hc hex
      have hc0 := hcl hc
      show s2''.q = []
      rw [hsame.1]
      exact qe_step hg.live2 hq2 hpcv.1 hpcv.2 htok hi.to2 hst (he.qe hc0) hc0 (by rw [← hsame.2.1]; exact hex)
    · intro hc u hu hur hreg
      rcases List.mem_or_eq_of_mem_set hu with hu | rfl
      · exact he.pend (hcl hc) u hu hur hreg
      · exact hpend hc (by rw [← hr]; exact hur) hreg
  rcases hsh with ⟨hr, hsh⟩ | ⟨hr, hsh⟩ | ⟨hr, hsh⟩
  · -- the caller
    have nl2 : t.role ≠ .l2 := by rw [hr]; simp
    cases hsh with
    | loc t' ns hcpc hor hc' =>
      subst hc'
      have h0 : tid = 0 := (hi.role0 tid t ht).mp hr
      rcases hor with rfl | ⟨e1, e2, e3, e4, e5, e6⟩
      · -- `beginIter`
        have hb := beginIter_b c t
        refine ⟨?_, ?_, he.qe, ?_⟩
        · intro t0 ht0
          rcases getElem?_set_cases ht ht0 with ⟨-, rfl⟩ | ⟨hne, _⟩
          · refine ⟨axl_of_pc ?_, fun e => ?_⟩
            · rcases hb.1 with h | h <;> rw [h] <;> simp
            · rcases hb.1 with h | h <;> rw [h] at e <;> cases e
          · exact absurd h0.symm hne
        · intro hc hne
          refine he.lost hc fun t0 ht0 => ?_
          subst h0
          rw [ht] at ht0; cases ht0
          exact hb.2 (hne _ (by simp [hlt]))
        · intro hc u hu hur hreg
          rcases List.mem_or_eq_of_mem_set hu with hu | rfl
          · exact he.pend hc u hu hur hreg
          · rw [beginIter_role, hr] at hur; cases hur
      · exact end2_local (s1' := c.s1) (il := c.ilock) (ca := c.cache) he ht e6 (fun _ => e2) (fun _ => hr)
          (fun e => absurd e nl2) (fun e => by rw [← e3]; exact e) (fun e => absurd e nl2) (fun e => absurd e nl2)
    | iter l s2' b' hcpc hst hc' =>
      subst hc'
      have htokb : TOK t.b := by
        have := hg.live2.base.tok (v2 t) (List.mem_of_getElem? (q2_get ht))
        rw [v2_cons hr] at this; exact this
      obtain ⟨-, -, -, -, c5, -, c7, -⟩ := stepThread_close l s2' b' hst htokb hi.to2
      refine hqb _ _ hst (afterIter_role _ _ _ _) ?_ (by rw [hr]; simp) (fun _ => ?_) (fun hc hne => ?_)
        (fun _ e => absurd e nl2)
      · rcases afterIter_fst c t.b.pc s2' { t with b := b' } with h | ⟨ex, h⟩ <;> rw [h] <;> exact ⟨rfl, rfl, rfl, rfl⟩
      · rcases afterIter_b c t.b.pc s2' { t with b := b' } with h | ⟨h1, h2⟩
        · rw [h]; exact ⟨c5, c7⟩
        · exact ⟨axl_of_pc (by rw [h1]; simp), fun e => by rw [h1] at e; cases e⟩
      · obtain ⟨e1, -, e3⟩ := afterIter_noearly (hne hr)
        exact ⟨by rw [e1], fun _ => e3⟩
    | stopping l s2' b' t' hcpc hst hor hc' =>
      subst hc'
      have htokb : TOK t.b := by
        have := hg.live2.base.tok (v2 t) (List.mem_of_getElem? (q2_get ht))
        rw [v2_cons hr] at this; exact this
      obtain ⟨-, -, -, -, c5, -, c7, -⟩ := stepThread_close l s2' b' hst htokb hi.to2
      refine hqb t' s2' hst ?_ ⟨rfl, rfl, rfl, rfl⟩ (by rw [hr]; simp) (fun _ => ?_) (fun hc hne => ⟨rfl, fun _ => ?_⟩)
        (fun _ e => absurd e nl2)
      · rcases hor with rfl | rfl | rfl <;> rfl
      · rcases hor with rfl | rfl | rfl <;> exact ⟨c5, c7⟩
      · have := hne hr
        rcases hor with rfl | rfl | rfl <;> exact this
    | upstop l s1' a' hcpc hst hc' =>
      subst hc'
      exact end2_local (il := c.ilock) (ns := c.nsub) (ca := c.cache) he ht rfl (fun _ => rfl) (fun _ => hr)
        (fun e => absurd e nl2) (fun e => e) (fun _ => rfl) (fun e => absurd e nl2)
  · -- first level: the output queue is not touched
    have nl2 : t.role ≠ .l2 := by rw [hr]; simp
    have hrole0 : tid = 0 → t.role = .cons := fun e => (hi.role0 tid t ht).mpr e
    cases hsh with
    | stop hpc hsrc hc' =>
      subst hc'
      exact end2_local (s1' := c.s1) (il := c.ilock) (ns := c.nsub) (ca := c.cache) he ht rfl (fun _ => rfl) hrole0
        (fun e => absurd e nl2) (fun e => e) (fun _ => rfl) (fun e => absurd e nl2)
    | qa l s1' a' pulled' emitted' hne hst hc' =>
      subst hc'
      exact end2_local (il := c.ilock) (ns := c.nsub) (ca := c.cache) he ht rfl (fun _ => rfl) hrole0
        (fun e => absurd e nl2) (fun e => e) (fun _ => rfl) (fun e => absurd e nl2)
  · -- second level
    have ncons : t.role ≠ .cons := by rw [hr]; simp
    have hrole0 : tid = 0 → t.role = .cons := fun e => (hi.role0 tid t ht).mpr e
    have hn0 : tid ≠ 0 := fun e => ncons (hrole0 e)
    cases hsh with
    | start hpc hc' =>
      subst hc'
      exact end2_local (s1' := c.s1) (il := c.ilock) (ns := c.nsub) (ca := c.cache) he ht rfl (fun e => absurd hr e)
        hrole0 (fun _ e => by simp [tRegion] at e) (fun e => e) (fun _ => rfl) (fun _ _ e => e)
    | hit v rest hpc hx hlock hca hc' =>
      subst hc'
      exact end2_local (s1' := c.s1) (ns := c.nsub) he ht rfl (fun _ => rfl) hrole0 (fun _ e => e) (fun e => e)
        (fun _ => rfl) (fun _ _ e => e)
    | miss hpc hx hlock hca hc' =>
      subst hc'
      exact end2_local (s1' := c.s1) (ns := c.nsub) (ca := c.cache) he ht rfl (fun _ => rfl) hrole0 (fun _ e => e)
        (fun e => e) (fun _ => rfl) (fun _ e _ => by rw [hpc] at e; simp [tRegion] at e)
    | deq l s1' a' hpc hx hst hbe hc' =>
      subst hc'
      exact end2_local (il := c.ilock) (ns := c.nsub) (ca := c.cache) he ht rfl (fun _ => rfl) hrole0 (fun _ e => e)
        (fun e => e) (fun _ => rfl) (fun _ e _ => by rw [hpc] at e; simp [tRegion] at e)
    | deqEnd l s1' a' hd cache' hpc hx hst hbe hc' =>
      subst hc'
      exact end2_local (il := c.ilock) (ns := c.nsub) he ht rfl (fun _ => rfl) hrole0 (fun _ e => e)
        (fun e => e) (fun _ => rfl) (fun _ e _ => by rw [hpc] at e; simp [tRegion] at e)
    | up l s1' a' hpc hx hst hc' =>
      subst hc'
      refine end2_local (il := c.ilock) (ns := c.nsub) (ca := c.cache) he ht rfl (fun _ => rfl) hrole0 (fun _ e => e)
        (fun e => e) (fun _ => rfl) (fun _ _ hs => ?_)
      unfold TI at hti
      simp only [hr, hx] at hti
      rw [hti.2.2.2.2.2] at hs; cases hs
    | rel hpc hx hlock hc' =>
      subst hc'
      have hfst := afterPull_fst F c.fwd tid c.s2 t t.hand
      have hsame : (afterPull F c.fwd tid c.s2 t t.hand).1.q = c.s2.q ∧
          (afterPull F c.fwd tid c.s2 t t.hand).1.exhausted = c.s2.exhausted ∧
          (afterPull F c.fwd tid c.s2 t t.hand).1.lost = c.s2.lost := by
        rcases hfst with h | ⟨e, h⟩ <;> rw [h] <;> exact ⟨rfl, rfl, rfl⟩
      have hcl : Clean (afterPull F c.fwd tid c.s2 t t.hand).1 → Clean c.s2 := clean_of_sticky hstk2
      refine ⟨?_, ?_, ?_, ?_⟩
      · intro t0 ht0
        rcases getElem?_set_cases ht ht0 with ⟨h00, -⟩ | ⟨-, h0⟩
        · exact absurd h00.symm hn0
        · exact he.res t0 h0
      · intro hc hne
        show (afterPull F c.fwd tid c.s2 t t.hand).1.lost = []
        rw [hsame.2.2]
        exact he.lost (hcl hc) fun t0 ht0 => hne t0 (by
          show (c.ths.set tid _)[0]? = some t0
          rw [List.getElem?_set_ne hn0]; exact ht0)
      · intro hc hex
        show (afterPull F c.fwd tid c.s2 t t.hand).1.q = []
        rw [hsame.1]
        exact he.qe (hcl hc) (by rw [← hsame.2.1]; exact hex)
      · intro hc u hu hur hreg
        rcases List.mem_or_eq_of_mem_set hu with hu | rfl
        · exact he.pend (hcl hc) u hu hur hreg
        · obtain ⟨⟨r, hr'⟩, hp⟩ := afterPull_clean hpc hc hreg
          refine ⟨by rw [hp]; exact (hl2 t htm hr).1 hpc, ?_⟩
          unfold stopSeen
          rw [afterPull_a]
          unfold TI at hti
          simp only [hr, hx] at hti
          exact hti.2.2.2.mpr (by rw [hr']; trivial)
    | qb l s2' b' h1 h2 h3 hst hc' =>
      subst hc'
      have hxi := (l2_x_idle hr hti h2 h3).1
      have hq2 := q2_get ht
      have htok : TOK t.b := tok_of_v2 hr (hg.live2.base.tok (v2 t) (List.mem_of_getElem? hq2))
      have hkp : t.b.prog.kind = .producer := by unfold TI at hti; simp only [hr] at hti; exact hti.1
      obtain ⟨-, -, -, -, -, -, -, -, -, c10, -, -, -, c14⟩ := stepThread_close l s2' b' hst htok hi.to2
      refine hqb (postProd tid t s2' b') s2' hst (postProd_role _ _ _ _) ⟨rfl, rfl, rfl, rfl⟩ (by rw [hr]; simp)
        (fun e => absurd e ncons) (fun _ _ => ⟨rfl, fun e => absurd e ncons⟩) (fun hc _ hreg => ?_)
      have hc0 := clean_of_sticky (sticky_of_stepThread hst) hc
      obtain ⟨-, -, hpp⟩ := postProd_fields tid t s2' b'
      obtain ⟨-, hcases⟩ := postProd_spec tid t s2' b' hxi
      have hseen_same : stopSeen (postProd tid t s2' b') = stopSeen t := by
        rcases hcases with ⟨-, -, -, e⟩ | ⟨-, -, -, e⟩ | ⟨-, -, -, -, e⟩ | ⟨-, -, -, e, -⟩
        · unfold stopSeen; rw [e]
        · unfold stopSeen; rw [e]
        · exact stopSeen_stopperAt t t.a rfl e
        · unfold stopSeen; rw [e]
      rcases hpp with ⟨he1, -, eb, -⟩ | ⟨he1, y, ys, -, eb, -⟩ | ⟨hne, eb, ep⟩
      · rw [eb, he1] at hreg; simp [tRegion] at hreg
      · rw [eb] at hreg; simp [tRegion] at hreg
      · rw [eb] at hreg
        rw [ep, hseen_same]
        have hk : pcKind t.b.pc = some .producer := by rw [kind_of_tok htok h1 h3, hkp]
        by_cases hreg0 : tRegion t.b.pc = true
        · exact he.pend hc0 t htm hr (.inl hreg0)
        · exfalso
          rcases hreg with hreg | hreg
          · rcases (stepThread_out l s2' b' hst).1 hreg with ⟨g1, -⟩ | g1 | ⟨g1, -⟩
            · exact hreg0 g1
            · exact h2 g1
            · have := c14 g1 hi.ig2
              rw [hc.1] at this; cases this
          · rcases c10 hreg hk with g1 | g1
            · rw [g1] at hreg0; simp [tRegion] at hreg0
            · refine not_done_by_count hg.live2 hq2 ?_ ?_ g1 hc0
              · simp [isProd, (v2_l2_pc hr).2, hkp]
              · exact pastT_false_of (by rw [(v2_l2_pc hr).1]; simpa using hreg0) (by rw [(v2_l2_pc hr).1]; exact h3)

end MlModel.Piter2
