import MlModel.Lemmas.PrefetchStates
/-!
# Server-level locks: invariant `LkInv`, and the shape of a configuration without enabled step
-/
namespace MlModel.Prefetch
set_option linter.unusedSimpArgs false
set_option linter.unusedVariables false

/-- a lock whose owner changes as `LEff` says keeps "the owner is the thread inside the region" -/
theorem lock_step {c c' : Cfg} {tid : Queue.Tid} {t t' : Thread} (hk : Kind c c' tid t t')
    (ht : c.ths[tid]? = some t) {o o' : Option Queue.Tid} {holds : Thread → Bool} (hstart : ∀ u : Thread, u.pc = .start → holds u = false)
    (hl : LEff o o' (holds t) (holds t') tid)
    (hL : ∀ (j : Queue.Tid) (u : Thread), c.ths[j]? = some u → holds u = true → o = some j)
    (hO : ∀ (j : Queue.Tid), o = some j → ∃ u, c.ths[j]? = some u ∧ holds u = true) :
    (∀ (j : Queue.Tid) (u : Thread), c'.ths[j]? = some u → holds u = true → o' = some j) ∧
    (∀ (j : Queue.Tid), o' = some j → ∃ u, c'.ths[j]? = some u ∧ holds u = true) := by
  have hself := hk.get_self ht
  constructor
  · intro j u hu hh
    rcases hk.get_inv ht hu with ⟨rfl, rfl⟩ | ⟨hj, hu0⟩ | ⟨-, -, hpc, -⟩
    · cases h0 : holds t with
      | true => rw [hl.stay h0 hh]; exact hL _ t ht h0
      | false => exact (hl.enter h0 hh).2
    · have hown := hL j u hu0 hh
      cases h0 : holds t <;> cases h1 : holds t'
      · rw [hl.out h0 h1]; exact hown
      · rw [(hl.enter h0 h1).1] at hown; cases hown
      · rw [(hl.leave h0 h1).1] at hown; exact absurd (Option.some.inj hown).symm hj
      · rw [hl.stay h0 h1]; exact hown
    · rw [hstart u hpc] at hh; cases hh
  · intro j hj
    cases h0 : holds t <;> cases h1 : holds t'
    · rw [hl.out h0 h1] at hj
      obtain ⟨u, hu, hh⟩ := hO j hj
      have hne : j ≠ tid := by
        rintro rfl; rw [ht] at hu; rw [← Option.some.inj hu, h0] at hh; cases hh
      exact ⟨u, hk.get_other hne hu, hh⟩
    · rw [(hl.enter h0 h1).2] at hj; obtain rfl := Option.some.inj hj; exact ⟨t', hself, h1⟩
    · rw [(hl.leave h0 h1).2] at hj; cases hj
    · rw [hl.stay h0 h1, hL _ t ht h0] at hj; obtain rfl := Option.some.inj hj; exact ⟨t', hself, h1⟩

structure LkInv (c : Cfg) : Prop where
  shutL : ∀ (tid : Queue.Tid) (t : Thread), c.ths[tid]? = some t → holdsShut t.pc = true → c.sh.shutOwner = some tid
  shutO : ∀ (tid : Queue.Tid), c.sh.shutOwner = some tid → ∃ t, c.ths[tid]? = some t ∧ holdsShut t.pc = true
  txL : ∀ (tid : Queue.Tid) (t : Thread), c.ths[tid]? = some t → holdsTx t.pc = true → c.sh.txOwner = some tid
  txO : ∀ (tid : Queue.Tid), c.sh.txOwner = some tid → ∃ t, c.ths[tid]? = some t ∧ holdsTx t.pc = true
  /-- the server thread decides to wait only while no shutdown is requested, and holds the lock until it parks -/
  mw : ∀ (tid : Queue.Tid) (t : Thread), c.ths[tid]? = some t → t.pc = .mnWait → c.sh.shutdownRequested = false
  /-- a parked server thread is on one of the wait lists -/
  wl : ∀ (tid : Queue.Tid) (t : Thread), c.ths[tid]? = some t → t.pc = .mnWake →
    tid ∈ c.sh.shutWait ∨ tid ∈ c.sh.shutNotified
  /-- a shutdown request is never missed: whoever still waits un-notified has the requester's `notify_all` coming -/
  sd : c.sh.shutdownRequested = true → c.sh.shutWait ≠ [] →
    ∃ (o : Queue.Tid) (t : Thread), c.ths[o]? = some t ∧ t.pc = .sdNotify
  /-- a reply is on its way between the end of `get_batch` and the return -/
  rep : ∀ (tid : Queue.Tid) (t : Thread), c.ths[tid]? = some t → t.pc = .nbTxA ∨ t.pc = .nbTxR →
    t.reply.isSome = true

theorem lkinv_init (p : Nat) (progs : List Prog) : LkInv (init p progs) := by
  have hstart : ∀ (tid : Queue.Tid) (t : Thread), (init p progs).ths[tid]? = some t → t.pc = .start := by
    intro tid t ht
    cases tid with
    | zero => simp only [init, List.getElem?_cons_zero, Option.some.injEq] at ht; subst ht; rfl
    | succ n =>
      simp only [init, List.getElem?_cons_succ, List.getElem?_map, Option.map_eq_some_iff] at ht
      obtain ⟨p0, -, rfl⟩ := ht; rfl
  refine ⟨?_, ?_, ?_, ?_, ?_, ?_, ?_, ?_⟩
  · intro tid t ht hh; rw [hstart tid t ht] at hh; cases hh
  · intro tid h; simp [init] at h
  · intro tid t ht hh; rw [hstart tid t ht] at hh; cases hh
  · intro tid h; simp [init] at h
  · intro tid t ht hh; rw [hstart tid t ht] at hh; cases hh
  · intro tid t ht hh; rw [hstart tid t ht] at hh; cases hh
  · intro h; simp [init] at h
  · intro tid t ht hh; rw [hstart tid t ht] at hh; rcases hh with h | h <;> cases h

theorem lkinv_step {c c' : Cfg} {tid : Queue.Tid} {lbl : String} (hL : LkInv c)
    (h : step c tid = some (lbl, c')) : LkInv c' := by
  obtain ⟨t, ht⟩ := step_some_thread h
  obtain ⟨t', hk, -⟩ := step_eff ht h
  have hself := hk.get_self ht
  obtain ⟨hls, hlt, hw, hmw, hrep⟩ : LEff c.sh.shutOwner c'.sh.shutOwner (holdsShut t.pc) (holdsShut t'.pc) tid ∧
      LEff c.sh.txOwner c'.sh.txOwner (holdsTx t.pc) (holdsTx t'.pc) tid ∧ WEff c c' tid t t' ∧
      (t'.pc = .mnWait → c'.sh.shutdownRequested = false) ∧
      (t'.pc = .nbTxA ∨ t'.pc = .nbTxR → t'.reply.isSome = true ∨ (t.pc = .nbTxA ∧ t'.reply = t.reply)) := by
    obtain ⟨t'', h1, h2⟩ := step_leff ht h
    rw [hself] at h1
    cases h1
    exact h2
  obtain ⟨s1, s2⟩ := lock_step hk ht (holds := fun u => holdsShut u.pc) (fun u hu => by simp [hu, holdsShut]) hls hL.shutL hL.shutO
  obtain ⟨x1, x2⟩ := lock_step hk ht (holds := fun u => holdsTx u.pc) (fun u hu => by simp [hu, holdsTx]) hlt hL.txL hL.txO
  have hinv : ∀ (j : Queue.Tid) (u : Thread), c'.ths[j]? = some u →
      (j = tid ∧ u = t') ∨ (j ≠ tid ∧ c.ths[j]? = some u) ∨ u.pc = .start := by
    intro j u hu
    rcases hk.get_inv ht hu with h1 | h1 | ⟨-, -, h3, -⟩
    · exact Or.inl h1
    · exact Or.inr (Or.inl h1)
    · exact Or.inr (Or.inr h3)
  refine ⟨s1, s2, x1, x2, ?_, ?_, ?_, ?_⟩
  · -- mw
    intro j u hu hpc
    rcases hinv j u hu with ⟨rfl, rfl⟩ | ⟨hj, hu0⟩ | h3
    · exact hmw hpc
    · have hf := hL.mw j u hu0 hpc
      have hown := hL.shutL j u hu0 (by rw [hpc]; rfl)
      cases hw with
      | same _ _ hf' _ _ _ =>
        rcases hf' with hf' | ⟨a, b, -⟩
        · rw [hf']; exact hf
        · -- the requester would have taken the lock the waiting thread holds
          have := (hls.enter (by rw [a]; rfl) (by rw [b]; rfl)).1
          rw [this] at hown; cases hown
      | park _ _ hf' => rw [hf']; exact hf
      | wake _ _ hf' => rw [hf']; exact hf
      | notifyAll _ _ hf' => rw [hf']; exact hf
    · rw [h3] at hpc; cases hpc
  · -- wl
    intro j u hu hpc
    rcases hinv j u hu with ⟨rfl, rfl⟩ | ⟨hj, hu0⟩ | h3
    · cases hw with
      | same _ _ _ _ h2 => exact absurd hpc h2
      | park hw' => left; rw [hw']; simp
      | wake _ _ _ _ h2 => exact absurd hpc h2
      | notifyAll _ _ _ _ h2 => exact absurd hpc h2
    · have h0 := hL.wl j u hu0 hpc
      cases hw with
      | same hw' hn' => rw [hw', hn']; exact h0
      | park hw' hn' =>
        rw [hw', hn']
        rcases h0 with h0 | h0
        · exact Or.inl (List.mem_append_left _ h0)
        · exact Or.inr h0
      | wake hw' hn' =>
        rw [hw', hn']
        rcases h0 with h0 | h0
        · exact Or.inl h0
        · exact Or.inr ((List.mem_erase_of_ne hj).mpr h0)
      | notifyAll hw' hn' =>
        right; rw [hn']
        rcases h0 with h0 | h0
        · exact List.mem_append_right _ h0
        · exact List.mem_append_left _ h0
    · rw [h3] at hpc; cases hpc
  · -- sd
    intro hf hne
    have hkeep : ∀ (o : Queue.Tid) (u : Thread), c.ths[o]? = some u → u.pc = .sdNotify → t.pc ≠ .sdNotify →
        ∃ (o : Queue.Tid) (u : Thread), c'.ths[o]? = some u ∧ u.pc = .sdNotify := by
      intro o u hu hpc hnt
      have ho : o ≠ tid := by
        rintro rfl; rw [ht] at hu; rw [← Option.some.inj hu] at hpc; exact hnt hpc
      exact ⟨o, u, hk.get_other ho hu, hpc⟩
    cases hw with
    | same hw' _ hf' h1 _ _ =>
      rcases hf' with hf' | ⟨-, b, -⟩
      · rw [hf'] at hf; rw [hw'] at hne
        obtain ⟨o, u, hu, hpc⟩ := hL.sd hf hne
        exact hkeep o u hu hpc h1.2.2
      · exact ⟨tid, t', hself, b⟩
    | park _ _ hf' h1 =>
      rw [hf', hL.mw tid t ht h1] at hf; cases hf
    | wake hw' _ hf' h1 =>
      rw [hf'] at hf; rw [hw'] at hne
      obtain ⟨o, u, hu, hpc⟩ := hL.sd hf hne
      exact hkeep o u hu hpc (by rw [h1]; simp)
    | notifyAll hw' => exact absurd hw' hne
  · -- rep
    intro j u hu hpc
    rcases hinv j u hu with ⟨rfl, rfl⟩ | ⟨hj, hu0⟩ | h3
    · rcases hrep hpc with h1 | ⟨h1, h2⟩
      · exact h1
      · rw [h2]; exact hL.rep _ t ht (Or.inl h1)
    · exact hL.rep j u hu0 hpc
    · rw [h3] at hpc; rcases hpc with h | h <;> cases h

theorem lkinv_reachable {p : Nat} {progs : List Prog} {c : Cfg} (h : Reachable (init p progs) c) : LkInv c := by
  induction h with
  | init => exact lkinv_init p progs
  | step _ hs ih => exact lkinv_step ih hs

/-! ### `_states_lock` -/

structure StInv (c : Cfg) : Prop where
  /-- only server threads run `run_until_shutdown` -/
  pm : ∀ (tid : Queue.Tid) (t : Thread), c.ths[tid]? = some t → mnPc t.pc = true → t.prog = .main
  stL : ∀ (tid : Queue.Tid) (t : Thread), c.ths[tid]? = some t → holdsSt t = true → c.sh.stOwner = some tid
  stO : ∀ (tid : Queue.Tid), c.sh.stOwner = some tid → ∃ t, c.ths[tid]? = some t ∧ holdsSt t = true

theorem stinv_init (p : Nat) (progs : List Prog) : StInv (init p progs) := by
  have hstart : ∀ (tid : Queue.Tid) (t : Thread), (init p progs).ths[tid]? = some t → t.pc = .start := by
    intro tid t ht
    cases tid with
    | zero => simp only [init, List.getElem?_cons_zero, Option.some.injEq] at ht; subst ht; rfl
    | succ n =>
      simp only [init, List.getElem?_cons_succ, List.getElem?_map, Option.map_eq_some_iff] at ht
      obtain ⟨p0, -, rfl⟩ := ht; rfl
  refine ⟨?_, ?_, ?_⟩
  · intro tid t ht hh; rw [hstart tid t ht] at hh; cases hh
  · intro tid t ht hh; simp [holdsSt, hstart tid t ht] at hh
  · intro tid h; simp [init] at h

theorem stinv_step {c c' : Cfg} {tid : Queue.Tid} {lbl : String} (hT : StInv c)
    (h : step c tid = some (lbl, c')) : StInv c' := by
  obtain ⟨t, ht⟩ := step_some_thread h
  obtain ⟨t', hk, -⟩ := step_eff ht h
  have hself := hk.get_self ht
  obtain ⟨hpm', hls⟩ : (mnPc t'.pc = true → t'.prog = .main) ∧
      LEff c.sh.stOwner c'.sh.stOwner (holdsSt t) (holdsSt t') tid := by
    obtain ⟨t'', h1, h2⟩ := step_seff ht (hT.pm tid t ht) h
    rw [hself] at h1
    cases h1
    exact h2
  obtain ⟨s1, s2⟩ := lock_step hk ht (holds := holdsSt) (fun u hu => by simp [hu, holdsSt]) hls hT.stL hT.stO
  refine ⟨?_, s1, s2⟩
  intro j u hu hh
  rcases hk.get_inv ht hu with ⟨rfl, rfl⟩ | ⟨hj, hu0⟩ | ⟨-, -, h3, -⟩
  · exact hpm' hh
  · exact hT.pm j u hu0 hh
  · rw [h3] at hh; cases hh

theorem stinv_reachable {p : Nat} {progs : List Prog} {c : Cfg} (h : Reachable (init p progs) c) : StInv c := by
  induction h with
  | init => exact stinv_init p progs
  | step _ hs ih => exact stinv_step ih hs

/-! ### a configuration without enabled step -/

/-- what a thread that has not ended can be in a configuration without enabled step -/
inductive Blocked (c : Cfg) (tid : Queue.Tid) (t : Thread) : Prop where
  /-- the server thread, parked in `run_until_shutdown`: not notified, and nobody has requested a shutdown -/
  | idleMain (hpc : t.pc = .mnWake) (hn : tid ∉ c.sh.shutNotified) (hf : c.sh.shutdownRequested = false)
  /-- inside `get_batch` / `maybe_stop` / `enqueue_from_iterator` on the queue `t.g`, whose next queue-level
  operation is not enabled -/
  | inQueue (hpc : t.pc = .nbGet ∨ t.pc = .lkStop ∨ t.pc = .prod) (q : Queue.Shared)
      (hq : c.sh.qs[t.g]? = some q) (hst : Queue.stepThread q t.qt tid false = none)
  /-- in the join of a locked stop, the prefetch thread has not ended -/
  | inJoin (hpc : t.pc = .lkJoin) (p : Queue.Tid) (tp : Thread) (he : c.sh.enqThread = some p)
      (hp : c.ths[p]? = some tp) (hnd : tp.pc ≠ .done)
  /-- waiting for the generator lock, which is held by a request inside a locked stop (`maybe_stop` or the join) -/
  | forGen (hpc : t.pc = .lkAcq) (o : Queue.Tid) (u : Thread) (ho : c.sh.genOwner = some o)
      (hu : c.ths[o]? = some u) (hs : u.pc = .lkStop ∨ u.pc = .lkJoin)
  /-- a server thread waiting for `_states_lock`, held by another server thread that is inside its shutdown callback
  (only possible with more than one server thread) -/
  | forStates (hpc : t.pc = .mnStA) (o : Queue.Tid) (u : Thread) (ho : c.sh.stOwner = some o)
      (hu : c.ths[o]? = some u) (hs : u.pc = .lkAcq ∨ u.pc = .lkStop ∨ u.pc = .lkJoin)

theorem dead_shape {c : Cfg} (hG : GInv c) (hI : IInv c) (hU : UInv c) (hL : LkInv c) (hT : StInv c) (hdead : ∀ tid, step c tid = none)
    (tid : Queue.Tid) (t : Thread) (ht : c.ths[tid]? = some t) : t.pc = .done ∨ Blocked c tid t := by
  -- nobody holds `_tx_stats_lock`
  have htx : c.sh.txOwner = none := by
    cases ho : c.sh.txOwner with
    | none => rfl
    | some o =>
      exfalso
      obtain ⟨u, hu, hh⟩ := hL.txO o ho
      have hd := hdead o
      unfold step at hd
      simp only [hu] at hd
      cases hpc : u.pc <;> rw [hpc] at hh <;> simp only [holdsTx] at hh <;> try (cases hh)
      · simp [hpc, ho] at hd
      · have := hL.rep o u hu (Or.inr hpc)
        cases hr : u.reply with
        | none => rw [hr] at this; cases this
        | some r => simp [hpc, ho, hr] at hd
  -- nobody holds `_shutdown_lock`
  have hshut : c.sh.shutOwner = none := by
    cases ho : c.sh.shutOwner with
    | none => rfl
    | some o =>
      exfalso
      obtain ⟨u, hu, hh⟩ := hL.shutO o ho
      have hd := hdead o
      unfold step at hd
      simp only [hu] at hd
      cases hpc : u.pc <;> rw [hpc] at hh <;> simp only [holdsShut] at hh <;> (try (cases hh))
      case some.mnTxR.intro =>
        have := hL.txL o u hu (by rw [hpc]; rfl)
        rw [htx] at this; cases this
      case some.iiN2.intro =>
        simp only [hpc, ho] at hd
        (repeat' split at hd) <;> simp_all
      all_goals simp [hpc, ho, htx] at hd
  have hd := hdead tid
  unfold step at hd
  simp only [ht] at hd
  cases hpc : t.pc <;> simp only [hpc] at hd
  case done => exact Or.inl rfl
  case start => exfalso; cases hp : t.prog <;> simp [hp] at hd <;> (repeat' split at hd) <;> simp at hd
  case mnAcq => simp [hshut] at hd
  case mnWait =>
    have := hL.shutL tid t ht (by rw [hpc]; rfl)
    rw [hshut] at this; cases this
  case mnWake =>
    right
    have hn : tid ∉ c.sh.shutNotified := by
      intro hmem
      simp [hshut, hmem] at hd
    refine .idleMain hpc hn ?_
    cases hf : c.sh.shutdownRequested with
    | false => rfl
    | true =>
      exfalso
      have hw : tid ∈ c.sh.shutWait := by
        rcases hL.wl tid t ht hpc with h | h
        · exact h
        · exact absurd h hn
      obtain ⟨o, u, hu, hpu⟩ := hL.sd hf (by intro e; rw [e] at hw; cases hw)
      have := hL.shutL o u hu (by rw [hpu]; rfl)
      rw [hshut] at this; cases this
  case mnTxA => simp [htx] at hd
  case mnTxR =>
    have := hL.txL tid t ht (by rw [hpc]; rfl)
    rw [htx] at this; cases this
  case mnRel =>
    have := hL.shutL tid t ht (by rw [hpc]; rfl)
    rw [hshut] at this; cases this
  case mnStA =>
    right
    cases ho : c.sh.stOwner with
    | none => simp [ho] at hd
    | some o =>
      obtain ⟨u, hu, hh⟩ := hT.stO o ho
      have hgo : holdsGen u.pc = true → c.sh.genOwner = some o := hI.lock o u hu
      have hdo := hdead o
      unfold step at hdo
      simp only [hu] at hdo
      unfold holdsSt at hh
      cases hpu : u.pc <;> simp [hpu] at hh
      case some.lkAcq => exact .forStates hpc o u ho hu (Or.inl hpu)
      case some.lkStop => exact .forStates hpc o u ho hu (Or.inr (Or.inl hpu))
      case some.lkJoin => exact .forStates hpc o u ho hu (Or.inr (Or.inr hpu))
      case some.lkRel =>
        -- the owner of the generator lock can release it
        exfalso
        have := hgo (by rw [hpu]; rfl)
        simp [hpu, this, hh] at hdo
      case some.mnStR =>
        exfalso
        simp [hpu, ho] at hdo
  case mnStR =>
    exfalso
    have := hT.stL tid t ht (by simp [holdsSt, hpc])
    simp [this] at hd
  case lkAcq =>
    right
    cases ho : c.sh.genOwner with
    | none =>
      exfalso
      simp only [ho, Option.isSome_none, Bool.false_eq_true, ↓reduceIte] at hd
      cases hp : t.prog <;> simp only [hp] at hd <;> (repeat' split at hd) <;> simp at hd
    | some o =>
      obtain ⟨u, hu, hh⟩ := hI.owner o ho
      have hdo := hdead o
      unfold step at hdo
      simp only [hu] at hdo
      cases hpu : u.pc <;> rw [hpu] at hh <;> simp only [holdsGen] at hh <;> try (cases hh)
      · exact .forGen hpc o u ho hu (Or.inl hpu)
      · exact .forGen hpc o u ho hu (Or.inr hpu)
      · exfalso
        simp only [hpu, ho, bne_self_eq_false, Bool.false_eq_true, ↓reduceIte] at hdo
        cases hp : u.prog <;> simp only [hp] at hdo <;> (repeat' split at hdo) <;> simp at hdo
      · exfalso
        have h2 := (hI.spawnG o u hu hpu).2
        cases hg : gen? u.prog with
        | none => rw [hg] at h2; cases h2
        | some g => simp [hpu, hg] at hdo
  case lkStop =>
    right
    have hemb := (hG.ths tid t ht).emb
    simp only [EmbOK, hpc] at hemb
    obtain ⟨q, hq, -⟩ := hemb
    refine .inQueue (Or.inr (Or.inl hpc)) q hq ?_
    cases hst : Queue.stepThread q t.qt tid false with
    | none => rfl
    | some res =>
      exfalso
      obtain ⟨lbl0, q', qt'⟩ := res
      simp only [hq, hst] at hd
      (repeat' split at hd) <;> simp at hd
  case nbGet =>
    right
    have hemb := (hG.ths tid t ht).emb
    simp only [EmbOK, hpc] at hemb
    obtain ⟨q, hq, -⟩ := hemb
    refine .inQueue (Or.inl hpc) q hq ?_
    cases hst : Queue.stepThread q t.qt tid false with
    | none => rfl
    | some res =>
      exfalso
      obtain ⟨lbl0, q', qt'⟩ := res
      simp only [hq, hst] at hd
      (repeat' split at hd) <;> simp at hd
  case prod =>
    right
    have hemb := (hG.ths tid t ht).emb
    simp only [EmbOK, hpc] at hemb
    obtain ⟨q, hq, -⟩ := hemb
    refine .inQueue (Or.inr (Or.inr hpc)) q hq ?_
    cases hst : Queue.stepThread q t.qt tid false with
    | none => rfl
    | some res =>
      exfalso
      obtain ⟨lbl0, q', qt'⟩ := res
      simp only [hq, hst] at hd
      (repeat' split at hd) <;> simp at hd
  case lkJoin =>
    right
    -- the recorded prefetch thread exists: the join is on the current generator
    have hgen := hU.stopG tid t ht (Or.inr hpc)
    rcases hI.gen t.g hgen with ⟨p, tp, he, hp, -⟩ | ⟨w, tw, hw, hpw, -⟩
    · refine .inJoin hpc p tp he hp ?_
      intro hdn
      simp [he, hp, hdn] at hd
    · exfalso
      have a := hI.lock w tw hw (by rw [hpw]; rfl)
      have b := hI.lock tid t ht (by rw [hpc]; rfl)
      rw [a] at b
      obtain rfl := Option.some.inj b
      rw [ht] at hw; rw [← Option.some.inj hw, hpc] at hpw; cases hpw
  case lkRel =>
    exfalso
    have := hI.lock tid t ht (by rw [hpc]; rfl)
    simp only [this, bne_self_eq_false, Bool.false_eq_true, ↓reduceIte] at hd
    cases hp : t.prog <;> simp only [hp] at hd <;> (repeat' split at hd) <;> simp at hd
  case iiSpawn =>
    exfalso
    have h2 := (hI.spawnG tid t ht hpc).2
    cases hg : gen? t.prog with
    | none => rw [hg] at h2; cases h2
    | some g => simp [hg] at hd
  case iiN0 => simp [hshut] at hd
  case iiN1 =>
    have := hL.shutL tid t ht (by rw [hpc]; rfl)
    rw [hshut] at this; cases this
  case iiN2 =>
    have := hL.shutL tid t ht (by rw [hpc]; rfl)
    rw [hshut] at this; cases this
  case nbTxA => simp [htx] at hd
  case nbTxR =>
    have := hL.txL tid t ht (by rw [hpc]; rfl)
    rw [htx] at this; cases this
  case sdAcq => simp [hshut] at hd
  case sdNotify =>
    have := hL.shutL tid t ht (by rw [hpc]; rfl)
    rw [hshut] at this; cases this
  case sdRel =>
    have := hL.shutL tid t ht (by rw [hpc]; rfl)
    rw [hshut] at this; cases this

end MlModel.Prefetch
