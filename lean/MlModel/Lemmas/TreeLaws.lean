import MlModel.Lemmas.TreeStep
/-!
# get-after-set and frame for the copying `_set_by_path` (all heaps; no acyclicity needed)
-/
namespace MlModel.Tree

/-! ## `get` equations -/

def PKey.isPlain : PKey → Bool
  | .str _ | .idx _ | .int _ | .obj _ => true
  | _ => false

theorem PKey.isPlain_ne_self {k : PKey} (h : k.isPlain) : k ≠ .self := by cases k <;> simp_all [PKey.isPlain]
theorem PKey.isPlain_ne_skip {k : PKey} (h : k.isPlain) : k ≠ .skip := by cases k <;> simp_all [PKey.isPlain]

@[simp] theorem get_nil (h : Heap) (r : Ref) : get h r [] = .ok r := by simp [get, getCore, Except.map]
@[simp] theorem get_self (h : Heap) (r : Ref) (ks : Path) : get h r (.self :: ks) = .ok r := by
  simp [get, getCore, Except.map]
@[simp] theorem get_lit (h : Heap) (r : Ref) (id : Nat) (v : Ref) (ks : Path) :
    get h r (.lit id v :: ks) = .ok v := by simp [get, getCore, Except.map]

theorem get_cons {h : Heap} {r : Ref} {k : PKey} (ks : Path) (hk : k.isPlain ∨ k = .skip) :
    get h r (k :: ks) = match index h r k with
      | .ok c => get h c ks
      | .error e => .error e := by
  have h1 : k = .self → False := by rcases hk with hk | hk <;> intro e <;> subst e <;> simp [PKey.isPlain] at hk
  have h2 : ∀ id v, k = .lit id v → False := by
    rcases hk with hk | hk <;> intro id v e <;> subst e <;> simp [PKey.isPlain] at hk
  unfold get
  rw [getCore.eq_4 _ _ _ _ h1 h2]
  cases index h r k <;> rfl

theorem index_of_get {h : Heap} {r : Ref} {n : Node} (hn : h[r]? = some n) (k : PKey) :
    index h r k = n.slotGet k := by simp [index, hn]

/-- Paths for which "reading after setting returns the value set" is claimed: plain keys (`str`, `Index`,
`int`), optionally cut short by `SELF` (whatever follows `SELF` is ignored by both `get` and `set`). -/
def PlainSelf : Path → Prop
  | [] => True
  | .self :: _ => True
  | k :: rest => k.isPlain = true ∧ PlainSelf rest

/-! ## `_default_tree` -/

theorem defaultTree_step {h : Heap} {k : PKey} {rest : Path} {v : Ref} {h' : Heap} {t' : Ref}
    (hk : k.isPlain) (hs : defaultTree h (k :: rest) v = (h', .ok t')) :
    ∃ hc c n', defaultTree h rest v = (hc, .ok c) ∧ h' = hc.push n' ∧ t' = hc.size ∧
      n'.slotGet k = .ok c ∧
      (∀ k' : PKey, k'.NonNeg → k'.toDKey ≠ k.toDKey → ∀ x, n'.slotGet k' ≠ .ok x) := by
  cases k with
  | self => simp [PKey.isPlain] at hk
  | skip => simp [PKey.isPlain] at hk
  | lit id w => simp [PKey.isPlain] at hk
  | idx i =>
    rw [defaultTree] at hs
    split at hs
    · rename_i hi
      subst hi
      split at hs
      · rename_i h1 c he
        simp only [alloc, Prod.mk.injEq, Except.ok.injEq] at hs
        obtain ⟨rfl, rfl⟩ := hs
        refine ⟨h1, c, .list [c], he, rfl, rfl, by simp [Node.slotGet, seqGet, PKey.asInt, resolveIdx], ?_⟩
        intro k' hnn hne x
        cases hi' : k'.asInt with
        | none => simp [Node.slotGet, seqGet, hi']
        | some i' =>
          have h0 := hnn i' hi'
          have hne0 : i' ≠ 0 := by
            intro e; subst e; apply hne
            cases k' <;> simp_all [PKey.asInt, PKey.toDKey]
          have : ¬ i'.toNat < 1 := by omega
          simp [Node.slotGet, seqGet, hi', resolveIdx_nonneg h0, this]
      · cases hs
    · cases hs
  | str s =>
    rw [defaultTree.eq_5 _ _ _ _ (by simp) (by simp) (by simp)] at hs
    split at hs
    · rename_i h1 c he
      simp only [alloc, Prod.mk.injEq, Except.ok.injEq] at hs
      obtain ⟨rfl, rfl⟩ := hs
      refine ⟨h1, c, .dict [((PKey.str s).toDKey, c)], he, rfl, rfl, by simp [Node.slotGet, dictGet], ?_⟩
      intro k' _ hne x
      simp [Node.slotGet, dictGet, Ne.symm hne]
    · cases hs
  | int i =>
    rw [defaultTree.eq_5 _ _ _ _ (by simp) (by simp) (by simp)] at hs
    split at hs
    · rename_i h1 c he
      simp only [alloc, Prod.mk.injEq, Except.ok.injEq] at hs
      obtain ⟨rfl, rfl⟩ := hs
      refine ⟨h1, c, .dict [((PKey.int i).toDKey, c)], he, rfl, rfl, by simp [Node.slotGet, dictGet], ?_⟩
      intro k' _ hne x
      simp [Node.slotGet, dictGet, Ne.symm hne]
    · cases hs
  | obj i =>
    rw [defaultTree.eq_5 _ _ _ _ (by simp) (by simp) (by simp)] at hs
    split at hs
    · rename_i h1 c he
      simp only [alloc, Prod.mk.injEq, Except.ok.injEq] at hs
      obtain ⟨rfl, rfl⟩ := hs
      refine ⟨h1, c, .dict [((PKey.obj i).toDKey, c)], he, rfl, rfl, by simp [Node.slotGet, dictGet], ?_⟩
      intro k' _ hne x
      simp [Node.slotGet, dictGet, Ne.symm hne]
    · cases hs

theorem defaultTree_get_set : ∀ (p : Path) (h : Heap) (v : Ref) (h' : Heap) (t' : Ref),
    PlainSelf p → defaultTree h p v = (h', .ok t') →
    ∀ h'' : Heap, (∀ r, h.size ≤ r → r < h'.size → h''[r]? = h'[r]?) → get h'' t' p = .ok v := by
  intro p
  induction p with
  | nil =>
    intro h v h' t' _ hs h'' _
    simp [defaultTree] at hs; obtain ⟨_, rfl⟩ := hs; simp
  | cons k rest ih =>
    intro h v h' t' hp hs h'' hag
    by_cases hself : k = .self
    · subst hself
      simp [defaultTree] at hs; obtain ⟨_, rfl⟩ := hs; simp
    have hk : k.isPlain = true ∧ PlainSelf rest := by
      cases k <;> simp_all [PlainSelf]
    obtain ⟨hc, c, n', hrec, rfl, rfl, hslot, _⟩ := defaultTree_step hk.1 hs
    have hext : Extends h hc := by have := defaultTree_extends h rest v; rw [hrec] at this; exact this
    have hrest : get h'' c rest = .ok v := by
      apply ih h v hc c hk.2 hrec h''
      intro r hr1 hr2
      rw [hag r hr1 (by simp; omega), push_get_lt _ _ hr2]
    have hcell : h''[hc.size]? = some n' := by
      rw [hag _ hext.1 (by simp)]; exact push_get_size _ _
    rw [get_cons _ (Or.inl hk.1), index_of_get hcell, hslot]
    exact hrest

/-! ## get after set -/

/-- The reference-valued read `get h t p` never has to index **into** an ndarray: no object met with keys
still to go is an ndarray.  (Indexing into an ndarray creates a new object; such reads are `getV`, and
the get/set law for them is by value: `C18_nd_get_set`.) -/
def NoNd (h : Heap) : Ref → Path → Prop
  | _, [] => True
  | _, .self :: _ => True
  | t, k :: rest => (∀ b o s, h[t]? ≠ some (.nd b o s)) ∧ ∀ c, index h t k = .ok c → NoNd h c rest

theorem NoNd_cons {h : Heap} {t : Ref} {k : PKey} {rest : Path} (hk : k ≠ .self) :
    NoNd h t (k :: rest) ↔ ((∀ b o s, h[t]? ≠ some (.nd b o s)) ∧ ∀ c, index h t k = .ok c → NoNd h c rest) := by
  cases k <;> simp_all [NoNd]

theorem Node.slotPut_not_nd {n n' : Node} {k : PKey} {c : Ref} (hp : n.slotPut k c = some n') :
    ∀ b o s, n ≠ .nd b o s := by
  intro b o s e; subst e; simp [Node.slotPut] at hp

theorem Node.slotGet_not_nd {n : Node} {k : PKey} {c : Ref} (hg : n.slotGet k = .ok c) :
    ∀ b o s, n ≠ .nd b o s := by
  intro b o s e; subst e; simp [Node.slotGet] at hg

theorem setPath_get_set (strict : Bool) : ∀ (p : Path) (h : Heap) (t v : Ref) (h' : Heap) (t' : Ref),
    PlainSelf p → setPath strict false h t p v = (h', .ok t') →
    ∀ h'' : Heap, (∀ r, h.size ≤ r → r < h'.size → h''[r]? = h'[r]?) → NoNd h'' t' p → get h'' t' p = .ok v := by
  intro p
  induction p with
  | nil =>
    intro h t v h' t' _ hs h'' _ _
    simp [setPath] at hs; obtain ⟨_, rfl⟩ := hs; simp
  | cons k rest ih =>
    intro h t v h' t' hp hs h'' hag hnd
    by_cases hself : k = .self
    · subst hself
      simp [setPath] at hs; obtain ⟨_, rfl⟩ := hs; simp
    have hk : k.isPlain = true ∧ PlainSelf rest := by
      cases k <;> simp_all [PlainSelf]
    have hk1 := PKey.isPlain_ne_self hk.1
    have hk2 := PKey.isPlain_ne_skip hk.1
    cases hn : h[t]? with
    | none => rw [setPath.eq_4 _ _ _ _ _ _ _ hk1 hk2, hn] at hs; simp at hs
    | some n =>
      by_cases hnull : n = .null
      · subst hnull
        rw [setPath.eq_4 _ _ _ _ _ _ _ hk1 hk2, hn] at hs
        simp only at hs
        split at hs
        · simp at hs
        · exact defaultTree_get_set _ h v h' t' hp hs h'' hag
      · have hnd := (NoNd_cons hk1).mp hnd
        have hndn : ∀ b o s, n ≠ .nd b o s := by
          intro b o s e
          subst e
          obtain ⟨ht', hlt', hcell'⟩ := setPath_nd_result hk1 hk2 hn hs
          apply hnd.1 h.size 0 s
          rw [hag t' (by omega) (by omega), hcell']
        obtain ⟨hm, child, hc, c, n', hext, hlt, _, hrec, hput, hcell, htq, hmc, hch', hsame⟩ :=
          setPath_step hk1 hk2 hn hnull hndn hs
        have ht' : t' < h'.size := lt_size_of_get hcell
        have hcell'' : h''[t']? = some n' := by
          have : h.size ≤ t' := by rcases htq with e | e <;> rw [e] <;> omega
          rw [hag t' this ht']; exact hcell
        have hrest : get h'' c rest = .ok v := by
          apply ih hm child v hc c hk.2 hrec h''
          · intro r hr1 hr2
            rw [hag r (by omega) (by omega), hsame r hr2 (by omega)]
          · apply hnd.2 c
            rw [index_of_get hcell'', Node.slotGet_slotPut_same hput]
        rw [get_cons _ (Or.inl hk.1), index_of_get hcell'', Node.slotGet_slotPut_same hput]
        exact hrest

end MlModel.Tree

namespace MlModel.Tree

/-! ## regions: sets of cells closed under following references -/

/-- The *object references* stored in a cell (the children of a container).  An ndarray is a leaf of the
tree: its buffer is not a child object (it is named by `ndBuf`; that it exists is the invariant `NdOK`). -/
def Node.refs : Node → List Ref
  | .dict es => es.map (·.2)
  | .list rs => rs
  | .tuple rs => rs
  | _ => []

/-- `A` is a set of cells of `h` closed under following references. -/
structure Region (A : Ref → Prop) (h : Heap) : Prop where
  lt : ∀ r, A r → r < h.size
  closed : ∀ (r : Ref) (n : Node), A r → h[r]? = some n → ∀ c ∈ n.refs, A c

/-- No dangling references: every reference stored in a cell points into the heap. -/
def Closed (h : Heap) : Prop := ∀ (r : Ref) (n : Node), h[r]? = some n → ∀ c ∈ n.refs, c < h.size

theorem Closed.region {h : Heap} (hcl : Closed h) : Region (· < h.size) h :=
  ⟨fun _ hr => hr, fun r n _ hn c hcm => hcl r n hn c hcm⟩

theorem dictGet_mem {es : List (DKey × Ref)} {k : DKey} {c : Ref} (hg : dictGet es k = some c) :
    c ∈ es.map (·.2) := by
  induction es with
  | nil => simp [dictGet] at hg
  | cons e es ih =>
    obtain ⟨k0, v0⟩ := e
    by_cases hk : k0.norm = k.norm
    · simp [dictGet, hk] at hg; subst hg; simp
    · simp [dictGet, hk] at hg; simp [ih hg]

theorem seqGet_mem {rs : List Ref} {k : PKey} {c : Ref} (hg : seqGet rs k = .ok c) : c ∈ rs := by
  unfold seqGet at hg
  split at hg
  · cases hg
  · split at hg
    · rename_i _ i _ _ c' hb
      cases hg
      cases hr : resolveIdx rs.length i with
      | none => rw [hr] at hb; cases hb
      | some j =>
        rw [hr] at hb
        exact List.mem_of_getElem? hb
    · cases hg

theorem Node.slotGet_mem {n : Node} {k : PKey} {c : Ref} (hg : n.slotGet k = .ok c) : c ∈ n.refs := by
  cases n with
  | dict es =>
    simp only [Node.slotGet] at hg
    split at hg
    · rename_i c' hd; cases hg; exact dictGet_mem hd
    · cases hg
  | list rs => exact seqGet_mem hg
  | tuple rs => exact seqGet_mem hg
  | leaf v => simp [Node.slotGet] at hg
  | null => simp [Node.slotGet] at hg
  | nd _ _ _ => simp [Node.slotGet] at hg
  | buf _ => simp [Node.slotGet] at hg

/-- Reading from a cell of a region only looks at the region. -/
theorem getCore_agree {A : Ref → Prop} {h h'' : Heap} (hA : Region A h) (hag : ∀ r, A r → h''[r]? = h[r]?) :
    ∀ (q : Path) (d : Ref), A d → getCore h'' d q = getCore h d q := by
  intro q
  induction q with
  | nil => intro d _; simp [getCore]
  | cons k ks ih =>
    intro d hd
    by_cases h1 : k = .self
    · subst h1; simp [getCore]
    by_cases h2 : ∃ id v, k = .lit id v
    · obtain ⟨id, v, rfl⟩ := h2; simp [getCore]
    have h2' : ∀ id v, k = .lit id v → False := fun id v e => h2 ⟨id, v, e⟩
    rw [getCore.eq_4 _ _ _ _ h1 h2', getCore.eq_4 _ _ _ _ h1 h2']
    have hidx : index h'' d k = index h d k := by simp [index, hag d hd]
    rw [hidx]
    cases hi : index h d k with
    | error e => rfl
    | ok c =>
      simp only
      apply ih
      have hlt := hA.lt d hd
      obtain ⟨n, hn⟩ : ∃ n, h[d]? = some n := ⟨h[d], by simp [hlt]⟩
      rw [index_of_get hn] at hi
      exact hA.closed d n hd hn c (Node.slotGet_mem hi)

theorem get_agree {A : Ref → Prop} {h h'' : Heap} (hA : Region A h) (hag : ∀ r, A r → h''[r]? = h[r]?)
    (q : Path) {d : Ref} (hd : A d) : get h'' d q = get h d q := by
  simp [get, getCore_agree hA hag q d hd]

/-- Under heap extension, everything reachable from an old cell reads the same (closed heaps). -/
theorem get_extends {h h' : Heap} (hc : Closed h) (e : Extends h h') (q : Path) {d : Ref} (hd : d < h.size) :
    get h' d q = get h d q :=
  get_agree hc.region (fun r hr => e.2 r hr) q hd

/-! ## frame -/

/-- `q` leaves the path `p` at some position: up to there the keys address the same slots, there they
address different slots of the same container.  (Neither is a prefix of the other.)  Sequence indices at
the point of divergence are non-negative, so that different keys cannot alias the same slot. -/
inductive Diverge : Path → Path → Prop
  | here {k k' : PKey} {p q : Path} : k.isPlain → k.NonNeg → (k'.isPlain ∨ k' = .skip) → k'.NonNeg →
      k'.toDKey ≠ k.toDKey → Diverge (k :: p) (k' :: q)
  | next {k k' : PKey} {p q : Path} : k.isPlain → k'.isPlain → k'.toDKey = k.toDKey → Diverge p q →
      Diverge (k :: p) (k' :: q)

theorem Node.slotGet_congr {k k' : PKey} (hk : k.isPlain) (hk' : k'.isPlain) (he : k'.toDKey = k.toDKey)
    (n : Node) : n.slotGet k' = n.slotGet k := by
  have hi : k'.asInt = k.asInt := by
    cases k <;> cases k' <;> simp_all [PKey.isPlain, PKey.toDKey, PKey.asInt]
  cases n <;> simp [Node.slotGet, seqGet, he, hi]

theorem Diverge.head_left {p q : Path} (d : Diverge p q) : ∃ k p', p = k :: p' ∧ k.isPlain := by
  cases d with
  | here hk => exact ⟨_, _, rfl, hk⟩
  | next hk => exact ⟨_, _, rfl, hk⟩

theorem Diverge.head_right {p q : Path} (d : Diverge p q) :
    ∃ k' q', q = k' :: q' ∧ (k'.isPlain ∨ k' = .skip) := by
  cases d with
  | here _ _ hk' => exact ⟨_, _, rfl, hk'⟩
  | next _ hk' => exact ⟨_, _, rfl, Or.inl hk'⟩

theorem defaultTree_diverge {p q : Path} (d : Diverge p q) : ∀ (h : Heap) (v : Ref) (h' : Heap) (t' : Ref),
    defaultTree h p v = (h', .ok t') →
    ∀ h'' : Heap, (∀ r, h.size ≤ r → r < h'.size → h''[r]? = h'[r]?) → ∀ x, get h'' t' q ≠ .ok x := by
  induction d with
  | @here k k' p q hk hnn hk' hnn' hne =>
    intro h v h' t' hs h'' hag x
    obtain ⟨hc, c, n', hrec, rfl, rfl, _, hother⟩ := defaultTree_step hk hs
    have hext : Extends h hc := by have := defaultTree_extends h p v; rw [hrec] at this; exact this
    have hcell : h''[hc.size]? = some n' := by
      rw [hag _ hext.1 (by simp)]; exact push_get_size _ _
    rw [get_cons _ hk', index_of_get hcell]
    cases hg : n'.slotGet k' with
    | error e => simp
    | ok y => exact absurd hg (hother k' hnn' hne y)
  | @next k k' p q hk hk' he _ ih =>
    intro h v h' t' hs h'' hag x
    obtain ⟨hc, c, n', hrec, rfl, rfl, hslot, _⟩ := defaultTree_step hk hs
    have hext : Extends h hc := by have := defaultTree_extends h p v; rw [hrec] at this; exact this
    have hcell : h''[hc.size]? = some n' := by
      rw [hag _ hext.1 (by simp)]; exact push_get_size _ _
    rw [get_cons _ (Or.inl hk'), index_of_get hcell, Node.slotGet_congr hk hk' he, hslot]
    simp only
    apply ih h v hc c hrec h''
    intro r hr1 hr2
    rw [hag r hr1 (by simp; omega), push_get_lt _ _ hr2]

/-- **Frame** (strengthened for the induction): reading any path that leaves the set path gives the same
object in the new tree (in any heap that agrees with the result heap on the new cells and with the old
heap on the region of the old tree) as in the old tree. -/
theorem setPath_frame (strict : Bool) {p q : Path} (d : Diverge p q) :
    ∀ (h : Heap) (t v : Ref) (h' : Heap) (t' : Ref) (A : Ref → Prop) (h'' : Heap),
    setPath strict false h t p v = (h', .ok t') → Region A h → A t →
    (∀ r, A r → h''[r]? = h[r]?) → (∀ r, h.size ≤ r → r < h'.size → h''[r]? = h'[r]?) →
    ∀ x, get h'' t' q = .ok x ↔ get h t q = .ok x := by
  induction d with
  | @here k k' p q hk hnn hk' hnn' hne =>
    intro h t v h' t' A h'' hs hA hAt hagA hagF x
    have hk1 := PKey.isPlain_ne_self hk
    have hk2 := PKey.isPlain_ne_skip hk
    have htlt := hA.lt t hAt
    obtain ⟨n, hn⟩ : ∃ n, h[t]? = some n := ⟨h[t], by simp [htlt]⟩
    by_cases hnull : n = .null
    · subst hnull
      rw [setPath.eq_4 _ _ _ _ _ _ _ hk1 hk2, hn] at hs
      simp only at hs
      split at hs
      · simp at hs
      · have h1 := defaultTree_diverge (Diverge.here (p := p) (q := q) hk hnn hk' hnn' hne) h v h' t' hs h'' hagF x
        have h2 : get h t (k' :: q) ≠ .ok x := by
          rw [get_cons _ hk', index_of_get hn]; simp [Node.slotGet]
        exact ⟨fun e => absurd e h1, fun e => absurd e h2⟩
    · by_cases hisnd : ∃ b o s, n = .nd b o s
      · obtain ⟨b, o, s, rfl⟩ := hisnd
        obtain ⟨ht', hlt', hcell'⟩ := setPath_nd_result hk1 hk2 hn hs
        have hcell'' : h''[t']? = some (.nd h.size 0 s) := by rw [hagF t' (by omega) (by omega), hcell']
        rw [get_cons _ hk', get_cons _ hk', index_of_get hcell'', index_of_get hn]
        simp [Node.slotGet]
      have hndn : ∀ b o s, n ≠ .nd b o s := fun b o s e => hisnd ⟨b, o, s, e⟩
      obtain ⟨hm, child, hc, c, n', hext, hlt, _, hrec, hput, hcell, htq, hmc, hch', hsame⟩ :=
        setPath_step hk1 hk2 hn hnull hndn hs
      have ht' : t' < h'.size := lt_size_of_get hcell
      have hcell'' : h''[t']? = some n' := by
        have : h.size ≤ t' := by rcases htq with e | e <;> rw [e] <;> omega
        rw [hagF t' this ht']; exact hcell
      rw [get_cons _ hk', get_cons _ hk', index_of_get hcell'', index_of_get hn,
        Node.slotGet_slotPut_ne hput hne hnn hnn']
      cases hg : n.slotGet k' with
      | error e => simp
      | ok y =>
        simp only
        rw [get_agree hA hagA q (hA.closed t n hAt hn y (Node.slotGet_mem hg))]
  | @next k k' p q hk hk' he dpq ih =>
    intro h t v h' t' A h'' hs hA hAt hagA hagF x
    have hk1 := PKey.isPlain_ne_self hk
    have hk2 := PKey.isPlain_ne_skip hk
    have htlt := hA.lt t hAt
    obtain ⟨n, hn⟩ : ∃ n, h[t]? = some n := ⟨h[t], by simp [htlt]⟩
    by_cases hnull : n = .null
    · subst hnull
      rw [setPath.eq_4 _ _ _ _ _ _ _ hk1 hk2, hn] at hs
      simp only at hs
      split at hs
      · simp at hs
      · have h1 := defaultTree_diverge (Diverge.next hk hk' he dpq) h v h' t' hs h'' hagF x
        have h2 : get h t (k' :: q) ≠ .ok x := by
          rw [get_cons _ (Or.inl hk'), index_of_get hn]; simp [Node.slotGet]
        exact ⟨fun e => absurd e h1, fun e => absurd e h2⟩
    · by_cases hisnd : ∃ b o s, n = .nd b o s
      · obtain ⟨b, o, s, rfl⟩ := hisnd
        obtain ⟨ht', hlt', hcell'⟩ := setPath_nd_result hk1 hk2 hn hs
        have hcell'' : h''[t']? = some (.nd h.size 0 s) := by rw [hagF t' (by omega) (by omega), hcell']
        rw [get_cons _ (Or.inl hk'), get_cons _ (Or.inl hk'), index_of_get hcell'', index_of_get hn]
        simp [Node.slotGet]
      have hndn : ∀ b o s, n ≠ .nd b o s := fun b o s e => hisnd ⟨b, o, s, e⟩
      obtain ⟨hm, child, hc, c, n', hext, hlt, hslot, hrec, hput, hcell, htq, hmc, hch', hsame⟩ :=
        setPath_step hk1 hk2 hn hnull hndn hs
      have ht' : t' < h'.size := lt_size_of_get hcell
      have hcell'' : h''[t']? = some n' := by
        have : h.size ≤ t' := by rcases htq with e | e <;> rw [e] <;> omega
        rw [hagF t' this ht']; exact hcell
      have hagF' : ∀ r, hm.size ≤ r → r < hc.size → h''[r]? = hc[r]? := by
        intro r hr1 hr2
        rw [hagF r (by omega) (by omega), hsame r hr2 (by omega)]
      rw [get_cons _ (Or.inl hk'), get_cons _ (Or.inl hk'), index_of_get hcell'', index_of_get hn,
        Node.slotGet_congr hk hk' he, Node.slotGet_congr hk hk' he, Node.slotGet_slotPut_same hput]
      simp only
      rcases hslot with hg | ⟨hg, hnullc, hfresh⟩
      · -- the slot existed: recurse into the old child
        rw [hg]
        simp only
        have hAc : A child := hA.closed t n hAt hn child (Node.slotGet_mem hg)
        have hAm : Region A hm :=
          ⟨fun r hr => Nat.lt_of_lt_of_le (hA.lt r hr) hext.1,
           fun r n' hr hn' => by
             rw [hext.2 r (hA.lt r hr)] at hn'
             exact hA.closed r n' hr hn'⟩
        have hagA' : ∀ r, A r → h''[r]? = hm[r]? := fun r hr => by
          rw [hagA r hr, hext.2 r (hA.lt r hr)]
        rw [ih hm child v hc c A h'' hrec hAm hAc hagA' hagF' x]
        rw [get_agree hA (fun r hr => hext.2 r (hA.lt r hr)) q hAc]
      · -- fresh slot: the recursion built a default tree, which has nothing off the path
        have hne : ∀ x, n.slotGet k ≠ .ok x := hg
        cases hgk : n.slotGet k with
        | ok y => exact absurd hgk (hne y)
        | error e =>
          simp only
          obtain ⟨k2, p2, rfl, hk2p⟩ := dpq.head_left
          rw [setPath.eq_4 _ _ _ _ _ _ _ (PKey.isPlain_ne_self hk2p) (PKey.isPlain_ne_skip hk2p), hnullc] at hrec
          simp only at hrec
          split at hrec
          · simp at hrec
          · have := defaultTree_diverge dpq hm v hc c hrec h'' hagF' x
            exact ⟨fun e' => absurd e' this, fun e' => by cases e'⟩

end MlModel.Tree
