import MlModel.Lemmas.PipeAggInst
import MlModel.Lemmas.PipeAggResult
/-!
# The `KeyError` branch of `update_state` is unreachable from `create_state`; the builder's checks give `WF`;
the dict-field decoder reads row-wise
-/
namespace MlModel.PipeAgg
open MlModel MlModel.Agg

variable {X S Rv : Type}

/-! ### no `KeyError` -/

/-- every aggregate has its unsliced entry -/
def HasUnsliced (P : Pipeline X S Rv) (st : State S) : Prop :=
  ∀ a ∈ P.aggs, (AList.get? st ⟨a.out, SliceKey.none⟩).isSome = true

theorem hasUnsliced_createState (P : Pipeline X S Rv) : HasUnsliced P (createState P) := by
  intro a ha
  rw [← AList.mem_keys_iff, mem_keys_createState]
  exact ⟨a, ha, rfl⟩

theorem hasUnsliced_foldl_apply {P : Pipeline X S Rv} {st : State S} (h : HasUnsliced P st)
    (us : List (Upd X S Rv)) : HasUnsliced P (us.foldl Upd.apply st) := by
  intro a ha
  rw [← AList.mem_keys_iff, mem_keys_foldl_apply]
  left
  rw [AList.mem_keys_iff]
  exact h a ha

theorem updateState_eq {P : Pipeline X S Rv} {st : State S} (h : HasUnsliced P st) (b : Batch) :
    updateState P st b =
      match plan P b with
      | .error e => .error e
      | .ok us => .ok (us.foldl Upd.apply st) := by
  unfold updateState
  have : P.aggs.all (fun a => (AList.get? st ⟨a.out, SliceKey.none⟩).isSome) = true := by
    rw [List.all_eq_true]; exact h
  rw [this]; rfl

theorem runFrom_eq {P : Pipeline X S Rv} (bs : List Batch) :
    ∀ {st : State S}, HasUnsliced P st →
      runFrom P st bs =
        match mapE (plan P) bs with
        | .error e => .error e
        | .ok uss => .ok (uss.flatten.foldl Upd.apply st) := by
  induction bs with
  | nil => intro st _; rfl
  | cons b bs ih =>
    intro st h
    simp only [runFrom, updateState_eq h, mapE]
    cases hp : plan P b with
    | error e => rfl
    | ok us =>
      simp only
      rw [ih (hasUnsliced_foldl_apply h us)]
      cases hm : mapE (plan P) bs with
      | error e => rfl
      | ok uss => simp [List.foldl_append]

/-- **The run is the plans, then the updates**: started from `create_state`, `update_state` never
takes its `KeyError` branch; the stream fails exactly when (and as) the first failing batch plan does. -/
theorem run_eq (P : Pipeline X S Rv) (bs : List Batch) :
    run P bs =
      match mapE (plan P) bs with
      | .error e => .error e
      | .ok uss => .ok (uss.flatten.foldl Upd.apply (createState P)) :=
  runFrom_eq bs (hasUnsliced_createState P)

/-! ### the builder -/

theorem checkAggs_ok :
    ∀ (outs : List (List String)) (taken : List String), checkAggs outs taken = .ok () →
      (∀ o ∈ outs, o.Nodup) → taken.Nodup → (taken ++ outs.flatten).Nodup := by
  intro outs
  induction outs with
  | nil => intro taken _ _ ht; simpa using ht
  | cons o outs ih =>
    intro taken h hnd ht
    simp only [checkAggs] at h
    split at h
    · cases h
    · rename_i hany
      have hdisj : ∀ k ∈ o, k ∉ taken := by
        intro k hk hkt
        apply hany
        rw [List.any_eq_true]
        exact ⟨k, hk, by simpa using hkt⟩
      have := ih (taken ++ o) h (fun o' ho' => hnd o' (List.mem_cons_of_mem _ ho')) (by
        rw [List.nodup_append]
        refine ⟨ht, hnd o List.mem_cons_self, ?_⟩
        intro a ha b hb e
        subst e
        exact hdisj a hb ha)
      simpa [List.append_assoc] using this

theorem checkSlicers_ok :
    ∀ (names seen : List (List String)), checkSlicers names seen = .ok () → seen.Nodup →
      (seen ++ names).Nodup := by
  intro names
  induction names with
  | nil => intro seen _ hs; simpa using hs
  | cons n names ih =>
    intro seen h hs
    simp only [checkSlicers] at h
    split at h
    · cases h
    · rename_i hc
      have hn : n ∉ seen := by simpa using hc
      have := ih (seen ++ [n]) h (by
        rw [List.nodup_append]
        refine ⟨hs, by simp, ?_⟩
        intro a ha b hb e
        simp only [List.mem_singleton] at hb
        subst hb; subst e
        exact hn ha)
      simpa [List.append_assoc] using this

/-- **What the builder guarantees**: a pipeline that passes the builder's checks, each of whose
aggregates lists distinct output keys (at least one) and whose slicers are named, is well-formed. -/
theorem WF_of_validate {P : Pipeline X S Rv} (h : P.validate = .ok ())
    (hout : ∀ a ∈ P.aggs, a.out.Nodup ∧ a.out ≠ []) (hname : ∀ sl ∈ P.slicers, sl.name ≠ []) : P.WF := by
  unfold Pipeline.validate at h
  cases ha : checkAggs (P.aggs.map (·.out)) [] with
  | error e => simp [ha] at h
  | ok u =>
    simp only [ha] at h
    refine ⟨?_, fun a ha' => (hout a ha').2, ?_, hname⟩
    · have := checkAggs_ok _ [] ha (by
        intro o ho
        obtain ⟨a, ha', rfl⟩ := List.mem_map.mp ho
        exact (hout a ha').1) List.nodup_nil
      simpa using this
    · have := checkSlicers_ok _ [] h List.nodup_nil
      simpa using this

/-! ### the dict-field decoder -/

theorem bcastNpKvs_lookup (bits : List Bool) (k : String) :
    ∀ {kvs kvs' : List (String × Val)}, bcastNpKvs none bits kvs = .ok kvs' →
      ∀ {v : Val}, lookupKey k kvs = some v →
        ∃ v', bcastNp none bits v = .ok v' ∧ lookupKey k kvs' = some v' := by
  intro kvs
  induction kvs with
  | nil => intro kvs' _ v hv; simp [lookupKey] at hv
  | cons e kvs ih =>
    obtain ⟨k0, v0⟩ := e
    intro kvs' h v hv
    rw [bcastNpKvs] at h
    cases h0 : bcastNp none bits v0 with
    | error err => simp [h0] at h
    | ok v0' =>
      simp only [h0] at h
      cases hr : bcastNpKvs none bits kvs with
      | error err => simp [hr] at h
      | ok r =>
        simp only [hr, Except.ok.injEq] at h
        subst h
        simp only [lookupKey] at hv ⊢
        by_cases hk : k = k0
        · simp only [hk, if_true, Option.some.injEq] at hv ⊢
          subst hv
          exact ⟨v0', h0, rfl⟩
        · simp only [hk, if_false] at hv ⊢
          exact ih hr hv

/-- **`decField` is row-wise**: a dict input masked by broadcasting the row mask over its (ndarray)
leaves, read through one field -/
theorem decField_rowWise (k : String) : RowWise (decField k) := by
  intro args rows bits args' hdec hmask
  unfold decField at hdec
  split at hdec
  · rename_i kvs
    split at hdec
    · rename_i arr xs hl
      simp only [Except.ok.injEq] at hdec
      subst hdec
      simp only [applyMasks, mapE] at hmask
      cases ht : applyTop none (Val.map kvs) (TopMask.np bits) with
      | error e => simp [ht] at hmask
      | ok y =>
        simp only [ht, Except.ok.injEq] at hmask
        subst hmask
        simp only [applyTop] at ht
        cases hb : bcastNpKvs none bits kvs with
        | error e => simp [hb] at ht
        | ok kvs' =>
          simp only [hb, Except.ok.injEq] at ht
          subst ht
          obtain ⟨v', hv', hl'⟩ := bcastNpKvs_lookup bits k hb hl
          cases arr with
          | false =>
            rw [bcastNp] at hv'
            · cases hv'
            · intro kvs h; cases h
            · intro xs' h; cases h
          | true =>
            rw [bcastNp] at hv'
            obtain ⟨rfl, _⟩ := applyNp_none_ok hv'
            simp only [decField, hl']
            rw [filterBits_map]
    · cases hdec
    · cases hdec
  · cases hdec

end MlModel.PipeAgg
