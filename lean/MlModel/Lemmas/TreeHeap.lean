import MlModel.Model.Tree
/-!
# Heap lemmas for the `Tree` model: `alloc`/`write`, heap extension, regions, pure slot algebra.
-/
namespace MlModel.Tree

/-! ## alloc / write -/

@[simp] theorem alloc_fst (h : Heap) (n : Node) : (alloc h n).1 = h.push n := rfl
@[simp] theorem alloc_snd (h : Heap) (n : Node) : (alloc h n).2 = h.size := rfl

theorem push_get_lt (h : Heap) (n : Node) {r : Nat} (hr : r < h.size) : (h.push n)[r]? = h[r]? := by
  rw [Array.getElem?_push]; split
  · omega
  · rfl

theorem push_get_size (h : Heap) (n : Node) : (h.push n)[h.size]? = some n := by
  rw [Array.getElem?_push]; simp

theorem push_get_ne (h : Heap) (n : Node) {r : Nat} (hr : r ≠ h.size) : (h.push n)[r]? = h[r]? := by
  rw [Array.getElem?_push]; split
  · omega
  · rfl

@[simp] theorem write_size (h : Heap) (r : Ref) (n : Node) : (write h r n).size = h.size := by
  simp [write]

theorem write_get_ne (h : Heap) {r r' : Ref} (n : Node) (hne : r' ≠ r) : (write h r n)[r']? = h[r']? := by
  simp only [write, Array.getElem?_setIfInBounds]
  split
  · rename_i h1; exact absurd h1.symm hne
  · rfl

theorem write_get_eq (h : Heap) {r : Ref} (n : Node) (hr : r < h.size) : (write h r n)[r]? = some n := by
  simp [write, hr]

/-! ## heap extension -/

/-- `h'` is an extension of `h`: no cell of `h` was written, only new cells were allocated. -/
def Extends (h h' : Heap) : Prop := h.size ≤ h'.size ∧ ∀ r, r < h.size → h'[r]? = h[r]?

theorem Extends.refl (h : Heap) : Extends h h := ⟨Nat.le_refl _, fun _ _ => rfl⟩

theorem Extends.trans {a b c : Heap} (h1 : Extends a b) (h2 : Extends b c) : Extends a c :=
  ⟨Nat.le_trans h1.1 h2.1, fun r hr => by rw [h2.2 r (Nat.lt_of_lt_of_le hr h1.1), h1.2 r hr]⟩

theorem extends_push (h : Heap) (n : Node) : Extends h (h.push n) :=
  ⟨by simp, fun _ hr => push_get_lt h n hr⟩

/-- Writing a cell that is *not* in `h` (a fresh one) keeps the extension. -/
theorem Extends.write_fresh {h h' : Heap} (e : Extends h h') {r : Ref} (n : Node) (hr : h.size ≤ r) :
    Extends h (write h' r n) :=
  ⟨by simpa using e.1, fun r' hr' => by
    have : r' ≠ r := by omega
    rw [write_get_ne _ _ this, e.2 r' hr']⟩

theorem Extends.get_some {h h' : Heap} (e : Extends h h') {r : Ref} {n : Node} (hn : h[r]? = some n) :
    h'[r]? = some n := by
  have : r < h.size := by
    rcases Nat.lt_or_ge r h.size with hlt | hge
    · exact hlt
    · rw [Array.getElem?_eq_none hge] at hn; cases hn
  rw [e.2 r this, hn]

theorem lt_size_of_get {h : Heap} {r : Ref} {n : Node} (hn : h[r]? = some n) : r < h.size := by
  rcases Nat.lt_or_ge r h.size with hlt | hge
  · exact hlt
  · rw [Array.getElem?_eq_none hge] at hn; cases hn

/-! ## pure facts about dict entries and index resolution -/

@[simp] theorem DKey.norm_norm (k : DKey) : k.norm.norm = k.norm := by cases k <;> rfl
@[simp] theorem PKey.toDKey_norm (k : PKey) : k.toDKey.norm = k.toDKey := by cases k <;> rfl
@[simp] theorem PKey.stored_norm (k : PKey) : k.stored.norm = k.toDKey := by cases k <;> rfl

/-- a lookup only sees the `==` class of the key -/
theorem dictGet_norm (es : List (DKey × Ref)) (k : DKey) : dictGet es k.norm = dictGet es k := by
  induction es with
  | nil => rfl
  | cons e es ih => obtain ⟨k', v'⟩ := e; simp [dictGet, ih]

/-- … and so does a store, as far as WHICH entry is concerned (a fresh key is stored as the object given) -/
theorem dictSet_congr_of_mem (es : List (DKey × Ref)) {k k' : DKey} {c : Ref} (hn : k'.norm = k.norm)
    (hg : dictGet es k = some c) (v : Ref) : dictSet es k' v = dictSet es k v := by
  induction es with
  | nil => simp [dictGet] at hg
  | cons e es ih =>
    obtain ⟨k0, v0⟩ := e
    by_cases hk : k0.norm = k.norm
    · simp [dictSet, hk, hn]
    · simp [dictGet, hk] at hg
      simp [dictSet, hk, hn, ih hg]

theorem dictGet_dictSet_same' (es : List (DKey × Ref)) {k k' : DKey} (v : Ref) (hn : k'.norm = k.norm) :
    dictGet (dictSet es k v) k' = some v := by
  induction es with
  | nil => simp [dictSet, dictGet, hn]
  | cons e es ih =>
    obtain ⟨k0, v0⟩ := e
    by_cases hk : k0.norm = k.norm
    · simp [dictSet, dictGet, hk, hn]
    · simp [dictSet, dictGet, hk, hn, ih]

theorem dictGet_dictSet_same (es : List (DKey × Ref)) (k : DKey) (v : Ref) :
    dictGet (dictSet es k v) k = some v := dictGet_dictSet_same' es v rfl

theorem dictGet_dictSet_ne (es : List (DKey × Ref)) {k k' : DKey} (v : Ref) (hne : k'.norm ≠ k.norm) :
    dictGet (dictSet es k v) k' = dictGet es k' := by
  induction es with
  | nil => simp [dictSet, dictGet, Ne.symm hne]
  | cons e es ih =>
    obtain ⟨k0, v0⟩ := e
    by_cases hk : k0.norm = k.norm
    · have h2 : ¬ k0.norm = k'.norm := by rw [hk]; exact Ne.symm hne
      simp only [dictSet, if_pos hk, dictGet, if_neg h2]
    · by_cases hk' : k0.norm = k'.norm
      · simp only [dictSet, if_neg hk, dictGet, if_pos hk']
      · simp only [dictSet, if_neg hk, dictGet, if_neg hk', ih]

/-- Setting an entry to the value it already has changes nothing. -/
theorem dictSet_same (es : List (DKey × Ref)) {k : DKey} {v : Ref} (hg : dictGet es k = some v) :
    dictSet es k v = es := by
  induction es with
  | nil => simp [dictGet] at hg
  | cons e es ih =>
    obtain ⟨k0, v0⟩ := e
    by_cases hk : k0.norm = k.norm
    · simp [dictGet, hk] at hg
      simp [dictSet, hk, hg]
    · simp [dictGet, hk] at hg
      simp [dictSet, hk, ih hg]

theorem dictSet_keys_of_mem (es : List (DKey × Ref)) {k : DKey} {v v' : Ref} (hg : dictGet es k = some v) :
    (dictSet es k v').map (·.1) = es.map (·.1) := by
  induction es with
  | nil => simp [dictGet] at hg
  | cons e es ih =>
    obtain ⟨k0, v0⟩ := e
    by_cases hk : k0.norm = k.norm
    · simp [dictSet, hk]
    · simp [dictGet, hk] at hg
      simp [dictSet, hk, ih hg]

theorem resolveIdx_lt {n : Nat} {i : Int} {j : Nat} (h : resolveIdx n i = some j) : j < n := by
  unfold resolveIdx at h
  split at h
  · split at h
    · cases h; assumption
    · cases h
  · split at h
    · cases h; omega
    · cases h

theorem resolveIdx_nonneg {n : Nat} {i : Int} (hi : 0 ≤ i) :
    resolveIdx n i = if i.toNat < n then some i.toNat else none := by
  simp [resolveIdx, hi]

theorem resolveIdx_len (n : Nat) : resolveIdx (n + 1) (n : Int) = some n := by
  simp [resolveIdx]

theorem resolveIdx_len_none (n : Nat) : resolveIdx n (n : Int) = none := by
  simp [resolveIdx]

end MlModel.Tree
