import MlModel.Lemmas.QueueLiveFrame
/-!
# Liveness of the IteratorQueue LTS — the base invariant

`Base c` collects the supporting invariants: lock discipline, thread-local facts, the wait lists,
and the counting of producers under `WF_enq` (`CNT`), from which `enqueue_done` is **monotone**
(`done_mono`) — without `WF_enq` it is not (finding F22, `Witness/C04.lean`).
-/
namespace MlModel.Queue

theorem enqueueDone_iff (s : Shared) : s.enqueueDone = true ↔
    (s.exc.isSome = true ∨ s.stopRequested = true ∨
      (s.maxEnq ≠ 0 ∧ s.start = s.stop ∧ s.stop = s.maxEnq)) := by
  unfold Shared.enqueueDone
  by_cases h1 : s.exc.isSome = true <;> by_cases h2 : s.stopRequested = true <;>
    by_cases h3 : s.maxEnq = 0 <;> simp [h1, h2, h3]

structure Base (c : Cfg) : Prop where
  lock : LockInv c
  tok : ∀ t ∈ c.ths, TOK t
  tl : ∀ t ∈ c.ths, TL t
  xok : ∀ t ∈ c.ths, XOK c.sh t
  wait : WaitInv c
  cnt : CNT c
  early : EARLY c
  i3 : I3 c

theorem pastT_pastS (x : Thread) (h : pastT x = true) : pastS x = true := by
  unfold pastT at h; unfold pastS
  cases hp : x.pc <;> simp_all

theorem pastS_isProd (x : Thread) (h : pastS x = true) : isProd x = true := by
  unfold pastS at h; simp_all

theorem pastT_isProd (x : Thread) (h : pastT x = true) : isProd x = true :=
  pastS_isProd x (pastT_pastS x h)

/-- what the counting invariant says about a thread about to execute `_start_enqueue` /
`_stop_enqueue` -/
theorem cnt_facts {c : Cfg} {tid : Tid} {t : Thread} (hb : Base c) (ht : c.ths[tid]? = some t)
    (hsr : c.sh.stopRequested = false) :
    c.sh.stop ≤ c.sh.start ∧ c.sh.start ≤ c.sh.maxEnq ∧
    (t.pc = .sAcq → c.sh.start + 1 ≤ c.sh.maxEnq) ∧
    (t.pc = .tAcq → c.sh.stop + 1 ≤ c.sh.start) := by
  obtain ⟨hm, hs, hp⟩ := hb.cnt hsr
  have htm : t ∈ c.ths := List.mem_of_getElem? ht
  have hk := (hb.tok t htm).kind
  rw [hm, hs, hp]
  refine ⟨List.countP_mono_left (fun y _ h => pastT_pastS y h),
    List.countP_mono_left (fun y _ h => pastS_isProd y h), ?_, ?_⟩
  · intro hpc
    have h1 : isProd t = true := by
      have := hk .producer (by rw [hpc]; rfl)
      simp [isProd, this]
    exact countP_lt_of pastS isProd pastS_isProd htm h1 (by simp [pastS, hpc])
  · intro hpc
    have h1 : isProd t = true := by
      have := hk .producer (by rw [hpc]; rfl)
      simp [isProd, this]
    exact countP_lt_of pastT pastS pastT_pastS htm (by simp [pastS, hpc, h1]) (by simp [pastT, hpc])

/-- **`enqueue_done` is monotone** under `WF_enq`. -/
theorem done_mono {c c' : Cfg} {tid alt lbl} (hb : Base c) (h : step c tid alt = some (lbl, c'))
    (hd : c.sh.enqueueDone = true) : c'.sh.enqueueDone = true := by
  obtain ⟨t, s', t', ht, hst, rfl⟩ := step_inv h
  obtain ⟨f1, f2, f3, f4, f5, _, _⟩ := stepThread_f lbl s' t' hst
  obtain ⟨g1, g2, _, _, _⟩ := stepThread_fault lbl s' t' hst
  rw [enqueueDone_iff] at hd ⊢
  show s'.exc.isSome = true ∨ s'.stopRequested = true ∨ _
  rcases hd with hd | hd | ⟨hd1, hd2, hd3⟩
  · exact Or.inl (g1 hd)
  · exact Or.inr (Or.inl (g2 hd))
  · by_cases hsr : c.sh.stopRequested = true
    · exact Or.inr (Or.inl (g2 hsr))
    · have hsr' : c.sh.stopRequested = false := by simpa using hsr
      obtain ⟨k1, k2, k3, k4⟩ := cnt_facts hb ht hsr'
      by_cases hm : t.pc = .mAcq
      · right; left; rw [f1]; simp [hm]
      · have hs : t.pc ≠ .sAcq := fun e => by have := k3 e; omega
        have hT : t.pc ≠ .tAcq := fun e => by have := k4 e; omega
        simp only [hs, hT, hm, if_false] at f2 f3 f4
        rcases f5 with f5 | ⟨f5, _⟩
        · right; right; rw [f2, f3, f4]; exact ⟨hd1, hd2, hd3⟩
        · exact Or.inl f5

/-- `_start_enqueue` never makes `enqueue_done` true. -/
theorem done_sAcq {c c' : Cfg} {tid alt lbl} {t : Thread} (hb : Base c)
    (h : step c tid alt = some (lbl, c')) (ht : c.ths[tid]? = some t) (hpc : t.pc = .sAcq)
    (hd : c'.sh.enqueueDone = true) : c.sh.enqueueDone = true := by
  obtain ⟨t0, s', t', ht0, hst, rfl⟩ := step_inv h
  rw [ht] at ht0; cases ht0
  obtain ⟨f1, f2, f3, f4, f5, _, _⟩ := stepThread_f lbl s' t' hst
  simp only [hpc, if_true, reduceCtorEq, if_false] at f1 f2 f3 f4 f5
  rw [enqueueDone_iff] at hd ⊢
  change s'.exc.isSome = true ∨ s'.stopRequested = true ∨ _ at hd
  rcases f5 with f5 | ⟨_, f5, _⟩
  · rcases hd with hd | hd | ⟨hd1, hd2, hd3⟩
    · left; rw [← f5]; exact hd
    · right; left; rw [← f1]; exact hd
    · by_cases hsr : c.sh.stopRequested = true
      · exact Or.inr (Or.inl hsr)
      · have hsr' : c.sh.stopRequested = false := by simpa using hsr
        obtain ⟨k1, k2, k3, k4⟩ := cnt_facts hb ht hsr'
        have := k3 hpc
        change s'.start = s'.stop at hd2
        rw [f2, f3] at hd2; omega
  · simp at f5

/-! ## `Base` is an invariant -/

/-- `WF_enq`: the number of producers is declared up front (`max_enqueuer` = number of producer
programs), as `piter_multiplex` does. -/
def WF_enq (maxEnq : Nat) (progs : List Prog) : Prop :=
  maxEnq = progs.countP (fun p => p.kind == .producer)

instance (maxEnq : Nat) (progs : List Prog) : Decidable (WF_enq maxEnq progs) := by
  unfold WF_enq; infer_instance

theorem wait_lift {l l' : List Tid} {ths : List Thread} {tid : Tid} {t t' : Thread} (cw : Pc → Bool)
    (ht : ths[tid]? = some t) (hn : l.Nodup)
    (hm : ∀ x, x ∈ l ↔ ∃ u, ths[x]? = some u ∧ cw u.pc = true)
    (hl : l' = if cw t.pc = true then l.erase tid else if cw t'.pc = true then l ++ [tid] else l)
    (hx : cw t.pc = true → cw t'.pc = false) :
    l'.Nodup ∧ ∀ x, x ∈ l' ↔ ∃ u, (ths.set tid t')[x]? = some u ∧ cw u.pc = true := by
  have htid : tid < ths.length := (List.getElem?_eq_some_iff.mp ht).1
  have hself : (ths.set tid t')[tid]? = some t' := by simp [htid]
  have hother : ∀ x, x ≠ tid → (ths.set tid t')[x]? = ths[x]? := fun x hx =>
    List.getElem?_set_ne (Ne.symm hx)
  have hin : tid ∈ l ↔ cw t.pc = true := by
    rw [hm tid]
    constructor
    · rintro ⟨u, hu, hc⟩; rw [ht] at hu; cases hu; exact hc
    · intro hc; exact ⟨t, ht, hc⟩
  by_cases h1 : cw t.pc = true
  · have h2 := hx h1
    rw [if_pos h1] at hl
    subst hl
    refine ⟨hn.erase tid, fun x => ?_⟩
    rw [hn.mem_erase_iff]
    by_cases hxt : x = tid
    · subst hxt
      simp only [ne_eq, not_true_eq_false, false_and, hself, Option.some.injEq, false_iff]
      rintro ⟨u, rfl, hu⟩; rw [h2] at hu; cases hu
    · rw [hother x hxt, ← hm x]; simp [hxt]
  · by_cases h2 : cw t'.pc = true
    · rw [if_neg h1, if_pos h2] at hl
      subst hl
      have hnot : tid ∉ l := fun h => h1 (hin.mp h)
      refine ⟨?_, fun x => ?_⟩
      · rw [List.nodup_append]
        refine ⟨hn, by simp, ?_⟩
        intro a ha b hb
        simp only [List.mem_singleton] at hb
        subst hb; rintro rfl; exact hnot ha
      · by_cases hxt : x = tid
        · subst hxt
          simp only [List.mem_append, List.mem_singleton, or_true, hself, Option.some.injEq, true_iff]
          exact ⟨t', rfl, h2⟩
        · rw [hother x hxt, ← hm x]; simp [hxt]
    · rw [if_neg h1, if_neg h2] at hl
      subst hl
      refine ⟨hn, fun x => ?_⟩
      by_cases hxt : x = tid
      · subst hxt
        rw [hin, hself]
        constructor
        · intro h; exact absurd h h1
        · rintro ⟨u, hu, hc⟩; cases hu; exact absurd hc h2
      · rw [hother x hxt, ← hm x]

theorem base_init (cap maxEnq : Nat) (to ig : Bool) (progs : List Prog) (hwf : WF_enq maxEnq progs) :
    Base (init cap maxEnq to ig progs) := by
  have hth : ∀ t ∈ (init cap maxEnq to ig progs).ths, ∃ p, t = { prog := p } := by
    intro t ht
    simp only [init, List.mem_map] at ht
    obtain ⟨p, _, rfl⟩ := ht; exact ⟨p, rfl⟩
  refine ⟨lockInv_init cap maxEnq to ig progs, (dataInv_init cap maxEnq to ig progs).tok, ?_, ?_, ?_, ?_, ?_, ?_⟩
  · intro t ht; obtain ⟨p, rfl⟩ := hth t ht; simp [TL, stopped, stoppedOf]
  · intro t ht; obtain ⟨p, rfl⟩ := hth t ht
    simp [XOK, armed]
  · refine ⟨by simp [wlD, init], by simp [wlE, init], ?_, ?_⟩ <;>
    · intro tid
      simp only [wlD, wlE, init, List.append_nil, List.not_mem_nil, false_iff, not_exists, not_and,
        List.getElem?_map, Option.map_eq_some_iff]
      rintro t ⟨p, _, rfl⟩
      simp [consWakePc, prodWakePc]
  · intro _
    refine ⟨?_, ?_, ?_⟩
    · show maxEnq = _
      rw [hwf]; simp only [init, List.countP_map]; rfl
    · show 0 = _
      symm; rw [List.countP_eq_zero]
      intro t ht; obtain ⟨p, rfl⟩ := hth t ht; simp [pastS]
    · show 0 = _
      symm; rw [List.countP_eq_zero]
      intro t ht; obtain ⟨p, rfl⟩ := hth t ht; simp [pastT]
  · rintro ⟨t, ht, he⟩
    obtain ⟨p, rfl⟩ := hth t ht; simp [early] at he
  · intro h; simp [init] at h

theorem base_step {c c' : Cfg} {tid alt lbl} (hb : Base c) (h : step c tid alt = some (lbl, c')) :
    Base c' := by
  have hmono := done_mono hb h
  obtain ⟨t, s', t', ht, hst, rfl⟩ := step_inv h
  have htm : t ∈ c.ths := List.mem_of_getElem? ht
  have htok := hb.tok t htm
  obtain ⟨htok', _⟩ := stepThread_data lbl s' t' hst htok
  obtain ⟨f1, f2, f3, f4, f5, f6, f7⟩ := stepThread_f lbl s' t' hst
  obtain ⟨g1, g2, g3, _, _⟩ := stepThread_fault lbl s' t' hst
  obtain ⟨k1, k2, _⟩ := stepThread_const lbl s' t' hst
  obtain ⟨tl', p1, _, _, p2, p3, p4⟩ := stepThread_t lbl s' t' hst htok (hb.tl t htm)
  obtain ⟨w1, w2, w3, w4⟩ := stepThread_w lbl s' t' hst
  refine ⟨lockInv_step hb.lock h, ?_, ?_, ?_, ?_, ?_, ?_, ?_⟩
  · intro u hu
    rcases List.mem_or_eq_of_mem_set hu with hu | rfl
    · exact hb.tok u hu
    · exact htok'
  · intro u hu
    rcases List.mem_or_eq_of_mem_set hu with hu | rfl
    · exact hb.tl u hu
    · exact tl'
  · intro u hu
    rcases List.mem_or_eq_of_mem_set hu with hu | rfl
    · exact XOK_mono g1 g2 g3 k1 k2 (hb.xok u hu)
    · exact stepThread_x lbl s' u hst htok (hb.xok t htm)
  · obtain ⟨n1, n2, m1, m2⟩ := hb.wait
    obtain ⟨a1, a2⟩ := wait_lift consWakePc ht n1 m1 w1 w3
    obtain ⟨b1, b2⟩ := wait_lift prodWakePc ht n2 m2 w2 w4
    exact ⟨a1, b1, a2, b2⟩
  · intro hsr'
    change s'.stopRequested = false at hsr'
    have hm : t.pc ≠ .mAcq := by
      intro e; rw [f1] at hsr'; simp [e] at hsr'
    have hsr : c.sh.stopRequested = false := by
      rw [f1] at hsr'; simpa [hm] using hsr'
    obtain ⟨q1, q2, q3, q4⟩ := cnt_facts hb ht hsr
    obtain ⟨e1, e2, e3⟩ := hb.cnt hsr
    have c1 := countP_set' isProd (b := t') ht
    have c2 := countP_set' pastS (b := t') ht
    have c3 := countP_set' pastT (b := t') ht
    have hk := htok.kind
    simp only [hm, if_false] at f2 f3
    refine ⟨?_, ?_, ?_⟩
    · show s'.maxEnq = (c.ths.set tid t').countP isProd
      rw [p1] at c1
      rw [f4]
      by_cases hs : t.pc = .sAcq
      · have := q3 hs; simp only [hs, if_true]; omega
      · simp only [hs, if_false]; omega
    · show s'.start = (c.ths.set tid t').countP pastS
      rw [f2]; rw [p2] at c2
      by_cases hs : t.pc = .sAcq
      · have h1 : isProd t = true := by
          have := hk .producer (by rw [hs]; rfl)
          simp [isProd, this]
        have h2 : pastS t = false := by simp [pastS, hs]
        simp only [hs, if_true, h1, h2] at c2 ⊢
        simp at c2; omega
      · simp only [hs, if_false] at c2 ⊢; omega
    · show s'.stop = (c.ths.set tid t').countP pastT
      rw [f3]; rw [p3] at c3
      by_cases hs : t.pc = .tAcq
      · have h1 : isProd t = true := by
          have := hk .producer (by rw [hs]; rfl)
          simp [isProd, this]
        have h2 : pastT t = false := by simp [pastT, hs]
        have := q4 hs
        simp only [hs, if_true, h1, h2] at c3 ⊢
        simp at c3; omega
      · simp only [hs, if_false] at c3 ⊢; omega
  · intro he
    rw [anyT_set ht] at he
    rcases he with he | he
    · rcases p4 he with he | he
      · exact hmono (hb.early ⟨t, htm, he⟩)
      · exact hmono he
    · exact hmono (hb.early ((anyT_iff ht).mpr (Or.inr he)))
  · intro he
    rcases f6 he with he | he | he
    · exact hmono (hb.i3 he)
    · exact hmono he
    · have := (hb.xok t htm).2.1 (by rw [he])
      exact hmono ((enqueueDone_iff _).mpr (Or.inr (Or.inl this)))

end MlModel.Queue
