import MlModel.Model.Strategy
import MlModel.Lemmas.AggCore
import MlModel.Lemmas.Rebatch
/-!
# Lemmas for C03: row-wise operator chains are flat-maps; flat semantics of stage lists;
permutation invariance of lawful commutative aggregates; interleavings are permutations.
-/
namespace MlModel.Strategy
open MlModel.Agg

variable {E : Type}

/-! ## operator chains -/

theorem runOps_nil (xs : List E) : runOps ([] : List (Op E)) xs = xs := rfl

theorem runOps_cons (o : Op E) (ops : List (Op E)) (xs : List E) :
    runOps (o :: ops) xs = runOps ops (o.run xs) := rfl

theorem runOps_append (a b : List (Op E)) (xs : List E) :
    runOps (a ++ b) xs = runOps b (runOps a xs) := by
  simp [runOps, List.foldl_append]

/-- a chain of row-wise operators is one row-wise operator (Kleisli composition) -/
theorem runOps_rowwise (ops : List (Op E)) (h : ∀ o ∈ ops, o.isRow = true) :
    ∃ f : E → List E, ∀ xs, runOps ops xs = xs.flatMap f := by
  induction ops with
  | nil => exact ⟨fun e => [e], fun xs => by simp [runOps_nil]⟩
  | cons o ops ih =>
    obtain ⟨g, hg⟩ := ih (fun o' ho' => h o' (List.mem_cons_of_mem _ ho'))
    cases o with
    | rebatch r => have := h (.rebatch r) (List.mem_cons_self); simp [Op.isRow] at this
    | row f =>
      refine ⟨fun e => (f e).flatMap g, fun xs => ?_⟩
      rw [runOps_cons, hg, Op.run, List.flatMap_assoc]

/-- a row-wise chain commutes with splitting the input into parts -/
theorem runOps_parts (ops : List (Op E)) (h : ∀ o ∈ ops, o.isRow = true) (parts : List (List E)) :
    parts.flatMap (runOps ops) = runOps ops parts.flatten := by
  obtain ⟨f, hf⟩ := runOps_rowwise ops h
  induction parts with
  | nil => simp [hf]
  | cons p parts ih => simp only [List.flatMap_cons, List.flatten_cons, ih, hf, List.flatMap_append]

theorem runOps_perm (ops : List (Op E)) (h : ∀ o ∈ ops, o.isRow = true) {xs ys : List E}
    (hp : xs.Perm ys) : (runOps ops xs).Perm (runOps ops ys) := by
  obtain ⟨f, hf⟩ := runOps_rowwise ops h
  rw [hf, hf]; exact hp.flatMap_right f

/-! ## flat semantics -/

theorem flatOut_append (a b : List (Item E)) (xs : List E) :
    flatOut (a ++ b) xs = flatOut b (flatOut a xs) := by
  induction a generalizing xs with
  | nil => rfl
  | cons i a ih => cases i <;> simp [flatOut, ih]

theorem flatFeeds_append (a b : List (Item E)) (xs : List E) :
    flatFeeds (a ++ b) xs = flatFeeds a xs ++ flatFeeds b (flatOut a xs) := by
  induction a generalizing xs with
  | nil => rfl
  | cons i a ih => cases i <;> simp [flatFeeds, flatOut, ih]

theorem flatOut_ops (ops : List (Op E)) (xs : List E) : flatOut (ops.map .op) xs = runOps ops xs := by
  induction ops generalizing xs with
  | nil => rfl
  | cons o ops ih => simp [flatOut, ih, runOps_cons]

theorem flatFeeds_ops (ops : List (Op E)) (xs : List E) : flatFeeds (ops.map .op) xs = [] := by
  induction ops generalizing xs with
  | nil => rfl
  | cons o ops ih => simp [flatFeeds, ih]

theorem flatOut_aggs (aggs : List (Agg E)) (xs : List E) : flatOut (aggs.map .agg) xs = xs := by
  induction aggs with
  | nil => rfl
  | cons a aggs ih => simp [flatOut, ih]

theorem flatFeeds_aggs (aggs : List (Agg E)) (xs : List E) :
    flatFeeds (aggs.map .agg) xs = aggs.map fun a => (a, xs) := by
  induction aggs with
  | nil => rfl
  | cons a aggs ih => simp [flatFeeds, ih]

theorem flatOut_stage (s : Stage E) (xs : List E) : flatOut s.items xs = runOps s.ops xs := by
  rw [Stage.items, flatOut_append, flatOut_ops, flatOut_aggs]

theorem flatFeeds_stage (s : Stage E) (xs : List E) :
    flatFeeds s.items xs = s.aggs.map fun a => (a, runOps s.ops xs) := by
  rw [Stage.items, flatFeeds_append, flatFeeds_ops, flatOut_ops, flatFeeds_aggs, List.nil_append]

theorem output_eq_flat (p : List (Stage E)) (xs : List E) : output p xs = flatOut (items p) xs := by
  induction p generalizing xs with
  | nil => rfl
  | cons s p ih =>
    simp only [output, ih, items, List.flatMap_cons, flatOut_append, flatOut_stage]

theorem aggFeeds_eq_flat (p : List (Stage E)) (xs : List E) :
    aggFeeds p xs = flatFeeds (items p) xs := by
  induction p generalizing xs with
  | nil => rfl
  | cons s p ih =>
    simp only [aggFeeds, ih, items, List.flatMap_cons, flatFeeds_append, flatFeeds_stage, flatOut_stage]

theorem items_fuse (a b : Stage E) (h : a.fusable b = true) :
    (a.fuse b).items = a.items ++ b.items := by
  simp only [Stage.fusable, Bool.or_eq_true, List.isEmpty_iff] at h
  rcases h with h | h <;> simp [Stage.items, Stage.fuse, h]

/-! ## building through the API keeps the operator list -/

theorem push?_items {s s' : Stage E} {i : Item E} (h : s.push? i = .ok s') : s'.items = s.items ++ [i] := by
  cases i with
  | op o =>
    simp only [Stage.push?] at h
    split at h
    · rename_i he
      cases h
      simp only [List.isEmpty_iff] at he
      simp [Stage.items, he]
    · cases h
  | agg a =>
    simp only [Stage.push?] at h
    cases h
    simp [Stage.items]

theorem foldlM_push?_items (its : List (Item E)) (s s' : Stage E)
    (h : its.foldlM Stage.push? s = .ok s') : s'.items = s.items ++ its := by
  induction its generalizing s with
  | nil => simp only [List.foldlM_nil] at h; cases h; simp
  | cons i its ih =>
    simp only [List.foldlM_cons] at h
    cases hp : s.push? i with
    | error e => rw [hp] at h; cases h
    | ok s1 =>
      rw [hp] at h
      have := ih s1 h
      rw [this, push?_items hp, List.append_assoc]; rfl

theorem mkTransform_items {its : List (Item E)} {s : Stage E} (h : mkTransform its = .ok s) :
    s.items = its := by
  have := foldlM_push?_items its Stage.empty s h
  simpa [Stage.empty, Stage.items] using this

theorem attach_items {p q : List (Stage E)} {how : Attach} {t : Stage E} (h : attach p how t = .ok q) :
    items q = items p ++ t.items := by
  unfold attach at h
  split at h
  · rename_i l hl
    cases hf : l.fuse? t with
    | error e => rw [hf] at h; cases h
    | ok s =>
      rw [hf] at h; cases h
      unfold Stage.fuse? at hf
      split at hf
      · rename_i hfu
        cases hf
        have hp : p = p.dropLast ++ [l] := by
          have hne : p ≠ [] := by intro h0; rw [h0] at hl; cases hl
          have hgl : p.getLast hne = l := by
            rw [List.getLast?_eq_some_getLast hne] at hl; exact Option.some.inj hl
          rw [← hgl]; exact (List.dropLast_concat_getLast hne).symm
        conv => rhs; rw [hp]
        simp only [items, List.flatMap_append, List.flatMap_cons, List.flatMap_nil, List.append_nil,
          items_fuse l t hfu, List.append_assoc]
      · cases hf
  · cases h
    simp [items, List.flatMap_append]

theorem assemble_items_from (ts : List (Attach × List (Item E))) (p q : List (Stage E))
    (h : ts.foldlM (fun p t =>
        match mkTransform t.2 with
        | .ok s => attach p t.1 s
        | .error e => .error e) p = .ok q) :
    items q = items p ++ ts.flatMap (·.2) := by
  induction ts generalizing p with
  | nil => simp only [List.foldlM_nil] at h; cases h; simp
  | cons t ts ih =>
    simp only [List.foldlM_cons] at h
    cases hm : mkTransform t.2 with
    | error e => rw [hm] at h; cases h
    | ok s =>
      rw [hm] at h
      simp only [] at h
      cases ha : attach p t.1 s with
      | error e => rw [ha] at h; cases h
      | ok p1 =>
        rw [ha] at h
        have := ih p1 h
        rw [this, attach_items ha, mkTransform_items hm, List.flatMap_cons, List.append_assoc]

/-- the output stream of stage `i` is the composition of all operators up to and including stage `i` -/
theorem stageOuts_getElem? (p : List (Stage E)) (xs : List E) (i : Nat) (hi : i < p.length) :
    (stageOuts p xs)[i]? = some (runOps ((p.take (i + 1)).flatMap Stage.ops) xs) := by
  induction p generalizing xs i with
  | nil => simp at hi
  | cons s p ih =>
    cases i with
    | zero => simp [stageOuts]
    | succ i =>
      simp only [List.length_cons, Nat.add_lt_add_iff_right] at hi
      simp only [stageOuts, List.getElem?_cons_succ, List.take_succ_cons, List.flatMap_cons]
      rw [ih _ i hi, runOps_append]

theorem stageOuts_length (p : List (Stage E)) (xs : List E) : (stageOuts p xs).length = p.length := by
  induction p generalizing xs with
  | nil => rfl
  | cons s p ih => simp [stageOuts, ih]

/-! ## aggregates that do not depend on the order of the data -/

variable {X S R : Type}

/-- `Lawful` + commutativity of the data: swapping two halves of a dataset gives an equivalent state. -/
structure LawfulComm (m : Mergeable X S R) (Eqv : S → S → Prop) : Prop extends Lawful m Eqv where
  comm : ∀ xs ys, Eqv (m.ofBatch (xs ++ ys)) (m.ofBatch (ys ++ xs))

variable {m : Mergeable X S R} {Eqv : S → S → Prop}

theorem _root_.MlModel.Agg.Lawful.ofBatch_cons_congr (h : Lawful m Eqv) (a : X) {xs ys : List X}
    (hxy : Eqv (m.ofBatch xs) (m.ofBatch ys)) : Eqv (m.ofBatch (a :: xs)) (m.ofBatch (a :: ys)) := by
  have h1 := h.hom [a] xs
  have h2 := h.hom [a] ys
  exact h.trans (h.symm h1) (h.trans (h.merge_congr (h.refl _) hxy) h2)

theorem _root_.MlModel.Agg.Lawful.ofBatch_append_congr_left (h : Lawful m Eqv) {xs ys : List X} (zs : List X)
    (hxy : Eqv (m.ofBatch xs) (m.ofBatch ys)) : Eqv (m.ofBatch (xs ++ zs)) (m.ofBatch (ys ++ zs)) :=
  h.trans (h.symm (h.hom xs zs)) (h.trans (h.merge_congr hxy (h.refl _)) (h.hom ys zs))

/-- the one-batch state is invariant under every permutation of the data -/
theorem LawfulComm.perm (h : LawfulComm m Eqv) {xs ys : List X} (hp : xs.Perm ys) :
    Eqv (m.ofBatch xs) (m.ofBatch ys) := by
  induction hp with
  | nil => exact h.refl _
  | cons a _ ih => exact h.toLawful.ofBatch_cons_congr a ih
  | swap a b l =>
    have := h.comm [b] [a]
    exact h.toLawful.ofBatch_append_congr_left l this
  | trans _ _ ih1 ih2 => exact h.trans ih1 ih2

/-- any batching of any rearrangement of the same rows gives the same result -/
theorem LawfulComm.feed_perm (h : LawfulComm m Eqv) {bs cs : List (List X)}
    (hp : bs.flatten.Perm cs.flatten) : m.result (m.feed bs) = m.result (m.feed cs) :=
  h.result_congr (h.trans (h.toLawful.feed_eq bs) (h.trans (h.perm hp) (h.symm (h.toLawful.feed_eq cs))))

theorem _root_.MlModel.Agg.Lawful.feed_flatten (h : Lawful m Eqv) {bs cs : List (List X)}
    (hp : bs.flatten = cs.flatten) : m.result (m.feed bs) = m.result (m.feed cs) :=
  h.result_congr (h.trans (h.feed_eq bs) (hp ▸ h.symm (h.feed_eq cs)))

/-! ## interleavings -/

theorem perm_flatten_set {α : Type} (parts : List (List α)) (j : Nat) (a : α) (rest : List α)
    (h : parts[j]? = some (a :: rest)) : parts.flatten.Perm (a :: (parts.set j rest).flatten) := by
  induction parts generalizing j with
  | nil => simp at h
  | cons p parts ih =>
    cases j with
    | zero =>
      simp only [List.getElem?_cons_zero, Option.some.injEq] at h
      subst h; simp
    | succ j =>
      simp only [List.getElem?_cons_succ] at h
      simp only [List.set_cons_succ, List.flatten_cons]
      have := (ih j h).append_left p
      exact this.trans List.perm_middle

/-- an interleaving is a rearrangement of the concatenation of the parts -/
theorem Interleave.perm {α : Type} {parts : List (List α)} {ys : List α} (h : Interleave parts ys) :
    ys.Perm parts.flatten := by
  induction h with
  | done hall =>
    rename_i parts
    have : parts.flatten = [] := by
      rw [List.flatten_eq_nil_iff]; exact hall
    rw [this]
  | take j a rest hj _ ih =>
    exact (List.Perm.cons a ih).trans (perm_flatten_set _ j a rest hj).symm

/-! ## helpers for the shard theorems -/

theorem sel_parts {X : Type} (sel : E → List X) (f : List E → List E) (parts : List (List E)) :
    ((parts.map fun part => (f part).map sel).map List.flatten).flatten
      = ((parts.flatMap f).map sel).flatten := by
  induction parts with
  | nil => rfl
  | cons p parts ih =>
    simp only [List.map_cons, List.flatten_cons, List.flatMap_cons, List.map_append,
      List.flatten_append, ih]


/-! ## the row view of operators (re-batching pipelines) -/

section Rows
variable {ρ : Type} (rows : E → List ρ)

/-- an operator that respects the row view: a row-wise operator acts row by row inside an element
(vectorised `apply`/`assign`); a re-batcher conserves the rows and their order (C19_rows) -/
def RowsOK : Op E → Prop
  | .row f => ∃ fr : ρ → List ρ, ∀ e, (f e).flatMap rows = (rows e).flatMap fr
  | .rebatch g => ∀ xs, (g xs).flatMap rows = xs.flatMap rows

/-- a chain of such operators acts on the row sequence as one row-wise function -/
theorem runOps_rows (ops : List (Op E)) (h : ∀ o ∈ ops, RowsOK rows o) :
    ∃ fr : ρ → List ρ, ∀ xs, (runOps ops xs).flatMap rows = (xs.flatMap rows).flatMap fr := by
  induction ops with
  | nil => exact ⟨fun r => [r], fun xs => by simp [runOps_nil]⟩
  | cons o ops ih =>
    obtain ⟨g, hg⟩ := ih (fun o' ho' => h o' (List.mem_cons_of_mem _ ho'))
    have ho := h o List.mem_cons_self
    cases o with
    | rebatch r =>
      refine ⟨g, fun xs => ?_⟩
      rw [runOps_cons, hg, Op.run, ho xs]
    | row f =>
      obtain ⟨fr, hfr⟩ := ho
      refine ⟨fun r => (fr r).flatMap g, fun xs => ?_⟩
      rw [runOps_cons, hg, Op.run, List.flatMap_assoc, ← List.flatMap_assoc (g := g)]
      simp only [hfr, List.flatMap_assoc]

end Rows

/-- the driver's re-batcher conserves rows (rows of a `Bat` = its elements): an instance of `RowsOK` -/
theorem rebatchRows_rowsOK (t : Nat) : RowsOK (fun b : Bat => b) (.rebatch (rebatchRows t)) := by
  intro xs
  show (rebatchRows t xs).flatMap (fun b => b) = xs.flatMap (fun b => b)
  simp only [List.flatMap_id']
  unfold rebatchRows
  split
  · rfl
  · rename_i ht
    exact Rebatch.sliced_flatten (Nat.pos_of_ne_zero ht) _

/-- a vectorised function applied to every row of a batch respects the row view -/
theorem mapRows_rowsOK (g : Row → Row) : RowsOK (fun b : Bat => b) (.row fun b => [b.map g]) :=
  ⟨fun r => [g r], fun e => by
    show ([e.map g].flatMap fun b => b) = e.flatMap fun r => [g r]
    induction e with
    | nil => rfl
    | cons r e ih => simp_all [List.flatMap_cons]⟩

/-! ## the library metrics of the driver are lawful -/

/-- the integer count/sum/sum-of-squares metric is lawful and commutative with `Eqv := (=)` -/
theorem momentsM_lawfulComm : LawfulComm momentsM (· = ·) where
  refl _ := rfl
  symm h := h.symm
  trans h1 h2 := h1.trans h2
  merge_congr h1 h2 := by rw [h1, h2]
  result_congr h := by rw [h]
  empty_eq := rfl
  hom xs ys := by
    simp [momentsM, List.sum_append, List.map_append]
  comm xs ys := by
    simp only [momentsM, List.length_append, List.sum_append, List.map_append, Prod.mk.injEq]
    refine ⟨by omega, by omega, by omega⟩

/-- the collecting metric is lawful (not commutative): shards merged in order and the stage runner
preserve even the order of what it collected -/
theorem collectM_lawful : Lawful collectM (· = ·) where
  refl _ := rfl
  symm h := h.symm
  trans h1 h2 := h1.trans h2
  merge_congr h1 h2 := by rw [h1, h2]
  result_congr h := by rw [h]
  empty_eq := rfl
  hom _ _ := rfl

end MlModel.Strategy
