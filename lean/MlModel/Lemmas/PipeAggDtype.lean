import MlModel.Lemmas.PipeAggInst
/-!
# `apply_mask` in replace mode over heterogeneous scalars: the replaced entries are exactly the value

`np.where(mask, column, r)` / `np.asarray(result)` work on one dtype per array.  The model
(`applyNp`, `rewrap`) follows numpy's promotion; these lemmas say when that is invisible at the value
level (`Val.StrSafe`), and that then every replaced entry is *exactly* `r` and every kept entry is untouched.
-/
namespace MlModel.PipeAgg
open MlModel MlModel.Agg

/-! ### `Val.fill`: every scalar of a replaced row is the replacement value -/

theorem Scalar.toVal_scalars (r : Scalar) : r.toVal.scalars = [r] := by
  cases r <;> rfl

mutual
theorem Val.fill_scalars (r : Scalar) : ∀ (x : Val), ∀ s ∈ (Val.fill r x).scalars, s = r
  | .leaf _, s, h => by
    simp only [Val.fill, Scalar.toVal_scalars, List.mem_singleton] at h; exact h
  | .null, s, h => by
    simp only [Val.fill, Scalar.toVal_scalars, List.mem_singleton] at h; exact h
  | .seq _ xs, s, h => by
    simp only [Val.fill, Val.scalars] at h; exact fillList_scalars r xs s h
  | .map _, s, h => by
    simp only [Val.fill, Val.scalars, List.not_mem_nil] at h
theorem fillList_scalars (r : Scalar) : ∀ (xs : List Val), ∀ s ∈ scalarsList (fillList r xs), s = r
  | [], s, h => by simp only [fillList, scalarsList, List.not_mem_nil] at h
  | x :: xs, s, h => by
    simp only [fillList, scalarsList, List.mem_append] at h
    rcases h with h | h
    · exact Val.fill_scalars r x s h
    · exact fillList_scalars r xs s h
end

/-! ### conversion to a string dtype is the identity on strings -/

mutual
theorem Val.strfy_id : ∀ (x : Val), (∀ s ∈ x.scalars, s.dtype = .str) → x.strfy = x
  | .leaf s, h => by
    have := h s (by simp [Val.scalars])
    cases s <;> simp_all [Val.strfy, Scalar.toStr, Scalar.dtype]
  | .null, _ => rfl
  | .seq arr xs, h => by
    simp only [Val.strfy]
    rw [strfyList_id xs (by simpa [Val.scalars] using h)]
  | .map _, _ => rfl
theorem strfyList_id : ∀ (xs : List Val), (∀ s ∈ scalarsList xs, s.dtype = .str) → strfyList xs = xs
  | [], _ => rfl
  | x :: xs, h => by
    simp only [strfyList]
    rw [Val.strfy_id x (fun s hs => h s (by simp [scalarsList, hs])),
      strfyList_id xs (fun s hs => h s (by simp [scalarsList, hs]))]
end

/-- the scalars of the replaced rows come from the column or are the replacement value -/
theorem scalars_replBits_fill (r : Scalar) :
    ∀ (bits : List Bool) (xs : List Val), ∀ s ∈ scalarsList (replBits (Val.fill r) bits xs),
      s ∈ scalarsList xs ∨ s = r := by
  intro bits
  induction bits with
  | nil => intro xs s h; cases xs <;> simp [replBits, scalarsList] at h
  | cons b bits ih =>
    intro xs s h
    cases xs with
    | nil => simp [replBits, scalarsList] at h
    | cons x xs =>
      simp only [replBits, scalarsList, List.mem_append] at h ⊢
      rcases h with h | h
      · cases b with
        | true => simp only [if_true] at h; exact Or.inl (Or.inl h)
        | false =>
          simp only [Bool.false_eq_true, if_false] at h
          exact Or.inr (Val.fill_scalars r x s h)
      · rcases ih xs s h with h' | h'
        · exact Or.inl (Or.inr h')
        · exact Or.inr h'

/-- **`np.where` path, exactness.**  If the promoted dtype is not a string dtype, or the replacement
value and every scalar of the column are strings already (`Val.StrSafe`), the result is the column with
exactly the unselected rows replaced by `Val.fill r` — no entry is converted. -/
theorem applyNp_some_exact {r : Scalar} {bits : List Bool} {xs : List Val} {y : Val}
    (hsafe : Val.StrSafe r (.seq true xs)) (h : applyNp (some r) bits xs = .ok y) :
    y = .seq true (replBits (Val.fill r) bits xs) ∧ bits.length = xs.length := by
  obtain ⟨dt, hdt, rfl, hl⟩ := applyNp_some_ok' h
  refine ⟨?_, hl⟩
  rcases hsafe with h1 | ⟨hr, hall⟩
  · simp only [Val.scalars] at h1
    rw [npCast_of_ne_str (by intro e; rw [e] at hdt; exact h1 hdt)]
  · unfold npCast
    split
    · rw [strfyList_id]
      intro s hs
      rcases scalars_replBits_fill r bits xs s hs with h' | h'
      · exact hall s (by simpa [Val.scalars] using h')
      · rw [h']; exact hr
    · rfl

/-- a replacement value that is an int, a float or `None` makes every column safe -/
theorem Val.strSafe_of_plain {r : Scalar} (hr : r.Plain) (x : Val) : x.StrSafe r := by
  left
  intro h
  exact promote_ne_str_of_plain hr.1 hr.2 h rfl

/-- entry `i` of `replBits`: kept if the bit is set, replaced otherwise -/
theorem replBits_getElem? {α : Type} (g : α → α) :
    ∀ (bits : List Bool) (xs : List α) (i : Nat) (b : Bool) (x : α),
      bits[i]? = some b → xs[i]? = some x →
      (replBits g bits xs)[i]? = some (if b = true then x else g x) := by
  intro bits
  induction bits with
  | nil => intro xs i b x hb; simp at hb
  | cons b' bits ih =>
    intro xs i b x hb hx
    cases xs with
    | nil => simp at hx
    | cons x' xs =>
      cases i with
      | zero =>
        simp only [List.getElem?_cons_zero, Option.some.injEq] at hb hx
        subst hb; subst hx
        simp [replBits]
      | succ i =>
        simp only [List.getElem?_cons_succ] at hb hx
        simpa [replBits] using ih xs i b x hb hx

/-! ### `decCols` in replace mode on safe columns -/

theorem mapE_applyTop_np_some_on (r : Scalar) (bits : List Bool) :
    ∀ {args args' : List Val} {cols : List (List Val)}, (∀ x ∈ args, x.StrSafe r) →
      mapE (fun x => applyTop (some r) x (.np bits)) args = .ok args' → mapE Val.asSeq args = .ok cols →
      mapE Val.asSeq args' = .ok (cols.map (replBits (Val.fill r) bits)) ∧
        ∀ c ∈ cols, bits.length = c.length := by
  intro args
  induction args with
  | nil =>
    intro args' cols _ h1 h2
    simp only [mapE] at h1 h2
    cases h1; cases h2
    exact ⟨rfl, by simp⟩
  | cons x args ih =>
    intro args' cols hs h1 h2
    obtain ⟨y, ys, hx, hxs, rfl⟩ := mapE_cons_ok h1
    obtain ⟨c, cs, hc, hcs, rfl⟩ := mapE_cons_ok h2
    obtain ⟨arr, rfl⟩ := asSeq_ok hc
    simp only [applyTop] at hx
    have hsx : Val.StrSafe r (.seq true c) := by
      have := hs (.seq arr c) List.mem_cons_self
      simpa [Val.StrSafe, Val.scalars] using this
    obtain ⟨rfl, hl⟩ := applyNp_some_exact hsx hx
    obtain ⟨i1, i2⟩ := ih (fun x hx' => hs x (List.mem_cons_of_mem _ hx')) hxs hcs
    refine ⟨mapE_cons_of_ok rfl i1, ?_⟩
    intro c' hc'
    rcases List.mem_cons.mp hc' with rfl | h'
    · exact hl
    · exact i2 c' h'

/-- **`decCols` is row-wise in replace mode for every replacement value** (string and bool included) on
argument lists whose columns are `StrSafe`: an unselected row has every scalar replaced by exactly `r`. -/
theorem decCols_rowWiseReplOn (r : Scalar) :
    RowWiseReplOn (fun args => ∀ x ∈ args, x.StrSafe r) decCols r
      (fun row : List Val => row.map (Val.fill r)) := by
  intro args rows bits args' hA hdec hmask
  obtain ⟨cols, hc, rfl⟩ := decCols_ok hdec
  simp only [applyMasks] at hmask
  obtain ⟨h1, h2⟩ := mapE_applyTop_np_some_on r bits hA hmask hc
  rw [← zipRows_replBits]
  apply decCols_of_cols h1
  intro c hc1 c' hc2
  obtain ⟨d, hd, rfl⟩ := List.mem_map.mp hc1
  obtain ⟨d', hd', rfl⟩ := List.mem_map.mp hc2
  rw [replBits_length _ _ _ (h2 d hd), replBits_length _ _ _ (h2 d' hd'), ← h2 d hd, ← h2 d' hd']

/-! ### the element-wise (Python-level) path: a list stays a list of exactly the appended objects -/

/-- tree.py:141-154 in replace mode: one output element per input element; where the mask says `False` the
element is exactly the replacement value (`None` included), where it says `True` it is the input element -/
theorem applySeq_replace_exact (r : Scalar) : ∀ (xs : List Val) (ms : List Mask) (ys : List Val),
    applySeq (some r) xs ms = .ok ys →
    ys.length = xs.length ∧ ms.length = xs.length ∧
      ∀ i : Nat, (ms[i]? = some Mask.ff → ys[i]? = some r.toVal) ∧ (ms[i]? = some Mask.tt → ys[i]? = xs[i]?) := by
  intro xs
  induction xs with
  | nil =>
    intro ms ys h
    cases ms with
    | nil => simp only [applySeq, Except.ok.injEq] at h; subst h; simp
    | cons m ms => simp [applySeq] at h
  | cons x xs ih =>
    intro ms ys h
    cases ms with
    | nil => simp [applySeq] at h
    | cons m ms =>
      cases m with
      | tt =>
        simp only [applySeq] at h
        cases h' : applySeq (some r) xs ms with
        | error e => simp [h', Except.map] at h
        | ok ys' =>
          simp only [h', Except.map, Except.ok.injEq] at h
          subst h
          obtain ⟨h1, h2, h3⟩ := ih ms ys' h'
          refine ⟨by simp [h1], by simp [h2], fun i => ?_⟩
          cases i with
          | zero => simp
          | succ i => simpa using h3 i
      | ff =>
        simp only [applySeq] at h
        cases h' : applySeq (some r) xs ms with
        | error e => simp [h', Except.map] at h
        | ok ys' =>
          simp only [h', Except.map, Except.ok.injEq] at h
          subst h
          obtain ⟨h1, h2, h3⟩ := ih ms ys' h'
          refine ⟨by simp [h1], by simp [h2], fun i => ?_⟩
          cases i with
          | zero => simp
          | succ i => simpa using h3 i
      | seq ms' =>
        simp only [applySeq] at h
        cases hm : applyMask (some r) x (.seq ms') with
        | error e => simp [hm] at h
        | ok y =>
          simp only [hm] at h
          cases h' : applySeq (some r) xs ms with
          | error e => simp [h', Except.map] at h
          | ok ys' =>
            simp only [h', Except.map, Except.ok.injEq] at h
            subst h
            obtain ⟨h1, h2, h3⟩ := ih ms ys' h'
            refine ⟨by simp [h1], by simp [h2], fun i => ?_⟩
            cases i with
            | zero => simp
            | succ i => simpa using h3 i
      | map kvs =>
        simp only [applySeq] at h
        cases hm : applyMask (some r) x (.map kvs) with
        | error e => simp [hm] at h
        | ok y =>
          simp only [hm] at h
          cases h' : applySeq (some r) xs ms with
          | error e => simp [h', Except.map] at h
          | ok ys' =>
            simp only [h', Except.map, Except.ok.injEq] at h
            subst h
            obtain ⟨h1, h2, h3⟩ := ih ms ys' h'
            refine ⟨by simp [h1], by simp [h2], fun i => ?_⟩
            cases i with
            | zero => simp
            | succ i => simpa using h3 i

/-- a `list` column under a list mask: the result is the list of those elements — no numpy, no dtype -/
theorem applyMask_list_ok {repl : Option Scalar} {xs : List Val} {ms : List Mask} {y : Val}
    (h : applyMask repl (.seq false xs) (.seq ms) = .ok y) :
    ∃ ys, applySeq repl xs ms = .ok ys ∧ y = .seq false ys := by
  simp only [applyMask] at h
  cases h' : applySeq repl xs ms with
  | error e => simp [h'] at h
  | ok ys =>
    simp only [h', rewrap, Bool.false_eq_true, if_false, Except.ok.injEq] at h
    exact ⟨ys, rfl, h.symm⟩

/-- an ndarray column under a list mask: the element-wise result goes through `np.asarray`, which infers ONE
dtype for the kept elements and the appended replacement values -/
theorem applyMask_ndarray_ok {repl : Option Scalar} {xs : List Val} {ms : List Mask} {y : Val}
    (h : applyMask repl (.seq true xs) (.seq ms) = .ok y) :
    ∃ ys, applySeq repl xs ms = .ok ys ∧ y = .seq true (npCast (inferDType (scalarsList ys)) ys) := by
  simp only [applyMask] at h
  cases h' : applySeq repl xs ms with
  | error e => simp [h'] at h
  | ok ys =>
    simp only [h', rewrap, if_true] at h
    split at h
    · cases h
    · simp only [Except.ok.injEq] at h
      exact ⟨ys, rfl, h.symm⟩

/-- … which is invisible when the inferred dtype is not a string dtype, or every element is a string -/
theorem npCast_infer_id {ys : List Val}
    (h : inferDType (scalarsList ys) ≠ .str ∨ ∀ s ∈ scalarsList ys, s.dtype = .str) :
    npCast (inferDType (scalarsList ys)) ys = ys := by
  rcases h with h | h
  · exact npCast_of_ne_str h ys
  · unfold npCast
    split
    · exact strfyList_id ys h
    · rfl

/-! ### row slicers in replace mode, decoder row-wise on the inputs of this batch only -/

variable {X S Rv : Type}

/-- `sliceRows_rowSlicer_replace` for a decoder that is row-wise on argument lists satisfying `A`, when the
aggregate's inputs of this batch satisfy `A` -/
theorem sliceRows_rowSlicer_replace_on {A : List Val → Prop} {a : Agg X S Rv} {r : Scalar} {rr : X → X}
    (hdec : RowWiseReplOn A a.dec r rr)
    {sl : Slicer} {f : List Val → Except ErrKind (List (List Int))} (hfn : sl.fn = .rows f)
    (hrep : sl.replace = some r)
    {b : Batch} {rows fed : List X} (hA : ∀ args, a.inputs b = .ok args → A args)
    (hrows : a.rowsOf b = .ok rows) (v : List Int)
    (h : sliceRows a sl ⟨sl.name, v⟩ b = .ok fed) :
    fed = if occursIn f v (sl.featRows b) then replaceRows f v rr (sl.featRows b) rows else [] := by
  unfold sliceRows at h
  cases hs : sl.slice b with
  | error e => simp [hs] at h
  | ok kms =>
    simp only [hs] at h
    obtain ⟨hnd, hkeys, hmask⟩ := rowSlicer_slice hfn hs
    rcases filter_fst_eq_of_nodup (⟨sl.name, v⟩ : SliceKey) kms hnd with h0 | ⟨km, hkm, hk, hf⟩
    · rw [h0] at h
      simp only [mapE, List.flatten_nil, Except.ok.injEq] at h
      subst h
      have : occursIn f v (sl.featRows b) = false := by
        cases ho : occursIn f v (sl.featRows b) with
        | false => rfl
        | true =>
          have : (⟨sl.name, v⟩ : SliceKey) ∈ kms.map (·.1) := (hkeys _).mpr ⟨rfl, ho⟩
          obtain ⟨km, hkm, hk⟩ := List.mem_map.mp this
          have : km ∈ kms.filter (fun e => decide (e.1 = ⟨sl.name, v⟩)) :=
            List.mem_filter.mpr ⟨hkm, decide_eq_true hk⟩
          rw [h0] at this; cases this
      simp [this]
    · rw [hf] at h
      have hocc : occursIn f v (sl.featRows b) = true := by
        have : (⟨sl.name, v⟩ : SliceKey) ∈ kms.map (·.1) := List.mem_map.mpr ⟨km, hkm, hk⟩
        exact ((hkeys _).mp this).2
      cases hfeed : a.feed km.2 sl.replace b with
      | error e => simp [mapE, hfeed] at h
      | ok rows' =>
        simp only [mapE, hfeed, List.flatten_cons, List.flatten_nil, List.append_nil,
          Except.ok.injEq] at h
        subst h
        rw [hmask km hkm, hk, hrep] at hfeed
        obtain ⟨args, args', h1, h2, h3⟩ := Agg.feed_ok hfeed
        obtain ⟨args0, g1, g2⟩ := Agg.rowsOf_ok hrows
        rw [h1] at g1; cases g1
        have := hdec args rows _ args' (hA args h1) g2 h2
        rw [h3] at this
        cases this
        simp only [hocc, if_true]
        exact replBits_map_eq_replaceRows f v rr _ rows

end MlModel.PipeAgg
