import MlModel.Lemmas.Rebatch
import MlModel.Model.RebatchGen
/-!
# Lemmas for C19, round 10

* padding: the pad value is only looked at in the source-exhausted iteration, and there it only
  extends the columns of the one remaining batch (`run_pad_eq`);
* the iterator-level model of `TreeFn._iterate` (`Model/RebatchGen.lean`): `runEv` on an iterator
  that never raises is `run`; on an iterator that raises after `xs` it is the online output for
  `xs`; `ignoreErr ∘ callMap` keeps exactly the results of the calls that do not raise.
-/
namespace MlModel.Rebatch

variable {α β : Type}

/-! ## the pad value is irrelevant before the source is exhausted -/

theorem flush_pad_irrel (t : Nat) (pad pad' : Option α) (st : St α) :
    flush t pad false st = flush t pad' false st := by
  unfold flush
  simp

theorem step_pad_irrel (t nc : Nat) (pad pad' : Option α) (st : St α) (b : Batch α) :
    step t nc pad st b = step t nc pad' st b := by
  unfold step
  simp only [flush_pad_irrel t pad pad']

theorem feed_pad_irrel (t nc : Nat) (pad pad' : Option α) :
    ∀ (bs : List (Batch α)) (st : St α), feed t nc pad st bs = feed t nc pad' st bs := by
  intro bs
  induction bs with
  | nil => intro st; rfl
  | cons b bs ih =>
    intro st
    simp only [feed, step_pad_irrel t nc pad pad' st b]
    cases step t nc pad' st b with
    | error e => rfl
    | ok v => obtain ⟨st', o⟩ := v; simp only [ih]

/-- a batch that already has `t` rows in every column is not changed by padding to `t` -/
theorem padT_full {nc t : Nat} {b : Batch α} (h : Rect nc t b) (p : α) : padT b p t = b := by
  unfold padT
  conv => rhs; rw [← List.map_id b]
  apply List.map_congr_left
  intro c hc
  have := (h.2 c hc).2
  simp [this]

/-- the final iteration with and without padding: the same batch, every column extended -/
theorem finish_pad_eq {t nc m : Nat} (ht : 0 < t) (hnc : 0 < nc) (p : α) {st : St α}
    (hsh : Shape nc m st) (hmt : m < t) :
    ∃ o, finish t none st = .ok o ∧ finish t (some p) st = .ok (o.map (padT · p t)) ∧ o.length ≤ 1 := by
  unfold finish
  by_cases hm : m = 0
  · rw [flush_noop hsh hnc none true (Or.inl hm), flush_noop hsh hnc (some p) true (Or.inl hm)]
    exact ⟨[], rfl, rfl, by simp⟩
  · have hmpos : 0 < m := by omega
    rw [flush_go hsh hnc ht hmpos none true (Or.inr rfl),
      flush_go hsh hnc ht hmpos (some p) true (Or.inr rfl)]
    have hK : nsl t m - 1 = 0 := by rw [nsl_of_lt hmpos (by omega)]
    have hne : ¬ m = (0 + 1) * t := by omega
    simp only [hK, hne, if_false, if_true, List.range_zero, List.map_nil, List.nil_append]
    exact ⟨_, rfl, rfl, by simp⟩

/-- `l.dropLast ++ (l.getLast?.toList.map f)`: `f` applied to the last element only -/
def mapLast {γ : Type} (f : γ → γ) (l : List γ) : List γ :=
  l.dropLast ++ l.getLast?.toList.map f

theorem mapLast_append_singleton {γ : Type} (f : γ → γ) (l : List γ) (x : γ) :
    mapLast f (l ++ [x]) = l ++ [f x] := by
  simp [mapLast]

theorem mapLast_of_fixed {γ : Type} (f : γ → γ) (l : List γ) (h : ∀ x ∈ l, f x = x) :
    mapLast f l = l := by
  rcases List.eq_nil_or_concat l with rfl | ⟨l', x, rfl⟩
  · rfl
  · simp only [List.concat_eq_append] at *
    rw [mapLast_append_singleton, h x (by simp)]

/-- **Padding only extends the last batch.**  On a well-formed stream the padded run is the
un-padded run in which every column of the final batch got `t - (its length)` copies of the pad
value appended (`padT`); every other batch, every real row and every container kind is the same
object of the model. -/
theorem run_pad_eq {t nc numColumns : Nat} (ht : 0 < t) (hnc : 0 < nc)
    (hcols : numColumns = nc ∨ numColumns = 0) (p : α) {bs : List (Batch α)} (hwf : WF nc bs) :
    run t numColumns (some p) bs
      = ⟨mapLast (padT · p t) (run t numColumns none bs).out, none⟩ := by
  rw [run_eq ht hnc hcols (some p) hwf, run_eq ht hnc hcols none hwf, runFrom_eq_feed, runFrom_eq_feed,
    feed_pad_irrel t nc (some p) none]
  obtain ⟨herr, ⟨m, hmt, hsh⟩, hfull, -⟩ := feed_spec ht hnc none bs _ (Inv.init ht nc) hwf
  obtain ⟨o, ho1, ho2, hlen⟩ := finish_pad_eq ht hnc p hsh hmt
  simp only [herr, ho1, ho2, List.nil_append]
  congr 1
  match o, hlen with
  | [], _ =>
    simp only [List.map_nil, List.append_nil]
    exact (mapLast_of_fixed _ _ (fun b hb => padT_full (hfull b hb) p)).symm
  | [last], _ =>
    simp only [List.map_cons, List.map_nil]
    exact (mapLast_append_singleton _ _ _).symm

/-! ## `rebatched_args` over an iterator that may raise -/

theorem runEvFrom_items {t nc : Nat} (pad : Option α) :
    ∀ (xs : List (Batch α)) (st : St α) (acc : List (Batch α)),
      runEvFrom t nc pad st acc (xs.map .item) = runFrom t nc pad st acc xs := by
  intro xs
  induction xs with
  | nil => intro st acc; rfl
  | cons b xs ih =>
    intro st acc
    simp only [List.map_cons, runEvFrom, runFrom]
    cases step t nc pad st b with
    | error e => rfl
    | ok v => obtain ⟨st', o⟩ := v; exact ih st' _

theorem passThrough_items : ∀ (xs acc : List (Batch α)),
    passThrough acc (xs.map .item) = ⟨acc ++ xs, none⟩ := by
  intro xs
  induction xs with
  | nil => intro acc; simp [passThrough]
  | cons b xs ih => intro acc; simp [passThrough, ih]

/-- an iterator that never raises: the iterator-level re-batcher is `run` -/
theorem runEv_items (t numColumns : Nat) (pad : Option α) (xs : List (Batch α)) :
    runEv t numColumns pad (xs.map .item) = run t numColumns pad xs := by
  unfold runEv run
  by_cases ht : (t == 0) = true
  · simp [ht, passThrough_items]
  · simp only [ht, Bool.false_eq_true, if_false]
    by_cases hn : (numColumns != 0) = true
    · simp only [hn, if_true]; exact runEvFrom_items pad xs _ _
    · simp only [hn, Bool.false_eq_true, if_false]
      cases xs with
      | nil => rfl
      | cons b xs => exact runEvFrom_items pad (b :: xs) _ _

/-- an iterator that raises `e` after the items `xs`: the generator ends with `e`, having yielded
exactly what it yields online for `xs` (unless one of the `xs` made it raise itself, earlier) -/
theorem runEvFrom_items_raise {t nc : Nat} (pad : Option α) (e : ErrKind)
    (rest : List (Pull (Batch α))) :
    ∀ (xs : List (Batch α)) (st : St α) (acc : List (Batch α)),
      runEvFrom t nc pad st acc (xs.map .item ++ .raise e :: rest) =
        ⟨acc ++ (feed t nc pad st xs).out,
          match (feed t nc pad st xs).err with | some e' => some e' | none => some e⟩ := by
  intro xs
  induction xs with
  | nil => intro st acc; simp [runEvFrom, feed]
  | cons b xs ih =>
    intro st acc
    simp only [List.map_cons, List.cons_append, runEvFrom, feed]
    cases step t nc pad st b with
    | error e' => simp
    | ok v => obtain ⟨st', o⟩ := v; simp only [ih, List.append_assoc]

theorem passThrough_items_raise (e : ErrKind) (rest : List (Pull (Batch α))) :
    ∀ (xs acc : List (Batch α)),
      passThrough acc (xs.map .item ++ .raise e :: rest) = ⟨acc ++ xs, some e⟩ := by
  intro xs
  induction xs with
  | nil => intro acc; simp [passThrough]
  | cons b xs ih => intro acc; simp [passThrough, ih]

/-! ## the guarded calls -/

theorem callMap_items_total (G : Batch α → Batch β) (xs : List (Batch α)) :
    callMap (fun b => .ok (G b)) (xs.map .item) = (xs.map G).map .item := by
  induction xs with
  | nil => rfl
  | cons b xs ih => simp [callMap, ih]

theorem callMap_append (G : Batch α → Except ErrKind (Batch β)) (xs ys : List (Pull (Batch α))) :
    callMap G (xs ++ ys) = callMap G xs ++ callMap G ys := by
  induction xs with
  | nil => rfl
  | cons x xs ih => cases x <;> simp [callMap, ih]

/-- `map_ignore_error(fn, it)` over an iterator that never raises hands out exactly the results of
the calls that do not raise, in order -/
theorem ignoreErr_callMap_items (G : Batch α → Except ErrKind (Batch β)) (xs : List (Batch α)) :
    ignoreErr (callMap G (xs.map .item)) = (okCalls G xs).map .item := by
  induction xs with
  | nil => rfl
  | cons b xs ih =>
    simp only [List.map_cons, callMap, okCalls, List.filterMap_cons]
    cases hG : G b with
    | ok o => simp only [ignoreErr]; rw [ih]; simp [okCalls]
    | error e => simp only [ignoreErr, ignorable, if_true]; rw [ih]; simp [okCalls]

theorem ignoreErr_items {γ : Type} (xs : List γ) :
    ignoreErr (xs.map Pull.item) = xs.map Pull.item := by
  induction xs with
  | nil => rfl
  | cons x xs ih => simp [ignoreErr, ih]

/-- a well-formed stream through the first re-batcher: an iterator that never raises -/
theorem pulls_of_wf {fb nin : Nat} (hnin : 0 < nin) {bs : List (Batch α)} (hwf : WF nin bs) :
    (run fb nin none bs).pulls = (run fb nin none bs).out.map .item := by
  have herr : (run fb nin none bs).err = none := by
    rcases Nat.eq_zero_or_pos fb with h | h
    · subst h; simp [run]
    · obtain ⟨fin, m, hrun, -⟩ := run_spec h hnin (Or.inl rfl) none hwf
      rw [hrun]
  simp [Run.pulls, herr]

theorem okCalls_failingOn [Inhabited α] [Inhabited β] (bad : Batch α → Bool)
    (g : List α → List (List β)) (kinds : List Kind) (xs : List (Batch α)) :
    okCalls (failingOn bad g kinds) xs = (xs.filter (fun x => !bad x)).map (flatMapRows g kinds) := by
  induction xs with
  | nil => rfl
  | cons x xs ih =>
    simp only [okCalls, List.filterMap_cons, failingOn] at ih ⊢
    by_cases hb : bad x = true
    · simp [hb, ih]
    · simp [hb, ih]

theorem okCalls_append (G : Batch α → Except ErrKind (Batch β)) (xs ys : List (Batch α)) :
    okCalls G (xs ++ ys) = okCalls G xs ++ okCalls G ys := by
  simp [okCalls, List.filterMap_append]

theorem okCalls_cons_error (G : Batch α → Except ErrKind (Batch β)) {x : Batch α} {e : ErrKind}
    (h : G x = .error e) (xs : List (Batch α)) : okCalls G (x :: xs) = okCalls G xs := by
  simp [okCalls, h]

theorem okCalls_all_ok (G : Batch α → Except ErrKind (Batch β)) (F : Batch α → Batch β)
    (xs : List (Batch α)) (h : ∀ x ∈ xs, G x = .ok (F x)) : okCalls G xs = xs.map F := by
  induction xs with
  | nil => rfl
  | cons x xs ih =>
    have hx := h x (by simp)
    simp only [okCalls, List.filterMap_cons, hx, List.map_cons]
    congr 1
    exact ih (fun y hy => h y (by simp [hy]))

/-- a prefix of calls that all succeed, then a call that raises, without skipping: the calls the
second re-batcher sees are the results of the prefix, then one failing pull -/
theorem callMap_prefix_fail (G : Batch α → Except ErrKind (Batch β)) (F : Batch α → Batch β)
    (pre : List (Batch α)) (x : Batch α) (e : ErrKind) (post : List (Pull (Batch α)))
    (hpre : ∀ y ∈ pre, G y = .ok (F y)) (hx : G x = .error e) :
    callMap G (pre.map .item ++ .item x :: post)
      = (pre.map F).map .item ++ .raise .value :: callMap G post := by
  induction pre with
  | nil => simp [callMap, hx]
  | cons y pre ih =>
    have hy := hpre y (by simp)
    simp only [List.map_cons, List.cons_append, callMap, hy]
    rw [ih (fun z hz => hpre z (by simp [hz]))]

/-! ## functions with state -/

theorem ignoreErr_callMapS_items {σ : Type} (G : σ → Batch α → Except ErrKind (Batch β) × σ) :
    ∀ (xs : List (Batch α)) (s : σ),
      ignoreErr (callMapS G s (xs.map .item)) = (okCallsS G s xs).map .item := by
  intro xs
  induction xs with
  | nil => intro s; rfl
  | cons b xs ih =>
    intro s
    simp only [List.map_cons, callMapS, okCallsS]
    rcases hG : G s b with ⟨r, s'⟩
    cases r with
    | ok o => simp only [ignoreErr, List.map_cons]; rw [ih]
    | error e => simp only [ignoreErr, ignorable, if_true]; rw [ih]

theorem okCallsS_append {σ : Type} (G : σ → Batch α → Except ErrKind (Batch β) × σ) :
    ∀ (xs ys : List (Batch α)) (s : σ),
      okCallsS G s (xs ++ ys) = okCallsS G s xs ++ okCallsS G (stateAfter G s xs) ys := by
  intro xs
  induction xs with
  | nil => intro ys s; rfl
  | cons x xs ih =>
    intro ys s
    simp only [List.cons_append, okCallsS, stateAfter]
    rcases hG : G s x with ⟨r, s'⟩
    cases r with
    | ok o => simp [ih]
    | error e => simp [ih]

/-- a function that ignores its state: the stateful chain is the stateless one -/
theorem callMapS_const (G : Batch α → Except ErrKind (Batch β)) :
    ∀ (evs : List (Pull (Batch α))) (u : Unit),
      callMapS (fun u x => (G x, u)) u evs = callMap G evs := by
  intro evs
  induction evs with
  | nil => intro u; rfl
  | cons ev evs ih =>
    intro u
    cases ev with
    | item b =>
      simp only [callMapS, callMap]
      cases G b with
      | ok o => simp [ih]
      | error e => simp [ih]
    | raise e => simp [callMapS, callMap, ih]

/-- a prefix of calls that all succeed, then a call that raises (stateful, no skipping) -/
theorem callMapS_prefix_fail {σ : Type} (G : σ → Batch α → Except ErrKind (Batch β) × σ)
    (x : Batch α) (post : List (Pull (Batch α))) :
    ∀ (pre : List (Batch α)) (s : σ),
      (okCallsS G s pre).length = pre.length → (∃ e, (G (stateAfter G s pre) x).1 = .error e) →
      ∃ tail, callMapS G s (pre.map .item ++ .item x :: post)
        = (okCallsS G s pre).map .item ++ .raise .value :: tail := by
  intro pre
  induction pre with
  | nil =>
    intro s _ ⟨e, he⟩
    simp only [stateAfter] at he
    rcases hG : G s x with ⟨r, s'⟩
    rw [hG] at he; simp only at he; subst he
    exact ⟨callMapS G s' post, by simp [callMapS, okCallsS, hG]⟩
  | cons y pre ih =>
    intro s hlen hx
    simp only [okCallsS, stateAfter] at hlen hx
    rcases hG : G s y with ⟨r, s'⟩
    rw [hG] at hlen hx
    cases r with
    | ok o =>
      simp only [List.length_cons, Nat.add_right_cancel_iff] at hlen
      obtain ⟨tail, ht⟩ := ih s' hlen hx
      exact ⟨tail, by simp [callMapS, okCallsS, hG, ht]⟩
    | error e =>
      -- a failing call in the prefix: fewer results than calls
      exfalso
      simp only [List.length_cons] at hlen
      have : ∀ (l : List (Batch α)) (s : σ), (okCallsS G s l).length ≤ l.length := by
        intro l
        induction l with
        | nil => intro s; simp [okCallsS]
        | cons z l ihl =>
          intro s
          simp only [okCallsS]
          rcases G s z with ⟨r, s''⟩
          cases r with
          | ok o => simp only [List.length_cons]; have := ihl s''; omega
          | error e => simp only [List.length_cons]; have := ihl s''; omega
      have := this pre s'
      omega

/-! Sample data for the non-vacuity examples / the contrast witness (round 10). -/

/-- a batch function on `sampleStream`'s two columns: raises for the group that holds row 2,
otherwise returns its rows unchanged (columns list, array) -/
def sampleFailing : Batch Nat → Except ErrKind (Batch Nat) :=
  failingOn (fun b => (b.headD default).rows.contains 2) (fun r => [r]) [.list, .array]

/-- did the call raise? -/
def raised {γ : Type} : Except ErrKind γ → Bool
  | .error _ => true
  | .ok _ => false

end MlModel.Rebatch
