import MlModel.Lemmas.RetrievalBatch
/-!
# Lemmas for `ThresholdedRetrieval` and the stand-alone `MeanState` / `TupleMeanState`
-/
namespace MlModel.Agg.Retrieval.Thr
open MlModel.Agg.Retrieval

variable {α : Type} [DecidableEq α]
set_option linter.unusedSectionVars false

theorem above_append (t : Rat) (a b : List Rat) : above t (a ++ b) = above t a + above t b := by
  simp [above, List.countP_append]

theorem zipWith_add_map (ts : List Rat) (f g : Rat → Nat) :
    List.zipWith (· + ·) (ts.map f) (ts.map g) = ts.map fun t => f t + g t := by
  rw [List.zipWith_map]
  simp [List.zipWith_self]

/-- rows the matcher accepts -/
abbrev OkRow (α : Type) [DecidableEq α] := { r : Row α // r.ambiguous = false }

theorem batchCounts_ok (ts : List Rat) (rows : List (OkRow α)) :
    batchCounts ts (rows.map Subtype.val) = .ok
      { tpTrues := ts.map fun t => above t (((rows.map fun r => r.val.trueProb).flatten).filter (· ≥ 0))
        tpPreds := ts.map fun t => above t (((rows.map fun r => r.val.predProb).flatten).filter (· ≥ 0))
        pTrues := (((rows.map fun r => r.val.trueProb).flatten).filter (· ≥ 0)).length
        pPreds := ts.map fun t => above t ((rows.map fun r => r.val.probs).flatten) } := by
  unfold batchCounts
  have h : (rows.map Subtype.val).any Row.ambiguous = false := by
    rw [List.any_eq_false]
    intro r hr
    obtain ⟨r', _, rfl⟩ := List.mem_map.mp hr
    simp [r'.property]
  rw [if_neg (by rw [h]; exact Bool.false_ne_true)]
  simp [List.map_map, Function.comp_def]

/-- the `Mergeable` view of `ThresholdedRetrieval` on accepted rows -/
def mergeableOk (ts : List Rat) : Mergeable (OkRow α) Counts (List Rat × List Rat × List Rat) where
  empty := Counts.zero ts.length
  ofBatch := fun rows => ofBatch ts (rows.map Subtype.val)
  merge := Counts.merge
  result := fun c => (c.precision, c.recall, c.f1)

theorem ofBatch_ok (ts : List Rat) (rows : List (OkRow α)) :
    ofBatch ts (rows.map Subtype.val) =
      { tpTrues := ts.map fun t => above t (((rows.map fun r => r.val.trueProb).flatten).filter (· ≥ 0))
        tpPreds := ts.map fun t => above t (((rows.map fun r => r.val.predProb).flatten).filter (· ≥ 0))
        pTrues := (((rows.map fun r => r.val.trueProb).flatten).filter (· ≥ 0)).length
        pPreds := ts.map fun t => above t ((rows.map fun r => r.val.probs).flatten) } := by
  unfold ofBatch
  rw [batchCounts_ok]

theorem ofBatch_append (ts : List Rat) (xs ys : List (OkRow α)) :
    Counts.merge (ofBatch ts (xs.map Subtype.val)) (ofBatch ts (ys.map Subtype.val)) =
      ofBatch ts ((xs ++ ys).map Subtype.val) := by
  rw [ofBatch_ok, ofBatch_ok, ofBatch_ok]
  simp only [Counts.merge, zipWith_add_map, List.map_append, List.flatten_append,
    List.filter_append, above_append, List.length_append]

theorem ofBatch_nil (ts : List Rat) : ofBatch (α := α) ts [] = Counts.zero ts.length := by
  simp [ofBatch, batchCounts, above, Counts.zero, List.map_const']

theorem zipWith_add_assoc (a b c : List Nat) :
    List.zipWith (· + ·) (List.zipWith (· + ·) a b) c = List.zipWith (· + ·) a (List.zipWith (· + ·) b c) := by
  induction a generalizing b c with
  | nil => simp
  | cons x xs ih =>
    cases b with
    | nil => simp
    | cons y ys =>
      cases c with
      | nil => simp
      | cons z zs => simp [ih, Nat.add_assoc]

theorem zipWith_add_comm (a b : List Nat) :
    List.zipWith (· + ·) a b = List.zipWith (· + ·) b a := by
  rw [List.zipWith_comm]
  congr
  funext x y
  exact Nat.add_comm y x

theorem zipWith_add_zero (n : Nat) (a : List Nat) (h : a.length = n) :
    List.zipWith (· + ·) a (List.replicate n 0) = a := by
  induction a generalizing n with
  | nil => simp
  | cons x xs ih =>
    cases n with
    | zero => simp at h
    | succ n => simp [List.replicate_succ, ih n (by simpa using h)]

theorem Counts.merge_assoc (a b c : Counts) :
    Counts.merge (Counts.merge a b) c = Counts.merge a (Counts.merge b c) := by
  simp [Counts.merge, zipWith_add_assoc, Nat.add_assoc]

theorem Counts.merge_comm (a b : Counts) : Counts.merge a b = Counts.merge b a := by
  simp only [Counts.merge]
  rw [zipWith_add_comm a.tpTrues, zipWith_add_comm a.tpPreds, zipWith_add_comm a.pPreds,
    Nat.add_comm a.pTrues]

/-- a state has one count per threshold -/
def Counts.WF (n : Nat) (c : Counts) : Prop :=
  c.tpTrues.length = n ∧ c.tpPreds.length = n ∧ c.pPreds.length = n

theorem Counts.merge_zero (n : Nat) (c : Counts) (h : c.WF n) : Counts.merge c (Counts.zero n) = c := by
  obtain ⟨h1, h2, h3⟩ := h
  cases c
  simp_all [Counts.merge, Counts.zero, zipWith_add_zero]

theorem Counts.zero_merge (n : Nat) (c : Counts) (h : c.WF n) : Counts.merge (Counts.zero n) c = c := by
  rw [Counts.merge_comm, Counts.merge_zero n c h]

end MlModel.Agg.Retrieval.Thr

namespace MlModel.Agg.Retrieval

theorem Mean.foldl_shift (xs : List Q) (a : Q) :
    xs.foldl Q.add a = Q.add a (xs.foldl Q.add (some 0)) := by
  induction xs generalizing a with
  | nil => simp [Q.add_zero]
  | cons x xs ih =>
    simp only [List.foldl_cons]
    rw [ih (Q.add a x), ih (Q.add (some 0) x), Q.zero_add, Q.add_assoc]

theorem Mean.new_append (xs ys : List Q) :
    Mean.merge (Mean.new xs) (Mean.new ys) = Mean.new (xs ++ ys) := by
  simp only [Mean.merge, Mean.new, List.foldl_append, List.length_append]
  rw [Mean.foldl_shift ys (xs.foldl Q.add (some 0))]

theorem Mean.merge_assoc (a b c : Mean) : Mean.merge (Mean.merge a b) c = Mean.merge a (Mean.merge b c) := by
  simp [Mean.merge, Q.add_assoc, Nat.add_assoc]

theorem Mean.merge_comm (a b : Mean) : Mean.merge a b = Mean.merge b a := by
  simp only [Mean.merge]
  rw [Q.add_comm, Nat.add_comm]

theorem Mean.merge_empty (a : Mean) : Mean.merge a Mean.empty = a := by
  cases a; simp [Mean.merge, Mean.empty, Q.add_zero]

theorem Mean.empty_merge (a : Mean) : Mean.merge Mean.empty a = a := by
  cases a; simp [Mean.merge, Mean.empty, Q.zero_add]

theorem foldl_qadd_some (ys : List Rat) (a : Rat) :
    (ys.map some).foldl Q.add (some a) = some (ys.foldl (· + ·) a) := by
  induction ys generalizing a with
  | nil => rfl
  | cons y ys ih => simp [Q.add, ih]


end MlModel.Agg.Retrieval
