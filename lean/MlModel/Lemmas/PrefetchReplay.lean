import MlModel.Lemmas.PrefetchOne
/-! Concrete schedules: an accepted `replay` is a `Reachable` path (used by non-vacuity examples and witnesses). -/
namespace MlModel.Prefetch
open MlModel.Queue (Item Elem asItems)

theorem reachable_of_replay : ∀ (sched : List Queue.Tid) (c : Cfg) (acc : List (Queue.Tid × String))
    {tr : List (Queue.Tid × String)} {c' : Cfg}, replay c sched acc = (tr, c', true) → Reachable c c' := by
  intro sched
  induction sched with
  | nil => intro c acc tr c' h; simp only [replay, Prod.mk.injEq] at h; rw [← h.2.1]; exact .init
  | cons x xs ih =>
    intro c acc tr c' h
    simp only [replay] at h
    split at h
    · simp at h
    · rename_i lbl c1 hs
      have h1 := ih c1 _ h
      clear h ih
      induction h1 with
      | init => exact .step .init hs
      | step _ hs2 ih2 => exact .step ih2 hs2

theorem reachable_replay (c : Cfg) (sched : List Queue.Tid)
    (h : (replay c sched []).2.2 = true) : Reachable c (replay c sched []).2.1 :=
  reachable_of_replay sched c [] (tr := (replay c sched []).1) (by rw [← h])

/-- what a request thread shows: finished?, the values it yielded, how it ended -/
def obs (c : Cfg) (tid : Nat) : Option (Bool × List Nat × Option Queue.Raise) :=
  c.ths[tid]?.map fun t => (t.pc == .done, t.yielded.map (·.2), t.outcome)

/-- the values of a list of (tagged) elements -/
def valuesOf (l : List Elem) : List Nat := l.map (·.2)

theorem val_inj : ∀ x y, Item.val x = Item.val y → x = y := fun _ _ h => by cases h; rfl

theorem vals_fail_inj : ∀ (xs ys : List Nat) (r r' : List Item),
    xs.map Item.val ++ Item.fail :: r = ys.map Item.val ++ Item.fail :: r' → xs = ys
  | [], [], _, _, _ => rfl
  | [], y :: ys, _, _, h => by simp at h
  | x :: xs, [], _, _, h => by simp at h
  | x :: xs, y :: ys, r, r', h => by
    simp only [List.map_cons, List.cons_append, List.cons.injEq, Item.val.injEq] at h
    rw [h.1, vals_fail_inj xs ys r r' h.2]

theorem asItems_eq (l : List Elem) : asItems l = (valuesOf l).map Item.val := by
  simp [asItems, valuesOf]

/-- what the one-client invariant says about a client whose loop has ended -/
theorem client_done {p b : Nat} {g : Gen} {c : Cfg} {tc : Thread}
    (h : Reachable (init p [.client g b]) c) (ht : c.ths[1]? = some tc) (hd : tc.pc = .done) :
    tc.outcome.isSome = true ∧ MarkerOK g tc.yielded tc.outcome ∧
    ∃ ini last, tc.replies = ini ++ [last] ∧ (∀ r ∈ ini, r.marker = none) ∧ last.marker = tc.outcome := by
  obtain ⟨tm, tc', otp, hths, -, -, -, -, hcore⟩ := rinv_reachable h
  rw [hths] at ht
  simp only [List.getElem?_cons_succ, List.getElem?_cons_zero, Option.some.injEq] at ht
  subst ht
  cases otp with
  | none =>
    obtain ⟨-, -, -, -, -, hph⟩ := hcore
    rcases hph with ⟨hpc | hpc, -⟩ | ⟨hpc, -⟩ <;> rw [hd] at hpc <;> cases hpc
  | some tp =>
    obtain ⟨-, -, -, -, -, q0, -, -, hcl⟩ := hcore
    unfold ClientC at hcl
    simp only [hd] at hcl
    exact ⟨hcl.2.2.1, hcl.2.2.2.1, hcl.2.2.2.2⟩

end MlModel.Prefetch
