import MlModel.Model.RemoteOpts
import MlModel.Lemmas.RemoteIter
/-! Lemmas for `Model/RemoteOpts.lean`: the shipped remote iterator ignores the client options; the keep-partial
batched design simulates the plain iterator for every batch size. -/
namespace MlModel.RemoteOpts
open MlModel MlModel.Lazy MlModel.Remote

theorem riterRun_eq (it : RIter) (k : Nat) : ∀ srv : Srv, riterRun it k srv = remoteNexts it.id k srv := by
  induction k with
  | zero => intro srv; rfl
  | succ k ih => intro srv; simp only [riterRun, remoteNexts, riterNext, ih]

/-- what `pull` returns, in terms of the iterator it was applied to -/
theorem pull_spec (b : Nat) : ∀ g : Gen,
    ((pull b g).2.1 = none → g.items = (pull b g).1 ++ (pull b g).2.2.items ∧ (pull b g).2.2.fin = g.fin ∧
      (pull b g).1.length = b) ∧
    (∀ f, (pull b g).2.1 = some f → g.items = (pull b g).1 ∧ f = g.fin ∧ (pull b g).2.2 = deadGen) := by
  induction b with
  | zero => intro g; simp [pull]
  | succ b ih =>
    intro g
    obtain ⟨items, fin⟩ := g
    cases items with
    | nil => simp [pull]
    | cons a rest =>
      obtain ⟨h1, h2⟩ := ih { items := rest, fin := fin }
      simp only [pull]
      refine ⟨fun hn => ?_, fun f hf => ?_⟩
      · obtain ⟨e1, e2, e3⟩ := h1 hn
        simp only at e1 e2
        refine ⟨by simp only [List.cons_append]; rw [← e1], e2, by simp [e3]⟩
      · obtain ⟨e1, e2, e3⟩ := h2 f hf
        simp only at e1 e2
        exact ⟨by rw [← e1], e2, e3⟩

/-- the plain iterator a buffering client state stands for -/
def virt (s : BufIter) : Gen :=
  match s.pend with
  | some f => { items := s.buf, fin := f }
  | none => { items := s.buf ++ s.g.items, fin := s.g.fin }

/-- an end marker is only ever pending for a finished server-side iterator -/
def BufInv (s : BufIter) : Prop := ∀ f, s.pend = some f → s.g = deadGen

theorem keepNext_sim (b : Nat) (hb : 1 ≤ b) (s : BufIter) (hi : BufInv s) :
    (keepNext b s).1 = (genNext (virt s)).1 ∧ virt (keepNext b s).2 = (genNext (virt s)).2 ∧
    BufInv (keepNext b s).2 := by
  obtain ⟨buf, pend, g⟩ := s
  cases buf with
  | cons a rest =>
    cases pend with
    | some f => exact ⟨rfl, rfl, fun f' h => hi f' h⟩
    | none => exact ⟨rfl, rfl, fun f' h => by simp [keepNext] at h⟩
  | nil =>
    cases pend with
    | some f =>
      have hg : g = deadGen := hi f rfl
      subst hg
      exact ⟨rfl, rfl, fun f' h => by simp [keepNext] at h⟩
    | none =>
      obtain ⟨b', rfl⟩ : ∃ b', b = b' + 1 := ⟨b - 1, by omega⟩
      obtain ⟨items, fin⟩ := g
      cases items with
      | nil =>
        refine ⟨rfl, rfl, fun f' h => ?_⟩
        simp [keepNext, pull] at h
      | cons a rest =>
        obtain ⟨h1, h2⟩ := pull_spec b' { items := rest, fin := fin }
        refine ⟨rfl, ?_, ?_⟩
        · simp only [keepNext, pull, virt, List.nil_append, genNext]
          cases hp : (pull b' { items := rest, fin := fin }).2.1 with
          | none =>
            obtain ⟨e1, e2, _⟩ := h1 hp
            simp only at e1 e2
            simp only [e2, ← e1]
          | some f =>
            obtain ⟨e1, e2, _⟩ := h2 f hp
            simp only at e1 e2
            simp only [e2, ← e1]
        · intro f hf
          simp only [keepNext, pull] at hf
          exact (h2 f hf).2.2

theorem keepRun_eq (b : Nat) (hb : 1 ≤ b) (k : Nat) : ∀ s : BufIter, BufInv s →
    (keepRun b k s).1 = (genRun k (virt s)).1 := by
  induction k with
  | zero => intro s _; rfl
  | succ k ih =>
    intro s hi
    obtain ⟨h1, h2, h3⟩ := keepNext_sim b hb s hi
    simp only [keepRun, genRun, h1, ih _ h3, h2]

/-- an iterator shorter than the batch: the pull meets its end -/
theorem pull_short (b : Nat) : ∀ g : Gen, g.items.length < b → (pull b g).2.1 = some g.fin := by
  induction b with
  | zero => intro g h; omega
  | succ b ih =>
    intro g h
    obtain ⟨items, fin⟩ := g
    cases items with
    | nil => rfl
    | cons a rest =>
      simp only [pull]
      exact ih { items := rest, fin := fin } (by simpa using h)

end MlModel.RemoteOpts
