import MlModel.Model.Lazy
/-! `loads (dumps e) = e`: the pickling model is a faithful structural copy. -/
namespace MlModel.Lazy

mutual
theorem Val.loads_dumps : ∀ v : Val, v.dumps.loads = v
  | .int _ => rfl | .str _ => rfl | .none => rfl | .fn _ => rfl | .handle _ => rfl
  | .tup xs => by simp only [Val.dumps, WVal.loads, Val.loadsL_dumpsL xs]
  | .record fs => by simp only [Val.dumps, WVal.loads, Val.loadsF_dumpsF fs]
theorem Val.loadsL_dumpsL : ∀ xs : List Val, WVal.loadsL (Val.dumpsL xs) = xs
  | [] => rfl
  | a :: as => by simp only [Val.dumpsL, WVal.loadsL, Val.loads_dumps a, Val.loadsL_dumpsL as]
theorem Val.loadsF_dumpsF : ∀ fs : List (String × Val), WVal.loadsF (Val.dumpsF fs) = fs
  | [] => rfl
  | (k, a) :: as => by simp only [Val.dumpsF, WVal.loadsF, Val.loads_dumps a, Val.loadsF_dumpsF as]
end

mutual
theorem Expr.loads_dumps : ∀ e : Expr, e.dumps.loads = e
  | .const v => by simp only [Expr.dumps, Wire.loads, Val.loads_dumps]
  | .traced v l => by simp only [Expr.dumps, Wire.loads, Val.loads_dumps]
  | .call f as ks c l => by
    simp only [Expr.dumps, Wire.loads, Expr.loads_dumps f, Expr.loadsL_dumpsL as, Expr.loadsK_dumpsK ks]
theorem Expr.loadsL_dumpsL : ∀ xs : List Expr, Wire.loadsL (Expr.dumpsL xs) = xs
  | [] => rfl
  | a :: as => by simp only [Expr.dumpsL, Wire.loadsL, Expr.loads_dumps a, Expr.loadsL_dumpsL as]
theorem Expr.loadsK_dumpsK : ∀ fs : List (String × Expr), Wire.loadsK (Expr.dumpsK fs) = fs
  | [] => rfl
  | (k, a) :: as => by simp only [Expr.dumpsK, Wire.loadsK, Expr.loads_dumps a, Expr.loadsK_dumpsK as]
end

end MlModel.Lazy
