import MlModel.Lemmas.QueueLiveDefs
/-!
# Observers after the fact: what a consumer that arrives (or is still running) after a failure was
recorded can end with — history-level consequences of the one-step fault facts (`stepThread_fault`).

* `NoStop t`: no clean end-of-stream (`StopIteration`) is in flight or on record for thread `t`;
  once an exception is recorded this is preserved by every step of every thread (`noStop_reachable`),
  whatever stop requests, further failures and timeouts follow;
* `ObsEndOK t`: a consumer that has left its loop did so with a real exception (never the queue-internal
  `Empty`) — `obsEndOK_reachable`.
-/
namespace MlModel.Queue

/-- no clean end-of-stream is in flight (armed in `x`) or on record (`outcome`) for this thread -/
def NoStop (t : Thread) : Prop := (∀ r, t.x ≠ .stop r) ∧ (∀ r, t.outcome ≠ some (.stop r))

instance (t : Thread) : Decidable (NoStop t) := by
  unfold NoStop
  have h1 : Decidable (∀ r, t.x ≠ .stop r) := by
    cases hx : t.x with
    | stop r => exact isFalse (fun h => h r rfl)
    | empty => exact isTrue (fun r => by simp)
    | err e => exact isTrue (fun r => by simp)
  have h2 : Decidable (∀ r, t.outcome ≠ some (.stop r)) := by
    cases ho : t.outcome with
    | none => exact isTrue (fun r => by simp)
    | some x =>
      cases x with
      | stop r => exact isFalse (fun h => h r rfl)
      | empty => exact isTrue (fun r => by simp)
      | err e => exact isTrue (fun r => by simp)
  infer_instance

/-- a thread that has not started has nothing in flight -/
theorem noStop_fresh (p : Prog) : NoStop { prog := p } := ⟨fun r => by simp, fun r => by simp⟩

theorem final_err_of_exc {s : Shared} (h : s.exc.isSome = true) : ∃ e, s.final = .err e := by
  unfold Shared.final
  cases he : s.exc with
  | none => simp [he] at h
  | some e => exact ⟨e, rfl⟩

/-- one step of the thread itself, with an exception on record -/
theorem noStop_stepThread {s s' : Shared} {t t' : Thread} {tid : Tid} {alt : Bool} {lbl : String}
    (h : stepThread s t tid alt = some (lbl, s', t')) (hexc : s.exc.isSome = true) (hn : NoStop t) :
    NoStop t' := by
  obtain ⟨h1, _, _, hx, ho⟩ := stepThread_fault lbl s' t' h
  obtain ⟨e, he⟩ := final_err_of_exc (h1 hexc)
  have hx' : ∀ r, t'.x ≠ .stop r := by
    intro r
    rcases hx with h | h | h | ⟨_, h⟩
    · rw [h]; exact hn.1 r
    · rw [h]; simp
    · rw [h, he]; simp
    · rw [h]; simp
  refine ⟨hx', fun r => ?_⟩
  rcases ho with h | h | h | h | h
  · rw [h]; exact hn.2 r
  · rw [h]; intro hh; exact hn.1 r (Option.some.inj hh)
  · rw [h]; simp
  · rw [h]; cases t.reraise <;> simp
  · rw [h]; simp

/-- one step of the configuration -/
theorem noStop_step {c c' : Cfg} {tid : Tid} {alt : Bool} {lbl : String}
    (hs : step c tid alt = some (lbl, c')) (hexc : c.sh.exc.isSome = true)
    {u : Tid} {t t' : Thread} (ht : c.ths[u]? = some t) (ht' : c'.ths[u]? = some t') (hn : NoStop t) :
    NoStop t' := by
  obtain ⟨t0, s', t1, ht0, hst, rfl⟩ := step_inv hs
  have htid : tid < c.ths.length := by
    rcases List.getElem?_eq_some_iff.mp ht0 with ⟨h1, _⟩; exact h1
  by_cases hu : u = tid
  · subst hu
    rw [ht] at ht0
    obtain rfl := Option.some.inj ht0
    simp only [List.getElem?_set_self htid, Option.some.injEq] at ht'
    subst ht'
    exact noStop_stepThread hst hexc hn
  · simp only [List.getElem?_set_ne (Ne.symm hu)] at ht'
    rw [ht] at ht'
    obtain rfl := Option.some.inj ht'
    exact hn

theorem exc_sticky {c c' : Cfg} (h : Reachable c c') (hexc : c.sh.exc.isSome = true) :
    c'.sh.exc.isSome = true := by
  induction h with
  | init => exact hexc
  | step _ hs ih =>
    obtain ⟨t, s', t', _, hst, rfl⟩ := step_inv hs
    exact (stepThread_fault _ s' t' hst).1 ih

theorem length_reachable {c c' : Cfg} (h : Reachable c c') : c'.ths.length = c.ths.length := by
  induction h with
  | init => rfl
  | step _ hs ih =>
    obtain ⟨t, s', t', _, _, rfl⟩ := step_inv hs
    simpa using ih

/-- **history level**: from a configuration with an exception on record, along every execution, a thread
without a clean end in flight never gets one -/
theorem noStop_reachable {c c' : Cfg} (h : Reachable c c') (hexc : c.sh.exc.isSome = true)
    {u : Tid} {t t' : Thread} (ht : c.ths[u]? = some t) (ht' : c'.ths[u]? = some t') (hn : NoStop t) :
    NoStop t' := by
  induction h generalizing t' with
  | init => rw [ht] at ht'; obtain rfl := Option.some.inj ht'; exact hn
  | @step c1 c2 tid alt lbl hr hs ih =>
    have hlen := length_reachable hr
    have hu : u < c1.ths.length := by
      rw [hlen]; rcases List.getElem?_eq_some_iff.mp ht with ⟨h1, _⟩; exact h1
    obtain ⟨tm, htm⟩ : ∃ tm, c1.ths[u]? = some tm := ⟨c1.ths[u], List.getElem?_eq_getElem hu⟩
    exact noStop_step hs (exc_sticky hr hexc) htm ht' (ih htm)

theorem reachable_trans {c0 c1 c2 : Cfg} (h1 : Reachable c0 c1) (h2 : Reachable c1 c2) : Reachable c0 c2 := by
  induction h2 with
  | init => exact h1
  | step _ hs ih => exact .step ih hs

/-! ## a consumer never ends with the queue-internal `Empty` -/

def ObsEndOK (t : Thread) : Prop :=
  ((t.pc = .gRaise ∨ t.pc = .bRaise) → t.x ≠ .empty) ∧
  (t.pc = .done → isCons t = true → ∃ x, t.outcome = some x ∧ x ≠ .empty)

def ObsEndStep (s : Shared) (t : Thread) (tid : Tid) (alt : Bool) : Prop :=
  ∀ lbl s' t', stepThread s t tid alt = some (lbl, s', t') →
    (isCons t = true → pcKind t.pc = none ∨ pcKind t.pc = some .get ∨ pcKind t.pc = some .batch) →
    ObsEndOK t → ObsEndOK t'

set_option hygiene false in
macro "obs_end_group" : tactic => `(tactic| (
  intro lbl s' t' h hk he
  unfold ObsEndOK at he ⊢
  unfold stepThread at h
  cases hpc : t.pc <;> (try (simp only [hpc, Pc.group] at hg; omega)) <;>
    simp only [hpc] at h hk he <;>
    (try simp only [pcKind, reduceCtorEq, or_self, imp_false, Bool.not_eq_true] at hk) <;>
    (try simp only [acquire, release, notify, waitPark, waitWake, goto, enqLoop, putLoop, batchLoop,
      afterRaise, afterValue] at h) <;>
    (repeat' split at h) <;>
    (try simp only [Option.some.injEq, Prod.mk.injEq, reduceCtorEq] at h) <;>
    (try (obtain ⟨-, rfl, rfl⟩ := h)) <;>
    simp_all [Shared.setOwner, isCons]))

theorem obs_end_g0 {s t tid alt} (hg : t.pc.group = 0) : ObsEndStep s t tid alt := by obs_end_group
theorem obs_end_g1 {s t tid alt} (hg : t.pc.group = 1) : ObsEndStep s t tid alt := by obs_end_group
theorem obs_end_g2 {s t tid alt} (hg : t.pc.group = 2) : ObsEndStep s t tid alt := by obs_end_group
theorem obs_end_g3 {s t tid alt} (hg : t.pc.group = 3) : ObsEndStep s t tid alt := by obs_end_group
theorem obs_end_g4 {s t tid alt} (hg : t.pc.group = 4) : ObsEndStep s t tid alt := by obs_end_group
theorem obs_end_g5 {s t tid alt} (hg : t.pc.group = 5) : ObsEndStep s t tid alt := by obs_end_group
theorem obs_end_g6 {s t tid alt} (hg : t.pc.group = 6) : ObsEndStep s t tid alt := by obs_end_group
theorem obs_end_g7 {s t tid alt} (hg : t.pc.group = 7) : ObsEndStep s t tid alt := by obs_end_group

theorem stepThread_obsEnd {s t tid alt} : ObsEndStep s t tid alt := by
  have h := Pc.group_lt t.pc
  match hg : t.pc.group with
  | 0 => exact obs_end_g0 hg | 1 => exact obs_end_g1 hg | 2 => exact obs_end_g2 hg | 3 => exact obs_end_g3 hg
  | 4 => exact obs_end_g4 hg | 5 => exact obs_end_g5 hg | 6 => exact obs_end_g6 hg | 7 => exact obs_end_g7 hg
  | n + 8 => omega

theorem obsEndOK_fresh (p : Prog) : ObsEndOK { prog := p } := by
  unfold ObsEndOK; simp

theorem obsEndOK_reachable {cap maxEnq : Nat} {to ig : Bool} {progs : List Prog} {c : Cfg}
    (h : Reachable (init cap maxEnq to ig progs) c) : ∀ t ∈ c.ths, ObsEndOK t := by
  induction h with
  | init =>
    intro t ht
    simp only [init, List.mem_map] at ht
    obtain ⟨p, _, rfl⟩ := ht
    exact obsEndOK_fresh p
  | @step c1 c2 tid alt lbl hr hs ih =>
    obtain ⟨t0, s', t1, ht0, hst, rfl⟩ := step_inv hs
    have hd := dataInv_reachable (dataInv_init cap maxEnq to ig progs) hr
    intro t ht
    rcases List.mem_or_eq_of_mem_set ht with h1 | h1
    · exact ih t h1
    · subst h1
      have hm : t0 ∈ c1.ths := List.mem_of_getElem? ht0
      refine stepThread_obsEnd lbl s' t hst (fun hc => ?_) (ih t0 hm)
      have hk := (hd.tok t0 hm).kind
      cases hp : pcKind t0.pc with
      | none => exact Or.inl rfl
      | some k =>
        have := hk k hp
        unfold isCons at hc
        rw [this] at hc
        cases k <;> simp_all

/-! ## sharper: only a `StopIteration` that is really in flight counts

`t.x` keeps its last value while a `get_batch` consumer that returned a partial batch on `StopIteration` goes on
to its next call; what matters is a `StopIteration` armed at one of the three program points that raise it, or
already recorded as the thread's outcome. -/

def stopInFlight (t : Thread) : Bool :=
  (match t.pc with
   | .nRelErr _ | .gRaise | .bRaise => (match t.x with | .stop _ => true | _ => false)
   | _ => false) ||
  (match t.outcome with | some (.stop _) => true | _ => false)

def FlightStep (s : Shared) (t : Thread) (tid : Tid) (alt : Bool) : Prop :=
  ∀ lbl s' t', stepThread s t tid alt = some (lbl, s', t') → ∀ e0, s.exc = some e0 →
    stopInFlight t = false → stopInFlight t' = false ∧ t'.pc ≠ .start

set_option hygiene false in
macro "flight_group" : tactic => `(tactic| (
  intro lbl s' t' h e0 he0 hf
  unfold stopInFlight at hf ⊢
  unfold stepThread at h
  cases hpc : t.pc <;> (try (simp only [hpc, Pc.group] at hg; omega)) <;>
    simp only [hpc] at h hf <;>
    (try simp only [acquire, release, notify, waitPark, waitWake, goto, enqLoop, putLoop, batchLoop,
      afterRaise, afterValue] at h) <;>
    (repeat' split at h) <;>
    (try simp only [Option.some.injEq, Prod.mk.injEq, reduceCtorEq] at h) <;>
    (try (obtain ⟨-, rfl, rfl⟩ := h)) <;>
    simp_all [Shared.setOwner, Shared.final] <;>
    (try (cases hx : t.x <;> simp_all))))

theorem flight_g0 {s t tid alt} (hg : t.pc.group = 0) : FlightStep s t tid alt := by flight_group
theorem flight_g1 {s t tid alt} (hg : t.pc.group = 1) : FlightStep s t tid alt := by flight_group
theorem flight_g2 {s t tid alt} (hg : t.pc.group = 2) : FlightStep s t tid alt := by flight_group
theorem flight_g3 {s t tid alt} (hg : t.pc.group = 3) : FlightStep s t tid alt := by flight_group
theorem flight_g4 {s t tid alt} (hg : t.pc.group = 4) : FlightStep s t tid alt := by flight_group
theorem flight_g5 {s t tid alt} (hg : t.pc.group = 5) : FlightStep s t tid alt := by flight_group
theorem flight_g6 {s t tid alt} (hg : t.pc.group = 6) : FlightStep s t tid alt := by flight_group
theorem flight_g7 {s t tid alt} (hg : t.pc.group = 7) : FlightStep s t tid alt := by flight_group

theorem stepThread_flight {s t tid alt} : FlightStep s t tid alt := by
  have h := Pc.group_lt t.pc
  match hg : t.pc.group with
  | 0 => exact flight_g0 hg | 1 => exact flight_g1 hg | 2 => exact flight_g2 hg | 3 => exact flight_g3 hg
  | 4 => exact flight_g4 hg | 5 => exact flight_g5 hg | 6 => exact flight_g6 hg | 7 => exact flight_g7 hg
  | n + 8 => omega

/-- **history level**: from a configuration with an exception on record, along every execution (stop requests
without or with an exception, further failures, timeouts), a thread without a `StopIteration` in flight never
gets one -/
theorem flight_reachable {c c' : Cfg} (h : Reachable c c') (hexc : c.sh.exc.isSome = true)
    {u : Tid} {t t' : Thread} (ht : c.ths[u]? = some t) (ht' : c'.ths[u]? = some t')
    (hn : stopInFlight t = false) : stopInFlight t' = false := by
  induction h generalizing t' with
  | init => rw [ht] at ht'; obtain rfl := Option.some.inj ht'; exact hn
  | @step c1 c2 tid alt lbl hr hs ih =>
    have hlen := length_reachable hr
    have hu : u < c1.ths.length := by
      rw [hlen]; rcases List.getElem?_eq_some_iff.mp ht with ⟨h1, _⟩; exact h1
    obtain ⟨tm, htm⟩ : ∃ tm, c1.ths[u]? = some tm := ⟨c1.ths[u], List.getElem?_eq_getElem hu⟩
    have hm := ih htm
    obtain ⟨e0, he0⟩ := Option.isSome_iff_exists.mp (exc_sticky hr hexc)
    obtain ⟨t0, s', t1, ht0, hst, rfl⟩ := step_inv hs
    have htid : tid < c1.ths.length := by
      rcases List.getElem?_eq_some_iff.mp ht0 with ⟨h1, _⟩; exact h1
    by_cases hut : u = tid
    · subst hut
      rw [htm] at ht0
      obtain rfl := Option.some.inj ht0
      simp only [List.getElem?_set_self htid, Option.some.injEq] at ht'
      subst ht'
      exact (stepThread_flight lbl s' _ hst e0 he0 hm).1
    · simp only [List.getElem?_set_ne (Ne.symm hut)] at ht'
      rw [htm] at ht'
      obtain rfl := Option.some.inj ht'
      exact hm

/-- a thread that has not taken its first step is as `init` made it -/
theorem start_fresh {cap maxEnq : Nat} {to ig : Bool} {progs : List Prog} {c : Cfg}
    (h : Reachable (init cap maxEnq to ig progs) c) :
    ∀ t ∈ c.ths, t.pc = .start → t.x = .empty ∧ t.outcome = none := by
  induction h with
  | init =>
    intro t ht _
    simp only [init, List.mem_map] at ht
    obtain ⟨p, _, rfl⟩ := ht
    exact ⟨rfl, rfl⟩
  | @step c1 c2 tid alt lbl hr hs ih =>
    obtain ⟨t0, s', t1, ht0, hst, rfl⟩ := step_inv hs
    intro t ht hpc
    rcases List.mem_or_eq_of_mem_set ht with h1 | h1
    · exact ih t h1 hpc
    · subst h1
      exfalso
      -- no step leads to `start`
      have : t.pc ≠ .start := by
        clear ih hr hs ht ht0
        unfold stepThread at hst
        cases hp : t0.pc <;> simp only [hp] at hst <;>
          (try simp only [acquire, release, notify, waitPark, waitWake, goto, enqLoop, putLoop, batchLoop,
            afterRaise, afterValue] at hst) <;>
          (repeat' split at hst) <;>
          (try simp only [Option.some.injEq, Prod.mk.injEq, reduceCtorEq] at hst) <;>
          (try (obtain ⟨-, -, rfl⟩ := hst)) <;>
          simp_all
      exact this hpc

theorem stopInFlight_of_start {t : Thread} (hx : t.x = .empty) (ho : t.outcome = none) :
    stopInFlight t = false := by
  unfold stopInFlight; rw [ho]; cases h : t.pc <;> simp [hx]

end MlModel.Queue
