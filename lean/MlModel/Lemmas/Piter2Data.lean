import MlModel.Lemmas.Piter2Dead
import MlModel.Lemmas.Piter2Shared
/-!
# Two-queue LTS: FIFO conservation at each queue

`produced = dequeued ++ q` for the INPUT queue and for the OUTPUT queue in every reachable configuration: whatever was
put into a queue of the composition and has not been taken out is in the queue, in put order (nothing is duplicated,
dropped or reordered inside either queue).  Both shared states change only by `Queue.stepThread` steps
(`step_shared`), and every such step preserves the equation.
-/
namespace MlModel.Queue

/-- the FIFO equation is preserved by every step of every thread, whatever its local state -/
def FifoStep (s : Shared) (t : Thread) (tid : Tid) (alt : Bool) : Prop :=
  ∀ lbl s' t', stepThread s t tid alt = some (lbl, s', t') →
    s.produced = s.dequeued ++ s.q → s'.produced = s'.dequeued ++ s'.q

set_option hygiene false in
macro "fifo_group" : tactic => `(tactic| (
  intro lbl s' t' h hinv
  unfold stepThread at h
  cases hpc : t.pc <;> (try (simp only [hpc, Pc.group] at hg; omega)) <;>
    simp only [hpc] at h <;>
    (try simp only [acquire, release, notify, waitPark, waitWake, goto, enqLoop, putLoop, batchLoop,
      afterRaise, afterValue] at h) <;>
    (repeat' split at h) <;>
    (try simp only [Option.some.injEq, Prod.mk.injEq, reduceCtorEq] at h) <;>
    (try (obtain ⟨-, rfl, rfl⟩ := h)) <;>
    simp_all [Shared.setOwner]))

theorem fifo_g0 {s t tid alt} (hg : t.pc.group = 0) : FifoStep s t tid alt := by fifo_group
theorem fifo_g1 {s t tid alt} (hg : t.pc.group = 1) : FifoStep s t tid alt := by fifo_group
theorem fifo_g2 {s t tid alt} (hg : t.pc.group = 2) : FifoStep s t tid alt := by fifo_group
theorem fifo_g3 {s t tid alt} (hg : t.pc.group = 3) : FifoStep s t tid alt := by fifo_group
theorem fifo_g4 {s t tid alt} (hg : t.pc.group = 4) : FifoStep s t tid alt := by fifo_group
theorem fifo_g5 {s t tid alt} (hg : t.pc.group = 5) : FifoStep s t tid alt := by fifo_group
theorem fifo_g6 {s t tid alt} (hg : t.pc.group = 6) : FifoStep s t tid alt := by fifo_group
theorem fifo_g7 {s t tid alt} (hg : t.pc.group = 7) : FifoStep s t tid alt := by fifo_group

theorem stepThread_fifo {s t tid alt} : FifoStep s t tid alt := by
  have h := Pc.group_lt t.pc
  match hg : t.pc.group with
  | 0 => exact fifo_g0 hg | 1 => exact fifo_g1 hg | 2 => exact fifo_g2 hg | 3 => exact fifo_g3 hg
  | 4 => exact fifo_g4 hg | 5 => exact fifo_g5 hg | 6 => exact fifo_g6 hg | 7 => exact fifo_g7 hg
  | n + 8 => omega

end MlModel.Queue

namespace MlModel.Piter2
open MlModel.Queue

variable {F : Nat → Option (List Nat)}

def Fifo (s : Shared) : Prop := s.produced = s.dequeued ++ s.q

theorem fifo_step {c c' : Cfg} {tid : Tid} {alt : Bool} {lbl : String} (h : step F c tid alt = some (lbl, c'))
    (h1 : Fifo c.s1) (h2 : Fifo c.s2) : Fifo c'.s1 ∧ Fifo c'.s2 := by
  obtain ⟨t, -, g1, g2⟩ := step_shared h
  constructor
  · rcases g1 with g1 | ⟨l, a', hst⟩
    · rw [g1]; exact h1
    · exact stepThread_fifo l c'.s1 a' hst h1
  · rcases g2 with g2 | ⟨l, s2', b', hst, g2 | ⟨extra, g2⟩⟩ | ⟨e, -, g2⟩
    · rw [g2]; exact h2
    · rw [g2]; exact stepThread_fifo l s2' b' hst h2
    · rw [g2]; exact stepThread_fifo l s2' b' hst h2
    · rw [g2]; exact h2

theorem fifo_reachable {c0 c : Cfg} (h : Reachable F c0 c) (h1 : Fifo c0.s1) (h2 : Fifo c0.s2) :
    Fifo c.s1 ∧ Fifo c.s2 := by
  induction h with
  | init => exact ⟨h1, h2⟩
  | step _ hs ih => exact fifo_step hs ih.1 ih.2

/-! ### exactly-once delivery out of the OUTPUT queue -/

/-- everything taken out of the output queue is what the caller holds — delivered (`received`), collected in the
current `get_batch` (`result`), in hand — or was dropped by its final raise / its early stop (`lost`) -/
def OutInv (c : Cfg) : Prop := ∀ t, c.ths[0]? = some t → List.Perm c.s2.dequeued (seqOf t.b ++ c.s2.lost)

theorem l1_s2 {c c' : Cfg} {tid : Tid} {t : Th} {alt : Bool} {lbl : String}
    (h : stepL1 c tid t alt = some (lbl, c')) : c'.s2 = c.s2 ∧ ∃ t', c'.ths = c.ths.set tid t' := by
  unfold stepL1 at h
  (repeat' split at h) <;> simp only [Option.some.injEq, Prod.mk.injEq, reduceCtorEq] at h <;>
    obtain ⟨-, rfl⟩ := h <;> exact ⟨rfl, _, rfl⟩

theorem l2_s2 {c c' : Cfg} {tid : Tid} {t : Th} {alt : Bool} {lbl : String}
    (h : stepL2 F c tid t alt = some (lbl, c')) :
    (∃ t', c'.ths = c.ths.set tid t') ∧
    (c'.s2 = c.s2 ∨
     (∃ l b', stepThread c.s2 t.b tid alt = some (l, c'.s2, b') ∧ t.b.pc ≠ .start ∧ t.b.pc ≠ .eNext ∧ t.b.pc ≠ .done) ∨
     (∃ e, c'.s2 = { c.s2 with exc := some e })) := by
  unfold stepL2 at h
  split at h
  · (repeat' split at h) <;> simp only [Option.some.injEq, Prod.mk.injEq, reduceCtorEq] at h <;>
      obtain ⟨-, rfl⟩ := h <;> exact ⟨⟨_, rfl⟩, .inl rfl⟩
  · split at h
    · (repeat' split at h) <;> simp only [Option.some.injEq, Prod.mk.injEq, reduceCtorEq] at h <;>
        obtain ⟨-, rfl⟩ := h <;> exact ⟨⟨_, rfl⟩, .inl rfl⟩
    · (repeat' split at h) <;> simp only [Option.some.injEq, Prod.mk.injEq, reduceCtorEq] at h <;>
        obtain ⟨-, rfl⟩ := h <;> exact ⟨⟨_, rfl⟩, .inl rfl⟩
    · (repeat' split at h) <;> simp only [Option.some.injEq, Prod.mk.injEq, reduceCtorEq] at h
      obtain ⟨-, rfl⟩ := h
      refine ⟨⟨_, rfl⟩, ?_⟩
      rcases afterPull_fst F c.fwd tid c.s2 t t.hand with h1 | ⟨e, h1⟩
      · exact .inl h1
      · exact .inr (.inr ⟨e, h1⟩)
    · simp at h
  · (repeat' split at h) <;> simp only [Option.some.injEq, Prod.mk.injEq, reduceCtorEq] at h <;>
      obtain ⟨-, rfl⟩ := h <;> exact ⟨⟨_, rfl⟩, .inl rfl⟩
  · rename_i h1 h2 h3
    split at h
    · simp at h
    · rename_i l s2' b' hst
      simp only [Option.some.injEq, Prod.mk.injEq] at h
      obtain ⟨-, rfl⟩ := h
      exact ⟨⟨_, rfl⟩, .inr (.inl ⟨l, b', hst, fun e => h1 e, fun e => h2 e, fun e => h3 e⟩)⟩

theorem seqOf_start_bAcq (q : Queue.Thread) (h : q.pc = .start ∨ q.pc = .bAcq) (pc' : Pc)
    (h' : pc' = .bAcq ∨ pc' = .mAcq) (p : Prog) : seqOf { q with pc := pc', prog := p } = seqOf q := by
  unfold seqOf inHand
  rcases h with h | h <;> rcases h' with h' | h' <;> simp [h, h', inHandPc]

theorem ext_dropped_nil {s : Shared} {q : Queue.Thread}
    (hk : pcKind q.pc = some .stopper ∨ pcKind q.pc = some .producer) : extOf s q = [] ∧ droppedOf q = [] := by
  unfold extOf droppedOf
  cases hpc : q.pc <;> simp_all [pcKind] <;> (rename_i cc; cases cc <;> simp_all)

theorem perm_step {α} {deq sq lost ext sq' dr : List α} (hinv : List.Perm deq (sq ++ lost))
    (hseq : sq ++ ext = sq' ++ dr) : List.Perm (deq ++ ext) (sq' ++ (lost ++ dr)) := by
  have a1 : List.Perm (deq ++ ext) ((sq ++ lost) ++ ext) := hinv.append_right ext
  have a2 : List.Perm ((sq ++ lost) ++ ext) ((sq ++ ext) ++ lost) := by
    simp only [List.append_assoc]; exact List.Perm.append_left sq List.perm_append_comm
  rw [hseq] at a2
  have a3 : List.Perm ((sq' ++ dr) ++ lost) (sq' ++ (lost ++ dr)) := by
    simp only [List.append_assoc]; exact List.Perm.append_left sq' List.perm_append_comm
  exact a1.trans (a2.trans a3)

theorem afterIter_out (c : Cfg) (pc : Pc) (s : Shared) (t : Th)
    (hp : List.Perm s.dequeued (seqOf t.b ++ s.lost)) (hE3 : pc = .bE3 → t.b.pc = .bAcq ∧ t.b.result = []) :
    List.Perm (afterIter c pc s t).1.dequeued (seqOf (afterIter c pc s t).2.b ++ (afterIter c pc s t).1.lost) := by
  unfold afterIter
  split
  · exact hp
  · split
    · rename_i hbe
      obtain ⟨hpc, hres⟩ := hE3 (by simpa using hbe)
      split
      · exact hp
      · rename_i k _
        split
        · have e1 : seqOf t.b = t.b.received := by simp [seqOf, inHand, inHandPc, hpc, hres]
          have e2 : seqOf ({ t.b with pc := .mAcq, prog := .stopper none, received := t.b.received.take k } : Queue.Thread) =
              t.b.received.take k := by simp [seqOf, inHand, inHandPc, hres]
          show List.Perm s.dequeued (seqOf _ ++ (s.lost ++ t.b.received.drop k))
          rw [e2]
          rw [e1] at hp
          have : t.b.received = t.b.received.take k ++ t.b.received.drop k := (List.take_append_drop k _).symm
          rw [this] at hp
          refine hp.trans ?_
          simp only [List.append_assoc]
          exact List.Perm.append_left _ List.perm_append_comm
        · exact hp
    · exact hp

set_option maxHeartbeats 400000 in
theorem out_step {c c' : Cfg} {tid : Tid} {alt : Bool} {lbl : String} (hg : Good c)
    (h : step F c tid alt = some (lbl, c')) (ho : OutInv c) : OutInv c' := by
  have hi := hg.inv
  unfold step at h
  split at h
  · simp at h
  rename_i t ht
  have hti := hi.ti t (List.mem_of_getElem? ht)
  have hother : tid ≠ 0 → ∀ t', c'.ths = c.ths.set tid t' → c'.s2.dequeued = c.s2.dequeued → c'.s2.lost = c.s2.lost →
      OutInv c' := by
    intro hne t' e1 e2 e3 u hu
    rw [e1, List.getElem?_set_ne hne] at hu
    rw [e2, e3]; exact ho u hu
  split at h
  · -- the caller
    rename_i hr
    have h0 : tid = 0 := (hi.role0 tid t ht).mp hr
    subst h0
    have hlt : 0 < c.ths.length := (List.getElem?_eq_some_iff.mp ht).1
    have hinv := ho t ht
    have hq2 := q2_get ht
    rw [v2_cons hr] at hq2
    have htok : TOK t.b := hg.live2.base.tok t.b (List.mem_of_getElem? hq2)
    unfold TI at hti
    simp only [hr] at hti
    have hnew : ∀ (t' : Th) (s2' : Shared) (c'' : Cfg), c''.ths = c.ths.set 0 t' → c''.s2 = s2' →
        List.Perm s2'.dequeued (seqOf t'.b ++ s2'.lost) → OutInv c'' := by
      intro t' s2' c'' e1 e2 hp u hu
      rw [e1] at hu
      simp only [List.getElem?_set_self hlt, Option.some.injEq] at hu
      subst hu
      rw [e2]; exact hp
    have hbegin : t.b.pc = .start → List.Perm c.s2.dequeued (seqOf (beginIter c t).b ++ c.s2.lost) := by
      intro hst
      unfold beginIter
      split
      · rw [seqOf_start_bAcq t.b (.inl hst) _ (.inr rfl)]; exact hinv
      · rw [show ({ t.b with pc := Pc.bAcq } : Queue.Thread) = { t.b with pc := Pc.bAcq, prog := t.b.prog } from rfl,
          seqOf_start_bAcq t.b (.inl hst) _ (.inl rfl)]; exact hinv
    unfold stepCons at h
    split at h
    · simp at h
    · -- boot
      rename_i hcpc
      simp only [hcpc] at hti
      split at h
      · simp at h
      split at h <;> simp only [Option.some.injEq, Prod.mk.injEq] at h <;> obtain ⟨-, rfl⟩ := h
      · exact hnew (beginIter c t) c.s2 _ rfl rfl (hbegin hti.2.2.1)
      · exact hnew { t with cpc := .submit } c.s2 _ rfl rfl hinv
    · -- submit
      rename_i hcpc
      simp only [hcpc] at hti
      split at h
      · simp at h
      simp only [Option.some.injEq, Prod.mk.injEq] at h
      obtain ⟨-, rfl⟩ := h
      split
      · exact hnew (beginIter c t) c.s2 _ rfl rfl (hbegin hti.2.2.1)
      · exact hnew t c.s2 _ rfl rfl hinv
    · -- iter
      rename_i hcpc
      simp only [hcpc] at hti
      split at h
      · simp at h
      rename_i l s2' b' hst
      simp only [Option.some.injEq, Prod.mk.injEq] at h
      obtain ⟨-, rfl⟩ := h
      obtain ⟨-, -, -, hdq, -, hlost, hseq⟩ := stepThread_data l s2' b' hst htok
      have hkind := kind_of_tok htok hti.2.2.2.1 hti.2.2.2.2
      rw [hti.2.2.1] at hkind
      have hne : t.b.pc ≠ .eNext := by intro e; rw [e] at hkind; simp [pcKind] at hkind
      obtain ⟨-, -, -, -, -, -, hB, -, -⟩ := stepThread_arm l s2' b' hst hne
      have hp1 : List.Perm s2'.dequeued (seqOf b' ++ s2'.lost) := by
        rw [hdq, hlost]; exact perm_step hinv hseq
      exact hnew _ _ _ rfl rfl
        (afterIter_out c t.b.pc s2' { t with b := b' } hp1 (fun e => ⟨(hB e).1, (hB e).2.2.1⟩))
    · -- stopping
      rename_i hcpc
      simp only [hcpc] at hti
      split at h
      · simp at h
      rename_i l s2' b' hst
      simp only [Option.some.injEq, Prod.mk.injEq] at h
      obtain ⟨-, rfl⟩ := h
      obtain ⟨-, -, -, hdq, -, hlost, hseq⟩ := stepThread_data l s2' b' hst htok
      have hkind := kind_of_tok htok hti.2.2.2.1 hti.2.2.2.2
      rw [hti.2.2.1] at hkind
      obtain ⟨e1, e2⟩ := ext_dropped_nil (s := c.s2) (.inl hkind)
      rw [e1, e2, List.append_nil, List.append_nil] at hseq
      rw [e1, List.append_nil] at hdq
      rw [e2, List.append_nil] at hlost
      have hp1 : List.Perm s2'.dequeued (seqOf b' ++ s2'.lost) := by rw [hdq, hlost, ← hseq]; exact hinv
      split
      · split
        · exact hnew { t with b := b', a := stopperAt t.a, cpc := .upstop } s2' _ rfl rfl hp1
        · exact hnew { t with b := b', cpc := .shutdown } s2' _ rfl rfl hp1
      · exact hnew { t with b := b' } s2' _ rfl rfl hp1
    · -- upstop
      split at h
      · simp at h
      rename_i l s1' a' hst
      simp only [Option.some.injEq, Prod.mk.injEq] at h
      obtain ⟨-, rfl⟩ := h
      exact hnew { t with a := a', cpc := (if a'.pc == .done then CPc.shutdown else CPc.upstop) } c.s2 _ rfl rfl hinv
    · -- shutdown
      (repeat' split at h) <;> simp only [Option.some.injEq, Prod.mk.injEq, reduceCtorEq] at h
      obtain ⟨-, rfl⟩ := h
      exact hnew { t with cpc := .fin } c.s2 _ rfl rfl hinv
  · -- a first-level task
    rename_i hr
    have hne : tid ≠ 0 := fun e => by
      have := (hi.role0 tid t ht).mpr e; rw [hr] at this; cases this
    obtain ⟨e2, t', e1⟩ := l1_s2 h
    exact hother hne t' e1 (by rw [e2]) (by rw [e2])
  · -- a second-level task
    rename_i hr
    have hne : tid ≠ 0 := fun e => by
      have := (hi.role0 tid t ht).mpr e; rw [hr] at this; cases this
    obtain ⟨⟨t', e1⟩, e2 | ⟨l, b', hst, h1, h2, h3⟩ | ⟨e, e2⟩⟩ := l2_s2 h
    · exact hother hne t' e1 (by rw [e2]) (by rw [e2])
    · have htok : TOK t.b := tok_of_v2 hr (hg.live2.base.tok _ (List.mem_of_getElem? (q2_get ht)))
      unfold TI at hti
      simp only [hr] at hti
      have hkind := kind_of_tok htok h1 h3
      rw [hti.1] at hkind
      obtain ⟨-, p2, p3, -⟩ := stepThread_pstep l c'.s2 b' hst hkind h2
      exact hother hne t' e1 p3 p2
    · exact hother hne t' e1 (by rw [e2]) (by rw [e2])

theorem out_reachable {c0 c : Cfg} (h : Reachable F c0 c) (hg0 : Good c0) (h0 : OutInv c0) : OutInv c := by
  induction h with
  | init => exact h0
  | step hr hs ih => exact out_step (good_reachable hg0 hr) hs ih

end MlModel.Piter2
