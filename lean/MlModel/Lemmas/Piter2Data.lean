import MlModel.Lemmas.Piter2Dead
import MlModel.Lemmas.Piter2Shared
import MlModel.Lemmas.PiterVariantDefs
/-!
# Two-queue LTS: FIFO conservation at each queue

`produced = dequeued ++ q` for the INPUT queue and for the OUTPUT queue in every reachable configuration: whatever was
put into a queue of the composition and has not been taken out is in the queue, in put order (nothing is duplicated,
dropped or reordered inside either queue).  Both shared states change only by `Queue.stepThread` steps
(`step_shared`), and every such step preserves the equation.
-/
namespace MlModel.Queue

/-- the FIFO equation is preserved by every step of every thread, whatever its local state -/
def FifoStep (s : Shared) (t : Thread) (tid : Tid) (alt : Bool) : Prop :=
  ∀ lbl s' t', stepThread s t tid alt = some (lbl, s', t') →
    s.produced = s.dequeued ++ s.q → s'.produced = s'.dequeued ++ s'.q

set_option hygiene false in
macro "fifo_group" : tactic => `(tactic| (
  intro lbl s' t' h hinv
  unfold stepThread at h
  cases hpc : t.pc <;> (try (simp only [hpc, Pc.group] at hg; omega)) <;>
    simp only [hpc] at h <;>
    (try simp only [acquire, release, notify, waitPark, waitWake, goto, enqLoop, putLoop, batchLoop,
      afterRaise, afterValue] at h) <;>
    (repeat' split at h) <;>
    (try simp only [Option.some.injEq, Prod.mk.injEq, reduceCtorEq] at h) <;>
    (try (obtain ⟨-, rfl, rfl⟩ := h)) <;>
    simp_all [Shared.setOwner]))

theorem fifo_g0 {s t tid alt} (hg : t.pc.group = 0) : FifoStep s t tid alt := by fifo_group
theorem fifo_g1 {s t tid alt} (hg : t.pc.group = 1) : FifoStep s t tid alt := by fifo_group
theorem fifo_g2 {s t tid alt} (hg : t.pc.group = 2) : FifoStep s t tid alt := by fifo_group
theorem fifo_g3 {s t tid alt} (hg : t.pc.group = 3) : FifoStep s t tid alt := by fifo_group
theorem fifo_g4 {s t tid alt} (hg : t.pc.group = 4) : FifoStep s t tid alt := by fifo_group
theorem fifo_g5 {s t tid alt} (hg : t.pc.group = 5) : FifoStep s t tid alt := by fifo_group
theorem fifo_g6 {s t tid alt} (hg : t.pc.group = 6) : FifoStep s t tid alt := by fifo_group
theorem fifo_g7 {s t tid alt} (hg : t.pc.group = 7) : FifoStep s t tid alt := by fifo_group

theorem stepThread_fifo {s t tid alt} : FifoStep s t tid alt := by
  have h := Pc.group_lt t.pc
  match hg : t.pc.group with
  | 0 => exact fifo_g0 hg | 1 => exact fifo_g1 hg | 2 => exact fifo_g2 hg | 3 => exact fifo_g3 hg
  | 4 => exact fifo_g4 hg | 5 => exact fifo_g5 hg | 6 => exact fifo_g6 hg | 7 => exact fifo_g7 hg
  | n + 8 => omega

/-- a producer holds a value it has not put yet -/
def putPc : Pc → Bool
  | .pAcq | .pPut | .pWait | .pWake => true
  | _ => false

/-- program points of `enqueue_from_iterator` -/
def prodPc : Pc → Bool
  | .sAcq | .sRel | .eNext | .pAcq | .pPut | .pStAcq | .pStRel | .pR0 | .pR1 | .pR2 | .pR3 | .pR4
  | .pRet | .pWait | .pWake | .pRaiseT | .pExit
  | .tAcq | .tR0 | .tR1 | .tR2 | .tR3 | .tR4 | .tS0 | .tS1 | .tS2 | .tS3 | .tS4 | .tRel => true
  | _ => false

theorem prodPc_of_kind {pc : Pc} (h : pcKind pc = some .producer) : prodPc pc = true := by
  cases pc <;> simp_all [pcKind, prodPc] <;> (rename_i cc; cases cc <;> simp_all)

/-- how a step moves a value from a producer's hand into the queue -/
def PutStep (s : Shared) (t : Thread) (tid : Tid) (alt : Bool) : Prop :=
  ∀ lbl s' t', stepThread s t tid alt = some (lbl, s', t') →
    s'.produced = s.produced ++ (if t.pc = .pPut ∧ t'.pc = .pStAcq then [t.v] else []) ∧
    (t.pc ≠ .eNext → prodPc t.pc = true →
      t'.v = t.v ∧ (putPc t'.pc = true → putPc t.pc = true) ∧ (t'.pc = .pStAcq → t.pc = .pPut))

set_option hygiene false in
macro "put_group" : tactic => `(tactic| (
  intro lbl s' t' h
  unfold stepThread at h
  cases hpc : t.pc <;> (try (simp only [hpc, Pc.group] at hg; omega)) <;>
    simp only [hpc] at h <;>
    (try simp only [acquire, release, notify, waitPark, waitWake, goto, enqLoop, putLoop, batchLoop,
      afterRaise, afterValue] at h) <;>
    (repeat' split at h) <;>
    (try simp only [Option.some.injEq, Prod.mk.injEq, reduceCtorEq] at h) <;>
    (try (obtain ⟨-, rfl, rfl⟩ := h)) <;>
    simp_all [Shared.setOwner, prodPc, putPc]))

theorem put_g0 {s t tid alt} (hg : t.pc.group = 0) : PutStep s t tid alt := by put_group
theorem put_g1 {s t tid alt} (hg : t.pc.group = 1) : PutStep s t tid alt := by put_group
theorem put_g2 {s t tid alt} (hg : t.pc.group = 2) : PutStep s t tid alt := by put_group
theorem put_g3 {s t tid alt} (hg : t.pc.group = 3) : PutStep s t tid alt := by put_group
theorem put_g4 {s t tid alt} (hg : t.pc.group = 4) : PutStep s t tid alt := by put_group
theorem put_g5 {s t tid alt} (hg : t.pc.group = 5) : PutStep s t tid alt := by put_group
theorem put_g6 {s t tid alt} (hg : t.pc.group = 6) : PutStep s t tid alt := by put_group
theorem put_g7 {s t tid alt} (hg : t.pc.group = 7) : PutStep s t tid alt := by put_group

theorem stepThread_put {s t tid alt} : PutStep s t tid alt := by
  have h := Pc.group_lt t.pc
  match hg : t.pc.group with
  | 0 => exact put_g0 hg | 1 => exact put_g1 hg | 2 => exact put_g2 hg | 3 => exact put_g3 hg
  | 4 => exact put_g4 hg | 5 => exact put_g5 hg | 6 => exact put_g6 hg | 7 => exact put_g7 hg
  | n + 8 => omega

/-- a producer gives up the value in its hand only when enqueueing is done (or its `put` timed out) -/
def DropStep (s : Shared) (t : Thread) (tid : Tid) (alt : Bool) : Prop :=
  ∀ lbl s' t', stepThread s t tid alt = some (lbl, s', t') →
    putPc t.pc = true → putPc t'.pc = false → t'.pc ≠ .pStAcq → s.enqueueDone = true ∨ s.timeout = true

set_option hygiene false in
macro "drop_group" : tactic => `(tactic| (
  intro lbl s' t' h
  unfold stepThread at h
  cases hpc : t.pc <;> (try (simp only [hpc, Pc.group] at hg; omega)) <;>
    simp only [hpc] at h <;>
    (try simp only [acquire, release, notify, waitPark, waitWake, goto, enqLoop, putLoop, batchLoop,
      afterRaise, afterValue] at h) <;>
    (repeat' split at h) <;>
    (try simp only [Option.some.injEq, Prod.mk.injEq, reduceCtorEq] at h) <;>
    (try (obtain ⟨-, rfl, rfl⟩ := h)) <;>
    simp_all [putPc, enqueueDone_eq, Shared.setOwner]))

theorem drop_g0 {s t tid alt} (hg : t.pc.group = 0) : DropStep s t tid alt := by drop_group
theorem drop_g1 {s t tid alt} (hg : t.pc.group = 1) : DropStep s t tid alt := by drop_group
theorem drop_g2 {s t tid alt} (hg : t.pc.group = 2) : DropStep s t tid alt := by drop_group
theorem drop_g3 {s t tid alt} (hg : t.pc.group = 3) : DropStep s t tid alt := by drop_group
theorem drop_g4 {s t tid alt} (hg : t.pc.group = 4) : DropStep s t tid alt := by drop_group
theorem drop_g5 {s t tid alt} (hg : t.pc.group = 5) : DropStep s t tid alt := by drop_group
theorem drop_g6 {s t tid alt} (hg : t.pc.group = 6) : DropStep s t tid alt := by drop_group
theorem drop_g7 {s t tid alt} (hg : t.pc.group = 7) : DropStep s t tid alt := by drop_group

theorem stepThread_drop {s t tid alt} : DropStep s t tid alt := by
  have h := Pc.group_lt t.pc
  match hg : t.pc.group with
  | 0 => exact drop_g0 hg | 1 => exact drop_g1 hg | 2 => exact drop_g2 hg | 3 => exact drop_g3 hg
  | 4 => exact drop_g4 hg | 5 => exact drop_g5 hg | 6 => exact drop_g6 hg | 7 => exact drop_g7 hg
  | n + 8 => omega

end MlModel.Queue

namespace MlModel.Piter2
open MlModel.Queue

variable {F : Nat → Option (List Nat)}

def Fifo (s : Shared) : Prop := s.produced = s.dequeued ++ s.q

theorem fifo_step {c c' : Cfg} {tid : Tid} {alt : Bool} {lbl : String} (h : step F c tid alt = some (lbl, c'))
    (h1 : Fifo c.s1) (h2 : Fifo c.s2) : Fifo c'.s1 ∧ Fifo c'.s2 := by
  obtain ⟨t, -, g1, g2⟩ := step_shared h
  constructor
  · rcases g1 with g1 | ⟨l, a', hst⟩
    · rw [g1]; exact h1
    · exact stepThread_fifo l c'.s1 a' hst h1
  · rcases g2 with g2 | ⟨l, s2', b', hst, g2 | ⟨extra, g2⟩⟩ | ⟨e, -, g2⟩
    · rw [g2]; exact h2
    · rw [g2]; exact stepThread_fifo l s2' b' hst h2
    · rw [g2]; exact stepThread_fifo l s2' b' hst h2
    · rw [g2]; exact h2

theorem fifo_reachable {c0 c : Cfg} (h : Reachable F c0 c) (h1 : Fifo c0.s1) (h2 : Fifo c0.s2) :
    Fifo c.s1 ∧ Fifo c.s2 := by
  induction h with
  | init => exact ⟨h1, h2⟩
  | step _ hs ih => exact fifo_step hs ih.1 ih.2

/-! ### exactly-once delivery out of the OUTPUT queue -/

/-- everything taken out of the output queue is what the caller holds — delivered (`received`), collected in the
current `get_batch` (`result`), in hand — or was dropped by its final raise / its early stop (`lost`) -/
def OutInv (c : Cfg) : Prop := ∀ t, c.ths[0]? = some t → List.Perm c.s2.dequeued (seqOf t.b ++ c.s2.lost)

theorem l1_s2 {c c' : Cfg} {tid : Tid} {t : Th} {alt : Bool} {lbl : String}
    (h : stepL1 c tid t alt = some (lbl, c')) : c'.s2 = c.s2 ∧ ∃ t', c'.ths = c.ths.set tid t' := by
  unfold stepL1 at h
  (repeat' split at h) <;> simp only [Option.some.injEq, Prod.mk.injEq, reduceCtorEq] at h <;>
    obtain ⟨-, rfl⟩ := h <;> exact ⟨rfl, _, rfl⟩

theorem l2_s2 {c c' : Cfg} {tid : Tid} {t : Th} {alt : Bool} {lbl : String}
    (h : stepL2 F c tid t alt = some (lbl, c')) :
    (∃ t', c'.ths = c.ths.set tid t') ∧
    (c'.s2 = c.s2 ∨
     (∃ l b', stepThread c.s2 t.b tid alt = some (l, c'.s2, b') ∧ t.b.pc ≠ .start ∧ t.b.pc ≠ .eNext ∧ t.b.pc ≠ .done) ∨
     (∃ e, c'.s2 = { c.s2 with exc := some e })) := by
  unfold stepL2 at h
  split at h
  · (repeat' split at h) <;> simp only [Option.some.injEq, Prod.mk.injEq, reduceCtorEq] at h <;>
      obtain ⟨-, rfl⟩ := h <;> exact ⟨⟨_, rfl⟩, .inl rfl⟩
  · split at h
    · (repeat' split at h) <;> simp only [Option.some.injEq, Prod.mk.injEq, reduceCtorEq] at h <;>
        obtain ⟨-, rfl⟩ := h <;> exact ⟨⟨_, rfl⟩, .inl rfl⟩
    · (repeat' split at h) <;> simp only [Option.some.injEq, Prod.mk.injEq, reduceCtorEq] at h <;>
        obtain ⟨-, rfl⟩ := h <;> exact ⟨⟨_, rfl⟩, .inl rfl⟩
    · (repeat' split at h) <;> simp only [Option.some.injEq, Prod.mk.injEq, reduceCtorEq] at h
      obtain ⟨-, rfl⟩ := h
      refine ⟨⟨_, rfl⟩, ?_⟩
      rcases afterPull_fst F c.fwd tid c.s2 t t.hand with h1 | ⟨e, h1⟩
      · exact .inl h1
      · exact .inr (.inr ⟨e, h1⟩)
    · simp at h
  · (repeat' split at h) <;> simp only [Option.some.injEq, Prod.mk.injEq, reduceCtorEq] at h <;>
      obtain ⟨-, rfl⟩ := h <;> exact ⟨⟨_, rfl⟩, .inl rfl⟩
  · rename_i h1 h2 h3
    split at h
    · simp at h
    · rename_i l s2' b' hst
      simp only [Option.some.injEq, Prod.mk.injEq] at h
      obtain ⟨-, rfl⟩ := h
      exact ⟨⟨_, rfl⟩, .inr (.inl ⟨l, b', hst, fun e => h1 e, fun e => h2 e, fun e => h3 e⟩)⟩

theorem seqOf_start_bAcq (q : Queue.Thread) (h : q.pc = .start ∨ q.pc = .bAcq) (pc' : Pc)
    (h' : pc' = .bAcq ∨ pc' = .mAcq) (p : Prog) : seqOf { q with pc := pc', prog := p } = seqOf q := by
  unfold seqOf inHand
  rcases h with h | h <;> rcases h' with h' | h' <;> simp [h, h', inHandPc]

theorem ext_dropped_nil {s : Shared} {q : Queue.Thread}
    (hk : pcKind q.pc = some .stopper ∨ pcKind q.pc = some .producer) : extOf s q = [] ∧ droppedOf q = [] := by
  unfold extOf droppedOf
  cases hpc : q.pc <;> simp_all [pcKind] <;> (rename_i cc; cases cc <;> simp_all)

theorem perm_step {α} {deq sq lost ext sq' dr : List α} (hinv : List.Perm deq (sq ++ lost))
    (hseq : sq ++ ext = sq' ++ dr) : List.Perm (deq ++ ext) (sq' ++ (lost ++ dr)) := by
  have a1 : List.Perm (deq ++ ext) ((sq ++ lost) ++ ext) := hinv.append_right ext
  have a2 : List.Perm ((sq ++ lost) ++ ext) ((sq ++ ext) ++ lost) := by
    simp only [List.append_assoc]; exact List.Perm.append_left sq List.perm_append_comm
  rw [hseq] at a2
  have a3 : List.Perm ((sq' ++ dr) ++ lost) (sq' ++ (lost ++ dr)) := by
    simp only [List.append_assoc]; exact List.Perm.append_left sq' List.perm_append_comm
  exact a1.trans (a2.trans a3)

theorem afterIter_out (c : Cfg) (pc : Pc) (s : Shared) (t : Th)
    (hp : List.Perm s.dequeued (seqOf t.b ++ s.lost)) (hE3 : pc = .bE3 → t.b.pc = .bAcq ∧ t.b.result = []) :
    List.Perm (afterIter c pc s t).1.dequeued (seqOf (afterIter c pc s t).2.b ++ (afterIter c pc s t).1.lost) := by
  unfold afterIter
  split
  · exact hp
  · split
    · rename_i hbe
      obtain ⟨hpc, hres⟩ := hE3 (by simpa using hbe)
      split
      · exact hp
      · rename_i k _
        split
        · have e1 : seqOf t.b = t.b.received := by simp [seqOf, inHand, inHandPc, hpc, hres]
          have e2 : seqOf ({ t.b with pc := .mAcq, prog := .stopper none, received := t.b.received.take k } : Queue.Thread) =
              t.b.received.take k := by simp [seqOf, inHand, inHandPc, hres]
          show List.Perm s.dequeued (seqOf _ ++ (s.lost ++ t.b.received.drop k))
          rw [e2]
          rw [e1] at hp
          have : t.b.received = t.b.received.take k ++ t.b.received.drop k := (List.take_append_drop k _).symm
          rw [this] at hp
          refine hp.trans ?_
          simp only [List.append_assoc]
          exact List.Perm.append_left _ List.perm_append_comm
        · exact hp
    · exact hp

set_option maxHeartbeats 400000 in
theorem out_step {c c' : Cfg} {tid : Tid} {alt : Bool} {lbl : String} (hg : Good c)
    (h : step F c tid alt = some (lbl, c')) (ho : OutInv c) : OutInv c' := by
  have hi := hg.inv
  unfold step at h
  split at h
  · simp at h
  rename_i t ht
  have hti := hi.ti t (List.mem_of_getElem? ht)
  have hother : tid ≠ 0 → ∀ t', c'.ths = c.ths.set tid t' → c'.s2.dequeued = c.s2.dequeued → c'.s2.lost = c.s2.lost →
      OutInv c' := by
    intro hne t' e1 e2 e3 u hu
    rw [e1, List.getElem?_set_ne hne] at hu
    rw [e2, e3]; exact ho u hu
  split at h
  · -- the caller
    rename_i hr
    have h0 : tid = 0 := (hi.role0 tid t ht).mp hr
    subst h0
    have hlt : 0 < c.ths.length := (List.getElem?_eq_some_iff.mp ht).1
    have hinv := ho t ht
    have hq2 := q2_get ht
    rw [v2_cons hr] at hq2
    have htok : TOK t.b := hg.live2.base.tok t.b (List.mem_of_getElem? hq2)
    unfold TI at hti
    simp only [hr] at hti
    have hnew : ∀ (t' : Th) (s2' : Shared) (c'' : Cfg), c''.ths = c.ths.set 0 t' → c''.s2 = s2' →
        List.Perm s2'.dequeued (seqOf t'.b ++ s2'.lost) → OutInv c'' := by
      intro t' s2' c'' e1 e2 hp u hu
      rw [e1] at hu
      simp only [List.getElem?_set_self hlt, Option.some.injEq] at hu
      subst hu
      rw [e2]; exact hp
    have hbegin : t.b.pc = .start → List.Perm c.s2.dequeued (seqOf (beginIter c t).b ++ c.s2.lost) := by
      intro hst
      unfold beginIter
      split
      · rw [seqOf_start_bAcq t.b (.inl hst) _ (.inr rfl)]; exact hinv
      · rw [show ({ t.b with pc := Pc.bAcq } : Queue.Thread) = { t.b with pc := Pc.bAcq, prog := t.b.prog } from rfl,
          seqOf_start_bAcq t.b (.inl hst) _ (.inl rfl)]; exact hinv
    unfold stepCons at h
    split at h
    · simp at h
    · -- boot
      rename_i hcpc
      simp only [hcpc] at hti
      split at h
      · simp at h
      split at h <;> simp only [Option.some.injEq, Prod.mk.injEq] at h <;> obtain ⟨-, rfl⟩ := h
      · exact hnew (beginIter c t) c.s2 _ rfl rfl (hbegin hti.2.2.1)
      · exact hnew { t with cpc := .submit } c.s2 _ rfl rfl hinv
    · -- submit
      rename_i hcpc
      simp only [hcpc] at hti
      split at h
      · simp at h
      simp only [Option.some.injEq, Prod.mk.injEq] at h
      obtain ⟨-, rfl⟩ := h
      split
      · exact hnew (beginIter c t) c.s2 _ rfl rfl (hbegin hti.2.2.1)
      · exact hnew t c.s2 _ rfl rfl hinv
    · -- iter
      rename_i hcpc
      simp only [hcpc] at hti
      split at h
      · simp at h
      rename_i l s2' b' hst
      simp only [Option.some.injEq, Prod.mk.injEq] at h
      obtain ⟨-, rfl⟩ := h
      obtain ⟨-, -, -, hdq, -, hlost, hseq⟩ := stepThread_data l s2' b' hst htok
      have hkind := kind_of_tok htok hti.2.2.2.1 hti.2.2.2.2
      rw [hti.2.2.1] at hkind
      have hne : t.b.pc ≠ .eNext := by intro e; rw [e] at hkind; simp [pcKind] at hkind
      obtain ⟨-, -, -, -, -, -, hB, -, -⟩ := stepThread_arm l s2' b' hst hne
      have hp1 : List.Perm s2'.dequeued (seqOf b' ++ s2'.lost) := by
        rw [hdq, hlost]; exact perm_step hinv hseq
      exact hnew _ _ _ rfl rfl
        (afterIter_out c t.b.pc s2' { t with b := b' } hp1 (fun e => ⟨(hB e).1, (hB e).2.2.1⟩))
    · -- stopping
      rename_i hcpc
      simp only [hcpc] at hti
      split at h
      · simp at h
      rename_i l s2' b' hst
      simp only [Option.some.injEq, Prod.mk.injEq] at h
      obtain ⟨-, rfl⟩ := h
      obtain ⟨-, -, -, hdq, -, hlost, hseq⟩ := stepThread_data l s2' b' hst htok
      have hkind := kind_of_tok htok hti.2.2.2.1 hti.2.2.2.2
      rw [hti.2.2.1] at hkind
      obtain ⟨e1, e2⟩ := ext_dropped_nil (s := c.s2) (.inl hkind)
      rw [e1, e2, List.append_nil, List.append_nil] at hseq
      rw [e1, List.append_nil] at hdq
      rw [e2, List.append_nil] at hlost
      have hp1 : List.Perm s2'.dequeued (seqOf b' ++ s2'.lost) := by rw [hdq, hlost, ← hseq]; exact hinv
      split
      · split
        · exact hnew { t with b := b', a := stopperAt t.a, cpc := .upstop } s2' _ rfl rfl hp1
        · exact hnew { t with b := b', cpc := .shutdown } s2' _ rfl rfl hp1
      · exact hnew { t with b := b' } s2' _ rfl rfl hp1
    · -- upstop
      split at h
      · simp at h
      rename_i l s1' a' hst
      simp only [Option.some.injEq, Prod.mk.injEq] at h
      obtain ⟨-, rfl⟩ := h
      exact hnew { t with a := a', cpc := (if a'.pc == .done then CPc.shutdown else CPc.upstop) } c.s2 _ rfl rfl hinv
    · -- shutdown
      (repeat' split at h) <;> simp only [Option.some.injEq, Prod.mk.injEq, reduceCtorEq] at h
      obtain ⟨-, rfl⟩ := h
      exact hnew { t with cpc := .fin } c.s2 _ rfl rfl hinv
  · -- a first-level task
    rename_i hr
    have hne : tid ≠ 0 := fun e => by
      have := (hi.role0 tid t ht).mpr e; rw [hr] at this; cases this
    obtain ⟨e2, t', e1⟩ := l1_s2 h
    exact hother hne t' e1 (by rw [e2]) (by rw [e2])
  · -- a second-level task
    rename_i hr
    have hne : tid ≠ 0 := fun e => by
      have := (hi.role0 tid t ht).mpr e; rw [hr] at this; cases this
    obtain ⟨⟨t', e1⟩, e2 | ⟨l, b', hst, h1, h2, h3⟩ | ⟨e, e2⟩⟩ := l2_s2 h
    · exact hother hne t' e1 (by rw [e2]) (by rw [e2])
    · have htok : TOK t.b := tok_of_v2 hr (hg.live2.base.tok _ (List.mem_of_getElem? (q2_get ht)))
      unfold TI at hti
      simp only [hr] at hti
      have hkind := kind_of_tok htok h1 h3
      rw [hti.1] at hkind
      obtain ⟨-, p2, p3, -⟩ := stepThread_pstep l c'.s2 b' hst hkind h2
      exact hother hne t' e1 p3 p2
    · exact hother hne t' e1 (by rw [e2]) (by rw [e2])

/-! ### the producer side of the second level -/

/-- the outputs of the row function for one input value (`[]` when it fails) -/
def Fp (F : Nat → Option (List Nat)) (v : Nat) : List Nat := (F v).getD []

/-- the output a second-level task holds in hand on its way into `Q2.put` -/
def inflight (t : Th) : List Nat := if putPc t.b.pc then [t.b.v.2] else []

/-- what a second-level task has put into the output queue -/
def em2 (t : Th) : List Nat := if t.role = .l2 then t.emitted else []

/-- second level, producer side: (`bal`) what a task has put, holds in hand and still has pending is — in order,
without repetition — part of the row function's outputs for the values it pulled from the input queue; (`prod`) the
output queue's `produced` is exactly what the tasks have put -/
structure L2Inv (F : Nat → Option (List Nat)) (c : Cfg) : Prop where
  bal : ∀ t ∈ c.ths, t.role = .l2 → (t.emitted ++ inflight t ++ t.pend).Sublist (t.pulled.flatMap (Fp F))
  prod : List.Perm (c.s2.produced.map (·.2)) (c.ths.map em2).flatten

theorem flatten_set_append {α} {l : List (List α)} {i : Nat} {x new : List α} (h : l[i]? = some x) :
    ((l.set i (x ++ new)).flatten).Perm (l.flatten ++ new) := by
  induction l generalizing i with
  | nil => simp at h
  | cons y ys ih =>
    cases i with
    | zero =>
      simp only [List.getElem?_cons_zero, Option.some.injEq] at h
      subst h
      simp only [List.set_cons_zero, List.flatten_cons, List.append_assoc]
      exact List.Perm.append_left _ List.perm_append_comm
    | succ j =>
      simp only [List.getElem?_cons_succ] at h
      simp only [List.set_cons_succ, List.flatten_cons, List.append_assoc]
      exact List.Perm.append_left _ (ih h)

/-- one step as seen by the second-level producer-side invariant: the stepping thread `t ↦ t'`, what it adds to
`produced` of the output queue -/
structure L2Step (F : Nat → Option (List Nat)) (c c' : Cfg) (tid : Tid) (t t' : Th) (new : List Nat) : Prop where
  ths : c'.ths = c.ths.set tid t'
  role : t'.role = t.role
  prod : c'.s2.produced.map (·.2) = c.s2.produced.map (·.2) ++ new
  em : t.role = .l2 → t'.emitted = t.emitted ++ new
  nl2 : t.role ≠ .l2 → new = []
  bal : t.role = .l2 → (t.emitted ++ inflight t ++ t.pend).Sublist (t.pulled.flatMap (Fp F)) →
    (t'.emitted ++ inflight t' ++ t'.pend).Sublist (t'.pulled.flatMap (Fp F))

theorem l2inv_of_step {c c' : Cfg} {tid : Tid} {t t' : Th} {new : List Nat} (ht : c.ths[tid]? = some t)
    (hs : L2Step F c c' tid t t' new) (hv : L2Inv F c) : L2Inv F c' := by
  constructor
  · intro u hu hr
    rw [hs.ths] at hu
    rcases List.mem_or_eq_of_mem_set hu with hu | rfl
    · exact hv.bal u hu hr
    · have hr' : t.role = .l2 := by rw [← hs.role]; exact hr
      exact hs.bal hr' (hv.bal t (List.mem_of_getElem? ht) hr')
  · rw [hs.prod, hs.ths, List.map_set]
    have hget : (c.ths.map em2)[tid]? = some (em2 t) := by simp [ht]
    by_cases hr : t.role = .l2
    · have : em2 t' = em2 t ++ new := by simp [em2, hr, hs.role, hs.em hr]
      rw [this]
      exact (hv.prod.append_right new).trans (flatten_set_append hget).symm
    · have hn := hs.nl2 hr
      have : em2 t' = em2 t := by simp [em2, hr, hs.role]
      rw [this, set_self_of_get hget, hn, List.append_nil]
      exact hv.prod

theorem not_put_of_kind {q : Queue.Thread} (htok : TOK q) (hk : q.prog.kind ≠ .producer) : q.pc ≠ .pPut := by
  intro e
  exact hk (htok.kind .producer (by rw [e]; rfl))

theorem cons_not_put {c : Cfg} (hg : Good c) {t : Th} (ht : c.ths[0]? = some t) : t.b.pc ≠ .pPut := by
  have hr : t.role = .cons := (hg.inv.role0 0 t ht).mpr rfl
  have hq2 := q2_get ht
  rw [v2_cons hr] at hq2
  have htok : TOK t.b := hg.live2.base.tok t.b (List.mem_of_getElem? hq2)
  have hti := hg.inv.ti t (List.mem_of_getElem? ht)
  unfold TI at hti
  simp only [hr] at hti
  cases hc : t.cpc <;> simp only [hc] at hti
  · rw [hti.2.2.1]; simp
  · rw [hti.2.2.1]; simp
  · exact not_put_of_kind htok (by rw [hti.2.2.1]; simp)
  · exact not_put_of_kind htok (by rw [hti.2.2.1]; simp)
  · rw [hti.2.2.1.1]; simp
  · rw [hti.2.2.1]; simp
  · rw [hti.2.2.1]; simp

/-- every step replaces the stepping thread by a thread of the same role -/
theorem step_set {c c' : Cfg} {tid : Tid} {alt : Bool} {lbl : String} (h : step F c tid alt = some (lbl, c')) :
    ∃ t t', c.ths[tid]? = some t ∧ c'.ths = c.ths.set tid t' ∧ t'.role = t.role := by
  unfold step at h
  split at h
  · simp at h
  · rename_i t ht
    refine ⟨t, ?_⟩
    split at h
    · unfold stepCons at h
      (repeat' split at h) <;> simp only [Option.some.injEq, Prod.mk.injEq, reduceCtorEq] at h <;>
        obtain ⟨-, rfl⟩ := h <;>
        first
        | exact ⟨_, ht, rfl, rfl⟩
        | exact ⟨_, ht, rfl, beginIter_role c t⟩
        | exact ⟨_, ht, rfl, afterIter_role _ _ _ _⟩
        | (refine ⟨_, ht, rfl, ?_⟩; split <;> first | rfl | exact beginIter_role c t)
    · unfold stepL1 at h
      (repeat' split at h) <;> simp only [Option.some.injEq, Prod.mk.injEq, reduceCtorEq] at h <;>
        obtain ⟨-, rfl⟩ := h <;> exact ⟨_, ht, rfl, rfl⟩
    · unfold stepL2 at h
      (repeat' split at h) <;> simp only [Option.some.injEq, Prod.mk.injEq, reduceCtorEq] at h <;>
        obtain ⟨-, rfl⟩ := h <;>
        first
        | exact ⟨_, ht, rfl, rfl⟩
        | exact ⟨_, ht, rfl, afterPull_role _ _ _ _ _ _⟩
        | exact ⟨_, ht, rfl, postProd_role _ _ _ _⟩

theorem afterPull_bal {fwd : Bool} {tid : Tid} {s2 : Shared} {t : Th} (hpc : t.b.pc = .eNext) (r : Hand)
    (hbal : (t.emitted ++ inflight t ++ t.pend).Sublist (t.pulled.flatMap (Fp F))) :
    ((afterPull F fwd tid s2 t r).2.emitted ++ inflight (afterPull F fwd tid s2 t r).2 ++
        (afterPull F fwd tid s2 t r).2.pend).Sublist ((afterPull F fwd tid s2 t r).2.pulled.flatMap (Fp F)) ∧
    (afterPull F fwd tid s2 t r).2.emitted = t.emitted ∧ (afterPull F fwd tid s2 t r).1.produced = s2.produced := by
  have hin : inflight t = [] := by simp [inflight, putPc, hpc]
  rw [hin, List.append_nil] at hbal
  have hem : t.emitted.Sublist (t.pulled.flatMap (Fp F)) := (List.sublist_append_left _ _).trans hbal
  cases r with
  | stop rets => exact ⟨by simpa [afterPull, inflight, putPc] using hbal, rfl, rfl⟩
  | err e => exact ⟨by simpa [afterPull, failPull, inflight, putPc] using hbal, rfl, rfl⟩
  | item v =>
    simp only [afterPull]
    split
    · refine ⟨?_, rfl, rfl⟩
      simp only [failPull, inflight, putPc, List.flatMap_append]
      simpa using hbal.trans (List.sublist_append_left _ _)
    · refine ⟨?_, rfl, rfl⟩
      simp only [inflight, putPc, hpc, List.flatMap_append]
      simpa using hbal.trans (List.sublist_append_left _ _)
    · rename_i y ys hF
      refine ⟨?_, rfl, rfl⟩
      simp only [inflight, putPc, List.flatMap_append, List.flatMap_cons, List.flatMap_nil, Fp, hF, Option.getD_some,
        List.append_nil, if_true]
      simpa using List.Sublist.append hem (List.Sublist.refl (y :: ys))

theorem afterPull_em (fwd : Bool) (tid : Tid) (s2 : Shared) (t : Th) (r : Hand) :
    (afterPull F fwd tid s2 t r).2.emitted = t.emitted ∧ (afterPull F fwd tid s2 t r).1.produced = s2.produced := by
  unfold afterPull failPull
  (repeat' split) <;> exact ⟨rfl, rfl⟩

/-- `postProd`, field by field -/
theorem postProd_fields (tid : Tid) (t : Th) (s2' : Shared) (b' : Queue.Thread) :
    (postProd tid t s2' b').pulled = t.pulled ∧
    (postProd tid t s2' b').emitted =
      (if t.b.pc == .pPut && b'.pc == .pStAcq then t.emitted ++ [t.b.v.2] else t.emitted) ∧
    ((b'.pc = .eNext ∧ t.pend = [] ∧ (postProd tid t s2' b').b = b' ∧ (postProd tid t s2' b').pend = []) ∨
     (b'.pc = .eNext ∧ ∃ y ys, t.pend = y :: ys ∧ (postProd tid t s2' b').b = { b' with pc := .pAcq, v := (tid, y) } ∧
        (postProd tid t s2' b').pend = ys) ∨
     (b'.pc ≠ .eNext ∧ (postProd tid t s2' b').b = b' ∧ (postProd tid t s2' b').pend = t.pend)) := by
  by_cases he : b'.pc = .eNext
  · cases hp : t.pend with
    | nil =>
      refine ⟨?_, ?_, .inl ⟨he, rfl, ?_, ?_⟩⟩ <;> simp [postProd, enterNext, he, hp]
    | cons y ys =>
      refine ⟨?_, ?_, .inr (.inl ⟨he, y, ys, rfl, ?_, ?_⟩)⟩ <;> simp [postProd, enterNext, he, hp]
  · have he' : (b'.pc == Pc.eNext) = false := by simpa using he
    by_cases hd : (b'.pc == .done && wantUp t.b.pc s2' b') = true
    · refine ⟨?_, ?_, .inr (.inr ⟨he, ?_, ?_⟩)⟩ <;> simp [postProd, he', hd]
    · refine ⟨?_, ?_, .inr (.inr ⟨he, ?_, ?_⟩)⟩ <;> simp [postProd, he', hd]

/-- a `Q2` step of a second-level task, then the thread-local continuation -/
theorem postProd_bal {tid : Tid} {t : Th} {s2 s2' : Shared} {alt : Bool} {l : String} {b' : Queue.Thread}
    (hst : stepThread s2 t.b tid alt = some (l, s2', b')) (hne : t.b.pc ≠ .eNext) (hprod : prodPc t.b.pc = true) :
    ∃ new, s2'.produced.map (·.2) = s2.produced.map (·.2) ++ new ∧
      (postProd tid t s2' b').emitted = t.emitted ++ new ∧
      ((t.emitted ++ inflight t ++ t.pend).Sublist (t.pulled.flatMap (Fp F)) →
        ((postProd tid t s2' b').emitted ++ inflight (postProd tid t s2' b') ++ (postProd tid t s2' b').pend).Sublist
          ((postProd tid t s2' b').pulled.flatMap (Fp F))) := by
  obtain ⟨hp, hrest⟩ := stepThread_put l s2' b' hst
  obtain ⟨hv, hput, hps⟩ := hrest hne hprod
  obtain ⟨f1, f2, f3⟩ := postProd_fields tid t s2' b'
  rw [f1]
  by_cases hA : t.b.pc = .pPut ∧ b'.pc = .pStAcq
  · -- the value in hand went into the queue
    have hE : (postProd tid t s2' b').emitted = t.emitted ++ [t.b.v.2] := by rw [f2]; simp [hA]
    refine ⟨[t.b.v.2], by rw [hp]; simp [hA], hE, fun hbal => ?_⟩
    have hin : inflight t = [t.b.v.2] := by simp [inflight, putPc, hA.1]
    have hne' : b'.pc ≠ .eNext := by rw [hA.2]; simp
    rcases f3 with ⟨e, -⟩ | ⟨e, -⟩ | ⟨-, g1, g2⟩
    · exact absurd e hne'
    · exact absurd e hne'
    · rw [hE, g2]
      have : inflight (postProd tid t s2' b') = [] := by simp [inflight, g1, putPc, hA.2]
      rw [this]
      rw [hin] at hbal
      simpa using hbal
  · have hfl : (t.b.pc == Pc.pPut && b'.pc == Pc.pStAcq) = false := by
      cases h1 : (t.b.pc == Pc.pPut && b'.pc == Pc.pStAcq) with
      | false => rfl
      | true => simp only [Bool.and_eq_true, beq_iff_eq] at h1; exact absurd h1 hA
    have hE : (postProd tid t s2' b').emitted = t.emitted := by rw [f2, hfl]; simp
    refine ⟨[], by rw [hp]; simp [hA], by rw [hE]; simp, fun hbal => ?_⟩
    refine List.Sublist.trans ?_ hbal
    rw [hE]
    rcases f3 with ⟨e, hpend, g1, g2⟩ | ⟨e, y, ys, hpend, g1, g2⟩ | ⟨e, g1, g2⟩
    · have : inflight (postProd tid t s2' b') = [] := by simp [inflight, g1, putPc, e]
      rw [this, g2, hpend]
      simp
    · have : inflight (postProd tid t s2' b') = [y] := by simp [inflight, g1, putPc]
      rw [this, g2, hpend]
      simp only [List.append_assoc]
      exact List.Sublist.append (List.Sublist.refl _) (by simpa using List.sublist_append_right (inflight t) (y :: ys))
    · have hin' : (inflight (postProd tid t s2' b')).Sublist (inflight t) := by
        simp only [inflight, g1]
        by_cases hpp : putPc b'.pc = true
        · simp [hpp, hput hpp, hv]
        · simp [hpp]
      rw [g2]
      exact List.Sublist.append (List.Sublist.append (List.Sublist.refl _) hin') (List.Sublist.refl _)

theorem prodPc_of_tok {q : Queue.Thread} (htok : TOK q) (hk : q.prog.kind = .producer) (h1 : q.pc ≠ .start)
    (h2 : q.pc ≠ .done) : prodPc q.pc = true := by
  apply prodPc_of_kind
  rw [kind_of_tok htok h1 h2, hk]

set_option maxHeartbeats 400000 in
/-- every step of the two-queue LTS, as seen by the second-level producer-side invariant -/
theorem l2step_of_step {c c' : Cfg} {tid : Tid} {alt : Bool} {lbl : String} (hg : Good c)
    (h : step F c tid alt = some (lbl, c')) :
    ∃ t t' new, c.ths[tid]? = some t ∧ L2Step F c c' tid t t' new := by
  have hi := hg.inv
  obtain ⟨t, t', ht, hths, hrole⟩ := step_set h
  obtain ⟨t0, ht0, -, hS2⟩ := step_shared h
  rw [ht] at ht0; cases ht0
  have hti := hi.ti t (List.mem_of_getElem? ht)
  by_cases hr : t.role = .l2
  · -- a second-level task: by cases on its step
    unfold step at h
    simp only [ht, hr] at h
    have hkb : t.b.prog.kind = .producer := by unfold TI at hti; simp only [hr] at hti; exact hti.1
    have htok : TOK t.b := tok_of_v2 hr (hg.live2.base.tok _ (List.mem_of_getElem? (q2_get ht)))
    have hsame : ∀ t'' : Th, c'.ths = c.ths.set tid t'' → t''.role = t.role → c'.s2 = c.s2 → t''.b = t.b →
        t''.emitted = t.emitted → t''.pend = t.pend → t''.pulled = t.pulled →
        ∃ t t' new, c.ths[tid]? = some t ∧ L2Step F c c' tid t t' new := by
      intro t'' e1 e2 e3 e4 e5 e6 e7
      refine ⟨t, t'', [], ht, e1, e2, by rw [e3]; simp, fun _ => by rw [e5]; simp, fun _ => rfl, fun _ hb => ?_⟩
      simp only [inflight, e4, e5, e6, e7]; exact hb
    unfold stepL2 at h
    split at h
    · -- start
      rename_i hpc
      (repeat' split at h) <;> simp only [Option.some.injEq, Prod.mk.injEq, reduceCtorEq] at h
      obtain ⟨-, rfl⟩ := h
      refine ⟨t, { t with b := { t.b with pc := .sAcq } }, [], ht, rfl, rfl, by simp [Cfg.setTh],
        fun _ => by simp, fun _ => rfl, fun _ hb => ?_⟩
      simpa [inflight, putPc, hpc] using hb
    · rename_i hpc
      split at h
      · (repeat' split at h) <;> simp only [Option.some.injEq, Prod.mk.injEq, reduceCtorEq] at h <;>
          obtain ⟨-, rfl⟩ := h <;> exact hsame _ rfl rfl rfl rfl rfl rfl rfl
      · (repeat' split at h) <;> simp only [Option.some.injEq, Prod.mk.injEq, reduceCtorEq] at h <;>
          obtain ⟨-, rfl⟩ := h <;> exact hsame _ rfl rfl rfl rfl rfl rfl rfl
      · (repeat' split at h) <;> simp only [Option.some.injEq, Prod.mk.injEq, reduceCtorEq] at h
        obtain ⟨-, rfl⟩ := h
        obtain ⟨e1, e2⟩ := afterPull_em (F := F) c.fwd tid c.s2 t t.hand
        exact ⟨t, _, [], ht, rfl, afterPull_role _ _ _ _ _ _, by show List.map _ (afterPull F c.fwd tid c.s2 t t.hand).1.produced = _; rw [e2]; simp,
          fun _ => by rw [e1]; simp, fun _ => rfl, fun _ hb => (afterPull_bal hpc t.hand hb).1⟩
      · simp at h
    · (repeat' split at h) <;> simp only [Option.some.injEq, Prod.mk.injEq, reduceCtorEq] at h <;>
        obtain ⟨-, rfl⟩ := h <;> exact hsame _ rfl rfl rfl rfl rfl rfl rfl
    · rename_i h1 h2 h3
      split at h
      · simp at h
      rename_i l s2' b' hst
      simp only [Option.some.injEq, Prod.mk.injEq] at h
      obtain ⟨-, rfl⟩ := h
      obtain ⟨new, g1, g2, g3⟩ := postProd_bal (F := F) hst (fun e => h2 e)
        (prodPc_of_tok htok hkb (fun e => h1 e) (fun e => h3 e))
      exact ⟨t, _, new, ht, rfl, postProd_role _ _ _ _, g1, fun _ => g2, fun hn => absurd hr hn, fun _ hb => g3 hb⟩
  · -- the caller or a first-level task: `produced` of the output queue is untouched
    refine ⟨t, t', [], ht, hths, hrole, ?_, fun h' => absurd h' hr, fun _ => rfl, fun h' => absurd h' hr⟩
    rw [List.append_nil]
    cases hrr : t.role with
    | l2 => exact absurd hrr hr
    | l1 =>
      unfold step at h
      simp only [ht, hrr] at h
      rw [(l1_s2 h).1]
    | cons =>
      have h0 := (hi.role0 tid t ht).mp hrr
      subst h0
      have hnp := cons_not_put hg ht
      rcases hS2 with g | ⟨l, s2', b', hst, g | ⟨extra, g⟩⟩ | ⟨e, -, g⟩
      · rw [g]
      · rw [g, (stepThread_put l s2' b' hst).1]; simp [hnp]
      · rw [g]; show List.map _ s2'.produced = _; rw [(stepThread_put l s2' b' hst).1]; simp [hnp]
      · rw [g]

theorem l2inv_reachable {c0 c : Cfg} (h : Reachable F c0 c) (hg0 : Good c0) (h0 : L2Inv F c0) : L2Inv F c := by
  induction h with
  | init => exact h0
  | step hr hs ih =>
    obtain ⟨t, t', new, ht, hst⟩ := l2step_of_step (good_reachable hg0 hr) hs
    exact l2inv_of_step ht hst ih

/-! ### the producer side of the first level -/

def valsOf (l : List Item) : List Nat := l.filterMap fun i => match i with | .val v => some v | .fail => none

/-- the input value a first-level task holds in hand on its way into `Q1.put` -/
def inflight1 (t : Th) : List Nat := if putPc t.a.pc then [t.a.v.2] else []

def em1 (t : Th) : List Nat := if t.role = .l1 then t.emitted else []

def itemsOf (q : Queue.Thread) : List Item := match q.prog with | .producer src _ => src | _ => []

/-- first level, producer side: (`bal`) what a task has put and holds in hand is — in order, without repetition —
part of what it pulled from its input; (`src`) what it pulled ++ what is left of its input = its input; (`prod`) the
input queue's `produced` is exactly what the tasks have put -/
structure L1Inv (c : Cfg) : Prop where
  bal : ∀ t ∈ c.ths, t.role = .l1 → (t.emitted ++ inflight1 t).Sublist t.pulled
  src : ∀ t ∈ c.ths, t.role = .l1 →
    if t.a.pc = .start then t.pulled = [] else t.pulled ++ valsOf t.a.src = valsOf (itemsOf t.a)
  prod : List.Perm (c.s1.produced.map (·.2)) (c.ths.map em1).flatten

structure L1Step (c c' : Cfg) (tid : Tid) (t t' : Th) (new : List Nat) : Prop where
  ths : c'.ths = c.ths.set tid t'
  role : t'.role = t.role
  prod : c'.s1.produced.map (·.2) = c.s1.produced.map (·.2) ++ new
  em : t.role = .l1 → t'.emitted = t.emitted ++ new
  nl1 : t.role ≠ .l1 → new = []
  bal : t.role = .l1 → (t.emitted ++ inflight1 t).Sublist t.pulled → (t'.emitted ++ inflight1 t').Sublist t'.pulled
  src : t.role = .l1 →
    (if t.a.pc = .start then t.pulled = [] else t.pulled ++ valsOf t.a.src = valsOf (itemsOf t.a)) →
    (if t'.a.pc = .start then t'.pulled = [] else t'.pulled ++ valsOf t'.a.src = valsOf (itemsOf t'.a))

theorem l1inv_of_step {c c' : Cfg} {tid : Tid} {t t' : Th} {new : List Nat} (ht : c.ths[tid]? = some t)
    (hs : L1Step c c' tid t t' new) (hv : L1Inv c) : L1Inv c' := by
  refine ⟨?_, ?_, ?_⟩
  · intro u hu hr
    rw [hs.ths] at hu
    rcases List.mem_or_eq_of_mem_set hu with hu | rfl
    · exact hv.bal u hu hr
    · have hr' : t.role = .l1 := by rw [← hs.role]; exact hr
      exact hs.bal hr' (hv.bal t (List.mem_of_getElem? ht) hr')
  · intro u hu hr
    rw [hs.ths] at hu
    rcases List.mem_or_eq_of_mem_set hu with hu | rfl
    · exact hv.src u hu hr
    · have hr' : t.role = .l1 := by rw [← hs.role]; exact hr
      exact hs.src hr' (hv.src t (List.mem_of_getElem? ht) hr')
  · rw [hs.prod, hs.ths, List.map_set]
    have hget : (c.ths.map em1)[tid]? = some (em1 t) := by simp [ht]
    by_cases hr : t.role = .l1
    · have : em1 t' = em1 t ++ new := by simp [em1, hr, hs.role, hs.em hr]
      rw [this]
      exact (hv.prod.append_right new).trans (flatten_set_append hget).symm
    · have hn := hs.nl1 hr
      have : em1 t' = em1 t := by simp [em1, hr, hs.role]
      rw [this, set_self_of_get hget, hn, List.append_nil]
      exact hv.prod

/-- how a caller's step touches the input queue -/
theorem cons_s1 {c c' : Cfg} {tid : Tid} {t : Th} {alt : Bool} {lbl : String}
    (h : stepCons c tid t alt = some (lbl, c')) :
    c'.s1 = c.s1 ∨ (t.cpc = .upstop ∧ ∃ l a', stepThread c.s1 t.a tid alt = some (l, c'.s1, a')) := by
  unfold stepCons at h
  split at h
  · simp at h
  · (repeat' split at h) <;> simp only [Option.some.injEq, Prod.mk.injEq, reduceCtorEq] at h <;>
      obtain ⟨-, rfl⟩ := h <;> exact .inl rfl
  · (repeat' split at h) <;> simp only [Option.some.injEq, Prod.mk.injEq, reduceCtorEq] at h <;>
      obtain ⟨-, rfl⟩ := h <;> exact .inl rfl
  · (repeat' split at h) <;> simp only [Option.some.injEq, Prod.mk.injEq, reduceCtorEq] at h <;>
      obtain ⟨-, rfl⟩ := h <;> exact .inl rfl
  · (repeat' split at h) <;> simp only [Option.some.injEq, Prod.mk.injEq, reduceCtorEq] at h <;>
      obtain ⟨-, rfl⟩ := h <;> exact .inl rfl
  · rename_i hc
    split at h
    · simp at h
    · rename_i l s1' a' hst
      simp only [Option.some.injEq, Prod.mk.injEq] at h
      obtain ⟨-, rfl⟩ := h
      exact .inr ⟨hc, l, a', hst⟩
  · (repeat' split at h) <;> simp only [Option.some.injEq, Prod.mk.injEq, reduceCtorEq] at h <;>
      obtain ⟨-, rfl⟩ := h <;> exact .inl rfl

/-- how a second-level task's step touches the input queue -/
theorem l2_s1 {c c' : Cfg} {tid : Tid} {t : Th} {alt : Bool} {lbl : String}
    (h : stepL2 F c tid t alt = some (lbl, c')) :
    c'.s1 = c.s1 ∨ ((t.x = .deq ∨ t.x = .up) ∧ ∃ l a', stepThread c.s1 t.a tid alt = some (l, c'.s1, a')) := by
  unfold stepL2 at h
  split at h
  · (repeat' split at h) <;> simp only [Option.some.injEq, Prod.mk.injEq, reduceCtorEq] at h <;>
      obtain ⟨-, rfl⟩ := h <;> exact .inl rfl
  · split at h
    · (repeat' split at h) <;> simp only [Option.some.injEq, Prod.mk.injEq, reduceCtorEq] at h <;>
        obtain ⟨-, rfl⟩ := h <;> exact .inl rfl
    · rename_i hx
      split at h
      · simp at h
      · rename_i l s1' a' hst
        split at h <;> simp only [Option.some.injEq, Prod.mk.injEq] at h <;> obtain ⟨-, rfl⟩ := h <;>
          exact .inr ⟨.inl hx, l, a', hst⟩
    · (repeat' split at h) <;> simp only [Option.some.injEq, Prod.mk.injEq, reduceCtorEq] at h <;>
        obtain ⟨-, rfl⟩ := h <;> exact .inl rfl
    · simp at h
  · split at h
    · rename_i hx
      split at h
      · simp at h
      · rename_i l s1' a' hst
        simp only [Option.some.injEq, Prod.mk.injEq] at h
        obtain ⟨-, rfl⟩ := h
        exact .inr ⟨.inr hx, l, a', hst⟩
    · simp at h
  · (repeat' split at h) <;> simp only [Option.some.injEq, Prod.mk.injEq, reduceCtorEq] at h <;>
      obtain ⟨-, rfl⟩ := h <;> exact .inl rfl

theorem valsOf_cons_val (v : Nat) (l : List Item) : valsOf (.val v :: l) = v :: valsOf l := by simp [valsOf]
theorem valsOf_cons_fail (l : List Item) : valsOf (.fail :: l) = valsOf l := by simp [valsOf]

set_option maxHeartbeats 400000 in
/-- every step of the two-queue LTS, as seen by the first-level producer-side invariant -/
theorem l1step_of_step {c c' : Cfg} {tid : Tid} {alt : Bool} {lbl : String} (hg : Good c)
    (h : step F c tid alt = some (lbl, c')) :
    ∃ t t' new, c.ths[tid]? = some t ∧ L1Step c c' tid t t' new := by
  have hi := hg.inv
  obtain ⟨t, t', ht, hths, hrole⟩ := step_set h
  have hti := hi.ti t (List.mem_of_getElem? ht)
  have hq1 := q1_get ht
  -- a step of a part that is not a producer leaves `produced` alone
  have hnoprod : ∀ (l : String) (a' : Queue.Thread), t.role ≠ .l1 → v1 t = t.a →
      stepThread c.s1 t.a tid alt = some (l, c'.s1, a') → c'.s1.produced = c.s1.produced := by
    intro l a' hr hv hst
    rw [hv] at hq1
    have htok : TOK t.a := hg.live1.base.tok t.a (List.mem_of_getElem? hq1)
    have hk : t.a.prog.kind ≠ .producer := by
      intro e
      have : isProd (v1 t) = true := by rw [hv]; simp [isProd, e]
      exact hr (isProd_v1 hti this)
    rw [(stepThread_put l c'.s1 a' hst).1]
    simp [not_put_of_kind htok hk]
  unfold step at h
  simp only [ht] at h
  cases hr : t.role with
  | cons =>
    simp only [hr] at h
    have hne1 : t.role ≠ .l1 := by rw [hr]; simp
    refine ⟨t, t', [], ht, hths, hrole, ?_, fun e => absurd e hne1, fun _ => rfl,
      fun e => absurd e hne1, fun e => absurd e hne1⟩
    rw [List.append_nil]
    rcases cons_s1 h with g | ⟨hc, l, a', hst⟩
    · rw [g]
    · rw [hnoprod l a' (by rw [hr]; simp) (by simp [v1, hr, hc]) hst]
  | l2 =>
    simp only [hr] at h
    have hne1 : t.role ≠ .l1 := by rw [hr]; simp
    refine ⟨t, t', [], ht, hths, hrole, ?_, fun e => absurd e hne1, fun _ => rfl,
      fun e => absurd e hne1, fun e => absurd e hne1⟩
    rw [List.append_nil]
    rcases l2_s1 h with g | ⟨hx, l, a', hst⟩
    · rw [g]
    · rw [hnoprod l a' (by rw [hr]; simp) (v1_l2_on hr hx) hst]
  | l1 =>
    simp only [hr] at h
    rw [v1_l1 hr] at hq1
    have htok : TOK t.a := hg.live1.base.tok t.a (List.mem_of_getElem? hq1)
    have hkp : t.a.prog.kind = .producer := by unfold TI at hti; simp only [hr] at hti; exact hti
    unfold stepL1 at h
    split at h
    · -- start
      rename_i hpc
      (repeat' split at h) <;> simp only [Option.some.injEq, Prod.mk.injEq, reduceCtorEq] at h
      rename_i l s1' a' hst
      obtain ⟨-, rfl⟩ := h
      cases hprog : t.a.prog with
      | producer items ret =>
        have hst' : stepThread c.s1 t.a tid alt = some ("start", c.s1, { t.a with pc := .sAcq, src := items }) := by
          rename_i halt _ _
          have : alt = false := by simpa using halt
          subst this
          simp [stepThread, hpc, hprog]
        rw [hst'] at hst
        simp only [Option.some.injEq, Prod.mk.injEq] at hst
        obtain ⟨-, rfl, rfl⟩ := hst
        refine ⟨t, { t with a := { t.a with pc := .sAcq, src := items } }, [], ht, rfl, rfl, by simp,
          fun _ => by simp, fun e => absurd hr e, fun _ hb => ?_, fun _ hsrc => ?_⟩
        · simpa [inflight1, putPc, hpc] using hb
        · simp only [hpc, if_true] at hsrc
          simp [hsrc, itemsOf, hprog]
      | getLoop => rw [hprog] at hkp; cases hkp
      | batchLoop _ _ => rw [hprog] at hkp; cases hkp
      | stopper _ => rw [hprog] at hkp; cases hkp
    · -- eNext
      rename_i hpc
      split at h
      · simp at h
      rename_i halt
      have halt' : alt = false := by simpa using halt
      subst halt'
      split at h
      · -- the input ends
        simp only [Option.some.injEq, Prod.mk.injEq] at h
        obtain ⟨-, rfl⟩ := h
        refine ⟨t, _, [], ht, rfl, rfl, by simp [Cfg.setTh], fun _ => by simp, fun e => absurd hr e,
          fun _ hb => ?_, fun _ hsrc => ?_⟩
        · simpa [inflight1, putPc, hpc] using hb
        · simpa [hpc, itemsOf] using hsrc
      · rename_i i rest hsrc0
        split at h
        · simp at h
        rename_i l s1' a' hst
        simp only [Option.some.injEq, Prod.mk.injEq] at h
        obtain ⟨-, rfl⟩ := h
        have hp := (stepThread_put l s1' a' hst).1
        have hprod : s1'.produced = c.s1.produced := by rw [hp]; simp [hpc]
        cases i with
        | val v =>
          have hst' : stepThread c.s1 t.a tid false =
              some ("next", c.s1, { t.a with pc := .pAcq, v := (tid, v), src := rest }) := by
            simp [stepThread, hpc, hsrc0]
          rw [hst'] at hst
          simp only [Option.some.injEq, Prod.mk.injEq] at hst
          obtain ⟨-, rfl, rfl⟩ := hst
          refine ⟨t, _, [], ht, rfl, rfl, by simp, fun _ => by simp, fun e => absurd hr e,
            fun _ hb => ?_, fun _ hsrc => ?_⟩
          · have hin : inflight1 t = [] := by simp [inflight1, putPc, hpc]
            rw [hin, List.append_nil] at hb
            simp only [inflight1, putPc, if_true]
            exact List.Sublist.append hb (List.Sublist.refl _)
          · simp only [hpc, reduceCtorEq, if_false, hsrc0, valsOf_cons_val] at hsrc
            simp [itemsOf]
            exact hsrc
        | fail =>
          have hst' : stepThread c.s1 t.a tid false =
              some ("next", { c.s1 with exc := some .value },
                { t.a with pc := .tAcq, src := rest, rets := [], reraise := some .value }) := by
            simp [stepThread, hpc, hsrc0, hi.ig1]
          rw [hst'] at hst
          simp only [Option.some.injEq, Prod.mk.injEq] at hst
          obtain ⟨-, rfl, rfl⟩ := hst
          refine ⟨t, _, [], ht, rfl, rfl, by simp, fun _ => by simp, fun e => absurd hr e,
            fun _ hb => ?_, fun _ hsrc => ?_⟩
          · simpa [inflight1, putPc, hpc] using hb
          · simp only [hpc, reduceCtorEq, if_false, hsrc0, valsOf_cons_fail] at hsrc
            simp [itemsOf]
            exact hsrc
    · -- a step on the input queue
      rename_i h1 h2
      split at h
      · simp at h
      rename_i l s1' a' hst
      simp only [Option.some.injEq, Prod.mk.injEq] at h
      obtain ⟨-, rfl⟩ := h
      have hdone : t.a.pc ≠ .done := by intro e; simp [stepThread, e] at hst
      obtain ⟨hp, hrest⟩ := stepThread_put l s1' a' hst
      obtain ⟨hv, hput, hps⟩ := hrest (fun e => h2 e) (prodPc_of_tok htok hkp (fun e => h1 e) hdone)
      obtain ⟨-, hprog', -⟩ := stepThread_data l s1' a' hst htok
      have hsrc' := Piter.stepThread_src l s1' a' hst (fun e => h1 e) (fun e => h2 e)
      have hp1 := (stepThread_pc l s1' a' hst).1
      by_cases hA : t.a.pc = .pPut ∧ a'.pc = .pStAcq
      · refine ⟨t, _, [t.a.v.2], ht, rfl, rfl, by rw [hp]; simp [hA], fun _ => by simp [hA],
          fun e => absurd hr e, fun _ hb => ?_, fun _ hsrc => ?_⟩
        · have hin : inflight1 t = [t.a.v.2] := by simp [inflight1, putPc, hA.1]
          rw [hin] at hb
          simpa [inflight1, putPc, hA] using hb
        · have : t.a.pc ≠ .start := fun e => h1 e
          simp only [this, if_false] at hsrc
          simp only [hp1, if_false, hsrc', itemsOf, hprog']
          simpa [itemsOf] using hsrc
      · have hfl : (t.a.pc == Pc.pPut && a'.pc == Pc.pStAcq) = false := by
          cases h1' : (t.a.pc == Pc.pPut && a'.pc == Pc.pStAcq) with
          | false => rfl
          | true => simp only [Bool.and_eq_true, beq_iff_eq] at h1'; exact absurd h1' hA
        refine ⟨t, _, [], ht, rfl, rfl, by rw [hp]; simp [hA], fun _ => by simp [hfl],
          fun e => absurd hr e, fun _ hb => ?_, fun _ hsrc => ?_⟩
        · refine List.Sublist.trans ?_ hb
          simp only [hfl, Bool.false_eq_true, if_false]
          refine List.Sublist.append (List.Sublist.refl _) ?_
          simp only [inflight1]
          by_cases hpp : putPc a'.pc = true
          · simp [hpp, hput hpp, hv]
          · simp [hpp]
        · have : t.a.pc ≠ .start := fun e => h1 e
          simp only [this, if_false] at hsrc
          simp only [hp1, if_false, hsrc', itemsOf, hprog']
          simpa [itemsOf] using hsrc

theorem l1inv_reachable {c0 c : Cfg} (h : Reachable F c0 c) (hg0 : Good c0) (h0 : L1Inv c0) : L1Inv c := by
  induction h with
  | init => exact h0
  | step hr hs ih =>
    obtain ⟨t, t', new, ht, hst⟩ := l1step_of_step (good_reachable hg0 hr) hs
    exact l1inv_of_step ht hst ih

/-! ### the consumer side of the INPUT queue: where the dequeued values are -/

def handVal : Hand → List Nat
  | .item v => [v]
  | _ => []

/-- the input values a second-level task has pulled ++ the ones it holds on their way (result of the running
`Q1.get_batch`, value in hand inside it, value returned by `DequeueIterator.__next__` and not yet consumed) -/
def own (t : Th) : List Nat :=
  if t.role = .l2 then
    t.pulled ++ (if t.x = .lockRel then handVal t.hand else []) ++
      (if t.x = .deq then (t.a.result ++ inHand t.a).map (·.2) else [])
  else []

/-- everything taken out of the input queue is: pulled by a second-level task, or on its way to one, or in the shared
cache of `DequeueIterator(Q1)`, or dropped by a raising `get_batch` -/
def In1Inv (c : Cfg) : Prop :=
  List.Perm (c.s1.dequeued.map (·.2)) ((c.ths.map own).flatten ++ c.cache.map (·.2) ++ c.s1.lost.map (·.2))

theorem flatten_set_perm {α} {l : List (List α)} {i : Nat} {x : List α} (y : List α) (h : l[i]? = some x) :
    ∃ r, List.Perm l.flatten (x ++ r) ∧ List.Perm (l.set i y).flatten (y ++ r) := by
  induction l generalizing i with
  | nil => simp at h
  | cons z zs ih =>
    cases i with
    | zero =>
      simp only [List.getElem?_cons_zero, Option.some.injEq] at h
      subst h
      exact ⟨zs.flatten, by simp, by simp⟩
    | succ j =>
      simp only [List.getElem?_cons_succ] at h
      obtain ⟨r, h1, h2⟩ := ih h
      refine ⟨z ++ r, ?_, ?_⟩
      · simp only [List.flatten_cons]
        refine (List.Perm.append_left z h1).trans ?_
        simp only [← List.append_assoc]
        exact List.Perm.append_right r List.perm_append_comm
      · simp only [List.set_cons_succ, List.flatten_cons]
        refine (List.Perm.append_left z h2).trans ?_
        simp only [← List.append_assoc]
        exact List.Perm.append_right r List.perm_append_comm

/-- one step as seen by `In1Inv`: what is newly dequeued (`X`) shows up with the stepping thread, in the cache or in
`lost` -/
structure In1Step (c c' : Cfg) (tid : Tid) (t t' : Th) (X : List Nat) : Prop where
  ths : c'.ths = c.ths.set tid t'
  deq : c'.s1.dequeued.map (·.2) = c.s1.dequeued.map (·.2) ++ X
  bal : List.Perm (own t' ++ c'.cache.map (·.2) ++ c'.s1.lost.map (·.2))
    (own t ++ c.cache.map (·.2) ++ c.s1.lost.map (·.2) ++ X)

theorem in1_of_step {c c' : Cfg} {tid : Tid} {t t' : Th} {X : List Nat} (ht : c.ths[tid]? = some t)
    (hs : In1Step c c' tid t t' X) (hv : In1Inv c) : In1Inv c' := by
  unfold In1Inv at hv ⊢
  rw [hs.deq, hs.ths, List.map_set]
  have hget : (c.ths.map own)[tid]? = some (own t) := by simp [ht]
  obtain ⟨r, h1, h2⟩ := flatten_set_perm (own t') hget
  -- old: dequeued ~ (own t ++ r) ++ cache ++ lost ; new: (own t' ++ r) ++ cache' ++ lost'
  have a1 : List.Perm (c.s1.dequeued.map (·.2) ++ X)
      ((own t ++ c.cache.map (·.2) ++ c.s1.lost.map (·.2) ++ X) ++ r) := by
    refine (hv.append_right X).trans ?_
    refine ((h1.append_right _).append_right _).append_right X |>.trans ?_
    simp only [List.append_assoc]
    refine List.Perm.append_left _ ?_
    -- r ++ (cache ++ (lost ++ X)) ~ cache ++ (lost ++ (X ++ r))
    have : List.Perm (r ++ (c.cache.map (·.2) ++ (c.s1.lost.map (·.2) ++ X)))
        ((c.cache.map (·.2) ++ (c.s1.lost.map (·.2) ++ X)) ++ r) := List.perm_append_comm
    simpa [List.append_assoc] using this
  have a2 : List.Perm ((own t ++ c.cache.map (·.2) ++ c.s1.lost.map (·.2) ++ X) ++ r)
      ((own t' ++ c'.cache.map (·.2) ++ c'.s1.lost.map (·.2)) ++ r) := hs.bal.symm.append_right r
  refine a1.trans (a2.trans ?_)
  have a3 : List.Perm ((own t' ++ c'.cache.map (·.2) ++ c'.s1.lost.map (·.2)) ++ r)
      ((own t' ++ r) ++ c'.cache.map (·.2) ++ c'.s1.lost.map (·.2)) := by
    simp only [List.append_assoc]
    refine List.Perm.append_left _ ?_
    have : List.Perm (c'.cache.map (·.2) ++ (c'.s1.lost.map (·.2) ++ r))
        (r ++ (c'.cache.map (·.2) ++ c'.s1.lost.map (·.2))) := by
      rw [← List.append_assoc]; exact List.perm_append_comm
    simpa [List.append_assoc] using this
  exact a3.trans (((h2.symm).append_right _).append_right _)

theorem ext_dropped_nil' {s : Shared} {q : Queue.Thread} (h1 : ∀ cc, q.pc ≠ .nGet cc) (h2 : q.pc ≠ .bRaise) :
    extOf s q = [] ∧ droppedOf q = [] := by
  unfold extOf droppedOf
  cases hpc : q.pc <;> simp_all

theorem no_get_of_kind {q : Queue.Thread} (htok : TOK q) (hk : q.prog.kind = .producer ∨ q.prog.kind = .stopper) :
    (∀ cc, q.pc ≠ .nGet cc) ∧ q.pc ≠ .bRaise := by
  constructor
  · intro cc e
    cases cc with
    | get =>
      have := htok.kind .get (by rw [e]; rfl)
      rcases hk with hk | hk <;> rw [hk] at this <;> cases this
    | batch =>
      have := htok.kind .batch (by rw [e]; rfl)
      rcases hk with hk | hk <;> rw [hk] at this <;> cases this
  · intro e
    have := htok.kind .batch (by rw [e]; rfl)
    rcases hk with hk | hk <;> rw [hk] at this <;> cases this

/-- the caller and the first-level tasks do not touch the cache of `DequeueIterator(Q1)` -/
theorem cons_cache {c c' : Cfg} {tid : Tid} {t : Th} {alt : Bool} {lbl : String}
    (h : stepCons c tid t alt = some (lbl, c')) : c'.cache = c.cache := by
  unfold stepCons at h
  (repeat' split at h) <;> simp only [Option.some.injEq, Prod.mk.injEq, reduceCtorEq] at h <;>
    obtain ⟨-, rfl⟩ := h <;> rfl

theorem l1_cache {c c' : Cfg} {tid : Tid} {t : Th} {alt : Bool} {lbl : String}
    (h : stepL1 c tid t alt = some (lbl, c')) : c'.cache = c.cache := by
  unfold stepL1 at h
  (repeat' split at h) <;> simp only [Option.some.injEq, Prod.mk.injEq, reduceCtorEq] at h <;>
    obtain ⟨-, rfl⟩ := h <;> rfl

theorem afterPull_pulled (fwd : Bool) (tid : Tid) (s2 : Shared) (t : Th) (r : Hand) :
    (afterPull F fwd tid s2 t r).2.pulled = t.pulled ++ handVal r ∧
    ((afterPull F fwd tid s2 t r).2.x = .idle ∨ (afterPull F fwd tid s2 t r).2.x = .lockAcq) := by
  unfold afterPull failPull
  cases r <;> simp only [handVal, List.append_nil] <;> (repeat' split) <;> simp

theorem perm_move_end {α} (a b c d : List α) : List.Perm (a ++ (b ++ d) ++ c) (a ++ b ++ c ++ d) := by
  simp only [List.append_assoc]
  exact List.Perm.append_left a (List.Perm.append_left b List.perm_append_comm)

set_option maxHeartbeats 400000 in
/-- every step of the two-queue LTS, as seen by the consumer side of the input queue -/
theorem in1step_of_step {c c' : Cfg} {tid : Tid} {alt : Bool} {lbl : String} (hg : Good c)
    (h : step F c tid alt = some (lbl, c')) :
    ∃ t t' X, c.ths[tid]? = some t ∧ In1Step c c' tid t t' X := by
  have hi := hg.inv
  obtain ⟨t, t', ht, hths, hrole⟩ := step_set h
  have hti := hi.ti t (List.mem_of_getElem? ht)
  have hq1 := q1_get ht
  -- a step of a producer / stopper part dequeues nothing and drops nothing
  have hquiet : ∀ (l : String) (a' : Queue.Thread), v1 t = t.a →
      (t.a.prog.kind = .producer ∨ t.a.prog.kind = .stopper) →
      stepThread c.s1 t.a tid alt = some (l, c'.s1, a') →
      c'.s1.dequeued = c.s1.dequeued ∧ c'.s1.lost = c.s1.lost := by
    intro l a' hv hk hst
    rw [hv] at hq1
    have htok : TOK t.a := hg.live1.base.tok t.a (List.mem_of_getElem? hq1)
    obtain ⟨-, -, -, hdq, -, hlost, -⟩ := stepThread_data l c'.s1 a' hst htok
    obtain ⟨g1, g2⟩ := no_get_of_kind htok hk
    obtain ⟨e1, e2⟩ := ext_dropped_nil' (s := c.s1) g1 g2
    rw [hdq, hlost, e1, e2]; simp
  have hnone : t.role ≠ .l2 → c'.cache = c.cache → c'.s1.dequeued = c.s1.dequeued → c'.s1.lost = c.s1.lost →
      ∃ t t' X, c.ths[tid]? = some t ∧ In1Step c c' tid t t' X := by
    intro hr e1 e2 e3
    refine ⟨t, t', [], ht, hths, by rw [e2]; simp, ?_⟩
    have o1 : own t = [] := by simp [own, hr]
    have o2 : own t' = [] := by simp [own, hrole, hr]
    rw [o1, o2, e1, e3]; simp
  unfold step at h
  simp only [ht] at h
  cases hr : t.role with
  | cons =>
    simp only [hr] at h
    have hka : t.a.prog.kind = .stopper := by unfold TI at hti; simp only [hr] at hti; exact hti.1
    rcases cons_s1 h with g | ⟨hc, l, a', hst⟩
    · exact hnone (by rw [hr]; simp) (cons_cache h) (by rw [g]) (by rw [g])
    · obtain ⟨e2, e3⟩ := hquiet l a' (by simp [v1, hr, hc]) (.inr hka) hst
      exact hnone (by rw [hr]; simp) (cons_cache h) e2 e3
  | l1 =>
    simp only [hr] at h
    have hka : t.a.prog.kind = .producer := by unfold TI at hti; simp only [hr] at hti; exact hti
    obtain ⟨t0, ht0, hS1, -⟩ := stepL1_shared h |> fun x => (⟨t, ht, x.1, x.2⟩ : ∃ t0, c.ths[tid]? = some t0 ∧ S1 c t tid alt c' ∧ S2 c t tid alt c')
    rcases hS1 with g | ⟨l, a', hst⟩
    · exact hnone (by rw [hr]; simp) (l1_cache h) (by rw [g]) (by rw [g])
    · obtain ⟨e2, e3⟩ := hquiet l a' (v1_l1 hr) (.inl hka) hst
      exact hnone (by rw [hr]; simp) (l1_cache h) e2 e3
  | l2 =>
    simp only [hr] at h
    have hti' := hti
    unfold TI at hti'
    simp only [hr] at hti'
    replace hti' := hti'.2
    -- a step that moves no input value
    have hsame : ∀ t'' : Th, c'.ths = c.ths.set tid t'' → c'.cache = c.cache → c'.s1.dequeued = c.s1.dequeued →
        c'.s1.lost = c.s1.lost → own t'' = own t → ∃ t t' X, c.ths[tid]? = some t ∧ In1Step c c' tid t t' X := by
      intro t'' e0 e1 e2 e3 e4
      refine ⟨t, t'', [], ht, e0, by rw [e2]; simp, ?_⟩
      rw [e1, e3, e4]; simp
    unfold stepL2 at h
    split at h
    · -- start
      rename_i hpc
      (repeat' split at h) <;> simp only [Option.some.injEq, Prod.mk.injEq, reduceCtorEq] at h
      obtain ⟨-, rfl⟩ := h
      exact hsame _ rfl rfl rfl rfl (by simp [own])
    · rename_i hpc
      split at h
      · -- lockAcq
        rename_i hxx
        split at h
        · simp at h
        split at h
        · simp at h
        split at h
        · rename_i v rest hcache
          simp only [Option.some.injEq, Prod.mk.injEq] at h
          obtain ⟨-, rfl⟩ := h
          refine ⟨t, _, [], ht, rfl, by simp, ?_⟩
          simp [own, hr, hxx, handVal, hcache]
        · rename_i hcache
          simp only [Option.some.injEq, Prod.mk.injEq] at h
          obtain ⟨-, rfl⟩ := h
          exact hsame _ rfl rfl rfl rfl (by simp [own, hr, hxx, inHand, inHandPc])
      · -- deq
        rename_i hxx
        simp only [hxx] at hti'
        obtain ⟨-, hka, hns, hnd, -⟩ := hti'
        rw [v1_l2_on hr (.inl hxx)] at hq1
        split at h
        · simp at h
        rename_i l s1' a' hst
        have htok : TOK t.a := hg.live1.base.tok t.a (List.mem_of_getElem? hq1)
        obtain ⟨-, -, -, hdq, -, hlost, hseq⟩ := stepThread_data l s1' a' hst htok
        have hkind := kind_of_tok htok hns hnd
        rw [hka] at hkind
        have hne : t.a.pc ≠ .eNext := by intro e; rw [e] at hkind; simp [pcKind] at hkind
        obtain ⟨-, -, -, -, -, hA, hB, hrec, -⟩ := stepThread_arm l s1' a' hst hne
        split at h
        · -- the call goes on
          rename_i hbe
          simp only [Option.some.injEq, Prod.mk.injEq] at h
          obtain ⟨-, rfl⟩ := h
          obtain ⟨hn3, hnr⟩ := batchEnd_none hbe
          have hdr : droppedOf t.a = [] := by unfold droppedOf; cases hp : t.a.pc <;> simp_all
          have hrec' : a'.received = t.a.received := by
            rcases hrec with e | e | e
            · exact e
            · exact absurd e hn3
            · rw [e] at hkind; simp [pcKind] at hkind
          rw [hdr, List.append_nil] at hseq hlost
          have hR : a'.result ++ inHand a' = (t.a.result ++ inHand t.a) ++ extOf c.s1 t.a := by
            unfold seqOf at hseq
            rw [hrec'] at hseq
            simp only [List.append_assoc] at hseq ⊢
            exact (List.append_cancel_left hseq).symm
          refine ⟨t, { t with a := a' }, (extOf c.s1 t.a).map (·.2), ht, rfl, by rw [hdq]; simp, ?_⟩
          have o1 : own t = t.pulled ++ (t.a.result ++ inHand t.a).map (·.2) := by simp [own, hr, hxx]
          have o2 : own { t with a := a' } = t.pulled ++ ((t.a.result ++ inHand t.a) ++ extOf c.s1 t.a).map (·.2) := by
            simp only [own, hr, hxx, if_true, reduceCtorEq, if_false, List.append_nil, hR]
          rw [o1, o2, hlost]
          simp only [List.map_append]
          have := perm_move_end (t.pulled ++ (t.a.result.map (·.2) ++ (inHand t.a).map (·.2)))
            (c.cache.map (·.2) ++ c.s1.lost.map (·.2)) [] ((extOf c.s1 t.a).map (·.2))
          simpa [List.append_assoc] using
            (List.Perm.append_left t.pulled (List.Perm.append_left (t.a.result.map (·.2))
              (List.Perm.append_left ((inHand t.a).map (·.2))
                (List.perm_append_comm (l₁ := (extOf c.s1 t.a).map (·.2))
                  (l₂ := c.cache.map (·.2) ++ c.s1.lost.map (·.2))))))
        · -- the call ends
          rename_i hd cache' hbe
          simp only [Option.some.injEq, Prod.mk.injEq] at h
          obtain ⟨-, rfl⟩ := h
          rcases batchEnd_some hbe with e | e
          · -- it returned: the batch goes to the cache, its first element into the hand
            obtain ⟨e1, e2⟩ := ext_dropped_nil' (s := c.s1) (q := t.a) (by intro cc; rw [e]; simp) (by rw [e]; simp)
            rw [e1, List.append_nil] at hdq
            rw [e2, List.append_nil] at hlost
            have hin : inHand t.a = [] := by simp [inHand, inHandPc, e]
            refine ⟨t, _, [], ht, rfl, by rw [hdq]; simp, ?_⟩
            have o1 : own t = t.pulled ++ t.a.result.map (·.2) := by simp [own, hr, hxx, hin]
            have o2 : own { t with a := a', hand := hd, x := .lockRel } = t.pulled ++ handVal hd := by simp [own, hr]
            rw [o1, o2, hlost]
            rw [e] at hbe
            simp only [batchEnd, beq_self_eq_true, if_true] at hbe
            have key : List.Perm (handVal hd ++ cache'.map (·.2)) (t.a.result.map (·.2) ++ c.cache.map (·.2)) := by
              split at hbe
              · rename_i v rest hcr
                simp only [Option.some.injEq, Prod.mk.injEq] at hbe
                obtain ⟨rfl, rfl⟩ := hbe
                have : (c.cache ++ t.a.result).map (·.2) = v.2 :: rest.map (·.2) := by rw [hcr]; simp
                simp only [handVal, List.singleton_append, ← this, List.map_append]
                exact List.perm_append_comm
              · rename_i hcr
                simp only [Option.some.injEq, Prod.mk.injEq] at hbe
                obtain ⟨rfl, rfl⟩ := hbe
                simp only [List.append_eq_nil_iff] at hcr
                simp [handVal, hcr.1, hcr.2]
            simp only [List.append_assoc, List.append_nil]
            refine List.Perm.append_left _ ?_
            simp only [← List.append_assoc]
            exact List.Perm.append_right _ key
          · -- it raised: its partial result is dropped
            obtain ⟨hd1, -, hres', -, hl'⟩ := hA e
            have e1 : extOf c.s1 t.a = [] := by unfold extOf; rw [e]
            rw [e1, List.append_nil] at hdq
            have hin : inHand t.a = [] := by simp [inHand, inHandPc, e]
            have hhd : handVal hd = [] ∧ cache' = c.cache := by
              rw [e] at hbe
              simp only [batchEnd, reduceCtorEq, beq_self_eq_true, if_true, if_false, Bool.false_eq_true, beq_iff_eq] at hbe
              (repeat' split at hbe) <;> simp only [Option.some.injEq, Prod.mk.injEq] at hbe <;>
                obtain ⟨rfl, rfl⟩ := hbe <;> exact ⟨rfl, rfl⟩
            refine ⟨t, _, [], ht, rfl, by rw [hdq]; simp, ?_⟩
            have o1 : own t = t.pulled ++ t.a.result.map (·.2) := by simp [own, hr, hxx, hin]
            have o2 : own { t with a := a', hand := hd, x := .lockRel } = t.pulled := by simp [own, hr, hhd.1]
            rw [o1, o2, hl', hhd.2]
            simp only [List.map_append, List.append_nil]
            have := perm_move_end t.pulled (c.cache.map (·.2) ++ c.s1.lost.map (·.2)) [] (t.a.result.map (·.2))
            simp only [List.append_assoc, List.append_nil]
            refine List.Perm.append_left _ ?_
            have : List.Perm (c.cache.map (·.2) ++ (c.s1.lost.map (·.2) ++ t.a.result.map (·.2)))
                (t.a.result.map (·.2) ++ (c.cache.map (·.2) ++ c.s1.lost.map (·.2))) := by
              rw [← List.append_assoc]; exact List.perm_append_comm
            exact this
      · -- lockRel
        rename_i hxx
        (repeat' split at h) <;> simp only [Option.some.injEq, Prod.mk.injEq, reduceCtorEq] at h
        obtain ⟨-, rfl⟩ := h
        obtain ⟨p1, p2⟩ := afterPull_pulled (F := F) c.fwd tid c.s2 t t.hand
        have hr' := afterPull_role F c.fwd tid c.s2 t t.hand
        refine hsame _ rfl rfl rfl rfl ?_
        have o1 : own t = t.pulled ++ handVal t.hand := by simp [own, hr, hxx]
        rw [o1]
        unfold own
        rw [hr', p1]
        rcases p2 with e | e <;> simp [hr, e]
      · simp at h
    · -- done / up
      rename_i hpc
      split at h
      · rename_i hxx
        simp only [hxx] at hti'
        obtain ⟨-, hka, -, -, -⟩ := hti'
        split at h
        · simp at h
        rename_i l s1' a' hst
        simp only [Option.some.injEq, Prod.mk.injEq] at h
        obtain ⟨-, rfl⟩ := h
        obtain ⟨e2, e3⟩ := hquiet l a' (v1_l2_on hr (.inr hxx)) (.inr hka) hst
        refine hsame _ rfl rfl e2 e3 ?_
        have o1 : own t = t.pulled := by simp [own, hr, hxx]
        rw [o1]
        by_cases hd : a'.pc = .done <;> simp [own, hr, hd]
      · simp at h
    · -- a step on the output queue
      rename_i h1 h2 h3
      split at h
      · simp at h
      rename_i l s2' b' hst
      simp only [Option.some.injEq, Prod.mk.injEq] at h
      obtain ⟨-, rfl⟩ := h
      obtain ⟨hxi, -⟩ := l2_x_idle hr hti (fun e => h2 e) (fun e => h3 e)
      obtain ⟨hrole', hspec⟩ := postProd_spec tid t s2' b' hxi
      obtain ⟨f1, -, -⟩ := postProd_fields tid t s2' b'
      refine hsame _ rfl rfl rfl rfl ?_
      have o1 : own t = t.pulled := by simp [own, hr, hxi]
      rw [o1]
      unfold own
      rw [hrole', f1]
      rcases hspec with ⟨-, -, e3, -⟩ | ⟨-, -, e3, -⟩ | ⟨-, -, -, e3, -⟩ | ⟨-, -, e3, -⟩ <;> simp [hr, e3]

theorem in1_reachable {c0 c : Cfg} (h : Reachable F c0 c) (hg0 : Good c0) (h0 : In1Inv c0) : In1Inv c := by
  induction h with
  | init => exact h0
  | step hr hs ih =>
    obtain ⟨t, t', X, ht, hst⟩ := in1step_of_step (good_reachable hg0 hr) hs
    exact in1_of_step ht hst ih

theorem out_reachable {c0 c : Cfg} (h : Reachable F c0 c) (hg0 : Good c0) (h0 : OutInv c0) : OutInv c := by
  induction h with
  | init => exact h0
  | step hr hs ih => exact out_step (good_reachable hg0 hr) hs ih

end MlModel.Piter2
