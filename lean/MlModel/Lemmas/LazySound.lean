import MlModel.Lemmas.LazyKey
/-! With sound caches, `maybe_make` of an expression over pure callables yields the eager value,
whatever the flags. -/
namespace MlModel.Lazy
set_option linter.unusedSimpArgs false
set_option linter.unusedVariables false

def vals (l : List RVal) : List Val := l.map (·.1)
def kvals (l : List (String × RVal)) : List (String × Val) := l.map (fun p => (p.1, p.2.1))

/-- Every cached entry holds the (world-independent) eager value of its key. -/
def Sound (c : Lru.Cache Expr RVal) : Prop :=
  ∀ k rv, (k, rv) ∈ c.data → ∀ w, (eager k w).1.map (·.1) = .ok rv.1

theorem sound_empty (n : Nat) : Sound (Lru.empty n) := by
  intro k rv h; simp [Lru.empty] at h

theorem sound_clear (c : Lru.Cache Expr RVal) : Sound c.clear := by
  intro k rv h; simp [Lru.Cache.clear] at h

theorem sound_getitem {c : Lru.Cache Expr RVal} (h : Sound c) (k : Expr) : Sound (c.getitem k).2 :=
  fun k' rv hm => h k' rv (mem_getitem c k _ hm)

theorem sound_setitem {c : Lru.Cache Expr RVal} (h : Sound c) (k : Expr) (rv : RVal)
    (hk : ∀ w, (eager k w).1.map (·.1) = .ok rv.1) : Sound (c.setitem k rv) := by
  intro k' rv' hm
  rcases mem_setitem c k rv _ hm with h' | h'
  · exact h k' rv' h'
  · injection h' with h1 h2; subst h1; subst h2; exact hk

theorem map_ok_inv {α β : Type} {f : α → β} {x : Except Err α} {b : β} (h : x.map f = .ok b) :
    ∃ a, x = .ok a ∧ f a = b := by
  cases x with
  | error e => simp [Except.map] at h
  | ok a => exact ⟨a, rfl, by simpa [Except.map] using h⟩

theorem map_err_inv {α β : Type} {f : α → β} {x : Except Err α} {e : Err}
    (h : x.map f = (.error e : Except Err β)) : x = .error e := by
  cases x with
  | error e' => simp [Except.map] at h; rw [h]
  | ok a => simp [Except.map] at h

theorem leafAll_of_vals {p : Val → Bool} {l l' : List RVal} (h : vals l = vals l')
    (h' : ∀ a ∈ l', a.1.leafAll p = true) : ∀ a ∈ l, a.1.leafAll p = true := by
  intro a ha
  have : a.1 ∈ vals l := List.mem_map.mpr ⟨a, ha, rfl⟩
  rw [h] at this
  obtain ⟨b, hb, e⟩ := List.mem_map.mp this
  rw [← e]; exact h' b hb

theorem leafAll_of_kvals {p : Val → Bool} {l l' : List (String × RVal)} (h : kvals l = kvals l')
    (h' : ∀ a ∈ l', a.2.1.leafAll p = true) : ∀ a ∈ l, a.2.1.leafAll p = true := by
  intro a ha
  have : (a.1, a.2.1) ∈ kvals l := List.mem_map.mpr ⟨a, ha, rfl⟩
  rw [h] at this
  obtain ⟨b, hb, e⟩ := List.mem_map.mp this
  have : b.2.1 = a.2.1 := by injection e
  rw [← this]; exact h' b hb

theorem pure_fn_ne_counter {v : Val} {name : String} (h : v.leafAll pureP = true) (e : v = .fn name) :
    name ≠ "counter" := by
  subst e
  simpa [Val.leafAll, pureP] using h

/-- value part of a library call depends only on the value parts of the arguments
(and on the counter only for `counter`) -/
theorem applyLib_val_congr {name : String} (hn : name ≠ "counter") {a a' : List RVal}
    {k k' : List (String × RVal)} (ha : vals a = vals a') (hk : kvals k = kvals k') (w w' : World) :
    (applyLib name a k w).1.map (·.1) = (applyLib name a' k' w').1.map (·.1) := by
  rw [applyLib_val, applyLib_val]
  have ha' : a.map (·.1) = a'.map (·.1) := ha
  have hk' : k.map (fun p => (p.1, p.2.1)) = k'.map (fun p => (p.1, p.2.1)) := hk
  rw [ha', hk', libVal_counter_indep hn _ _ w.counter w'.counter]

end MlModel.Lazy
