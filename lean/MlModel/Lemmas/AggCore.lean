import MlModel.Model.Agg.Core
/-!
# Generic batching/sharding invariance for lawful mergeable metrics

If `ofBatch` is a monoid homomorphism up to an observational equivalence `Eqv`
(`merge (ofBatch xs) (ofBatch ys) ≈ ofBatch (xs ++ ys)`), `empty` is a left unit,
and `merge`/`result` respect `Eqv`, then *every* composition of a dataset into shards
and of each shard into batches gives the same result as one batch.
-/
namespace MlModel.Agg

variable {X S R : Type}

structure Lawful (m : Mergeable X S R) (Eqv : S → S → Prop) : Prop where
  refl : ∀ s, Eqv s s
  symm : ∀ {s t}, Eqv s t → Eqv t s
  trans : ∀ {s t u}, Eqv s t → Eqv t u → Eqv s u
  merge_congr : ∀ {s s' t t'}, Eqv s s' → Eqv t t' → Eqv (m.merge s t) (m.merge s' t')
  result_congr : ∀ {s t}, Eqv s t → m.result s = m.result t
  /-- a fresh accumulator is the state of the empty dataset -/
  empty_eq : Eqv m.empty (m.ofBatch [])
  /-- merging two one-batch states = the one-batch state of the concatenation -/
  hom : ∀ xs ys, Eqv (m.merge (m.ofBatch xs) (m.ofBatch ys)) (m.ofBatch (xs ++ ys))

variable {m : Mergeable X S R} {Eqv : S → S → Prop}

theorem Lawful.feed_from (h : Lawful m Eqv) (bs : List (List X)) :
    ∀ (s : S) (xs : List X), Eqv s (m.ofBatch xs) →
      Eqv (bs.foldl m.add s) (m.ofBatch (xs ++ bs.flatten)) := by
  induction bs with
  | nil => intro s xs hs; simpa using hs
  | cons b bs ih =>
    intro s xs hs
    simp only [List.foldl_cons, List.flatten_cons]
    have h1 : Eqv (m.add s b) (m.ofBatch (xs ++ b)) :=
      h.trans (h.merge_congr hs (h.refl _)) (h.hom xs b)
    have := ih (m.add s b) (xs ++ b) h1
    simpa [List.append_assoc] using this

/-- one accumulator, any batching = one batch -/
theorem Lawful.feed_eq (h : Lawful m Eqv) (bs : List (List X)) :
    Eqv (m.feed bs) (m.ofBatch bs.flatten) := by
  have := h.feed_from bs m.empty [] h.empty_eq
  simpa [Mergeable.feed] using this

theorem Lawful.foldl_merge (h : Lawful m Eqv) (ss : List (List X)) :
    ∀ (s : S) (xs : List X), Eqv s (m.ofBatch xs) →
      Eqv ((ss.map m.ofBatch).foldl m.merge s) (m.ofBatch (xs ++ ss.flatten)) := by
  induction ss with
  | nil => intro s xs hs; simpa using hs
  | cons b bs ih =>
    intro s xs hs
    simp only [List.map_cons, List.foldl_cons, List.flatten_cons]
    have h1 : Eqv (m.merge s (m.ofBatch b)) (m.ofBatch (xs ++ b)) :=
      h.trans (h.merge_congr hs (h.refl _)) (h.hom xs b)
    have := ih _ (xs ++ b) h1
    simpa [List.append_assoc] using this

theorem Lawful.foldl_merge_congr (h : Lawful m Eqv) {ι : Type} (f g : ι → S)
    (hfg : ∀ i, Eqv (f i) (g i)) (is : List ι) :
    ∀ s t, Eqv s t → Eqv ((is.map f).foldl m.merge s) ((is.map g).foldl m.merge t) := by
  induction is with
  | nil => intro s t hs; simpa using hs
  | cons i is ih => intro s t hs; exact ih _ _ (h.merge_congr hs (hfg i))

/-- **Sharding invariance**: any number of shards, each fed in any number of batches
(empty shards and empty batches included), merged with `merge_states`, is equivalent to a
single accumulator fed the whole dataset as one batch. -/
theorem Lawful.sharded_eq (h : Lawful m Eqv) (shards : List (List (List X))) :
    Eqv (m.sharded shards) (m.ofBatch (shards.map List.flatten).flatten) := by
  cases shards with
  | nil => simpa [Mergeable.sharded, Mergeable.mergeStates] using h.empty_eq
  | cons sh rest =>
    simp only [Mergeable.sharded, List.map_cons, Mergeable.mergeStates, List.flatten_cons]
    have h1 := h.foldl_merge_congr m.feed (fun r => m.ofBatch r.flatten) h.feed_eq rest _ _
      (h.feed_eq sh)
    rw [show rest.map (fun r => m.ofBatch r.flatten) = (rest.map List.flatten).map m.ofBatch by
      simp [List.map_map, Function.comp_def]] at h1
    have h2 := h.foldl_merge (rest.map List.flatten) _ sh.flatten (h.refl _)
    exact h.trans h1 h2

/-- the observable corollary -/
theorem Lawful.sharded_result (h : Lawful m Eqv) (shards : List (List (List X))) :
    m.result (m.sharded shards) = m.result (m.ofBatch (shards.map List.flatten).flatten) :=
  h.result_congr (h.sharded_eq shards)

end MlModel.Agg
