import MlModel.Model.PipeHeap
import MlModel.Lemmas.TreeApi
/-! `_get_outputs` on the heap only allocates: every step is a `copy_and_set` (C18: heap extension),
a read, or the allocation of a tuple. -/
namespace MlModel.PipeHeap
open MlModel.Tree

/-- `copy_and_set` (any key shape) extends the heap (`C18_no_mutation_copy_and_set`, restated for
`setItem … false`) -/
theorem setItem_extends (strict : Bool) (h : Heap) (root : Ref) (keys : Keys) (values : Ref) :
    Extends h (setItem strict false h root keys values).1 := by
  cases keys with
  | path p =>
    have := copyAndSet_path strict h root p values
    simp only [copyAndSet] at this
    rw [this]; exact setPath_extends strict h root p values
  | empty =>
    simp only [setItem]
    split <;> exact Extends.refl _
  | multi ks =>
    simp only [setItem]
    split
    · rw [finishSet_fst]; exact setPath_extends strict h root _ values
    · split
      · exact Extends.refl _
      · rw [finishSet_fst]; exact setMany_extends strict _ h root

theorem setOneH_extends (h : Heap) (result : Ref) (k : HKey) (output : Ref) :
    Extends h (setOneH false h result k output).1 := by
  cases k with
  | key p => exact setItem_extends false h result _ output
  | dict items =>
    simp only [setOneH]
    split
    · exact Extends.refl _
    · exact Extends.refl _
    · rename_i refs _
      exact (extends_push h (.tuple refs)).trans (setItem_extends false _ result _ _)

theorem setZipH_extends : ∀ (ks : List HKey) (os : List Ref) (h : Heap) (result : Ref),
    Extends h (setZipH false h result ks os).1 := by
  intro ks
  induction ks with
  | nil =>
    intro os h result
    cases os <;> simp only [setZipH] <;> exact Extends.refl _
  | cons k ks ih =>
    intro os h result
    cases os with
    | nil => simp only [setZipH]; exact Extends.refl _
    | cons o os =>
      simp only [setZipH]
      have h1 := setOneH_extends h result k o
      split
      · rename_i h1' r he; rw [he] at h1; exact h1.trans (ih os h1' r)
      · rename_i h1' e he; rw [he] at h1; exact h1

theorem getOutputsH_extends (h : Heap) (base : Ref) (keys : List HKey) (outs : List Ref) (t : Ref) :
    Extends h (getOutputsH false h base keys outs t).1 := by
  unfold getOutputsH
  split
  · split
    · exact setItem_extends false h base _ t
    · exact setZipH_extends _ _ h base
  · split
    · exact Extends.refl _
    · exact setZipH_extends _ _ h base
  · exact setZipH_extends _ _ h base

theorem assignAllH_extends (keys : List HKey) : ∀ (jobs : List Job) (h : Heap),
    Extends h (assignAllH false keys h jobs).1 := by
  intro jobs
  induction jobs with
  | nil => intro h; exact Extends.refl _
  | cons j js ih =>
    intro h
    simp only [assignAllH]
    have h1 := getOutputsH_extends h j.base keys j.outs j.outsTuple
    split
    · rename_i h1' e he; rw [he] at h1; exact h1
    · rename_i h1' r he
      rw [he] at h1
      have h2 := ih h1'
      split
      · rename_i h2' rs he2; rw [he2] at h2; exact h1.trans h2
      · rename_i h2' e he2; rw [he2] at h2; exact h1.trans h2

end MlModel.PipeHeap
