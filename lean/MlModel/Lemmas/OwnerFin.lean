import MlModel.Lemmas.OwnerComposite
import MlModel.Lemmas.OwnerAC
/-! The controller state `Ctl.fin p o` is only ever held by a thread that is inside the finaliser of the ownership LTS
(an invariant of the product, by induction over steps): so the hypothesis "inside `release_all`" of
`xstep_fin_exit` holds in every reachable configuration. -/
namespace MlModel.OwnerEnv
open MlModel.Owner

theorem settle_ctl_other (e : Env) (s t : Tid) (i : Bool) (r : Option Res) (h : t ≠ s) : (settle e s i r).ctl t = e.ctl t := by
  unfold settle
  split
  · split <;> (try split) <;> simp [upd_other _ _ h]
  · rfl

@[simp] theorem setCall_ctl (e : Env) (id : Nat) (st : CSt) : (setCall e id st).ctl = e.ctl := rfl
@[simp] theorem popProg_ctl (e : Env) (t : Tid) : (popProg e t).ctl = e.ctl := rfl

theorem startE_ctl (e : Env) (t : Tid) (op : EOp) : (startE e t op).ctl = e.ctl := by
  cases op with
  | die w => rfl
  | revive w => rfl
  | send w al => rfl
  | tick d => rfl
  | shutdown w => rfl
  | deliver k fail =>
    simp only [startE]
    split
    · rfl
    · split
      · rfl
      · split
        · rfl
        · split <;> rfl

theorem estep_ctl {e e' : Env} {t : Tid} (h : estep e t = some e') : e'.ctl = e.ctl := by
  unfold estep at h
  repeat' split at h
  all_goals first
    | (simp only [Option.some.injEq] at h; subst h; first | rfl | (simp only [setMic_ctl]; rfl) | exact startE_ctl ..)
    | exact absurd h (by simp)

theorem ostep_ctl_other {pw : Pid → List Wid} {x x' : X} {s t : Tid} {b : Bool} {f : Env → Env}
    (h : ostep pw x s b f = some x') (ht : t ≠ s) : x'.env.ctl t = (f x.env).ctl t := by
  obtain ⟨i, r, hi⟩ := ostep_env h
  rw [hi, settle_ctl_other _ _ _ _ _ ht]

theorem startPiece_ctl_other {pw : Pid → List Wid} {x x' : X} {s t : Tid} {op : Op} {f : Env → Env}
    (h : startPiece pw x s op f = some x') (ht : t ≠ s) : x'.env.ctl t = (f x.env).ctl t := by
  unfold startPiece at h
  split at h
  · split at h
    · exact ostep_ctl_other h ht
    · exact absurd h (by simp)
  · exact absurd h (by simp)

theorem setCtl_ctl_other (e : Env) (s t : Tid) (c : Ctl) (h : t ≠ s) : (setCtl e s c).ctl t = e.ctl t := by
  simp [setCtl, upd_other _ _ h]

theorem acstep_ctl_other {pw : Pid → List Wid} {x x' : X} {s t : Tid} {a : AC} (h : acstep pw x s a = some x')
    (ht : t ≠ s) : x'.env.ctl t = x.env.ctl t := by
  obtain ⟨act, _, he⟩ := acstep_plan h
  unfold acExec at he
  split at he
  · rw [startPiece_ctl_other he ht]; exact acEnv_ctl_other _ _ _ _ ht
  · simp only [Option.some.injEq] at he; subst he; exact acEnv_ctl_other _ _ _ _ ht

theorem cstep_ctl_other {pw : Pid → List Wid} {x x' : X} {s t : Tid} {c : Ctl} (h : cstep pw x s c = some x')
    (ht : t ≠ s) : x'.env.ctl t = x.env.ctl t := by
  unfold cstep at h
  repeat' split at h
  all_goals first
    | (rw [startPiece_ctl_other h ht]; first | rfl | exact setCtl_ctl_other _ _ _ _ ht)
    | exact acstep_ctl_other h ht
    | (simp only [Option.some.injEq] at h; subst h; exact setCtl_ctl_other _ _ _ _ ht)
    | exact absurd h (by simp)

/-- A step of thread `s` does not touch the controller of another thread. -/
theorem xstep_ctl_other {pw : Pid → List Wid} {x x' : X} {s t : Tid} (h : xstep? pw x s = some x') (ht : t ≠ s) :
    x'.env.ctl t = x.env.ctl t := by
  unfold xstep? at h
  repeat' split at h
  all_goals first
    | (rw [ostep_ctl_other h ht]; first | rfl | simp | exact setCtl_ctl_other _ _ _ _ ht)
    | (rw [startPiece_ctl_other h ht]; first | rfl | exact setCtl_ctl_other _ _ _ _ ht)
    | exact cstep_ctl_other h ht
    | (simp only [Option.some.injEq] at h; subst h; first | rfl | (rw [setCtl_ctl_other _ _ _ _ ht]; rfl) | simp | exact setCtl_ctl_other _ _ _ _ ht)
    | (simp only [Option.map_eq_some_iff] at h; obtain ⟨e', he, h⟩ := h; subst h; simp only [estep_ctl he])
    | exact absurd h (by simp)

/-- … nor its thread of the ownership LTS. -/
theorem xstep_T_other {pw : Pid → List Wid} {x x' : X} {s t : Tid} (h : xstep? pw x s = some x') (ht : t ≠ s) :
    x'.base.T t = x.base.T t := by
  rcases xstep_base h with hb | ⟨u, hb⟩
  · rw [hb]
  · exact step_other hb ht

/-- The thread is inside the finaliser of pool `p`. -/
def InFin (x : X) (t : Tid) (p : Pid) : Prop := ∃ cl rest, (x.base.T t).cur = some (cl, .relAll p rest true)

/-- `Ctl.fin p o` ⇒ inside the finaliser of `p`. -/
def FinOK (x : X) : Prop := ∀ t p o, x.env.ctl t = .fin p o → InFin x t p

/-- Starting the piece `finalize p`: the thread is inside the finaliser, or (no worker to look at) already idle. -/
theorem start_finalize_cur {pw : Pid → List Wid} {u : Wid → Bool} {c c' : Cfg} {t : Tid} {p : Pid} {s : List Op}
    (hcur : (c.T t).cur = none) (hsc : (c.T t).script = .finalize p :: s) (h : step? pw u c t = some c') :
    (c'.T t).cur = none ∨ ∃ cl rest, (c'.T t).cur = some (cl, .relAll p rest true) := by
  rcases step_cases h with ⟨op, s', _, hs, hc'⟩ | ⟨cl, k, W', o, hc, _, _⟩
  · rw [hsc] at hs; simp at hs
    obtain ⟨h1, h2⟩ := hs; subst h1; subst h2
    subst hc'
    simp only [upd_same, start]
    cases hpw : pw p with
    | nil => left; simp [relAllLoop, Thread.apply]
    | cons w ws => right; exact ⟨⟨w, p, .rEnter, true⟩, ws, by simp [relAllLoop, Thread.apply]⟩
  · rw [hcur] at hc; simp at hc

theorem ostep_env' {pw : Pid → List Wid} {x x' : X} {t : Tid} {b : Bool} {f : Env → Env}
    (h : ostep pw x t b f = some x') :
    x'.env = settle (f x.env) t (x'.base.T t).cur.isNone (x'.base.T t).results.getLast? := by
  unfold ostep at h
  cases hs : step? pw (fun _ => b) x.base t with
  | none => simp [hs] at h
  | some c' => simp [hs] at h; subst h; rfl

/-- `settle` leaves no `fin` behind on an idle thread, and never creates one. -/
theorem settle_fin {e : Env} {t : Tid} {i : Bool} {r : Option Res} {p : Pid} {o : Outc}
    (h : (settle e t i r).ctl t = .fin p o) : e.ctl t = .fin p o ∧ i = false := by
  unfold settle at h
  cases i with
  | false => simpa using h
  | true =>
    simp only [if_true] at h
    cases hc : e.ctl t <;> simp [hc] at h
    split at h <;> simp [hc] at h

/-- After an `Owner` step of `t` its controller is `fin p o` only if the update `f` left it so and the thread is still
inside a method. -/
theorem ostep_fin {pw : Pid → List Wid} {x x' : X} {t : Tid} {b : Bool} {f : Env → Env} {p : Pid} {o : Outc}
    (h : ostep pw x t b f = some x') (hf : x'.env.ctl t = .fin p o) :
    (f x.env).ctl t = .fin p o ∧ (x'.base.T t).cur ≠ none := by
  rw [ostep_env' h] at hf
  obtain ⟨h1, h2⟩ := settle_fin hf
  refine ⟨h1, ?_⟩
  intro hn; rw [hn] at h2; simp at h2

theorem startPiece_fin {pw : Pid → List Wid} {x x' : X} {t : Tid} {op : Op} {f : Env → Env} {p : Pid} {o : Outc}
    (h : startPiece pw x t op f = some x') (hf : x'.env.ctl t = .fin p o) :
    (f x.env).ctl t = .fin p o ∧ (x'.base.T t).cur ≠ none ∧
      ∃ s, (x.base.T t).script = op :: s ∧ step? pw (fun _ => false) x.base t = some x'.base := by
  unfold startPiece at h
  split at h
  · rename_i op' s hs
    split at h
    · rename_i heq
      obtain ⟨h1, h2⟩ := ostep_fin h hf
      exact ⟨h1, h2, s, by rw [hs, heq], ostep_base h⟩
    · exact absurd h (by simp)
  · exact absurd h (by simp)

/-- a step of a thread inside a `relAll p _ true` continuation keeps it there, or leaves the thread idle -/
theorem step_relAll_stays {pw : Pid → List Wid} {u : Wid → Bool} {c c' : Cfg} {t : Tid} {cl : Call} {p : Pid}
    {rest : List Wid} (hcur : (c.T t).cur = some (cl, .relAll p rest true)) (h : step? pw u c t = some c') :
    (c'.T t).cur = none ∨ ∃ cl' rest', (c'.T t).cur = some (cl', .relAll p rest' true) := by
  rcases step_cases h with ⟨op, s, hc, _, _⟩ | ⟨cl', k', W', o, hcur', _, hc'⟩
  · rw [hcur] at hc; simp at hc
  · rw [hcur] at hcur'; simp at hcur'
    obtain ⟨h1, h2⟩ := hcur'; subst h1; subst h2
    subst hc'
    simp only [upd_same]
    cases o with
    | goto pc => right; exact ⟨{ cl with pc := pc }, rest, by simp [afterOut]⟩
    | ret b =>
      simp only [afterOut, resume]
      cases rest with
      | nil => left; simp [relAllLoop, Thread.apply]
      | cons w ws => right; exact ⟨⟨w, p, .rEnter, true⟩, ws, by simp [relAllLoop, Thread.apply]⟩

/-- **`Ctl.fin` is only held inside the finaliser** — preserved by every step of the product. -/
theorem FinOK_step {pw : Pid → List Wid} {x x' : X} {s : Tid} (hF : FinOK x) (h : xstep? pw x s = some x') : FinOK x' := by
  intro t p o hctl'
  by_cases ht : t = s
  · subst ht
    cases hcur : (x.base.T t).cur with
    | some ck =>
      obtain ⟨cl, k⟩ := ck
      -- inside a method: the controller was `fin p o` already
      rcases xstep_ctl_inCall hcur h with ⟨h1, _⟩ | ⟨_, hi, _⟩
      · rw [h1] at hctl'
        obtain ⟨cl0, rest, hc0⟩ := hF t p o hctl'
        rcases xstep_base h with hb | ⟨u, hb⟩
        · exact ⟨cl0, rest, by rw [hb]; exact hc0⟩
        · rcases step_relAll_stays hc0 hb with hn | hin
          · -- the thread became idle: `settle` would have ended the operation
            exfalso
            have hidle : x'.env.ctl t = .idle := by
              unfold xstep? at h
              simp only [hcur] at h
              have key : ∀ {b f}, ostep pw x t b f = some x' → (f x.env).ctl t = x.env.ctl t → x'.env.ctl t = .idle := by
                intro b f ho hfe
                rw [ostep_env' ho, hn]
                simp only [Option.isNone_none, settle, if_true, hfe, hctl']
                simp
              repeat' split at h
              all_goals first
                | (exact key h (by simp))
                | (simp only [Option.some.injEq, reduceCtorEq] at h; subst h; rw [hc0] at hn; simp at hn)
                | exact absurd h (by simp)
            rw [h1, hctl'] at hidle; simp at hidle
          · exact hin
      · rw [hi] at hctl'; simp at hctl'
    | none =>
      -- between two pieces: `fin` can only have been set by starting the piece `finalize p`
      have hnot : ∀ p o, x.env.ctl t ≠ .fin p o := by
        intro p o hc
        obtain ⟨cl0, rest, hc0⟩ := hF t p o hc
        rw [hcur] at hc0; simp at hc0
      unfold xstep? at h
      simp only [hcur] at h
      have viaFinalize : ∀ {f}, startPiece pw x t (.finalize p) f = some x' → InFin x' t p := by
        intro f hs
        obtain ⟨_, hne, sc, hsc, hb⟩ := startPiece_fin hs hctl'
        rcases start_finalize_cur hcur hsc hb with hn | hin
        · exact absurd hn hne
        · exact hin
      have viaOther : ∀ {op f}, startPiece pw x t op f = some x' → (∀ e, (f e).ctl t ≠ .fin p o) → False := by
        intro op f hs hne
        exact hne _ (startPiece_fin hs hctl').1
      have viaO : ∀ {b f}, ostep pw x t b f = some x' → (f x.env).ctl t = x.env.ctl t → False := by
        intro b f ho hfe
        exact hnot p o (by rw [← hfe]; exact (ostep_fin ho hctl').1)
      cases hc : x.env.ctl t <;> simp only [hc] at h
      case idle =>
        repeat' split at h
        all_goals first
          | (exfalso; exact viaO h (by simp); done)
          | (exfalso; refine viaOther h ?_; intro e; simp; done)
          | (exfalso; simp only [Option.some.injEq] at h; subst h; simp at hctl'; done)
          | (exfalso; simp only [Option.map_eq_some_iff] at h; obtain ⟨e', he, h⟩ := h; subst h
             simp only [estep_ctl he] at hctl'; exact hnot p o hctl')
          | (exfalso; simp at h; done)
      all_goals
        simp only [cstep] at h
        repeat' split at h
        all_goals first
          | (exfalso; simp only [Option.some.injEq] at h; subst h; simp at hctl'; done)
          | (obtain ⟨act, hpl, he⟩ := acstep_plan h
             obtain ⟨hk, _⟩ := acPlan_ok hpl
             unfold acExec at he
             split at he
             · rename_i op hop
               have hp := (startPiece_fin he hctl').1
               simp only [acEnv_ctl] at hp
               rcases hk with ⟨a', ha', _⟩ | ⟨o', ho', hpc'⟩
               · rw [ha'] at hp; exact absurd hp (by simp)
               · rw [ho'] at hp
                 simp only [Ctl.fin.injEq] at hp
                 obtain ⟨hp1, _⟩ := hp
                 rw [hpc'] at hop
                 simp only [Option.some.injEq] at hop
                 subst hop; subst hp1
                 exact viaFinalize he
             · simp only [Option.some.injEq] at he; subst he
               simp only [acEnv_ctl] at hctl'
               rcases hk with ⟨a', ha', _⟩ | ⟨o', ho', hpc'⟩
               · rw [ha'] at hctl'; exact absurd hctl' (by simp)
               · rename_i hnone; rw [hpc'] at hnone; exact absurd hnone (by simp))
          | (have hp := (startPiece_fin h hctl').1
             simp only [setCtl_ctl, Ctl.fin.injEq] at hp
             obtain ⟨hp1, _⟩ := hp; subst hp1
             exact viaFinalize h)
          | (exfalso; refine viaOther h ?_; intro e; simp; done)
          | (exfalso; have := (startPiece_fin h hctl').1; simp only [id] at this; exact hnot p o (by rw [hc]; rw [hc] at this; exact this))
          | (exfalso; simp at h; done)
  · rw [xstep_ctl_other h ht] at hctl'
    obtain ⟨cl, rest, hc⟩ := hF t p o hctl'
    exact ⟨cl, rest, by rw [xstep_T_other h ht]; exact hc⟩

theorem FinOK_reach {pw : Pid → List Wid} {x0 x : X} (h0 : ∀ t, x0.env.ctl t = .idle) (h : XReach pw x0 x) : FinOK x := by
  induction h with
  | refl => intro t p o hc; rw [h0 t] at hc; simp at hc
  | step _ hs ih => exact FinOK_step ih hs

end MlModel.OwnerEnv
