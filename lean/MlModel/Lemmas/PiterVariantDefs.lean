import MlModel.Lemmas.PiterDead
import MlModel.Lemmas.QueueVariant
/-!
# A termination measure for the parallel-iteration LTS — definitions and side invariants

`Psi F c = Queue.Phi (qcfg c) + Σ extra`: the queue's measure on the embedded configuration plus, per
thread, what the parallel-iteration layer adds:
* a producer: `wA` per output it still holds (`pend`), the cost of every item still in its input
  (`4` for the three lock steps + `wA` per output the row function will yield for it), the cost of the item
  in hand, and `pullRes` for the steps of the current / the next `next(iterator)`;
* the consumer: a rank of its phase (`boot > submit (per task still to submit) > iter > stopping, shutdown
  > fin`) that also pre-pays the `maybe_stop()` it may still execute (`KS`).
Shared inputs are counted once per producer that may pull from them — an over-approximation that only
ever decreases.
-/
namespace MlModel.Piter
open MlModel.Queue

variable {F : Nat → Option (List Nat)}

def outLen (F : Nat → Option (List Nat)) : Item → Nat
  | .val v => ((F v).getD []).length
  | .fail => 0

def itemCost (F : Nat → Option (List Nat)) (N : Nat) (i : Item) : Nat := 4 + wA N * outLen F i

def inputCost (F : Nat → Option (List Nat)) (N : Nat) (l : List Item) : Nat := (l.map (itemCost F N)).sum

def resCost (F : Nat → Option (List Nat)) (N : Nat) : PullRes → Nat
  | .item i => itemCost F N i
  | .stop => 0

def handCost (F : Nat → Option (List Nat)) (N : Nat) (t : PThread) : Nat :=
  if t.q.pc = .eNext ∧ t.ipc = .rel then resCost F N t.hand else 0

def ipcPot : IPc → Nat
  | .acq => 3 | .next => 2 | .rel => 1

/-- the producer is at or past `_stop_enqueue` (it never calls `next(iterator)` again) -/
def noPull : Pc → Bool
  | .tAcq => true
  | pc => pastStop pc

def pullRes (t : PThread) : Nat :=
  if t.q.pc = .eNext then ipcPot t.ipc else if noPull t.q.pc then 0 else 3

/-- pre-payment of the consumer's `maybe_stop()` -/
def KS (N : Nat) : Nat := 10 + wD * N + wE * N

def cRank (c : Cfg) (N : Nat) (t : PThread) : Nat :=
  match t.cpc with
  | .boot => c.nProd + 4 + KS N
  | .submit => (c.nProd - c.nsub) + 2 + KS N
  | .iter => 2 + KS N
  | .stopping => 1
  | .shutdown => 1
  | .fin => 0

def extra (F : Nat → Option (List Nat)) (c : Cfg) (N : Nat) (t : PThread) : Nat :=
  if t.isProd then wA N * t.pend.length + pullRes t + handCost F N t + inputCost F N (inputAt c t.sid)
  else cRank c N t

def Psi (F : Nat → Option (List Nat)) (c : Cfg) : Nat :=
  Phi (qcfg c) + (c.ths.map (extra F c c.ths.length)).sum

/-! ### side invariants of the measure -/

structure VI (c : Cfg) : Prop where
  max : ∀ t ∈ c.ths, t.q.prog.kind = .batch → 0 < t.q.batchMax
  rn : ∀ t ∈ c.ths, RN t.q
  src : ∀ t ∈ c.ths, t.q.src = []
  progP : ∀ t ∈ c.ths, t.isProd = true → ∃ r, t.q.prog = .producer [] r

/-- only `start` and `next(iterator)` of the queue LTS write the recorded source -/
def SrcStep (s : Shared) (t : Queue.Thread) (tid : Tid) (alt : Bool) : Prop :=
  ∀ lbl s' t', stepThread s t tid alt = some (lbl, s', t') → t.pc ≠ .start → t.pc ≠ .eNext → t'.src = t.src

set_option hygiene false in
macro "src_group" : tactic => `(tactic| (
  intro lbl s' t' h h1 h2
  unfold stepThread at h
  cases hpc : t.pc <;> (try (simp only [hpc, Pc.group] at hg; omega)) <;>
    simp only [hpc] at h h1 h2 <;>
    (try simp only [acquire, release, notify, waitPark, waitWake, goto, enqLoop, putLoop, batchLoop,
      afterRaise, afterValue] at h) <;>
    (repeat' split at h) <;>
    (try simp only [Option.some.injEq, Prod.mk.injEq, reduceCtorEq] at h) <;>
    (try (obtain ⟨-, rfl, rfl⟩ := h)) <;>
    simp_all))

theorem src_g0 {s t tid alt} (hg : t.pc.group = 0) : SrcStep s t tid alt := by src_group
theorem src_g1 {s t tid alt} (hg : t.pc.group = 1) : SrcStep s t tid alt := by src_group
theorem src_g2 {s t tid alt} (hg : t.pc.group = 2) : SrcStep s t tid alt := by src_group
theorem src_g3 {s t tid alt} (hg : t.pc.group = 3) : SrcStep s t tid alt := by src_group
theorem src_g4 {s t tid alt} (hg : t.pc.group = 4) : SrcStep s t tid alt := by src_group
theorem src_g5 {s t tid alt} (hg : t.pc.group = 5) : SrcStep s t tid alt := by src_group
theorem src_g6 {s t tid alt} (hg : t.pc.group = 6) : SrcStep s t tid alt := by src_group
theorem src_g7 {s t tid alt} (hg : t.pc.group = 7) : SrcStep s t tid alt := by src_group

theorem stepThread_src {s t tid alt} : SrcStep s t tid alt := by
  have h := Pc.group_lt t.pc
  match hg : t.pc.group with
  | 0 => exact src_g0 hg | 1 => exact src_g1 hg | 2 => exact src_g2 hg | 3 => exact src_g3 hg
  | 4 => exact src_g4 hg | 5 => exact src_g5 hg | 6 => exact src_g6 hg | 7 => exact src_g7 hg
  | n + 8 => omega

theorem vi_of {c c' : Cfg} {tid : Tid} {t' : PThread} (hv : VI c) (hths : c'.ths = c.ths.set tid t')
    (h1 : t'.q.prog.kind = .batch → 0 < t'.q.batchMax) (h2 : RN t'.q) (h3 : t'.q.src = [])
    (h4 : t'.isProd = true → ∃ r, t'.q.prog = .producer [] r) : VI c' := by
  refine ⟨?_, ?_, ?_, ?_⟩ <;> intro u hu <;> rw [hths] at hu <;>
    rcases List.mem_or_eq_of_mem_set hu with hu | rfl
  · exact hv.max u hu
  · exact h1
  · exact hv.rn u hu
  · exact h2
  · exact hv.src u hu
  · exact h3
  · exact hv.progP u hu
  · exact h4

/-- the program points at which `get_batch` is about to return -/
def retPc : Pc → Bool
  | .bExit | .bE1 | .bE2 | .bE3 => true
  | _ => false

theorem rn_of_pc {q : Queue.Thread} (h : retPc q.pc = false) : RN q := by
  unfold RN
  cases hp : q.pc <;> simp_all [retPc]

theorem afterPull_vi (tid : Tid) (s : Shared) (t : PThread) (r : PullRes) (hpc : t.q.pc = .eNext) :
    (afterPull F tid s t r).2.q.prog = t.q.prog ∧ (afterPull F tid s t r).2.q.src = t.q.src ∧
    RN (afterPull F tid s t r).2.q := by
  unfold afterPull failPull
  split
  · exact ⟨rfl, rfl, rn_of_pc rfl⟩
  · exact ⟨rfl, rfl, rn_of_pc rfl⟩
  · split
    · exact ⟨rfl, rfl, rn_of_pc rfl⟩
    · exact ⟨rfl, rfl, rn_of_pc (by show retPc t.q.pc = false; rw [hpc]; rfl)⟩
    · exact ⟨rfl, rfl, rn_of_pc rfl⟩

theorem vi_step {c c' : Cfg} {tid : Tid} {alt : Bool} {lbl : String} {t : PThread}
    (hb : Base c) (hq : QL c) (hc : Ctl c) (hv : VI c) (ht : c.ths[tid]? = some t)
    (hk : StepKind F c tid alt t lbl c') : VI c' := by
  have hs := hb.static
  have hmem : t ∈ c.ths := List.mem_of_getElem? ht
  have htok : TOK t.q := hb.data.tok t.q (List.mem_of_getElem? (qcfg_get ht))
  have hmax := hv.max t hmem
  have hrn := hv.rn t hmem
  have hsrc := hv.src t hmem
  have hpp := hv.progP t hmem
  -- a queue step of a thread that is neither at `start` nor at `next(iterator)`
  have qstep : ∀ {lbl : String} {s' : Shared} {q' : Queue.Thread},
      stepThread c.sh t.q tid alt = some (lbl, s', q') → t.q.pc ≠ .start → t.q.pc ≠ .eNext →
      q'.prog = t.q.prog ∧ q'.src = [] ∧ RN q' := by
    intro lbl s' q' hst h1 h2
    obtain ⟨-, hprog', -⟩ := stepThread_data lbl s' q' hst htok
    refine ⟨hprog', by rw [stepThread_src lbl s' q' hst h1 h2]; exact hsrc, ?_⟩
    exact stepThread_rn lbl s' q' hst hq.ig hmax htok hrn
  cases hk with
  | pstart hp hpc => exact vi_of hv rfl hmax (rn_of_pc rfl) hsrc (fun _ => hpp hp)
  | iacq hp => exact vi_of hv rfl hmax hrn hsrc (fun _ => hpp hp)
  | inextL hp => exact vi_of hv rfl hmax hrn hsrc (fun _ => hpp hp)
  | inextU hp hpc =>
    obtain ⟨a1, a2, a3⟩ := afterPull_vi (F := F) tid c.sh t (pull c.inputs t.sid).1 hpc
    exact vi_of hv rfl (by rw [Thread.batchMax, a1]; exact hmax) a3 (by rw [a2]; exact hsrc)
      (fun _ => by rw [a1]; exact hpp hp)
  | irel hp hpc =>
    obtain ⟨a1, a2, a3⟩ := afterPull_vi (F := F) tid c.sh t t.hand hpc
    exact vi_of hv rfl (by rw [Thread.batchMax, a1]; exact hmax) a3 (by rw [a2]; exact hsrc)
      (fun _ => by rw [a1]; exact hpp hp)
  | @pq lbl s' q' hp hd hs0 hne hst =>
    obtain ⟨b1, b2, b3⟩ := qstep hst hs0 hne
    have hfr := postProd_frame tid t q'
    have hsrc' : (postProd tid t q').q.src = [] := by
      unfold postProd enterNext
      cases t.pend <;> (repeat' split) <;> exact b2
    have hrn' : RN (postProd tid t q').q := by
      unfold postProd enterNext
      by_cases he : q'.pc = .eNext
      · cases t.pend with
        | nil => simp only [he, beq_self_eq_true, if_true]; exact b3
        | cons y ys => simp only [he, beq_self_eq_true, if_true]; exact rn_of_pc rfl
      · have : (q'.pc == Pc.eNext) = false := by simpa using he
        simp only [this]; exact b3
    refine vi_of hv rfl ?_ hrn' hsrc' (fun _ => by rw [hfr.2.2.2.1, b1]; exact hpp hp)
    rw [Thread.batchMax, hfr.2.2.2.1, b1]; exact hmax
  | cboot0 hp hcp =>
    refine vi_of hv rfl ?_ ?_ ?_ ?_
    · unfold beginIter; split
      · intro h; cases h
      · exact hmax
    · unfold beginIter; split <;> exact rn_of_pc rfl
    · unfold beginIter; split <;> exact hsrc
    · intro h; exfalso; revert h; unfold beginIter; split <;> simp [hp]
  | cboot hp => exact vi_of hv rfl hmax hrn hsrc (fun h => by simp [hp] at h)
  | csubmit hp hcp =>
    refine vi_of hv rfl ?_ ?_ ?_ ?_
    · split
      · unfold beginIter; split
        · intro h; cases h
        · exact hmax
      · exact hmax
    · split
      · unfold beginIter; split <;> exact rn_of_pc rfl
      · exact hrn
    · split
      · unfold beginIter; split <;> exact hsrc
      · exact hsrc
    · intro h; exfalso; revert h
      split
      · unfold beginIter; split <;> simp [hp]
      · simp [hp]
  | @citer lbl s' q' hp hcp hst =>
    have hkb : t.q.prog.kind = .batch := (hs.kindC t hmem hp).2.1 hcp
    obtain ⟨n1, n2⟩ := hc.phase t hmem hp (Or.inl hcp)
    have hne : t.q.pc ≠ .eNext := by
      intro e; have := htok.kind .producer (by rw [e]; rfl); rw [hkb] at this; cases this
    obtain ⟨b1, b2, b3⟩ := qstep hst n1 hne
    have hip : (afterIter c t.q.pc s' { t with q := q' }).2.isProd = false := by
      unfold afterIter; (repeat' split) <;> exact hp
    refine vi_of hv rfl ?_ ?_ ?_ (fun h => by rw [hip] at h; cases h)
    · unfold afterIter
      (repeat' split) <;> first | (intro h; cases h; done) | (rw [Thread.batchMax, b1]; exact hmax)
    · unfold afterIter
      (repeat' split) <;> first | exact rn_of_pc rfl | exact b3
    · unfold afterIter
      (repeat' split) <;> exact b2
  | @cstop lbl s' q' hp hcp hst =>
    have hps : t.q.prog = .stopper none := (hs.kindC t hmem hp).2.2 hcp
    obtain ⟨n1, n2⟩ := hc.phase t hmem hp (Or.inr hcp)
    have hne : t.q.pc ≠ .eNext := by
      intro e; have := htok.kind .producer (by rw [e]; rfl); rw [hps] at this; cases this
    obtain ⟨b1, b2, b3⟩ := qstep hst n1 hne
    have hip : (postStop t q').isProd = false := by unfold postStop; split <;> exact hp
    have hq' : (postStop t q').q = q' := by unfold postStop; split <;> rfl
    refine vi_of hv rfl ?_ (by rw [hq']; exact b3) (by rw [hq']; exact b2) (fun h => by rw [hip] at h; cases h)
    rw [hq', Thread.batchMax, b1]; exact hmax
  | cshutdown hp => exact vi_of hv rfl hmax hrn hsrc (fun h => by simp [hp] at h)

theorem vi_init (cap bm mw : Nat) (ns : Option Nat) (soe : Bool) (inputs : List (List Item))
    (prods : List ProdSpec) (hbm : 0 < bm) : VI (init cap bm mw ns soe inputs prods) := by
  refine ⟨?_, ?_, ?_, ?_⟩ <;> intro t ht <;> rcases mem_init_ths ht with rfl | ⟨p, _, rfl⟩
  · intro _; exact hbm
  · intro h; cases h
  · exact rn_of_pc rfl
  · exact rn_of_pc rfl
  · rfl
  · rfl
  · intro h; simp [mkConsumer] at h
  · intro _; exact ⟨p.ret, rfl⟩

end MlModel.Piter
