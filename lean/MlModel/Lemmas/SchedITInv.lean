import MlModel.Lemmas.SchedIT
/-!
# Invariants of the `WorkerPool.iterate` LTS (bookkeeping, shard states, output batches)
-/
namespace MlModel.Sched

/-- explicit shapes of one coroutine step -/
inductive CoRel (c : ICfg) (ws : List Worker) (r : RunI) : CoOut → Prop where
  | start (h : r.co = .start) :
      CoRel c ws r { ws := (issue c.env ws r.worker).2, r := { r with co := .awaitInit (issue c.env ws r.worker).1 } }
  | initOk (h : r.co = .awaitInit .ok) :
      CoRel c ws r { ws := (issue c.env ws r.worker).2, r := { r with co := .awaitNext (issue c.env ws r.worker).1 0 } }
  | raiseT (h : r.co = .awaitInit .deadline ∨ ∃ pos, r.co = .awaitNext .deadline pos) :
      CoRel c ws r { ws := ws, r := { r with co := .raisedTimeout } }
  | raiseE (h : r.co = .awaitInit .appError ∨ ∃ pos, r.co = .awaitNext .appError pos) :
      CoRel c ws r { ws := ws, r := { r with co := .raisedErr } }
  | batches (pos k : Nat) (h : r.co = .awaitNext .ok pos) (hk : pos + k ≤ c.nb r.shard) :
      CoRel c ws r { ws := (issue c.env ws r.worker).2,
                     batches := (List.range' pos k).map fun b => (r.shard, b),
                     r := { r with co := .awaitNext (issue c.env ws r.worker).1 (pos + k) } }
  | marker (pos k : Nat) (h : r.co = .awaitNext .ok pos) (hk : pos + k = c.nb r.shard) :
      CoRel c ws r { ws := ws, batches := (List.range' pos k).map fun b => (r.shard, b),
                     r := { r with co := .putDone, hasState := !c.directPut },
                     put := if c.directPut then some r.shard else none }
  | fin (h : r.co = .putDone) : CoRel c ws r { ws := ws, r := { r with co := .finished } }

theorem coStep_sound {c : ICfg} {ws : List Worker} {r : RunI} {k : Nat} {m : Bool} {o : CoOut}
    (h : coStep c ws r k m = some o) : CoRel c ws r o := by
  unfold coStep at h
  cases hco : r.co with
  | start => simp [hco] at h; subst h; exact .start hco
  | awaitInit f =>
    cases f <;> simp [hco] at h
    · subst h; exact .initOk hco
    · subst h; exact .raiseT (Or.inl hco)
    · subst h; exact .raiseE (Or.inl hco)
  | awaitNext f pos =>
    cases f <;> simp [hco] at h
    · obtain ⟨hc, h⟩ := h
      by_cases hm : m = true
      · simp [hm] at h hc; subst h
        exact .marker pos k hco (by omega)
      · simp [hm] at h hc; subst h
        exact .batches pos k hco (by omega)
    · subst h; exact .raiseT (Or.inr ⟨pos, hco⟩)
    · subst h; exact .raiseE (Or.inr ⟨pos, hco⟩)
  | putDone => simp [hco] at h; subst h; exact .fin hco
  | finished => simp [hco] at h
  | raisedTimeout => simp [hco] at h
  | raisedErr => simp [hco] at h


theorem CoRel.shard {c : ICfg} {ws : List Worker} {r : RunI} {o : CoOut} (h : CoRel c ws r o) :
    o.r.shard = r.shard := by
  cases h <;> rfl

/-! ## bookkeeping -/

/-- every shard, wherever the bookkeeping currently holds it -/
def IT.all (s : IT) : List Nat :=
  s.pending ++ s.tasks ++ s.running.map (·.shard) ++ s.finished ++ s.failed

def IT.verdict (c : ICfg) (s : IT) : Outcome :=
  if !s.failed.isEmpty then .raisedRuntime
  else if c.threshold < s.timeoutCnt then .raisedTimeout else .returned

structure IInvB (c : ICfg) (s : IT) : Prop where
  cons : s.all.Perm (List.range c.n)
  exh : s.exhausted = true → s.pending = []
  out : ∀ o, s.outcome = some o → o = s.verdict c ∧ (s.broken c = true ∨ s.loopOver = true)
  /-- the timeout that exhausts the budget has re-queued its task, and nothing is submitted afterwards -/
  bud : c.threshold < s.timeoutCnt → s.tasks ≠ []

theorem iinvB_init (c : ICfg) (nw : Nat) : IInvB c (IT.init nw c.n) := by
  refine ⟨?_, ?_, ?_, ?_⟩ <;> simp [IT.init, IT.all]

theorem it_draw_facts (s : IT) :
    s.draw.all.Perm s.all ∧ (s.exhausted = true → s.draw = s) ∧
    ((s.exhausted = true → s.pending = []) → s.draw.exhausted = true → s.draw.pending = []) ∧
    s.draw.outcome = s.outcome ∧ s.draw.running = s.running ∧ s.draw.failed = s.failed ∧
    s.draw.timeoutCnt = s.timeoutCnt ∧ s.draw.finished = s.finished ∧ s.draw.statesQ = s.statesQ ∧
    s.draw.merged = s.merged ∧ s.draw.result = s.result ∧ s.draw.yieldedB = s.yieldedB ∧
    s.draw.outQ = s.outQ ∧ s.draw.ws = s.ws ∧ s.draw.zombies = s.zombies := by
  unfold IT.draw
  by_cases hc : (s.tasks.isEmpty && !s.exhausted) = true
  · rw [if_pos hc]
    simp at hc
    cases hp : s.pending with
    | nil => simp [IT.all, hp, hc.2]
    | cons t p =>
      simp [IT.all, hp, hc.1, hc.2]
  · rw [if_neg hc]; simp

theorem iinvB_step {c : ICfg} {s s' : IT} (h : IInvB c s) (hs : IStep c s s') : IInvB c s' := by
  have hcntE : ∀ {i : Nat} {r : RunI}, s.running[i]? = some r → ∀ a,
      List.count a (s.running.map (·.shard)) =
        List.count a ((s.running.eraseIdx i).map (·.shard)) + (if r.shard = a then 1 else 0) := by
    intro i r hr a
    have := ((perm_cons_eraseIdx hr).map (·.shard)).count_eq a
    simp [List.count_cons] at this; rw [this]
  cases hs with
  | submitNone w ho hb hd =>
    obtain ⟨h1, _, h3, h4, _, _, h7, _⟩ := it_draw_facts s
    have hnb : ¬ c.threshold < s.timeoutCnt := by
      intro hlt; simp [IT.broken, hlt] at hb
    exact ⟨h1.trans h.cons, h3 h.exh, by simp [h4, ho], by rw [h7]; intro hlt; exact absurd hlt hnb⟩
  | submitSome w t rest ho hb halive hfree hd =>
    obtain ⟨h1, _, h3, h4, h5, _, h7, _⟩ := it_draw_facts s
    have hnb : ¬ c.threshold < s.timeoutCnt := by
      intro hlt; simp [IT.broken, hlt] at hb
    refine ⟨List.Perm.trans ?_ (h1.trans h.cons), h3 h.exh, by simp [h4, ho],
      by simp only [h7]; intro hlt; exact absurd hlt hnb⟩
    simp only [IT.all, hd, ← h5, List.map_append, List.map_cons, List.map_nil]
    rw [List.perm_iff_count]; intro a
    simp [List.count_append, List.count_cons]; omega
  | co i k m r o hr hco =>
    have hsh := (coStep_sound hco).shard
    refine ⟨?_, h.exh, ?_, h.bud⟩
    · have : (s.running.set i o.r).map (·.shard) = s.running.map (·.shard) :=
        map_set_same (·.shard) hr hsh
      simpa [IT.all, this] using h.cons
    · intro o' ho'
      have := h.out o' ho'
      have hne : (s.running.set i o.r).isEmpty = s.running.isEmpty := by
        cases hrun : s.running <;> simp_all
      simpa [IT.verdict, IT.broken, IT.loopOver, hne] using this
  | zco i k m r o hr hco => exact ⟨by simpa [IT.all] using h.cons, h.exh, h.out, h.bud⟩
  | drain b q ho hq => exact ⟨by simpa [IT.all] using h.cons, h.exh, by simp [ho], h.bud⟩
  | checkFinished i r ho hr hco =>
    refine ⟨List.Perm.trans ?_ h.cons, h.exh, by simp [ho], h.bud⟩
    simp only [IT.all]; rw [List.perm_iff_count]; intro a
    simp [List.count_append, List.count_cons, hcntE hr a]; omega
  | checkTimeout i r ho hr hco =>
    refine ⟨List.Perm.trans ?_ h.cons, h.exh, by simp [ho], by simp⟩
    simp only [IT.all]; rw [List.perm_iff_count]; intro a
    simp [List.count_append, List.count_cons, hcntE hr a]; omega
  | checkErr i r ho hr hco =>
    refine ⟨List.Perm.trans ?_ h.cons, h.exh, by simp [ho], h.bud⟩
    simp only [IT.all]; rw [List.perm_iff_count]; intro a
    simp [List.count_append, List.count_cons, hcntE hr a]; omega
  | checkDead i r ho hr hco hdead =>
    refine ⟨List.Perm.trans ?_ h.cons, h.exh, by simp [ho], by simp⟩
    simp only [IT.all]; rw [List.perm_iff_count]; intro a
    simp [List.count_append, List.count_cons, hcntE hr a]; omega
  | finish ho hc =>
    refine ⟨by simpa [IT.all] using h.cons, h.exh, ?_, h.bud⟩
    intro o' ho'
    simp at ho'
    refine ⟨?_, ?_⟩
    · rw [← ho']; simp [IT.verdict]
    · simpa [IT.broken, IT.loopOver] using hc
  | merge sh q hres hq => exact ⟨by simpa [IT.all] using h.cons, h.exh, h.out, h.bud⟩
  | mergeStop q hres hq => exact ⟨by simpa [IT.all] using h.cons, h.exh, h.out, h.bud⟩
  | env ws' _ => exact ⟨by simpa [IT.all] using h.cons, h.exh, h.out, h.bud⟩

/-! ## shard states (repaired code: `directPut = false`) -/

def statesOf (q : List (Option Nat)) : List Nat := q.filterMap id

@[simp] theorem statesOf_append (a b : List (Option Nat)) : statesOf (a ++ b) = statesOf a ++ statesOf b := by
  simp [statesOf]

structure IInvS (c : ICfg) (s : IT) : Prop where
  st : s.merged ++ statesOf s.statesQ = s.finished
  hasSt : ∀ r ∈ s.running, (r.co = .putDone ∨ r.co = .finished) → r.hasState = true
  run : s.outcome = none → none ∉ s.statesQ ∧ s.result = none
  stop : s.outcome ≠ none →
    (s.result = none ∧ ∃ pre, s.statesQ = pre ++ [none] ∧ none ∉ pre) ∨ (s.result ≠ none ∧ s.statesQ = [])
  res : ∀ x, s.result = some x →
    x = (if c.strict && s.finished.length != c.n then none else some s.finished) ∧ s.merged = s.finished

theorem iinvS_init (c : ICfg) (nw : Nat) : IInvS c (IT.init nw c.n) := by
  refine ⟨?_, ?_, ?_, ?_, ?_⟩ <;> simp [IT.init, statesOf]

theorem CoRel.put_none {c : ICfg} {ws : List Worker} {r : RunI} {o : CoOut} (h : CoRel c ws r o)
    (hfix : c.directPut = false) : o.put = none := by
  cases h <;> simp [hfix]

theorem CoRel.hasState {c : ICfg} {ws : List Worker} {r : RunI} {o : CoOut} (h : CoRel c ws r o)
    (hfix : c.directPut = false) (hr : (r.co = .putDone ∨ r.co = .finished) → r.hasState = true) :
    (o.r.co = .putDone ∨ o.r.co = .finished) → o.r.hasState = true := by
  cases h with
  | start h => simp
  | initOk h => simp
  | raiseT h => simp
  | raiseE h => simp
  | batches pos k h hk => simp
  | marker pos k h hk => simp [hfix]
  | fin h => intro _; exact hr (Or.inl h)

theorem iinvS_step {c : ICfg} {s s' : IT} (hfix : c.directPut = false) (h : IInvS c s)
    (hs : IStep c s s') : IInvS c s' := by
  have hsub : ∀ i, ∀ r ∈ s.running.eraseIdx i, (r.co = .putDone ∨ r.co = .finished) → r.hasState = true :=
    fun i r hr => h.hasSt r (List.mem_of_mem_eraseIdx hr)
  cases hs with
  | submitNone w ho hb hd =>
    obtain ⟨_, _, _, h4, h5, _, _, h8, h9, h10, h11, _⟩ := it_draw_facts s
    exact ⟨by rw [h10, h9, h8]; exact h.st, by rw [h5]; exact h.hasSt, by rw [h4, h9, h11]; exact h.run,
      by rw [h4, h9, h11]; exact h.stop, by rw [h11, h8, h10]; exact h.res⟩
  | submitSome w t rest ho hb halive hfree hd =>
    obtain ⟨_, _, _, h4, h5, _, _, h8, h9, h10, h11, _⟩ := it_draw_facts s
    refine ⟨by simp only [h10, h9, h8]; exact h.st, ?_, by simp only [h4, h9, h11]; exact h.run,
      by simp only [h4, h9, h11]; exact h.stop, by simp only [h11, h8, h10]; exact h.res⟩
    intro r hr
    simp only [List.mem_append, List.mem_singleton] at hr
    rcases hr with hr | rfl
    · exact h.hasSt r hr
    · simp
  | co i k m r o hr hco =>
    have hrel := coStep_sound hco
    have hput := hrel.put_none hfix
    refine ⟨by simpa [hput, putStates] using h.st, ?_, by simpa [hput, putStates] using h.run,
      by simpa [hput, putStates] using h.stop, by simpa using h.res⟩
    intro r' hr'
    rcases List.mem_or_eq_of_mem_set hr' with hr' | rfl
    · exact h.hasSt r' hr'
    · exact hrel.hasState hfix (h.hasSt r (List.mem_of_getElem? hr))
  | zco i k m r o hr hco =>
    have hput := (coStep_sound hco).put_none hfix
    exact ⟨by simpa [hput, putStates] using h.st, h.hasSt, by simpa [hput, putStates] using h.run,
      by simpa [hput, putStates] using h.stop, by simpa using h.res⟩
  | drain b q ho hq => exact ⟨h.st, h.hasSt, h.run, h.stop, h.res⟩
  | checkFinished i r ho hr hco =>
    have hst := h.hasSt r (List.mem_of_getElem? hr) (Or.inr hco)
    have hrun := h.run ho
    refine ⟨by simp [hst, statesOf, ← h.st], hsub i, ?_, by simp [ho], by simp [hrun.2]⟩
    intro _; simpa [hst] using hrun
  | checkTimeout i r ho hr hco => exact ⟨h.st, hsub i, h.run, h.stop, h.res⟩
  | checkErr i r ho hr hco => exact ⟨h.st, hsub i, h.run, h.stop, h.res⟩
  | checkDead i r ho hr hco hdead => exact ⟨h.st, hsub i, h.run, h.stop, h.res⟩
  | finish ho hc =>
    have hrun := h.run ho
    refine ⟨by simpa [statesOf] using h.st, h.hasSt, by simp, ?_, by simp [hrun.2]⟩
    intro _
    exact Or.inl ⟨hrun.2, s.statesQ, rfl, hrun.1⟩
  | merge sh q hres hq =>
    refine ⟨by simpa [hq, statesOf] using h.st, h.hasSt, ?_, ?_, by simp [hres]⟩
    · intro ho
      have := h.run ho
      simp [hq] at this
      exact ⟨by simpa using this.1, hres⟩
    · intro ho
      rcases h.stop ho with ⟨_, pre, hpre, hn⟩ | ⟨hr, _⟩
      · cases pre with
        | nil => simp [hq] at hpre
        | cons x pre' =>
          simp [hq] at hpre
          refine Or.inl ⟨hres, pre', hpre.2, ?_⟩
          intro hmem; exact hn (List.mem_cons_of_mem _ hmem)
      · exact absurd hres hr
  | mergeStop q hres hq =>
    have ho : s.outcome ≠ none := by
      intro ho
      have := (h.run ho).1
      simp [hq] at this
    have hq' : q = [] := by
      rcases h.stop ho with ⟨_, pre, hpre, hn⟩ | ⟨hr, _⟩
      · cases pre with
        | nil => simpa [hq] using hpre
        | cons x pre' =>
          simp [hq] at hpre
          exact absurd (hpre.1 ▸ List.mem_cons_self) hn
      · exact absurd hres hr
    have hm : s.merged = s.finished := by
      have := h.st; simpa [hq, hq', statesOf] using this
    refine ⟨by simpa [hq', statesOf] using hm, h.hasSt, by intro ho'; exact absurd ho' ho, ?_, ?_⟩
    · intro _; exact Or.inr ⟨by simp, hq'⟩
    · intro x hx
      simp only [Option.some.injEq] at hx
      subst hx
      exact ⟨by simp [hm], hm⟩
  | env ws' _ => exact ⟨h.st, h.hasSt, h.run, h.stop, h.res⟩

/-! ## output batches -/

/-- what an attempt has received so far has been put on `output_queue` (or yielded already) -/
def BatOK (c : ICfg) (D : Nat × Nat → Prop) (r : RunI) : Prop :=
  (∀ f pos, r.co = .awaitNext f pos → ∀ b, b < pos → D (r.shard, b)) ∧
  ((r.co = .putDone ∨ r.co = .finished) → ∀ b, b < c.nb r.shard → D (r.shard, b))

theorem BatOK.mono {c : ICfg} {D D' : Nat × Nat → Prop} {r : RunI} (h : BatOK c D r)
    (hd : ∀ x, D x → D' x) : BatOK c D' r :=
  ⟨fun f pos hc b hb => hd _ (h.1 f pos hc b hb), fun hc b hb => hd _ (h.2 hc b hb)⟩

theorem CoRel.batOK {c : ICfg} {ws : List Worker} {r : RunI} {o : CoOut} (h : CoRel c ws r o)
    {D D' : Nat × Nat → Prop} (hr : BatOK c D r) (hd : ∀ x, D x → D' x)
    (hb : ∀ x ∈ o.batches, D' x) : BatOK c D' o.r := by
  have key : ∀ pos k, (∀ b, b < pos → D (r.shard, b)) →
      o.batches = (List.range' pos k).map (fun b => (r.shard, b)) →
      ∀ b, b < pos + k → D' (r.shard, b) := by
    intro pos k h1 h2 b hlt
    by_cases hbp : b < pos
    · exact hd _ (h1 b hbp)
    · apply hb; rw [h2]
      simp only [List.mem_map, List.mem_range'_1]
      exact ⟨b, ⟨by omega, by omega⟩, rfl⟩
  cases h with
  | start h => exact ⟨by simp, by simp⟩
  | initOk h => exact ⟨by simp, by simp⟩
  | raiseT h => exact ⟨by simp, by simp⟩
  | raiseE h => exact ⟨by simp, by simp⟩
  | batches pos k h hk =>
    refine ⟨?_, by simp⟩
    intro f' pos' hc b hlt
    simp at hc
    rw [← hc.2] at hlt
    exact key pos k (hr.1 _ pos h) rfl b hlt
  | marker pos k h hk =>
    refine ⟨by simp, ?_⟩
    intro _ b hlt
    have hlt' : b < c.nb r.shard := hlt
    exact key pos k (hr.1 _ pos h) rfl b (by omega)
  | fin h =>
    refine ⟨by simp, ?_⟩
    intro _ b hlt
    exact hd _ (hr.2 (Or.inl h) b hlt)

structure IInvO (c : ICfg) (s : IT) : Prop where
  bat : ∀ r ∈ s.running, BatOK c (· ∈ s.yieldedB ++ s.outQ) r
  fin : ∀ sh ∈ s.finished, ∀ b, b < c.nb sh → (sh, b) ∈ s.yieldedB ++ s.outQ
  finOut : s.outcome ≠ none → ∀ sh ∈ s.finished, ∀ b, b < c.nb sh → (sh, b) ∈ s.yieldedB

theorem iinvO_init (c : ICfg) (nw : Nat) : IInvO c (IT.init nw c.n) := by
  refine ⟨?_, ?_, ?_⟩ <;> simp [IT.init]

theorem iinvO_step {c : ICfg} {s s' : IT} (h : IInvO c s) (hs : IStep c s s') : IInvO c s' := by
  have hsub : ∀ i, ∀ r ∈ s.running.eraseIdx i, BatOK c (· ∈ s.yieldedB ++ s.outQ) r :=
    fun i r hr => h.bat r (List.mem_of_mem_eraseIdx hr)
  cases hs with
  | submitNone w ho hb hd =>
    obtain ⟨_, _, _, h4, h5, _, _, h8, _, _, _, h12, h13, _⟩ := it_draw_facts s
    exact ⟨by rw [h5, h12, h13]; exact h.bat, by rw [h8, h12, h13]; exact h.fin,
      by rw [h4, h8, h12]; exact h.finOut⟩
  | submitSome w t rest ho hb halive hfree hd =>
    obtain ⟨_, _, _, h4, h5, _, _, h8, _, _, _, h12, h13, _⟩ := it_draw_facts s
    refine ⟨?_, by simp only [h8, h12, h13]; exact h.fin, by simp only [h4, h8, h12]; exact h.finOut⟩
    intro r hr
    simp only [List.mem_append, List.mem_singleton] at hr
    simp only [h12, h13]
    rcases hr with hr | rfl
    · exact h.bat r hr
    · exact ⟨by simp, by simp⟩
  | co i k m r o hr hco =>
    have hmono : ∀ x, x ∈ s.yieldedB ++ s.outQ → x ∈ s.yieldedB ++ (s.outQ ++ o.batches) := by
      intro x hx; simp only [List.mem_append] at hx ⊢
      rcases hx with hx | hx <;> simp [hx]
    refine ⟨?_, fun sh hsh b hb => hmono _ (h.fin sh hsh b hb), h.finOut⟩
    intro r' hr'
    rcases List.mem_or_eq_of_mem_set hr' with hr' | rfl
    · exact (h.bat r' hr').mono hmono
    · exact (coStep_sound hco).batOK (h.bat r (List.mem_of_getElem? hr)) hmono
        (fun x hx => by simp only [List.mem_append]; exact Or.inr (Or.inr hx))
  | zco i k m r o hr hco =>
    have hmono : ∀ x, x ∈ s.yieldedB ++ s.outQ → x ∈ s.yieldedB ++ (s.outQ ++ o.batches) := by
      intro x hx; simp only [List.mem_append] at hx ⊢
      rcases hx with hx | hx <;> simp [hx]
    exact ⟨fun r hr => (h.bat r hr).mono hmono, fun sh hsh b hb => hmono _ (h.fin sh hsh b hb), h.finOut⟩
  | drain b q ho hq =>
    have hmono : ∀ x, x ∈ s.yieldedB ++ s.outQ → x ∈ (s.yieldedB ++ [b]) ++ q := by
      intro x hx; simp only [hq, List.mem_append, List.mem_cons, List.mem_singleton] at hx ⊢
      rcases hx with hx | hx | hx <;> simp [hx]
    exact ⟨fun r hr => (h.bat r hr).mono hmono, fun sh hsh b hb => hmono _ (h.fin sh hsh b hb), by simp [ho]⟩
  | checkFinished i r ho hr hco =>
    refine ⟨hsub i, ?_, by simp [ho]⟩
    intro sh hsh b hb
    simp only [List.mem_append, List.mem_singleton] at hsh
    rcases hsh with hsh | rfl
    · exact h.fin sh hsh b hb
    · exact (h.bat r (List.mem_of_getElem? hr)).2 (Or.inr hco) b hb
  | checkTimeout i r ho hr hco => exact ⟨hsub i, h.fin, by simp [ho]⟩
  | checkErr i r ho hr hco => exact ⟨hsub i, h.fin, by simp [ho]⟩
  | checkDead i r ho hr hco hdead => exact ⟨hsub i, h.fin, by simp [ho]⟩
  | finish ho hc =>
    have hmono : ∀ x, x ∈ s.yieldedB ++ s.outQ → x ∈ (s.yieldedB ++ s.outQ) ++ [] := by
      intro x hx; simpa using hx
    exact ⟨fun r hr => (h.bat r hr).mono hmono, fun sh hsh b hb => hmono _ (h.fin sh hsh b hb),
      fun _ sh hsh b hb => h.fin sh hsh b hb⟩
  | merge sh q hres hq => exact ⟨h.bat, h.fin, h.finOut⟩
  | mergeStop q hres hq => exact ⟨h.bat, h.fin, h.finOut⟩
  | env ws' _ => exact ⟨h.bat, h.fin, h.finOut⟩

/-! ## `iterate` never acquires a worker -/

theorem set_noAcq {ws : List Worker} {w : Nat} {y : Worker} (hws : ∀ z ∈ ws, z.acquired = false)
    (hy : y.acquired = false) : ∀ z ∈ ws.set w y, z.acquired = false := by
  intro z hz
  rcases List.mem_or_eq_of_mem_set hz with hz | rfl
  · exact hws z hz
  · exact hy

theorem issue_noAcq (env : Env) {ws : List Worker} (w : Nat) (hws : ∀ z ∈ ws, z.acquired = false) :
    ∀ z ∈ (issue env ws w).2, z.acquired = false := by
  unfold issue
  cases hx : ws[w]? with
  | none => simpa using hws
  | some x =>
    have hxa := hws x (List.mem_of_getElem? hx)
    simp only
    apply set_noAcq hws
    unfold Worker.issue
    split
    · exact hxa
    · split <;> exact hxa

theorem crashW_noAcq {env : Env} {ws ws' : List Worker} {w : Nat} (h : crashW env ws w = some ws')
    (hws : ∀ z ∈ ws, z.acquired = false) : ∀ z ∈ ws', z.acquired = false := by
  unfold crashW at h
  cases hx : ws[w]? with
  | none => simp [hx] at h
  | some x =>
    have hxa := hws x (List.mem_of_getElem? hx)
    simp only [hx] at h
    split at h
    · cases h
    · split at h
      · cases h; exact set_noAcq hws hxa
      · cases h; exact set_noAcq hws hxa
      · cases h

theorem rejoinW_noAcq {ws ws' : List Worker} {w : Nat} (h : rejoinW ws w = some ws')
    (hws : ∀ z ∈ ws, z.acquired = false) : ∀ z ∈ ws', z.acquired = false := by
  unfold rejoinW at h
  cases hx : ws[w]? with
  | none => simp [hx] at h
  | some x =>
    have hxa := hws x (List.mem_of_getElem? hx)
    simp only [hx] at h
    split at h
    · cases h; exact set_noAcq hws hxa
    · cases h

theorem CoRel.noAcq {c : ICfg} {ws : List Worker} {r : RunI} {o : CoOut} (h : CoRel c ws r o)
    (hws : ∀ z ∈ ws, z.acquired = false) : ∀ z ∈ o.ws, z.acquired = false := by
  cases h with
  | start h => exact issue_noAcq c.env _ hws
  | initOk h => exact issue_noAcq c.env _ hws
  | raiseT h => exact hws
  | raiseE h => exact hws
  | batches pos k h hk => exact issue_noAcq c.env _ hws
  | marker pos k h hk => exact hws
  | fin h => exact hws

theorem noAcq_step {c : ICfg} {s s' : IT} (h : ∀ x ∈ s.ws, x.acquired = false) (hs : IStep c s s') :
    ∀ x ∈ s'.ws, x.acquired = false := by
  have hd : s.draw.ws = s.ws := (it_draw_facts s).2.2.2.2.2.2.2.2.2.2.2.2.2.1
  cases hs with
  | submitNone w ho hb hd' => rw [hd]; exact h
  | submitSome w t rest ho hb halive hfree hd' => simp only [hd]; exact h
  | co i k m r o hr hco => exact (coStep_sound hco).noAcq h
  | zco i k m r o hr hco => exact (coStep_sound hco).noAcq h
  | drain b q ho hq => exact h
  | checkFinished i r ho hr hco => exact h
  | checkTimeout i r ho hr hco => exact h
  | checkErr i r ho hr hco => exact h
  | checkDead i r ho hr hco hdead => exact h
  | finish ho hc => exact h
  | merge sh q hres hq => exact h
  | mergeStop q hres hq => exact h
  | env ws' hw =>
    rcases hw with ⟨w, hw⟩ | ⟨w, hw, _⟩
    · exact crashW_noAcq hw h
    · exact rejoinW_noAcq hw h

theorem noAcquire_reach {c : ICfg} {nw : Nat} {s : IT} (h : IReach c (IT.init nw c.n) s) :
    ∀ x ∈ s.ws, x.acquired = false := by
  induction h with
  | refl =>
    intro x hx
    simp [IT.init] at hx
    rw [hx.2]
  | step l _ hs ih => exact noAcq_step ih (itStep_sound hs)

/-! ## all invariants along any run -/

theorem iinv_reach {c : ICfg} {nw : Nat} {s : IT} (h : IReach c (IT.init nw c.n) s) :
    IInvB c s ∧ IInvO c s ∧ (c.directPut = false → IInvS c s) := by
  induction h with
  | refl => exact ⟨iinvB_init c nw, iinvO_init c nw, fun _ => iinvS_init c nw⟩
  | step l _ hs ih =>
    have := itStep_sound hs
    exact ⟨iinvB_step ih.1 this, iinvO_step ih.2.1 this, fun hf => iinvS_step hf (ih.2.2 hf) this⟩

end MlModel.Sched
