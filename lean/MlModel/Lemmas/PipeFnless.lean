import MlModel.Lemmas.Pipe
import MlModel.Lemmas.PipeAligned
import MlModel.Model.PipeFnless
/-!
# Operators without a function route values unchanged (lemmas for `C08_fnless_*`)
-/
set_option linter.unusedSimpArgs false
namespace MlModel.Pipe
open MlModel.Iter

/-- the argument tuple comes apart into its elements, whatever the elements are -/
@[simp] theorem outputsOf_tuple (xs : List Val) : outputsOf (.tuple xs) = xs := rfl

/-- `_identity_fn(*x) = x` through `_maybe_call_fn`: the result is the argument tuple, the state is untouched -/
theorem callFn_fnless (op : Op) (hf : op.Fnless) (s : Nat) (ins : List Val) :
    callFn op s ins = (.ok (.tuple ins), s) := by
  obtain ⟨hfn, ha⟩ := hf
  simp [callFn, hfn, ha, identityFn]

/-- `_normalize_outputs` on the result of `_identity_fn`: the selected values again — wrapped once more only
when `SELF` is the first output key and there are several of them -/
theorem normOuts_tuple (op : Op) (ins : List Val) :
    normOuts op (.tuple ins) =
      match op.outKeys with
      | [] => ins
      | k :: _ => if k.isSelf && decide (ins.length > 1) then [.tuple ins] else ins := by
  unfold normOuts
  cases op.outKeys with
  | nil => simp
  | cons k ks => simp

theorem getOutputs_dictForMany (op : Op) (items : List (Key × Key)) (hk : op.outKeys = [.dict items])
    (base : Val) (a b : Val) (rest : List Val) :
    getOutputs op base (a :: b :: rest) = dictForMany base := by
  unfold getOutputs dictForMany
  simp only [hk]
  simp
  cases base <;> rfl

/-- the reference routing of a call result, on the result of `_identity_fn`: the specification for values -/
theorem write_tuple (op : Op) (base : Val) (ins : List Val) :
    Ref.write op base (.tuple ins) = Ref.routeValues base op.outKeys ins := by
  unfold Ref.write Ref.routeValues
  simp only [outputsOf_tuple]
  rcases hk : op.outKeys with _ | ⟨k, _ | ⟨k', rest⟩⟩
  · rfl
  · rcases ins with _ | ⟨a, _ | ⟨b, r⟩⟩
    · cases k <;> rfl
    · cases k <;> rfl
    · cases k with
      | key k => rfl
      | dict items => exact getOutputs_dictForMany op items hk base a b r
  · cases k <;> rfl

/-- **the packing conventions cancel**: call, normalise, route = route the selected values directly -/
theorem callAndRoute_fnless (op : Op) (hf : op.Fnless) (hs : SelfAlone op) (s : Nat) (base : Val)
    (ins : List Val) :
    Impl.callAndRoute op s base ins = (liftErr (Ref.routeValues base op.outKeys ins), s) := by
  simp only [Impl.callAndRoute, callFn_fnless op hf, normalizeOutputs_eq, bind, Except.bind,
    getOutputs_normOuts op hs, write_tuple]

theorem isSelf_eq {k : OutKey} (h : k.isSelf = true) : k = .key .self := by
  cases k with
  | dict _ => simp [OutKey.isSelf] at h
  | key k => cases k <;> simp_all [OutKey.isSelf, Key.isSelf]

/-- `SELF` as the first of several output keys: every record whose values can be read raises `ValueError`
(`zip(strict=True)`: the outputs were wrapped into one, or there was at most one to begin with) -/
theorem callAndRoute_selfMixed (op : Op) (hf : op.Fnless) (hm : selfMixedB op = true) (s : Nat) (base : Val)
    (ins : List Val) :
    Impl.callAndRoute op s base ins = (.error { kind := .value }, s) := by
  simp only [Impl.callAndRoute, callFn_fnless op hf, normalizeOutputs_eq, bind, Except.bind]
  unfold selfMixedB at hm
  rcases hk : op.outKeys with _ | ⟨k, _ | ⟨k', rest⟩⟩
  · simp [hk] at hm
  · simp [hk] at hm
  · simp only [hk] at hm
    have hkk := isSelf_eq hm
    subst hkk
    have hn : ∀ outs, outs.length ≤ 1 →
        getOutputs op base outs = .error .value := by
      intro outs hl
      unfold getOutputs
      simp only [hk]
      rcases outs with _ | ⟨x, _ | ⟨y, r⟩⟩
      · rfl
      · simp [setZip, setOne, setKey, bind, Except.bind]
      · simp at hl
    rw [normOuts_tuple, hk]
    by_cases h1 : ins.length > 1
    · simp [OutKey.isSelf, Key.isSelf, h1, hn]
    · have : ins.length ≤ 1 := by omega
      simp [OutKey.isSelf, Key.isSelf, h1, hn ins this]

/-! ## streams -/

theorem semCall_fnless (op : Op) (hf : op.Fnless) (s : Nat) (r : Val) :
    Ref.semCall op s r =
      match getInputs op r with
      | .error k => (.error { kind := k }, s)
      | .ok ins => (.ok (.tuple ins), s) := by
  unfold Ref.semCall
  cases getInputs op r with
  | error k => rfl
  | ok ins => simp [callFn_fnless op hf]

theorem semWrite_fnless (op : Op) (hk : op.kind = .select ∨ op.kind = .apply ∨ op.kind = .assign)
    (r : Val) (ins : List Val) :
    Ref.semWrite op r (.tuple ins)
      = (liftErr (Ref.routeValues (if op.kind = .assign then r else .null) op.outKeys ins)).map some := by
  unfold Ref.semWrite
  rcases hk with h | h | h <;> simp [h, write_tuple]

/-- the reference of the refinement theorems, for an operator without a function, is the direct specification -/
theorem opEvents_fnless (ignore : Bool) (op : Op) (hf : op.Fnless)
    (hk : op.kind = .select ∨ op.kind = .apply ∨ op.kind = .assign) (s : Nat) (src : List (Ev Val)) :
    Ref.opEvents ignore op s src = Ref.fnlessEvents ignore op src := by
  induction src with
  | nil => rfl
  | cons ev rest ih =>
    cases ev with
    | error e => simp only [Ref.opEvents, Ref.fnlessEvents, ih]
    | ok r =>
      simp only [Ref.opEvents, Ref.fnlessEvents, semCall_fnless op hf]
      cases hg : getInputs op r with
      | error k => simp only [ih]
      | ok ins =>
        simp only [semWrite_fnless op hk]
        cases hr : Ref.routeValues (if op.kind = .assign then r else .null) op.outKeys ins with
        | error e => simp [liftErr, Except.map, ih]
        | ok x => simp [liftErr, Except.map, ih]

theorem chainEvents_fnless (ignore : Bool) (ops : List Op)
    (h : ∀ op ∈ ops, op.Fnless ∧ (op.kind = .select ∨ op.kind = .apply ∨ op.kind = .assign))
    (src : List (Ev Val)) :
    Ref.chainEvents ignore ops src = Ref.fnlessChain ignore ops src := by
  induction ops generalizing src with
  | nil => rfl
  | cons op ops ih =>
    have ho := h op (List.mem_cons_self ..)
    simp only [Ref.chainEvents, Ref.fnlessChain, opEvents_fnless ignore op ho.1 ho.2]
    exact ih (fun o hm => h o (List.mem_cons_of_mem _ hm)) _

theorem chainEventsS_fnless (ignore : Bool) (ops : List Op)
    (h : ∀ op ∈ ops, op.Fnless ∧ (op.kind = .select ∨ op.kind = .apply ∨ op.kind = .assign))
    (src : List (Ev Val)) :
    Ref.chainEventsS ignore ops src = Ref.fnlessChainS ignore ops src := by
  induction ops generalizing src with
  | nil => rfl
  | cons op ops ih =>
    have ho := h op (List.mem_cons_self ..)
    simp only [Ref.chainEventsS, Ref.fnlessChainS, opEvents_fnless ignore op ho.1 ho.2]
    exact ih (fun o hm => h o (List.mem_cons_of_mem _ hm)) _

/-- an un-batched operator without a function whose first of several output keys is not `SELF` is `OpOK`
(it is no filter, so `OpOK.pred` is vacuous) -/
theorem opOK_fnless (op : Op) (hb : op.fnBatch = 0 ∧ op.batch = 0) (hs : SelfAlone op)
    (hk : op.kind = .select ∨ op.kind = .apply ∨ op.kind = .assign) : OpOK op :=
  ⟨hb, hs, fun hf => by rcases hk with h | h | h <;> simp [h] at hf⟩

theorem runOKA_of_opOK (ignore : Bool) (ops : List Op) (h : ∀ op ∈ ops, OpOK op) (src : List (Ev Val)) :
    RunOKA ignore ops src := by
  induction ops generalizing src with
  | nil => trivial
  | cons op ops ih =>
    exact ⟨Or.inl (h op (List.mem_cons_self ..)), ih (fun o hm => h o (List.mem_cons_of_mem _ hm)) _⟩

/-! ## with batch sizes: an operator without a function only regroups -/

/-- the first output key is not `SELF` (with batch sizes `SELF` cannot hold several columns) -/
def FirstNotSelf (op : Op) : Prop := ∀ k rest, op.outKeys = k :: rest → k.isSelf = false

theorem normOuts_tuple_notSelf (op : Op) (h : FirstNotSelf op) (ins : List Val) :
    normOuts op (.tuple ins) = ins := by
  rw [normOuts_tuple]
  rcases hk : op.outKeys with _ | ⟨k, rest⟩
  · rfl
  · simp [h k rest hk]

theorem callGroups_fnless (ignore : Bool) (op : Op) (hf : op.Fnless) (h : FirstNotSelf op)
    (tail : Option Err) (s : Nat) (gs : List (List Val)) :
    Ref.callGroups ignore op tail s gs = (gs, tail) := by
  induction gs with
  | nil => rfl
  | cons g gs ih =>
    simp [Ref.callGroups, callFn_fnless op hf, normOuts_tuple_notSelf op h, ih]

/-! ## read-back on dict records with plain names -/

theorem assignFlat_values (kvs : List (String × Val)) (names : List String) (outs : List Val)
    (hn : names.Nodup) (k : List (String × Val)) (h : assignFlat kvs names outs = some k) :
    ∀ i (h1 : i < names.length) (h2 : i < outs.length), lookup names[i] k = some outs[i] := by
  induction names generalizing kvs outs with
  | nil => intro i h1; simp at h1
  | cons n ns ih =>
    cases outs with
    | nil => simp [assignFlat] at h
    | cons o os =>
      simp only [assignFlat] at h
      have hn' : ns.Nodup := (List.nodup_cons.mp hn).2
      have hnn : n ∉ ns := (List.nodup_cons.mp hn).1
      intro i h1 h2
      cases i with
      | zero =>
        obtain ⟨hfr, _, _, _⟩ := assignFlat_frame _ ns os k h
        simp only [List.getElem_cons_zero]
        rw [hfr n hnn, lookup_upsert]; simp
      | succ j =>
        simp only [List.getElem_cons_succ]
        exact ih _ os hn' h j (by simpa using h1) (by simpa using h2)

theorem assignFlat_some (kvs : List (String × Val)) (names : List String) (outs : List Val)
    (hl : names.length = outs.length) : ∃ k, assignFlat kvs names outs = some k := by
  induction names generalizing kvs outs with
  | nil => cases outs with
    | nil => exact ⟨kvs, rfl⟩
    | cons o os => simp at hl
  | cons n ns ih =>
    cases outs with
    | nil => simp at hl
    | cons o os => simpa [assignFlat] using ih (upsert n o kvs) os (by simpa using hl)

/-- routing onto the placeholder an `apply` / `select` starts from = routing onto the empty dict (plain names) -/
theorem routeAll_null_names (names : List String) (outs : List Val) (hne : names ≠ []) :
    Ref.routeAll .null (names.map fun n => OutKey.key (.name n)) outs
      = Ref.routeAll (.dict []) (names.map fun n => OutKey.key (.name n)) outs := by
  cases names with
  | nil => exact absurd rfl hne
  | cons n ns =>
    cases outs with
    | nil => rfl
    | cons o os =>
      simp [Ref.routeAll, Ref.route, setKey, setPath, defaultTree, asKeyError, lookup, upsert, bind, Except.bind]

end MlModel.Pipe
