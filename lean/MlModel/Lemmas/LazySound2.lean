import MlModel.Lemmas.LazySound
import MlModel.Lemmas.LruInv
namespace MlModel.Lazy
set_option linter.unusedSimpArgs false
set_option linter.unusedVariables false

theorem pair_eta {α β : Type} {x : α × β} {a : α} (h : x.1 = a) : x = (a, x.2) := by
  obtain ⟨p, q⟩ := x; simp only at h; rw [h]

theorem fncGet_run (k : Expr) (s : St) :
    fncGet k s = (.ok (s.fnc.getitem k).1, { s with fnc := (s.fnc.getitem k).2 }) := rfl

theorem fncSet_run (k : Expr) (r : RVal) (s : St) :
    fncSet k r s = (.ok (), { s with fnc := s.fnc.setitem k r }) := rfl

mutual
theorem eval_sound : ∀ (e : Expr) (s : St), e.leafAll pureP = true → e.noLazy = true → Sound s.fnc →
    (∀ w, (eval e s).1.map (·.1) = (eager e w).1.map (·.1)) ∧ Sound (eval e s).2.fnc
  | .const v, s, hp, hl, hs => by
    simp only [Expr.leafAll] at hp
    simp only [eval, eager]
    rw [makeVal_not_handle (leafAll_pure_noHandle hp)]
    exact ⟨fun w => rfl, hs⟩
  | .traced v l, s, hp, hl, hs => by
    simp only [Expr.noLazy, Bool.not_eq_true'] at hl
    subst hl
    simp only [eval, eager, Bool.false_eq_true, if_false]
    exact ⟨fun w => rfl, hs⟩
  | .call f as ks c l, s, hp, hl, hs => by
    simp only [Expr.leafAll, Bool.and_eq_true] at hp
    obtain ⟨⟨hpf, hpa⟩, hpk⟩ := hp
    simp only [Expr.noLazy, Bool.and_eq_true, Bool.not_eq_true', bne_iff_ne, ne_eq] at hl
    obtain ⟨⟨⟨⟨hl0, hnone⟩, hlf⟩, hla⟩, hlk⟩ := hl
    subst hl0
    -- the body, from any sound state
    have hbody : ∀ s : St, Sound s.fnc →
        (∀ w, (callBody f as ks false s).1.map (·.1) = (eager (.call f as ks c false) w).1.map (·.1)) ∧
        Sound (callBody f as ks false s).2.fnc := by
      intro s hs
      simp only [callBody, hnone, if_false]
      obtain ⟨ihf, ihfs⟩ := eval_sound f s hpf hlf hs
      cases h1 : eval f s with
      | mk r1 s1 =>
        rw [h1] at ihf ihfs
        simp only at ihf ihfs
        cases r1 with
        | error e =>
          rw [bind_err h1]
          refine ⟨fun w => ?_, ihfs⟩
          have he := pair_eta (map_err_inv (ihf w).symm)
          rw [eager_call_err_f he]
        | ok fv =>
          rw [bind_ok h1]
          -- facts about fv from an arbitrary eager run
          have hfvP : fv.1.leafAll pureP = true := by
            obtain ⟨fv', he, hv⟩ := map_ok_inv (ihf s.w).symm
            have := eager_leafAll pureP f s.w _ fv' hpf (pair_eta he)
            rw [hv] at this; exact this
          by_cases hfn : ∃ name, fv.1 = .fn name
          · obtain ⟨name, hfv1⟩ := hfn
            have hnc := pure_fn_ne_counter hfvP hfv1
            simp only [hfv1, Val.callable, Bool.not_true, Bool.false_eq_true, if_false]
            obtain ⟨iha, ihas⟩ := evalArgs_sound as s1 hpa hla ihfs
            cases h2 : evalArgs as s1 with
            | mk r2 s2 =>
              rw [h2] at iha ihas
              simp only at iha ihas
              cases r2 with
              | error e =>
                rw [bind_err h2]
                refine ⟨fun w => ?_, ihas⟩
                obtain ⟨fv', he, hv⟩ := map_ok_inv (ihf w).symm
                have he2 := pair_eta (map_err_inv (iha (eager f w).2).symm)
                rw [eager_call_err_args (pair_eta he) (hv.trans hfv1) he2]
              | ok avs =>
                rw [bind_ok h2]
                have havsP : ∀ a ∈ avs, a.1.leafAll pureP = true := by
                  obtain ⟨avs', he, hv⟩ := map_ok_inv (iha s.w).symm
                  exact leafAll_of_vals hv.symm (eagerArgs_leafAll pureP as s.w _ avs' hpa (pair_eta he))
                obtain ⟨ihk, ihks⟩ := evalKw_sound ks s2 hpk hlk ihas
                cases h3 : evalKw ks s2 with
                | mk r3 s3 =>
                  rw [h3] at ihk ihks
                  simp only at ihk ihks
                  cases r3 with
                  | error e =>
                    rw [bind_err h3]
                    refine ⟨fun w => ?_, ihks⟩
                    obtain ⟨fv', he, hv⟩ := map_ok_inv (ihf w).symm
                    obtain ⟨avs', he2, hv2⟩ := map_ok_inv (iha (eager f w).2).symm
                    have he3 := pair_eta (map_err_inv (ihk (eagerArgs as (eager f w).2).2).symm)
                    rw [eager_call_err_kw (pair_eta he) (hv.trans hfv1) (pair_eta he2) he3]
                  | ok kvs =>
                    rw [bind_ok h3]
                    have hkvsP : ∀ a ∈ kvs, a.2.1.leafAll pureP = true := by
                      obtain ⟨kvs', he, hv⟩ := map_ok_inv (ihk s.w).symm
                      exact leafAll_of_kvals hv.symm (eagerKw_leafAll pureP ks s.w _ kvs' hpk (pair_eta he))
                    have hfveq : fv = (Val.fn name, fv.2) := by
                      obtain ⟨a, b⟩ := fv; simp only at hfv1; subst hfv1; rfl
                    have happ := applyMake_fn pureP (fun _ => rfl) (name := name) (ref := fv.2) havsP hkvsP s3
                    rw [← hfveq] at happ
                    have hval : ∀ w, (applyLib name avs kvs s3.w).1.map (·.1) =
                        (eager (.call f as ks c false) w).1.map (·.1) := by
                      intro w
                      obtain ⟨fv', he, hv⟩ := map_ok_inv (ihf w).symm
                      obtain ⟨avs', he2, hv2⟩ := map_ok_inv (iha (eager f w).2).symm
                      obtain ⟨kvs', he3, hv3⟩ := map_ok_inv (ihk (eagerArgs as (eager f w).2).2).symm
                      rw [eager_call_ok (pair_eta he) (hv.trans hfv1) (pair_eta he2) (pair_eta he3)]
                      exact applyLib_val_congr hnc hv2.symm hv3.symm _ _
                    cases h4 : applyLib name avs kvs s3.w with
                    | mk r4 w4 =>
                      rw [h4] at happ hval
                      cases r4 with
                      | error e => rw [bind_err happ]; exact ⟨hval, ihks⟩
                      | ok rv =>
                        rw [bind_ok happ]
                        simp only [Bool.false_eq_true, if_false, pure_run]
                        exact ⟨hval, ihks⟩
          · have hn : ∀ n, fv.1 ≠ .fn n := fun n e => hfn ⟨n, e⟩
            have hcall : fv.1.callable = false := by
              have := leafAll_pure_noHandle hfvP
              cases hv : fv.1 <;> simp_all [Val.callable]
            simp only [hcall, Bool.not_false, if_true, throw_run]
            refine ⟨fun w => ?_, ihfs⟩
            obtain ⟨fv', he, hv⟩ := map_ok_inv (ihf w).symm
            rw [eager_call_not_callable (pair_eta he) (by rw [hv]; exact hn)
              (by rw [hv]; exact leafAll_pure_noHandle hfvP)]
    rw [eval_call]
    cases c with
    | false =>
      simp only [Bool.false_eq_true, if_false]
      exact hbody s hs
    | true =>
      simp only [if_true]
      rw [bind_ok (fncGet_run _ s)]
      have hkey : ∀ w, eager (Expr.call f as ks true false).key w = eager (Expr.call f as ks true false) w :=
        eager_key _
      cases hres : (s.fnc.getitem (Expr.call f as ks true false).key).1 with
      | some rv =>
        simp only [pure_run]
        refine ⟨fun w => ?_, sound_getitem hs _⟩
        have hmem : ((Expr.call f as ks true false).key, rv) ∈ s.fnc.data := by
          rw [Lru.getitem_result] at hres
          exact Lru.find?_some_mem hres
        rw [← hkey w]
        exact (hs _ rv hmem w).symm
      | none =>
        simp only
        obtain ⟨hb1, hb2⟩ := hbody { s with fnc := (s.fnc.getitem (Expr.call f as ks true false).key).2 }
          (sound_getitem hs _)
        cases hcb : callBody f as ks false
            { s with fnc := (s.fnc.getitem (Expr.call f as ks true false).key).2 } with
        | mk r1 s1 =>
          rw [hcb] at hb1 hb2
          simp only at hb1 hb2
          cases r1 with
          | error e => rw [bind_err hcb]; exact ⟨hb1, hb2⟩
          | ok rv =>
            rw [bind_ok hcb, bind_ok (fncSet_run _ rv s1)]
            simp only [pure_run]
            refine ⟨hb1, sound_setitem hb2 _ rv (fun w => ?_)⟩
            rw [hkey w]; exact (hb1 w).symm
theorem evalArgs_sound : ∀ (as : List Expr) (s : St), Expr.leafAllL pureP as = true →
    Expr.noLazyL as = true → Sound s.fnc →
    (∀ w, (evalArgs as s).1.map vals = (eagerArgs as w).1.map vals) ∧ Sound (evalArgs as s).2.fnc
  | [], s, hp, hl, hs => by
    simp only [evalArgs, eagerArgs, pure_run]; exact ⟨fun w => trivial, hs⟩
  | a :: as, s, hp, hl, hs => by
    simp only [Expr.leafAllL, Expr.noLazyL, Bool.and_eq_true] at hp hl
    simp only [evalArgs]
    obtain ⟨ih1, ih1s⟩ := eval_sound a s hp.1 hl.1 hs
    cases h1 : eval a s with
    | mk r1 s1 =>
      rw [h1] at ih1 ih1s
      simp only at ih1 ih1s
      cases r1 with
      | error e =>
        rw [bind_err h1]
        refine ⟨fun w => ?_, ih1s⟩
        rw [eagerArgs_cons_err1 (pair_eta (map_err_inv (ih1 w).symm))]
      | ok v =>
        rw [bind_ok h1]
        obtain ⟨ih2, ih2s⟩ := evalArgs_sound as s1 hp.2 hl.2 ih1s
        cases h2 : evalArgs as s1 with
        | mk r2 s2 =>
          rw [h2] at ih2 ih2s
          simp only at ih2 ih2s
          cases r2 with
          | error e =>
            rw [bind_err h2]
            refine ⟨fun w => ?_, ih2s⟩
            obtain ⟨v', he, hv⟩ := map_ok_inv (ih1 w).symm
            rw [eagerArgs_cons_err2 (pair_eta he) (pair_eta (map_err_inv (ih2 (eager a w).2).symm))]
          | ok vs =>
            rw [bind_ok h2]
            simp only [pure_run]
            refine ⟨fun w => ?_, ih2s⟩
            obtain ⟨v', he, hv⟩ := map_ok_inv (ih1 w).symm
            obtain ⟨vs', he2, hv2⟩ := map_ok_inv (ih2 (eager a w).2).symm
            rw [eagerArgs_cons_ok (pair_eta he) (pair_eta he2)]
            simp only [Except.map, vals, List.map_cons] at hv2 ⊢
            rw [hv, hv2]
theorem evalKw_sound : ∀ (ks : List (String × Expr)) (s : St), Expr.leafAllK pureP ks = true →
    Expr.noLazyK ks = true → Sound s.fnc →
    (∀ w, (evalKw ks s).1.map kvals = (eagerKw ks w).1.map kvals) ∧ Sound (evalKw ks s).2.fnc
  | [], s, hp, hl, hs => by
    simp only [evalKw, eagerKw, pure_run]; exact ⟨fun w => trivial, hs⟩
  | (k, a) :: ks, s, hp, hl, hs => by
    simp only [Expr.leafAllK, Expr.noLazyK, Bool.and_eq_true] at hp hl
    simp only [evalKw]
    obtain ⟨ih1, ih1s⟩ := eval_sound a s hp.1 hl.1 hs
    cases h1 : eval a s with
    | mk r1 s1 =>
      rw [h1] at ih1 ih1s
      simp only at ih1 ih1s
      cases r1 with
      | error e =>
        rw [bind_err h1]
        refine ⟨fun w => ?_, ih1s⟩
        rw [eagerKw_cons_err1 (pair_eta (map_err_inv (ih1 w).symm))]
      | ok v =>
        rw [bind_ok h1]
        obtain ⟨ih2, ih2s⟩ := evalKw_sound ks s1 hp.2 hl.2 ih1s
        cases h2 : evalKw ks s1 with
        | mk r2 s2 =>
          rw [h2] at ih2 ih2s
          simp only at ih2 ih2s
          cases r2 with
          | error e =>
            rw [bind_err h2]
            refine ⟨fun w => ?_, ih2s⟩
            obtain ⟨v', he, hv⟩ := map_ok_inv (ih1 w).symm
            rw [eagerKw_cons_err2 (pair_eta he) (pair_eta (map_err_inv (ih2 (eager a w).2).symm))]
          | ok vs =>
            rw [bind_ok h2]
            simp only [pure_run]
            refine ⟨fun w => ?_, ih2s⟩
            obtain ⟨v', he, hv⟩ := map_ok_inv (ih1 w).symm
            obtain ⟨vs', he2, hv2⟩ := map_ok_inv (ih2 (eager a w).2).symm
            rw [eagerKw_cons_ok (pair_eta he) (pair_eta he2)]
            simp only [Except.map, kvals, List.map_cons] at hv2 ⊢
            rw [hv, hv2]
end

end MlModel.Lazy
