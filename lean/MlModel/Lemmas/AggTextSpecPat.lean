import MlModel.Lemmas.AggTextSpec
import Mathlib.Tactic.Ring
import Mathlib.Tactic.FieldSimp
/-!
# `PatternFrequency` and `avg_alphabetical_char_count` compute their specifications
-/
namespace MlModel.Agg.Text

/-! ### occurrences of a pattern -/

theorem suffixes_eq (t : Str) : suffixes t = (List.range (t.length + 1)).map fun i => t.drop i := by
  induction t with
  | nil => simp [suffixes]
  | cons c cs ih =>
    rw [suffixes, ih, List.length_cons, List.range_succ_eq_map (n := cs.length + 1)]
    simp [List.map_map, Function.comp_def]

theorem isPrefixOf_iff_take (p s : Str) :
    p.isPrefixOf s = true ↔ s.take p.length = p := by
  rw [List.isPrefixOf_iff_prefix, List.prefix_iff_eq_take]
  exact eq_comm

theorem occurrences_eq_spec (p t : Str) : occurrences p t = Spec.Text.patOccurrences p t := by
  unfold occurrences Spec.Text.patOccurrences
  rw [suffixes_eq, List.countP_map]
  apply List.countP_congr
  intro i hi
  simp only [List.mem_range] at hi
  simp only [Function.comp_apply, isPrefixOf_iff_take, decide_eq_true_eq]
  constructor
  · intro h
    refine ⟨?_, h⟩
    have := congrArg List.length h
    simp only [List.length_take, List.length_drop] at this
    omega
  · exact fun h => h.2

theorem contains_iff (p t : Str) : contains p t = true ↔ 0 < occurrences p t := by
  unfold contains occurrences
  rw [List.countP_pos_iff, List.any_eq_true]

theorem numMatches_eq_spec (cfg : PatCfg) (p t : Str) :
    numMatches cfg p t = Spec.Text.patPerText cfg.countDup p t := by
  unfold numMatches Spec.Text.patPerText
  rw [← occurrences_eq_spec]
  by_cases hd : cfg.countDup = true
  · simp [hd]
  · simp only [hd]
    by_cases hc : contains p t = true
    · simp [hc, (contains_iff p t).mp hc]
    · have : ¬ 0 < occurrences p t := fun h => hc ((contains_iff p t).mpr h)
      simp [hc, this]

/-! ### valid configurations have unique patterns -/

theorem length_dedup_le {K : Type} [DecidableEq K] (l : List K) : (dedup l).length ≤ l.length := by
  induction l with
  | nil => simp [dedup]
  | cons a rest ih =>
    simp only [dedup]
    split
    · simp; omega
    · simp; omega

theorem nodup_of_length_dedup {K : Type} [DecidableEq K] (l : List K)
    (h : (dedup l).length = l.length) : l.Nodup := by
  induction l with
  | nil => simp
  | cons a rest ih =>
    simp only [dedup] at h
    have hle := length_dedup_le rest
    by_cases ha : a ∈ dedup rest
    · simp only [ha, if_true, List.length_cons] at h
      omega
    · simp only [ha, if_false, List.length_cons, Nat.add_right_cancel_iff] at h
      rw [List.nodup_cons]
      exact ⟨fun h' => ha ((mem_dedup rest a).mpr h'), ih h⟩

theorem dedup_of_nodup {K : Type} [DecidableEq K] (l : List K) (h : l.Nodup) : dedup l = l := by
  induction l with
  | nil => rfl
  | cons a rest ih =>
    rw [List.nodup_cons] at h
    simp only [dedup, ih h.2, h.1, if_false]

theorem length_dedup_iff {K : Type} [DecidableEq K] (l : List K) :
    (dedup l).length = l.length ↔ l.Nodup :=
  ⟨nodup_of_length_dedup l, fun h => by rw [dedup_of_nodup l h]⟩

theorem PatCfg.make_ok {ps : List Str} {dup : Bool} {cfg : PatCfg} (h : PatCfg.make ps dup = .ok cfg) :
    cfg.patterns = ps ∧ cfg.countDup = dup ∧ ps.Nodup ∧ ps ≠ [] := by
  unfold PatCfg.make at h
  split at h
  · cases h
  · rename_i hc
    simp only [not_or, Decidable.not_not] at hc
    cases h
    exact ⟨rfl, rfl, nodup_of_length_dedup ps hc.2, hc.1⟩

/-- **the whole pattern table**, for a configuration the constructor accepts -/
theorem pattern_result_eq_spec (cfg : PatCfg) (hn : cfg.patterns.Nodup) (texts : List Str) :
    (patBatch cfg texts).result strLe = Spec.Text.patternTable cfg.patterns cfg.countDup texts := by
  unfold Spec.Text.patternTable
  by_cases ht : texts = []
  · subst ht
    have : (patBatch cfg []).counter = [] := by
      have h1 : ∀ k, k ∉ keys (patBatch cfg []).counter := by
        intro k; rw [mem_keys_patBatch]; simp
      cases hc : (patBatch cfg []).counter with
      | nil => rfl
      | cons kv rest => exact absurd (by rw [hc]; simp [keys]) (h1 kv.1)
    simp [FreqState.result, FreqState.rows, this]
  · simp only [ht, if_false]
    let cnt := fun p => Spec.Text.patCount cfg.countDup p texts
    let sc : Counter Str := cfg.patterns.map fun p => (p, cnt p)
    have hperm : sc.Perm (patBatch cfg texts).counter := by
      apply perm_of_obs
      · rw [keys_map_self]; exact hn
      · exact wf_patBatch cfg texts
      · intro p
        rw [keys_map_self, mem_keys_patBatch]
        simp [ht]
      · intro p
        rw [get_map_self, get_patBatch]
        by_cases hp : p ∈ cfg.patterns
        · rw [patSum_of_nodup _ _ _ _ hn hp]
          simp only [hp, if_true, cnt, Spec.Text.patCount]
          congr 1
          apply List.map_congr_left
          intro t _
          exact (numMatches_eq_spec cfg p t).symm
        · simp only [hp, if_false]
          have : patSum cfg.patterns (numMatches cfg) texts p = 0 := by
            unfold patSum
            apply sum_map_zero
            intro q hq
            have : q ≠ p := fun e => hp (e ▸ hq)
            simp [this]
          exact this.symm
    unfold FreqState.result FreqState.rows
    have hlen : (patBatch cfg texts).count = texts.length := rfl
    rw [hlen]
    apply mergeSort_eq_isort
    have := hperm.map fun kv : Str × Nat => (kv.1, safeDiv kv.2 texts.length)
    simpa [sc, cnt, List.map_map, Function.comp_def, safeDiv_eq_freqOf] using this

/-! ### avg_alphabetical_char_count -/

theorem alphaCount_eq (t : Str) : alphaCount t = Spec.Text.letters t := by
  simp [alphaCount, Spec.Text.letters, List.countP_eq_length_filter]

theorem sum_cast_map {X : Type} (f : X → Nat) (xs : List X) :
    (((xs.map f).sum : Nat) : Rat) = (xs.map fun x => (f x : Rat)).sum := by
  induction xs with
  | nil => simp
  | cons a rest ih => simp [ih]

theorem sum_sq_dev (xs : List Rat) (m : Rat) :
    (xs.map fun x => (x - m) * (x - m)).sum
      = (xs.map fun x => x * x).sum - 2 * m * xs.sum + (xs.length : Rat) * m * m := by
  induction xs with
  | nil => simp
  | cons a rest ih =>
    simp only [List.map_cons, List.sum_cons, List.length_cons, ih]
    push_cast
    ring

/-- mean of squared deviations = `E[x²] − E[x]²` -/
theorem var_eq (xs : List Rat) (h : xs ≠ []) :
    (xs.map fun x => (x - xs.sum / xs.length) * (x - xs.sum / xs.length)).sum / (xs.length : Rat)
      = (xs.map fun x => x * x).sum / (xs.length : Rat)
        - (xs.sum / xs.length) * (xs.sum / xs.length) := by
  have hn : (xs.length : Rat) ≠ 0 := by
    have : xs.length ≠ 0 := by simpa using h
    exact_mod_cast this
  rw [sum_sq_dev]
  field_simp
  ring

theorem avgAlpha_eq_spec (texts : List Str) (h : texts ≠ []) :
    ∃ r, avgAlphaCount texts = .ok r ∧ r.count = (Spec.Text.letterStats texts).count ∧
      r.mean = (Spec.Text.letterStats texts).mean ∧ r.var = (Spec.Text.letterStats texts).var := by
  unfold avgAlphaCount
  simp only [h, if_false]
  refine ⟨_, rfl, by simp [Spec.Text.letterStats], ?_, ?_⟩
  · simp only [Spec.Text.letterStats, List.length_map, sum_cast_map, alphaCount_eq]
  · have hx : (texts.map fun t => ((alphaCount t : Nat) : Rat)) ≠ [] := by simpa using h
    have := var_eq _ hx
    simp only [List.length_map] at this
    simp only [Spec.Text.letterStats, List.length_map]
    rw [this]
    simp only [sum_cast_map, List.map_map, Function.comp_def, alphaCount_eq, Nat.cast_mul]

end MlModel.Agg.Text
