import MlModel.Lemmas.AggText
import MlModel.Lemmas.AggTextWords
import MlModel.Lemmas.AggTextSpecSort
/-!
# The n-gram metric computes the specification's table

`(ngramBatch cfg texts).result strLe = Spec.Text.ngramTable cfg.n cfg.firstOnly cfg.countDup texts`:
* per text and per n-gram string, the model contributes exactly the specification's count
  (`occ_textNGrams`);
* hence the batch counter maps every string to `Spec.Text.ngramCount` and its keys are the strings of
  positive count (`get_ngramBatch_spec`, `mem_keys_ngramBatch_spec`);
* the rows are a permutation of the specification's rows, and both sorts sort by the same total order.
-/
namespace MlModel.Agg.Text

/-! ### positions -/

theorem filter_range_lt (m b : Nat) :
    (List.range m).filter (fun i => decide (i < b)) = List.range (min m b) := by
  induction m with
  | zero => simp
  | succ m ih =>
    rw [List.range_succ, List.filter_append, ih]
    by_cases h : m < b
    · have : min (m + 1) b = min m b + 1 := by omega
      rw [this, List.range_succ]
      have : min m b = m := by omega
      simp [h, this]
    · have : min (m + 1) b = min m b := by omega
      simp [h, this]

theorem positions_eq (n : Nat) (ws : List Str) :
    Spec.Text.positions n ws = if n ≤ ws.length then List.range (ws.length - n + 1) else [] := by
  unfold Spec.Text.positions
  by_cases h : n ≤ ws.length
  · simp only [h, if_true]
    have : (fun i => decide (i + n ≤ ws.length)) = fun i => decide (i < ws.length - n + 1) := by
      funext i; congr 1; apply propext; omega
    rw [this, filter_range_lt]
    congr 1; omega
  · simp only [h, if_false]
    apply List.filter_eq_nil_iff.mpr
    intro i _
    simp; omega

theorem windows_join (n : Nat) (ws : List Str) (h : n ≤ ws.length) :
    (windows n ws).map join = (Spec.Text.positions n ws).map (Spec.Text.gramAt n ws) := by
  rw [positions_eq, if_pos h]
  simp [windows, join, Spec.Text.gramAt, List.map_map, Function.comp_def]

theorem occ_windows (n : Nat) (ws : List Str) (g : Str) (h : n ≤ ws.length) :
    occ ((windows n ws).map join) g = Spec.Text.occIn n g ws := by
  rw [windows_join n ws h, occ, List.countP_map]
  rfl

theorem mem_windows (n : Nat) (ws : List Str) (g : Str) (h : n ≤ ws.length) :
    g ∈ (windows n ws).map join ↔ 0 < Spec.Text.occIn n g ws := by
  rw [← occ_windows n ws g h, occ, List.countP_pos_iff]
  simp

theorem occIn_of_short (n : Nat) (ws : List Str) (g : Str) (h : ¬ n ≤ ws.length) :
    Spec.Text.occIn n g ws = 0 := by
  simp [Spec.Text.occIn, positions_eq, h]

/-- one text contributes to the batch counter what the specification says -/
theorem occ_singleton (a g : Str) : occ [a] g = if a = g then 1 else 0 := by
  by_cases e : a = g <;> simp [occ, e]

theorem occ_textNGrams (cfg : NGramCfg) (t g : Str) :
    occ (textNGrams cfg t) g = Spec.Text.perText cfg.n cfg.firstOnly cfg.countDup g t := by
  obtain ⟨k, n, f, d⟩ := cfg
  unfold textNGrams Spec.Text.perText
  rw [← words_eq_spec]
  have hg : Spec.Text.gramAt n (words t) 0 = join ((words t).take n) := by
    simp [Spec.Text.gramAt, join]
  by_cases hn : n ≤ (words t).length
  · cases f <;> cases d
    · -- all n-grams, at most once per text
      simp only [hn, if_true, Bool.false_eq_true, if_false]
      rw [occ_dedup]
      simp only [mem_windows _ _ _ hn]
    · -- all n-grams, with multiplicity
      simp only [hn, if_true, Bool.false_eq_true, if_false]
      exact occ_windows _ _ _ hn
    · -- first n-gram only (`count_duplicate` ignored)
      simp only [hn, if_true, Bool.false_eq_true, if_false, true_and, hg]
      rw [occ_dedup]
      by_cases e : join ((words t).take n) = g
      · simp [e]
      · have : ¬ g = join ((words t).take n) := fun e' => e e'.symm
        simp [e, this]
    · simp only [hn, if_true, true_and, hg]
      exact occ_singleton _ _
  · cases f <;> cases d <;> simp [hn, occ, occIn_of_short _ _ _ hn]

theorem occ_flatMap {X : Type} (f : X → List Str) (xs : List X) (g : Str) :
    occ (xs.flatMap f) g = (xs.map fun x => occ (f x) g).sum := by
  induction xs with
  | nil => simp [occ]
  | cons x rest ih => rw [List.flatMap_cons, occ_append, ih]; simp

/-- the batch counter maps every string to the specification's count -/
theorem get_ngramBatch_spec (cfg : NGramCfg) (texts : List Str) (g : Str) :
    get (ngramBatch cfg texts).counter g
      = Spec.Text.ngramCount cfg.n cfg.firstOnly cfg.countDup g texts := by
  rw [get_ngramBatch, occ_flatMap]
  simp only [occ_textNGrams, Spec.Text.ngramCount]

theorem mem_keys_ngramBatch_spec (cfg : NGramCfg) (texts : List Str) (g : Str) :
    g ∈ keys (ngramBatch cfg texts).counter
      ↔ 0 < Spec.Text.ngramCount cfg.n cfg.firstOnly cfg.countDup g texts := by
  rw [← get_ngramBatch_spec, get_ngramBatch, mem_keys_ngramBatch, occ, List.countP_pos_iff]
  simp

theorem sum_pos_exists {X : Type} (f : X → Nat) (xs : List X) (h : 0 < (xs.map f).sum) :
    ∃ x ∈ xs, 0 < f x := by
  induction xs with
  | nil => simp at h
  | cons x rest ih =>
    simp only [List.map_cons, List.sum_cons] at h
    by_cases hx : 0 < f x
    · exact ⟨x, by simp, hx⟩
    · obtain ⟨y, hy, hy'⟩ := ih (by omega)
      exact ⟨y, by simp [hy], hy'⟩

/-- a string with a positive count is one of the n-grams that start somewhere -/
theorem mem_candidates_of_pos (n : Nat) (f d : Bool) (g : Str) (texts : List Str)
    (h : 0 < Spec.Text.ngramCount n f d g texts) : g ∈ Spec.Text.candidates n texts := by
  obtain ⟨t, ht, hp⟩ := sum_pos_exists _ _ h
  simp only [Spec.Text.candidates, List.mem_flatMap, List.mem_map]
  refine ⟨t, ht, ?_⟩
  unfold Spec.Text.perText at hp
  by_cases hf : f = true
  · simp only [hf, if_true] at hp
    by_cases hc : n ≤ (Spec.Text.words t).length ∧ Spec.Text.gramAt n (Spec.Text.words t) 0 = g
    · refine ⟨0, ?_, hc.2⟩
      simp [Spec.Text.positions, hc.1]
    · simp [hc] at hp
  · have hocc : 0 < Spec.Text.occIn n g (Spec.Text.words t) := by
      by_cases hd : d = true
      · simpa [hf, hd] using hp
      · by_cases ho : 0 < Spec.Text.occIn n g (Spec.Text.words t)
        · exact ho
        · simp [hf, hd, ho] at hp
    rw [Spec.Text.occIn, List.countP_pos_iff] at hocc
    obtain ⟨i, hi, hg⟩ := hocc
    exact ⟨i, hi, by simpa using hg⟩

/-! ### a list of keys with a count function, as a counter -/

theorem get_map_self (l : List Str) (c : Str → Nat) (k : Str) :
    get (l.map fun g => (g, c g)) k = if k ∈ l then c k else 0 := by
  induction l with
  | nil => simp
  | cons a rest ih =>
    simp only [List.map_cons, get, ih, List.mem_cons]
    by_cases h : a = k
    · subst h; simp
    · have : ¬ k = a := fun e => h e.symm
      simp [h, this]

theorem keys_map_self (l : List Str) (c : Str → Nat) : keys (l.map fun g => (g, c g)) = l := by
  simp [keys, List.map_map, Function.comp_def]

theorem safeDiv_eq_freqOf (a b : Nat) : safeDiv a b = Spec.Text.freqOf a b := rfl

/-- **the whole n-gram table** -/
theorem ngram_result_eq_spec (cfg : NGramCfg) (texts : List Str) :
    (ngramBatch cfg texts).result strLe
      = Spec.Text.ngramTable cfg.n cfg.firstOnly cfg.countDup texts := by
  let cnt := fun g => Spec.Text.ngramCount cfg.n cfg.firstOnly cfg.countDup g texts
  let ks := (Spec.Text.distinct (Spec.Text.candidates cfg.n texts)).filter fun g => 0 < cnt g
  let sc : Counter Str := ks.map fun g => (g, cnt g)
  have hks : ks.Nodup := (distinct_nodup _).filter _
  have hmem : ∀ g, g ∈ ks ↔ 0 < cnt g := by
    intro g
    simp only [ks, List.mem_filter, distinct_mem, decide_eq_true_eq]
    exact ⟨fun h => h.2, fun h => ⟨mem_candidates_of_pos _ _ _ _ _ h, h⟩⟩
  have hperm : sc.Perm (ngramBatch cfg texts).counter := by
    apply perm_of_obs
    · rw [keys_map_self]; exact hks
    · exact wf_ngramBatch cfg texts
    · intro g
      rw [keys_map_self, hmem, mem_keys_ngramBatch_spec]
    · intro g
      rw [get_map_self, get_ngramBatch_spec]
      by_cases hg : g ∈ ks
      · simp [hg, cnt]
      · have : cnt g = 0 := by
          have := (hmem g).not.mp hg
          omega
        simp [hg, cnt] at this ⊢
        exact this.symm
  unfold FreqState.result FreqState.rows Spec.Text.ngramTable
  have hlen : (ngramBatch cfg texts).count = texts.length := rfl
  rw [hlen]
  apply mergeSort_eq_isort
  have := hperm.map fun kv : Str × Nat => (kv.1, safeDiv kv.2 texts.length)
  simpa [sc, ks, cnt, List.map_map, Function.comp_def, safeDiv_eq_freqOf] using this

end MlModel.Agg.Text
