import MlModel.Lemmas.Piter2Inv
import MlModel.Lemmas.PiterLive
/-!
# Two-queue LTS: the no-lost-wake-up invariant of BOTH queues is inductive

`good_step`: every step of `Piter2.step` preserves `Good` = structural invariant ∧ `Queue.Live (q1cfg c)` ∧
`Queue.Live (q2cfg c)`.  As in the one-queue LTS (`PiterLive.lean`) the queue invariant is TRANSFERRED: on each view a
step is a `Queue.stepThread` step (`live_deleg`), a change of fields `Live` does not read, one of the outcomes of
`next(iterator)` (`live_enext_*`, `live_fail_any`), the consumer turning into a stopper (`live_to_stopper_nc`), or a
thread entering / leaving the queue between two calls (`live_swap_off`).
-/
namespace MlModel.Piter2
open MlModel.Queue

variable {F : Nat → Option (List Nat)}

theorem good_mk2 {c : Cfg} {tid : Tid} {t t' : Th} {s1' s2' : Shared} {il : Option Tid} {ca : List Elem} {ns : Nat}
    {w1 w2 : Queue.Thread}
    (hg : Good c) (ht : c.ths[tid]? = some t) (hr : t'.role = t.role) (hti : TI t')
    (hil : ILockStep c tid t t' il) (hA : StepAux c tid t t' s1' ns) (e1 : v1 t' = w1) (e2 : v2 t' = w2)
    (h1 : Queue.Live { sh := s1', ths := (q1cfg c).ths.set tid w1 })
    (h2 : Queue.Live { sh := s2', ths := (q2cfg c).ths.set tid w2 })
    (hc1 : s1'.timeout = false ∧ s1'.ignoreError = false) (hc2 : s2'.timeout = false ∧ s2'.ignoreError = false) :
    Good { c with s1 := s1', s2 := s2', ths := c.ths.set tid t', ilock := il, cache := ca, nsub := ns } :=
  good_mk hg ht hr hti hil hA (e1 ▸ h1) (e2 ▸ h2) hc1 hc2

/-- `enqueue_done` of the input queue is monotone along the steps of the thread in slot `tid` of its view -/
theorem done1_mono {c : Cfg} {tid : Tid} {q q' : Queue.Thread} {alt : Bool} {l : String} {s1' : Shared} (hg : Good c)
    (hq : (q1cfg c).ths[tid]? = some q) (hst : stepThread c.s1 q tid alt = some (l, s1', q')) :
    c.s1.enqueueDone = true → s1'.enqueueDone = true := by
  intro hd
  have hs : Queue.step (q1cfg c) tid alt = some (l, { sh := s1', ths := (q1cfg c).ths.set tid q' }) := by
    simp only [Queue.step, hq]
    show (match stepThread c.s1 q tid alt with | none => none | some (lbl, s', t') => _) = _
    rw [hst]
  exact done_mono hg.live1.base hs hd

theorem aux_cons {c : Cfg} {tid : Tid} {t t' : Th} {s1' : Shared} {ns : Nat} (hr : t.role = .cons)
    (hr' : t'.role = t.role) (mono : c.s1.enqueueDone = true → s1'.enqueueDone = true) (hns : c.nsub ≤ ns)
    (hsub : t'.cpc = .boot ∨ t'.cpc = .submit ∨ c.ths.length - 1 ≤ ns) : StepAux c tid t t' s1' ns :=
  ⟨mono, fun ho => absurd ho.1 (by rw [hr', hr]; simp), ⟨hns, fun _ => hsub⟩, by simp [Th.started, hr', hr],
    .inl (by simp [Th.started, hr])⟩

theorem aux_task {c : Cfg} {tid : Tid} {t t' : Th} {s1' : Shared} (hr : t.role ≠ .cons)
    (mono : c.s1.enqueueDone = true → s1'.enqueueDone = true) (owes : Owes t' → s1'.enqueueDone = true)
    (st' : t'.started = true) (st : t.started = true ∨ c.gate tid = true) : StepAux c tid t t' s1' c.nsub :=
  ⟨mono, owes, ⟨Nat.le_refl _, fun h => absurd h hr⟩, st', st⟩

theorem sub_of {c : Cfg} {t : Th} (hi : Inv c) (ht : c.ths[0]? = some t) (h1 : t.cpc ≠ .boot) (h2 : t.cpc ≠ .submit) :
    c.ths.length - 1 ≤ c.nsub := by
  rcases hi.sub t ht with h | h | h
  · exact absurd h h1
  · exact absurd h h2
  · exact h

theorem pcKind_some (pc : Pc) (h1 : pc ≠ .start) (h2 : pc ≠ .done) : ∃ k, pcKind pc = some k := by
  cases pc <;> simp_all [pcKind] <;> (rename_i c; cases c <;> simp)

theorem kind_of_tok {q : Queue.Thread} (htok : TOK q) (h1 : q.pc ≠ .start) (h2 : q.pc ≠ .done) :
    pcKind q.pc = some q.prog.kind := by
  obtain ⟨k, hk⟩ := pcKind_some q.pc h1 h2
  rw [hk, htok.kind k hk]

/-! ### who is a consumer in the views -/

theorem isCons_inert : isCons inertT = false := inert_class.2.2.2.2.2.2.2.2.2.2.2.2.2.2.2

theorem isCons_of_kind {q : Queue.Thread} (h : q.prog.kind = .producer ∨ q.prog.kind = .stopper) :
    isCons q = false := by
  rcases h with h | h <;> simp [isCons, h]

/-- in the INPUT queue only the holder of `lock1` is a consumer -/
theorem q1_others_nc {c : Cfg} (hi : Inv c) {tid : Tid} {t : Th} (ht : c.ths[tid]? = some t) (hh : HoldsI t) :
    ∀ (j : Nat) (u : Queue.Thread), j ≠ tid → (q1cfg c).ths[j]? = some u → isCons u = false := by
  intro j u hj hu
  simp only [q1cfg, List.getElem?_map, Option.map_eq_some_iff] at hu
  obtain ⟨tj, htj, rfl⟩ := hu
  have hti := hi.ti tj (List.mem_of_getElem? htj)
  unfold TI at hti
  unfold v1
  cases hr : tj.role with
  | cons =>
    simp only [hr] at hti ⊢
    split
    · exact isCons_of_kind (.inr hti.1)
    · exact isCons_inert
  | l1 =>
    simp only [hr] at hti ⊢
    exact isCons_of_kind (.inl hti)
  | l2 =>
    simp only [hr] at hti ⊢
    split
    · rename_i hx
      rcases hx with hx | hx
      · exfalso
        have h1 := (hi.ilock j tj htj).mpr ⟨hr, .inl hx⟩
        have h2 := (hi.ilock tid t ht).mpr hh
        rw [h1] at h2
        exact hj (Option.some.inj h2)
      · simp only [hx] at hti
        exact isCons_of_kind (.inr hti.2.2.1)
    · exact isCons_inert

/-- in the OUTPUT queue only the caller is a consumer -/
theorem q2_others_nc {c : Cfg} (hi : Inv c) :
    ∀ (j : Nat) (u : Queue.Thread), j ≠ 0 → (q2cfg c).ths[j]? = some u → isCons u = false := by
  intro j u hj hu
  simp only [q2cfg, List.getElem?_map, Option.map_eq_some_iff] at hu
  obtain ⟨tj, htj, rfl⟩ := hu
  have hti := hi.ti tj (List.mem_of_getElem? htj)
  unfold TI at hti
  unfold v2
  cases hr : tj.role with
  | cons => exact absurd ((hi.role0 j tj htj).mp hr) hj
  | l1 => exact isCons_inert
  | l2 =>
    simp only [hr] at hti ⊢
    split <;> exact isCons_of_kind (.inl hti.1)

theorem others_set_nc {ths : List Queue.Thread} {tid : Tid} {q : Queue.Thread}
    (h : ∀ (j : Nat) (u : Queue.Thread), j ≠ tid → ths[j]? = some u → isCons u = false) :
    ∀ (j : Nat) (u : Queue.Thread), j ≠ tid → (ths.set tid q)[j]? = some u → isCons u = false := by
  intro j u hj hu
  rw [List.getElem?_set_ne (Ne.symm hj)] at hu
  exact h j u hj hu

/-! ### thread-local facts -/

theorem TOK_stopperAt {a : Queue.Thread} (hr : a.result = []) : TOK (stopperAt a) :=
  ⟨fun k hk => by simp [stopperAt, pcKind] at hk; rw [← hk]; rfl, fun _ => hr⟩

theorem offQ_stopperAt (a : Queue.Thread) : OffQ (stopperAt a) :=
  offQ_of_pc (by simp [stopperAt, Prog.kind]) (by simp [stopperAt])

/-- an inert slot becomes a stopper about to run `maybe_stop()` -/
theorem live_inert_to_stopper {qc : Queue.Cfg} {tid : Tid} {a : Queue.Thread} (hv : Queue.Live qc)
    (hs : qc.ths[tid]? = some inertT) (hr : a.result = []) :
    Queue.Live { sh := qc.sh, ths := qc.ths.set tid (stopperAt a) } := by
  refine live_swap_off hv hs offQ_inert (offQ_stopperAt a) (fun h => ?_) (TOK_stopperAt hr) ?_ ?_
  · rw [inert_class.2.2.2.2.2.2.2.2.2.2.2.2.2.2.1] at h; cases h
  · simp [TL, stopperAt]
  · simp [XOK, stopperAt, armed]

/-- a finished thread that is not a producer leaves the queue: its slot becomes inert -/
theorem live_done_to_inert {qc : Queue.Cfg} {tid : Tid} {a : Queue.Thread} (hv : Queue.Live qc)
    (hs : qc.ths[tid]? = some a) (hk : a.prog.kind ≠ .producer) (hpc : a.pc = .done) :
    Queue.Live { sh := qc.sh, ths := qc.ths.set tid inertT } := by
  refine live_swap_off hv hs (offQ_of_pc hk (by simp [hpc])) offQ_inert (fun h => ?_) inert_tok inert_tl (inert_xok _)
  simp [activeC, hpc] at h

/-- a queue step of the thread in slot `tid`; when it ends its call (or its `maybe_stop()`) the slot becomes inert -/
theorem live_deleg_leave {qc : Queue.Cfg} {tid : Tid} {alt : Bool} {lbl : String} {s' : Shared} {a a' : Queue.Thread}
    (hv : Queue.Live qc) (hto : qc.sh.timeout = false) (ha : qc.ths[tid]? = some a)
    (hst : stepThread qc.sh a tid alt = some (lbl, s', a'))
    (hothers : ∀ (j : Nat) (u : Queue.Thread), j ≠ tid → qc.ths[j]? = some u → isCons u = false)
    (hk : a'.prog.kind ≠ .producer) (hpc : a'.pc = .done ∨ a'.pc = .bAcq) :
    Queue.Live { sh := s', ths := qc.ths.set tid inertT } := by
  have htid : tid < qc.ths.length := (List.getElem?_eq_some_iff.mp ha).1
  have h1 := live_deleg hv hto ha hst (sameFields_refl _)
  have hself : ({ sh := s', ths := qc.ths.set tid a' } : Queue.Cfg).ths[tid]? = some a' := by
    show (qc.ths.set tid a')[tid]? = some a'
    simp [htid]
  have hoa : OffQ a' := offQ_of_pc hk (by rcases hpc with h | h <;> simp [h])
  have := live_swap_off h1 hself hoa offQ_inert
    (fun _ => Or.inr (no_waiting_cons_nc h1.base hself (others_set_nc hothers) hoa.cw hoa.se))
    inert_tok inert_tl (inert_xok _)
  simpa [List.set_set] using this

theorem stepThread_start_prod {s : Shared} {q : Queue.Thread} {tid : Tid} {src : List Item} {r : Nat}
    (hpc : q.pc = .start) (hp : q.prog = .producer src r) :
    stepThread s q tid false = some ("start", s, { q with pc := .sAcq, src := src }) := by
  simp [stepThread, hpc, hp]

/-! ### the caller -/

theorem v1_cons {t : Th} (hr : t.role = .cons) (hc : t.cpc ≠ .upstop) : v1 t = inertT := by
  simp [v1, hr, hc]

theorem v2_cons {t : Th} (hr : t.role = .cons) : v2 t = t.b := by simp [v2, hr]

theorem beginIter_cpc (c : Cfg) (t : Th) : (beginIter c t).cpc ≠ .upstop := by
  unfold beginIter; split <;> simp

theorem beginIter_TI {c : Cfg} {t : Th} (hr : t.role = .cons) (hti : TI t) (hc : t.cpc = .boot ∨ t.cpc = .submit) :
    TI (beginIter c t) := by
  unfold TI at hti ⊢
  rw [beginIter_role]
  simp only [hr] at hti ⊢
  obtain ⟨h1, h2, h3⟩ := hti
  have h3' : t.b.pc = .start ∧ t.b.prog.kind = .batch ∧ t.b.result = [] := by
    rcases hc with hc | hc <;> simpa [hc] using h3
  unfold beginIter
  split
  · exact ⟨h1, h2, by simp [Prog.kind]⟩
  · exact ⟨h1, h2, by simp [h3'.2.1]⟩

theorem l2_beginIter {c : Cfg} {t : Th} (hg : Good c) (ht : c.ths[0]? = some t) (hr : t.role = .cons)
    (hc : t.cpc = .boot ∨ t.cpc = .submit) :
    Queue.Live { sh := c.s2, ths := (q2cfg c).ths.set 0 (v2 (beginIter c t)) } := by
  have hq := q2_get ht
  rw [v2_cons hr] at hq
  rw [v2_cons (by rw [beginIter_role]; exact hr)]
  have hti := hg.inv.ti t (List.mem_of_getElem? ht)
  unfold TI at hti
  simp only [hr] at hti
  have h3 : t.b.pc = .start ∧ t.b.prog.kind = .batch ∧ t.b.result = [] := by
    rcases hc with hc | hc <;> simpa [hc] using hti.2.2
  obtain ⟨hpc, hk, hres⟩ := h3
  unfold beginIter
  split
  · exact live_to_stopper_nc (c := q2cfg c) hg.live2 hq (q2_others_nc hg.inv) (Or.inl hpc) hk rfl rfl hres
  · cases hprog : t.b.prog with
    | batchLoop m bl =>
      have hst : stepThread c.s2 t.b 0 false = some ("start", c.s2, { t.b with pc := .bAcq }) := by
        simp [stepThread, hpc, hprog]
      exact live_deleg (qc := q2cfg c) hg.live2 hg.inv.to2 hq hst (sameFields_refl _)
    | producer _ _ => rw [hprog] at hk; cases hk
    | getLoop => rw [hprog] at hk; cases hk
    | stopper _ => rw [hprog] at hk; cases hk

theorem afterIter_cpc {c : Cfg} {pc : Pc} {s : Shared} {t : Th} (h : t.cpc ≠ .upstop) :
    (afterIter c pc s t).2.cpc ≠ .upstop := by
  unfold afterIter
  (repeat' split) <;> simp [h]

theorem afterIter_ig (c : Cfg) (pc : Pc) (s : Shared) (t : Th) :
    (afterIter c pc s t).1.timeout = s.timeout ∧ (afterIter c pc s t).1.ignoreError = s.ignoreError := by
  unfold afterIter
  (repeat' split) <;> exact ⟨rfl, rfl⟩

set_option maxHeartbeats 400000 in
theorem good_stepCons {c c' : Cfg} {tid : Tid} {t : Th} {alt : Bool} {lbl : String} (hg : Good c)
    (ht : c.ths[tid]? = some t) (hr : t.role = .cons) (h : stepCons c tid t alt = some (lbl, c')) : Good c' := by
  have hi := hg.inv
  have h0 : tid = 0 := (hi.role0 tid t ht).mp hr
  subst h0
  have hti := hi.ti t (List.mem_of_getElem? ht)
  have hq1 := q1_get ht
  have hq2 := q2_get ht
  rw [v2_cons hr] at hq2
  have hc1 : c.s1.timeout = false ∧ c.s1.ignoreError = false := ⟨hi.to1, hi.ig1⟩
  have hc2 : c.s2.timeout = false ∧ c.s2.ignoreError = false := ⟨hi.to2, hi.ig2⟩
  have htid1 : 0 < (q1cfg c).ths.length := (List.getElem?_eq_some_iff.mp hq1).1
  have htid2 : 0 < (q2cfg c).ths.length := (List.getElem?_eq_some_iff.mp hq2).1
  unfold stepCons at h
  split at h
  · simp at h
  · -- boot
    rename_i hcpc
    have hv1 : v1 t = inertT := v1_cons hr (by simp [hcpc])
    rw [hv1] at hq1
    split at h
    · simp at h
    split at h <;> simp only [Option.some.injEq, Prod.mk.injEq] at h <;> obtain ⟨-, rfl⟩ := h
    · rename_i hnt
      have hnt' : c.ths.length - 1 = 0 := by simpa [Cfg.nTasks] using hnt
      refine good_mk2 hg ht (beginIter_role c t) (beginIter_TI hr hti (.inl hcpc)) (.keep ?_)
        (aux_cons hr (beginIter_role c t) id (Nat.le_refl _) (.inr (.inr (by rw [hnt']; exact Nat.zero_le _))))
        (v1_cons (by rw [beginIter_role]; exact hr) (beginIter_cpc c t)) rfl (live_keep hg.live1 hq1)
        (l2_beginIter hg ht hr (.inl hcpc)) hc1 hc2
      simp [HoldsI, beginIter_role, hr]
    · refine good_mk2 (t' := { t with cpc := .submit }) hg ht rfl ?_ (.keep ?_)
        (aux_cons hr rfl id (Nat.le_refl _) (.inr (.inl rfl))) (v1_cons hr (by simp)) (v2_cons hr)
        (live_keep hg.live1 hq1) (live_keep hg.live2 hq2) hc1 hc2
      · unfold TI at hti ⊢; simpa [hr, hcpc] using hti
      · simp [HoldsI, hr]
  · -- submit
    rename_i hcpc
    have hv1 : v1 t = inertT := v1_cons hr (by simp [hcpc])
    rw [hv1] at hq1
    split at h
    · simp at h
    simp only [Option.some.injEq, Prod.mk.injEq] at h
    obtain ⟨-, rfl⟩ := h
    split
    · rename_i hge
      refine good_mk2 hg ht (beginIter_role c t) (beginIter_TI hr hti (.inr hcpc)) (.keep ?_)
        (aux_cons hr (beginIter_role c t) id (Nat.le_succ _) (.inr (.inr (by simpa [Cfg.nTasks] using hge))))
        (v1_cons (by rw [beginIter_role]; exact hr) (beginIter_cpc c t)) rfl (live_keep hg.live1 hq1)
        (l2_beginIter hg ht hr (.inr hcpc)) hc1 hc2
      simp [HoldsI, beginIter_role, hr]
    · exact good_mk2 hg ht rfl hti (.keep Iff.rfl) (aux_cons hr rfl id (Nat.le_succ _) (.inr (.inl hcpc))) hv1
        (v2_cons hr) (live_keep hg.live1 hq1) (live_keep hg.live2 hq2) hc1 hc2
  · -- iter
    rename_i hcpc
    have hv1 : v1 t = inertT := v1_cons hr (by simp [hcpc])
    rw [hv1] at hq1
    split at h
    · simp at h
    rename_i l s2' b' hst
    simp only [Option.some.injEq, Prod.mk.injEq] at h
    obtain ⟨-, rfl⟩ := h
    unfold TI at hti
    simp only [hr, hcpc] at hti
    obtain ⟨ha1, ha2, hkb, hns, hnd⟩ := hti
    have htok : TOK t.b := hg.live2.base.tok t.b (List.mem_of_getElem? hq2)
    obtain ⟨k1, -, k3⟩ := stepThread_const l s2' b' hst
    obtain ⟨htok', hprog', -⟩ := stepThread_data l s2' b' hst htok
    have hkind := kind_of_tok htok hns hnd
    rw [hkb] at hkind
    have hne : t.b.pc ≠ .eNext := by intro e; rw [e] at hkind; simp [pcKind] at hkind
    obtain ⟨-, -, -, -, -, hA, hB, -, -⟩ := stepThread_arm l s2' b' hst hne
    obtain ⟨hp1, hp2⟩ := stepThread_pc l s2' b' hst
    have h1 := live_deleg (qc := q2cfg c) hg.live2 hi.to2 hq2 hst (sameFields_refl _)
    have hself : ({ sh := s2', ths := (q2cfg c).ths.set 0 b' } : Queue.Cfg).ths[0]? = some b' := by
      show ((q2cfg c).ths.set 0 b')[0]? = some b'
      simp [htid2]
    have hoth := others_set_nc (q := b') (q2_others_nc hi)
    have hkb' : b'.prog.kind = .batch := by rw [hprog']; exact hkb
    have hig := afterIter_ig c t.b.pc s2' { t with b := b' }
    have hsub := sub_of hi ht (by simp [hcpc]) (by simp [hcpc])
    refine good_mk2 hg ht (afterIter_role _ _ _ _) ?_ (.keep ?_)
      (aux_cons hr (afterIter_role _ _ _ _) id (Nat.le_refl _) (.inr (.inr hsub)))
      (v1_cons (by rw [afterIter_role]; exact hr) (afterIter_cpc (by simp [hcpc])))
      (v2_cons (by rw [afterIter_role]; exact hr)) (live_keep hg.live1 hq1) ?_ hc1
      ⟨by rw [hig.1, k1]; exact hi.to2, by rw [hig.2, k3]; exact hi.ig2⟩
    · -- TI
      unfold TI
      rw [afterIter_role]
      simp only [hr]
      unfold afterIter
      split
      · rename_i hbr
        have hbr' : t.b.pc = .bRaise := by simpa using hbr
        exact ⟨ha1, ha2, (hA hbr').1, .inl hkb'⟩
      · rename_i hbr
        have hbr' : t.b.pc ≠ .bRaise := by simpa using hbr
        have hnd' : b'.pc ≠ .done := hp2 hkind hbr'
        split
        · split
          · exact ⟨ha1, ha2, by simp [hcpc, hkb', hp1, hnd']⟩
          · split
            · exact ⟨ha1, ha2, by simp [Prog.kind]⟩
            · exact ⟨ha1, ha2, by simp [hcpc, hkb', hp1, hnd']⟩
        · exact ⟨ha1, ha2, by simp [hcpc, hkb', hp1, hnd']⟩
    · simp [HoldsI, afterIter_role, hr]
    · unfold afterIter
      split
      · exact h1
      · split
        · rename_i hbe
          have hbe' : t.b.pc = .bE3 := by simpa using hbe
          obtain ⟨hpc', -, hres, -⟩ := hB hbe'
          split
          · exact h1
          · rename_i k hk
            split
            · have := live_to_stopper_nc
                (b := { b' with pc := .mAcq, prog := .stopper none, received := b'.received.take k }) h1 hself hoth
                (Or.inr (Or.inr hpc')) hkb' rfl rfl hres
              have := live_lost (s2'.lost ++ b'.received.drop k) this
              simpa [List.set_set] using this
            · exact h1
        · exact h1
  · -- stopping
    rename_i hcpc
    have hv1 : v1 t = inertT := v1_cons hr (by simp [hcpc])
    rw [hv1] at hq1
    split at h
    · simp at h
    rename_i l s2' b' hst
    simp only [Option.some.injEq, Prod.mk.injEq] at h
    obtain ⟨-, rfl⟩ := h
    unfold TI at hti
    simp only [hr, hcpc] at hti
    obtain ⟨ha1, ha2, hkb, hns, hnd⟩ := hti
    have htok : TOK t.b := hg.live2.base.tok t.b (List.mem_of_getElem? hq2)
    obtain ⟨k1, -, k3⟩ := stepThread_const l s2' b' hst
    obtain ⟨htok', hprog', -⟩ := stepThread_data l s2' b' hst htok
    obtain ⟨hp1, -⟩ := stepThread_pc l s2' b' hst
    have h1 := live_deleg (qc := q2cfg c) hg.live2 hi.to2 hq2 hst (sameFields_refl _)
    have hc2' : s2'.timeout = false ∧ s2'.ignoreError = false := ⟨by rw [k1]; exact hi.to2, by rw [k3]; exact hi.ig2⟩
    have hsub := sub_of hi ht (by simp [hcpc]) (by simp [hcpc])
    have hkb' : b'.prog.kind = .stopper := by rw [hprog']; exact hkb
    by_cases hd : b'.pc = .done
    · by_cases ho : b'.outcome.isNone = true
      · simp only [hd, beq_self_eq_true, if_true, ho]
        refine good_mk2 (t' := { t with b := b', a := stopperAt t.a, cpc := .upstop }) hg ht rfl ?_ (.keep ?_)
          (aux_cons hr rfl id (Nat.le_refl _) (.inr (.inr hsub)))
          (w1 := stopperAt t.a) (by simp [v1, hr]) (v2_cons hr)
          (live_inert_to_stopper (qc := q1cfg c) hg.live1 hq1 ha2) h1 hc1 hc2'
        · unfold TI
          simp [hr, hd, hkb', show (stopperAt t.a).prog.kind = PKind.stopper from rfl,
            show (stopperAt t.a).pc = Pc.mAcq from rfl, show (stopperAt t.a).result = t.a.result from rfl, ha2]
        · simp [HoldsI, hr]
      · simp only [hd, beq_self_eq_true, if_true, ho]
        refine good_mk2 (t' := { t with b := b', cpc := .shutdown }) hg ht rfl ?_ (.keep ?_)
          (aux_cons hr rfl id (Nat.le_refl _) (.inr (.inr hsub)))
          (v1_cons hr (by simp)) (v2_cons hr) (live_keep hg.live1 hq1) h1 hc1 hc2'
        · unfold TI; simp [hr, hd, ha1, ha2, hkb']
        · simp [HoldsI, hr]
    · have hd' : (b'.pc == Pc.done) = false := by simpa using hd
      simp only [hd', Bool.false_eq_true, if_false]
      refine good_mk2 (t' := { t with b := b' }) hg ht rfl ?_ (.keep ?_)
        (aux_cons hr rfl id (Nat.le_refl _) (.inr (.inr hsub)))
        (v1_cons hr (by simp [hcpc])) (v2_cons hr) (live_keep hg.live1 hq1) h1 hc1 hc2'
      · unfold TI; simp [hr, hcpc, ha1, ha2, hkb', hp1, hd]
      · simp [HoldsI, hr]
  · -- upstop
    rename_i hcpc
    have hv1 : v1 t = t.a := by simp [v1, hr, hcpc]
    rw [hv1] at hq1
    split at h
    · simp at h
    rename_i l s1' a' hst
    simp only [Option.some.injEq, Prod.mk.injEq] at h
    obtain ⟨-, rfl⟩ := h
    unfold TI at hti
    simp only [hr, hcpc] at hti
    obtain ⟨ha1, ha2, hbd, hns, hnd⟩ := hti
    have hsub := sub_of hi ht (by simp [hcpc]) (by simp [hcpc])
    have hmono := done1_mono hg hq1 hst
    have htok : TOK t.a := hg.live1.base.tok t.a (List.mem_of_getElem? hq1)
    obtain ⟨k1, -, k3⟩ := stepThread_const l s1' a' hst
    obtain ⟨htok', hprog', -⟩ := stepThread_data l s1' a' hst htok
    obtain ⟨hp1, -⟩ := stepThread_pc l s1' a' hst
    have hka' : a'.prog.kind = .stopper := by rw [hprog']; exact ha1
    have hres' : a'.result = [] := htok'.res (by rw [hka']; simp)
    have hc1' : s1'.timeout = false ∧ s1'.ignoreError = false := ⟨by rw [k1]; exact hi.to1, by rw [k3]; exact hi.ig1⟩
    have hd1 := live_deleg (qc := q1cfg c) hg.live1 hi.to1 hq1 hst (sameFields_refl _)
    by_cases hd : a'.pc = .done
    · refine good_mk2 (t' := { t with a := a', cpc := (if a'.pc == .done then CPc.shutdown else CPc.upstop) })
        hg ht rfl ?_ (.keep ?_) (aux_cons hr rfl hmono (Nat.le_refl _) (.inr (.inr hsub)))
        (w1 := inertT) (by simp [v1, hr, hd]) (v2_cons hr) ?_ (live_keep hg.live2 hq2) hc1' hc2
      · unfold TI; simp [hr, hd, hka', hres', hbd]
      · simp [HoldsI, hr]
      · have := live_done_to_inert (tid := 0) (a := a') hd1
          (by show ((q1cfg c).ths.set 0 a')[0]? = some a'; simp [htid1]) (by rw [hka']; simp) hd
        simpa [List.set_set] using this
    · refine good_mk2 (t' := { t with a := a', cpc := (if a'.pc == .done then CPc.shutdown else CPc.upstop) })
        hg ht rfl ?_ (.keep ?_) (aux_cons hr rfl hmono (Nat.le_refl _) (.inr (.inr hsub)))
        (w1 := a') (by simp [v1, hr, hd]) (v2_cons hr) hd1 (live_keep hg.live2 hq2) hc1' hc2
      · unfold TI; simp [hr, hd, hka', hres', hbd, hp1]
      · simp [HoldsI, hr]
  · -- shutdown
    rename_i hcpc
    have hv1 : v1 t = inertT := v1_cons hr (by simp [hcpc])
    rw [hv1] at hq1
    (repeat' split at h) <;> simp only [Option.some.injEq, Prod.mk.injEq, reduceCtorEq] at h
    obtain ⟨-, rfl⟩ := h
    have hsub := sub_of hi ht (by simp [hcpc]) (by simp [hcpc])
    refine good_mk2 (t' := { t with cpc := .fin }) hg ht rfl ?_ (.keep ?_)
      (aux_cons hr rfl id (Nat.le_refl _) (.inr (.inr hsub))) (v1_cons hr (by simp)) (v2_cons hr)
      (live_keep hg.live1 hq1) (live_keep hg.live2 hq2) hc1 hc2
    · unfold TI at hti ⊢; simpa [hr, hcpc] using hti
    · simp [HoldsI, hr]

/-! ### first-level tasks -/

theorem v1_l1 {t : Th} (hr : t.role = .l1) : v1 t = t.a := by simp [v1, hr]
theorem v2_l1 {t : Th} (hr : t.role = .l1) : v2 t = inertT := by simp [v2, hr]

/-- a plain `Q1` step of a first-level task -/
theorem good_l1_deleg {c : Cfg} {tid : Tid} {t t' : Th} {alt : Bool} {l : String} {s1' : Shared} {a' : Queue.Thread}
    (hg : Good c) (ht : c.ths[tid]? = some t) (hr : t.role = .l1)
    (hst : stepThread c.s1 t.a tid alt = some (l, s1', a')) (hr' : t'.role = t.role) (ha' : t'.a = a')
    (hst0 : t.started = true ∨ c.gate tid = true) :
    Good { c with s1 := s1', ths := c.ths.set tid t' } := by
  have hi := hg.inv
  have hq1 := q1_get ht
  have hq2 := q2_get ht
  rw [v1_l1 hr] at hq1
  rw [v2_l1 hr] at hq2
  have hti := hi.ti t (List.mem_of_getElem? ht)
  unfold TI at hti
  simp only [hr] at hti
  have htok : TOK t.a := hg.live1.base.tok t.a (List.mem_of_getElem? hq1)
  obtain ⟨k1, -, k3⟩ := stepThread_const l s1' a' hst
  obtain ⟨-, hprog', -⟩ := stepThread_data l s1' a' hst htok
  have hr1 : t'.role = .l1 := by rw [hr', hr]
  have hp1 := (stepThread_pc l s1' a' hst).1
  refine good_mk2 hg ht hr' ?_ (.keep ?_)
    (aux_task (by rw [hr]; simp) (done1_mono hg hq1 hst) (fun ho => absurd ho.1 (by rw [hr1]; simp))
      (by simp [Th.started, hr1, ha', hp1]) hst0)
    (v1_l1 hr1) (v2_l1 hr1)
    (by rw [ha']; exact live_deleg (qc := q1cfg c) hg.live1 hi.to1 hq1 hst (sameFields_refl _))
    (live_keep hg.live2 hq2) ⟨by rw [k1]; exact hi.to1, by rw [k3]; exact hi.ig1⟩ ⟨hi.to2, hi.ig2⟩
  · unfold TI; simp only [hr1]; rw [ha', hprog']; exact hti
  · simp [HoldsI, hr1, hr]

set_option maxHeartbeats 400000 in
theorem good_stepL1 {c c' : Cfg} {tid : Tid} {t : Th} {alt : Bool} {lbl : String} (hg : Good c)
    (ht : c.ths[tid]? = some t) (hr : t.role = .l1) (h : stepL1 c tid t alt = some (lbl, c')) : Good c' := by
  have hi := hg.inv
  unfold stepL1 at h
  split at h
  · -- start
    (repeat' split at h) <;> simp only [Option.some.injEq, Prod.mk.injEq, reduceCtorEq] at h
    rename_i hgate _ l s1' a' hst
    obtain ⟨-, rfl⟩ := h
    exact good_l1_deleg (t' := { t with a := a' }) hg ht hr hst rfl rfl (.inr hgate)
  · -- eNext
    rename_i hpc
    have hst0 : t.started = true := by simp [Th.started, hr, hpc]
    split at h
    · simp at h
    · split at h
      · simp only [Option.some.injEq, Prod.mk.injEq] at h
        obtain ⟨-, rfl⟩ := h
        have hq1 := q1_get ht
        have hq2 := q2_get ht
        rw [v1_l1 hr] at hq1
        rw [v2_l1 hr] at hq2
        have hti := hi.ti t (List.mem_of_getElem? ht)
        unfold TI at hti
        simp only [hr] at hti
        refine good_mk2 (t' := { t with a := { t.a with pc := .tAcq, rets := retOf t.a :: t.more, reraise := none } })
          hg ht rfl ?_ (.keep ?_)
          (aux_task (by rw [hr]; simp) id (fun ho => absurd ho.1 (by rw [hr]; simp)) (by simp [Th.started, hr])
            (.inl hst0))
          (v1_l1 hr) (v2_l1 hr) ?_ (live_keep hg.live2 hq2) ⟨hi.to1, hi.ig1⟩ ⟨hi.to2, hi.ig2⟩
        · unfold TI; simp only [hr]; exact hti
        · simp [HoldsI, hr]
        · exact live_enext_stop (c := q1cfg c) hg.live1 hi.to1 hq1 hpc ⟨rfl, rfl, rfl, rfl, rfl, rfl⟩
      · split at h
        · simp at h
        · rename_i l s1' a' hst
          simp only [Option.some.injEq, Prod.mk.injEq] at h
          obtain ⟨-, rfl⟩ := h
          exact good_l1_deleg hg ht hr hst rfl rfl (.inl hst0)
  · rename_i hns _
    split at h
    · simp at h
    · rename_i l s1' a' hst
      simp only [Option.some.injEq, Prod.mk.injEq] at h
      obtain ⟨-, rfl⟩ := h
      exact good_l1_deleg hg ht hr hst rfl rfl (.inl (by simpa [Th.started, hr] using hns))

/-! ### second-level tasks -/

theorem v2_l2 {t : Th} (hr : t.role = .l2) (h : ¬ (t.x = .idle ∧ stopSeen t = true)) : v2 t = t.b := by
  simp [v2, hr, h]
theorem v2_l2s {t : Th} (hr : t.role = .l2) (hx : t.x = .idle) (hm : stopSeen t = true) :
    v2 t = { t.b with rets := [0] } := by
  simp [v2, hr, hx, hm]
theorem v1_l2_off {t : Th} (hr : t.role = .l2) (h1 : t.x ≠ .deq) (h2 : t.x ≠ .up) : v1 t = inertT := by
  simp [v1, hr, h1, h2]
theorem v1_l2_on {t : Th} (hr : t.role = .l2) (h : t.x = .deq ∨ t.x = .up) : v1 t = t.a := by
  simp [v1, hr, h]

/-- a second-level task that has seen the end of the input queue is inside (or past) a clean `_stop_enqueue` -/
theorem l2_seen {t : Th} (hr : t.role = .l2) (hti : TI t) (hx : t.x = .idle) (hm : stopSeen t = true) :
    (tRegion t.b.pc = true ∨ t.b.pc = .done) ∧ t.b.reraise = none := by
  unfold TI at hti
  simp only [hr, hx] at hti
  exact hti.2.2.2 hm

/-- outside `next(iterator)` and before its end, a second-level task is inside the `Q2` API -/
theorem l2_x_idle {t : Th} (hr : t.role = .l2) (hti : TI t) (h1 : t.b.pc ≠ .eNext) (h2 : t.b.pc ≠ .done) :
    t.x = .idle ∧ t.a.result = [] := by
  unfold TI at hti
  simp only [hr] at hti
  obtain ⟨-, hx⟩ := hti
  cases hxx : t.x <;> simp only [hxx] at hx
  · exact ⟨rfl, hx.2.1⟩
  · exact absurd hx.1 h1
  · exact absurd hx.1 h1
  · exact absurd hx.1 h1
  · exact absurd hx.1 h2

theorem batchEnd_none {pc : Pc} {res : List Elem} {a' : Queue.Thread} {cache : List Elem}
    (h : batchEnd pc res a' cache = none) : pc ≠ .bE3 ∧ pc ≠ .bRaise := by
  unfold batchEnd at h
  (repeat' split at h) <;> simp_all

theorem batchEnd_some {pc : Pc} {res : List Elem} {a' : Queue.Thread} {cache : List Elem} {x : Hand × List Elem}
    (h : batchEnd pc res a' cache = some x) : pc = .bE3 ∨ pc = .bRaise := by
  unfold batchEnd at h
  (repeat' split at h) <;> simp_all

theorem batchEnd_stop {pc : Pc} {res : List Elem} {a' : Queue.Thread} {cache cache' : List Elem} {r : List Nat}
    (h : batchEnd pc res a' cache = some (.stop r, cache')) : pc = .bRaise := by
  unfold batchEnd at h
  (repeat' split at h) <;> simp_all

/-- the hand `DequeueIterator(Q1).__next__` returns is a `StopIteration` exactly when the call raised one -/
theorem batchEnd_raise {res : List Elem} {a' : Queue.Thread} {cache cache' : List Elem} {hd : Hand}
    (h : batchEnd .bRaise res a' cache = some (hd, cache')) :
    hd = (match a'.outcome with | some (.stop r) => Hand.stop r | some (.err e) => Hand.err e | _ => Hand.err .runtime) := by
  simp only [batchEnd, reduceCtorEq, beq_self_eq_true, if_true, if_false, Bool.false_eq_true, beq_iff_eq] at h
  (repeat' split at h) <;> simp only [Option.some.injEq, Prod.mk.injEq] at h <;> obtain ⟨rfl, -⟩ := h <;> simp_all

theorem seen_iff_of_raise {a' : Queue.Thread} {hd : Hand}
    (h : hd = (match a'.outcome with | some (.stop r) => Hand.stop r | some (.err e) => Hand.err e | _ => Hand.err .runtime)) :
    (seenQ a' = true ↔ isStopH hd) := by
  subst h
  unfold seenQ
  cases a'.outcome with
  | none => simp [isStopH]
  | some x => cases x <;> simp [isStopH]

theorem seenQ_congr {a a' : Queue.Thread} (h : a'.outcome = a.outcome) : seenQ a' = seenQ a := by
  unfold seenQ; rw [h]

theorem batchEnd_bE3 {res : List Elem} {a' : Queue.Thread} {cache cache' : List Elem} {hd : Hand}
    (h : batchEnd .bE3 res a' cache = some (hd, cache')) : (∃ v, hd = .item v) ∨ hd = .err .index := by
  simp only [batchEnd, beq_self_eq_true, if_true] at h
  (repeat' split at h) <;> simp only [Option.some.injEq, Prod.mk.injEq] at h <;> obtain ⟨rfl, -⟩ := h
  · exact .inl ⟨_, rfl⟩
  · exact .inr rfl

theorem stopped_false_of_TL {q : Queue.Thread} (htl : TL q) (hk : pcKind q.pc = some .producer)
    (hr : tRegion q.pc = false) : stopped q = false := by
  unfold TL at htl
  cases hpc : q.pc <;> simp_all [pcKind, tRegion] <;> (rename_i cc; cases cc <;> simp_all)

/-- a producer that is `done` without having run `_stop_enqueue`, while neither a failure nor a stop request is
recorded, contradicts the counting of producers -/
theorem no_early_by_count {qc : Queue.Cfg} {tid : Tid} {q : Queue.Thread} (hv : Queue.Live qc)
    (hq : qc.ths[tid]? = some q) (hk : q.prog.kind = .producer) (hpc : q.pc = .done) (hst : stopped q = false)
    (hd : qc.sh.enqueueDone = true) (hexc : qc.sh.exc.isSome = false) (hsr : qc.sh.stopRequested = false) : False := by
  obtain ⟨e1, e2, e3⟩ := hv.base.cnt hsr
  rw [enqueueDone_iff] at hd
  rcases hd with hd | hd | ⟨-, hd2, hd3⟩
  · rw [hexc] at hd; cases hd
  · rw [hsr] at hd; cases hd
  · have hip : isProd q = true := by simp [isProd, hk]
    have hpt : pastT q = false := by simp [pastT, hip, hpc, hst]
    have := countP_lt_of pastT isProd pastT_isProd (List.mem_of_getElem? hq) hip hpt
    omega

/-- a `Q2` step of a task inside a clean `_stop_enqueue`, seen through the view that normalises its arguments -/
theorem live_deleg_rets {qc : Queue.Cfg} {tid : Tid} {alt : Bool} {lbl : String} {s' : Shared} {b b' : Queue.Thread}
    (hv : Queue.Live qc) (hto : qc.sh.timeout = false) (ha : qc.ths[tid]? = some { b with rets := [0] })
    (hreg : tRegion b.pc = true) (hst : stepThread qc.sh b tid alt = some (lbl, s', b')) :
    Queue.Live { sh := s', ths := qc.ths.set tid { b' with rets := [0] } } := by
  obtain ⟨ret', hst'⟩ := (stepThread_rets (s := qc.sh) (tid := tid) (alt := alt) [0] hreg).1 lbl s' b' hst
  have h1 := live_deleg hv hto ha hst' (sameFields_refl _)
  exact live_returned (s := { s' with returned := ret' }) s'.returned h1

theorem afterPull_a (F : Nat → Option (List Nat)) (fwd : Bool) (tid : Tid) (s : Shared) (t : Th) (r : Hand) :
    (afterPull F fwd tid s t r).2.a = t.a := by
  unfold afterPull failPull
  (repeat' split) <;> rfl

/-- what `afterPull` leaves: the `Q2` view, the constants, the thread's phase -/
theorem afterPull_good {c : Cfg} {tid : Tid} {t : Th} (hg : Good c) (ht : c.ths[tid]? = some t) (hr : t.role = .l2)
    (hxx : t.x = .lockRel) (hpc : t.b.pc = .eNext) (hres : t.a.result = []) (hkb : t.b.prog.kind = .producer) (r : Hand)
    (hm : stopSeen t = true ↔ isStopH r) :
    Queue.Live { sh := (afterPull F c.fwd tid c.s2 t r).1,
                 ths := (q2cfg c).ths.set tid (v2 (afterPull F c.fwd tid c.s2 t r).2) } ∧
    ((afterPull F c.fwd tid c.s2 t r).1.timeout = false ∧ (afterPull F c.fwd tid c.s2 t r).1.ignoreError = false) ∧
    TI (afterPull F c.fwd tid c.s2 t r).2 ∧
    ((afterPull F c.fwd tid c.s2 t r).2.x = .idle ∨ (afterPull F c.fwd tid c.s2 t r).2.x = .lockAcq) ∧
    (Owes (afterPull F c.fwd tid c.s2 t r).2 → ∃ rets, r = .stop rets) ∧
    (afterPull F c.fwd tid c.s2 t r).2.b.pc ≠ .start := by
  have hi := hg.inv
  have hq := q2_get ht
  rw [v2_l2 hr (by simp [hxx])] at hq
  have hrole := afterPull_role F c.fwd tid c.s2 t r
  have hr' : (afterPull F c.fwd tid c.s2 t r).2.role = .l2 := by rw [hrole]; exact hr
  have hseen : stopSeen (afterPull F c.fwd tid c.s2 t r).2 = stopSeen t := by
    unfold stopSeen; rw [afterPull_a]
  cases r with
  | stop rets =>
    have hm' : stopSeen t = true := hm.mpr trivial
    have hx' : (afterPull F c.fwd tid c.s2 t (.stop rets)).2.x = .idle := rfl
    rw [v2_l2s hr' hx' (by rw [hseen]; exact hm')]
    refine ⟨?_, ⟨hi.to2, hi.ig2⟩, ?_, .inl rfl, fun _ => ⟨_, rfl⟩, by simp [afterPull]⟩
    · exact live_enext_stop (c := q2cfg c) hg.live2 hi.to2 hq hpc ⟨rfl, rfl, rfl, rfl, rfl, rfl⟩
    · unfold TI; simp [afterPull, hr, hkb, hres, tRegion]
  | err e =>
    have hm' : stopSeen t = false := by
      cases h : stopSeen t with
      | false => rfl
      | true => exact absurd (hm.mp h) (by simp [isStopH])
    rw [v2_l2 hr' (by rw [hseen, hm']; simp)]
    refine ⟨?_, ⟨hi.to2, hi.ig2⟩, ?_, .inl rfl, fun ho => ?_, by simp [afterPull, failPull]⟩
    · exact live_fail_any (c := q2cfg c) e hg.live2 hi.to2 hi.ig2 hq hpc ⟨rfl, rfl, rfl, rfl, rfl, rfl⟩
    · have hsq : seenQ t.a = false := hm'
      unfold TI; simp [afterPull, failPull, hr, hkb, hres, stopSeen, hsq]
    · simp [Owes, afterPull, failPull, tRegion] at ho
  | item v =>
    have hm' : stopSeen t = false := by
      cases h : stopSeen t with
      | false => rfl
      | true => exact absurd (hm.mp h) (by simp [isStopH])
    rw [v2_l2 hr' (by rw [hseen, hm']; simp)]
    have hm'' : seenQ t.a = false := hm'
    simp only [afterPull]
    split
    · refine ⟨?_, ⟨hi.to2, hi.ig2⟩, ?_, .inl rfl, fun ho => ?_, by simp [failPull]⟩
      · exact live_fail_any (c := q2cfg c) .value hg.live2 hi.to2 hi.ig2 hq hpc ⟨rfl, rfl, rfl, rfl, rfl, rfl⟩
      · unfold TI; simp [failPull, hr, hkb, hres, stopSeen, hm'']
      · simp [Owes, failPull, tRegion] at ho
    · refine ⟨?_, ⟨hi.to2, hi.ig2⟩, ?_, .inr rfl, fun ho => ?_, by simp [hpc]⟩
      · exact live_fields (c := q2cfg c) hg.live2 hq ⟨rfl, rfl, rfl, rfl, rfl, rfl⟩
      · unfold TI; simp [hr, hkb, hres, hpc, stopSeen, hm'']
      · simp [Owes] at ho
    · refine ⟨?_, ⟨hi.to2, hi.ig2⟩, ?_, .inl rfl, fun ho => ?_, by simp⟩
      · exact live_enext_val (c := q2cfg c) hg.live2 hi.to2 hq hpc ⟨rfl, rfl, rfl, rfl, rfl, rfl⟩
      · unfold TI; simp [hr, hkb, hres, stopSeen, hm'']
      · simp [Owes, tRegion] at ho

theorem postProd_spec (tid : Tid) (t : Th) (s2' : Shared) (b' : Queue.Thread) (hxi : t.x = .idle) :
    (postProd tid t s2' b').role = t.role ∧
    ((b'.pc = .eNext ∧ (postProd tid t s2' b').b = b' ∧ (postProd tid t s2' b').x = .lockAcq ∧
        (postProd tid t s2' b').a = t.a) ∨
     (b'.pc = .eNext ∧ (∃ y, (postProd tid t s2' b').b = { b' with pc := .pAcq, v := (tid, y) }) ∧
        (postProd tid t s2' b').x = .idle ∧ (postProd tid t s2' b').a = t.a) ∨
     (b'.pc = .done ∧ wantUp t.b.pc s2' b' = true ∧ (postProd tid t s2' b').b = b' ∧ (postProd tid t s2' b').x = .up ∧
        (postProd tid t s2' b').a = stopperAt t.a) ∨
     (b'.pc ≠ .eNext ∧ (postProd tid t s2' b').b = b' ∧ (postProd tid t s2' b').x = .idle ∧
        (postProd tid t s2' b').a = t.a ∧ (b'.pc = .done → wantUp t.b.pc s2' b' = false))) := by
  refine ⟨postProd_role _ _ _ _, ?_⟩
  unfold postProd
  simp only []
  by_cases he : b'.pc = .eNext
  · simp only [he, beq_self_eq_true, if_true]
    unfold enterNext
    cases hp : t.pend with
    | nil => exact .inl ⟨trivial, rfl, rfl, rfl⟩
    | cons y ys => exact .inr (.inl ⟨trivial, ⟨y, rfl⟩, hxi, rfl⟩)
  · have he' : (b'.pc == Pc.eNext) = false := by simpa using he
    simp only [he', Bool.false_eq_true, if_false]
    split
    · rename_i hd
      simp only [Bool.and_eq_true, beq_iff_eq] at hd
      exact .inr (.inr (.inl ⟨hd.1, hd.2, rfl, rfl, rfl⟩))
    · rename_i hd
      refine .inr (.inr (.inr ⟨he, rfl, hxi, rfl, fun hdone => ?_⟩))
      cases hw : wantUp t.b.pc s2' b' with
      | false => rfl
      | true => exact absurd (by simp [hdone, hw]) hd

theorem stopSeen_stopperAt (t : Th) (a : Queue.Thread) (h : a.outcome = t.a.outcome) {t' : Th} (ha : t'.a = stopperAt a) :
    stopSeen t' = stopSeen t := by
  simp [stopSeen, seenQ, ha, stopperAt, h]

set_option maxHeartbeats 400000 in
theorem good_stepL2 {c c' : Cfg} {tid : Tid} {t : Th} {alt : Bool} {lbl : String} (hg : Good c)
    (ht : c.ths[tid]? = some t) (hr : t.role = .l2) (h : stepL2 F c tid t alt = some (lbl, c')) : Good c' := by
  have hi := hg.inv
  have hti := hi.ti t (List.mem_of_getElem? ht)
  have hq1 := q1_get ht
  have hq2 := q2_get ht
  have hc1 : c.s1.timeout = false ∧ c.s1.ignoreError = false := ⟨hi.to1, hi.ig1⟩
  have hc2 : c.s2.timeout = false ∧ c.s2.ignoreError = false := ⟨hi.to2, hi.ig2⟩
  have htid1 : tid < (q1cfg c).ths.length := (List.getElem?_eq_some_iff.mp hq1).1
  have htid2 : tid < (q2cfg c).ths.length := (List.getElem?_eq_some_iff.mp hq2).1
  have hkb : t.b.prog.kind = .producer := by unfold TI at hti; simp only [hr] at hti; exact hti.1
  have hnc : t.role ≠ .cons := by rw [hr]; simp
  have hti' := hti
  unfold TI at hti'
  simp only [hr] at hti'
  replace hti' := hti'.2
  unfold stepL2 at h
  split at h
  · -- start
    rename_i hpc
    split at h
    · simp at h
    split at h <;> simp only [Option.some.injEq, Prod.mk.injEq, reduceCtorEq] at h
    rename_i hgate
    obtain ⟨-, rfl⟩ := h
    obtain ⟨hxi, hres⟩ := l2_x_idle hr hti (by rw [hpc]; simp) (by rw [hpc]; simp)
    have hns : stopSeen t = false := by
      cases hm : stopSeen t with
      | false => rfl
      | true =>
        have := (l2_seen hr hti hxi hm).1
        rw [hpc] at this; simp [tRegion] at this
    rw [v1_l2_off hr (by simp [hxi]) (by simp [hxi])] at hq1
    rw [v2_l2 hr (by simp [hns])] at hq2
    refine good_mk2 (t' := { t with b := { t.b with pc := .sAcq } }) hg ht rfl ?_ (.keep ?_)
      (aux_task hnc id (fun ho => by simp [Owes, hxi, tRegion] at ho) (by simp [Th.started, hr]) (.inr hgate))
      (v1_l2_off hr (by simp [hxi]) (by simp [hxi])) (v2_l2 hr (by show ¬ (_ ∧ stopSeen t = true); simp [hns]))
      (live_keep hg.live1 hq1) ?_ hc1 hc2
    · unfold TI
      have hsq : seenQ t.a = false := hns
      simp [hr, hxi, hkb, hres, stopSeen, hsq]
    · simp [HoldsI, hr, hxi]
    · cases hprog : t.b.prog with
      | producer src r =>
        exact live_deleg (qc := q2cfg c) hg.live2 hi.to2 hq2 (stepThread_start_prod hpc hprog)
          ⟨rfl, rfl, rfl, rfl, rfl, rfl⟩
      | getLoop => rw [hprog] at hkb; cases hkb
      | batchLoop _ _ => rw [hprog] at hkb; cases hkb
      | stopper _ => rw [hprog] at hkb; cases hkb
  · -- eNext
    rename_i hpc
    have hst0 : t.started = true := by simp [Th.started, hr, hpc]
    split at h
    · -- lockAcq
      rename_i hxx
      simp only [hxx] at hti'
      have hres : t.a.result = [] := hti'.2.1
      have hns : stopSeen t = false := hti'.2.2
      rw [v1_l2_off hr (by simp [hxx]) (by simp [hxx])] at hq1
      rw [v2_l2 hr (by simp [hxx])] at hq2
      split at h
      · simp at h
      split at h
      · simp at h
      rename_i hil
      split at h
      · rename_i v rest hcache
        simp only [Option.some.injEq, Prod.mk.injEq] at h
        obtain ⟨-, rfl⟩ := h
        refine good_mk2 (t' := { t with hand := .item v.2, x := .lockRel }) hg ht rfl ?_ (.acq hil ?_)
          (aux_task hnc id (fun ho => by simp [Owes, isStopH] at ho) (by simp [Th.started, hr, hpc]) (.inl hst0))
          (v1_l2_off hr (by simp) (by simp)) (v2_l2 hr (by simp)) (live_keep hg.live1 hq1) (live_keep hg.live2 hq2)
          hc1 hc2
        · unfold TI
          have hsq : seenQ t.a = false := hns
          simp [hr, hkb, hpc, hres, stopSeen, hsq, isStopH]
        · simp [HoldsI, hr]
      · simp only [Option.some.injEq, Prod.mk.injEq] at h
        obtain ⟨-, rfl⟩ := h
        refine good_mk2
          (t' := { t with a := { t.a with pc := .bAcq, prog := .batchLoop c.bm1 false, result := [] }, x := .deq })
          hg ht rfl ?_ (.acq hil ?_)
          (aux_task hnc id (fun ho => by simp [Owes] at ho) (by simp [Th.started, hr, hpc]) (.inl hst0))
          (w1 := { t.a with pc := .bAcq, prog := .batchLoop c.bm1 false, result := [] }) (by simp [v1, hr])
          (v2_l2 hr (by simp))
          ?_ (live_keep hg.live2 hq2) hc1 hc2
        · unfold TI
          have hsq : seenQ { t.a with pc := .bAcq, prog := .batchLoop c.bm1 false, result := [] } = false :=
            (seenQ_congr rfl).trans hns
          simp [hr, hkb, hpc, show (Prog.batchLoop c.bm1 false).kind = PKind.batch from rfl, stopSeen, hsq]
        · simp [HoldsI, hr]
        · refine live_swap_off hg.live1 hq1 offQ_inert (offQ_of_pc (by simp [Prog.kind]) (by simp)) (fun h => ?_)
            ⟨fun k hk => by simp [pcKind] at hk; rw [← hk]; rfl, fun hk => absurd rfl hk⟩ ?_ ?_
          · rw [inert_class.2.2.2.2.2.2.2.2.2.2.2.2.2.2.1] at h; cases h
          · simp [TL]
          · simp [XOK, armed]
    · -- deq
      rename_i hxx
      simp only [hxx] at hti'
      obtain ⟨-, hka, hns, hnd, hnseen⟩ := hti'
      rw [v1_l2_on hr (.inl hxx)] at hq1
      rw [v2_l2 hr (by simp [hxx])] at hq2
      split at h
      · simp at h
      rename_i l s1' a' hst
      have htok : TOK t.a := hg.live1.base.tok t.a (List.mem_of_getElem? hq1)
      obtain ⟨k1, -, k3⟩ := stepThread_const l s1' a' hst
      obtain ⟨htok', hprog', -⟩ := stepThread_data l s1' a' hst htok
      have hkind := kind_of_tok htok hns hnd
      rw [hka] at hkind
      have hne : t.a.pc ≠ .eNext := by intro e; rw [e] at hkind; simp [pcKind] at hkind
      obtain ⟨-, -, -, -, -, hA, hB, -, -⟩ := stepThread_arm l s1' a' hst hne
      obtain ⟨hp1, hp2⟩ := stepThread_pc l s1' a' hst
      obtain ⟨-, -, -, hOut, -⟩ := stepThread_out l s1' a' hst
      have hka' : a'.prog.kind = .batch := by rw [hprog']; exact hka
      have hc1' : s1'.timeout = false ∧ s1'.ignoreError = false :=
        ⟨by rw [k1]; exact hi.to1, by rw [k3]; exact hi.ig1⟩
      split at h
      · rename_i hbe
        simp only [Option.some.injEq, Prod.mk.injEq] at h
        obtain ⟨-, rfl⟩ := h
        obtain ⟨-, hnr⟩ := batchEnd_none hbe
        have hseen' : seenQ a' = false := (seenQ_congr (hOut hkind hnr)).trans hnseen
        refine good_mk2 (t' := { t with a := a' }) hg ht rfl ?_ (.keep ?_)
          (aux_task hnc (done1_mono hg hq1 hst) (fun ho => by simp [Owes, hxx] at ho) (by simp [Th.started, hr, hpc])
            (.inl hst0))
          (v1_l2_on hr (.inl hxx)) (v2_l2 hr (by simp [hxx]))
          (live_deleg (qc := q1cfg c) hg.live1 hi.to1 hq1 hst (sameFields_refl _)) (live_keep hg.live2 hq2) hc1' hc2
        · unfold TI; simp [hr, hxx, hkb, hpc, hka', hp1, hp2 hkind hnr, stopSeen, hseen']
        · simp [HoldsI, hr, hxx]
      · rename_i hd cache' hbe
        simp only [Option.some.injEq, Prod.mk.injEq] at h
        obtain ⟨-, rfl⟩ := h
        have hend : (a'.pc = .done ∨ a'.pc = .bAcq) ∧ a'.result = [] := by
          rcases batchEnd_some hbe with e | e
          · exact ⟨.inr (hB e).1, (hB e).2.2.1⟩
          · exact ⟨.inl (hA e).1, (hA e).2.2.1⟩
        have hseen' : stopSeen { t with a := a', hand := hd, x := .lockRel } = true ↔ isStopH hd := by
          rcases batchEnd_some hbe with e | e
          · have h1 : stopSeen { t with a := a', hand := hd, x := .lockRel } = false :=
              (seenQ_congr (a' := a') (hOut hkind (by rw [e]; simp))).trans hnseen
            rw [h1]
            rw [e] at hbe
            rcases batchEnd_bE3 hbe with ⟨v, rfl⟩ | rfl <;> simp [isStopH]
          · rw [e] at hbe
            exact seen_iff_of_raise (batchEnd_raise hbe)
        have hmono := done1_mono hg hq1 hst
        have howes : Owes { t with a := a', hand := hd, x := .lockRel } → s1'.enqueueDone = true := by
          intro ho
          simp only [Owes, reduceCtorEq, false_and, or_false, true_and] at ho
          obtain ⟨-, ho⟩ := ho
          cases hd with
          | item v => simp [isStopH] at ho
          | err e => simp [isStopH] at ho
          | stop r =>
            have hbr := batchEnd_stop hbe
            have hx := (hg.live1.base.xok t.a (List.mem_of_getElem? hq1)).2.2.2.2.1 (by simp [armed, hbr])
            rcases hx with hx | hx
            · exact hmono (hg.live1.base.i3 hx)
            · rw [show (q1cfg c).sh.timeout = c.s1.timeout from rfl, hi.to1] at hx; cases hx
        refine good_mk2 (t' := { t with a := a', hand := hd, x := .lockRel }) hg ht rfl ?_ (.keep ?_)
          (aux_task hnc hmono howes (by simp [Th.started, hr, hpc]) (.inl hst0))
          (v1_l2_off hr (by simp) (by simp)) (v2_l2 hr (by simp))
          (live_deleg_leave (qc := q1cfg c) hg.live1 hi.to1 hq1 hst (q1_others_nc hi ht ⟨hr, .inl hxx⟩)
            (by rw [hka']; simp) hend.1)
          (live_keep hg.live2 hq2) hc1' hc2
        · unfold TI; simp only [hr]; exact ⟨hkb, hpc, hend.2, hseen'⟩
        · simp [HoldsI, hr, hxx]
    · -- lockRel
      rename_i hxx
      simp only [hxx] at hti'
      have hres : t.a.result = [] := hti'.2.1
      rw [v1_l2_off hr (by simp [hxx]) (by simp [hxx])] at hq1
      split at h
      · simp at h
      split at h
      · simp at h
      rename_i hil
      simp only [Option.some.injEq, Prod.mk.injEq] at h
      obtain ⟨-, rfl⟩ := h
      have hil' : c.ilock = some tid := by simpa using hil
      obtain ⟨g1, g2, g3, g4, g5, g6⟩ := afterPull_good (F := F) hg ht hr hxx hpc hres hkb t.hand hti'.2.2
      have hrole := afterPull_role F c.fwd tid c.s2 t t.hand
      have hr' : (afterPull F c.fwd tid c.s2 t t.hand).2.role = .l2 := by rw [hrole]; exact hr
      have howes : Owes (afterPull F c.fwd tid c.s2 t t.hand).2 → c.s1.enqueueDone = true := by
        intro ho
        obtain ⟨rets, hh⟩ := g5 ho
        exact hi.d1 t (List.mem_of_getElem? ht) ⟨hr, .inl ⟨hxx, by rw [hh]; trivial⟩⟩
      refine good_mk2 hg ht hrole g3 (.rel hil' ?_)
        (aux_task hnc id howes (by simp [Th.started, hr', g6]) (.inl hst0))
        (v1_l2_off hr' (by rcases g4 with e | e <;> simp [e]) (by rcases g4 with e | e <;> simp [e])) rfl
        (live_keep hg.live1 hq1) g1 hc1 g2
      rintro ⟨-, e | e⟩ <;> rcases g4 with e' | e' <;> rw [e'] at e <;> cases e
    · -- other x at eNext
      simp at h
  · -- done
    rename_i hpc
    split at h
    · rename_i hxx
      simp only [hxx] at hti'
      obtain ⟨-, hka, hns, hnd, hnseen⟩ := hti'
      rw [v1_l2_on hr (.inr hxx)] at hq1
      rw [v2_l2 hr (by simp [hxx])] at hq2
      split at h
      · simp at h
      rename_i l s1' a' hst
      simp only [Option.some.injEq, Prod.mk.injEq] at h
      obtain ⟨-, rfl⟩ := h
      have htok : TOK t.a := hg.live1.base.tok t.a (List.mem_of_getElem? hq1)
      obtain ⟨k1, -, k3⟩ := stepThread_const l s1' a' hst
      obtain ⟨htok', hprog', -⟩ := stepThread_data l s1' a' hst htok
      obtain ⟨hp1, -⟩ := stepThread_pc l s1' a' hst
      obtain ⟨-, -, -, -, hOut⟩ := stepThread_out l s1' a' hst
      have hkind := kind_of_tok htok hns hnd
      rw [hka] at hkind
      have hka' : a'.prog.kind = .stopper := by rw [hprog']; exact hka
      have hres' : a'.result = [] := htok'.res (by rw [hka']; simp)
      have hc1' : s1'.timeout = false ∧ s1'.ignoreError = false :=
        ⟨by rw [k1]; exact hi.to1, by rw [k3]; exact hi.ig1⟩
      have hd1 := live_deleg (qc := q1cfg c) hg.live1 hi.to1 hq1 hst (sameFields_refl _)
      have hst0 : t.started = true := by simp [Th.started, hr, hpc]
      have hmono := done1_mono hg hq1 hst
      have hseen' : seenQ a' = false := by
        have hn : seenQ t.a = false := hnseen
        unfold seenQ at hn ⊢
        cases ho : a'.outcome with
        | none => rfl
        | some o =>
          cases o with
          | stop r => rw [hOut hkind r ho] at hn; cases hn
          | empty => rfl
          | err e => rfl
      by_cases hd : a'.pc = .done
      · have hdone1 : s1'.enqueueDone = true := by
          have hmem : a' ∈ ({ sh := s1', ths := (q1cfg c).ths.set tid a' } : Queue.Cfg).ths :=
            List.mem_of_getElem? (i := tid) (by show ((q1cfg c).ths.set tid a')[tid]? = some a'; simp [htid1])
          have hx := (hd1.base.xok a' hmem).2.1 (by simp [hd, isStopper, hka'])
          rw [enqueueDone_iff]; exact .inr (.inl hx)
        refine good_mk2 (t' := { t with a := a', x := (if a'.pc == .done then XPc.idle else XPc.up) })
          hg ht rfl ?_ (.keep ?_) (aux_task hnc hmono (fun _ => hdone1) (by simp [Th.started, hr, hpc]) (.inl hst0))
          (w1 := inertT) (by simp [v1, hr, hd]) (v2_l2 hr (by simp [stopSeen, hseen'])) ?_ (live_keep hg.live2 hq2) hc1' hc2
        · unfold TI; simp [hr, hd, hkb, hpc, hres', stopSeen, hseen']
        · simp [HoldsI, hr, hd, hxx]
        · have := live_done_to_inert (tid := tid) (a := a') hd1
            (by show ((q1cfg c).ths.set tid a')[tid]? = some a'; simp [htid1]) (by rw [hka']; simp) hd
          simpa [List.set_set] using this
      · refine good_mk2 (t' := { t with a := a', x := (if a'.pc == .done then XPc.idle else XPc.up) })
          hg ht rfl ?_ (.keep ?_)
          (aux_task hnc hmono (fun ho => by simp [Owes, hd] at ho) (by simp [Th.started, hr, hpc]) (.inl hst0))
          (w1 := a') (by simp [v1, hr, hd]) (v2_l2 hr (by simp [hd])) hd1 (live_keep hg.live2 hq2) hc1' hc2
        · unfold TI; simp [hr, hd, hkb, hpc, hka', hp1, stopSeen, hseen']
        · simp [HoldsI, hr, hd, hxx]
    · simp at h
  · -- a step on the output queue
    rename_i hn1 hn2 hn3
    split at h
    · simp at h
    rename_i l s2' b' hst
    simp only [Option.some.injEq, Prod.mk.injEq] at h
    obtain ⟨-, rfl⟩ := h
    obtain ⟨hxi, hres⟩ := l2_x_idle hr hti (fun e => hn2 e) (fun e => hn3 e)
    rw [v1_l2_off hr (by simp [hxi]) (by simp [hxi])] at hq1
    obtain ⟨k1, -, k3⟩ := stepThread_const l s2' b' hst
    obtain ⟨hp1, -⟩ := stepThread_pc l s2' b' hst
    have hc2' : s2'.timeout = false ∧ s2'.ignoreError = false :=
      ⟨by rw [k1]; exact hi.to2, by rw [k3]; exact hi.ig2⟩
    obtain ⟨hrole, hspec⟩ := postProd_spec tid t s2' b' hxi
    have hr' : (postProd tid t s2' b').role = .l2 := by rw [hrole]; exact hr
    have hst0 : t.started = true := by
      simp only [Th.started, hr, bne_iff_ne, ne_eq]; exact fun e => hn1 e
    obtain ⟨hE1, hE2, hE3, -, -⟩ := stepThread_out l s2' b' hst
    cases hm : stopSeen t with
    | true =>
      -- inside a clean `_stop_enqueue`: the view normalises the arguments
      obtain ⟨hreg, hrr⟩ := l2_seen hr hti hxi hm
      have hreg' : tRegion t.b.pc = true := by
        rcases hreg with h | h
        · exact h
        · exact absurd h (fun e => hn3 e)
      rw [v2_l2s hr hxi hm] at hq2
      obtain ⟨hnext, hrr', -⟩ := hE3 hreg'
      have hne : b'.pc ≠ .eNext := by
        rcases hnext with h | h <;> intro e <;> rw [e] at h <;> simp [tRegion] at h
      have h1 := live_deleg_rets (qc := q2cfg c) hg.live2 hi.to2 hq2 hreg' hst
      have hkb' : b'.prog.kind = .producer := by
        have htok : TOK t.b := by
          have := hg.live2.base.tok _ (List.mem_of_getElem? hq2)
          exact ⟨this.kind, this.res⟩
        rw [(stepThread_data l s2' b' hst htok).2.1]; exact hkb
      rcases hspec with ⟨e1, -⟩ | ⟨e1, -⟩ | ⟨e1, ew, -⟩ | ⟨e1, e2, e3, e4, e5⟩
      · exact absurd e1 hne
      · exact absurd e1 hne
      · exfalso
        have hkindb : pcKind t.b.pc = some .producer := by
          cases hp : t.b.pc <;> simp [hp, tRegion] at hreg' <;> simp [pcKind]
        rcases hE2 e1 hkindb with ⟨htr, hout⟩ | ⟨-, hnr, -⟩
        · simp [wantUp, htr, hout, hrr] at ew
        · rw [hreg'] at hnr; cases hnr
      · have hseen' : stopSeen (postProd tid t s2' b') = true := by unfold stopSeen; rw [e4]; exact hm
        have howes : Owes (postProd tid t s2' b') → c.s1.enqueueDone = true := fun _ =>
          hi.d1 t (List.mem_of_getElem? ht) ⟨hr, .inr (.inl ⟨hxi, hreg', hrr⟩)⟩
        refine good_mk2 hg ht hrole ?_ (.keep ?_)
          (aux_task hnc id howes (by simp [Th.started, hr', e2, hp1]) (.inl hst0))
          (v1_l2_off hr' (by simp [e3]) (by simp [e3])) (v2_l2s hr' e3 hseen')
          (live_keep hg.live1 hq1) (by rw [e2]; exact h1) hc1 hc2'
        · unfold TI
          simp only [hr', e3]
          refine ⟨by rw [e2]; exact hkb', by rw [e2]; exact e1, by rw [e4]; exact hres, fun _ => ?_⟩
          rw [e2]; exact ⟨hnext, by rw [hrr']; exact hrr⟩
        · simp [HoldsI, hr, hr', e3, hxi]
    | false =>
      rw [v2_l2 hr (by simp [hm])] at hq2
      have htok : TOK t.b := hg.live2.base.tok t.b (List.mem_of_getElem? hq2)
      obtain ⟨htok', hprog', -⟩ := stepThread_data l s2' b' hst htok
      have hkb' : b'.prog.kind = .producer := by rw [hprog']; exact hkb
      have h1 := live_deleg (qc := q2cfg c) hg.live2 hi.to2 hq2 hst (sameFields_refl _)
      have hkindb : pcKind t.b.pc = some .producer := by
        rw [kind_of_tok htok (fun e => hn1 e) (fun e => hn3 e), hkb]
      have hns' : ∀ t' : Th, t'.a = t.a → stopSeen t' = false := by
        intro t' e; unfold stopSeen; rw [e]; exact hm
      rcases hspec with ⟨e1, e2, e3, e4⟩ | ⟨e1, ⟨y, e2⟩, e3, e4⟩ | ⟨e1, ew, e2, e3, e4⟩ | ⟨e1, e2, e3, e4, e5⟩
      · refine good_mk2 hg ht hrole ?_ (.keep ?_)
          (aux_task hnc id (fun ho => by simp [Owes, e3] at ho) (by simp [Th.started, hr', e2, hp1]) (.inl hst0))
          (v1_l2_off hr' (by simp [e3]) (by simp [e3])) (v2_l2 hr' (by simp [e3]))
          (live_keep hg.live1 hq1) (by rw [e2]; exact h1) hc1 hc2'
        · unfold TI; simp [hr', e2, e3, e4, hkb', e1, hres, hns' _ e4]
        · simp [HoldsI, hr, hr', e3, hxi]
      · refine good_mk2 hg ht hrole ?_ (.keep ?_)
          (aux_task hnc id (fun ho => by simp [Owes, e3, e2, tRegion] at ho) (by simp [Th.started, hr', e2]) (.inl hst0))
          (v1_l2_off hr' (by simp [e3]) (by simp [e3])) (v2_l2 hr' (by simp [hns' _ e4]))
          (live_keep hg.live1 hq1) ?_ hc1 hc2'
        · unfold TI; simp [hr', e2, e3, e4, hkb', hres, hns' _ e4]
        · simp [HoldsI, hr, hr', e3, hxi]
        · rw [e2]
          have := live_enext_val (b := { b' with pc := .pAcq, v := (tid, y) }) h1 (by show s2'.timeout = false; exact hc2'.1)
            (by show ((q2cfg c).ths.set tid b')[tid]? = some b'; simp [htid2]) e1 ⟨rfl, rfl, rfl, rfl, rfl, rfl⟩
          simpa [List.set_set] using this
      · have hseen' : stopSeen (postProd tid t s2' b') = false :=
          (stopSeen_stopperAt t t.a rfl e4).trans hm
        refine good_mk2 hg ht hrole ?_ (.keep ?_)
          (aux_task hnc id (fun ho => by simp [Owes, e3] at ho) (by simp [Th.started, hr', e2, hp1]) (.inl hst0))
          (w1 := stopperAt t.a) (by rw [v1_l2_on hr' (.inr e3), e4]) (v2_l2 hr' (by simp [e3]))
          (live_inert_to_stopper (qc := q1cfg c) hg.live1 hq1 hres) (by rw [e2]; exact h1) hc1 hc2'
        · unfold TI
          simp [hr', e2, e3, e4, hkb', e1, show (stopperAt t.a).prog.kind = PKind.stopper from rfl,
            show (stopperAt t.a).pc = Pc.mAcq from rfl, hseen']
        · simp [HoldsI, hr, hr', e3, hxi]
      · have howes : Owes (postProd tid t s2' b') → c.s1.enqueueDone = true := by
          rintro ⟨-, ho | ho | ho⟩
          · rw [e3] at ho; cases ho.1
          · rw [e2] at ho
            rcases hE1 ho.2.1 with ⟨hreg, hre⟩ | he | ⟨-, hre⟩
            · exact hi.d1 t (List.mem_of_getElem? ht) ⟨hr, .inr (.inl ⟨hxi, hreg, by rw [← hre]; exact ho.2.2⟩)⟩
            · exact absurd he (fun e => hn2 e)
            · rw [ho.2.2] at hre; cases hre
          · rw [e2] at ho
            have hw := e5 ho.2
            rcases hE2 ho.2 hkindb with ⟨htr, hout⟩ | ⟨htr, hreg, hdn, hrets, hre⟩
            · have hnone : t.b.reraise = none := by
                simp only [wantUp, htr, beq_self_eq_true, if_true, hout] at hw
                cases hrr : t.b.reraise with
                | none => rfl
                | some e => rw [hrr] at hw; simp at hw
              exact hi.d1 t (List.mem_of_getElem? ht) ⟨hr, .inr (.inl ⟨hxi, by rw [htr]; rfl, hnone⟩)⟩
            · exfalso
              have hne : (t.b.pc == Pc.tRel) = false := by simpa using htr
              simp only [wantUp, hne, Bool.false_eq_true, if_false, Bool.or_eq_false_iff] at hw
              have hstop : stopped b' = false := by
                have := stopped_false_of_TL (hg.live2.base.tl t.b (List.mem_of_getElem? hq2)) hkindb hreg
                simpa [stopped, hrets, hre] using this
              exact no_early_by_count h1 (by show ((q2cfg c).ths.set tid b')[tid]? = some b'; simp [htid2]) hkb' ho.2
                hstop hdn hw.1 hw.2
        refine good_mk2 hg ht hrole ?_ (.keep ?_)
          (aux_task hnc id howes (by simp [Th.started, hr', e2, hp1]) (.inl hst0))
          (v1_l2_off hr' (by simp [e3]) (by simp [e3])) (v2_l2 hr' (by simp [hns' _ e4]))
          (live_keep hg.live1 hq1) (by rw [e2]; exact h1) hc1 hc2'
        · unfold TI; simp [hr', e2, e3, e4, hkb', e1, hres, hns' _ e4]
        · simp [HoldsI, hr, hr', e3, hxi]

/-- **both queues' no-lost-wake-up invariants are inductive over the steps of the two-queue LTS** -/
theorem good_step {c c' : Cfg} {tid : Tid} {alt : Bool} {lbl : String} (hg : Good c)
    (h : step F c tid alt = some (lbl, c')) : Good c' := by
  unfold step at h
  split at h
  · simp at h
  · rename_i t ht
    split at h
    · rename_i hr; exact good_stepCons hg ht hr h
    · rename_i hr; exact good_stepL1 hg ht hr h
    · rename_i hr; exact good_stepL2 hg ht hr h

theorem good_reachable {c0 c : Cfg} (h0 : Good c0) (h : Reachable F c0 c) : Good c := by
  induction h with
  | init => exact h0
  | step _ hs ih => exact good_step ih hs

end MlModel.Piter2
