import MlModel.Lemmas.Lru
/-! Invariant of `LruCache`, refinement of the textbook LRU, and the history characterisation. -/
namespace MlModel.Lru
set_option linter.unusedSectionVars false
set_option linter.unusedSimpArgs false
variable {κ ν : Type} [DecidableEq κ]

/-- The representation invariant of `LruCache`: the counter is the length, keys are distinct,
and the bound holds. -/
structure Inv (c : Cache κ ν) : Prop where
  size : c.currsize = c.data.length
  nodup : (keysOf c.data).Nodup
  bound : c.data.length ≤ c.maxsize

theorem inv_empty (n : Nat) : Inv (empty n : Cache κ ν) :=
  ⟨rfl, by simp [empty], by simp [empty]⟩

theorem inv_clear (c : Cache κ ν) : Inv c.clear := ⟨rfl, by simp [Cache.clear], by simp [Cache.clear]⟩

/-- keys after `move_to_end` -/
theorem keysOf_moveToEnd {d : List (κ × ν)} {k : κ} (h : k ∈ keysOf d) :
    keysOf (moveToEnd d k) = (keysOf d).filter (fun x => !(x == k)) ++ [k] := by
  have := (find?_isSome_iff d k).mpr h
  cases hf : find? d k with
  | none => simp [hf] at this
  | some v => simp [moveToEnd, hf, keysOf_remove]

theorem moveToEnd_length {d : List (κ × ν)} {k : κ} (hn : (keysOf d).Nodup) :
    (moveToEnd d k).length = d.length := by
  cases hf : find? d k with
  | none => simp [moveToEnd, hf]
  | some v =>
    have hk : k ∈ keysOf d := (find?_isSome_iff d k).mp (by simp [hf])
    have := remove_length_of_mem hn hk
    simp [moveToEnd, hf]; omega

theorem nodup_moveToEnd {d : List (κ × ν)} {k : κ} (hn : (keysOf d).Nodup) :
    (keysOf (moveToEnd d k)).Nodup := by
  cases hf : find? d k with
  | none => simpa [moveToEnd, hf] using hn
  | some v =>
    simp only [moveToEnd, hf, keysOf_append, keysOf_cons, keysOf_nil]
    rw [List.nodup_append]
    refine ⟨nodup_remove k hn, by simp, ?_⟩
    intro a ha b hb
    simp only [List.mem_singleton] at hb
    subst hb
    intro e; subst e
    exact not_mem_remove d a ha

theorem getitem_maxsize (c : Cache κ ν) (k : κ) : (c.getitem k).2.maxsize = c.maxsize := by
  unfold Cache.getitem; cases find? c.data k <;> rfl

theorem setitem_maxsize (c : Cache κ ν) (k : κ) (v : ν) : (c.setitem k v).maxsize = c.maxsize := by
  unfold Cache.setitem
  simp only
  split <;> split <;> (try split) <;> rfl

theorem step_maxsize (c : Cache κ ν) (op : Op κ ν) : (c.step op).maxsize = c.maxsize := by
  cases op <;> simp [Cache.step, getitem_maxsize, setitem_maxsize, Cache.clear]

/-- `__getitem__` behaves like the textbook `get` on the entry list. -/
theorem getitem_data (c : Cache κ ν) (k : κ) : (c.getitem k).2.data = Spec.get c.data k := by
  unfold Cache.getitem Spec.get Spec.touch moveToEnd
  cases hf : find? c.data k <;> simp [hf]

theorem getitem_result (c : Cache κ ν) (k : κ) : (c.getitem k).1 = find? c.data k := by
  unfold Cache.getitem; cases find? c.data k <;> rfl

theorem inv_getitem {c : Cache κ ν} (h : Inv c) (k : κ) : Inv (c.getitem k).2 := by
  unfold Cache.getitem
  cases hf : find? c.data k with
  | none => exact ⟨h.size, h.nodup, h.bound⟩
  | some v =>
    refine ⟨?_, nodup_moveToEnd h.nodup, ?_⟩
    · simp [moveToEnd_length h.nodup, h.size]
    · simp [moveToEnd_length h.nodup, h.bound]

/-- `__setitem__` of a key that is **not** present: exactly the textbook `put`. -/
theorem setitem_new {c : Cache κ ν} (h : Inv c) {k : κ} (v : ν) (hk : k ∉ keysOf c.data) :
    (c.setitem k v).data = Spec.put c.maxsize c.data k v ∧ Inv (c.setitem k v) := by
  have hnd : (keysOf (c.data ++ [(k, v)])).Nodup := by
    simp only [keysOf_append, keysOf_cons, keysOf_nil]
    rw [List.nodup_append]
    refine ⟨h.nodup, by simp, ?_⟩
    intro a ha b hb
    simp only [List.mem_singleton] at hb
    subst hb; intro e; subst e; exact hk ha
  unfold Cache.setitem Spec.put Spec.touch
  simp only [(has_false_iff c.data k).mpr hk, Bool.not_false, if_true, assign_new v hk,
    moveToEnd_append_new v hk, remove_of_not_mem hk]
  by_cases hgt : c.currsize + 1 > c.maxsize
  · have hlen : (c.data ++ [(k, v)]).length > c.maxsize := by simp; have := h.size; omega
    simp only [hgt, if_true, hlen]
    cases hd : c.data ++ [(k, v)] with
    | nil => simp at hd
    | cons p rest =>
      obtain ⟨k0, v0⟩ := p
      rw [hd] at hnd
      have hr := remove_head hnd
      simp only at hr
      simp only [hr, List.drop_one, List.tail_cons, true_and]
      have hl : rest.length = c.data.length := by
        have := congrArg List.length hd; simp at this; omega
      refine ⟨by simp [hl, h.size], ?_, by simp [hl, h.bound]⟩
      simp only [keysOf_cons, List.nodup_cons] at hnd
      exact hnd.2
  · have hlen : ¬ (c.data ++ [(k, v)]).length > c.maxsize := by simp; have := h.size; omega
    simp only [hgt, if_false, hlen, true_and]
    refine ⟨by simp [h.size], hnd, ?_⟩
    simp; have := h.size; omega

/-- `__setitem__` of a key that **is** present, as coded: the value is replaced in place, the
order of the entries (their age) does not change, nothing is evicted. -/
theorem setitem_present {c : Cache κ ν} (h : Inv c) {k : κ} (v : ν) (hk : k ∈ keysOf c.data) :
    (c.setitem k v).data = c.data.map (fun p => if p.1 == k then (k, v) else p) ∧
    keysOf (c.setitem k v).data = keysOf c.data ∧ Inv (c.setitem k v) := by
  have hle : ¬ c.currsize > c.maxsize := by have := h.size; have := h.bound; omega
  have hd : (c.setitem k v).data = assign c.data k v ∧ (c.setitem k v).currsize = c.currsize := by
    unfold Cache.setitem
    simp [(has_iff c.data k).mpr hk, hle]
  refine ⟨?_, ?_, ?_⟩
  · rw [hd.1]; simp [assign, (has_iff c.data k).mpr hk]
  · rw [hd.1]; exact keysOf_assign_present v hk
  · refine ⟨?_, ?_, ?_⟩
    · rw [hd.1, hd.2, assign_length_present v hk]; exact h.size
    · rw [hd.1, keysOf_assign_present v hk]; exact h.nodup
    · rw [hd.1, assign_length_present v hk, setitem_maxsize]; exact h.bound

theorem inv_setitem {c : Cache κ ν} (h : Inv c) (k : κ) (v : ν) : Inv (c.setitem k v) := by
  by_cases hk : k ∈ keysOf c.data
  · exact (setitem_present h v hk).2.2
  · exact (setitem_new h v hk).2

theorem inv_step {c : Cache κ ν} (h : Inv c) (op : Op κ ν) : Inv (c.step op) := by
  cases op with
  | get k => exact inv_getitem h k
  | set k v => exact inv_setitem h k v
  | clear => exact inv_clear c

theorem inv_run {c : Cache κ ν} (h : Inv c) (ops : List (Op κ ν)) : Inv (c.run ops) := by
  induction ops generalizing c with
  | nil => exact h
  | cons op ops ih => exact ih (inv_step h op)

theorem run_maxsize (c : Cache κ ν) (ops : List (Op κ ν)) : (c.run ops).maxsize = c.maxsize := by
  induction ops generalizing c with
  | nil => rfl
  | cons op ops ih => simp only [Cache.run, List.foldl_cons] at *; rw [ih, step_maxsize]

/-- The protocol `_maybe_lru_cache` / `cache_insert` of a fresh id follow: a key is only ever
inserted when it is not present. -/
def Respects : Cache κ ν → List (Op κ ν) → Prop
  | _, [] => True
  | c, op :: ops =>
    (match op with | .set k _ => k ∉ keysOf c.data | _ => True) ∧ Respects (c.step op) ops

/-- Refinement: on every history that respects the protocol the entry list of the real cache is
the entry list of the textbook LRU of capacity `maxsize`, step by step. -/
theorem run_refines {c : Cache κ ν} (h : Inv c) (ops : List (Op κ ν)) (hr : Respects c ops) :
    (c.run ops).data = Spec.run c.maxsize c.data ops := by
  induction ops generalizing c with
  | nil => rfl
  | cons op ops ih =>
    obtain ⟨h1, h2⟩ := hr
    simp only [Cache.run, Spec.run, List.foldl_cons] at *
    have hstep : (c.step op).data = Spec.step c.maxsize c.data op := by
      cases op with
      | get k => exact getitem_data c k
      | set k v => exact (setitem_new h v h1).1
      | clear => rfl
    rw [ih (inv_step h op) h2, step_maxsize, hstep]

end MlModel.Lru
