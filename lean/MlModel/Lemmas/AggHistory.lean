import MlModel.Model.Agg.History
import MlModel.Lemmas.AggLawfulU
/-!
# Reads are transparent (work package SC07)

`Hist.run` executes a history in which `result()` may write into the object it reads
(`RMergeable.read`).  Two *local* laws about one read,

* `read_val`: the value returned is `result` of the state the object was in,
* `read_eqv`: the object is left in an observationally equivalent state,

together with the merge laws `LawfulU` give, for **every** history — any number of accumulators,
reads interleaved anywhere with `add` / `merge` / `merge_states` on the same states:

* `run_obs`  : every read returns the one-shot value of all the data that reached its accumulator
  so far (`result (ofBatch data)`, or `result empty` if nothing was ever fed) — `obsP`;
* `run_accs` : every accumulator is equivalent to the evaluation of its history expression
  (`prov`, which ignores reads);
* `result_eq_of_same_mutations` : two histories with the same mutations in the same order — reads
  inserted or deleted anywhere — cannot be told apart by any later read;
* `read_erase` : deleting one read from a history deletes exactly its own observation.

The pure models of the four metric families are instances (`pureRead_laws`); a model of a
`cached_property` that a later in-place merge does not invalidate is not (Witness/C11History).
-/
namespace MlModel.Agg

variable {X S R : Type}

structure ReadLaws (m : RMergeable X S R) (Eqv : S → S → Prop) : Prop where
  /-- a read returns the pure `result` of the state it finds -/
  read_val : ∀ s, (m.read s).2 = m.result s
  /-- a read leaves an observationally equivalent state behind -/
  read_eqv : ∀ s, Eqv (m.read s).1 s

theorem Mergeable.pureRead_laws (m : Mergeable X S R) (Eqv : S → S → Prop) (hrefl : ∀ s, Eqv s s) :
    ReadLaws m.pureRead Eqv where
  read_val _ := rfl
  read_eqv s := hrefl s

namespace Hist

/-- symbolic execution: the history expression of every accumulator.  Reads do nothing. -/
def stepP (π : Nat → Expr X) : Op X → (Nat → Expr X)
  | .new i => upd π i .fresh
  | .add i b => upd π i (.merge (π i) (.batch b))
  | .merge i j => upd π i (.merge (π i) (π j))
  | .mergeStates i js => upd π i ((js.map π).foldl Expr.merge (π i))
  | .read _ => π

def provFrom (π : Nat → Expr X) (ops : List (Op X)) : Nat → Expr X := ops.foldl stepP π

/-- the history expression of accumulator `i` after `ops` -/
def prov (ops : List (Op X)) : Nat → Expr X := provFrom (fun _ => .fresh) ops

/-- what C01 says a read returns: the one-shot value of the data so far -/
def readP (m : Mergeable X S R) (π : Nat → Expr X) : Op X → List R
  | .read i => [m.result ((π i).canon m)]
  | _ => []

/-- the observations of a history according to the statement of C01 (no state, no reads executed) -/
def obsP (m : Mergeable X S R) : (Nat → Expr X) → List (Op X) → List R
  | _, [] => []
  | π, op :: ops => readP m π op ++ obsP m (stepP π op) ops

theorem obsP_append (m : Mergeable X S R) (π : Nat → Expr X) (a b : List (Op X)) :
    obsP m π (a ++ b) = obsP m π a ++ obsP m (provFrom π a) b := by
  induction a generalizing π with
  | nil => simp [obsP, provFrom]
  | cons op a ih => simp [obsP, provFrom, ih, List.append_assoc]

theorem provFrom_append (π : Nat → Expr X) (a b : List (Op X)) :
    provFrom π (a ++ b) = provFrom (provFrom π a) b := by
  simp [provFrom, List.foldl_append]

/-- reads do not enter the history expression of any accumulator -/
theorem provFrom_filter (π : Nat → Expr X) (ops : List (Op X)) :
    provFrom π (ops.filter Op.isMut) = provFrom π ops := by
  induction ops generalizing π with
  | nil => rfl
  | cons op ops ih =>
    cases op <;> simp [List.filter, Op.isMut, provFrom, stepP] <;> exact ih _

variable {m : RMergeable X S R} {Eqv : S → S → Prop}

/-- every accumulator is equivalent to the evaluation of its history expression -/
def Inv (m : RMergeable X S R) (Eqv : S → S → Prop) (σ : Nat → S) (π : Nat → Expr X) : Prop :=
  ∀ i, Eqv (σ i) ((π i).eval m.toMergeable)

theorem inv_upd {σ : Nat → S} {π : Nat → Expr X} (h : Inv m Eqv σ π) (i : Nat) {s : S} {e : Expr X}
    (hs : Eqv s (e.eval m.toMergeable)) : Inv m Eqv (upd σ i s) (upd π i e) := by
  intro k
  by_cases hk : k = i
  · simp only [upd, hk, if_true]; exact hs
  · simp only [upd, hk, if_false]; exact h k

theorem foldl_merge_inv (hl : LawfulU m.toMergeable Eqv) {σ : Nat → S} {π : Nat → Expr X}
    (h : Inv m Eqv σ π) (js : List Nat) :
    ∀ (s : S) (e : Expr X), Eqv s (e.eval m.toMergeable) →
      Eqv ((js.map σ).foldl m.merge s) (((js.map π).foldl Expr.merge e).eval m.toMergeable) := by
  induction js with
  | nil => intro s e hs; simpa using hs
  | cons j js ih =>
    intro s e hs
    simp only [List.map_cons, List.foldl_cons]
    exact ih _ _ (by simpa [Expr.eval] using hl.merge_congr hs (h j))

theorem step_inv (hl : LawfulU m.toMergeable Eqv) (hr : ReadLaws m Eqv) {c : Cfg S R}
    {π : Nat → Expr X} (h : Inv m Eqv c.accs π) (op : Op X) :
    Inv m Eqv (step m c op).accs (stepP π op) := by
  cases op with
  | new i => exact inv_upd h i (hl.refl _)
  | add i b =>
    exact inv_upd h i (by simpa [Expr.eval, Mergeable.add] using hl.merge_congr (h i) (hl.refl _))
  | merge i j => exact inv_upd h i (by simpa [Expr.eval] using hl.merge_congr (h i) (h j))
  | mergeStates i js => exact inv_upd h i (foldl_merge_inv hl h js _ _ (h i))
  | read i =>
    intro k
    by_cases hk : k = i
    · simp only [step, stepP, upd, hk, if_true]; exact hl.trans (hr.read_eqv _) (h i)
    · simp only [step, stepP, upd, hk, if_false]; exact h k

theorem step_obs (hl : LawfulU m.toMergeable Eqv) (hr : ReadLaws m Eqv) {c : Cfg S R}
    {π : Nat → Expr X} (h : Inv m Eqv c.accs π) (op : Op X) :
    (step m c op).obs = c.obs ++ readP m.toMergeable π op := by
  cases op with
  | read i =>
    simp only [step, readP]
    rw [hr.read_val, hl.result_congr (h i), hl.eval_result]
  | new i => simp [step, readP]
  | add i b => simp [step, readP]
  | merge i j => simp [step, readP]
  | mergeStates i js => simp [step, readP]

theorem runFrom_spec (hl : LawfulU m.toMergeable Eqv) (hr : ReadLaws m Eqv) (ops : List (Op X)) :
    ∀ (c : Cfg S R) (π : Nat → Expr X), Inv m Eqv c.accs π →
      Inv m Eqv (runFrom m c ops).accs (provFrom π ops) ∧
      (runFrom m c ops).obs = c.obs ++ obsP m.toMergeable π ops := by
  induction ops with
  | nil => intro c π h; exact ⟨h, by simp [runFrom, obsP]⟩
  | cons op ops ih =>
    intro c π h
    have h1 := step_inv hl hr h op
    have h2 := step_obs hl hr h op
    obtain ⟨i1, i2⟩ := ih (step m c op) (stepP π op) h1
    refine ⟨by simpa [runFrom, provFrom] using i1, ?_⟩
    simp only [runFrom, List.foldl_cons, obsP] at i2 ⊢
    rw [i2, h2, List.append_assoc]

theorem init_inv (hl : LawfulU m.toMergeable Eqv) :
    Inv m Eqv (init m).accs (fun _ => (Expr.fresh : Expr X)) := fun _ => hl.refl _

/-- **Every accumulator of every history with reads** is equivalent to the evaluation of its history
expression, hence (LawfulU.eval_eqv) to ONE batch of all the data that reached it. -/
theorem run_accs (hl : LawfulU m.toMergeable Eqv) (hr : ReadLaws m Eqv) (ops : List (Op X)) (i : Nat) :
    Eqv ((run m ops).accs i) ((prov ops i).eval m.toMergeable) :=
  (runFrom_spec hl hr ops _ _ (init_inv hl)).1 i

/-- **Every read of every history returns the one-shot value of the data so far.** -/
theorem run_obs (hl : LawfulU m.toMergeable Eqv) (hr : ReadLaws m Eqv) (ops : List (Op X)) :
    (run m ops).obs = obsP m.toMergeable (fun _ => Expr.fresh) ops := by
  have := (runFrom_spec hl hr ops _ _ (init_inv hl)).2
  simpa [run, init] using this

/-- a read issued after any history returns the one-shot value -/
theorem result_after (hl : LawfulU m.toMergeable Eqv) (hr : ReadLaws m Eqv) (ops : List (Op X)) (i : Nat) :
    m.result ((run m ops).accs i) = m.result ((prov ops i).canon m.toMergeable) := by
  rw [hl.result_congr (run_accs hl hr ops i), hl.eval_result]

/-- **Reads are transparent**: two histories with the same mutations in the same order (reads
inserted, deleted or moved anywhere) leave every accumulator in equivalent states … -/
theorem accs_eqv_of_same_mutations (hl : LawfulU m.toMergeable Eqv) (hr : ReadLaws m Eqv)
    {ops ops' : List (Op X)} (h : ops.filter Op.isMut = ops'.filter Op.isMut) (i : Nat) :
    Eqv ((run m ops).accs i) ((run m ops').accs i) := by
  have e : prov ops = prov ops' := by
    unfold prov
    rw [← provFrom_filter _ ops, ← provFrom_filter _ ops', h]
  have h1 := run_accs hl hr ops i
  have h2 := run_accs hl hr ops' i
  rw [e] at h1
  exact hl.trans h1 (hl.symm h2)

/-- … so that no later read can tell them apart. -/
theorem result_eq_of_same_mutations (hl : LawfulU m.toMergeable Eqv) (hr : ReadLaws m Eqv)
    {ops ops' : List (Op X)} (h : ops.filter Op.isMut = ops'.filter Op.isMut) (i : Nat) :
    m.result ((run m ops).accs i) = m.result ((run m ops').accs i) :=
  hl.result_congr (accs_eqv_of_same_mutations hl hr h i)

/-- **Deleting one read deletes exactly its own observation**: everything read before and after
is unchanged. -/
theorem read_erase (hl : LawfulU m.toMergeable Eqv) (hr : ReadLaws m Eqv)
    (pre post : List (Op X)) (i : Nat) :
    (run m (pre ++ Op.read i :: post)).obs =
        (run m pre).obs ++ m.result ((prov pre i).canon m.toMergeable) ::
          obsP m.toMergeable (prov pre) post ∧
      (run m (pre ++ post)).obs = (run m pre).obs ++ obsP m.toMergeable (prov pre) post := by
  rw [run_obs hl hr, run_obs hl hr, run_obs hl hr, obsP_append, obsP_append]
  exact ⟨by simp [obsP, readP, stepP, prov], rfl⟩

end Hist
end MlModel.Agg
