import MlModel.Lemmas.AggHeap
import MlModel.Model.Agg.HeapObs
/-!
# Returned values and caller writes: invariants for every lawful class (work package C11T)

`HLawsR cls` = `HLaws` for make / add / merge plus what `add`'s returned object and `result()` must
guarantee: `result()` writes no existing cell; the private arrays of a returned value are fresh (or,
for `add`, arrays the receiver owned and has just let go: the *previous state object* of an
`update_state` that returns a new one) and are not referenced by the accumulator; the exposed ones are `shared` (never written) cells of the
accumulator.  From that, for every history of make / add / merge / result / poke:

* `InvR`: separation, every private array ever returned is referenced by **no** accumulator, every
  exposed one is **written by no** accumulator;
* `frameR_step`: an operation leaves every accumulator other than its receiver unchanged — `result`
  and `poke` have no receiver, so they change nobody;
* `out_stable_run`: the content of every array of every returned value is the same after any later
  history in which the caller does not poke that very array.
-/
namespace MlModel.Agg.Heap

variable {C B : Type} [Inhabited C]

/-! ## how one base operation changes heap and footprints -/

/-- `σ'` is a successor of `σ`: the heap grew, cells nobody owns kept their content, and whatever
old cell a footprint of `σ'` mentions was already in a footprint (of the same kind) of `σ` -/
structure Evolves {cls : HClass C B} (σ σ' : Sys cls) : Prop where
  size : σ.heap.size ≤ σ'.heap.size
  keep : ∀ r, r < σ.heap.size → (∀ (i : Nat) (o : cls.Obj), σ.objs[i]? = some o → r ∉ (cls.fp o).owned) →
    σ'.heap.read r = σ.heap.read r
  owned : ∀ (j : Nat) (o' : cls.Obj), σ'.objs[j]? = some o' → ∀ r ∈ (cls.fp o').owned, r < σ.heap.size →
    ∃ (i : Nat) (o : cls.Obj), σ.objs[i]? = some o ∧ r ∈ (cls.fp o).owned
  refs : ∀ (j : Nat) (o' : cls.Obj), σ'.objs[j]? = some o' → ∀ r ∈ (cls.fp o').refs, r < σ.heap.size →
    ∃ (i : Nat) (o : cls.Obj), σ.objs[i]? = some o ∧ r ∈ (cls.fp o).refs

theorem Evolves.refl {cls : HClass C B} (σ : Sys cls) : Evolves σ σ :=
  ⟨Nat.le_refl _, fun _ _ _ => rfl, fun j o' h r hr _ => ⟨j, o', h, hr⟩, fun j o' h r hr _ => ⟨j, o', h, hr⟩⟩

theorem lt_of_getElem?_some {α : Type} {l : List α} {i : Nat} {a : α} (h : l[i]? = some a) :
    i < l.length := by
  rcases Nat.lt_or_ge i l.length with h' | h'
  · exact h'
  · rw [List.getElem?_eq_none_iff.mpr h'] at h; cases h

theorem Evolves.of_set {cls : HClass C B} {σ : Sys cls} {i : Nat} {s s' : cls.Obj} {h' : Heap C}
    (hi : σ.objs[i]? = some s) (ext : ExtendsExcept σ.heap h' (cls.fp s).owned)
    (hown : ∀ r ∈ (cls.fp s').owned, r ∈ (cls.fp s).owned ∨ σ.heap.size ≤ r)
    (hsh : ∀ r ∈ (cls.fp s').shared, r ∈ (cls.fp s).shared ∨
      (∃ (j : Nat) (o : cls.Obj), σ.objs[j]? = some o ∧ r ∈ (cls.fp o).shared) ∨ σ.heap.size ≤ r) :
    Evolves σ (⟨h', σ.objs.set i s'⟩ : Sys cls) := by
  have hlt := lt_of_getElem?_some hi
  have own' : ∀ (j : Nat) (o' : cls.Obj), (σ.objs.set i s')[j]? = some o' → ∀ r ∈ (cls.fp o').owned, r < σ.heap.size →
      ∃ (i : Nat) (o : cls.Obj), σ.objs[i]? = some o ∧ r ∈ (cls.fp o).owned := by
    intro j o' hj r hr hlt'
    by_cases hji : j = i
    · subst hji
      rw [List.getElem?_set_self hlt] at hj; cases hj
      rcases hown r hr with h1 | h1
      · exact ⟨j, s, hi, h1⟩
      · omega
    · rw [List.getElem?_set_ne (Ne.symm hji)] at hj
      exact ⟨j, o', hj, hr⟩
  refine ⟨ext.1, ?_, own', ?_⟩
  · intro r hr hno
    exact ext.2 r hr (hno i s hi)
  · intro j o' hj r hr hlt'
    by_cases hji : j = i
    · subst hji
      rcases mem_refs.mp hr with h1 | h1
      · obtain ⟨a, o, ha, hm⟩ := own' j o' hj r h1 hlt'
        exact ⟨a, o, ha, mem_refs.mpr (Or.inl hm)⟩
      · rw [List.getElem?_set_self hlt] at hj; cases hj
        rcases hsh r h1 with h2 | ⟨a, o, ha, hm⟩ | h2
        · exact ⟨j, s, hi, mem_refs.mpr (Or.inr h2)⟩
        · exact ⟨a, o, ha, mem_refs.mpr (Or.inr hm)⟩
        · omega
    · rw [List.getElem?_set_ne (Ne.symm hji)] at hj
      exact ⟨j, o', hj, hr⟩

theorem getElem?_append_singleton {α : Type} {l : List α} {x a : α} {j : Nat}
    (h : (l ++ [x])[j]? = some a) : l[j]? = some a ∨ (j = l.length ∧ a = x) := by
  rcases Nat.lt_or_ge j l.length with h' | h'
  · left; rw [List.getElem?_append_left h'] at h; exact h
  · right
    rw [List.getElem?_append_right h'] at h
    have : j - l.length = 0 := by
      rcases Nat.eq_zero_or_pos (j - l.length) with h0 | h0
      · exact h0
      · rw [List.getElem?_eq_none_iff.mpr (by simp; omega)] at h; cases h
    rw [this] at h
    simp at h
    exact ⟨by omega, h.symm⟩

/-- every base operation of a lawful class, from a separated state, is an `Evolves` step -/
theorem evolves_step {cls : HClass C B} (laws : HLaws cls) {σ : Sys cls} (hs : Sep σ) (op : Op B) :
    Evolves σ (σ.step op) := by
  cases op with
  | make =>
    obtain ⟨ext, hfresh, _, _⟩ := laws.make_spec σ.heap
    simp only [Sys.step]
    refine ⟨ext.1, fun r hr _ => ext.2 r hr (by simp), ?_, ?_⟩
    · intro j o' hj r hr hlt
      rcases getElem?_append_singleton hj with h | ⟨_, rfl⟩
      · exact ⟨j, o', h, hr⟩
      · have := hfresh r (mem_refs.mpr (Or.inl hr)); omega
    · intro j o' hj r hr hlt
      rcases getElem?_append_singleton hj with h | ⟨_, rfl⟩
      · exact ⟨j, o', h, hr⟩
      · have := hfresh r hr; omega
  | add i b =>
    simp only [Sys.step]
    cases hi : σ.objs[i]? with
    | none => exact Evolves.refl σ
    | some o =>
      obtain ⟨ext, hown, hsh, _, _⟩ := laws.add_spec σ.heap o b (hs.valid i o hi) (hs.self i o hi)
      exact Evolves.of_set hi ext hown
        (fun r hr => (hsh r hr).elim Or.inl (fun h => Or.inr (Or.inr h)))
  | merge i j =>
    simp only [Sys.step]
    by_cases hij : i = j
    · rw [if_pos hij]; exact Evolves.refl σ
    · rw [if_neg hij]
      cases hi : σ.objs[i]? with
      | none => exact Evolves.refl σ
      | some s =>
        cases hj : σ.objs[j]? with
        | none => exact Evolves.refl σ
        | some o =>
          obtain ⟨ext, hown, hsh, _, _⟩ := laws.merge_spec σ.heap s o (hs.valid i s hi)
            (hs.valid j o hj) (hs.self i s hi) (hs.self j o hj) (hs.sep i j s o hij hi hj)
            (hs.sep j i o s (Ne.symm hij) hj hi)
          refine Evolves.of_set hi ext hown (fun r hr => ?_)
          rcases hsh r hr with h | h | h
          · exact Or.inl h
          · exact Or.inr (Or.inl ⟨j, o, hj, h⟩)
          · exact Or.inr (Or.inr h)

/-! ## the contract of `add`'s returned object and of `result()` -/

structure HLawsR (cls : HClassR C B) : Prop where
  base : HLaws cls.toHClass
  addOut_spec : ∀ h o b, Valid h (cls.fp o) → SelfSep (cls.fp o) →
    (∀ r ∈ (cls.addOut h o b).priv, (h.size ≤ r ∨ r ∈ (cls.fp o).owned) ∧ r < (cls.add h o b).1.size ∧
      r ∉ (cls.fp (cls.add h o b).2).refs) ∧
    (∀ r ∈ (cls.addOut h o b).exposed, r ∈ (cls.fp o).shared)
  result_spec : ∀ h o, Valid h (cls.fp o) →
    ExtendsExcept h (cls.result h o).1 [] ∧
    (∀ r ∈ (cls.result h o).2.priv, h.size ≤ r ∧ r < (cls.result h o).1.size) ∧
    (∀ r ∈ (cls.result h o).2.exposed, r ∈ (cls.fp o).shared)

/-- no accumulator may write cell `r` -/
def NotOwned {cls : HClassR C B} (σ : SysR cls) (r : Ref) : Prop :=
  r < σ.heap.size ∧ ∀ (i : Nat) (o : cls.Obj), σ.objs[i]? = some o → r ∉ (cls.fp o).owned

/-- no accumulator references cell `r` -/
def Private {cls : HClassR C B} (σ : SysR cls) (r : Ref) : Prop :=
  r < σ.heap.size ∧ ∀ (i : Nat) (o : cls.Obj), σ.objs[i]? = some o → r ∉ (cls.fp o).refs

theorem Private.notOwned {cls : HClassR C B} {σ : SysR cls} {r : Ref} (h : Private σ r) :
    NotOwned σ r :=
  ⟨h.1, fun i o hi hm => h.2 i o hi (mem_refs.mpr (Or.inl hm))⟩

/-- the invariant of every history -/
structure InvR {cls : HClassR C B} (σ : SysR cls) : Prop where
  sep : Sep σ.base
  priv : ∀ out ∈ σ.outs, ∀ r ∈ out.priv, Private σ r
  exposed : ∀ out ∈ σ.outs, ∀ r ∈ out.exposed, NotOwned σ r

theorem InvR.init (cls : HClassR C B) : InvR (SysR.init cls) :=
  ⟨Sep.init cls.toHClass, fun o h => by simp [SysR.init] at h, fun o h => by simp [SysR.init] at h⟩

/-- a `shared` cell of a live accumulator is written by nobody -/
theorem shared_notOwned {cls : HClassR C B} {σ : SysR cls} (hs : Sep σ.base) {i : Nat} {o : cls.Obj}
    (hi : σ.objs[i]? = some o) {r : Ref} (hr : r ∈ (cls.fp o).shared) : NotOwned σ r := by
  refine ⟨hs.valid i o hi r (mem_refs.mpr (Or.inr hr)), fun j oj hj hm => ?_⟩
  by_cases hji : j = i
  · subst hji
    have hj' : σ.objs[j]? = some oj := hj
    rw [hi] at hj'; cases hj'
    exact hs.self j o hi r hm hr
  · exact hs.sep j i oj o hji hj hi r hm (mem_refs.mpr (Or.inr hr))

/-- the heap and the accumulators after a base operation, seen from `SysR` -/
theorem stepR_base {cls : HClassR C B} (σ : SysR cls) (op : Op B) :
    (σ.step (.base op)).base = σ.base.step op := rfl

theorem outs_base_old {cls : HClassR C B} (σ : SysR cls) (op : Op B) (out : Out)
    (h : out ∈ (σ.step (.base op)).outs) :
    out ∈ σ.outs ∨ ∃ i b o, op = .add i b ∧ σ.objs[i]? = some o ∧ out = cls.addOut σ.heap o b := by
  cases op with
  | make => exact Or.inl h
  | merge i j => exact Or.inl h
  | add i b =>
    simp only [SysR.step] at h
    cases hi : σ.objs[i]? with
    | none => rw [hi] at h; exact Or.inl h
    | some o =>
      rw [hi] at h
      rcases List.mem_append.mp h with h | h
      · exact Or.inl h
      · exact Or.inr ⟨i, b, o, rfl, hi, by simpa using h⟩

/-- what `add i b` does to the population (receiver present) -/
theorem base_step_add {cls : HClass C B} (σ : Sys cls) (i : Nat) (b : B) (o : cls.Obj)
    (hi : σ.objs[i]? = some o) :
    σ.step (.add i b) = ⟨(cls.add σ.heap o b).1, σ.objs.set i (cls.add σ.heap o b).2⟩ := by
  simp only [Sys.step, hi]

theorem NotOwned.evolve {cls : HClassR C B} {σ σ' : SysR cls} (ev : Evolves σ.base σ'.base)
    {r : Ref} (h : NotOwned σ r) : NotOwned σ' r :=
  ⟨Nat.lt_of_lt_of_le h.1 ev.size, fun j o' hj hm => by
    obtain ⟨i, o, hi, hm'⟩ := ev.owned j o' hj r hm h.1
    exact h.2 i o hi hm'⟩

theorem Private.evolve {cls : HClassR C B} {σ σ' : SysR cls} (ev : Evolves σ.base σ'.base)
    {r : Ref} (h : Private σ r) : Private σ' r :=
  ⟨Nat.lt_of_lt_of_le h.1 ev.size, fun j o' hj hm => by
    obtain ⟨i, o, hi, hm'⟩ := ev.refs j o' hj r hm h.1
    exact h.2 i o hi hm'⟩

/-- **the invariant is preserved by every operation** -/
theorem InvR.step {cls : HClassR C B} (laws : HLawsR cls) {σ : SysR cls} (inv : InvR σ)
    (op : OpR B C) : InvR (σ.step op) := by
  cases op with
  | base op =>
    have ev : Evolves σ.base (σ.step (.base op)).base := evolves_step laws.base inv.sep op
    refine ⟨inv.sep.step laws.base op, ?_, ?_⟩
    · intro out hout r hr
      rcases outs_base_old σ op out hout with h | ⟨i, b, o, rfl, hi, rfl⟩
      · exact (inv.priv out h r hr).evolve ev
      · obtain ⟨hp, _⟩ := laws.addOut_spec σ.heap o b (inv.sep.valid i o hi) (inv.sep.self i o hi)
        obtain ⟨h1, h2, h3⟩ := hp r hr
        have hst : (σ.step (.base (.add i b))).base
            = ⟨(cls.add σ.heap o b).1, σ.objs.set i (cls.add σ.heap o b).2⟩ :=
          base_step_add σ.base i b o hi
        have hlt := lt_of_getElem?_some hi
        refine ⟨by rw [show (σ.step (.base (.add i b))).heap = (σ.step (.base (.add i b))).base.heap from rfl, hst]; exact h2, ?_⟩
        intro j oj hj hm
        have hj' : (σ.step (.base (.add i b))).base.objs[j]? = some oj := hj
        rw [hst] at hj'
        by_cases hji : j = i
        · subst hji
          simp only [List.getElem?_set_self hlt] at hj'
          cases hj'
          exact h3 hm
        · simp only [] at hj'
          rw [List.getElem?_set_ne (Ne.symm hji)] at hj'
          rcases h1 with h1 | h1
          · have := inv.sep.valid j oj hj' r hm
            have h1' : σ.base.heap.size ≤ r := h1
            omega
          · exact inv.sep.sep i j o oj (Ne.symm hji) hi hj' r h1 hm
    · intro out hout r hr
      rcases outs_base_old σ op out hout with h | ⟨i, b, o, rfl, hi, rfl⟩
      · exact (inv.exposed out h r hr).evolve ev
      · obtain ⟨_, he⟩ := laws.addOut_spec σ.heap o b (inv.sep.valid i o hi) (inv.sep.self i o hi)
        exact (shared_notOwned inv.sep hi (he r hr)).evolve ev
  | result i =>
    simp only [SysR.step]
    cases hi : σ.objs[i]? with
    | none => exact inv
    | some o =>
      obtain ⟨ext, hp, he⟩ := laws.result_spec σ.heap o (inv.sep.valid i o hi)
      have hsep : Sep (⟨(cls.result σ.heap o).1, σ.objs⟩ : Sys cls.toHClass) :=
        ⟨fun j oj hj => (inv.sep.valid j oj hj).mono ext.1, inv.sep.self, inv.sep.sep⟩
      refine ⟨hsep, ?_, ?_⟩
      · intro out hout r hr
        rcases List.mem_append.mp hout with h | h
        · obtain ⟨h1, h2⟩ := inv.priv out h r hr
          exact ⟨Nat.lt_of_lt_of_le h1 ext.1, h2⟩
        · have : out = (cls.result σ.heap o).2 := by simpa using h
          subst this
          obtain ⟨h1, h2⟩ := hp r hr
          refine ⟨h2, fun j oj hj hm => ?_⟩
          have h3 : r < σ.heap.size := inv.sep.valid j oj hj r hm
          omega
      · intro out hout r hr
        rcases List.mem_append.mp hout with h | h
        · obtain ⟨h1, h2⟩ := inv.exposed out h r hr
          exact ⟨Nat.lt_of_lt_of_le h1 ext.1, h2⟩
        · have : out = (cls.result σ.heap o).2 := by simpa using h
          subst this
          obtain ⟨h1, h2⟩ := shared_notOwned inv.sep hi (he r hr)
          exact ⟨Nat.lt_of_lt_of_le h1 ext.1, h2⟩
  | poke k n c =>
    simp only [SysR.step]
    cases hp : σ.pokeRef k n with
    | none => exact inv
    | some t =>
      have hsz : (σ.heap.write t c).size = σ.heap.size := size_write _ _ _
      refine ⟨⟨fun j oj hj => (inv.sep.valid j oj hj).mono (Nat.le_of_eq hsz.symm), inv.sep.self,
        inv.sep.sep⟩, ?_, ?_⟩
      · intro out hout r hr
        obtain ⟨h1, h2⟩ := inv.priv out hout r hr
        exact ⟨by simp only [hsz]; exact h1, h2⟩
      · intro out hout r hr
        obtain ⟨h1, h2⟩ := inv.exposed out hout r hr
        exact ⟨by simp only [hsz]; exact h1, h2⟩

/-- **the invariant holds after every history** -/
theorem InvR.run {cls : HClassR C B} (laws : HLawsR cls) (ops : List (OpR B C)) :
    InvR ((SysR.init cls).run ops) := by
  have : ∀ (σ : SysR cls), InvR σ → InvR (σ.run ops) := by
    induction ops with
    | nil => intro σ h; exact h
    | cons op ops ih => intro σ h; exact ih _ (h.step laws op)
  exact this _ (InvR.init cls)

/-- the array a `poke` targets is one of the private arrays of a returned value -/
theorem pokeRef_mem {cls : HClassR C B} {σ : SysR cls} {k n : Nat} {t : Ref}
    (h : σ.pokeRef k n = some t) : ∃ out ∈ σ.outs, t ∈ out.priv := by
  simp only [SysR.pokeRef] at h
  cases hk : σ.outs[k]? with
  | none => rw [hk] at h; cases h
  | some out =>
    rw [hk] at h
    exact ⟨out, List.mem_of_getElem? hk, List.mem_of_getElem? h⟩

/-- **frame**: every accumulator other than the receiver keeps its record and the content of every
cell it references; `result` and `poke` have no receiver -/
theorem frameR_step {cls : HClassR C B} (laws : HLawsR cls) {σ : SysR cls} (inv : InvR σ)
    (op : OpR B C) (j : Nat) (oj : cls.Obj) (hj : σ.objs[j]? = some oj)
    (hrecv : op.receiver ≠ some j) :
    (σ.step op).objs[j]? = some oj ∧
      ∀ r ∈ (cls.fp oj).refs, (σ.step op).heap.read r = σ.heap.read r := by
  cases op with
  | base op => exact frame_step laws.base inv.sep op j oj hj hrecv
  | result i =>
    simp only [SysR.step]
    cases hi : σ.objs[i]? with
    | none => exact ⟨hj, fun _ _ => rfl⟩
    | some o =>
      obtain ⟨ext, _, _⟩ := laws.result_spec σ.heap o (inv.sep.valid i o hi)
      exact ⟨hj, fun r hr => ext.2 r (inv.sep.valid j oj hj r hr) (by simp)⟩
  | poke k n c =>
    simp only [SysR.step]
    cases hp : σ.pokeRef k n with
    | none => exact ⟨hj, fun _ _ => rfl⟩
    | some t =>
      refine ⟨hj, fun r hr => read_write_other _ _ (fun e => ?_)⟩
      obtain ⟨out, hout, ht⟩ := pokeRef_mem hp
      exact (inv.priv out hout t ht).2 j oj hj (e ▸ hr)

/-- the caller's poke at `r`, if the operation is one -/
def OpR.pokes {cls : HClassR C B} (σ : SysR cls) (r : Ref) : OpR B C → Prop
  | .poke k n _ => σ.pokeRef k n = some r
  | _ => False

/-- one step keeps the content of every cell that nobody owns, unless the caller pokes it -/
theorem notOwned_read_step {cls : HClassR C B} (laws : HLawsR cls) {σ : SysR cls} (inv : InvR σ)
    (op : OpR B C) {r : Ref} (hr : NotOwned σ r) (hp : ¬ op.pokes σ r) :
    (σ.step op).heap.read r = σ.heap.read r ∧ NotOwned (σ.step op) r := by
  cases op with
  | base op =>
    have ev : Evolves σ.base (σ.step (.base op)).base := evolves_step laws.base inv.sep op
    exact ⟨ev.keep r hr.1 hr.2, hr.evolve ev⟩
  | result i =>
    simp only [SysR.step]
    cases hi : σ.objs[i]? with
    | none => exact ⟨rfl, hr⟩
    | some o =>
      obtain ⟨ext, _, _⟩ := laws.result_spec σ.heap o (inv.sep.valid i o hi)
      exact ⟨ext.2 r hr.1 (by simp), Nat.lt_of_lt_of_le hr.1 ext.1, hr.2⟩
  | poke k n c =>
    simp only [SysR.step]
    cases hk : σ.pokeRef k n with
    | none => exact ⟨rfl, hr⟩
    | some t =>
      have hne : r ≠ t := fun e => hp (by simp only [OpR.pokes]; rw [hk, e])
      exact ⟨read_write_other _ _ hne, by simp only [NotOwned, size_write]; exact hr⟩

/-- a poke that hits a cell nobody owned before a step already named that cell before the step: the
private arrays of a value returned by the step itself are fresh, or were owned by the receiver -/
theorem pokeRef_step {cls : HClassR C B} (laws : HLawsR cls) {σ : SysR cls} (inv : InvR σ)
    (op : OpR B C) {k n : Nat} {r : Ref} (hno : NotOwned σ r)
    (h : (σ.step op).pokeRef k n = some r) : σ.pokeRef k n = some r := by
  have key : ∀ (extra : Out), (∀ t ∈ extra.priv, σ.heap.size ≤ t ∨
        ∃ (i : Nat) (o : cls.Obj), σ.objs[i]? = some o ∧ t ∈ (cls.fp o).owned) →
      ((σ.outs ++ [extra])[k]?).bind (fun o => o.priv[n]?) = some r → σ.pokeRef k n = some r := by
    intro extra hfresh h
    simp only [SysR.pokeRef]
    cases hk : (σ.outs ++ [extra])[k]? with
    | none => rw [hk] at h; cases h
    | some out =>
      rw [hk] at h
      rcases getElem?_append_singleton hk with h' | ⟨_, rfl⟩
      · rw [h']; exact h
      · rcases hfresh r (List.mem_of_getElem? h) with h1 | ⟨i, o, hi, hm⟩
        · have := hno.1; omega
        · exact absurd hm (hno.2 i o hi)
  cases op with
  | base op =>
    cases op with
    | make => exact h
    | merge i j => exact h
    | add i b =>
      simp only [SysR.step, SysR.pokeRef] at h
      cases hi : σ.objs[i]? with
      | none => rw [hi] at h; exact h
      | some o =>
        rw [hi] at h
        obtain ⟨hp, _⟩ := laws.addOut_spec σ.heap o b (inv.sep.valid i o hi) (inv.sep.self i o hi)
        exact key _ (fun t ht => (hp t ht).1.elim Or.inl (fun hm => Or.inr ⟨i, o, hi, hm⟩)) h
  | result i =>
    simp only [SysR.step] at h
    cases hi : σ.objs[i]? with
    | none => rw [hi] at h; exact h
    | some o =>
      rw [hi] at h
      obtain ⟨_, hp, _⟩ := laws.result_spec σ.heap o (inv.sep.valid i o hi)
      exact key _ (fun t ht => Or.inl (hp t ht).1) h
  | poke k' n' c =>
    simp only [SysR.step] at h
    cases hk : σ.pokeRef k' n' with
    | none => rw [hk] at h; exact h
    | some t => rw [hk] at h; exact h

/-- **returned values are stable**: a cell nobody owns (every array of every returned value is
one, `InvR`) has the same content after any later history in which the caller does not poke it -/
theorem notOwned_read_run {cls : HClassR C B} (laws : HLawsR cls) (ops : List (OpR B C)) :
    ∀ (σ : SysR cls), InvR σ → ∀ r, NotOwned σ r →
      (∀ k n c, OpR.poke k n c ∈ ops → σ.pokeRef k n ≠ some r) →
      (σ.run ops).heap.read r = σ.heap.read r := by
  induction ops with
  | nil => intro σ _ r _ _; rfl
  | cons op ops ih =>
    intro σ inv r hr hp
    have hnp : ¬ op.pokes σ r := by
      cases op with
      | poke k n c => exact fun e => hp k n c (List.mem_cons_self) e
      | base op => exact fun e => e
      | result i => exact fun e => e
    obtain ⟨h1, h2⟩ := notOwned_read_step laws inv op hr hnp
    have := ih (σ.step op) (inv.step laws op) r h2 (fun k n c hm e =>
      hp k n c (List.mem_cons_of_mem _ hm) (pokeRef_step laws inv op hr e))
    simp only [SysR.run, List.foldl_cons] at this ⊢
    rw [this, h1]

/-- every array of every returned value is a cell nobody owns -/
theorem InvR.out_notOwned {cls : HClassR C B} {σ : SysR cls} (inv : InvR σ) {out : Out}
    (hout : out ∈ σ.outs) {r : Ref} (hr : r ∈ out.refs) : NotOwned σ r := by
  rcases List.mem_append.mp hr with h | h
  · exact (inv.priv out hout r h).notOwned
  · exact inv.exposed out hout r h

end MlModel.Agg.Heap
